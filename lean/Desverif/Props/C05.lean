/-
C05 — Timers fire exactly at their deadline and are never lost.

Only property theorems live here.  `Timer` (Model/Timer.lean) is the model of one module's timer
driver as des implements it (des/src/time/{driver,sleep,timeout,interval}.rs and
`ModuleRef::{activate,deactivate}`), with `TimerQueue::next` as repaired by
patches/C05-next-skips-empty-slots.diff; `nextOrig` is the function before the repair.
All statements quantify over every queue state, every number of timers, every deadline
(unbounded `Nat` nanoseconds, equal deadlines included) and every sequence of events, each with an
arbitrary list of queue operations (register / drop / reset in any order; a module shutdown is the
list of drops `pre` of an event).
-/
import Desverif.Proofs.TimerFire
import Desverif.Proofs.TimerSleep
import Desverif.Proofs.TimerSim
import Desverif.Proofs.TimerSched
import Desverif.Proofs.TimerTerm
import Desverif.Proofs.TimerPrecise
import Desverif.Proofs.TimerRegSim
import Desverif.Proofs.TimerWake
namespace C05
open Timer

/-- The empty driver of a freshly built module satisfies the wake-up invariant. -/
theorem wakeinv_init : WakeInv 0 {} := Timer.wakeinv_init

/-- **WakeInv is preserved by every event of the module**: whatever the handler and the tasks do
    to the queue (`e.ops`: registrations of future deadlines by `Sleep::poll`, handle drops, resets
    to any deadline — earlier, later, past) and whatever is dropped outside the event (`e.pre`), if
    the event set delivers the event no later than the module's scheduled wake-ups, then after
    `deactivate`: nothing live is overdue, `next_wakeup` names a wake-up event that is in the event
    set, and every non-empty slot is covered by it. -/
theorem wakeinv_preserved {now : Nat} {t : State} (h : WakeInv now t) {e : Ev} (he : EvOk t e) :
    WakeInv e.time (stepEv t e).1 := wakeinv_step h he

/-- … hence by every history of events. -/
theorem wakeinv_all_histories (evs : List Ev) (hc : Consistent {} evs) :
    WakeInv (lastTime 0 evs) (runEvs {} evs).1 := wakeinv_run Timer.wakeinv_init evs hc

/-- **Never lost**: between events, a registered entry with deadline `d` is not overdue and the
    event set holds a wake-up event of its module at some `w` with `now < w ≤ d`. -/
theorem live_timer_has_wakeup {now : Nat} {t : State} (h : WakeInv now t) {d : Nat} {e : Entry}
    (hl : HasEntry t.pending d e) (hd : d < tMax) :
    now < d ∧ ∃ w ∈ t.wakeups, now < w ∧ w ≤ d := by
  obtain ⟨h0, h1, h2, h3⟩ := live_has_wakeup h hl hd
  exact ⟨h0, t.nextWakeup, h1, h2, h3⟩

/-- **Fires exactly at the deadline.**  Take any state satisfying WakeInv with an entry `e`
    registered at `d`, and any continuation of the simulation (`evs`: times as the event set can
    deliver them, arbitrary queue operations) that runs until the module has no wake-up event left,
    in which nobody drops or resets that sleep before it fires.  Then the run contains an event of
    the module at exactly time `d` whose `activate` wakes `e`, and every earlier event is strictly
    before `d`: not late, not lost. (Not early: `never_early`.) -/
theorem fires_exactly_at_deadline {now : Nat} {t : State} (hinv : WakeInv now t) {d : Nat} {e : Entry}
    (hl : HasEntry t.pending d e) (hd : d < tMax) (evs : List Ev) (hc : Consistent t evs)
    (hkeep : Keeps e.sid d evs) (hdone : (runEvs t evs).1.wakeups = []) :
    ∃ pre w post, (runEvs t evs).2 = pre ++ (d, w) :: post ∧ e ∈ w ∧ ∀ x ∈ pre, x.1 < d :=
  fires_core hinv hl hd evs hc hkeep hdone

/-- **Exactly once.**  If moreover the sleep's entries are only in the slot `d` and nobody registers
    that sleep again (a `Sleep` registers only while it has no handle, and ids are unique), then the
    event at time `d` is the *only* event whose `activate` wakes `e`: no event before it (all of
    them strictly earlier than `d`) and no event after it does. -/
theorem fires_exactly_once {now : Nat} {t : State} (hinv : WakeInv now t) {d : Nat} {e : Entry}
    (hl : HasEntry t.pending d e) (hd : d < tMax) (ho : OnlyAt e.sid d t.pending) (evs : List Ev)
    (hc : Consistent t evs) (hkeep : Keeps e.sid d evs) (hreg : NoReg e.sid evs)
    (hdone : (runEvs t evs).1.wakeups = []) :
    ∃ pre w post, (runEvs t evs).2 = pre ++ (d, w) :: post ∧ e ∈ w ∧
      (∀ x ∈ pre, x.1 < d ∧ e ∉ x.2) ∧ (∀ x ∈ post, e ∉ x.2) :=
  fires_once hinv hl hd ho evs hc hkeep hreg hdone

/-- **Woken only when due** (never early and never late at the level of wakers): under WakeInv every
    entry that the `activate` of an event wakes was registered for exactly the time of that event —
    never from an overdue slot, and `bump` never pops a slot that is still in the future. -/
theorem woken_only_when_due {now : Nat} {t : State} (h : WakeInv now t) {e : Ev} (he : EvOk t e)
    (hpre : ∀ o ∈ e.pre, o.isRemove = true) (hlt : e.time < tMax) :
    ∀ x ∈ (stepEv t e).2, HasEntry (applyOps t e.pre).pending e.time x :=
  woken_exactly_due h he hpre hlt

/-- `Sleep::poll` before the deadline on a fresh `Sleep` registers its entry (so the theorems
    above apply to it) and returns `Pending`. -/
theorem sleep_poll_registers (s : Sleep) (tid now : Nat) (h : now < s.deadline) (hh : s.handle = none)
    (t : State) :
    (s.poll tid now).2.2 = false ∧
    HasEntry (applyOps t (s.poll tid now).2.1).pending s.deadline ⟨s.id, tid⟩ :=
  Timer.sleep_poll_registers s tid now h hh t

/-- **Never early / ready on time**: a poll completes iff the deadline is reached, whatever woke
    the task (scheduled wake-up, spurious poll from `select!`, another timer). -/
theorem never_early (s : Sleep) (tid now : Nat) : (s.poll tid now).2.2 = true ↔ s.deadline ≤ now :=
  sleep_poll_ready s tid now

/-- **A deadline that is already reached completes immediately** — without touching the queue. -/
theorem reached_deadline_immediate (s : Sleep) (tid now : Nat) (h : s.deadline ≤ now) :
    s.poll tid now = ({ s with handle := none, armed := none }, [], true) := by
  unfold Sleep.poll
  rw [if_neg (by omega)]

/-- everything `Sleep::poll`, `Sleep::reset` and dropping a `Sleep` do to the queue is an operation
    admitted by `EvOk` (registrations only of deadlines in the future) -/
theorem sleep_ops_admissible (s : Sleep) (tid now d' : Nat) :
    (∀ o ∈ (s.poll tid now).2.1, o.ok now) ∧ (∀ o ∈ (s.reset d').2, o.ok now) ∧ (∀ o ∈ s.drop, o.ok now) :=
  ⟨sleep_poll_ok s tid now, sleep_reset_ok s d' now, sleep_drop_ok s now⟩

/-- One poll of `Timeout`: `Ok` iff the inner future is ready at this poll (inner first, so a tie at
    the deadline is `Ok`), otherwise `Elapsed` iff the deadline is reached, otherwise pending. -/
theorem timeout_poll_result (ir : Bool) (s : Sleep) (tid now : Nat) :
    (Timeout.poll ir s tid now).2.2 =
      if ir then some true else if s.deadline ≤ now then some false else none :=
  timeout_poll_spec ir s tid now

/-- **timeout returns the inner result iff the inner future completes no later than the deadline.**
    Poll the `Timeout` at any strictly increasing times that include the deadline (that poll happens:
    `fires_exactly_at_deadline`), the inner future being ready or not at each of them.  Then it
    completes, no later than the deadline; with `Ok` at the first poll ≤ deadline where the inner future is
    ready, or with `Elapsed` at exactly the deadline and the inner future was ready at no poll ≤ deadline. -/
theorem timeout_ok_iff_inner_by_deadline (s : Sleep) (tid : Nat) (polls : List (Nat × Bool))
    (hsorted : polls.Pairwise (fun a b => a.1 < b.1)) (hd : ∃ ir, (s.deadline, ir) ∈ polls) :
    ∃ τ r, Timeout.run s tid polls = some (τ, r) ∧
      ((r = true ∧ (τ, true) ∈ polls ∧ τ ≤ s.deadline) ∨
       (r = false ∧ τ = s.deadline ∧ ∀ x ∈ polls, x.1 ≤ s.deadline → x.2 = false)) :=
  timeout_run_spec s tid polls hsorted hd

/-- A due interval tick returns the instant it was scheduled for, re-arms the delay at
    `nextDeadline` and leaves the queue alone; a poll before the deadline returns nothing and keeps the deadline. -/
theorem interval_tick_due (i : Interval) (tid now : Nat) :
    (i.delay.deadline ≤ now →
      i.pollTick tid now =
        ({ i with delay := { id := i.delay.id, deadline := i.nextDeadline i.delay.deadline now, handle := none } },
         [], some i.delay.deadline)) ∧
    (now < i.delay.deadline →
      (i.pollTick tid now).2.2 = none ∧ (i.pollTick tid now).1.delay.deadline = i.delay.deadline) :=
  ⟨pollTick_due i tid now, pollTick_early i tid now⟩

/-- **Interval tick times per behaviour**: on time (at most 5 ms late) every behaviour schedules
    `timeout + period`; late: `Burst` keeps `timeout + period`, `Delay` takes `now + period`, `Skip`
    takes the next multiple of the period after `now` on the original grid. -/
theorem interval_tick_times (i : Interval) (timeout now : Nat) :
    (now ≤ timeout + lateNs → i.nextDeadline timeout now = timeout + i.period) ∧
    (i.mode = .burst → i.nextDeadline timeout now = timeout + i.period) ∧
    (i.mode = .delay → now > timeout + lateNs → i.nextDeadline timeout now = now + i.period) ∧
    (i.mode = .skip → 0 < i.period → now > timeout + lateNs →
      now < i.nextDeadline timeout now ∧ i.nextDeadline timeout now ≤ now + i.period ∧
      (i.nextDeadline timeout now - timeout) % i.period = 0) := by
  refine ⟨next_ontime i timeout now, fun hm => next_burst i hm timeout now, ?_, fun hm hp => next_skip i hm hp timeout now⟩
  intro hm hl
  rw [next_delay i hm, if_pos hl]

/-- `Burst`: the instants returned by successive `tick()`s are `start, start+p, start+2p, …`
    however late the polls come. -/
theorem interval_burst_ticks (i : Interval) (hm : i.mode = .burst) (tid : Nat) (nows : List Nat) :
    ∃ n, Interval.ticks i tid nows = (List.range n).map (fun k => i.delay.deadline + k * i.period) :=
  burst_ticks i hm tid nows

/-! ### the scripted simulation (Model/TimerSim.lean — what the driver runs against the real code) -/

/-- **Every script term only performs admissible queue operations**: one `Future::poll` of any
    program built from sleep / sleep_until / timeout / select / seq / named-timer poll, reset, drop,
    await / interval tick, reset / shutdown steps, in any context, emits only registrations of
    future deadlines, handle drops and resets — the `ops` that `wakeinv_preserved` quantifies over. -/
theorem script_ops_admissible (f : Fut) (c : Ctx) (h : ∀ o ∈ c.ops, o.ok c.now) :
    (poll f c).2.now = c.now ∧ ∀ o ∈ (poll f c).2.ops, o.ok c.now := by
  have hm := moves_poll f (Moves.refl c)
  obtain ⟨δ, e, o⟩ := hm.ops
  exact ⟨hm.now, by rw [e]; exact okOps_append h o⟩

/-- **WakeInv holds for every module after every event of the scripted simulation, for all scripts**:
    one module event (activate, every runnable task polled, deactivate, shutdown handling) … -/
theorem sim_event_preserves_wakeinv {last now : Nat} (m : Mod) (k : Kind)
    (h : WakeInv last m.timer) (hw : ∀ w ∈ m.timer.wakeups, now ≤ w) :
    WakeInv now (m.event next now k).1.timer := event_wakeinv m k h hw

/-- … and the complete run (`at_sim_start` of every module, event loop delivering the earliest event,
    `at_sim_end`): any number of modules and tasks, any scripts. -/
theorem sim_wakeinv_all_scripts (progs : List (List (List (Nat × Fut)))) (s : Sim)
    (h : Sim.run next progs = some s) :
    (∀ m ∈ s.mods, WakeInv m.last m.timer) ∧ (∀ m ∈ s.mods, ∀ w ∈ m.timer.wakeups, s.now ≤ w) :=
  sim_wakeinv progs s h

/-- **Never lost, for all scripts**: when the event loop of the scripted simulation stops because
    the event set is empty, no task of any module is still registered for a deadline below
    `SimTime::MAX` — every awaited timer has fired (or was dropped / reset / cancelled by its owner). -/
theorem sim_ends_with_no_pending_timer (progs : List (List (List (Nat × Fut)))) (fuel : Nat) (s' : Sim)
    (hr : Sim.loop next fuel
      (Sim.forAll next { mods := progs.map fun p => ({ progs := p } : Mod) } .start progs.length 0) = some s') :
    ∀ m ∈ s'.mods, ∀ d e, HasEntry m.timer.pending d e → tMax ≤ d :=
  loop_end_no_pending (siminv_forAll (siminv_init progs) _ _ _) hr

/-- **The scripted simulation always terminates with a result** (for all scripts): the event loop
    runs on fuel computed from the state after start-up (`Sim.fuel`: wake-up events + queue slots +
    twice the registrations / resets the scripts can still make + restart budget), every event of
    the loop strictly lowers that potential, so the driver's `kind=internal` verdict cannot occur. -/
theorem sim_run_terminates (progs : List (List (List (Nat × Fut)))) : ∃ s, Sim.run next progs = some s :=
  sim_run_total progs

/-- one event of the loop strictly lowers the fuel (and keeps the invariants the argument needs) -/
theorem sim_event_lowers_fuel {s : Sim} (h : AllInv s) {i t : Nat} {k : Kind}
    (hp : pickNext s.mods 0 = some (i, t, k)) :
    AllInv (s.eventOn next i t k) ∧ (s.eventOn next i t k).fuel < s.fuel :=
  eventOn_loop_step h hp

/-- **The order of events of different modules is irrelevant** (tie order included): any two maximal
    interleavings of the modules' own event sequences — each step lets *some* module with a pending
    event handle its earliest one — end in the same module states: timers, tasks, counters and every
    module's observation log.  The event set's insertion order and the model's module-index order
    for equal-time events are two such interleavings. -/
theorem tie_order_irrelevant {ms a b : List Mod} (ha : Interleave ms a) (hqa : Quiescent a)
    (hb : Interleave ms b) (hqb : Quiescent b) : a = b :=
  interleave_confluent ha hqa hb hqb

/-- the model's event loop is one of these interleavings and ends quiescent -/
theorem sim_loop_is_interleaving {fuel : Nat} {s s' : Sim} (hr : Sim.loop next fuel s = some s') :
    Interleave s.mods s'.mods ∧ Quiescent s'.mods :=
  loop_interleave hr

/-- … and so is the simulation clock: it never goes back, and when the event loop stops it shows the
    time of the latest module event (or 0) — determined by the module states, which do not depend on
    the tie order; `at_sim_end` then runs at that time. -/
theorem sim_clock_is_latest_event (progs : List (List (List (Nat × Fut)))) (fuel : Nat) (s' : Sim)
    (hr : Sim.loop next fuel
      (Sim.forAll next { mods := progs.map fun p => ({ progs := p } : Mod) } .start progs.length 0) = some s') :
    (∀ m ∈ s'.mods, m.last ≤ s'.now) ∧ (s'.now = 0 ∨ ∃ m ∈ s'.mods, m.last = s'.now) := by
  have h1 := (nowinv_forAll (nowinv_init progs) .start progs.length 0).1
  have h2 := (loop_now (siminv_forAll (siminv_init progs) _ _ _) h1 hr).2
  exact ⟨h2.last_le, h2.attained⟩

/-- **No completion is observed early, for all scripts**: in the complete run of the scripted
    simulation every observation of a timer completion (`sleep`, `sleep_until`, `Elapsed`, await of a
    named `Sleep`, interval tick) carries a time ≥ the deadline of the `Sleep` that completed. -/
theorem sim_completions_not_early (progs : List (List (List (Nat × Fut)))) (s : Sim)
    (h : Sim.run next progs = some s) :
    ∀ m ∈ s.mods, ∀ o ∈ m.log, ∀ d, o.due = some d → d ≤ o.time :=
  sim_logok progs s h

/-- **Completions at the deadline, script level (conditional).**  One poll of any script term: if
    no `Sleep` owned by the running future (`sleep`, `sleep_until`, the delay of a `timeout`) that has
    been waited on is overdue (`OwnOk` — the scheduling fact `fires_exactly_once` / `woken_only_when_due`
    establish for registered entries), then every completion of such a sleep that this poll observes
    carries time = max(deadline, time of its first poll), i.e. exactly the deadline for `sleep d` /
    `timeout d` and "immediately" for deadlines already reached.  `OwnOk` is discharged for whole
    simulations by the registration invariant: `sim_completions_at_deadline` below is unconditional. -/
theorem script_completions_at_deadline (f : Fut) (c : Ctx) (ho : OwnOk c.now f) (h : LogPrecise c.log) :
    LogPrecise (poll f c).2.log :=
  poll_precise f c ho h

/-- **Completions at the deadline — for all scripts, unconditionally.**  In the complete run of the
    scripted simulation of any plain scripts (any number of modules and tasks; sleep, sleep_until,
    timeout, select, named timers with poll-once / reset to earlier or later deadlines / drop, intervals
    with every MissedTickBehavior, shutdown / restart), as long as the clock stays below `SimTime::MAX`,
    every observed completion of a `sleep`, `sleep_until` or `timeout` delay carries
    time = max(deadline, time of its first poll): exactly the deadline for `sleep d` / `timeout d`,
    "immediately" for deadlines already reached — never early, never late. -/
theorem sim_completions_at_deadline (progs : List (List (List (Nat × Fut)))) (hsrc : SrcAll progs) (s : Sim)
    (h : Sim.run next progs = some s) (hT : s.now < tMax) :
    ∀ m ∈ s.mods, ∀ o ∈ m.log, o.own = true → ∀ d, o.due = some d → o.time = max d o.since :=
  fun m hm o ho => (sim_mreg progs (srcAll_progs hsrc) s h hT m hm).log o ho

/-- **The registration invariant behind it, for all scripts**: after the run every `Sleep` a task is
    waiting on (owned by its running future, holding a handle) has its entry ⟨sleep id, task⟩ in the
    queue slot of its deadline — so the wake-up invariant protects it —, sleep ids are pairwise
    distinct over all tasks and named timers of the module, and a shut-down module has no tasks. -/
theorem sim_registered_timers_have_entries (progs : List (List (List (Nat × Fut)))) (hsrc : SrcAll progs)
    (s : Sim) (h : Sim.run next progs = some s) (hT : s.now < tMax) :
    ∀ m ∈ s.mods,
      (∀ (k : Nat) (t : Task), m.tasks[k]? = some t → ∀ sl ∈ ownL t.lines, sl.handle.isSome →
        HasEntry m.timer.pending sl.deadline ⟨sl.id, k⟩) ∧
      (∀ x, lcnt x m.tasks ≤ 1) ∧ (m.active = false → m.tasks = []) :=
  fun m hm =>
    have R := sim_mreg progs (srcAll_progs hsrc) s h hT m hm
    ⟨fun k t hk sl hsl hh => ((R.reg k t hk sl hsl).2 hh), R.uq, R.idle⟩

/-- **The simulation does not end while a live timer is awaited**: when the event loop stops because
    the event set is empty (no limit involved), no task of any module is still waiting on a `sleep`,
    `sleep_until` or `timeout` delay with a deadline below `SimTime::MAX`. -/
theorem sim_ends_with_no_task_waiting (progs : List (List (List (Nat × Fut)))) (hsrc : SrcAll progs)
    (fuel : Nat) (s' : Sim)
    (hr : Sim.loop next fuel
      (Sim.forAll next { mods := progs.map fun p => ({ progs := p } : Mod) } .start progs.length 0) = some s')
    (hT : s'.now < tMax) :
    ∀ m ∈ s'.mods, ∀ (k : Nat) (t : Task), m.tasks[k]? = some t →
      ∀ sl ∈ ownL t.lines, sl.handle.isSome → tMax ≤ sl.deadline := by
  have h1 := siminv_forAll (siminv_init progs) Kind.start progs.length 0
  have h2 := (nowinv_forAll (nowinv_init progs) Kind.start progs.length 0).1
  have h3 := rinv_forAll (siminv_init progs) (rinv_init (srcAll_progs hsrc)) tMax_pos Kind.start progs.length 0
  exact loop_end_no_waiting h1 h2 h3 hr hT

/-! ### the waker path: `next_wakeup` bookkeeping and the `AsyncWakeupEvent` scheduling rule -/

/-- **Scheduling rule**: `deactivate` schedules at most one `AsyncWakeupEvent` per event — exactly when
    the earliest live deadline is earlier than the recorded `next_wakeup`, which it then replaces;
    otherwise it changes nothing.  (So several wake-up events of one module can be outstanding, even
    for the same time; they are not cancelled — `stale_wakeup_harmless`.) -/
theorem deactivate_schedules_rule (t : State) :
    ((deactivate t) = t ∧ (∀ n, next t.pending = some n → t.nextWakeup ≤ n)) ∨
    (∃ n, next t.pending = some n ∧ n < t.nextWakeup ∧
      deactivate t = { t with nextWakeup := n, wakeups := t.wakeups ++ [n] }) :=
  deactivate_rule t

/-- **Bookkeeping invariant the code relies on**: between events, if any timer is live, a wake-up
    event of the module is in the event set at `next_wakeup`, in the future and no later than the
    earliest live deadline — for all histories (`wakeinv_all_histories`), shutdown / restart included
    (`sim_wakeinv_all_scripts`). -/
theorem wakeup_pending_for_earliest_live {now : Nat} {t : State} (h : WakeInv now t) {n : Nat}
    (hn : next t.pending = some n) (hlt : n < tMax) :
    t.nextWakeup ∈ t.wakeups ∧ now < t.nextWakeup ∧ t.nextWakeup ≤ n ∧
    ∀ s ∈ t.pending, s.entries ≠ [] → n ≤ s.time :=
  wakeup_for_earliest_live h hn hlt

/-- **A stale wake-up event is harmless** (timers dropped / reset after it was scheduled, or a
    wake-up of a previous incarnation firing after the restart): it wakes nobody, every registered
    entry stays registered, and WakeInv holds afterwards. -/
theorem stale_wakeup_is_harmless {now : Nat} {t : State} (h : WakeInv now t) (time : Nat)
    (hw : ∀ w ∈ t.wakeups, time ≤ w) (hstale : ∀ s ∈ t.pending, s.entries ≠ [] → time < s.time) :
    (stepEv t ⟨time, true, [], []⟩).2 = [] ∧
    (∀ d x, HasEntry t.pending d x → HasEntry (stepEv t ⟨time, true, [], []⟩).1.pending d x) ∧
    WakeInv time (stepEv t ⟨time, true, [], []⟩).1 :=
  stale_wakeup_harmless h time hw hstale

/-- **Wake order**: `activate` wakes the entries of the popped slots in deadline order, and an entry
    joins its slot at the end — timers with equal deadlines are woken in registration order. -/
theorem wake_order_is_registration_order (t : State) (e : Ev) {p : List Slot} (hp : Sorted p) {s : Slot}
    (hs : s ∈ p) (x : Entry) :
    (stepEv t e).2 = ((applyOps t e.pre).pending.takeWhile (fun s => s.time ≤ e.time)).flatMap (·.entries) ∧
    (⟨s.time, s.entries ++ [x]⟩ : Slot) ∈ add p x s.time :=
  ⟨woken_order t e, register_appends hp hs x⟩

/-! ### the defect repaired by patches/C05-next-skips-empty-slots.diff (finding F3)

One task at time 0: poll `sleep(5)` once (e.g. inside `select!`/`timeout`), drop it, then await
`sleep(10)`.  With the original `next()` (front slot only if non-empty) `deactivate` schedules no
wake-up: WakeInv is broken and the second sleep is stranded. -/

def f3Event : Ev := { time := 0, wake := false, ops := [.register 5 0 0, .remove 5 0, .register 10 1 0] }

theorem orig_next_breaks_wakeinv_witness :
    EvOk {} f3Event ∧ ¬ WakeInv 0 (stepWith nextOrig {} f3Event).1 := by
  refine ⟨⟨(by intro w hw; cases hw), (by decide)⟩, ?_⟩
  intro h
  have := h.j2 ⟨10, [⟨1, 0⟩]⟩ (by decide) (by decide)
  revert this
  decide

/-- … the live entry at 10 is left without any wake-up event: the simulation ends (or moves on)
    and the task never completes — whereas with the repaired `next` it fires at 10. -/
theorem orig_next_strands_timer_witness :
    HasEntry (stepWith nextOrig {} f3Event).1.pending 10 ⟨1, 0⟩ ∧
    (stepWith nextOrig {} f3Event).1.wakeups = [] ∧
    (stepEv {} f3Event).1.wakeups = [10] := by
  refine ⟨⟨⟨10, [⟨1, 0⟩]⟩, by decide, rfl, by decide⟩, by decide, by decide⟩

/-- the same at script level (the minimal failing input of the real code, corpus/C05): one task
    running `timeout(5, sleep(1)); sleep(10)`.  Original `next`: the run ends after the observations
    at time 1, the second sleep never completes and WakeInv is violated on the way; repaired `next`:
    it completes at 11. -/
def f3Prog : List (List (List (Nat × Fut))) := [[[(0, .timeout 5 (.sleep 1)), (1, .sleep 10)]]]

theorem orig_next_script_witness :
    (Sim.run nextOrig f3Prog).map (fun s => ((s.mods.flatMap (·.log)).map (fun o => (o.line, o.time)), s.invOk))
      = some ([(0, 1), (0, 1)], false) ∧
    (Sim.run next f3Prog).map (fun s => ((s.mods.flatMap (·.log)).map (fun o => (o.line, o.time)), s.invOk))
      = some ([(0, 1), (0, 1), (1, 11)], true) := by
  constructor <;> decide

/-! ### non-vacuity -/

example : SrcAll f3Prog := by unfold SrcAll f3Prog; decide
example : (Sim.run next f3Prog).map (fun s => decide (s.now < tMax)) = some true := by decide

/-- a run of the scripted simulation that terminates within the fuel (hypothesis of the `sim_*` theorems):
    two modules, equal deadlines, a select whose loser is dropped, a reset, a restart -/
example : (Sim.run next
    [[[(0, .select (.sleep 5) (.sleep 3)), (1, .sleep 5)], [(2, .new "x" 5), (3, .pollOnce "x"), (4, .reset "x" 2), (5, .await "x")]],
     [[(6, .sleep 3), (7, .restart 4), (8, .sleep 9)]]]).isSome = true := by decide


/-- a state with an emptied front slot before a live one, two entries with equal deadlines and a
    stale later wake-up satisfies WakeInv … -/
def exState : State :=
  { pending := [⟨5, []⟩, ⟨10, [⟨1, 0⟩, ⟨2, 1⟩]⟩, ⟨30, [⟨3, 2⟩]⟩], nextWakeup := 10, wakeups := [40, 10] }

example : next exState.pending = some 10 := by decide
example : ∀ s ∈ exState.pending, s.entries ≠ [] → 7 < s.time := by unfold exState; decide
example : WakeInv 3 exState := by
  refine ⟨(by unfold Sorted; decide), ?_, ?_, ?_, ?_⟩
  · intro s hs hne
    simp only [exState, List.mem_cons, List.not_mem_nil, or_false] at hs
    rcases hs with rfl | rfl | rfl
    · exact absurd rfl hne
    · decide
    · decide
  · intro _; decide
  · intro s hs hne
    simp only [exState, List.mem_cons, List.not_mem_nil, or_false] at hs
    rcases hs with rfl | rfl | rfl
    · exact absurd rfl hne
    · decide
    · decide
  · decide

/-- … an admissible event on it: the wake-up at 10 with a reset to the past, a drop and a new registration -/
def exEv : Ev := { time := 10, wake := true, ops := [.reset 30 3 2, .register 12 4 0, .remove 12 4] }

example : EvOk exState exEv := ⟨by decide, by decide⟩
example : HasEntry exState.pending 10 ⟨2, 1⟩ := ⟨⟨10, [⟨1, 0⟩, ⟨2, 1⟩]⟩, by decide, rfl, by decide⟩
example : (stepEv exState exEv).2 = [⟨1, 0⟩, ⟨2, 1⟩] := by decide
example : Consistent exState [exEv, { time := 40, wake := true, ops := [] }] := by
  refine ⟨⟨by decide, by decide⟩, ⟨by decide, by decide⟩, trivial⟩
example : Keeps 2 10 [exEv, { time := 40, wake := true, ops := [] }] := by
  intro ev hev
  simp only [List.mem_cons, List.not_mem_nil, or_false] at hev
  rcases hev with rfl | rfl <;> exact ⟨by decide, by decide⟩
example : (runEvs exState [exEv, { time := 40, wake := true, ops := [] }]).1.wakeups = [] := by decide
example : OnlyAt 2 10 exState.pending := by
  intro s hs x hx hxs
  simp only [exState, List.mem_cons, List.not_mem_nil, or_false] at hs
  rcases hs with rfl | rfl | rfl
  · cases hx
  · rfl
  · simp only [List.mem_singleton] at hx; subst hx; cases hxs
example : NoReg 2 [exEv, { time := 40, wake := true, ops := [] }] := by
  intro ev hev
  simp only [List.mem_cons, List.not_mem_nil, or_false] at hev
  rcases hev with rfl | rfl <;> exact ⟨by decide, by decide⟩
/-- a running `select(sleep …, timeout(…, sleep …))` whose registered sleeps are not overdue at time 7 -/
example : OwnOk 7 (.select (.sleeping ⟨1, 9, some 9, some 2⟩) (.timeoutRun ⟨2, 12, some 12, some 2⟩ (.sleeping ⟨3, 20, some 20, some 2⟩))) := by
  intro s hs a ha
  simp only [own, List.mem_cons, List.mem_append, List.not_mem_nil, or_false, List.mem_singleton] at hs
  rcases hs with rfl | rfl | rfl <;> (cases ha; decide)
example : Timeout.run ⟨0, 10, none, none⟩ 0 [(0, false), (4, false), (10, true)] = some (10, true) := by decide
example : Timeout.run ⟨0, 10, none, none⟩ 0 [(0, false), (10, false), (12, true)] = some (10, false) := by decide
example : Interval.ticks ⟨⟨0, 0, none, none⟩, 10, .burst⟩ 0 [0, 10, 45, 45, 45, 50] = [0, 10, 20, 30, 40, 50] := by decide
example : (Interval.mk ⟨0, 20000000, none, none⟩ 10000000 .skip).nextDeadline 20000000 45000000 = 50000000 := by decide

end C05

/-
C16 — Message bodies are type safe, value preserving and measured consistently.

Only property theorems live here.  `MB` is the model of `des::net::message::{Body, Message}`
over an explicit ghost heap (Model/Body.lean); `MBSpec` is the value-level specification
(Spec/BodySpec.lean): a body is (creation type, value put in, declared length, clonable).
`mrun ops` / `srun ops` run a script of new/set/clone/try_clone/try_cast<T>/try_content<T>/
can_cast<T>/length/drop operations on named message slots from the empty state.
All statements quantify over every script, every value of the universe `MB.Val`, every
constructor and every requested type `T` (matching or not).  `Ty` equality stands for `TypeId`
equality (trusted: `TypeId` is injective).
-/
import Desverif.Proofs.BodyFacts
import Desverif.Proofs.BodyLen
namespace C16
open MB
open MBSpec (ABody AMsg declaredLen clonableOf)

def mrun (ops : List Op) : State × List Out := run {} ops
def srun (ops : List Op) : MBSpec.State × List Out := MBSpec.run {} ops

/-- **Refinement.** For every script the pointer-level model answers exactly what the value-level
    specification answers, and ends in a state related to the specification's: same messages,
    every body pointer owning a live box of the body's creation type holding the value put in. -/
theorem model_refines_spec (ops : List Op) :
    (mrun ops).2 = (srun ops).2 ∧ Rel (mrun ops).1 (srun ops).1 :=
  run_refines Rel.init ops

/-! ### type safety -/

/-- **A body can be cast exactly as the type it was created with** — whatever constructor, value
    and requested type; the successful cast returns the value put in and frees the box by a move
    (no destructor run), the refused one does not touch the heap. -/
theorem cast_some_iff_same_type (h : Heap) (c : Ctor) (T0 T : Ty) (v : Val) :
    ((∃ r h', (c.mk h T0 v).2.tryCast (c.mk h T0 v).1 T = (h', .ok r)) ↔ T = T0) ∧
    (T = T0 → ∃ h', (c.mk h T0 v).2.tryCast (c.mk h T0 v).1 T = (h', .ok (some v)) ∧ h'.faults = h.faults) ∧
    (T ≠ T0 → (c.mk h T0 v).2.tryCast (c.mk h T0 v).1 T = ((c.mk h T0 v).1, .err (c.mk h T0 v).2)) := by
  obtain ⟨vt, hvt, _, hmk⟩ := mk_eq c h T0 v
  rw [hmk]
  have hnew := alloc_get_new h T0 v
  by_cases hT : T = T0
  · subst hT
    have hok : ∃ h', Body.tryCast (h.alloc T v).1 { data := some h.boxes.length, length := declaredLen c v, vt := vt } T =
        (h', .ok (some v)) ∧ h'.faults = h.faults := by
      simp only [Body.tryCast, Body.is, hvt, decide_true, if_true]
      rw [take_eq hnew rfl rfl]
      exact ⟨_, rfl, rfl⟩
    obtain ⟨h', he, hf⟩ := hok
    exact ⟨⟨fun _ => rfl, fun _ => ⟨_, h', he⟩⟩, fun _ => ⟨h', he, hf⟩, fun hne => absurd rfl hne⟩
  · have hne : Body.is { data := some h.boxes.length, length := declaredLen c v, vt := vt } T = false := by
      simp [Body.is, hvt, Ne.symm hT]
    have he := Body.tryCast_err (h := (h.alloc T0 v).1) hne
    refine ⟨⟨fun ⟨r, h', hr⟩ => ?_, fun h0 => absurd h0 hT⟩, fun h0 => absurd h0 hT, fun _ => he⟩
    rw [he] at hr
    cases hr

/-- The same on whole histories: after any script, `try_cast::<T>`, `try_content::<T>` and
    `can_cast::<T>` on slot `tag` succeed iff the slot's body was created with exactly type `T`
    (the specification's `ty`), and then hand out the value put in and the header. -/
theorem cast_content_succeed_iff_creation_type (ops : List Op) (tag : String) (T : Ty) (m : AMsg)
    (hl : lookup tag (srun ops).1.slots = some m) :
    (step (mrun ops).1 (.cast tag T)).2 =
      (match m.content with
       | some b => if b.ty = T then .castOk (some b.val) m.header else .castErr
       | none => .castErr) ∧
    (step (mrun ops).1 (.content tag T)).2 =
      (match m.content with
       | some b => if b.ty = T then .content (some (some b.val)) else .content none
       | none => .content none) ∧
    (step (mrun ops).1 (.canCast tag T)).2 =
      (match m.content with
       | some b => .bool (decide (b.ty = T))
       | none => .bool false) := by
  have hr := (model_refines_spec ops).2
  refine ⟨?_, ?_, ?_⟩
  · rw [(step_refines hr (.cast tag T)).1]
    simp only [MBSpec.step, hl]
    cases m.content with
    | none => rfl
    | some b => by_cases hT : b.ty = T <;> simp [hT]
  · rw [(step_refines hr (.content tag T)).1]
    simp only [MBSpec.step, hl]
    cases m.content with
    | none => rfl
    | some b => by_cases hT : b.ty = T <;> simp [hT]
  · rw [(step_refines hr (.canCast tag T)).1]
    simp only [MBSpec.step, hl]
    cases m.content with
    | none => rfl
    | some b => rfl

/-- **A failed cast hands the body back intact**: `Err` carries the very same body (pointer,
    length, vtable) and the heap is untouched — for every body and heap, reachable or not. -/
theorem failed_cast_returns_body_intact (h h' : Heap) (b b' : Body) (T : Ty)
    (he : b.tryCast h T = (h', .err b')) : h' = h ∧ b' = b :=
  let ⟨h1, h2, _⟩ := Body.tryCast_err_inv he
  ⟨h1, h2⟩

/-- … and so does `Message::try_cast`: the message (header and body) comes back unchanged. -/
theorem failed_cast_returns_message_intact (h h' : Heap) (m m' : Msg) (T : Ty)
    (he : m.tryCast h T = (h', .err m')) : h' = h ∧ m' = m :=
  Msg.tryCast_err_inv he

/-- On histories: a failed cast changes neither the heap nor what any slot holds. -/
theorem failed_cast_changes_nothing (st : State) (tag : String) (T : Ty)
    (he : (step st (.cast tag T)).2 = .castErr) :
    (step st (.cast tag T)).1.heap = st.heap ∧
    ∀ t, lookup t (step st (.cast tag T)).1.slots = lookup t st.slots := by
  simp only [step] at he ⊢
  cases hl : lookup tag st.slots with
  | none => simp [hl] at he
  | some m =>
    simp only [hl] at he ⊢
    cases hc : m.tryCast st.heap T with
    | mk h' r =>
      cases r with
      | ok v hdr => simp [hc] at he
      | err m' =>
        obtain ⟨h1, h2⟩ := Msg.tryCast_err_inv hc
        subst h1; subst h2
        exact ⟨rfl, fun t => lookup_put_back hl t⟩

/-! ### value preservation -/

/-- **What is read or cast out equals what was put in.** After any script, storing `v` as type
    `T0` in an existing slot (any constructor) and then borrowing and casting as any `T` answers
    `v` (and the slot's header) exactly when `T = T0`, and `None` / `Err` otherwise. -/
theorem roundtrip_value (ops : List Op) (tag : String) (c : Ctor) (T0 T : Ty) (v : Val) (m : AMsg)
    (hl : lookup tag (srun ops).1.slots = some m) :
    (run (mrun ops).1 [.set tag c T0 v, .content tag T, .cast tag T]).2 =
      [.done, .content (if T0 = T then some (some v) else none),
       if T0 = T then .castOk (some v) m.header else .castErr] := by
  rw [(run_refines (model_refines_spec ops).2 _).1]
  by_cases hT : T0 = T <;>
    simp [MBSpec.run, MBSpec.step, hl, lookup, hT]

/-- **What is cloned equals what was put in**: the clone of a clonable body answers, for every
    requested `T`, exactly like the original — the value put in iff `T` is the creation type. -/
theorem clone_preserves_value (ops : List Op) (tag dst : String) (c : Ctor) (T0 T : Ty) (v : Val)
    (m : AMsg) (hl : lookup tag (srun ops).1.slots = some m) (hc : clonableOf c = true) :
    (run (mrun ops).1 [.set tag c T0 v, .tryClone tag dst, .content dst T, .cast dst T]).2 =
      [.done, .cloned, .content (if T0 = T then some (some v) else none),
       if T0 = T then .castOk (some v) m.header else .castErr] := by
  rw [(run_refines (model_refines_spec ops).2 _).1]
  by_cases hT : T0 = T <;>
    simp [MBSpec.run, MBSpec.step, MBSpec.cloneStep, MBSpec.State.put, MBSpec.State.dropSlot, hl, lookup, hc, hT]

/-- a body built by the non-clonable constructor refuses `try_clone` (`None`) and makes
    `Message::clone` panic; nothing else changes -/
theorem non_clonable_refuses (ops : List Op) (tag dst : String) (T0 : Ty) (v : Val) (m : AMsg)
    (hl : lookup tag (srun ops).1.slots = some m) :
    (run (mrun ops).1 [.set tag .nonClonable T0 v, .tryClone tag dst, .clone tag dst, .content tag T0]).2 =
      [.done, .notClonable, .panic, .content (some (some v))] := by
  rw [(run_refines (model_refines_spec ops).2 _).1]
  simp [MBSpec.run, MBSpec.step, MBSpec.cloneStep, hl, lookup, clonableOf]

/-! ### every stored value is released exactly once -/

/-- **No double free, no use after free, no leak** — for every script, at every point:
    no undefined access (dangling, freed, moved-out or wrongly typed box) ever happened;
    every box ever allocated was released (destructor run or moved out to a successful cast's
    caller) at most once, not at all iff it is still live, and it is live iff exactly one message
    slot owns it (owned addresses are pairwise distinct); the numbers of values created and
    released are the specification's. -/
theorem no_double_free_no_leak (ops : List Op) :
    (mrun ops).1.heap.faults = 0 ∧
    (∀ (p : Nat) (bx : Box), (mrun ops).1.heap.boxes[p]? = some bx →
      bx.drops + bx.moved ≤ 1 ∧ (bx.drops + bx.moved = 0 ↔ bx.live = true) ∧
      (bx.live = true ↔ p ∈ ptrs (mrun ops).1.slots)) ∧
    (ptrs (mrun ops).1.slots).Nodup ∧
    (mrun ops).1.heap.created = (srun ops).1.created ∧
    Heap.released (mrun ops).1.heap.boxes = (srun ops).1.dropped := by
  have hr : RelL _ _ _ _ _ := (model_refines_spec ops).2
  exact ⟨hr.heap.nofault, fun p bx hb => hr.heap.box_facts hb, hr.heap.nodup, hr.created, hr.dropped⟩

/-- **At the end every value ever stored has been released exactly once**: after any script,
    dropping the remaining messages leaves no live box, no box released twice, no fault. -/
theorem all_released_exactly_once_at_end (ops : List Op) :
    (mrun ops).1.finish.heap.faults = 0 ∧
    (∀ bx ∈ (mrun ops).1.finish.heap.boxes, bx.live = false ∧ bx.drops + bx.moved = 1) ∧
    Heap.released (mrun ops).1.finish.heap.boxes = (mrun ops).1.finish.heap.created ∧
    (mrun ops).1.finish.heap.created = (srun ops).1.created := by
  have hr : RelL _ _ _ _ _ := finish_refines (model_refines_spec ops).2
  have hbox : ∀ bx ∈ (mrun ops).1.finish.heap.boxes, bx.live = false ∧ bx.drops + bx.moved = 1 := by
    intro bx hm
    obtain ⟨p, hp, hb⟩ := List.getElem_of_mem hm
    have hb' : (mrun ops).1.finish.heap.boxes[p]? = some bx := by
      rw [List.getElem?_eq_getElem hp, hb]
    obtain ⟨_, h2, h3⟩ := hr.heap.box_facts hb'
    have hdead : bx.live = false := by
      cases hl : bx.live with
      | false => rfl
      | true => have := h3.mp hl; simp [State.finish] at this
    have hone := hr.heap.box p bx hb'
    rw [hdead] at hone
    exact ⟨hdead, by simpa using hone⟩
  refine ⟨hr.heap.nofault, hbox, ?_, hr.created⟩
  have : ∀ bs : List Box, (∀ bx ∈ bs, bx.live = false ∧ bx.drops + bx.moved = 1) →
      Heap.released bs = bs.length := by
    intro bs
    induction bs with
    | nil => intro _; rfl
    | cons b bs ih =>
      intro hall
      have h1 := (hall b List.mem_cons_self).2
      have h2 := ih fun bx hm => hall bx (List.mem_cons_of_mem _ hm)
      simp [Heap.released, h2]; omega
  exact this _ hbox

/-- A value leaves the heap by a move (not a destructor run) only through a successful cast,
    which hands it to the caller: each successful cast accounts for exactly one release. -/
theorem cast_ok_moves_value_out (st : State) (s : MBSpec.State) (hr : Rel st s) (tag : String) (T : Ty)
    (v : Option Val) (hdr : Header) (he : (step st (.cast tag T)).2 = .castOk v hdr) :
    Heap.released (step st (.cast tag T)).1.heap.boxes = Heap.released st.heap.boxes + 1 ∧
    (step st (.cast tag T)).1.heap.created = st.heap.created ∧
    lookup tag (step st (.cast tag T)).1.slots = lookup tag (remove tag st.slots) := by
  obtain ⟨ho, hr1⟩ := step_refines hr (.cast tag T)
  have hr0 : RelL _ _ _ _ _ := hr
  have hr1' : RelL _ _ _ _ _ := hr1
  rw [ho] at he
  have hslots : (step st (.cast tag T)).1.slots = remove tag st.slots := by
    have he' := ho ▸ he
    simp only [step] at he' ⊢
    cases hl : lookup tag st.slots with
    | none => simp [hl] at he'
    | some m =>
      simp only [hl] at he' ⊢
      cases hc : m.tryCast st.heap T with
      | mk h' r =>
        cases r with
        | ok v hdr => rfl
        | err m' => simp [hc] at he'
  refine ⟨?_, ?_, by rw [hslots]⟩
  · rw [hr1'.dropped, hr0.dropped]
    simp only [MBSpec.step] at he ⊢
    cases hl : lookup tag s.slots with
    | none => simp [hl] at he
    | some m =>
      simp only [hl] at he ⊢
      cases hc : m.content with
      | none => simp [hc] at he
      | some b =>
        simp only [hc] at he ⊢
        by_cases hT : b.ty = T
        · simp [hT]
        · simp [hT] at he
  · rw [hr1'.created, hr0.created]
    simp only [MBSpec.step]
    cases hl : lookup tag s.slots with
    | none => rfl
    | some m =>
      cases hc : m.content with
      | none => simp [hc]
      | some b => by_cases hT : b.ty = T <;> simp [hc, hT]

/-! ### lengths -/

/-- **`Message::length` = 64 (header) + the declared byte length**, for every constructor:
    `byte_len` of the value for `set_content` / `set_content_non_clonable`, the given length for
    `new_with_len`, `size_of::<T>()` for `set_content_non_debugable`; 64 without a body; and the
    channel is charged 8 bits per byte of exactly this length. -/
theorem length_eq_64_plus_declared (h : Heap) (m : Msg) (c : Ctor) (T : Ty) (v : Val) :
    (m.setContent h c T v).2.length = 64 + declaredLen c v ∧
    (m.setContent h c T v).2.chargedBits = 8 * (64 + declaredLen c v) ∧
    declaredLen .plain v = byteLen v ∧ declaredLen .nonClonable v = byteLen v ∧
    ({ header := m.header, content := none } : Msg).length = 64 := by
  obtain ⟨vt, _, _, hmk⟩ := mk_eq c h T v
  refine ⟨?_, ?_, rfl, rfl, rfl⟩
  · simp [Msg.setContent, hmk, Msg.length, Header.byteLen]; omega
  · simp [Msg.setContent, hmk, Msg.length, Msg.chargedBits, Header.byteLen]; omega

/-- On histories: whatever happened before (clones, failed casts, overwrites), the reported length
    of a slot is 64 + the declared length of the body it currently holds, clones included. -/
theorem length_on_histories (ops : List Op) (tag : String) (m : AMsg)
    (hl : lookup tag (srun ops).1.slots = some m) :
    (step (mrun ops).1 (.length tag)).2 =
      .length (64 + (match m.content with | some b => b.len | none => 0))
              ((64 + (match m.content with | some b => b.len | none => 0)) * 8) := by
  rw [(step_refines (model_refines_spec ops).2 (.length tag)).1]
  simp only [MBSpec.step, hl, AMsg.length]
  cases m.content <;> rfl

/-- **Derived byte length = sum over the fields of the active variant**; collections, tuples:
    sum of the members; `None` = 0; `Some`/`Ok`/`Err`/`Box` = the payload. -/
theorem derived_len_eq_sum (fs : List Val) (k : Nat) (v : Val) :
    byteLen (.struct fs) = (fs.map byteLen).sum ∧
    byteLen (.enum k fs) = (fs.map byteLen).sum ∧
    byteLen (.tuple fs) = (fs.map byteLen).sum ∧
    byteLen (.seq fs) = (fs.map byteLen).sum ∧
    byteLen .none = 0 ∧ byteLen (.some v) = byteLen v ∧ byteLen (.ok v) = byteLen v ∧
    byteLen (.err v) = byteLen v ∧ byteLen (.boxed v) = byteLen v := by
  refine ⟨?_, ?_, ?_, ?_, ?_, ?_, ?_, ?_, ?_⟩ <;>
    simp [byteLen, sumLen_eq_sum, foldLen_eq]

/-- **Fixed-size arrays `[T; N]` count every element, in order** — not the first element times `N`:
    the length is the sum of the elements' lengths, appending an element adds exactly its own
    length, an empty array measures 0, and for elements of one common length `k` (and only
    then, in general) this is `N * k`.  Holds equally for an array that is a field of a derived
    struct or of the active enum variant. -/
theorem array_len_eq_sum (vs fs : List Val) (x : Val) (k n : Nat) :
    byteLen (.array vs) = (vs.map byteLen).sum ∧
    byteLen (.array (vs ++ [x])) = byteLen (.array vs) + byteLen x ∧
    byteLen (.array (x :: vs)) = byteLen x + byteLen (.array vs) ∧
    byteLen (.array []) = 0 ∧
    ((∀ v ∈ vs, byteLen v = k) → byteLen (.array vs) = vs.length * k) ∧
    byteLen (.struct (.array vs :: fs)) = (vs.map byteLen).sum + (fs.map byteLen).sum ∧
    byteLen (.enum n (.array vs :: fs)) = (vs.map byteLen).sum + (fs.map byteLen).sum := by
  refine ⟨?_, ?_, ?_, ?_, ?_, ?_, ?_⟩
  · simp [byteLen, sumLen_eq_sum, foldLen_eq]
  · simp [byteLen, sumLen_eq_sum, foldLen_eq]
  · simp [byteLen, sumLen_eq_sum, foldLen_eq]
  · simp [byteLen, foldLen]
  · intro hall
    simp only [byteLen, foldLen_eq, sumLen_eq_sum, Nat.zero_add]
    induction vs with
    | nil => simp
    | cons v vs ih =>
      have h1 := hall v List.mem_cons_self
      have h2 := ih fun w hw => hall w (List.mem_cons_of_mem _ hw)
      simp [h1, h2, Nat.succ_mul]; omega
  · simp [byteLen, sumLen, sumLen_eq_sum, foldLen_eq]
  · simp [byteLen, sumLen, sumLen_eq_sum, foldLen_eq]

/-- **The measured length depends only on the abstract value** (and the constructor's declared
    length) — not on the heap, the address the value is boxed at, the type tag, the header, what
    the message held before, or whether the body is the original or a clone: two messages given
    equal values measure equal, and a clone measures like its source.  (The value universe has no
    notion of capacity, ring-buffer position or insertion order, so equal collections in different
    in-memory layouts are the same `Val`; the correspondence runs build every value in several
    layouts and require the implementation to agree with this function of the value.) -/
theorem length_depends_only_on_value (h1 h2 : Heap) (m1 m2 : Msg) (c : Ctor) (T1 T2 : Ty) (v : Val) :
    (m1.setContent h1 c T1 v).2.length = (m2.setContent h2 c T2 v).2.length ∧
    (m1.setContent h1 c T1 v).2.chargedBits = (m2.setContent h2 c T2 v).2.chargedBits ∧
    (∀ h' m', (m1.setContent h1 c T1 v).2.tryClone (m1.setContent h1 c T1 v).1 = (h', some m') →
      m'.length = (m1.setContent h1 c T1 v).2.length) := by
  obtain ⟨vt1, _, _, hmk1⟩ := mk_eq c h1 T1 v
  obtain ⟨vt2, _, _, hmk2⟩ := mk_eq c h2 T2 v
  refine ⟨?_, ?_, ?_⟩
  · simp [Msg.setContent, hmk1, hmk2, Msg.length, Header.byteLen]
  · simp [Msg.setContent, hmk1, hmk2, Msg.length, Msg.chargedBits, Header.byteLen]
  · have key : ∀ (h : Heap) (b : Body) (h' : Heap) (b' : Body),
        b.tryClone h = (h', some b') → b'.length = b.length := by
      intro h b h' b' hc
      unfold Body.tryClone at hc
      split at hc
      · cases hd : b.data with
        | none => simp [hd] at hc
        | some p =>
          simp only [hd] at hc
          cases hr : h.read b.vt.ty p with
          | mk hx ov =>
            cases ov with
            | none => simp [hr] at hc
            | some w =>
              simp only [hr, Prod.mk.injEq, Option.some.injEq] at hc
              obtain ⟨_, rfl⟩ := hc
              rfl
      · simp at hc
    intro h' m' hc
    simp only [Msg.setContent, hmk1, Msg.tryClone] at hc ⊢
    split at hc
    · rename_i hx bx hb
      simp only [Prod.mk.injEq, Option.some.injEq] at hc
      obtain ⟨_, rfl⟩ := hc
      have := key _ _ _ _ hb
      simp [Msg.length, this]
    · simp at hc

/-- collections measure the same in whatever order their elements are visited (hash maps and
    sets iterate in an unspecified order; a wrapped and a contiguous deque visit the same
    elements): the length is invariant under permutation of the members -/
theorem seq_len_perm_invariant (vs vs' : List Val) (hp : vs.Perm vs') :
    byteLen (.seq vs) = byteLen (.seq vs') ∧ byteLen (.array vs) = byteLen (.array vs') := by
  have : sumLen vs = sumLen vs' := by
    induction hp with
    | nil => rfl
    | cons x _ ih => simp [sumLen, ih]
    | swap x y l => simp [sumLen]; omega
    | trans _ _ ih1 ih2 => exact ih1.trans ih2
  simp [byteLen, foldLen_eq, this]

/-- the length of a derived struct does not depend on how its fields are grouped / nested -/
theorem derived_len_flatten (xs ys : List Val) :
    byteLen (.struct (.struct xs :: ys)) = byteLen (.struct (xs ++ ys)) := by
  simp [byteLen, sumLen, sumLen_append]

/-! ### Non-vacuity -/

def tU32 : Ty := ⟨"u32"⟩
def tF32 : Ty := ⟨"f32"⟩
def vU32 : Val := .struct [.prim 4 7, .fixed 0 0]
def vEn : Val := .struct [.enum 2 [.str [104, 105], .prim 8 1], .fixed 0 0]

/-- a history with an overwrite, a clone, a failed cast to a layout-compatible type, a refused
    clone of a non-clonable body, successful casts and a drop -/
def demoOps : List Op :=
  [.new "a" 1 0, .set "a" .plain tU32 vU32, .set "a" .plain tU32 vEn, .clone "a" "b",
   .cast "a" tF32, .content "a" tU32, .length "a", .cast "a" tU32,
   .set "b" .nonClonable tF32 vU32, .tryClone "b" "c", .cast "b" tF32, .drop "c"]

example : (mrun demoOps).2 =
    [.done, .done, .done, .cloned, .castErr, .content (some (some vEn)), .length 74 592,
     .castOk (some vEn) ⟨1, 0⟩, .done, .notClonable, .castOk (some vU32) ⟨1, 0⟩, .noSlot] := by rfl

example : (srun demoOps).2 = (mrun demoOps).2 := by rfl

example : (mrun demoOps).1.heap.boxes.map (fun b => (b.live, b.drops, b.moved)) =
    [(false, 1, 0), (false, 0, 1), (false, 1, 0), (false, 0, 1)] := by rfl

example : lookup "a" (srun [.new "a" 1 0, .set "a" .plain tU32 vU32]).1.slots =
    some ⟨⟨1, 0⟩, some ⟨tU32, vU32, 4, true⟩⟩ := by rfl

example : byteLen vEn = 10 := by rfl

/-- hypothesis of `seq_len_perm_invariant`; a deque [a, bc] measures 3 whichever part is visited first -/
example : [Val.str [97], Val.str [98, 99]].Perm [Val.str [98, 99], Val.str [97]] ∧
    byteLen (.seq [.str [97], .str [98, 99]]) = 3 := ⟨List.Perm.swap _ _ _, by rfl⟩

/-- hypothesis of the clone clause of `length_depends_only_on_value` -/
example : (((⟨⟨1, 0⟩, none⟩ : Msg).setContent {} .plain tU32 vU32).2.tryClone
      ((⟨⟨1, 0⟩, none⟩ : Msg).setContent {} .plain tU32 vU32).1).2 =
    some ⟨⟨1, 0⟩, some ⟨some 1, 4, vtable tU32⟩⟩ := by rfl

/-- a declared length of 2^29 bytes is charged (2^29 + 64) * 8 bits — more than `u32::MAX` -/
example : ((⟨⟨1, 0⟩, none⟩ : Msg).setContent {} (.withLen 536870912) tU32 vU32).2.chargedBits = 4294967808 := by rfl

/-- collections of one-byte elements measure the declared lengths, not the element count:
    `Vec<Flag>` (fieldless derived enum: 0 each), `Vec<Option<bool>>` (None 0, Some 1),
    `Vec<Word>` (hand-written 2 each) -/
example : byteLen (.seq [.enum 0 [], .enum 2 [], .enum 1 []]) = 0 ∧
    byteLen (.seq [.none, .some (.prim 1 1), .none]) = 1 ∧
    byteLen (.seq [.fixed 2 7, .fixed 2 8]) = 4 := ⟨by rfl, by rfl, by rfl⟩

/-- `[String; 3]` = ["abc", "", "z"]: 4 bytes — not `3 * 3` (first element times N) -/
example : byteLen (.array [.str [97, 98, 99], .str [], .str [122]]) = 4 := by rfl
/-- `[Option<u32>; 4]` = [None, Some, None, Some]: 8 — not 0 -/
example : byteLen (.array [.none, .some (.prim 4 1), .none, .some (.prim 4 2)]) = 8 := by rfl
/-- a derived struct with array fields `{ a: [String; 2], b: [Option<u16>; 3], tr }` -/
example : byteLen (.struct [.array [.str [1], .str [1, 2, 3]], .array [.some (.prim 2 0), .none, .none], .fixed 0 0]) = 6 := by rfl

/-- hypothesis of `failed_cast_returns_body_intact`: a u32 body asked for as f32 -/
example : (Body.new {} tU32 vU32).2.tryCast (Body.new {} tU32 vU32).1 tF32 =
    ((Body.new {} tU32 vU32).1, .err (Body.new {} tU32 vU32).2) := by rfl

/-- hypothesis of `failed_cast_returns_message_intact` -/
example : (⟨⟨1, 0⟩, some (Body.new {} tU32 vU32).2⟩ : Msg).tryCast (Body.new {} tU32 vU32).1 tF32 =
    ((Body.new {} tU32 vU32).1, .err ⟨⟨1, 0⟩, some (Body.new {} tU32 vU32).2⟩) := by rfl

/-- hypothesis of `failed_cast_changes_nothing`: reachable state, layout-compatible wrong type -/
example : (step (mrun (demoOps.take 4)).1 (.cast "a" tF32)).2 = .castErr := by rfl

/-- hypotheses of `cast_ok_moves_value_out` -/
example : Rel (mrun (demoOps.take 7)).1 (srun (demoOps.take 7)).1 ∧
    (step (mrun (demoOps.take 7)).1 (.cast "a" tU32)).2 = .castOk (some vEn) ⟨1, 0⟩ :=
  ⟨(model_refines_spec _).2, by rfl⟩

/-- hypotheses of `roundtrip_value`, `clone_preserves_value`, `non_clonable_refuses`,
    `length_on_histories`, `cast_content_succeed_iff_creation_type`: an existing slot -/
example : lookup "b" (srun (demoOps.take 4)).1.slots = some ⟨⟨1, 0⟩, some ⟨tU32, vEn, 10, true⟩⟩ ∧
    clonableOf .plain = true := ⟨by rfl, rfl⟩

/-- the theorems instantiated: a history, then set / borrow / clone / cast with a wrong and the right type -/
example : (run (mrun demoOps).1 [.new "z" 9 9, .set "z" (.withLen 1000) tU32 vU32, .content "z" tF32,
      .tryClone "z" "y", .cast "y" tF32, .cast "y" tU32, .length "z"]).2 =
    [.done, .done, .content none, .cloned, .castErr, .castOk (some vU32) ⟨9, 9⟩, .length 1064 8512] := by rfl

end C16

/-
C07 — Channels account for every message with the specified delay, busy and drop rules.

Only property theorems live here.  `Chan` is the model of `des::net::channel::Channel`
(Model/Chan.lean, the code after the fixes of findings F5 and F14), `ChanSrv` the abstract single server
with a FIFO byte-bounded queue (Spec/ChanSrv.lean), `ChanRun` the event-level world both are run
in and that the driver replays implementation logs against.

All statements quantify over every metrics record `mt` (latency, jitter, Drop / Queue(None) /
Queue(limit) with any limit incl. 0), every script `ops` of offers, unbusy dispatches and exit
dispatches that is consistent with event order (`mrun mt ops = .ok w`: the kernel's tie rule decides
among the channel's own pending events; a same-instant offer may come before or after them) and every message (length, transmission time — 0 included —, jitter sample: all
unbounded `Nat`s).  `w` is the world after the script.
-/
import Desverif.Proofs.ChanProps
import Desverif.Model.CQRun
namespace C07
open ChanRun ChanRefine ChanInv
open Chan (Msg Metrics DropB Fate Err State)

/-- **Refinement.** On every script the model of the code and the abstract FIFO server either both
    reject the script for the same reason or end in worlds with the same clock, pending unbusy
    notifications, scheduled exits and history, and related channel states. -/
theorem model_refines_spec (mt : Metrics) (ops : List Op) : Agree (mrun mt ops) (srun mt ops) :=
  run_refines mt ops

/-- The dequeue loop of `unbusy` always terminates within the computed fuel and `acc_bytes` never
    underflows: the model never reaches a state the code cannot. -/
theorem never_internal (mt : Metrics) (ops : List Op) (e : Err) : mrun mt ops ≠ .error (.chan e) := by
  intro h
  have := run_refines mt ops
  rw [h] at this
  cases h2 : srun mt ops with
  | ok ws => rw [h2] at this; exact this
  | error e' =>
    rw [h2] at this
    have : e' = RErr.chan e := this.symm
    exact spec_runFrom_no_chan_err mt ops _ e (by rw [← this]; exact h2)

/-- **Each offered message has exactly one fate** — transmission started, still waiting in the
    buffer, dropped because the channel was busy, dropped because the buffer was full — and
    **exactly one exit event is scheduled per started message** (none for the others). -/
theorem each_message_one_fate (mt : Metrics) (ops : List Op) (w : World State)
    (h : mrun mt ops = .ok w) :
    w.offered.Perm (w.started.map (·.2) ++ w.chan.packets ++ w.dropBusy ++ w.dropFull) ∧
    w.exits.map (·.id) = w.started.map (·.2.id) := by
  obtain ⟨ws, _, hWR, hI⟩ := minv h
  refine ⟨?_, ?_⟩
  · rw [hWR.offered, hWR.started, hWR.chan.packets, hWR.dropBusy, hWR.dropFull]; exact hI.perm
  · rw [hWR.exits, hWR.started, hI.exits, List.map_map]; rfl

/-- **No duplication**: if the offered messages carry distinct ids then no id occurs twice among
    started / waiting / dropped messages, and no two exit events carry the same id. -/
theorem no_duplication (mt : Metrics) (ops : List Op) (w : World State) (h : mrun mt ops = .ok w)
    (hnd : (w.offered.map (·.id)).Nodup) :
    ((w.started.map (·.2) ++ w.chan.packets ++ w.dropBusy ++ w.dropFull).map (·.id)).Nodup ∧
    (w.exits.map (·.id)).Nodup := by
  obtain ⟨hp, hex⟩ := each_message_one_fate mt ops w h
  have h1 := (hp.map (·.id)).nodup_iff.mp hnd
  refine ⟨h1, ?_⟩
  rw [hex]
  have hsub : (w.started.map (·.2.id)).Sublist
      ((w.started.map (·.2) ++ w.chan.packets ++ w.dropBusy ++ w.dropFull).map (·.id)) := by
    simp only [List.map_append, List.map_map, List.append_assoc]
    exact List.sublist_append_left _ _
  exact hsub.nodup h1

/-- **No loss**: once no unbusy notification is pending, nothing waits in the buffer — every
    offered message was started (and has its exit event) or was dropped by the stated rules. -/
theorem quiescent_all_accounted (mt : Metrics) (ops : List Op) (w : World State)
    (h : mrun mt ops = .ok w) (hq : w.pend = []) :
    w.chan.packets = [] ∧
    w.offered.Perm (w.started.map (·.2) ++ w.dropBusy ++ w.dropFull) := by
  obtain ⟨ws, _, hWR, hI⟩ := minv h
  have hnone : ws.chan.serving = none := by
    cases hs : ws.chan.serving with
    | none => rfl
    | some f =>
      have := (hI.busy f hs).1
      rw [← hWR.pend, hq] at this
      simp at this
  have hqe : w.chan.packets = [] := by rw [hWR.chan.packets]; exact (hI.idle hnone).2
  refine ⟨hqe, ?_⟩
  have := (each_message_one_fate mt ops w h).1
  rw [hqe, List.append_nil] at this
  exact this

/-- **Busy exactly while transmitting.**  If the channel is busy, the last started message `m`
    (started at `s`, `m.tx > 0`) is being transmitted: `transmission_finish_time = s + m.tx`, the
    clock is inside `[s, s + m.tx]` and exactly one unbusy notification is pending, at that time.
    If it is not busy, no notification is pending, the finish time is reset and every transmission
    is over (`start + tx ≤ clock`).  (Boundary convention: at `clock = s + m.tx` the channel is busy
    until the notification is dispatched.) -/
theorem busy_iff_transmitting (mt : Metrics) (ops : List Op) (w : World State)
    (h : mrun mt ops = .ok w) :
    (w.chan.busy = true →
      w.pend = [w.chan.finish] ∧
      ∃ pre s m, w.started = pre ++ [(s, m)] ∧ w.chan.finish = s + m.tx ∧ 0 < m.tx ∧
        s ≤ w.clock ∧ w.clock ≤ s + m.tx) ∧
    (w.chan.busy = false →
      w.pend = [] ∧ w.chan.finish = 0 ∧ ∀ p ∈ w.started, p.1 + p.2.tx ≤ w.clock) := by
  obtain ⟨ws, _, hWR, hI⟩ := minv h
  constructor
  · intro hb
    have hs := busy_serving hWR.chan hb
    obtain ⟨hp, hc, pre, s, m, hst, hf, htx⟩ := hI.busy _ hs
    refine ⟨by rw [hWR.pend]; exact hp, pre, s, m, by rw [hWR.started]; exact hst, hf, htx, ?_, ?_⟩
    · have := hI.startLe (s, m) (by rw [hst]; simp)
      rw [hWR.clock]; exact this
    · rw [hWR.clock, ← hf]; exact hc
  · intro hb
    have hs := idle_serving hWR.chan hb
    refine ⟨by rw [hWR.pend]; exact (hI.idle hs).1, ?_, ?_⟩
    · have := hWR.chan.finish; rw [hs] at this; exact this
    · intro p hp
      have := hI.horizon p (by rw [← hWR.started]; exact hp)
      rw [hs] at this
      rw [hWR.clock]; exact this

/-- **Idle ⇒ queue empty** (the clause that failed before the fix of F5): whenever the channel is
    not busy its buffer is empty and `acc_bytes = 0`. -/
theorem idle_implies_queue_empty (mt : Metrics) (ops : List Op) (w : World State)
    (h : mrun mt ops = .ok w) (hb : w.chan.busy = false) :
    w.chan.packets = [] ∧ w.chan.acc = 0 := by
  obtain ⟨ws, _, hWR, hI⟩ := minv h
  have hq := (hI.idle (idle_serving hWR.chan hb)).2
  refine ⟨by rw [hWR.chan.packets]; exact hq, ?_⟩
  rw [hWR.chan.acc, hq]; rfl

/-- **FIFO, one at a time.**  The started messages followed by the waiting ones are, in this order,
    a subsequence of the offered messages (no overtaking — neither among queued messages nor by a
    later direct send), and transmissions never overlap: each starts no earlier than its
    predecessor's start + transmission time. -/
theorem queue_fifo (mt : Metrics) (ops : List Op) (w : World State) (h : mrun mt ops = .ok w) :
    (w.started.map (·.2) ++ w.chan.packets).Sublist w.offered ∧
    w.started.Pairwise (fun a b => a.1 + a.2.tx ≤ b.1) := by
  obtain ⟨ws, _, hWR, hI⟩ := minv h
  refine ⟨?_, ?_⟩
  · rw [hWR.started, hWR.chan.packets, hWR.offered]; exact hI.fifo
  · rw [hWR.started]; exact hI.noOverlap

/-- **Queued messages start the instant the channel becomes idle.**  If a message waits, the channel
    is busy and the only pending notification is due at `transmission_finish_time`; once it is the
    kernel's next event of the channel (`hk`: the exit events due before it are dispatched),
    dispatching it succeeds, happens at exactly that time and starts the head of the buffer at that time (followed,
    at the same instant, by further waiting messages iff the preceding ones take no time). -/
theorem queued_starts_when_idle (mt : Metrics) (ops : List Op) (w : World State)
    (h : mrun mt ops = .ok w) (m : Msg) (rest : List Msg) (hq : w.chan.packets = m :: rest)
    (hk : kmin w.kq = some (.unbusy w.chan.finish)) :
    w.chan.busy = true ∧ w.pend = [w.chan.finish] ∧
    ∃ w', step model mt w .unbusy = .ok w' ∧ w'.clock = w.chan.finish ∧
      ∃ more, w'.started = w.started ++ (w.chan.finish, m) :: more ∧
        (∀ p ∈ more, p.1 = w.chan.finish) ∧ more.map (·.2) ++ w'.chan.packets = rest := by
  obtain ⟨ws, _, hWR, hI⟩ := minv h
  have hb : w.chan.busy = true := by
    cases hbb : w.chan.busy with
    | true => rfl
    | false =>
      have := (idle_implies_queue_empty mt ops w h hbb).1
      rw [hq] at this; cases this
  have hs := busy_serving hWR.chan hb
  have hpend := (busy_iff_transmitting mt ops w h).1 hb
  refine ⟨hb, hpend.1, ?_⟩
  -- the abstract server's step
  have hstep := step_refines mt hWR .unbusy
  obtain ⟨hp, hcf, _⟩ := hI.busy _ hs
  have hsstep : step spec mt ws .unbusy = .ok (advance ws w.chan.finish
      (ChanSrv.drain mt w.chan.finish ws.chan.queue).1 [] (ws.kq.erase (.unbusy w.chan.finish))
      (ChanSrv.drain mt w.chan.finish ws.chan.queue).2.1
      (ChanSrv.drain mt w.chan.finish ws.chan.queue).2.2 []) := by
    simp only [step, hp, popMin_single]
    have : ¬ w.chan.finish < ws.clock := by omega
    have hk' : kmin ws.kq = some (.unbusy w.chan.finish) := by rw [← hWR.kq]; exact hk
    simp only [this, if_false, hk', ne_eq, not_true_eq_false, spec, ChanSrv.unbusy]
  rw [hsstep] at hstep
  cases hm : step model mt w .unbusy with
  | error e => rw [hm] at hstep; exact hstep.elim
  | ok w' =>
    rw [hm] at hstep
    have hWR' : WR w' _ := hstep
    refine ⟨w', rfl, by rw [hWR'.clock]; rfl, ?_⟩
    have hqs : ws.chan.queue = m :: rest := by rw [← hWR.chan.packets]; exact hq
    obtain ⟨d1, _, _⟩ := drain_started mt w.chan.finish ws.chan.queue
    have dsplit := drain_split mt w.chan.finish ws.chan.queue
    obtain ⟨more, hmore⟩ := drained_cons mt w.chan.finish m rest
    rw [hqs] at d1 dsplit
    rw [hmore] at dsplit
    refine ⟨more.map (fun x => (w.chan.finish, x)), ?_, ?_, ?_⟩
    · rw [hWR'.started, hWR.started]
      simp only [advance, startedOf, hqs, d1, hmore, List.map_cons]
    · intro p hp'
      simp only [List.mem_map] at hp'
      obtain ⟨x, _, rfl⟩ := hp'
      rfl
    · rw [hWR'.chan.packets]
      simp only [advance, hqs, List.map_map]
      have : ((fun x : Nat × Msg => x.2) ∘ fun x => (w.chan.finish, x)) = id := rfl
      rw [this, List.map_id]
      simpa using dsplit

/-- **The buffer accepts iff the bytes fit.**  In every reachable state `acc_bytes` is the total
    length of the waiting messages, and a message offered to the busy channel under `Queue(limit)`
    is queued iff (waiting bytes + its length ≤ limit, or there is no limit) and dropped as "full"
    otherwise; under `Drop` it is dropped. -/
theorem queue_accepts_iff_bytes_fit (mt : Metrics) (ops : List Op) (w : World State)
    (h : mrun mt ops = .ok w) (hb : w.chan.busy = true) (t : Nat) (m : Msg) :
    w.chan.acc = ChanSrv.bytes w.chan.packets ∧
    (∀ limit, mt.db = .queue limit →
      ((Chan.sendMessage mt w.chan t m).2.2 = .queued ↔ ChanSrv.accepts limit w.chan.packets m) ∧
      ((Chan.sendMessage mt w.chan t m).2.2 = .droppedFull ↔ ¬ ChanSrv.accepts limit w.chan.packets m)) ∧
    (mt.db = .drop → (Chan.sendMessage mt w.chan t m).2.2 = .droppedBusy) := by
  obtain ⟨ws, _, hWR, hI⟩ := minv h
  have hs := busy_serving hWR.chan hb
  have hacc : w.chan.acc = ChanSrv.bytes w.chan.packets := by
    rw [hWR.chan.acc, hWR.chan.packets]
  have hoff := (offer_refines mt hWR.chan t m).1
  have hfate : (Chan.sendMessage mt w.chan t m).2.2 = (ChanSrv.offer mt ws.chan t m).2.2 := by
    rw [hoff]
  refine ⟨hacc, ?_, ?_⟩
  · intro limit hdb
    rw [hfate, hWR.chan.packets]
    by_cases ha : ChanSrv.accepts limit ws.chan.queue m
    · simp [ChanSrv.offer, hs, hdb, ha]
    · simp [ChanSrv.offer, hs, hdb, ha]
  · intro hdb
    rw [hfate]
    simp [ChanSrv.offer, hs, hdb]

/-- `Queue(Some(0))`: a busy channel queues nothing that has a length (every des message has ≥ 64 B). -/
theorem queue_limit_zero_rejects (mt : Metrics) (ops : List Op) (w : World State)
    (h : mrun mt ops = .ok w) (hb : w.chan.busy = true) (hdb : mt.db = .queue (some 0))
    (t : Nat) (m : Msg) (hlen : 0 < m.len) :
    (Chan.sendMessage mt w.chan t m).2.2 = .droppedFull := by
  have := ((queue_accepts_iff_bytes_fit mt ops w h hb t m).2.1 (some 0) hdb).2
  rw [this]
  simp only [ChanSrv.accepts]
  omega

/-- **Delivery time formula.**  The exit events are, in order, exactly one per started message:
    scheduled at the start of its transmission for `start + (latency + tx + j)`; if every jitter
    sample is within `[0, jitter]` the delivery time lies in
    `[start + tx + latency, start + tx + latency + jitter]`, and is exact without jitter. -/
theorem delivery_time_formula (mt : Metrics) (ops : List Op) (w : World State)
    (h : mrun mt ops = .ok w) :
    w.exits = w.started.map (fun p => ⟨p.1, p.1 + (mt.latency + p.2.tx + p.2.j), p.2.id⟩) ∧
    ((∀ m ∈ w.offered, m.j ≤ mt.jitter) →
      ∀ e ∈ w.exits, ∃ p ∈ w.started, e.id = p.2.id ∧ e.sched = p.1 ∧
        p.1 + p.2.tx + mt.latency ≤ e.time ∧ e.time ≤ p.1 + p.2.tx + mt.latency + mt.jitter) := by
  obtain ⟨ws, _, hWR, hI⟩ := minv h
  have hex : w.exits = w.started.map (exitFor mt) := by rw [hWR.exits, hWR.started]; exact hI.exits
  refine ⟨hex, ?_⟩
  intro hj e he
  rw [hex] at he
  simp only [List.mem_map] at he
  obtain ⟨p, hp, rfl⟩ := he
  have hmem : p.2 ∈ w.offered := by
    have := (each_message_one_fate mt ops w h).1
    rw [this.mem_iff]
    simp only [List.mem_append, List.mem_map]
    exact Or.inl (Or.inl (Or.inl ⟨p, hp, rfl⟩))
  have := hj p.2 hmem
  refine ⟨p, hp, rfl, rfl, ?_, ?_⟩ <;> simp only [exitFor] <;> omega

/-- **The jitter is in `[0, jitter)`**: if every jitter sample is *below* the configured jitter
    (what `calculate_duration` guarantees after the repair of F16; before it the nanosecond
    rounding could return `jitter` itself), every delivery happens strictly before
    `start + tx + latency + jitter` and not before `start + tx + latency`. -/
theorem delivery_time_strictly_below_jitter_bound (mt : Metrics) (ops : List Op) (w : World State)
    (h : mrun mt ops = .ok w) (hj : ∀ m ∈ w.offered, m.j < mt.jitter) :
    ∀ e ∈ w.exits, ∃ p ∈ w.started, e.id = p.2.id ∧ e.sched = p.1 ∧
      p.1 + p.2.tx + mt.latency ≤ e.time ∧ e.time < p.1 + p.2.tx + mt.latency + mt.jitter := by
  obtain ⟨hex, _⟩ := delivery_time_formula mt ops w h
  intro e he
  rw [hex] at he
  simp only [List.mem_map] at he
  obtain ⟨p, hp, rfl⟩ := he
  have hmem : p.2 ∈ w.offered := by
    have := (each_message_one_fate mt ops w h).1
    rw [this.mem_iff]
    simp only [List.mem_append, List.mem_map]
    exact Or.inl (Or.inl (Or.inl ⟨p, hp, rfl⟩))
  have := hj p.2 hmem
  refine ⟨p, hp, rfl, rfl, ?_, ?_⟩ <;> simp only <;> omega

/-- **Zero jitter: delivery times follow offer order.**  Without jitter the exit events, which are
    scheduled in offer order (`queue_fifo`), carry non-decreasing timestamps — a message offered
    later is never due earlier. -/
theorem zero_jitter_preserves_offer_order (mt : Metrics) (ops : List Op) (w : World State)
    (h : mrun mt ops = .ok w) (hj : ∀ m ∈ w.offered, m.j = 0) :
    (w.exits.map (·.time)).Pairwise (· ≤ ·) ∧
    (w.exits.map (·.id)).Sublist (w.offered.map (·.id)) := by
  obtain ⟨hex, _⟩ := delivery_time_formula mt ops w h
  obtain ⟨hfifo, hno⟩ := queue_fifo mt ops w h
  have hmem : ∀ p ∈ w.started, p.2.j = 0 := by
    intro p hp
    apply hj
    have := (each_message_one_fate mt ops w h).1
    rw [this.mem_iff]
    simp only [List.mem_append, List.mem_map]
    exact Or.inl (Or.inl (Or.inl ⟨p, hp, rfl⟩))
  constructor
  · rw [hex, List.map_map, List.pairwise_map]
    refine List.Pairwise.imp_of_mem ?_ hno
    intro a b ha hb hab
    have h1 := hmem a ha
    have h2 := hmem b hb
    simp only [Function.comp]
    omega
  · rw [(each_message_one_fate mt ops w h).2]
    have h1 : (w.started.map (·.2)).Sublist w.offered :=
      (List.sublist_append_left _ _).trans hfifo
    have := h1.map (·.id)
    rw [List.map_map] at this
    exact this

/-- **Zero jitter: deliveries preserve offer order — also among equal timestamps** (full strength;
    this failed before the fix of F14).  In every kernel-consistent history the messages that have
    left the channel are exactly the first exit events in scheduling order — which is the order in
    which the transmissions started, a subsequence of offer order: no exit event is ever dispatched
    while an older one is pending, whatever the latency and the transmission times (0 included).
    Moreover the exit event the kernel takes next is always the oldest undelivered one. -/
theorem zero_jitter_dispatch_order (mt : Metrics) (ops : List Op) (w : World State)
    (h : mrun mt ops = .ok w) (hj : ∀ m ∈ w.offered, m.j = 0) :
    w.delivered = (w.started.take w.delivered.length).map (·.2.id) ∧
    w.delivered.Sublist (w.offered.map (·.id)) ∧
    (∀ e, kmin w.kq = some (.exit e) → (w.exits.drop w.delivered.length).head? = some e) := by
  obtain ⟨ws, _, hWR, hI, hK⟩ := minvK h hj
  have hd : w.delivered = (w.started.take w.delivered.length).map (·.2.id) := by
    have := hK.delivered
    rw [← hWR.delivered, ← hWR.exits, (delivery_time_formula mt ops w h).1, ← List.map_take,
      List.map_map] at this
    exact this
  refine ⟨hd, ?_, ?_⟩
  · rw [hd]
    have h1 : (w.started.take w.delivered.length).Sublist w.started := List.take_sublist _ _
    have h2 : (w.started.map (·.2)).Sublist w.offered :=
      (List.sublist_append_left _ _).trans (queue_fifo mt ops w h).1
    have := (h1.map (·.2)).trans h2
    have := this.map (·.id)
    rw [List.map_map] at this
    exact this
  · intro e he
    have hsorted := hK.sorted (by rw [← hWR.offered]; exact hj)
    obtain ⟨rest, hrest⟩ := kmin_exit_head hsorted (by rw [← hK.kq, ← hWR.kq]; exact he)
    rw [hWR.exits, hWR.delivered]
    show (pexits ws).head? = some e
    rw [hrest]; rfl

/-- The situation of F14 on the repaired code (latency 0, no jitter, `Queue(None)`, a message with a
    positive transmission time followed by one whose transmission time rounds to 0): the kernel
    hands message 1 out, then dispatches the unbusy notification, then hands out message 2 … -/
theorem zero_jitter_dispatch_order_f14_example :
    (mrun ⟨0, 0, .queue none⟩
        [.offer 0 ⟨1, 1000000, 4000, 0⟩, .offer 0 ⟨2, 64, 0, 0⟩, .deliver, .unbusy, .deliver]).toOption.map
      (·.delivered) = some [1, 2] ∧
    -- … and a history in which the unbusy notification is dispatched first is not a kernel history
    (match mrun ⟨0, 0, .queue none⟩
        [.offer 0 ⟨1, 1000000, 4000, 0⟩, .offer 0 ⟨2, 64, 0, 0⟩, .unbusy] with
      | .error .order => true
      | _ => false) = true := by
  decide

/-- **Pre-repair order, witness.**  Event kernel (abstract event set of C01/C03: events scheduled for
    the current instant are dispatched first): with the unbusy notification (payload 100) scheduled
    *before* exit 1 — the order of `sink.add` calls before the fix — the unbusy is fetched at 4000,
    exit 2 is scheduled at 4000 for 4000 and overtakes the older pending exit 1 … -/
theorem pre_repair_order_witness_kernel :
    (CQRun.srun [.add 4000 100, .add 4000 1, .fetch, .add 4000 2, .fetch, .fetch]).2 =
      [.added, .added, .fetched 100 4000, .added, .fetched 2 4000, .fetched 1 4000] := by decide

/-- … whereas with exit 1 scheduled before the unbusy notification it is fetched first. -/
theorem repaired_order_kernel :
    (CQRun.srun [.add 4000 1, .add 4000 100, .fetch, .fetch, .add 4000 2, .fetch]).2 =
      [.added, .added, .fetched 1 4000, .fetched 100 4000, .added, .fetched 2 4000] := by decide

/-! ### Non-vacuity: a history with a burst into a byte-bounded queue (accept up to the limit,
reject beyond), a drain of two zero-time messages by one unbusy, a same-instant offer before the
unbusy, exit dispatches interleaved as the kernel demands, and quiescence. -/

def demoMt : Metrics := ⟨100, 5, .queue (some 128)⟩

def demoOps : List Op :=
  [.offer 0 ⟨1, 100, 10, 3⟩, .offer 0 ⟨2, 64, 0, 0⟩, .offer 5 ⟨3, 64, 0, 5⟩, .offer 5 ⟨4, 64, 0, 0⟩,
   .unbusy, .offer 10 ⟨5, 70, 7, 1⟩, .offer 17 ⟨6, 64, 2, 0⟩, .unbusy, .unbusy,
   .deliver, .deliver, .deliver, .deliver, .deliver]

example : (mrun demoMt demoOps).toOption.map (fun w => (w.clock, w.chan.busy, w.pend)) =
    some (119, false, []) := by decide

example : (mrun demoMt demoOps).toOption.map (fun w => w.started.map (fun p => (p.1, p.2.id))) =
    some [(0, 1), (10, 2), (10, 3), (10, 5), (17, 6)] := by decide

example : (mrun demoMt demoOps).toOption.map (fun w => w.dropFull.map (·.id)) = some [4] := by decide

example : (mrun demoMt demoOps).toOption.map (fun w => w.exits.map (fun e => (e.time, e.id))) =
    some [(113, 1), (110, 2), (115, 3), (118, 5), (119, 6)] := by decide

/-- with jitter the kernel delivers by timestamp: 2 before 1 -/
example : (mrun demoMt demoOps).toOption.map (·.delivered) = some [2, 1, 3, 5, 6] := by decide

/-- a busy world with a waiting message whose unbusy notification is the kernel's next channel event
    (hypotheses of `queued_starts_when_idle`, `queue_accepts_iff_bytes_fit`) -/
example : (mrun demoMt (demoOps.take 3)).toOption.map
    (fun w => (w.chan.busy, w.chan.finish, w.chan.packets.map (·.id), w.chan.acc,
               decide (kmin w.kq = some (.unbusy w.chan.finish)))) =
    some (true, 10, [2, 3], 128, true) := by decide

/-- zero jitter, zero latency, zero and non-zero transmission times, same-instant bursts
    (hypotheses of the order theorems): delivered in offer order -/
example : (mrun ⟨0, 0, .queue none⟩
    [.offer 0 ⟨1, 100, 10, 0⟩, .offer 0 ⟨2, 64, 0, 0⟩, .offer 10 ⟨3, 64, 0, 0⟩, .deliver, .unbusy,
     .deliver, .deliver, .offer 10 ⟨4, 64, 0, 0⟩, .deliver]).toOption.map
    (fun w => (w.delivered, w.exits.map (fun e => (e.sched, e.time, e.id)))) =
    some ([1, 2, 3, 4], [(0, 10, 1), (10, 10, 2), (10, 10, 3), (10, 10, 4)]) := by decide

example : (srun demoMt demoOps).toOption.map (·.started) =
    (mrun demoMt demoOps).toOption.map (·.started) := by decide

end C07

/-
C10 — Stepping a simulation is indistinguishable from running it uninterrupted.

Model: `Rt.dispatchN` (= `dispatch_n_events`: swap in `EventCount(itr+n)`, `dispatch_all`, restore),
`Rt.dispatchUntil` (= `dispatch_events_until`), `Rt.dispatchAll`, `Rt.paused` (what a paused
runtime reports), over the calendar-queue model for every `(n,t)`.
-/
import Desverif.Props.C11
import Desverif.Proofs.RtStepAny
namespace C10
open Rt

/-- **Any sequence of `dispatch_n_events` / `dispatch_events_until` steps followed by
    `dispatch_all` that runs to completion produces exactly the observations of one uninterrupted
    `dispatch_all`**: the same handler runs in the same order with the same clock readings, the
    same accepted/rejected `add_event`s — for every program, every `(n,t)`, every start time, every
    cut (also inside a group of equal-timestamp events). -/
theorem stepped_eq_run (n t : Nat) (hn : 1 ≤ n) (ht : 1 ≤ t) (start : Nat) (prog : Prog)
    (fuel : Nat) (pre : List (Nat × Nat)) (steps : List Cmd)
    (hsteps : ∀ c ∈ steps, c.isStep = true)
    (hdone : (C02.session n t start .none prog fuel
      (pre.map (fun p => Cmd.add p.1 p.2) ++ (steps ++ [.runAll]))).1.es.len = 0) :
    ∃ K, ∀ K', K ≤ K' →
      allObs (C02.session n t start .none prog fuel
        (pre.map (fun p => Cmd.add p.1 p.2) ++ (steps ++ [.runAll]))).2 =
      allObs (C02.session n t start .none prog K'
        (pre.map (fun p => Cmd.add p.1 p.2) ++ [.runAll])).2 := by
  -- move to the abstract runtime
  have toSpec : ∀ fu cmds, (C02.session n t start .none prog fu cmds).2 =
      (C02.specSession start .none prog fu cmds).2 :=
    fun fu cmds => (C02.runtime_refines_spec n t hn ht start .none prog fu cmds).1
  have hlen : FES.len (C02.specSession start .none prog fuel
      (pre.map (fun p => Cmd.add p.1 p.2) ++ (steps ++ [.runAll]))).1.es = 0 := by
    have h2 := (C02.runtime_refines_spec n t hn ht start .none prog fuel
      (pre.map (fun p => Cmd.add p.1 p.2) ++ (steps ++ [.runAll]))).2.1
    have := cq_fes_sim.len _ _ h2.es
    simp only [cqES, fesES] at this
    rw [← this]; exact hdone
  -- sessions split at the end of the pre-run adds (which do not depend on the fuel)
  have splitApp : ∀ (fu : Nat) (a b : List Cmd) (x : S),
      execCmds fesES prog fu x (a ++ b) =
        ((execCmds fesES prog fu (execCmds fesES prog fu x a).1 b).1,
         (execCmds fesES prog fu x a).2 ++ (execCmds fesES prog fu (execCmds fesES prog fu x a).1 b).2) := by
    intro fu a
    induction a with
    | nil => intro b x; simp [execCmds]
    | cons c cs ih => intro b x; simp only [List.cons_append, execCmds]; rw [ih]
  have preFuel : ∀ (fu : Nat) (pre : List (Nat × Nat)) (x : S),
      execCmds fesES prog fu x (pre.map (fun p => Cmd.add p.1 p.2)) =
        execCmds fesES prog fuel x (pre.map (fun p => Cmd.add p.1 p.2)) := by
    intro fu pre
    induction pre with
    | nil => intro x; rfl
    | cons p ps ih => intro x; simp only [List.map_cons, execCmds, execCmd]; rw [ih]
  have preLimit : ∀ (pre : List (Nat × Nat)) (x : S),
      (execCmds fesES prog fuel x (pre.map (fun p => Cmd.add p.1 p.2))).1.limit = x.limit := by
    intro pre
    induction pre with
    | nil => intro x; rfl
    | cons p ps ih =>
      intro x
      simp only [List.map_cons, execCmds, execCmd]
      rw [ih]
      unfold addEvent; split
      · rfl
      · split <;> rfl
  let s1 := (execCmds fesES prog fuel (build FES.init start .none) (pre.map (fun p => Cmd.add p.1 p.2))).1
  have hl1 : s1.limit = .none := by
    show (execCmds fesES prog fuel _ _).1.limit = _
    rw [preLimit]; rfl
  unfold C02.specSession at hlen
  rw [splitApp] at hlen
  obtain ⟨K, hK⟩ := stepped_eq_run_spec prog fuel steps s1 hl1 hsteps hlen
  refine ⟨K, ?_⟩
  intro K' hKK
  rw [toSpec, toSpec]
  unfold C02.specSession
  rw [splitApp fuel, splitApp K', preFuel K']
  simp only [allObs, List.flatMap_append]
  congr 1
  have := hK K' hKK
  simp only [execCmds, execCmd, List.flatMap_cons, List.flatMap_nil, List.append_nil]
  rw [this]
  rfl

/-- **`dispatch_n_events(n)` dispatches exactly the next `n` events of the unlimited run (or all
    that remain)** — from any state; the builder's own limit is ignored during a step, as in the
    code. -/
theorem dispatchN_exact (prog : Prog) (fuel n : Nat) (s : S) :
    handledOf (dispatchN fesES prog fuel n s).2 =
      (handledOf (dispatchAll fesES prog fuel (withLimit s .none)).2).take n := by
  have := dispatchAll_handled_takeAdm prog (.eventCount (s.itr + n)) fuel s
  rw [takeAdm_eventCount] at this
  simp only [dispatchN]
  have e : s.itr + n - s.itr = n := by omega
  rw [e] at this
  exact this

/-- **`dispatch_events_until(t)` dispatches exactly the events up to the first one later than
    `t`** (timestamps being non-decreasing: exactly the events with timestamp ≤ `t`). -/
theorem dispatchUntil_exact (prog : Prog) (fuel t : Nat) (s : S) :
    handledOf (dispatchUntil fesES prog fuel t s).2 =
      (handledOf (dispatchAll fesES prog fuel (withLimit s .none)).2).takeWhile
        (fun p => decide (p.2 ≤ t)) := by
  have := dispatchAll_handled_takeAdm prog (.simTime t) fuel s
  rw [takeAdm_simTime] at this
  exact this

/-- **`dispatch_events_until(T)` dispatches exactly the events with timestamp ≤ `T`** — on the
    calendar-queue runtime, from the paused state of any session (any builder limit, which a step
    ignores as the code does): the handled events are exactly those events of the unlimited run
    from that state whose timestamp is ≤ `T`, in the same order. -/
theorem dispatchUntil_exactly_events_le (n t : Nat) (hn : 1 ≤ n) (ht : 1 ≤ t) (start : Nat)
    (l : Limit) (prog : Prog) (fuel : Nat) (cmds0 : List Cmd) (T : Nat) :
    handledOf (dispatchUntil cqES prog fuel T (C02.session n t start l prog fuel cmds0).1).2 =
      (handledOf (dispatchAll cqES prog fuel
        { (C02.session n t start l prog fuel cmds0).1 with limit := .none }).2).filter
        (fun p => decide (p.2 ≤ T)) := by
  obtain ⟨_, hrel, _⟩ := C02.runtime_refines_spec n t hn ht start l prog fuel cmds0
  have hinv : RInv (C02.specSession start l prog fuel cmds0).1 :=
    (C02.spec_session_run start l prog fuel cmds0).inv'
  have h1 := (execCmd_sim cq_fes_sim prog fuel hrel (.stepUntil T)).1
  simp only [execCmd] at h1
  have h2 := (dispatchAll_sim cq_fes_sim prog fuel (withLimit_sim hrel .none)).1
  rw [h1, h2]
  have h3 := dispatchUntil_exact prog fuel T (C02.specSession start l prog fuel cmds0).1
  have hm := (dispatchAll_run prog fuel (withLimit_inv hinv .none)).1.mono
  rw [h3]
  exact takeWhile_eq_filter_of_mono T _ hm

/-- **`dispatch_n_events(k)` dispatches exactly the next `k` events (or all that remain)** — on the
    calendar-queue runtime, from the paused state of any session and for any builder limit: the
    handled events are the first `k` of the unlimited run from that state, so their number is
    `min k (number of events the unlimited run handles)`. -/
theorem dispatchN_exactly_next_k (n t : Nat) (hn : 1 ≤ n) (ht : 1 ≤ t) (start : Nat)
    (l : Limit) (prog : Prog) (fuel : Nat) (cmds0 : List Cmd) (k : Nat) :
    handledOf (dispatchN cqES prog fuel k (C02.session n t start l prog fuel cmds0).1).2 =
      (handledOf (dispatchAll cqES prog fuel
        { (C02.session n t start l prog fuel cmds0).1 with limit := .none }).2).take k := by
  obtain ⟨_, hrel, _⟩ := C02.runtime_refines_spec n t hn ht start l prog fuel cmds0
  have h1 := (execCmd_sim cq_fes_sim prog fuel hrel (.stepN k)).1
  simp only [execCmd] at h1
  have h2 := (dispatchAll_sim cq_fes_sim prog fuel (withLimit_sim hrel .none)).1
  rw [h1, h2]
  exact dispatchN_exact prog fuel k (C02.specSession start l prog fuel cmds0).1

/-- a step stops only when the event set is empty or the next event is beyond the step's bound
    (unless the fuel ran out), and leaves the builder's limit in place -/
theorem step_stops_at_bound (prog : Prog) (fuel n : Nat) (s : S) :
    (dispatchN fesES prog fuel n s).1.limit = s.limit ∧
    ((handledOf (dispatchN fesES prog fuel n s).2).length < fuel →
      FES.len (dispatchN fesES prog fuel n s).1.es = 0 ∨
      (handledOf (dispatchN fesES prog fuel n s).2).length = n) := by
  obtain ⟨k, hk, heq, hlen, hstop, hlim⟩ := dispatchAll_limit_prefix prog (.eventCount (s.itr + n)) fuel s
  refine ⟨rfl, ?_⟩
  intro hlt
  change (handledOf (dispatchAll fesES prog fuel (withLimit s (.eventCount (s.itr + n)))).2).length < fuel at hlt
  show FES.len (dispatchAll fesES prog fuel (withLimit s (.eventCount (s.itr + n)))).1.es = 0 ∨
    (handledOf (dispatchAll fesES prog fuel (withLimit s (.eventCount (s.itr + n)))).2).length = n
  rw [hlen] at hlt ⊢
  rcases hstop hlt with h | h
  · left; exact h
  · right
    -- the limit hit means itr' + 1 > itr + n, and itr' = itr + k ≤ itr + n
    have htake : handledOf (dispatchAll fesES prog fuel (withLimit s (.eventCount (s.itr + n)))).2 =
        (handledOf (dispatchAll fesES prog fuel (withLimit s .none)).2).take n := dispatchN_exact prog fuel n s
    have hle : k ≤ n := by
      have := congrArg List.length htake
      rw [hlen, List.length_take] at this
      omega
    have hitr : (dispatchAll fesES prog fuel (withLimit s (.eventCount (s.itr + n)))).1.itr = s.itr + k := by
      -- itr after k unlimited steps
      have hk2 : ∀ (k : Nat) (x : S), (dispatchAll fesES prog k x).1.itr =
          x.itr + (handledOf (dispatchAll fesES prog k x).2).length := by
        intro k
        induction k with
        | zero => intro x; rfl
        | succ k ih =>
          intro x
          rw [dispatchAll_succ]
          rcases dispatchEvent_cases prog x with ⟨_, hd⟩ | ⟨_, _, hd⟩ | ⟨_, _, s', os, hs, hd⟩
          · rw [hd]; rfl
          · rw [hd]; rfl
          · rw [hd]
            obtain ⟨a, b, rest, _, hh, _⟩ := stepU_shape hs
            simp only
            rw [ih s', stepU_itr hs, handledOf_append, hh, List.length_append]
            simp; omega
      have h3 := hk2 k (withLimit s .none)
      rw [heq] at h3
      have h4 : (dispatchAll fesES prog fuel (withLimit s (.eventCount (s.itr + n)))).1.itr =
          s.itr + (handledOf (dispatchAll fesES prog fuel (withLimit s (.eventCount (s.itr + n)))).2).length := h3
      rw [hlen] at h4
      exact h4
    unfold limitHit at h
    rw [hlim] at h
    simp only at h
    cases hnt : fesES.nextTime (dispatchAll fesES prog fuel (withLimit s (.eventCount (s.itr + n)))).1.es with
    | none => rw [hnt] at h; cases h
    | some t =>
      rw [hnt, hitr] at h
      simp only [Limit.applies, decide_eq_true_eq] at h
      omega

def demoProg0 : Prog := [[⟨false, 0, 3⟩], [], [], []]

/-- **Stepping is indistinguishable from running from *every* paused state**: after an arbitrary
    earlier session `cmds0` (external adds, steps, runs, in any interleaving — in particular cuts
    followed by externally added events followed by further cuts), any further sequence of
    `dispatch_n_events` / `dispatch_events_until` steps followed by `dispatch_all` produces, on the
    calendar-queue runtime for every `(n,t)`, exactly the observations of one uninterrupted
    `dispatch_all` from that paused state, and ends in a runtime that reports the same clock,
    event count, remaining and scheduled counters. -/
theorem stepped_eq_run_from_any_pause (n t : Nat) (hn : 1 ≤ n) (ht : 1 ≤ t) (start : Nat)
    (prog : Prog) (fuel : Nat) (cmds0 steps : List Cmd)
    (hsteps : ∀ c ∈ steps, c.isStep = true)
    (hdone : cqES.len (execCmds cqES prog fuel (C02.session n t start .none prog fuel cmds0).1
      (steps ++ [.runAll])).1.es = 0) :
    ∃ K, ∀ K', K ≤ K' →
      (dispatchAll cqES prog K' (C02.session n t start .none prog fuel cmds0).1).2 =
        allObs (execCmds cqES prog fuel (C02.session n t start .none prog fuel cmds0).1
          (steps ++ [.runAll])).2 ∧
      paused cqES (dispatchAll cqES prog K' (C02.session n t start .none prog fuel cmds0).1).1 =
        paused cqES (execCmds cqES prog fuel (C02.session n t start .none prog fuel cmds0).1
          (steps ++ [.runAll])).1 := by
  obtain ⟨_, hrel, _⟩ := C02.runtime_refines_spec n t hn ht start .none prog fuel cmds0
  have hl : (C02.specSession start .none prog fuel cmds0).1.limit = .none := by
    unfold C02.specSession
    rw [execCmds_limit prog fuel cmds0 (build_inv start .none)]
    rfl
  exact stepped_eq_run_sim cq_fes_sim prog fuel steps hrel hl hsteps hdone

/-- non-vacuity of `stepped_eq_run_from_any_pause`: a cut, an external add while paused, a second
    cut inside the resulting tie group, then the rest — the premises hold and both sides agree -/
example :
    cqES.len (execCmds cqES demoProg0 50 (C02.session 4 1 0 .none demoProg0 50
      [.add 0 0, .add 5 1, .stepN 1, .add 3 2]).1 ([.stepN 1, .stepUntil 3] ++ [.runAll])).1.es = 0 ∧
    (dispatchAll cqES demoProg0 50 (C02.session 4 1 0 .none demoProg0 50
      [.add 0 0, .add 5 1, .stepN 1, .add 3 2]).1).2 =
    allObs (execCmds cqES demoProg0 50 (C02.session 4 1 0 .none demoProg0 50
      [.add 0 0, .add 5 1, .stepN 1, .add 3 2]).1 ([.stepN 1, .stepUntil 3] ++ [.runAll])).2 := by
  decide

/-- **While paused the runtime reports the time of the last dispatched event, counts the
    undelivered events as remaining**, for every session (steps, external adds, runs). -/
theorem paused_reports (n t : Nat) (hn : 1 ≤ n) (ht : 1 ≤ t) (start : Nat) (l : Limit) (prog : Prog)
    (fuel : Nat) (cmds : List Cmd) :
    let s := (C02.session n t start l prog fuel cmds).1
    (paused cqES s).now = lastTime (handledOf (allObs (C02.session n t start l prog fuel cmds).2)) start ∧
    (paused cqES s).remaining = (pendingVT (C02.specSession start l prog fuel cmds).1.es).length := by
  intro s
  obtain ⟨_, h2, _⟩ := C02.runtime_refines_spec n t hn ht start l prog fuel cmds
  refine ⟨(C02.clock_is_last_dispatched n t hn ht start l prog fuel cmds).1, ?_⟩
  have := cq_fes_sim.len _ _ h2.es
  simp only [paused]
  rw [this]
  simp [fesES, FES.len, pendingVT]

/-- **A paused runtime accepts new events at any time not earlier than the reported time** and
    rejects earlier ones (re-export of `C02.add_outcome` for paused sessions). -/
theorem paused_add_ge_now_accepted (n t : Nat) (hn : 1 ≤ n) (ht : 1 ≤ t) (start : Nat) (l : Limit)
    (prog : Prog) (fuel : Nat) (cmds : List Cmd) (time node : Nat) :
    let s := (C02.session n t start l prog fuel cmds).1
    (addEvent cqES s time node).2 = .sched node time (decide ((paused cqES s).now ≤ time)) :=
  (C02.add_outcome n t hn ht start l prog fuel cmds time node).1

/-! Non-vacuity: three events at the same instant, cut after the first (inside the tie group);
an external add while paused; the overall order is that of the uninterrupted run. -/
def demoProg : Prog := [[⟨false, 0, 3⟩], [], [], []]

example : handledOf (allObs (C02.session 4 1 0 .none demoProg 50
    [.add 0 0, .add 0 1, .add 0 2, .stepN 1, .stepN 1, .runAll]).2) =
  handledOf (allObs (C02.session 4 1 0 .none demoProg 50 [.add 0 0, .add 0 1, .add 0 2, .runAll]).2) := by
  decide
example : handledOf (allObs (C02.session 4 1 0 .none demoProg 50
    [.add 0 0, .add 5 1, .stepN 1, .add 2 2, .runAll]).2) = [(0, 0), (3, 0), (2, 2), (1, 5)] := by decide

end C10

/-
C09 — a shut-down module is inert until restart and restarts cleanly on time.

Statements are about the kernel model `Net` (Model/Net.lean), the same definitions the driver runs
against the real simulator.  `Quiet s` is the invariant that holds between events (buffer empty,
no current module, no shutdown request pending); it is established by `State.init` and preserved
by the start-up stages and by every dispatched event (`C13.globals_released`).

Partial w.r.t. tokio: dropping the per-module runtime is modelled as removing every task and its
timer entry exactly once (`ModRt.shutDown`); the whole-trace correspondence check validates it.
-/
import Desverif.Proofs.NetRun
import Desverif.Proofs.NetWalk
import Desverif.Proofs.NetSilent
namespace C09
open Net

/-- At the end of the event in which module `mi` asked for shutdown (a `dwn` line among its
    observations `l`) the module is inactive and all its tasks and timers are gone; if it did not
    ask, nothing of the sort happens and it stays active unless a callback panicked. -/
theorem shutdown_takes_effect_at_end_of_event {s : State} (hq : Quiet s) (mi : Nat) (kind : Kind) (m : ModRt)
    (hm : s.mods[mi]? = some m) :
    ∃ l fm, EvSummary s mi m kind l ∧ (s.moduleEvent mi kind).mods[mi]? = some fm ∧
      (l.any isDwn = true → fm.active = false ∧ fm.sleepers = [] ∧ fm.ready = [] ∧ fm.unpolled = []) ∧
      (l.any isDwn = false → fm.active = ((m.enter kind).active && !l.any isCbPan)) := by
  obtain ⟨l, sm⟩ := moduleEvent_summary hq mi kind m hm
  obtain ⟨fm, h1, h2, _, _, _, _, _, h8⟩ := sm.mods
  have hlt : mi < s.mods.length := (List.getElem?_eq_some_iff.mp hm).1
  refine ⟨l, fm, sm, by rw [h1]; simp [List.getElem?_set_self hlt], ?_, ?_⟩
  · intro hd
    exact ⟨by rw [h2, hd]; rfl, h8 hd⟩
  · intro hd
    rw [h2, hd]; rfl

/-- **inert while down**: as long as the restart event of an inactive module `m` is not
    dispatched, no dispatched event — arrivals for `m`, wake-ups of `m`'s old timers, traffic and
    events of other modules, in any interleaving — produces an observation of `m` (no handler, no
    task, no timer, no send), and `m` stays inactive. -/
theorem inert_while_down {s : State} (hq : Quiet s) (m n : Nat)
    (hdown : (s.mods[m]?).map (·.active) = some false) (hno : s.noRestart m n) :
    ∃ seg, (s.steps n).trace = s.trace ++ seg ∧ (∀ o ∈ seg, o.mod ≠ m) ∧
      ((s.steps n).mods[m]?).map (·.active) = some false :=
  steps_inert n hq m hdown hno

/-- the same for the start-up phase: a module that shut down in a start stage is skipped by the
    later stages (`simStart` calls `moduleEvent` for active modules only) -/
theorem no_start_stage_while_down {s : State} (hq : Quiet s) (mi m : Nat) (stage : Nat)
    (hdown : (s.mods[m]?).map (·.active) = some false) (hne : mi ≠ m) :
    ∃ seg, (s.moduleEvent mi (.simStart stage)).trace = s.trace ++ seg ∧ (∀ o ∈ seg, o.mod ≠ m) ∧
      ((s.moduleEvent mi (.simStart stage)).mods[m]?).map (·.active) = some false := by
  obtain ⟨seg, a, b, c, _⟩ := moduleEvent_inert hq mi (.simStart stage) m hdown (fun h => absurd h hne)
  exact ⟨seg, a, b, c⟩

/-- **in-transit and through traffic is dropped.**
    (1) a message that, walking its gate chain from gate `pos`, meets a gate (not the last one)
    whose owner is inactive before it enters the channel, produces no event at all;
    (2) at the kernel level the `MessageExitingConnection` event then changes nothing but the
    future event set;
    (3) a message delivered to an inactive module is not handled: no observation, no error. -/
theorem in_transit_and_through_traffic_dropped :
    (∀ (env : Env) (li : Nat) (l : Link) (msg : Msg) (c : ChanSt) (pos k : Nat),
      pos + k + 1 < l.owners.length → env.isActive (l.owners.getD (pos + k) 0) = false →
      (∀ cfg, l.chan = some cfg → ¬ (pos ≤ cfg.pos ∧ cfg.pos < pos + k)) →
      walk env li l msg c pos = (c, [])) ∧
    (∀ (s s' : State) (e : CQ.Ev) (f : FES.State), FES.fetch s.fes = .ok (e, f) →
      ∀ (li pos : Nat) (msg : Msg), (s.evs[e.val]? : Option KEvent) = some (.exitConn li pos msg) →
      ∀ (l : Link) (c : ChanSt), s.links[li]? = some l → s.chans[li]? = some c →
      ∀ k, pos + k + 1 < l.owners.length →
      (s.mods[l.owners.getD (pos + k) 0]?).map (·.active) = some false →
      (∀ cfg, l.chan = some cfg → ¬ (pos ≤ cfg.pos ∧ cfg.pos < pos + k)) →
      s.step = some s' →
      s'.evs = s.evs ∧ s'.trace = s.trace ∧ s'.mods = s.mods ∧ s'.errors = s.errors ∧ s'.chans = s.chans) ∧
    (∀ (s : State), Quiet s → ∀ (m : Nat) (msg : Msg), (s.mods[m]?).map (·.active) = some false →
      (s.moduleEvent m (.message msg)).trace = s.trace ∧ (s.moduleEvent m (.message msg)).errors = s.errors) := by
  refine ⟨?_, ?_, ?_⟩
  · intro env li l msg c pos k hk hin hch
    unfold walk
    apply walkFrom_dropped _ _ _ _ _ _ pos k
    · rw [List.length_drop]; omega
    · have : (l.owners.drop pos).getD k 0 = l.owners.getD (pos + k) 0 := by
        simp [List.getD, List.getElem?_drop]
      rw [this]; exact hin
    · exact hch
  · intro s s' e f hf li pos msg hev l c hl hc k hk hin hch hs
    exact step_exit_dropped e f hf li pos msg hev l c hl hc k hk hin hch hs
  · intro s hq m msg hd
    obtain ⟨seg, a, _, _, d⟩ := moduleEvent_inert hq m (.message msg) m hd (fun _ => ⟨by simp, by simp⟩)
    obtain ⟨d1, d2⟩ := d rfl
    subst d1
    exact ⟨by simpa using a, d2⟩

/-- **reset exactly once per shutdown**: the observations a module event adds to the trace
    contain exactly one `reset` line if the event requested shutdown (a `dwn` line, from the
    handler or from a task polled with it, however many requests were made), none otherwise; the
    `reset` is the last line of the event. -/
theorem reset_exactly_once_per_shutdown {s : State} (hq : Quiet s) (mi : Nat) (kind : Kind) (m : ModRt)
    (hm : s.mods[mi]? = some m) :
    ∃ seg, (s.moduleEvent mi kind).trace = s.trace ++ seg ∧
      seg.countP isReset = (if seg.any isDwn then 1 else 0) ∧
      (seg.any isDwn = true → seg.getLast? = some (resetObs mi s.fes.cur)) := by
  obtain ⟨l, sm⟩ := moduleEvent_summary hq mi kind m hm
  have h0 : l.countP isReset = 0 := by
    rw [List.countP_eq_zero]
    intro o ho
    have := (sm.own o ho).2.2.1
    simp [isReset, this]
  refine ⟨l ++ (if l.any isDwn then [resetObs mi s.fes.cur] else []), by rw [sm.trace, List.append_assoc], ?_, ?_⟩
  · cases hd : l.any isDwn <;> simp [hd, h0, isReset, isDwn, resetObs, List.countP_append]
  · cases hd : l.any isDwn <;> simp [hd, isDwn, resetObs]

/-- the request records the restart time asked for: `shutdow_and_restart_in(d)` at time `now`
    asks for `now + d`, `shutdow_and_restart_at(t)` for `t`, `shutdown()` for none; the last
    request of an event wins -/
theorem request_records_restart_time (env : Env) (it j : Bool) (es : ES) (d t : Nat) :
    (runAction env it j es (.restartIn d)).1.req = some (some (env.now + d)) ∧
    (runAction env it j es (.restartAt t)).1.req = some (some t) ∧
    (runAction env it j es .shutdown).1.req = some none :=
  ⟨rfl, rfl, rfl⟩

/-- consuming a request with restart time `t` (not in the past) schedules exactly one
    `ModuleRestartEvent` of that module, at exactly `t`; without a restart time nothing is scheduled -/
theorem restart_scheduled_at_requested_time (s : State) (mi : Nat) (m : ModRt) (t : Nat) (ht : s.fes.cur ≤ t) :
    (m.shutdownReq = some (some t) →
      (s.consumeShutdown mi m).evs = s.evs.push (.restart mi) ∧
      (⟨t, s.fes.nextId, s.evs.size⟩ : CQ.Ev) ∈ (s.consumeShutdown mi m).fes.zero ++ (s.consumeShutdown mi m).fes.pend ∧
      (s.consumeShutdown mi m).fes.zero.length + (s.consumeShutdown mi m).fes.pend.length =
        s.fes.zero.length + s.fes.pend.length + 1) ∧
    (m.shutdownReq = some none → (s.consumeShutdown mi m).evs = s.evs ∧ (s.consumeShutdown mi m).fes = s.fes) := by
  constructor
  · intro h
    simp only [State.consumeShutdown, h, State.schedule, FES.add]
    have : ¬ t < s.fes.cur := by omega
    simp only [this, if_false]
    by_cases he : t = s.fes.cur
    · simp [he]; omega
    · simp [he]; omega
  · intro h
    simp [State.consumeShutdown, h]

/-- **restart stages once, at the restart time**: the restart event of module `mi`, dispatched at
    time `s.fes.cur`, runs the start stages `0, 1, …` in order, each once, all with that time
    stamp; all `m.stages` of them unless a stage callback panics; and if no stage panics or asks
    for shutdown again the module is active afterwards — it handles messages again
    (`restarted_module_handles_messages`). -/
theorem restart_stages_once_at_restart_time {s : State} (hq : Quiet s) (mi : Nat) (m : ModRt)
    (hm : s.mods[mi]? = some m) :
    ∃ l n fm, EvSummary s mi m .restart l ∧ n ≤ m.stages ∧
      l.filter isStart = ((List.range m.stages).take n).map (fun k => (⟨mi, .start, some k, none, s.fes.cur⟩ : Obs)) ∧
      (l.any isCbPan = false → n = m.stages) ∧
      (s.moduleEvent mi .restart).mods[mi]? = some fm ∧
      (l.any isCbPan = false → l.any isDwn = false → fm.active = true) := by
  obtain ⟨l, n, sm, hn, hf, hall⟩ := restart_summary hq mi m hm
  obtain ⟨fm, h1, h2, _⟩ := sm.mods
  have hlt : mi < s.mods.length := (List.getElem?_eq_some_iff.mp hm).1
  refine ⟨l, n, fm, sm, hn, hf, hall, by rw [h1]; simp [List.getElem?_set_self hlt], ?_⟩
  intro hp hd
  rw [h2, hd, hp]
  rfl

/-- an active module handles a delivered message: the first observation of the event is the
    handler's entry line with the message's id and serial number, at the current time -/
theorem restarted_module_handles_messages (s : State) (mi : Nat) (m : ModRt) (msg : Msg)
    (hm : s.mods[mi]? = some m) (ha : m.active = true) :
    ∃ rest, (s.moduleEvent mi (.message msg)).trace =
      s.trace ++ (⟨mi, .msg, some msg.id, some msg.serial, s.fes.cur⟩ : Obs) :: rest := by
  obtain ⟨h1, _⟩ := moduleEvent_fields s mi (.message msg) m hm
  obtain ⟨l', x⟩ := exec_spec (s.env mi) (m.bump s.fes.cur) ⟨mi, .msg, some msg.id, some msg.serial, s.fes.cur⟩
    ((m.bump s.fes.cur).prog.onMsg msg.id) (ES.start (m.bump s.fes.cur) s.chans)
  have hobs : (s.cbResult mi m (.message msg)).es.obs = (⟨mi, .msg, some msg.id, some msg.serial, s.fes.cur⟩ : Obs) :: l' := by
    have := x.obs
    simp only [ES.start, List.nil_append, List.singleton_append] at this
    simp only [State.cbResult, callback, bump_active, ha, if_true]
    exact this
  refine ⟨l' ++ (if (s.cbResult mi m (.message msg)).mod.shutdownReq.isSome then [resetObs mi s.fes.cur] else []), ?_⟩
  rw [h1, hobs]
  simp

/-- **others unaffected**: from the end of the event in which module `m` went down until its
    restart event is dispatched, the whole kernel state — the traces, timers, channels, errors of
    every other module, which messages are dropped, the future event set — evolves in exactly the
    same way whatever program `m` carries (e.g. `Prog.silent`, the module whose outputs are all
    removed): the two runs differ in the unused program text of `m` only.  In particular the trace
    of every other module equals its trace in the run where `m`'s outputs after the shutdown are
    removed. -/
theorem others_unaffected {s : State} (hq : Quiet s) (m n : Nat) (p : Prog)
    (hdown : (s.mods[m]?).map (·.active) = some false) (hno : s.noRestart m n) :
    (s.withProg m p).steps n = (s.steps n).withProg m p ∧
    ((s.withProg m p).steps n).trace = (s.steps n).trace ∧
    ((s.withProg m p).steps n).errors = (s.steps n).errors ∧
    ((s.withProg m p).steps n).fes = (s.steps n).fes ∧
    ((s.withProg m p).steps n).evs = (s.steps n).evs ∧
    ((s.withProg m p).steps n).chans = (s.steps n).chans ∧
    (∀ i, i ≠ m → ((s.withProg m p).steps n).mods[i]? = (s.steps n).mods[i]?) := by
  have h := withProg_steps n hq m p hdown hno
  rw [h]
  exact ⟨rfl, rfl, rfl, rfl, rfl, rfl, fun i hi => withProg_getElem_ne _ m p hi⟩

/-! ## non-vacuity: a concrete run with a shutdown, a dropped message, a restart -/

/-- module 0: on message 1 send 7 to module 1 with delay 4, spawn a task (sleep 2), ask for restart
    in 5 ns; one start stage that logs; module 1 logs what it gets -/
def p0 : Prog :=
  { onMsg := fun id => if id = 1 then [.send 1 4 7, .spawn 3 2 false true false, .restartIn 5] else [.log id],
    onStart := fun _ => [.log 100], onEnd := [], onTask := fun _ => [.log 33] }
def p1 : Prog := { onMsg := fun id => [.log id], onStart := fun _ => [], onEnd := [], onTask := fun _ => [] }
def cfg0 : Config :=
  { mods := [⟨p0, 1, false⟩, ⟨p1, 1, false⟩],
    links := [{ src := 0, dst := 1, owners := [0, 1], chan := none }],
    inits := [(0, 1, 3), (0, 2, 6), (0, 2, 9)] }

/-- the run: handler at 3 (send, shutdown request), reset at 3; the task never runs; the message
    in transit is dropped at module 0's own gate at 7 (module 0 is down), message 2 at 6 is
    ignored; restart at 8 replays stage 0; message 2 at 9 is handled again -/
example : ((run 100 cfg0).trace.filter (·.mod == 0)).map (fun o => (o.kind, o.a, o.time)) =
    [(.start, some 0, 0), (.log, some 100, 0), (.msg, some 1, 3), (.snd, some 7, 3), (.dwn, some 8, 3),
     (.reset, none, 3), (.start, some 0, 8), (.log, some 100, 8), (.msg, some 2, 9), (.log, some 2, 9),
     (.end_, none, 9)] ∧
    ((run 100 cfg0).trace.filter (fun o => o.mod == 1 && o.kind == .msg)) = [] ∧
    (run 100 cfg0).fault = none ∧ (run 100 cfg0).errors = [] := by decide

example : Quiet (State.init cfg0).simStart := simStart_quiet (init_quiet cfg0)

/-- the hypotheses of `inert_while_down` / `others_unaffected` are met: after 1 event (the handler
    that shuts module 0 down) module 0 is inactive and none of the next 3 events is its restart -/
example : ((((State.init cfg0).simStart.steps 1).mods[0]?).map (·.active) = some false) ∧
    (((State.init cfg0).simStart.steps 1).nextEvent = some (.wakeup 0)) ∧
    ((((State.init cfg0).simStart.steps 4).nextEvent) = some (.restart 0)) := by decide

end C09

/-
Model of the instantiation of an elaborated NDL tree (`des/src/net/ndl/mod.rs`:
`SimBuilderScoped::ndl`, `SimBuilder::raw_ndl`, `access_gate`, `ChannelMetrics::from(&Link)`) on
top of `ModuleRef::create_gate_cluster`, `ModuleContext::gate / child` and `Gate::connect`
(`des/src/net/gate.rs`), and the abstract denotation of a description.

Module paths are strings joined with `.` (names are assumed not to contain `.`).
-/
import Desverif.Model.Ndl
namespace Ndl

/-- `ChannelMetrics` (nanoseconds; `Queue(Some(queue))`) -/
structure Metrics where
  bitrate : Nat
  latency : Nat
  jitter : Nat
  queue : Nat
deriving DecidableEq, Repr

/-- `i32 as usize` on a 64-bit target -/
def wrapUsize (v : Int) : Nat := if v < 0 then (2 ^ 64 - v.natAbs) else v.toNat

/-- `ChannelMetrics::from(&Link)`; `Duration::from_secs_f64` panics on negative input -/
def metricsOf (l : Link) : Except Fail Metrics :=
  if l.jitter < 0 ∨ l.latency < 0 then .error (.internal "Duration::from_secs_f64: negative")
  else .ok ⟨wrapUsize l.bitrate, l.latency.toNat * 1000000, l.jitter.toNat * 1000000,
            wrapUsize (l.queuesize.getD 0)⟩

/-- one slot of `Connections`: the peer gate (module path, index in that module's gate vector) -/
structure Slot where
  peerPath : Str
  peerIdx : Nat
  chan : Option Metrics
deriving DecidableEq, Repr

structure GateInst where
  name : Str
  size : Nat
  pos : Nat
  slots : List Slot
deriving DecidableEq, Repr

structure ModInst where
  path : Str
  sym : Str
  gates : List GateInst
deriving DecidableEq, Repr

/-- the module tree in creation order -/
abbrev World := List ModInst

/-- `ObjectPath::appended` -/
def joinPath (p name : Str) : Str :=
  if name.isEmpty then p else if p.isEmpty then name else p ++ ['.'] ++ name

def World.find (w : World) (path : Str) : Option ModInst := w.find? (fun m => decide (m.path = path))

def World.modify (w : World) (path : Str) (f : ModInst → ModInst) : World :=
  w.map (fun m => if m.path = path then f m else m)

/-- `create_gate_cluster(name, size)` -/
def mkCluster (g : FieldDef) : List GateInst :=
  (List.range g.kard.asSize).map (fun i => ⟨g.ident, g.kard.asSize, i, []⟩)

/-- `access_gate`: resolve an endpoint to (module path, gate index) -/
def accessGate (w : World) : Str → List Accessor → Except Fail (Str × Nat)
  | _, [] => .error (.internal "accessors must be non-empty")
  | path, [a] =>
    match w.find path with
    | none => .error (.internal "child")
    | some m =>
      match m.gates.findIdx? (fun g => decide (g.name = a.name) && g.pos == a.index.getD 0) with
      | none => .error (.internal "gate")
      | some i => .ok (path, i)
  | path, a :: b :: r =>
    match w.find (joinPath path a.asName) with
    | none => .error (.internal "child")
    | some _ => accessGate w (joinPath path a.asName) (b :: r)

def World.gate (w : World) (r : Str × Nat) : Option GateInst :=
  match w.find r.1 with
  | none => none
  | some m => m.gates[r.2]?

def World.pushSlot (w : World) (r : Str × Nat) (s : Slot) : World :=
  w.modify r.1 (fun m => { m with gates := m.gates.modify r.2 (fun g => { g with slots := g.slots ++ [s] }) })

/-- `Gate::connect` -/
def connect (w : World) (a b : Str × Nat) (ch : Option Metrics) : Except Fail World :=
  if a = b then .error (.internal "Cannot connect gate to itself.")
  else match w.gate a, w.gate b with
    | some ga, some gb =>
      if ga.slots.any (fun s => decide ((s.peerPath, s.peerIdx) = b)) then .ok w
      else if ga.slots.length < 2 ∧ gb.slots.length < 2 then
        .ok ((w.pushSlot a ⟨b.1, b.2, ch⟩).pushSlot b ⟨a.1, a.2, ch⟩)
      else .error (.internal "Cannot add connection, gates allready connected to multiple points")
    | _, _ => .error (.internal "gate")

/-- `connection.link.as_ref().map(|link| Channel::new(ChannelMetrics::from(link)))` -/
def chanOf : Option Link → Except Fail (Option Metrics)
  | none => .ok none
  | some l => do let m ← metricsOf l; .ok (some m)

/-- the `for connection in &node.connections` loop -/
def connectAll (path : Str) : List Conn → World → Except Fail World
  | [], w => .ok w
  | c :: r, w => do
    let a ← accessGate w path c.lhs
    let b ← accessGate w path c.rhs
    let ch ← chanOf c.link
    let w ← connect w a b ch
    connectAll path r w

/-- the names a submodule field expands to -/
def fieldNames (f : FieldDef) : List Str :=
  match f.kard with
  | .atom => [f.ident]
  | .cluster n => (List.range n).map (fun k => f.ident ++ ['['] ++ showNat k ++ [']'])

mutual
/-- `SimBuilderScoped::ndl` at scope `path`; `reg` = the symbols the registry resolves -/
def instNode (reg : Str → Bool) (path : Str) : Node → World → Except Fail World
  | .mk typ subs gates conns, w =>
    if (w.find path).isSome then .error (.internal "cannot crate module, already exists")
    else if !reg typ then kerr .missingRegistrySymbol [path, typ]
    else do
      let w := w ++ [⟨path, typ, gates.flatMap mkCluster⟩]
      let w ← instSubs reg path subs w
      connectAll path conns w
def instSubs (reg : Str → Bool) (path : Str) : List (FieldDef × Node) → World → Except Fail World
  | [], w => .ok w
  | (f, n) :: r, w => do
    let w ← (fieldNames f).foldlM (fun w nm => instNode reg (joinPath path nm) n w) w
    instSubs reg path r w
end

/-- `SimBuilder::nodes_from_ndl` after `transform` -/
def instantiate (reg : Str → Bool) (n : Node) : Except Fail World := instNode reg [] n []

end Ndl

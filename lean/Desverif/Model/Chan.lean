/-
Model of one channel direction of `des::net::channel::Channel` (des/src/net/channel.rs):
`ChannelInner { busy, transmission_finish_time, buffer: Buffer { packets, acc_bytes } }`,
`Channel::send_message`, `Channel::unbusy`, `ChannelDropBehaviour::handle`,
`Buffer::enqueue / dequeue`.

Times are nanoseconds (`Nat`).  The f64 arithmetic of `calculate_busy` / `calculate_duration`
is an *input*: every message carries the transmission time `tx` the implementation computed
for it (`calculate_busy(msg)`, a function of the message length and the bitrate only) and the
jitter sample `j` that `calculate_duration` draws when (if) the message is transmitted, so
`calculate_duration(msg) = latency + tx + j`.

`unbusy` is the code *after* the fix for finding F5 (dequeue while the channel is not busy;
patches/C07-unbusy-drain-zero-time.diff) and `send_message` the code after the fix for finding
F14 (the exit event is handed to the sink *before* the unbusy notification;
patches/C07-exit-before-unbusy.diff).
-/
namespace Chan

structure Msg where
  id : Nat
  /-- `Message::length()`: 64-byte header + body length -/
  len : Nat
  /-- `calculate_busy(msg)` in ns -/
  tx : Nat
  /-- jitter sample in ns (0 when the metrics have no jitter) -/
  j : Nat
deriving Repr, DecidableEq

/-- `ChannelDropBehaviour` -/
inductive DropB
  | drop
  | queue (limit : Option Nat)
deriving Repr, DecidableEq

/-- `ChannelMetrics` without the bitrate (which only enters through `Msg.tx`) -/
structure Metrics where
  latency : Nat
  jitter : Nat
  db : DropB
deriving Repr, DecidableEq

/-- `ChannelInner` -/
structure State where
  busy : Bool
  finish : Nat            -- transmission_finish_time (SimTime::ZERO when idle)
  packets : List Msg      -- buffer.packets (front = head)
  acc : Nat               -- buffer.acc_bytes
deriving Repr, DecidableEq

def init : State := { busy := false, finish := 0, packets := [], acc := 0 }

/-- events handed to the event sink, in the order of the `sink.add` calls -/
inductive Eff
  | unbusyAt (t : Nat)            -- ChannelUnbusyNotif at t
  | exitAt (t : Nat) (id : Nat)   -- MessageExitingConnection of message `id` at t
deriving Repr, DecidableEq

/-- what happened to a message handed to `send_message` -/
inductive Fate
  | started       -- transmission started (`probe.on_message_transmit` is called)
  | queued
  | droppedBusy   -- Drop policy, channel busy
  | droppedFull   -- Queue policy, byte limit exceeded
deriving Repr, DecidableEq

inductive Err
  | accUnderflow  -- `acc_bytes -= msg.length()` would underflow
  | fuel          -- the dequeue loop did not terminate within the computed fuel
deriving Repr, DecidableEq

/-- `Buffer::enqueue` -/
def enqueue (s : State) (m : Msg) : State :=
  { s with acc := s.acc + m.len, packets := s.packets ++ [m] }

/-- `Buffer::dequeue` -/
def dequeue (s : State) : Except Err (Option (Msg × State)) :=
  match s.packets with
  | [] => .ok none
  | m :: rest =>
    if s.acc < m.len then .error .accUnderflow
    else .ok (some (m, { s with packets := rest, acc := s.acc - m.len }))

/-- the test `buffer.acc_bytes + msg.length() > limit.unwrap_or(usize::MAX)` -/
def overLimit (limit : Option Nat) (acc len : Nat) : Bool :=
  match limit with
  | some l => decide (acc + len > l)
  | none => false

/-- `ChannelDropBehaviour::handle` -/
def handle (mt : Metrics) (s : State) (m : Msg) : State × Fate :=
  match mt.db with
  | .drop => (s, .droppedBusy)
  | .queue limit =>
    if overLimit limit s.acc m.len then (s, .droppedFull) else (enqueue s m, .queued)

/-- `ChannelMetrics::calculate_duration` -/
def duration (mt : Metrics) (m : Msg) : Nat := mt.latency + m.tx + m.j

/-- `Channel::send_message` at simulation time `now` -/
def sendMessage (mt : Metrics) (s : State) (now : Nat) (m : Msg) : State × List Eff × Fate :=
  if s.busy then
    let r := handle mt s m
    (r.1, [], r.2)
  else
    let dur := duration mt m
    let busy := m.tx
    if busy ≠ 0 then
      ({ s with busy := true, finish := now + busy },
       [.exitAt (now + dur) m.id, .unbusyAt (now + busy)], .started)
    else
      (s, [.exitAt (now + dur) m.id], .started)

/-- the loop of `Channel::unbusy`: `while !chan.busy { dequeue → send_message }` -/
def unbusyLoop (mt : Metrics) (now : Nat) :
    Nat → State → Except Err (State × List Eff × List (Msg × Fate))
  | 0, _ => .error .fuel
  | fuel + 1, s =>
    if s.busy then .ok (s, [], [])
    else
      match dequeue s with
      | .error e => .error e
      | .ok none => .ok (s, [], [])
      | .ok (some (m, s1)) =>
        let r := sendMessage mt s1 now m
        match unbusyLoop mt now fuel r.1 with
        | .error e => .error e
        | .ok (s3, e3, l3) => .ok (s3, r.2.1 ++ e3, (m, r.2.2) :: l3)

/-- `Channel::unbusy` at simulation time `now`; returns the events added to the sink and the
    messages taken out of the buffer with what `send_message` did with them -/
def unbusy (mt : Metrics) (s : State) (now : Nat) :
    Except Err (State × List Eff × List (Msg × Fate)) :=
  unbusyLoop mt now (s.packets.length + 1) { s with busy := false, finish := 0 }

end Chan

/-
Operation-level interface shared by the calendar-queue model, the abstract event set, the
theorems (Props/C01, C03) and the driver.
-/
import Desverif.Spec.FES
namespace CQRun
open CQ (Ev)

inductive Op
  | add (time val : Nat)
  | cancel (k : Nat)        -- cancel the handle returned by the k-th successful `add`
  | fetch
  | peek                    -- `next_time()`: read-only
deriving Repr, DecidableEq

inductive Out
  | added                    -- `add` returned a handle
  | rejected                 -- `add` panicked: timestamp before the current time
  | cancelDone               -- `cancel` returns nothing
  | badHandle                -- the script named a handle that was never issued (no call is made)
  | fetched (val time : Nat)
  | empty                    -- `fetch_next` panicked: queue empty
  | internal                 -- the model hit a state the code cannot reach (index / fuel)
  | peeked (t : Option Nat)  -- answer of `next_time()`
deriving Repr, DecidableEq

/-- handles issued so far: `(id, time)` as stored in `EventHandle` -/
abbrev Handles := List (Nat × Nat)

def mstep (st : CQ.State × Handles) : Op → (CQ.State × Handles) × Out
  | .add time val =>
    match CQ.add st.1 time val with
    | .ok (m', id) => ((m', st.2 ++ [(id, time)]), .added)
    | .error _ => (st, .rejected)
  | .cancel k =>
    match st.2[k]? with
    | none => (st, .badHandle)
    | some (id, time) => ((CQ.cancel st.1 id time, st.2), .cancelDone)
  | .fetch =>
    match CQ.fetch st.1 with
    | .ok (e, m') => ((m', st.2), .fetched e.val e.time)
    | .error .empty => (st, .empty)
    | .error _ => (st, .internal)
  | .peek => (st, .peeked (CQ.nextTime st.1))

def sstep (st : FES.State × Handles) : Op → (FES.State × Handles) × Out
  | .add time val =>
    match FES.add st.1 time val with
    | .ok (s', id) => ((s', st.2 ++ [(id, time)]), .added)
    | .error _ => (st, .rejected)
  | .cancel k =>
    match st.2[k]? with
    | none => (st, .badHandle)
    | some (id, _) => ((FES.cancel st.1 id, st.2), .cancelDone)
  | .fetch =>
    match FES.fetch st.1 with
    | .ok (e, s') => ((s', st.2), .fetched e.val e.time)
    | .error _ => (st, .empty)
  | .peek => (st, .peeked (FES.nextTime st.1))

/-- run a script, collecting the outputs -/
def runWith {σ : Type} (step : σ → Op → σ × Out) : σ → List Op → σ × List Out
  | st, [] => (st, [])
  | st, op :: ops =>
    let (st', o) := step st op
    let (st'', os) := runWith step st' ops
    (st'', o :: os)

def mrun (n t : Nat) (ops : List Op) : (CQ.State × Handles) × List Out :=
  runWith mstep (CQ.init n t, []) ops

def srun (ops : List Op) : (FES.State × Handles) × List Out :=
  runWith sstep (FES.init, []) ops

end CQRun

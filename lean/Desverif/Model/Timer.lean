/-
Model of one module's timer driver (des/src/time/driver.rs, sleep.rs, timeout.rs, interval.rs and
`ModuleRef::{activate,deactivate}` in des/src/net/module/refs.rs), as the code implements it
(with the C05 repair of `TimerQueue::next`; `nextOrig` is the function before the repair).

Times are nanoseconds (`Nat`).  `tMax` is `SimTime::MAX` (the "no wake-up scheduled" sentinel of
`Driver::next_wakeup`).  `wakeups` are the module's `AsyncWakeupEvent`s sitting in the global
event set.  A `Weak<TimerSlot>` handle is modelled by the slot's time: slot times are unique
(`Sorted`, proved invariant) and a popped slot's time is never re-used for a live entry.
-/
namespace Timer

/-- `TimerSlotEntry { id, waker }`: the waker is the task to re-poll -/
structure Entry where
  sid : Nat
  tid : Nat
deriving DecidableEq, Repr

/-- `TimerSlot { time, entrys }` -/
structure Slot where
  time : Nat
  entries : List Entry
deriving DecidableEq, Repr

/-- `SimTime::MAX` = `Duration::MAX` in nanoseconds -/
def tMax : Nat := 18446744073709551615 * 1000000000 + 999999999

/-- `Driver { next_wakeup, queue: TimerQueue { pending } }` plus the module's wake-up events -/
structure State where
  pending : List Slot := []
  nextWakeup : Nat := tMax
  wakeups : List Nat := []
deriving DecidableEq, Repr

/-- `TimerQueue::add`: binary search for the slot with this time (`Ok` → join it, `Err(i)` → insert
    a new slot at `i`); on a strictly sorted deque this is the linear scan below. -/
def add (p : List Slot) (e : Entry) (time : Nat) : List Slot :=
  match p with
  | [] => [⟨time, [e]⟩]
  | s :: rest =>
    if s.time = time then ⟨s.time, s.entries ++ [e]⟩ :: rest
    else if time < s.time then ⟨time, [e]⟩ :: s :: rest
    else s :: add rest e time

/-- `TimerSlot::remove`: remove the first entry with this id -/
def eraseSid (sid : Nat) : List Entry → List Entry
  | [] => []
  | e :: es => if e.sid = sid then es else e :: eraseSid sid es

/-- `TimerSlotEntryHandle::drop` (unresolved): upgrade the slot, remove the entry -/
def removeEntry (p : List Slot) (time sid : Nat) : List Slot :=
  p.map fun s => if s.time = time then { s with entries := eraseSid sid s.entries } else s

def findEntry (p : List Slot) (time sid : Nat) : Option Entry :=
  match p.find? (fun s => s.time = time) with
  | some s => s.entries.find? (fun e => e.sid = sid)
  | none => none

/-- `Sleep::reset_inner` on a scheduled sleep: `handle.reset(d')` removes the entry from its slot,
    `add`s it at `d'` — and the returned handle is dropped at once (statement `handle.reset(deadline);`),
    which removes the entry again and leaves a (possibly empty) slot at `d'` behind. -/
def resetEntry (p : List Slot) (h sid d' : Nat) : List Slot :=
  match findEntry p h sid with
  | none => p
  | some e => removeEntry (add (removeEntry p h sid) e d') d' sid

/-- `TimerQueue::next` (repaired): deadline of the first slot that still has an entry -/
def next (p : List Slot) : Option Nat :=
  (p.find? fun s => !s.entries.isEmpty).map (·.time)

/-- `TimerQueue::next` before the repair: front slot, only if it is non-empty -/
def nextOrig (p : List Slot) : Option Nat :=
  match p with
  | [] => none
  | s :: _ => if s.entries.isEmpty then none else some s.time

/-- `TimerQueue::bump`: pop the slots with `time ≤ now` -/
def bump (now : Nat) (p : List Slot) : List Slot × List Slot :=
  (p.takeWhile (fun s => s.time ≤ now), p.dropWhile (fun s => s.time ≤ now))

/-- `ModuleRef::activate` (async part): bump, forget a reached `next_wakeup`, wake the popped slots -/
def activate (now : Nat) (t : State) : State × List Entry :=
  let (fired, rest) := bump now t.pending
  ({ t with pending := rest, nextWakeup := if t.nextWakeup ≤ now then tMax else t.nextWakeup },
   fired.flatMap (·.entries))

/-- `ModuleRef::deactivate` (async part) parameterised by the `next` function -/
def deactivateWith (nx : List Slot → Option Nat) (t : State) : State :=
  match nx t.pending with
  | some n => if n < t.nextWakeup then { t with nextWakeup := n, wakeups := t.wakeups ++ [n] } else t
  | none => t

def deactivate (t : State) : State := deactivateWith next t
def deactivateOrig (t : State) : State := deactivateWith nextOrig t

/-- what code running inside a module event can do to the queue -/
inductive Op
  | register (d sid tid : Nat)   -- `TimerQueue::add` from `Sleep::poll`
  | remove (h sid : Nat)         -- `TimerSlotEntryHandle::drop`
  | reset (h sid d' : Nat)       -- `Sleep::reset_inner` with a live handle
deriving DecidableEq, Repr

def applyOp (t : State) : Op → State
  | .register d sid tid => { t with pending := add t.pending ⟨sid, tid⟩ d }
  | .remove h sid => { t with pending := removeEntry t.pending h sid }
  | .reset h sid d' => { t with pending := resetEntry t.pending h sid d' }

def applyOps (t : State) (ops : List Op) : State := ops.foldl applyOp t

/-- `Sleep::poll` only registers deadlines in the future -/
def Op.ok (now : Nat) : Op → Prop
  | .register d _ _ => now < d
  | _ => True

instance (now : Nat) (o : Op) : Decidable (o.ok now) := by
  cases o <;> simp only [Op.ok] <;> infer_instance

def Op.isRemove : Op → Bool
  | .remove .. => true
  | _ => false

/-- does the op (possibly) remove an entry of sleep `sid` -/
def Op.touches (sid : Nat) : Op → Bool
  | .register .. => false
  | .remove _ s => s == sid
  | .reset _ s _ => s == sid

/-- One event of the module: `pre` = entry removals that happen outside the activate/deactivate
    bracket (the tokio runtime of a shut-down module is dropped in `buf_process`), `wake` = the
    event is one of the module's `AsyncWakeupEvent`s, `ops` = what handler and tasks did. -/
structure Ev where
  time : Nat
  wake : Bool
  pre : List Op := []
  ops : List Op

def stepWith (nx : List Slot → Option Nat) (t : State) (e : Ev) : State × List Entry :=
  let t0 := applyOps t e.pre
  let t1 := if e.wake then { t0 with wakeups := t0.wakeups.erase e.time } else t0
  let (t2, woken) := activate e.time t1
  (deactivateWith nx (applyOps t2 e.ops), woken)

def stepEv (t : State) (e : Ev) : State × List Entry := stepWith next t e

/-- run a list of events; returns the final state and (time, woken entries) per event -/
def runEvs (t : State) : List Ev → State × List (Nat × List Entry)
  | [] => (t, [])
  | e :: es =>
    let (t', w) := stepEv t e
    let (t'', tr) := runEvs t' es
    (t'', (e.time, w) :: tr)

/-! ### Sleep / Timeout / Interval (pure with respect to the queue: they *emit* `Op`s) -/

/-- `Sleep { deadline, id, handle }` -/
structure Sleep where
  id : Nat
  deadline : Nat
  handle : Option Nat := none
  /-- ghost (not in the code): time of the first poll since creation / the last reset / the last
      completion — the instant from which somebody has been waiting for this deadline -/
  armed : Option Nat := none
deriving DecidableEq, Repr

/-- since when the sleep is being waited for, if it is polled at `now` -/
def Sleep.since (s : Sleep) (now : Nat) : Nat := s.armed.getD now

/-- `Sleep::poll` by task `tid` at `now`: (new sleep, queue ops, ready?) -/
def Sleep.poll (s : Sleep) (tid now : Nat) : Sleep × List Op × Bool :=
  if now < s.deadline then
    match s.handle with
    | none => ({ s with handle := some s.deadline, armed := some (s.since now) },
               [.register s.deadline s.id tid], false)
    | some _ => ({ s with armed := some (s.since now) }, [], false)
  else
    -- `handle.take()` + `resolve()`: the handle is dropped without touching the queue
    ({ s with handle := none, armed := none }, [], true)

/-- `Sleep::reset` -/
def Sleep.reset (s : Sleep) (d' : Nat) : Sleep × List Op :=
  match s.handle with
  | some h => ({ s with handle := none, deadline := d', armed := none }, [.reset h s.id d'])
  | none => ({ s with deadline := d', armed := none }, [])

/-- dropping a `Sleep` drops its handle -/
def Sleep.drop (s : Sleep) : List Op :=
  match s.handle with
  | some h => [.remove h s.id]
  | none => []

/-- `Timeout::poll`: the value first, then the delay. `some true` = `Ok`, `some false` = `Elapsed` -/
def Timeout.poll (innerReady : Bool) (delay : Sleep) (tid now : Nat) : Sleep × List Op × Option Bool :=
  if innerReady then (delay, [], some true)
  else
    let (d', ops, r) := delay.poll tid now
    (d', ops, if r then some false else none)

inductive Missed | burst | delay | skip
deriving DecidableEq, Repr

/-- `MissedTickBehavior::next_timeout` -/
def Missed.nextTimeout (m : Missed) (timeout now period : Nat) : Nat :=
  match m with
  | .burst => timeout + period
  | .delay => now + period
  | .skip => now + period - ((now - timeout) % period)

structure Interval where
  delay : Sleep
  period : Nat
  mode : Missed
deriving DecidableEq, Repr

/-- the 5 ms lateness threshold of `Interval::poll_tick` -/
def lateNs : Nat := 5000000

def Interval.nextDeadline (i : Interval) (timeout now : Nat) : Nat :=
  if now > timeout + lateNs then i.mode.nextTimeout timeout now i.period else timeout + i.period

/-- `Interval::poll_tick`: (new interval, queue ops, `some timeout` when a tick is delivered) -/
def Interval.pollTick (i : Interval) (tid now : Nat) : Interval × List Op × Option Nat :=
  let (s', ops, r) := i.delay.poll tid now
  if r then
    let timeout := s'.deadline
    let (s'', ops') := s'.reset (i.nextDeadline timeout now)
    ({ i with delay := s'' }, ops ++ ops', some timeout)
  else ({ i with delay := s' }, ops, none)

/-- `Interval::reset` -/
def Interval.reset (i : Interval) (now : Nat) : Interval × List Op :=
  let (s', ops) := i.delay.reset (now + i.period)
  ({ i with delay := s' }, ops)

/-! ### the wake-up invariant (decidable form; the `Prop` form is in Proofs/TimerInv.lean) -/

def sortedB : List Slot → Bool
  | [] => true
  | [_] => true
  | a :: b :: rest => a.time < b.time && sortedB (b :: rest)

/-- executable check of `WakeInv now t` (used by the driver after every model event) -/
def wakeInvB (now : Nat) (t : State) : Bool :=
  sortedB t.pending
  && t.pending.all (fun s => s.entries.isEmpty || now < s.time)
  && (t.nextWakeup ≥ tMax || (t.wakeups.contains t.nextWakeup && now < t.nextWakeup))
  && t.pending.all (fun s => s.entries.isEmpty || t.nextWakeup ≤ s.time)
  && t.wakeups.all (fun w => now ≤ w)

end Timer

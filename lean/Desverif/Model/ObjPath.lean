/-
Model of `des::net::ObjectPath` (des/src/net/path.rs) as the code stores it:
`data : Arc<str>`, `last_element_offset : usize`, `len : usize`, `is_gate : bool`.

A Rust `str` is modelled as its UTF-8 byte sequence (`List Nat`, every element < 256); all offsets
are byte offsets exactly as in the code.  The one place where the code iterates over `char`s
(`From<&str>`) is transcribed to a byte loop: the byte 0x2E occurs in well-formed UTF-8 only as
the character '.', and `len_utf8` summed over the characters is the byte count.
Every slice / `truncate` that panics off a character boundary is an explicit error value.
-/
namespace ObjPath

/-- the byte `'.'` -/
def DOT : Nat := 46

/-- UTF-8 continuation byte `10xxxxxx` -/
def isCont (b : Nat) : Bool := 128 ≤ b && b < 192

/-- `str::is_char_boundary` -/
def isBoundary (d : List Nat) (i : Nat) : Bool :=
  if i = 0 then true
  else match d[i]? with
    | none => i == d.length
    | some b => !isCont b

inductive Err
  | sliceBoundary      -- `&data[a..]` / `&data[..b]` off a char boundary or out of range
  | truncBoundary      -- `String::truncate` off a char boundary
  | gateAppend         -- `appended` on a path that points to a gate
deriving Repr, DecidableEq

structure Path where
  data : List Nat
  lastOff : Nat
  len : Nat
  isGate : Bool
deriving Repr, DecidableEq

/-- `ObjectPath::default()` -/
def root : Path := ⟨[], 0, 0, false⟩

def isRoot (p : Path) : Bool := p.len == 0

/-- `str::rfind('.')` as a byte index -/
def rfind (b : Nat) : List Nat → Option Nat
  | [] => none
  | x :: xs =>
    match rfind b xs with
    | some i => some (i + 1)
    | none => if x = b then some 0 else none

/-- `&data[off..]` -/
def sliceFrom (d : List Nat) (off : Nat) : Except Err (List Nat) :=
  if off ≤ d.length && isBoundary d off then .ok (d.drop off) else .error .sliceBoundary

/-- `&data[..n]` -/
def sliceTo (d : List Nat) (n : Nat) : Except Err (List Nat) :=
  if n ≤ d.length && isBoundary d n then .ok (d.take n) else .error .sliceBoundary

/-- `ObjectPath::name` -/
def name (p : Path) : Except Err (List Nat) := sliceFrom p.data p.lastOff

/-- `ObjectPath::as_parent_str` -/
def asParentStr (p : Path) : Except Err (List Nat) := sliceTo p.data (p.lastOff - 1)

/-- `ObjectPath::parent` -/
def parent (p : Path) : Except Err (Option Path) :=
  if p.len = 0 then .ok none
  else
    let n := p.lastOff - 1
    -- `String::truncate(n)`: no-op if `n > len`, otherwise asserts a char boundary
    if n ≤ p.data.length && !isBoundary p.data n then .error .truncBoundary
    else
      let data := p.data.take n
      let off := match rfind DOT data with
        | some i => i + 1
        | none => 0
      .ok (some ⟨data, off, p.len - 1, false⟩)

/-- `ObjectPath::nonzero_parent` -/
def nonzeroParent (p : Path) : Except Err (Option Path) :=
  match parent p with
  | .error e => .error e
  | .ok none => .ok none
  | .ok (some q) => if isRoot q then .ok none else .ok (some q)

/-- `ObjectPath::appended` -/
def appended (p : Path) (suffix : List Nat) : Except Err Path :=
  if p.isGate then .error .gateAppend
  else if suffix = [] then .ok ⟨p.data, p.lastOff, p.len, false⟩
  else if p.len ≠ 0 then .ok ⟨p.data ++ DOT :: suffix, p.data.length + 1, p.len + 1, false⟩
  else .ok ⟨p.data ++ suffix, p.lastOff, p.len + 1, false⟩

/-- `ObjectPath::appended_gate` -/
def appendedGate (p : Path) (gate : List Nat) : Except Err Path :=
  match appended p gate with
  | .error e => .error e
  | .ok q => .ok { q with isGate := true }

/-- loop state of `From<&str>`: `(o, last_element_offset, len)` -/
def fromStep (st : Nat × Nat × Nat) (c : Nat) : Nat × Nat × Nat :=
  if c = DOT then (st.1 + 1, st.1 + 1, st.2.2 + 1) else (st.1 + 1, st.2.1, st.2.2)

/-- `impl From<&str> for ObjectPath` -/
def fromStr (s : List Nat) : Path :=
  let st := s.foldl fromStep (0, 0, 0)
  ⟨s, st.2.1, if st.1 ≠ st.2.1 then st.2.2 + 1 else st.2.2, false⟩

end ObjPath

/-
Model of `des::net::message::{Body, Message}` (des/src/net/message/body.rs, mod.rs, header.rs)
and of the `MessageBody::byte_len` implementations incl. `#[derive(MessageBody)]`
(des-macros-core/src/message_body.rs).

* The raw pointer `Body::data : *mut ()` is an address into an explicit ghost heap of boxes.
  Every box remembers the type it was allocated as, the value, whether the allocation is still
  valid, how often the stored value's destructor ran and how often the value was moved out.
  Every `ptr.cast::<T>()` access of the Rust code is an explicit heap access *at type `T`*: if the
  box is dangling / freed / of another type the access is undefined behaviour in Rust, here it is
  recorded as a fault (never silently defaulted) — the theorems show no fault is ever recorded.
* `Ty` stands for `TypeId`: two `Ty` are equal iff they are the same Rust type
  (injectivity of `TypeId` is the trusted assumption).
* values are an untyped universe `Val`; `byteLen` is a structural recursion mirroring the impls.
  `usize` overflow of the sums is out of scope (lengths are unbounded `Nat`).
-/
namespace MB

/-- a Rust type as identified by `TypeId::of::<T>()`.  `name` is the key of the type in the harness family,
    NOT `std::any::type_name::<T>()`: distinct types may print the same path (the family has three such
    types) and must still be different `Ty`s. -/
structure Ty where
  name : String
deriving DecidableEq, Repr

/-- value universe of message bodies -/
inductive Val where
  | unit                                  -- `()`
  | prim (size n : Nat)                   -- u8..u128, i8..i128, usize, isize, f32, f64, bool, char: `size_of::<Self>()`
  | str (bytes : List Nat)                -- `String` / `&'static str`: `len()` = number of utf-8 bytes
  | fixed (size n : Nat)                  -- types with a constant declared length (Ipv4Addr = 4, Duration = 16, …)
  | none                                  -- `Option::None`
  | some (v : Val)                        -- `Option::Some`
  | ok (v : Val)                          -- `Result::Ok`
  | err (v : Val)                         -- `Result::Err`
  | boxed (v : Val)                       -- `Box<T>`
  | seq (vs : List Val)                   -- Vec, VecDeque, LinkedList, &[T], sets, BinaryHeap; maps as seq of 2-tuples
  | array (vs : List Val)                 -- `[T; N]` (N = number of elements): every element counts, in order
  | tuple (vs : List Val)                 -- tuples (1..10)
  | struct (fields : List Val)            -- `#[derive(MessageBody)] struct` (named, unnamed or unit)
  | enum (variant : Nat) (fields : List Val) -- `#[derive(MessageBody)] enum`: the active variant and its fields
deriving Repr, BEq, Inhabited

mutual
/-- `MessageBody::byte_len` -/
def byteLen : Val → Nat
  | .unit => 0
  | .prim size _ => size
  | .str bytes => bytes.length
  | .fixed size _ => size
  | .none => 0                            -- `None => 0`
  | .some v => byteLen v
  | .ok v => byteLen v
  | .err v => byteLen v
  | .boxed v => byteLen v
  | .seq vs => foldLen 0 vs               -- `iter().fold(0, |acc, v| acc + v.byte_len())` / `for … sum += …`
  | .array vs => foldLen 0 vs             -- `let mut sum = 0; for element in self { sum += element.byte_len() }; sum`
  | .tuple vs => sumLen vs                -- `A.byte_len() + B.byte_len() + … + 0`
  | .struct fs => sumLen fs               -- derive: `<T1>::byte_len(&self.f1) + … + 0`
  | .enum _ fs => sumLen fs               -- derive: `match self { V(fields…) => <T1>::byte_len(f1) + … + 0 }`
/-- left fold with accumulator (collections) -/
def foldLen (acc : Nat) : List Val → Nat
  | [] => acc
  | v :: vs => foldLen (acc + byteLen v) vs
/-- `f1 + f2 + … + 0` (tuples, derived structs and enum variants) -/
def sumLen : List Val → Nat
  | [] => 0
  | v :: vs => byteLen v + sumLen vs
end

/-! ### ghost heap -/

structure Box where
  ty : Ty          -- the type the allocation was made for (`Box::new(value : T)`)
  val : Val
  live : Bool      -- allocation valid and the value inside not yet dropped / moved out
  drops : Nat      -- how often the stored value's destructor ran (`drop(Box::from_raw(..))`)
  moved : Nat      -- how often the value was moved out to a caller (`*Box::from_raw(..)`)
deriving Repr

structure Heap where
  boxes : List Box := []
  /-- number of undefined accesses so far (dangling, after free/move, or at another type) -/
  faults : Nat := 0
deriving Repr

def Heap.fault (h : Heap) : Heap := { h with faults := h.faults + 1 }

/-- `Box::into_raw(Box::new(value))` -/
def Heap.alloc (h : Heap) (T : Ty) (v : Val) : Heap × Nat :=
  ({ h with boxes := h.boxes ++ [{ ty := T, val := v, live := true, drops := 0, moved := 0 }] },
   h.boxes.length)

/-- `&*ptr.cast::<T>()` — `none` = the access was undefined (a fault is recorded) -/
def Heap.read (h : Heap) (T : Ty) (p : Nat) : Heap × Option Val :=
  match h.boxes[p]? with
  | some b => if b.live = true ∧ b.ty = T then (h, some b.val) else (h.fault, none)
  | none => (h.fault, none)

/-- `*Box::from_raw(ptr.cast::<T>())` — frees the allocation, moves the value out -/
def Heap.take (h : Heap) (T : Ty) (p : Nat) : Heap × Option Val :=
  match h.boxes[p]? with
  | some b =>
    let h' := { h with boxes := h.boxes.set p { b with live := false, moved := b.moved + 1 } }
    if b.live = true ∧ b.ty = T then (h', some b.val) else (h'.fault, none)
  | none => (h.fault, none)

/-- `drop(Box::from_raw(ptr.cast::<T>()))` — runs the destructor, frees the allocation -/
def Heap.free (h : Heap) (T : Ty) (p : Nat) : Heap :=
  match h.boxes[p]? with
  | some b =>
    let h' := { h with boxes := h.boxes.set p { b with live := false, drops := b.drops + 1 } }
    if b.live = true ∧ b.ty = T then h' else h'.fault
  | none => h.fault

/-! ### `Body` -/

/-- the per-type static vtable: `type_id`/`type_name` (= `ty`), `try_clone` (`vclone::<T>` or
    `vclone_panic`), `debug` (`vdebug::<T>` or `vdebug_unknown`), `drop` (= `vdrop::<ty>`) -/
structure VTable where
  ty : Ty
  clonable : Bool
  debug : Bool
deriving DecidableEq, Repr

def vtable (T : Ty) : VTable := { ty := T, clonable := true, debug := true }
def vtableNonClonable (T : Ty) : VTable := { ty := T, clonable := false, debug := true }
def vtableNonDebugable (T : Ty) : VTable := { ty := T, clonable := true, debug := false }

structure Body where
  data : Option Nat    -- `*mut ()`; `none` = null
  length : Nat
  vt : VTable
deriving DecidableEq, Repr

/-- `Body::new` -/
def Body.new (h : Heap) (T : Ty) (v : Val) : Heap × Body :=
  let length := byteLen v
  let (h', p) := h.alloc T v
  (h', { data := some p, length := length, vt := vtable T })

/-- `Body::new_with_len` -/
def Body.newWithLen (h : Heap) (T : Ty) (v : Val) (length : Nat) : Heap × Body :=
  let (h', p) := h.alloc T v
  (h', { data := some p, length := length, vt := vtable T })

/-- `Body::new_non_clonable` -/
def Body.newNonClonable (h : Heap) (T : Ty) (v : Val) : Heap × Body :=
  let length := byteLen v
  let (h', p) := h.alloc T v
  (h', { data := some p, length := length, vt := vtableNonClonable T })

/-- `Body::new_non_debugable`; `sizeOfT` = `mem::size_of::<T>()` (layout: supplied by the caller) -/
def Body.newNonDebugable (h : Heap) (T : Ty) (v : Val) (sizeOfT : Nat) : Heap × Body :=
  let (h', p) := h.alloc T v
  (h', { data := some p, length := sizeOfT, vt := vtableNonDebugable T })

/-- `Body::is::<T>` -/
def Body.is (b : Body) (T : Ty) : Bool := decide (b.vt.ty = T)

/-- `vdrop::<T>(ptr)` -/
def vdrop (h : Heap) (T : Ty) (ptr : Option Nat) : Heap :=
  match ptr with
  | none => h                  -- `if !ptr.is_null()`
  | some p => h.free T p

/-- `impl Drop for Body`: `(self.vtable.drop)(self.data)`; the vtable's drop is `vdrop::<vt.ty>` -/
def Body.drop (h : Heap) (b : Body) : Heap := vdrop h b.vt.ty b.data

inductive CastRes where
  | ok (v : Option Val)     -- `Ok(value)`; `none` = the move-out was undefined (fault recorded)
  | err (b : Body)          -- `Err(self)`
deriving Repr

/-- `Body::try_cast::<T>(mut self)` -/
def Body.tryCast (h : Heap) (b : Body) (T : Ty) : Heap × CastRes :=
  if b.is T then
    -- `mem::replace(&mut self.data, null_mut())`
    let ptr := b.data
    let self' : Body := { b with data := none }
    -- `Box::from_raw(ptr.cast::<T>())`, `*boxed`
    match ptr with
    | none => (Body.drop h.fault self', .ok none)        -- `Box::from_raw(null)`
    | some p =>
      let (h1, v) := h.take T p
      -- `self` goes out of scope: `Drop for Body` runs on the nulled pointer
      (Body.drop h1 self', .ok v)
  else
    (h, .err b)

/-- `Body::try_content::<T>(&self)` (and `try_content_mut` used read-only) -/
def Body.tryContent (h : Heap) (b : Body) (T : Ty) : Heap × Option (Option Val) :=
  if b.is T then
    match b.data with
    | none => (h.fault, some none)                       -- `&*null`
    | some p => let (h', v) := h.read T p; (h', some v)
  else (h, none)

/-- `Body::try_clone(&self)`; `vclone::<vt.ty>` reads the value at the vtable's type and boxes a copy -/
def Body.tryClone (h : Heap) (b : Body) : Heap × Option Body :=
  if b.vt.clonable then
    match b.data with
    | none => (h.fault, none)
    | some p =>
      match h.read b.vt.ty p with
      | (h1, some v) =>
        let (h2, q) := h1.alloc b.vt.ty v
        (h2, some { data := some q, length := b.length, vt := b.vt })
      | (h1, none) => (h1, none)
  else (h, none)                                          -- `vclone_panic` returns `None`

/-! ### `Header`, `Message` -/

/-- the observable part of `Header` -/
structure Header where
  id : Nat
  kind : Nat
deriving DecidableEq, Repr

/-- `impl MessageBody for Header`: `64` -/
def Header.byteLen (_ : Header) : Nat := 64

structure Msg where
  header : Header
  content : Option Body
deriving DecidableEq, Repr

/-- `Message::length`: `self.content.as_ref().map_or(0, Body::length) + self.header.byte_len()` -/
def Msg.length (m : Msg) : Nat :=
  (match m.content with | some b => b.length | none => 0) + m.header.byteLen

/-- what `ChannelMetrics::calculate_busy` charges: `msg.length() * 8` bits -/
def Msg.chargedBits (m : Msg) : Nat := m.length * 8

/-- dropping an `Option<Body>` -/
def dropContent (h : Heap) : Option Body → Heap
  | none => h
  | some b => b.drop h

/-- dropping a `Message` (the header owns nothing observable) -/
def Msg.drop (h : Heap) (m : Msg) : Heap := dropContent h m.content

/-- how a body is constructed -/
inductive Ctor where
  | plain                       -- `set_content` → `Body::new`
  | nonClonable                 -- `set_content_non_clonable` → `Body::new_non_clonable`
  | withLen (n : Nat)           -- `set_body(Body::new_with_len(value, n))`
  | nonDebugable (size : Nat)   -- `set_content_non_debugable`; `size` = `size_of::<T>()`
deriving DecidableEq, Repr

def Ctor.mk (c : Ctor) (h : Heap) (T : Ty) (v : Val) : Heap × Body :=
  match c with
  | .plain => Body.new h T v
  | .nonClonable => Body.newNonClonable h T v
  | .withLen n => Body.newWithLen h T v n
  | .nonDebugable s => Body.newNonDebugable h T v s

/-- `self.content = Some(Body::…(value))`: the new body is built first, then the old one dropped -/
def Msg.setContent (h : Heap) (m : Msg) (c : Ctor) (T : Ty) (v : Val) : Heap × Msg :=
  let (h1, b) := c.mk h T v
  let h2 := dropContent h1 m.content
  (h2, { m with content := some b })

/-- `Message::try_content::<T>` -/
def Msg.tryContent (h : Heap) (m : Msg) (T : Ty) : Heap × Option (Option Val) :=
  match m.content with
  | some b => b.tryContent h T
  | none => (h, none)

/-- `Message::can_cast::<T>` -/
def Msg.canCast (m : Msg) (T : Ty) : Bool :=
  match m.content with
  | some b => b.is T
  | none => false

inductive MsgCastRes where
  | ok (v : Option Val) (hdr : Header)
  | err (m : Msg)
deriving Repr

/-- `Message::try_cast::<T>(self)` -/
def Msg.tryCast (h : Heap) (m : Msg) (T : Ty) : Heap × MsgCastRes :=
  match m.content with
  | some body =>
    match body.tryCast h T with
    | (h', .ok v) => (h', .ok v m.header)
    | (h', .err body') => (h', .err { header := m.header, content := some body' })
  | none => (h, .err { header := m.header, content := none })

/-- `Message::try_clone(&self)` -/
def Msg.tryClone (h : Heap) (m : Msg) : Heap × Option Msg :=
  match m.content with
  | some body =>
    match body.tryClone h with
    | (h', some b') => (h', some { header := m.header, content := some b' })
    | (h', none) => (h', none)
  | none => (h, some { header := m.header, content := none })

/-! ### association list of named message slots (generic: shared with the abstract spec) -/

def lookup {α : Type} (tag : String) : List (String × α) → Option α
  | [] => none
  | (t, a) :: rest => if t = tag then some a else lookup tag rest

/-- remove the first slot named `tag` -/
def remove {α : Type} (tag : String) : List (String × α) → List (String × α)
  | [] => []
  | (t, a) :: rest => if t = tag then rest else (t, a) :: remove tag rest

/-! ### scripts -/

inductive Op where
  | new (tag : String) (id kind : Nat)          -- `Message::default().id(id).kind(kind)` into slot `tag`
  | set (tag : String) (c : Ctor) (T : Ty) (v : Val)
  | clone (src dst : String)                    -- `Message::clone` (panics if the body is not clonable)
  | tryClone (src dst : String)                 -- `Message::try_clone`
  | cast (tag : String) (T : Ty)                -- `try_cast::<T>`; `Ok`: the caller takes (and later drops) value + header
  | content (tag : String) (T : Ty)             -- `try_content::<T>`
  | canCast (tag : String) (T : Ty)
  | length (tag : String)                       -- `Message::length` and the bits a channel charges
  | drop (tag : String)
deriving Repr

inductive Out where
  | done
  | noSlot                                      -- the script named an empty slot: no call is made
  | cloned
  | panic                                       -- `Message::clone` on a non-clonable body
  | notClonable                                 -- `try_clone` = `None`
  | castOk (v : Option Val) (hdr : Header)
  | castErr
  | content (v : Option (Option Val))           -- `None` | `Some(&v)`
  | bool (b : Bool)
  | length (n bits : Nat)
deriving Repr, BEq

structure State where
  heap : Heap := {}
  slots : List (String × Msg) := []
deriving Repr

/-- drop the message in slot `tag` (if any) -/
def State.dropSlot (st : State) (tag : String) : State :=
  match lookup tag st.slots with
  | some old => { heap := old.drop st.heap, slots := remove tag st.slots }
  | none => st

/-- store `m` in slot `tag`; a message already there is dropped (assignment) -/
def State.put (st : State) (tag : String) (m : Msg) : State :=
  let st' := st.dropSlot tag
  { st' with slots := (tag, m) :: st'.slots }

def step (st : State) : Op → State × Out
  | .new tag id kind => (st.put tag { header := { id := id, kind := kind }, content := none }, .done)
  | .set tag c T v =>
    match lookup tag st.slots with
    | none => (st, .noSlot)
    | some m =>
      let (h', m') := m.setContent st.heap c T v
      ({ heap := h', slots := (tag, m') :: remove tag st.slots }, .done)
  | .clone src dst =>
    match lookup src st.slots with
    | none => (st, .noSlot)
    | some m =>
      match m.tryClone st.heap with
      | (h', some m') => (State.put { st with heap := h' } dst m', .cloned)
      | (h', none) => ({ st with heap := h' }, .panic)      -- `.expect(..)`
  | .tryClone src dst =>
    match lookup src st.slots with
    | none => (st, .noSlot)
    | some m =>
      match m.tryClone st.heap with
      | (h', some m') => (State.put { st with heap := h' } dst m', .cloned)
      | (h', none) => ({ st with heap := h' }, .notClonable)
  | .cast tag T =>
    match lookup tag st.slots with
    | none => (st, .noSlot)
    | some m =>
      match m.tryCast st.heap T with
      | (h', .ok v hdr) => ({ heap := h', slots := remove tag st.slots }, .castOk v hdr)
      | (h', .err m') => ({ heap := h', slots := (tag, m') :: remove tag st.slots }, .castErr)
  | .content tag T =>
    match lookup tag st.slots with
    | none => (st, .noSlot)
    | some m => let (h', r) := m.tryContent st.heap T; ({ st with heap := h' }, .content r)
  | .canCast tag T =>
    match lookup tag st.slots with
    | none => (st, .noSlot)
    | some m => (st, .bool (m.canCast T))
  | .length tag =>
    match lookup tag st.slots with
    | none => (st, .noSlot)
    | some m => (st, .length m.length m.chargedBits)
  | .drop tag =>
    match lookup tag st.slots with
    | none => (st, .noSlot)
    | some _ => (st.dropSlot tag, .done)

def run : State → List Op → State × List Out
  | st, [] => (st, [])
  | st, op :: ops =>
    let (st', o) := step st op
    let (st'', os) := run st' ops
    (st'', o :: os)

/-- end of the script: every message still held is dropped -/
def dropAll (h : Heap) : List (String × Msg) → Heap
  | [] => h
  | (_, m) :: rest => dropAll (m.drop h) rest

def State.finish (st : State) : State := { heap := dropAll st.heap st.slots, slots := [] }

/-- number of values ever boxed, and number of destructor runs / move-outs so far -/
def Heap.created (h : Heap) : Nat := h.boxes.length
def Heap.released : List Box → Nat
  | [] => 0
  | b :: bs => b.drops + b.moved + Heap.released bs

end MB

/-
Model of `des_cqueue::CQueue` (des-cqueue/src/stable/mod.rs) and of the bucket list
`DualLinkedList` (linked_list.rs). Core Lean only: this file is linked into the driver.

Times are `Nat` nanoseconds (`Duration::as_nanos`), payloads are `Nat` tags.
Every `assert!`/index of the Rust code is an explicit `Except.error`.
-/
namespace CQ

/-- bucket index: `(time.as_nanos() % t_all) / t_nanos) as usize % n` (mod.rs `add`/`cancel`) -/
def idx (n t x : Nat) : Nat := ((x % (n * t)) / t) % n

structure Ev where
  time : Nat
  id : Nat
  val : Nat
deriving Repr, DecidableEq, Inhabited

/-- `DualLinkedList::add`: walk from the tail while `cur.time > node.time`, insert after `cur`.
    Stated on the reversed bucket. -/
def insRev : List Ev → Ev → List Ev
  | [], e => [e]
  | x :: xs, e => if x.time > e.time then x :: insRev xs e else e :: x :: xs

def bucketInsert (l : List Ev) (e : Ev) : List Ev := (insRev l.reverse e).reverse

/-- `DualLinkedList::cancel` / `VecDeque::position+remove`: remove the first element carrying `id`,
    scanning from the front; `none` when absent. -/
def removeId : List Ev → Nat → Option (List Ev)
  | [], _ => none
  | x :: xs, i => if x.id = i then some xs else (removeId xs i).map (x :: ·)

structure State where
  n : Nat
  t : Nat
  zero : List Ev
  buckets : List (List Ev)
  head : Nat
  tcur : Nat
  t0 : Nat
  t1 : Nat
  eventId : Nat
  len : Nat
deriving Repr

def init (n t : Nat) : State :=
  { n, t, zero := [], buckets := List.replicate n [], head := 0, tcur := 0, t0 := 0, t1 := t,
    eventId := 0, len := 0 }

inductive Err | pastEvent | empty | internal
deriving Repr, DecidableEq

/-- `CQueue::add` -/
def add (s : State) (time val : Nat) : Except Err (State × Nat) :=
  if time < s.tcur then .error .pastEvent else
  let e : Ev := ⟨time, s.eventId, val⟩
  if time = s.tcur then
    .ok ({ s with zero := s.zero ++ [e], eventId := s.eventId + 1, len := s.len + 1 }, e.id)
  else
    let i := idx s.n s.t time
    .ok ({ s with buckets := s.buckets.modify i (bucketInsert · e), eventId := s.eventId + 1,
                  len := s.len + 1 }, e.id)

/-- `CQueue::cancel(handle)` with `handle = (id, time)`.
    An event whose time equals `t_current` is looked up in the zero bucket first and, when it is
    not there, in its calendar bucket (it was added while the clock was still behind it). -/
def cancel (s : State) (id time : Nat) : State :=
  if time < s.tcur then s else
  match (if time = s.tcur then removeId s.zero id else none) with
  | some z => { s with zero := z, len := s.len - 1 }
  | none =>
    let i := idx s.n s.t time
    match s.buckets[i]? with
    | none => s
    | some b =>
      match removeId b id with
      | some b' => { s with buckets := s.buckets.set i b', len := s.len - 1 }
      | none => s

/-- one skip of the scan loop -/
def adv (s : State) : State :=
  { s with head := (s.head + 1) % s.n, t0 := s.t0 + s.t, t1 := s.t1 + s.t }

/-- state after popping `e` (front of bucket `head`) on window state `w` -/
def popAt (w : State) (e : Ev) (rest : List Ev) : State :=
  { w with buckets := w.buckets.set w.head rest, tcur := e.time, len := w.len - 1 }

/-- the `loop { while bucket.is_empty() {…}; if min > t1 {…; continue}; … }` of `fetch_next`,
    with fuel -/
def scan : Nat → State → Except Err (Ev × State)
  | 0, _ => .error .internal
  | fuel + 1, s =>
    match s.buckets[s.head]? with
    | none => .error .internal
    | some [] => scan fuel (adv s)
    | some (e :: rest) =>
      if e.time > s.t1 then scan fuel (adv s) else .ok (e, popAt s e rest)

/-- smallest timestamp among the given events (0 if none) -/
def minTimeL : List Ev → Nat
  | [] => 0
  | e :: es => es.foldl (fun m x => min m x.time) e.time

/-- fuel for `scan`, computed from the state: enough to reach the earliest pending event -/
def fuelFor (s : State) : Nat := (minTimeL s.buckets.flatten - s.t0) / s.t + 2

/-- `CQueue::fetch_next` -/
def fetch (s : State) : Except Err (Ev × State) :=
  if s.len = 0 then .error .empty else
  match s.zero with
  | e :: z => .ok (e, { s with zero := z, len := s.len - 1 })
  | [] => scan (fuelFor s) s

/-- `CQueue::next_time`: timestamp of the event the next `fetch_next` would return; the queue is
    left untouched (the Rust loop scans with local copies of `head`/`t1`). -/
def nextTime (s : State) : Option Nat :=
  if s.len = 0 then none else
  match s.zero with
  | e :: _ => some e.time
  | [] =>
    match scan (fuelFor s) s with
    | .ok (e, _) => some e.time
    | .error _ => none

end CQ

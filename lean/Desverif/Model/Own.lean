/-
Model for C20: the ownership (reference) graph of a des network simulation at its stopping point,
and what happens when its roots are dropped.

Part 1 (generic, node type `α`): reference-count drop semantics.
  * an `Edge` is one live strong handle (`Arc`/`Rc`/`Box`/by-value field) from `src` to `tgt`;
    `via` says where the handle is stored: an ordinary field, connection slot `j` of a gate
    (`Connection.endpoint` → `.peer j`, `Connection.channel` → `.chan j`), or a timer-slot entry that
    is removed by the destructor of the handle node `h` (`TimerSlotEntryHandle::drop`) → `.entry h`;
  * `step` releases one handle: decrement the count; at zero the node is freed: its destructor runs
    (`cutOnFree`: `ModuleContext::drop ⇒ for gate in self.gates() { gate.dissolve_paths() }`,
    and the entry removal above), then its fields are dropped (all remaining out-edges are released);
  * `dissolve` is `Gate::dissolve_paths`: `try_lock` (a gate already locked further up the recursion
    returns at once), take every connection, recurse into its endpoint, drop it.
  * `dropRoots` runs the work-list with fuel `#roots + #edges` (proved sufficient in Proofs/OwnRun).
Weak references are not edges (they keep nothing alive); they are listed in `weakEdges` only so that
the graph mirrors the struct definitions field by field.

Part 2: `NId`, `Desc`, `mkEdges` — the builder that turns the description of a stopped simulation
(module tree, gates, links with channels and their backlog, pending / remaining / buffered events,
tasks blocked on timers or receives, shut-down modules, messages kept in module state) into that graph.
-/
namespace Own

/-! ## Part 1: reference-count drop semantics -/

inductive Via (α : Type) where
  | field
  | peer (j : Nat)
  | chan (j : Nat)
  | entry (h : α)
  deriving DecidableEq, Repr

structure Edge (α : Type) where
  src : α
  tgt : α
  via : Via α
  deriving DecidableEq, Repr

variable {α : Type} [DecidableEq α]

def Via.slot? : Via α → Option Nat
  | .peer j => some j
  | .chan j => some j
  | _ => none

def Via.isConn (v : Via α) : Bool := v.slot?.isSome

def Edge.isConn (e : Edge α) : Bool := e.via.isConn

/-- the edge lives in connection slot `j` of gate `g` -/
def Edge.inSlot (g : α) (j : Nat) (e : Edge α) : Bool := e.src = g && e.via.slot? = some j

def inDeg (es : List (Edge α)) (v : α) : Nat := es.countP (fun e => e.tgt = v)

def connCount (es : List (Edge α)) : Nat := es.countP Edge.isConn

def slotIds (es : List (Edge α)) (g : α) : List Nat :=
  es.filterMap fun e => if e.src = g then e.via.slot? else none

def takeSlot (es : List (Edge α)) (g : α) (j : Nat) : List (Edge α) := es.filter (Edge.inSlot g j)
def dropSlot (es : List (Edge α)) (g : α) (j : Nat) : List (Edge α) := es.filter (fun e => !Edge.inSlot g j e)

/-- `Connection.endpoint` of a taken connection -/
def peerOf (taken : List (Edge α)) : Option α :=
  taken.findSome? fun e => match e.via with | .peer _ => some e.tgt | _ => none

abbrev DRes (α : Type) := Option (List (Edge α) × List α)

/-- the `for con in &mut conns.connections { if let Some(con) = con.take() { con.endpoint.dissolve_paths() } }`
    loop of gate `g` (whose lock is held): `rec` is the recursive call. Returns the remaining handles
    and the handles released (`con` goes out of scope after the recursive call). -/
def slotLoop (rec : List (Edge α) → α → DRes α) (g : α) : List Nat → List (Edge α) → DRes α
  | [], es => some (es, [])
  | j :: js, es =>
    let taken := takeSlot es g j
    let es1 := dropSlot es g j
    match peerOf taken with
    | none =>
      match slotLoop rec g js es1 with
      | none => none
      | some (es', r) => some (es', taken.map (·.tgt) ++ r)
    | some p =>
      match rec es1 p with
      | none => none
      | some (es2, r1) =>
        match slotLoop rec g js es2 with
        | none => none
        | some (es', r) => some (es', r1 ++ taken.map (·.tgt) ++ r)

/-- `Gate::dissolve_paths`; `locked` = gates whose mutex is held by the recursion; `none` = out of fuel -/
def dissolve : Nat → List α → List (Edge α) → α → DRes α
  | 0, _, _, _ => none
  | f + 1, locked, es, g =>
    if g ∈ locked then some (es, [])
    else slotLoop (dissolve f (g :: locked)) g (slotIds es g) es

def dissolveFuel (es : List (Edge α)) : Nat := connCount es + 1

/-- `for gate in self.gates() { gate.dissolve_paths() }` -/
def dissolveAll : List α → List (Edge α) → DRes α
  | [], es => some (es, [])
  | g :: gs, es =>
    match dissolve (dissolveFuel es) [] es g with
    | none => none
    | some (es1, r1) =>
      match dissolveAll gs es1 with
      | none => none
      | some (es2, r2) => some (es2, r1 ++ r2)

/-- which nodes are `ModuleContext`s / `Gate`s -/
structure Sem (α : Type) where
  isCtx : α → Bool
  isGate : α → Bool

/-- `ModuleContext::gates` -/
def gatesOf (sem : Sem α) (es : List (Edge α)) (v : α) : List α :=
  (es.filter fun e => e.src = v && e.via = Via.field && sem.isGate e.tgt).map (·.tgt)

/-- the destructor of `v`: timer entries registered through handle `v` are removed; a module context
    dissolves the paths of its gates -/
def cutOnFree (sem : Sem α) (es : List (Edge α)) (v : α) : DRes α :=
  let es0 := es.filter (fun e => e.via ≠ Via.entry v)
  let r0 := (es.filter (fun e => e.via = Via.entry v)).map (·.tgt)
  if sem.isCtx v then
    match dissolveAll (gatesOf sem es0 v) es0 with
    | none => none
    | some (es1, r1) => some (es1, r0 ++ r1)
  else some (es0, r0)

inductive Err where
  | underflow   -- a handle to a node whose count is already zero was released
  | fuel
  deriving DecidableEq, Repr

structure St (α : Type) where
  es : List (Edge α)
  rc : α → Nat
  freed : List α
  work : List α
  err : Option Err

/-- release one handle -/
def step (sem : Sem α) (s : St α) : St α :=
  match s.work with
  | [] => s
  | v :: w =>
    if s.rc v = 0 then { s with work := [], err := some .underflow }
    else
      let rc' := fun x => if x = v then s.rc v - 1 else s.rc x
      if s.rc v = 1 then
        match cutOnFree sem s.es v with
        | none => { s with work := [], err := some .fuel }
        | some (es1, rel) =>
          { es := es1.filter (fun e => e.src ≠ v), rc := rc', freed := v :: s.freed,
            work := rel ++ (es1.filter (fun e => e.src = v)).map (·.tgt) ++ w, err := s.err }
      else { s with rc := rc', work := w }

def run (sem : Sem α) : Nat → St α → St α
  | 0, s => if s.work = [] then s else { s with err := some .fuel }
  | n + 1, s => if s.work = [] then s else run sem n (step sem s)

/-- the counts of a consistent heap: one per live handle -/
def initSt (es : List (Edge α)) (roots : List α) : St α :=
  { es := es, rc := fun v => inDeg es v + roots.count v, freed := [], work := roots, err := none }

def dropRoots (sem : Sem α) (es : List (Edge α)) (roots : List α) : St α :=
  run sem (roots.length + es.length) (initSt es roots)

/-! ## Part 2: the graph of a stopped simulation -/

/-- where a message (and the event / buffer entry holding it) lives -/
inductive Loc where
  | fes (k : Nat)                      -- entry `k` of the future event set
  | rem (k : Nat)                      -- entry `k` of `Profiler.remaining`
  | buf (k : Nat)                      -- entry `k` of the static event buffer `BUF_CTX.events`
  | queue (c : Nat) (fwd : Bool) (k : Nat)   -- packet `k` in the buffer of channel `(c, fwd)`
  | kept (m : Nat) (k : Nat)           -- message `k` stored in the user state of module `m`
  | inbox (m : Nat) (k : Nat)          -- message `k` waiting in the mpsc channel of the `AsyncFn` module `m`
  | held (m : Nat) (k : Nat)           -- message `k` held by the task of the `AsyncFn` module `m`
  deriving DecidableEq, Repr

inductive NId where
  | runtime | profiler                 -- the two roots: `Runtime` (or the `Sim` it returned) and the `Profiler`
  | sim | statics | globals | tree | fesSet
  | ev (l : Loc)                       -- `(NetEvents, SimTime)` entry
  | bufEntry (c : Nat) (fwd : Bool) (k : Nat)   -- `(Message, Connection)` in `Buffer.packets`
  | msg (l : Loc) | body (l : Loc) | conn (l : Loc)
  | ctx (m : Nat) | proc (m : Nat) | state (m : Nat) | pe (m i : Nat)
  | asyncExt (m : Nat) | tokioRt (m : Nat) | driver (m : Nat)
  | taskCell (m t : Nat) | taskState (m t : Nat) | sleepHandle (m t : Nat) | mpsc (m t : Nat)
  | timerQueue (m : Nat) | timerSlot (m s : Nat)
  | gate (g : Nat) | chan (c : Nat) (fwd : Bool)
  | hook                               -- the process-global panic hook (`std::panic::set_hook`); never dropped
  | probe (c : Nat) (fwd : Bool)       -- `ChannelInner.probe : Box<dyn ChannelProbe>` (user supplied)
  deriving DecidableEq, Repr

/-- user-visible objects: module state, processing element, task state, message body, channel probe -/
def NId.userVisible : NId → Bool
  | .state _ | .pe _ _ | .taskState _ _ | .body _ | .probe _ _ => true
  | _ => false

def nidSem : Sem NId :=
  { isCtx := fun | .ctx _ => true | _ => false
    isGate := fun | .gate _ => true | _ => false }

structure MsgD where
  body : Bool
  lastGate : Option Nat
  deriving Repr, DecidableEq

inductive Wait where
  | sleep (slot : Nat)          -- `sleep(..).await`: a `TimerSlotEntryHandle` into slot `slot` of the module's queue
  | recv (txInModule : Bool)    -- `rx.recv().await`; the sender lives in the module struct / in the task
  deriving Repr, DecidableEq

structure TaskD where
  wait : Wait
  joined : Bool                 -- a `JoinHandle` is stored in `async_ext.{try,must}_join`
  deriving Repr, DecidableEq

/-- the task of a module built with `AsyncFn::{new, failable, io}` (des/src/net/runtime/blocks.rs): the
    `AsyncFn` struct (the module state) keeps the sender, `at_sim_start` spawns the user's future with
    the receiver and stores the `JoinHandle` (`try_join`). -/
structure AfnD where
  alive : Bool                  -- the task is still pending (blocked in `rx.recv()` or on a timer)
  sleeping : Option Nat         -- `Some slot`: blocked on `sleep`, else blocked in `recv`
  inbox : List MsgD             -- received by the module, not yet read by the task
  held : List MsgD              -- messages the task keeps in its own state
  deriving Repr, DecidableEq

structure ModD where
  parent : Option Nat           -- effective only if smaller than the module's own index
  nPE : Nat
  running : Bool                -- `Rt::Runtime` (else `Rt::Builder` / `Rt::Shutdown`: no runtime, no tasks)
  tasks : List TaskD
  slots : Nat                   -- `TimerSlot`s in the driver's queue
  kept : List MsgD
  afn : Option AfnD := none     -- the module is an `AsyncFn` (its task has index `tasks.length`)
  askedParent : Bool := false   -- the module called `current().parent()` successfully at least once
  deriving Repr, DecidableEq

structure LinkD where
  a : Nat
  b : Nat
  chan : Bool
  qab : List MsgD               -- backlog of the channel stored in `a`'s connection (direction a → b)
  qba : List MsgD
  deriving Repr, DecidableEq

inductive EvD where
  | handle (m : Nat) (msg : MsgD)                                  -- HandleMessageEvent
  | exiting (g : Nat) (ch : Option (Nat × Bool)) (msg : MsgD)      -- MessageExitingConnection
  | unbusy (c : Nat) (fwd : Bool)                                  -- ChannelUnbusyNotif
  | restart (m : Nat) | wakeup (m : Nat)                           -- ModuleRestartEvent / AsyncWakeupEvent
  deriving Repr, DecidableEq

/-- how the simulation ended, i.e. which owners exist and are dropped:
    * `neverBuilt`  — only the `SimBuilder`/`Sim` exists (no `Runtime`, no event set, no `Profiler`);
    * `unstarted`   — the `Runtime` (owning the `Sim`, the event set and its `Profiler`) is dropped unstarted;
    * `stepped`     — started, `dispatch_*`, then the `Runtime` is dropped without `finish()`;
    * `unwound`     — a panic unwinds through the started `Runtime`;
    * `finishedErr` — `finish()` returned `Err`: the `Runtime` was dropped inside `finish()`;
    * `finishedOk`  — `finish()` returned the `Sim` and the `Profiler` (with the remaining events), both dropped.
    In the model the two roots `runtime` and `profiler` are always present: where no `Profiler` was handed
    out its `remaining` list is empty and dropping it releases nothing; where no `Runtime` exists the
    event set is empty.  The statics (`BUF_CTX`, `MOD_CTX`) are cleared by the guard inside the `Sim`.
    The panic hook installed by `at_sim_start` is a process-global that is NOT dropped with the simulation:
    it is still installed after `stepped`, `unwound` and after a `finishedErr` caused by the inner
    application (only the end of `at_sim_end` takes it); in the current code it holds nothing. -/
inductive Stop where
  | neverBuilt | unstarted | stepped | unwound | finishedErr | finishedOk
  deriving Repr, DecidableEq

def Stop.hookLeft : Stop → Bool
  | .stepped | .unwound | .finishedErr => true
  | _ => false

structure Desc where
  mods : List ModD
  gates : List Nat              -- owner of every gate
  links : List LinkD
  fes : List EvD
  rem : List EvD
  buf : List EvD
  /-- the code before the C20 repair: a queued `Connection` keeps `channel: Some(owning channel)` -/
  keepChan : Bool := false
  stop : Stop := .finishedOk
  /-- a variant of the code in which the panic hook captures a strong `Arc<Globals>` (seeded defect) -/
  hookGlobals : Bool := false
  /-- a variant of the code in which the task spawned by `AsyncFn::failable` / `io` captures `current()`,
      a strong `Arc<ModuleContext>` (seeded defect) -/
  taskCtx : Bool := false
  /-- a variant of the code in which `ModuleContext::parent()` caches the resolved parent as a strong
      `ModuleRef` in the child (seeded defect); in the current code a lookup leaves no handle behind -/
  parentCache : Bool := false
  deriving Repr

def fld (s t : NId) : Edge NId := ⟨s, t, .field⟩

/-- enumerate with indices -/
def enum {β : Type} (l : List β) : List (Nat × β) := l.zipIdx.map fun p => (p.2, p.1)

def Desc.validGate (d : Desc) (g : Nat) : Bool :=
  match d.gates[g]? with
  | some o => decide (o < d.mods.length)
  | none => false

def msgEdges (l : Loc) (m : MsgD) : List (Edge NId) :=
  (if m.body then [fld (.msg l) (.body l)] else []) ++
  (match m.lastGate with | some g => [fld (.msg l) (.gate g)] | none => [])

/-- `ModuleRef { ctx, processing }` held by value: two handles -/
def modRefEdges (s : NId) (m : Nat) : List (Edge NId) := [fld s (.ctx m), fld s (.proc m)]

def evEdges (l : Loc) : EvD → List (Edge NId)
  | .handle m msg => modRefEdges (.ev l) m ++ [fld (.ev l) (.msg l)] ++ msgEdges l msg
  | .exiting g ch msg =>
    [fld (.ev l) (.conn l), fld (.conn l) (.gate g)] ++
    (match ch with | some (c, f) => [fld (.conn l) (.chan c f)] | none => []) ++
    [fld (.ev l) (.msg l)] ++ msgEdges l msg
  | .unbusy c f => [fld (.ev l) (.chan c f)]
  | .restart m => modRefEdges (.ev l) m
  | .wakeup m => modRefEdges (.ev l) m

def evSetEdges (owner : NId) (mk : Nat → Loc) (evs : List EvD) : List (Edge NId) :=
  (enum evs).flatMap fun (k, e) => fld owner (.ev (mk k)) :: evEdges (mk k) e

def taskEdges (m t : Nat) (td : TaskD) : List (Edge NId) :=
  [fld (.tokioRt m) (.taskCell m t), fld (.tokioRt m) (.taskState m t)] ++
  (if td.joined then [fld (.asyncExt m) (.taskCell m t)] else []) ++
  (match td.wait with
   | .sleep s =>
     [fld (.taskState m t) (.sleepHandle m t),
      ⟨.timerSlot m s, .taskCell m t, .entry (.sleepHandle m t)⟩]
   | .recv inMod =>
     [fld (.taskState m t) (.mpsc m t), fld (.mpsc m t) (.taskCell m t),
      fld (if inMod then .state m else .taskState m t) (.mpsc m t)])

/-- the `AsyncFn` task `t` of module `m` -/
def afnEdges (ctxBack : Bool) (m t : Nat) : Option AfnD → List (Edge NId)
  | none => []
  | some a =>
    fld (.state m) (.mpsc m t) ::
    ((enum a.inbox).flatMap (fun (k, msg) => fld (.mpsc m t) (.msg (.inbox m k)) :: msgEdges (.inbox m k) msg) ++
     (if a.alive then
       [fld (.tokioRt m) (.taskCell m t), fld (.tokioRt m) (.taskState m t), fld (.asyncExt m) (.taskCell m t),
        fld (.taskState m t) (.mpsc m t), fld (.mpsc m t) (.taskCell m t)] ++
       (match a.sleeping with
        | some s => [fld (.taskState m t) (.sleepHandle m t),
                     ⟨.timerSlot m s, .taskCell m t, .entry (.sleepHandle m t)⟩]
        | none => []) ++
       (if ctxBack then [fld (.taskState m t) (.ctx m)] else []) ++
       (enum a.held).flatMap (fun (k, msg) => fld (.taskState m t) (.msg (.held m k)) :: msgEdges (.held m k) msg)
      else []))

def modEdges (d : Desc) (m : Nat) (md : ModD) : List (Edge NId) :=
  modRefEdges .tree m ++
  (match md.parent with
   | some p =>
     if p < m then
       modRefEdges (.ctx p) m ++ (if d.parentCache && md.askedParent then modRefEdges (.ctx m) p else [])
     else []
   | none => []) ++
  [fld (.proc m) (.state m)] ++
  (List.range md.nPE).map (fun i => fld (.proc m) (.pe m i)) ++
  [fld (.ctx m) (.asyncExt m), fld (.asyncExt m) (.driver m), fld (.driver m) (.timerQueue m)] ++
  (List.range md.slots).flatMap (fun s =>
    [fld (.timerQueue m) (.timerSlot m s), fld (.timerSlot m s) (.timerQueue m)]) ++
  (if md.running then
    fld (.asyncExt m) (.tokioRt m) ::
      ((enum md.tasks).flatMap (fun (t, td) => taskEdges m t td) ++ afnEdges d.taskCtx m md.tasks.length md.afn)
   else []) ++
  (enum md.kept).flatMap (fun (k, msg) => fld (.state m) (.msg (.kept m k)) :: msgEdges (.kept m k) msg) ++
  ((enum d.gates).filter (fun (g, o) => o = m && d.validGate g)).map (fun (g, _) => fld (.ctx m) (.gate g))

def queueEdges (keepChan : Bool) (c : Nat) (fwd : Bool) (endpoint : Nat) (q : List MsgD) : List (Edge NId) :=
  (enum q).flatMap fun (k, msg) =>
    [fld (.chan c fwd) (.bufEntry c fwd k),
     fld (.bufEntry c fwd k) (.msg (.queue c fwd k)),
     fld (.bufEntry c fwd k) (.conn (.queue c fwd k)),
     fld (.conn (.queue c fwd k)) (.gate endpoint)] ++
    (if keepChan then [fld (.conn (.queue c fwd k)) (.chan c fwd)] else []) ++
    msgEdges (.queue c fwd k) msg

/-- `Gate::connect(a, b, channel)`: slot `c` of `a` holds `Connection{endpoint: b, channel: ch1}` and
    slot `c` of `b` holds `Connection{endpoint: a, channel: ch2}` (links between unknown gates are ignored) -/
def linkEdges (d : Desc) (c : Nat) (l : LinkD) : List (Edge NId) :=
  if d.validGate l.a && d.validGate l.b then
    [⟨.gate l.a, .gate l.b, .peer c⟩, ⟨.gate l.b, .gate l.a, .peer c⟩] ++
    (if l.chan then
      [⟨.gate l.a, .chan c true, .chan c⟩, ⟨.gate l.b, .chan c false, .chan c⟩,
       fld (.chan c true) (.probe c true), fld (.chan c false) (.probe c false)] ++
      queueEdges d.keepChan c true l.b l.qab ++ queueEdges d.keepChan c false l.a l.qba
     else [])
  else []

def mkEdges (d : Desc) : List (Edge NId) :=
  [fld .runtime .sim, fld .runtime .fesSet, fld .sim .globals, fld .sim .tree, fld .globals .tree,
   fld .sim .statics] ++
  evSetEdges .fesSet .fes d.fes ++ evSetEdges .profiler .rem d.rem ++ evSetEdges .statics .buf d.buf ++
  (enum d.mods).flatMap (fun (m, md) => modEdges d m md) ++
  (enum d.links).flatMap (fun (c, l) => linkEdges d c l)

/-- weak references (`Weak<…>` fields); they play no role in the drop semantics -/
def weakEdges (d : Desc) : List (NId × NId) :=
  [(.statics, .globals)] ++
  (enum d.mods).flatMap (fun (m, md) =>
    [(NId.ctx m, NId.ctx m), (.ctx m, .proc m)] ++       -- `me`
    (match md.parent with
     | some p => if p < m then [(NId.ctx m, NId.ctx p), (.ctx m, .proc p)] else []
     | none => []) ++
    (enum md.tasks).flatMap (fun (t, td) =>
      match td.wait with | .sleep s => [(NId.sleepHandle m t, NId.timerSlot m s)] | _ => [])) ++
  (enum d.gates).flatMap (fun (g, o) => [(NId.gate g, NId.ctx o), (.gate g, .proc o)])

def roots : List NId := [.runtime, .profiler]

/-- handles held by process-globals that outlive the simulation: the panic hook (nothing in the current code) -/
def hookEdges (d : Desc) : List (Edge NId) :=
  if d.hookGlobals && d.stop.hookLeft then [fld .hook .globals] else []

/-- the whole heap: the simulation's graph plus what surviving process-globals hold -/
def heapEdges (d : Desc) : List (Edge NId) := mkEdges d ++ hookEdges d

/-- drop the `Runtime`/`Sim` and the `Profiler` of the simulation described by `d` -/
def dropSim (d : Desc) : St NId := dropRoots nidSem (heapEdges d) roots

/-- all nodes of the graph: the roots and every handle target -/
def nodesOf (d : Desc) : List NId := roots ++ (heapEdges d).map (·.tgt)

def freedCount (s : St NId) (v : NId) : Nat := s.freed.count v

/-- user-visible nodes that are not freed exactly once -/
def leaked (d : Desc) : List NId :=
  let s := dropSim d
  ((nodesOf d).filter fun v => v.userVisible && freedCount s v ≠ 1).eraseDups

end Own

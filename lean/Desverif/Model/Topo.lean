/-
Model of `des/src/net/topology.rs` over the gate model (Model/Gate.lean):
`Topology::from_modules` (= `Topology::current`, `Globals::topology`), `Topology::spanned`,
`filter_nodes`, `filter_edges`, `dijkstra`, `connected`, `bidirectional`, `edges` / `edges_for`.

A topology is `nodes : Vec<Node>` plus `edges : Vec<Vec<EdgeRaw>>` indexed alike; an `EdgeRaw` holds
the index `dst` of the destination node and the two end gates.  Modules and gates are `Nat` ids.

The two work-list algorithms (`spanned`, `dijkstra`) take the discipline of their work-list as a
parameter: `Pop.back` is `Vec::pop` (the code before the repair of finding F8), `Pop.front` is
`VecDeque::pop_front` (the repaired code).  The theorems are about `Pop.front`; the `…_witness`
theorems show on a triangle that `Pop.back` is wrong.

Vector indexing `self.edges[i]` / `self.nodes[i]` / `mapping[i]` is modelled with `getD`; the indices
are in range exactly for well-formed topologies (`WF`), which the constructors produce
(Props/C19 `*_wf`).  The Rust code would panic on an ill-formed one.
-/
import Desverif.Model.Gate
namespace Topo
open Gate

/-- the part of a simulation the topology code reads -/
structure World where
  net : Net
  ngates : Nat                 -- gate ids are < ngates
  mods : List Nat              -- `ModuleTree` order
  gates : Nat → List Nat       -- `module.gates()` in creation order
  owner : Nat → Nat            -- `gate.owner().id()`

/-- an entry of `ModuleTree` as far as the node order is concerned: module, depth of its path
    (`path.len()`), parent.  (The full model of the module tree is property C12's `ModTree`.) -/
structure Ent where
  id : Nat
  depth : Nat
  parent : Option Nat
deriving Repr, DecidableEq

/-- the `while pos < len && modules[pos].path.len() > parent_depth { pos += 1 }` loop -/
def skipDeeper (depth : Nat) : List Ent → Nat
  | [] => 0
  | e :: rest => if e.depth > depth then skipDeeper depth rest + 1 else 0

/-- `Iterator::rposition` -/
def rpos (f : Ent → Bool) : List Ent → Option Nat
  | [] => none
  | x :: xs =>
    match rpos f xs with
    | some i => some (i + 1)
    | none => if f x then some 0 else none

/-- `ModuleTree::add`: a top-level module is pushed at the end, a child is inserted behind the
    subtree of its parent — the node order of `Topology::current()` is this tree order, not the
    creation order (`none`: the parent does not exist, the builder panics) -/
def treeAdd (ms : List Ent) (m : Nat) (parent : Option Nat) : Option (List Ent) :=
  match parent with
  | none => some (ms ++ [⟨m, 1, none⟩])
  | some p =>
    match rpos (·.id == p) ms with
    | none => none
    | some i =>
      let dp := ((ms[i]?).map (·.depth)).getD 0
      let pos := i + 1 + skipDeeper dp (ms.drop (i + 1))
      some (ms.take pos ++ ⟨m, dp + 1, some p⟩ :: ms.drop pos)

/-- `EdgeRaw` -/
structure Edge where
  dst : Nat
  start : Nat
  stop : Nat
deriving Repr, DecidableEq

structure T where
  nodes : List Nat := []
  edges : List (List Edge) := []
deriving Repr, DecidableEq

inductive Pop
  | back | front
deriving Repr, DecidableEq

/-- `position(|node| node.module.id() == id)` -/
def indexOf (l : List Nat) (x : Nat) : Option Nat := l.findIdx? (· == x)

/-- `let mut end = gate; for con in iter[.take(cap)] { end = con.endpoint }` -/
def chainEnd (w : World) (cap : Option Nat) (g : Nat) : Nat :=
  let hops := walk w.net w.ngates g true
  lastGate g (match cap with | some c => hops.take c | none => hops)

/-- `Topology::from_modules(modules)` -/
def fromModules (w : World) (modules : List Nat) : T :=
  { nodes := modules
    edges := modules.map fun m =>
      (w.gates m).filterMap fun g =>
        if kind w.net g = .endpoint then
          let e := chainEnd w (some 16) g
          match indexOf modules (w.owner e) with
          | some dst => some ⟨dst, g, e⟩
          | none => none       -- "no spanning tree, ignore external links"
        else none }

/-- `Topology::current()` -/
def current (w : World) : T := fromModules w w.mods

/-- the inner `for gate in gates` loop of `spanned` for the module at node index `srcIdx` -/
def spanGates (w : World) (nodes : List Nat) (srcIdx : Nat) :
    List Nat → List Nat → List Edge → List Nat × List Edge
  | [], queue, acc => (queue, acc)
  | g :: gs, queue, acc =>
    if kind w.net g = .endpoint then
      let e := chainEnd w none g
      let eo := w.owner e
      match indexOf nodes eo with
      | some i => spanGates w nodes srcIdx gs queue (acc ++ [⟨i, g, e⟩])
      | none =>
        match indexOf queue eo with
        | some off => spanGates w nodes srcIdx gs queue (acc ++ [⟨srcIdx + 1 + off, g, e⟩])
        | none =>
          let queue' := queue ++ [eo]
          spanGates w nodes srcIdx gs queue' (acc ++ [⟨srcIdx + queue'.length, g, e⟩])
    else spanGates w nodes srcIdx gs queue acc

def popFrom (p : Pop) (l : List Nat) : Option (Nat × List Nat) :=
  match p with
  | .front => match l with | [] => none | x :: r => some (x, r)
  | .back => match l.getLast? with | none => none | some x => some (x, l.dropLast)

/-- the `while let Some(module) = modules.pop…()` loop of `spanned` -/
def spanLoop (w : World) (p : Pop) : Nat → T → List Nat → Option T
  | 0, _, _ => none
  | fuel + 1, t, queue =>
    match popFrom p queue with
    | none => some t
    | some (m, queue) =>
      let nodes := t.nodes ++ [m]
      let srcIdx := nodes.length - 1
      let (queue', es) := spanGates w nodes srcIdx (w.gates m) queue []
      spanLoop w p fuel ⟨nodes, t.edges ++ [es]⟩ queue'

/-- `Topology::spanned(root)`; every module enters the work-list at most once, so
    `mods.length + 1` iterations suffice (`none` = out of fuel) -/
def spanned (w : World) (p : Pop) (root : Nat) : Option T :=
  spanLoop w p (w.mods.length + 1) {} [root]

def T.edgesAt (t : T) (i : Nat) : List Edge := t.edges.getD i []

/-- every stored node index is in range -/
def T.WF (t : T) : Prop :=
  t.edges.length = t.nodes.length ∧ ∀ es ∈ t.edges, ∀ e ∈ es, e.dst < t.nodes.length

instance (t : T) : Decidable t.WF := by unfold T.WF; exact inferInstance

/-- `Topology::bidirectional` -/
def bidirectional (t : T) : Bool :=
  (List.range t.edges.length).all fun src =>
    (t.edgesAt src).all fun e => (t.edgesAt e.dst).any fun e' => e'.dst == src

/-- the recursive `visit` of `connected` (depth ≤ number of nodes) -/
def visit (t : T) : Nat → Nat → List Nat → List Nat
  | 0, _, visited => visited
  | fuel + 1, i, visited =>
    if visited.contains i then visited
    else (t.edgesAt i).foldl (fun v e => visit t fuel e.dst v) (visited ++ [i])

/-- `Topology::connected` -/
def connected (t : T) : Bool :=
  (List.range t.nodes.length).all fun start =>
    (visit t (t.nodes.length + 1) start []).length == t.nodes.length

/-- `Topology::filter_nodes`: the index-compaction loop … -/
def filterLoop (keep : List Bool) : List Nat → Nat → List Nat → List (List Edge) → List (Option Nat) →
    List Nat × List (List Edge) × List (Option Nat)
  | [], _, nodes, edges, mapping => (nodes, edges, mapping)
  | index :: rest, running, nodes, edges, mapping =>
    if keep.getD index false then
      filterLoop keep rest (running + 1) nodes edges (mapping ++ [some running])
    else
      filterLoop keep rest running (nodes.eraseIdx running) (edges.eraseIdx running) (mapping ++ [none])

/-- … followed by re-indexing every edge through the mapping (`usize::MAX` = `none` = dropped) -/
def filterNodes (t : T) (f : Nat → Bool) : T :=
  let keep := t.nodes.map f
  let (nodes, edges, mapping) := filterLoop keep (List.range t.nodes.length) 0 t.nodes t.edges []
  { nodes := nodes
    edges := edges.map fun bundle =>
      bundle.filterMap fun e =>
        match mapping.getD e.dst none with
        | some d => some { e with dst := d }
        | none => none }

/-- `Edge` as handed out by `edges()` / `edges_for` / `dijkstra`: source index + raw edge -/
structure FullEdge where
  src : Nat
  e : Edge
deriving Repr, DecidableEq

/-- `Topology::filter_edges(f)`: `for (src, bundle) in edges.iter_mut().enumerate() { bundle.retain(…) }`.
    The predicate is handed the `Edge` view (source node = `nodes[src]`, destination node =
    `nodes[raw.dst]`, both gates); node index + raw edge determine all of it, so the model predicate
    takes those.  Nodes, their order and all indices stay as they are. -/
def filterEdges (t : T) (f : FullEdge → Bool) : T :=
  { t with edges := t.edges.mapIdx fun src bundle => bundle.filter fun e => f ⟨src, e⟩ }

/-- `Topology::edges()` -/
def allEdges (t : T) : List FullEdge :=
  ((List.range t.edges.length).map fun i => (t.edgesAt i).map fun e => FullEdge.mk i e).flatten

/-- `Topology::edges_for(path)` -/
def edgesFor (t : T) (m : Nat) : List FullEdge :=
  match indexOf t.nodes m with
  | none => []
  | some i => (t.edgesAt i).map fun e => ⟨i, e⟩

/-- `QueueElement` of `dijkstra` -/
structure QE where
  idx : Nat
  distance : Nat
  next : Option FullEdge
deriving Repr, DecidableEq

def popQE (p : Pop) (l : List QE) : Option (QE × List QE) :=
  match p with
  | .front => match l with | [] => none | x :: r => some (x, r)
  | .back => match l.getLast? with | none => none | some x => some (x, l.dropLast)

/-- the `while let Some(cur) = queue.pop…()` loop of `dijkstra`; `mapping` is the result map as an
    insertion-ordered association list node index ↦ first edge (the code keys the entry by
    `self.nodes[cur.idx].module.path()`; `nodes` does not change, so `dijkstra` below translates the
    indices once at the end) -/
def dijkstraLoop (t : T) (p : Pop) : Nat → List Nat → List QE → List (Nat × FullEdge) →
    Option (List (Nat × FullEdge))
  | 0, _, _, _ => none
  | fuel + 1, visited, queue, mapping =>
    match popQE p queue with
    | none => some mapping
    | some (cur, queue) =>
      if visited.contains cur.idx then dijkstraLoop t p fuel visited queue mapping
      else
        let visited := visited ++ [cur.idx]
        let mapping := match cur.next with
          | some hop => mapping ++ [(cur.idx, hop)]
          | none => mapping
        let pushes := (t.edgesAt cur.idx).filterMap fun e =>
          if visited.contains e.dst then none
          else some (QE.mk e.dst (cur.distance + 1) (some (cur.next.getD ⟨cur.idx, e⟩)))
        dijkstraLoop t p fuel visited (queue ++ pushes) mapping

/-- number of edges -/
def T.size (t : T) : Nat := (t.edges.map List.length).sum

/-- `Topology::dijkstra(src)`: `none` = "unknown node" panic; every queue element is the root or
    was pushed for one edge of a node on its (single) visit, so `size + 2` iterations suffice -/
def dijkstra (t : T) (p : Pop) (src : Nat) : Option (List (Nat × FullEdge)) :=
  match indexOf t.nodes src with
  | none => none
  | some i =>
    (dijkstraLoop t p (t.size + 2) [] [⟨i, 0, none⟩] []).map fun l =>
      l.map fun entry => (t.nodes.getD entry.1 0, entry.2)

end Topo

/-
`Runtime::run` for a network simulation (des/src/runtime/mod.rs:282-296):

    self.start();         // … A::Lifecycle::at_sim_start(self)  = SimLifecycle::at_sim_start
    self.dispatch_all();  // the event loop
    self.finish()         // … A::Lifecycle::at_sim_end(&mut self) = SimLifecycle::at_sim_end

on top of the kernel model `Rt` (event loop, `add_event`, limits; generic over the event set).
Events carry the id of the module they are addressed to.  What a module does inside a callback is
a parameter: `acts m stage` are the `add_event` calls made by `at_sim_start(stage)` of `m`,
`prog` the calls made by the message handlers — any message schedule is an instance.
-/
import Desverif.Model.ModTree
import Desverif.Model.Rt
namespace ModTree

/-- a callback made by the run, in the order the code makes it -/
inductive Cb
  | start (m : Mod) (stage : Nat)   -- `Module::at_sim_start(stage)` of `m`
  | kernel (o : Rt.Obs)             -- event loop: `.handled` = a message handler ran; `.sched` = an `add_event`
  | stop (m : Mod)                  -- `Module::at_sim_end` of `m`
deriving Repr, DecidableEq

variable {σ : Type} (E : Rt.ES σ)

/-- the start-up loop with its side effects on the runtime: every call may schedule events -/
def startPhase (acts : Mod → Nat → List Rt.Act) (s : Rt.State σ) :
    List (Mod × Nat) → Rt.State σ × List Cb
  | [] => (s, [])
  | (m, stage) :: cs =>
    let (s1, os) := Rt.runActs E s (acts m stage)
    let (s2, rest) := startPhase acts s1 cs
    (s2, Cb.start m stage :: os.map Cb.kernel ++ rest)

/-- start-up calls, then the event loop, then the tear-down calls -/
def runWith (prog : Rt.Prog) (fuel : Nat) (acts : Mod → Nat → List Rt.Act) (s0 : Rt.State σ)
    (calls : List (Mod × Nat)) (ends : List Mod) : Rt.State σ × List Cb :=
  let (s1, l1) := startPhase E acts s0 calls
  let (s2, l2) := Rt.dispatchAll E prog fuel s1
  (s2, l1 ++ l2.map Cb.kernel ++ ends.map Cb.stop)

/-- `Runtime::run` on a simulation with module vector `ms` -/
def run (prog : Rt.Prog) (fuel : Nat) (acts : Mod → Nat → List Rt.Act) (s0 : Rt.State σ)
    (ms : List Mod) : Rt.State σ × List Cb :=
  runWith E prog fuel acts s0 (startCalls ms) (endCalls ms)

def Cb.isStop : Cb → Bool
  | .stop _ => true
  | _ => false

def Cb.startOf : Cb → Option (Mod × Nat)
  | .start m s => some (m, s)
  | _ => none

def Cb.stopOf : Cb → Option Mod
  | .stop m => some m
  | _ => none

def Cb.isHandled : Cb → Bool
  | .kernel (.handled _ _) => true
  | _ => false

end ModTree

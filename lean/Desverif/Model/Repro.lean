/-
Net kernel with EXPLICIT ambient identifiers (C04).

What can make two executions of the same (model, seed) differ are inputs that are not part of
(model, seed): the process-global counters `MODULE_ID` (des/src/net/module/mod.rs:100) and `SLEEP_ID`
(des/src/time/sleep.rs:95), which keep counting across simulations of one process.  (des has no global
message-id counter: `Header::id` is user data; event ids are per `Runtime` and restart at 0, they are the
`id`s of the abstract event set `FES`, whose tie rule orders them.)  In this model every such identifier
is a value in the state, drawn from an `Ambient` supply:

* `ModRt.id`            = `ModuleContext::id`         = `amb.modId k` for the k-th module created
* `Msg.sender`          = `Header::sender_module_id`  (set by `buf_send_at`; `none` = `ModuleId::NULL`)
* `Sl.id`, `Timer.Entry.sid` = `Sleep::id`, `TimerSlotEntry::id` = `amb.sleepId k` for the k-th `Sleep::new`

and the code that uses them is modelled as it is: a timer slot's entries are removed by sleep id
(`TimerSlot::remove`, reached from `TimerSlotEntryHandle::drop` when `select!` drops the losing sleeps),
the sender of a message is resolved by module id (what a user does with `sender_module_id`).

Randomness is an explicit stream `List Nat`, consumed in dispatch order by: the `RngSeed` of a module's
tokio runtime (des/src/net/module/ctx/rt.rs:80-98, drawn at the module's first event), `random()` calls of
handlers and tasks, channel jitter (des/src/net/channel.rs:214) and the start index of every poll of a
`tokio::select!`.

Kernel shape as in `Model/Proc.lean`: future event set = `FES` (C01/C03), `BUF_CTX.events` flushed in push
order after the wake-up that `deactivate` adds, `at_sim_start` in module-tree order, `at_sim_end` without flush.
One module event = `activate` (timer bump: wake due slots) ; `Harness::exec` (handler, then the scheduler
loop of the current-thread runtime: freshly spawned tasks sit in the local queue, tasks woken by `activate`
in the inject queue, `Core::next_task` prefers the inject queue on every 31st tick) ; `deactivate`.

Modules may shut themselves down (`shut`, `restart d` steps = `ModuleContext::shutdown` / `shutdow_and_restart_in`):
the request is looked at by `buf_process` after the event (`processShutdown`): `active = false`, the tokio runtime and
all its tasks are dropped (their registered sleeps leave their timer slots, by sleep id), `ModuleRef::reset` builds the
runtime of the next incarnation — seeded with the next element of the random stream, drawn right there — and runs
`Module::reset` on it; an inactive module ignores messages and wake-ups (no `Harness::exec`); the
`ModuleRestartEvent` sets `active` and replays the start stage.  `seeds` records (ghost) the seed of every runtime.

Links may have a channel with latency, jitter and a bitrate: `transmit` is `Channel::send_message` (busy -> queue,
policy `Queue(None)`; idle -> probe fires (`xmit`), jitter drawn, exit event, busy until the transmission is over),
`unbusy`/`drain` is `Channel::unbusy`; `send` with a delay is `send_in` (`KEvent.leave`: the gate chain is walked when
the event fires, and the message is dropped if its sender is no longer active).  Tasks of a module can signal each
other through semaphores (`sig`, `wait`; FIFO wait list, a woken task joins the local run queue).
A task may yield cooperatively (`spin`: `yield_now().await` in a loop): its waker is deferred to the end of the executor
turn, `schedLoop` re-queues the deferred tasks (newest first, as `Defer::wake` does) and runs another turn — however many
turns it takes, they all belong to the event that started them; the model has no notion of real time.
Emissions made during `at_sim_end` stay in `buf` (`SimLifecycle::at_sim_end` does not call `buf_process`); `Globals`
at the end of the file models what a dropped simulation leaves in the process and what the next one makes of it.

The canonical trace (`Obs`) is what the harness logs: time, module PATH, what, who, peer path, numbers —
no identifiers.
-/
import Desverif.Spec.FES
import Desverif.Model.Timer
namespace Repro

/-- the process state a simulation starts in: the k-th `ModuleId::gen()` / `Sleep::new` of the
    simulation returns `modId k` / `sleepId k` -/
structure Ambient where
  modId : Nat → Nat
  sleepId : Nat → Nat

/-- the counters hand out distinct values (they are `fetch_add(1)`; `MODULE_ID` is a `u16`, so this
    assumes fewer than 2^16 modules per simulation) -/
def Ambient.Inj (a : Ambient) : Prop :=
  (∀ i j, a.modId i = a.modId j → i = j) ∧ (∀ i j, a.sleepId i = a.sleepId j → i = j)

/-- the canonical supply: ids are allocation indices -/
def Ambient.canon : Ambient := ⟨id, id⟩

/-- what `n` module ids and `k` sleep ids later is left behind -/
def Ambient.after (a : Ambient) (n k : Nat) : Ambient :=
  ⟨fun i => a.modId (n + i), fun i => a.sleepId (k + i)⟩

inductive Step
  | draw
  | draw32
  | send (dst : String) (kind : Nat) (delay : Nat)   -- `send` (delay 0) / `send_in`
  | sched (delay kind : Nat)
  | schedr (kind : Nat)          -- draw `x = random::<u64>()`, then `schedule_in(.., x % 8 ns)`
  | spin (left total every : Nat)   -- `for i in 1..=total { yield_now().await; if i % every == 0 { draw } }`, `left` to go (tasks only)
  | spun (left total every : Nat)   -- (internal) the same loop, resumed after a yield
  | sig (sem : String)           -- `Semaphore::add_permits(1)` on a semaphore of the module
  | wait (sem : String)          -- `acquire().await` + `forget()`  (tasks only)
  | spawn (task : String)
  | sleep (d : Nat)
  | sel (ds : List Nat)
  | shut                         -- `current().shutdown()`
  | restart (d : Nat)            -- `current().shutdow_and_restart_in(d)`
deriving Repr, DecidableEq

inductive On
  | start
  | end_
  | msg (kind : Nat)
deriving Repr, DecidableEq

structure Link where
  src : String
  dst : String
  chan : Option (Nat × Nat × Nat)   -- latency, jitter bound, transmission time of a message; `none` = no channel
deriving Repr

structure ModSpec where
  path : String
  ttl : Nat
  cidx : Nat                     -- creation index: the module got the `cidx`-th module id
deriving Repr

structure Net where
  mods : List ModSpec            -- in module-tree order (`ModuleTree::add`)
  links : List Link
  rules : List (String × On × List Step)
  tasks : List (String × List Step)
  skipEmpty : Bool               -- `TimerQueue::next` skips emptied slots (C05 repair) or not

/-- one canonical observation -/
structure Obs where
  time : Nat
  path : String
  what : String
  who : String
  peer : String
  args : List Nat
deriving Repr, DecidableEq

structure Msg where
  kind : Nat
  ttl : Nat
  serial : Nat
  sender : Option Nat            -- module id
deriving Repr, DecidableEq

inductive KEvent
  | deliver (mod : Nat) (m : Msg)     -- HandleMessageEvent (module = index in tree order)
  | exitConn (mod : Nat) (m : Msg)    -- MessageExitingConnection whose gate chain ends at `mod`
  | wakeup (mod : Nat)                -- AsyncWakeupEvent
  | restart (mod : Nat)               -- ModuleRestartEvent
  | leave (mod li : Nat) (m : Msg)    -- MessageExitingConnection at the sender's own gate (`send_in`): link `li` of module `mod`
  | unbusy (li : Nat)                 -- ChannelUnbusyNotif of the channel of link `li`
deriving Repr, DecidableEq

/-- a `Sleep`: id, deadline, `handle.is_some()` -/
structure Sl where
  id : Nat
  deadline : Nat
  reg : Bool
deriving Repr, DecidableEq

inductive Wait
  | run                          -- not started / finished
  | sleeping (s : Sl)
  | selecting (ss : List Sl)
  | waiting (sem : String) (granted : Bool)   -- in the wait list of a semaphore / permit assigned, woken
deriving Repr

structure TaskRt where
  tag : String
  ttl : Nat
  prog : List Step
  wait : Wait
deriving Repr

structure ModRt where
  path : String
  id : Nat
  ttl0 : Nat
  tasks : List TaskRt := []
  pending : List Timer.Slot := []      -- entries: `sid` = sleep id, `tid` = index into `tasks`
  nextWakeup : Option Nat := none      -- `Driver::next_wakeup`; `none` = `SimTime::MAX`
  seeded : Bool := false               -- `Rt::Runtime` built
  tick : Nat := 0                      -- `Core::tick`
  localq : List Nat := []              -- `Core::tasks`
  inject : List Nat := []              -- `Shared::inject`
  active : Bool := true                -- `ModuleContext::active`
  shutdownReq : Option (Option Nat) := none   -- `ModuleContext::shutdown_task` (restart time)
  inc : Nat := 0                       -- incarnation = number of `Module::reset` calls (the harness counts them)
  sems : List (String × Nat × List Nat) := []   -- semaphores of the module: name, free permits, waiting tasks (FIFO)
  deferq : List Nat := []              -- `Defer`: tasks that called `yield_now` in this turn, in push order
deriving Repr

/-- a `Channel`: busy flag and the FIFO buffer (policy `Queue(None)`) of (message, destination module) -/
structure ChanRt where
  busy : Bool := false
  queue : List (Msg × Nat) := []
deriving Repr

structure Sim where
  mods : List ModRt
  fes : FES.State
  evs : List KEvent                    -- payload table: the FES value of an event is its index here
  buf : List (KEvent × Nat)            -- `BUF_CTX.events`
  stream : List Nat
  serial : Nat                         -- emissions so far (the harness numbers the messages)
  nextSleep : Nat                      -- `Sleep::new` calls so far
  trace : List Obs                     -- newest first
  fault : Option String
  chans : List ChanRt := []                -- one per link (index into `Net.links`)
  dropped : List (String × String) := []   -- (module path, task tag) of unfinished tasks dropped by a shutdown
  seeds : List (String × Nat) := []        -- ghost: (module path, `RngSeed` of a tokio runtime built for it), in build order

def Sim.now (s : Sim) : Nat := s.fes.cur

def updAt {α : Type} (f : α → α) : Nat → List α → List α
  | _, [] => []
  | 0, x :: xs => f x :: xs
  | n + 1, x :: xs => x :: updAt f n xs

def Sim.updMod (s : Sim) (mi : Nat) (f : ModRt → ModRt) : Sim := { s with mods := updAt f mi s.mods }

def ModRt.updTask (m : ModRt) (ti : Nat) (f : TaskRt → TaskRt) : ModRt := { m with tasks := updAt f ti m.tasks }

def Sim.log (s : Sim) (path what who peer : String) (args : List Nat) : Sim :=
  { s with trace := ⟨s.now, path, what, who, peer, args⟩ :: s.trace }

/-- the next value of the random stream -/
def Sim.pop (s : Sim) : Nat × Sim :=
  match s.stream with
  | [] => (0, { s with fault := some "stream-exhausted" })
  | x :: r => (x, { s with stream := r })

/-- push onto `BUF_CTX.events` -/
def Sim.push (s : Sim) (ev : KEvent) (t : Nat) : Sim := { s with buf := s.buf ++ [(ev, t)] }

/-- `Runtime::add_event` -/
def Sim.schedule (s : Sim) (ev : KEvent) (t : Nat) : Sim :=
  match FES.add s.fes t s.evs.length with
  | .ok (f, _) => { s with fes := f, evs := s.evs ++ [ev] }
  | .error _ => { s with fault := some "add-in-the-past" }

def modIndex (ms : List ModRt) (path : String) : Option Nat :=
  match ms with
  | [] => none
  | m :: r => if m.path = path then some 0 else (modIndex r path).map (· + 1)

/-- resolve a `ModuleId` to a path (ids are compared, never printed) -/
def senderPath (ms : List ModRt) : Option Nat → String
  | none => "-"
  | some i =>
    match ms.find? (fun m => m.id = i) with
    | some m => m.path
    | none => "-"

def linkIndex (ls : List Link) (src dst : String) : Option Nat :=
  match ls with
  | [] => none
  | l :: r => if l.src = src ∧ l.dst = dst then some 0 else (linkIndex r src dst).map (· + 1)

def Sim.updChan (s : Sim) (li : Nat) (f : ChanRt → ChanRt) : Sim := { s with chans := updAt f li s.chans }

/-- the emission counter of the harness -/
def Sim.bump (s : Sim) : Sim := { s with serial := s.serial + 1 }

/-- the message of the next emission; `buf_send_at`: `msg.header.sender_module_id = current().id()` -/
def mkMsg (s : Sim) (mi : Nat) (kind ttl : Nat) : Msg :=
  ⟨kind, ttl - 1, s.serial + 1, (s.mods[mi]?).map (·.id)⟩

/-- at most this many shutdowns per module and run (scripts must terminate; the harness counts `reset` calls) -/
def maxInc : Nat := 2

/-- `current().shutdown()` / `shutdow_and_restart_in(d)`: only `shutdown_task` is written; the module stays
    active until `buf_process` looks at it after the event -/
def requestShutdown (s : Sim) (mi : Nat) (path who : String) (d : Option Nat) : Sim :=
  match s.mods[mi]? with
  | none => s
  | some m =>
    if m.inc < maxInc then
      (s.log path "shutdown" who "-" (match d with | none => [0] | some d => [1, d])).updMod mi
        (fun m => { m with shutdownReq := some (d.map (s.now + ·)) })
    else s

/-- where a channel or a gate chain puts its events: straight into the event set (the code runs inside a kernel
    event: `ChannelUnbusyNotif`, `MessageExitingConnection`) or onto `BUF_CTX.events` (inside a module event) -/
def Sim.emit (s : Sim) (direct : Bool) (ev : KEvent) (t : Nat) : Sim :=
  if direct then s.schedule ev t else s.push ev t

/-- `Channel::send_message` on an idle channel: the probe fires (the harness logs `xmit`), the jitter is drawn (only
    if the metric has one), the exit event is scheduled, and — if the transmission takes time — the channel becomes
    busy and schedules its `ChannelUnbusyNotif` -/
def startTx (s : Sim) (li : Nat) (src dst : String) (lat jit tx : Nat) (m : Msg) (di : Nat) (direct : Bool) : Sim :=
  let s1 := s.log "-" "xmit" src dst [m.serial]
  let s2 := if jit = 0 then s1 else s1.pop.2
  let j := if jit = 0 then 0 else s1.pop.1
  let s3 := s2.emit direct (.exitConn di m) (s.now + lat + tx + j)
  if tx = 0 then s3
  else (s3.updChan li (fun c => { c with busy := true })).emit direct (.unbusy li) (s.now + tx)

/-- `Channel::send_message`: a busy channel queues the message (policy `Queue(None)`), an idle one starts the
    transmission; a link without channel delivers at once -/
def transmit (net : Net) (s : Sim) (li : Nat) (m : Msg) (di : Nat) (direct : Bool) : Sim :=
  match net.links[li]?, s.chans[li]? with
  | some l, some c =>
    match l.chan with
    | none => s.emit direct (.deliver di m) s.now
    | some (lat, jit, tx) =>
      if c.busy then s.updChan li (fun c => { c with queue := c.queue ++ [(m, di)] })
      else startTx s li l.src l.dst lat jit tx m di direct
  | _, _ => s

/-- a message leaves its sender through link `li` (`MessageExitingConnection::handle_with_sink` starting at the
    sender's gate): dropped if the gate's owner is not active -/
def sendVia (net : Net) (s : Sim) (mi li : Nat) (m : Msg) (direct : Bool) : Sim :=
  match s.mods[mi]?, net.links[li]? with
  | some sender, some l =>
    if sender.active then
      match modIndex s.mods l.dst with
      | some di => transmit net s li m di direct
      | none => s
    else s
  | _, _ => s

/-- `Semaphore::add_permits(1)`: the first waiter gets the permit and is woken (we are inside the runtime: the
    task goes to the local run queue), else the permit is stored -/
def signalSem (m : ModRt) (name : String) : ModRt :=
  match m.sems.find? (fun x => x.1 = name) with
  | none => { m with sems := m.sems ++ [(name, 1, [])] }
  | some (_, k, []) => { m with sems := m.sems.map (fun x => if x.1 = name then (name, k + 1, []) else x) }
  | some (_, k, w :: r) =>
    { m with sems := m.sems.map (fun x => if x.1 = name then (name, k, r) else x),
             tasks := updAt (fun t => { t with wait := .waiting name true }) w m.tasks,
             localq := m.localq ++ [w] }

/-- the steps that handlers and tasks share (`step_sync` of the harness) -/
def stepSync (net : Net) (s : Sim) (mi : Nat) (path : String) (ttl : Nat) (who : String) : Step → Sim
  | .draw => (s.pop.2).log path "draw" who "-" [s.pop.1]
  | .draw32 => (s.pop.2).log path "draw32" who "-" [s.pop.1]
  | .send dst kind d =>
    if ttl = 0 then s else
    match linkIndex net.links path dst with
    | some li =>
      let s1 := s.bump.log path "send" who dst [kind, ttl - 1, s.serial + 1, d]
      -- `buf_send_at`: a delayed send buffers the exit from the sender's gate, an undelayed one walks the gate
      -- chain (and the channel) at once
      if d = 0 then sendVia net s1 mi li (mkMsg s mi kind ttl) false
      else s1.push (.leave mi li (mkMsg s mi kind ttl)) (s.now + d)
    | none => s
  | .sched d kind =>
    if ttl = 0 then s else
    -- `buf_schedule_at` leaves `sender_module_id` at `ModuleId::NULL`
    (s.bump.log path "sched" who "-" [kind, ttl - 1, s.serial + 1, d]).push
      (.deliver mi ⟨kind, ttl - 1, s.serial + 1, none⟩) (s.now + d)
  | .schedr kind =>
    -- the delay is decided by a draw: who draws which value decides the order of the deliveries
    let x := s.pop.1
    let s := (s.pop.2).log path "draw" who "-" [x]
    if ttl = 0 then s else
    (s.bump.log path "sched" who "-" [kind, ttl - 1, s.serial + 1, x % 8]).push
      (.deliver mi ⟨kind, ttl - 1, s.serial + 1, none⟩) (s.now + x % 8)
  | .spin _ _ _ => s
  | .spun _ _ _ => s
  | .spawn _ => s
  | .sleep _ => s
  | .sel _ => s
  | .shut => requestShutdown s mi path who none
  | .restart d => requestShutdown s mi path who (some d)
  | .sig name => (s.log path "sig" who "-" []).updMod mi (fun m => signalSem m name)
  | .wait _ => s

def findTask (ts : List (String × List Step)) (tag : String) : Option (List Step) :=
  (ts.find? (fun t => t.1 = tag)).map (·.2)

/-- `tokio::spawn` inside the handler: the task goes to the runtime's local queue -/
def spawnTask (m : ModRt) (tag : String) (ttl : Nat) (prog : List Step) : ModRt :=
  { m with tasks := m.tasks ++ [⟨tag, ttl, prog, .run⟩], localq := m.localq ++ [m.tasks.length] }

def runHandler (net : Net) (s : Sim) (mi : Nat) (path : String) (ttl : Nat) : List Step → Sim
  | [] => s
  | .spawn tag :: r =>
    match findTask net.tasks tag with
    | some prog => runHandler net (s.updMod mi (fun m => spawnTask m tag ttl prog)) mi path ttl r
    | none => runHandler net s mi path ttl r
  | st :: r => runHandler net (stepSync net s mi path ttl "H" st) mi path ttl r

def findRule (rs : List (String × On × List Step)) (path : String) (on : On) : List Step :=
  match rs.find? (fun r => r.1 = path ∧ r.2.1 = on) with
  | some r => r.2.2
  | none => []

/-! ### `select!` over sleeps -/

structure SelSt where
  pending : List Timer.Slot
  ss : List Sl
  polled : List Nat
  winner : Option Nat

/-- poll branch `b` (unless a branch already completed): `Sleep::poll` -/
def selBranch (now ti : Nat) (st : SelSt) (b : Nat) : SelSt :=
  match st.winner with
  | some _ => st
  | none =>
    match st.ss[b]? with
    | none => st
    | some sl =>
      let st := { st with polled := st.polled ++ [b] }
      if now < sl.deadline then
        if sl.reg then st
        else { st with pending := Timer.add st.pending ⟨sl.id, ti⟩ sl.deadline,
                       ss := updAt (fun x => { x with reg := true }) b st.ss }
      else { st with winner := some b }

/-- the branches in polling order: `(start + i) % BRANCHES` -/
def selOrder (n start : Nat) : List Nat := (List.range n).map (fun i => (start + i) % n)

/-- dropping the futures of a finished `select!` (tuple order): an unresolved handle removes its
    entry from its slot by sleep id -/
def dropSleeps (pending : List Timer.Slot) (winner : Nat) : Nat → List Sl → List Timer.Slot
  | _, [] => pending
  | i, sl :: r =>
    let p := if sl.reg ∧ i ≠ winner then Timer.removeEntry pending sl.deadline sl.id else pending
    dropSleeps p winner (i + 1) r

/-- one poll of the `select!` of task `ti`: start index from the stream, branches in rotated order -/
def selPoll (s : Sim) (mi : Nat) (path tag : String) (ti : Nat) (ss : List Sl) : Sim × List Sl × Option Nat :=
  let r := s.pop
  let s := r.2
  match s.mods[mi]? with
  | none => (s, ss, none)
  | some m =>
    let st := (selOrder ss.length (r.1 % ss.length)).foldl (selBranch s.now ti) ⟨m.pending, ss, [], none⟩
    let s := s.log path "sp" tag "-" st.polled
    match st.winner with
    | none => (s.updMod mi (fun m => { m with pending := st.pending }), st.ss, none)
    | some w =>
      let p := dropSleeps st.pending w 0 st.ss
      ((s.updMod mi (fun m => { m with pending := p })).log path "sel" tag "-" [w], st.ss, some w)

/-- the `Sleep`s of a `select!`, created in branch order -/
def mkSleeps (a : Ambient) (now next : Nat) : List Nat → List Sl
  | [] => []
  | d :: r => ⟨a.sleepId next, now + d, false⟩ :: mkSleeps a now (next + 1) r

/-- `n` calls of `Sleep::new` -/
def Sim.allocSleep (s : Sim) (n : Nat) : Sim := { s with nextSleep := s.nextSleep + n }

/-- the task blocks in `sleep(..).await`: first poll of the `Sleep` registers it with the timer queue -/
def regSleep (m : ModRt) (ti : Nat) (r : List Step) (sid deadline : Nat) : ModRt :=
  { m.updTask ti (fun t => { t with prog := r, wait := .sleeping ⟨sid, deadline, true⟩ }) with
    pending := Timer.add m.pending ⟨sid, ti⟩ deadline }

/-- the task blocks in a `select!` -/
def setSelecting (m : ModRt) (ti : Nat) (r : List Step) (ss : List Sl) : ModRt :=
  m.updTask ti (fun t => { t with prog := r, wait := .selecting ss })

def finishTask (m : ModRt) (ti : Nat) : ModRt :=
  m.updTask ti (fun t => { t with prog := [], wait := .run })

/-- free permits of semaphore `name` of a module -/
def semPermits (m : ModRt) (name : String) : Nat :=
  match m.sems.find? (fun x => x.1 = name) with
  | some (_, k, _) => k
  | none => 0

/-- `acquire()` finds a free permit -/
def takePermit (m : ModRt) (name : String) : ModRt :=
  { m with sems := m.sems.map (fun x => if x.1 = name then (x.1, x.2.1 - 1, x.2.2) else x) }

/-- `acquire()` finds none: the task joins the semaphore's wait list -/
def enqueueWaiter (m : ModRt) (ti : Nat) (r : List Step) (name : String) : ModRt :=
  let m := m.updTask ti (fun t => { t with prog := r, wait := .waiting name false })
  match m.sems.find? (fun x => x.1 = name) with
  | none => { m with sems := m.sems ++ [(name, 0, [ti])] }
  | some _ => { m with sems := m.sems.map (fun x => if x.1 = name then (x.1, x.2.1, x.2.2 ++ [ti]) else x) }

/-- `yield_now().await`: the task's waker is deferred until the end of the turn; `left` more iterations after this one -/
def yieldTask (m : ModRt) (ti : Nat) (r : List Step) (left total every : Nat) : ModRt :=
  { m.updTask ti (fun t => { t with prog := .spun left total every :: r, wait := .run }) with deferq := m.deferq ++ [ti] }

/-- the body of the spin loop after the `i`-th yield (`i = total - left`): a draw on every `every`-th iteration -/
def spinDraw (s : Sim) (path tag : String) (left total every : Nat) : Sim :=
  if (total - left) % every = 0 then (s.pop.2).log path "draw" tag "-" [s.pop.1] else s

/-- run task `ti` from `prog` on until it blocks -/
def runTask (net : Net) (a : Ambient) (mi : Nat) (path tag : String) (ti ttl : Nat) : Sim → List Step → Sim
  | s, [] => s.updMod mi (fun m => finishTask m ti)
  | s, .sleep d :: r =>
    if d = 0 then runTask net a mi path tag ti ttl ((s.allocSleep 1).log path "woke" tag "-" []) r
    else (s.allocSleep 1).updMod mi (fun m => regSleep m ti r (a.sleepId s.nextSleep) (s.now + d))
  | s, .sel ds :: r =>
    match selPoll (s.allocSleep ds.length) mi path tag ti (mkSleeps a s.now s.nextSleep ds) with
    | (s, _, some _) => runTask net a mi path tag ti ttl s r
    | (s, ss, none) => s.updMod mi (fun m => setSelecting m ti r ss)
  | s, .spin left total every :: r =>
    match left with
    | 0 => runTask net a mi path tag ti ttl s r
    | k + 1 => s.updMod mi (fun m => yieldTask m ti r k total every)
  | s, .spun left total every :: r =>
    match left with
    | 0 => runTask net a mi path tag ti ttl (spinDraw s path tag 0 total every) r
    | k + 1 => (spinDraw s path tag (k + 1) total every).updMod mi (fun m => yieldTask m ti r k total every)
  | s, .wait name :: r =>
    match s.mods[mi]? with
    | none => s
    | some m =>
      if semPermits m name = 0 then s.updMod mi (fun m => enqueueWaiter m ti r name)
      else runTask net a mi path tag ti ttl ((s.updMod mi (fun m => takePermit m name)).log path "got" tag "-" []) r
  | s, .spawn _ :: r => runTask net a mi path tag ti ttl s r
  | s, st :: r => runTask net a mi path tag ti ttl (stepSync net s mi path ttl tag st) r

/-- the scheduler polls task `ti` -/
def pollTask (net : Net) (a : Ambient) (s : Sim) (mi : Nat) (path : String) (ti : Nat) : Sim :=
  match (s.mods[mi]?).bind (·.tasks[ti]?) with
  | none => s
  | some t =>
    match t.wait with
    | .run => runTask net a mi path t.tag ti t.ttl s t.prog
    | .sleeping sl =>
      if s.now < sl.deadline then s
      else runTask net a mi path t.tag ti t.ttl (s.log path "woke" t.tag "-" []) t.prog
    | .selecting ss =>
      match selPoll s mi path t.tag ti ss with
      | (s, _, some _) => runTask net a mi path t.tag ti t.ttl s t.prog
      | (s, ss, none) => s.updMod mi (fun m => setSelecting m ti t.prog ss)
    | .waiting _ granted =>
      -- woken by `add_permits`: the permit is already assigned
      if granted then runTask net a mi path t.tag ti t.ttl (s.log path "got" t.tag "-" []) t.prog else s

/-- `Core::next_task`: local queue first, except on every 31st tick -/
def nextTask (tick : Nat) (localq inject : List Nat) : Option (Nat × List Nat × List Nat) :=
  if tick % 31 = 0 then
    match inject, localq with
    | t :: r, l => some (t, l, r)
    | [], t :: r => some (t, r, [])
    | [], [] => none
  else
    match localq, inject with
    | t :: r, i => some (t, r, i)
    | [], t :: r => some (t, [], r)
    | [], [] => none

/-- the loop of `CoreGuard::block_on` after the handler ran: one tick per iteration; the tick that finds no task
    ends the turn: `park_yield` wakes the deferred wakers (tasks that yielded) newest first — they are queued again
    and `Harness::exec` starts another turn — and when nothing was deferred the event's tokio work is done -/
def schedLoop (net : Net) (a : Ambient) (mi : Nat) (path : String) : Nat → Sim → Sim
  | 0, s => s
  | fuel + 1, s =>
    match s.mods[mi]? with
    | none => s
    | some m =>
      match nextTask (m.tick + 1) m.localq m.inject with
      | none =>
        match m.deferq with
        | [] => s.updMod mi (fun m => { m with tick := m.tick + 1 })
        | _ :: _ =>
          schedLoop net a mi path fuel
            (s.updMod mi (fun m => { m with tick := m.tick + 1, localq := m.deferq.reverse, deferq := [] }))
      | some (t, l, i) =>
        schedLoop net a mi path fuel
          (pollTask net a (s.updMod mi (fun m => { m with tick := m.tick + 1, localq := l, inject := i })) mi path t)

def dedup : List Nat → List Nat
  | [] => []
  | x :: r => x :: (dedup r).filter (· ≠ x)

/-- `ModuleRef::activate`: bump the timer queue, forget a reached `next_wakeup`, wake the due slots
    (a task is notified once however many of its entries fire) -/
def activate (now : Nat) (m : ModRt) : ModRt :=
  let b := Timer.bump now m.pending
  { m with pending := b.2,
           nextWakeup := (match m.nextWakeup with
                          | some t => if t ≤ now then none else some t
                          | none => none),
           inject := m.inject ++ dedup ((b.1.flatMap (·.entries)).map (·.tid)) }

def timerNext (skipEmpty : Bool) (p : List Timer.Slot) : Option Nat :=
  if skipEmpty then Timer.next p else Timer.nextOrig p

/-- `ModuleRef::deactivate`: the wake-up to schedule, if any -/
def wakeTime (skipEmpty : Bool) (m : ModRt) : Option Nat :=
  match timerNext skipEmpty m.pending with
  | some n =>
    match m.nextWakeup with
    | some t => if n < t then some n else none
    | none => some n
  | none => none

inductive Callback
  | start
  | message (m : Msg)
  | wakeup
  | end_
  | restart                      -- `module_restart`: `active = true`, then the start stage again
deriving Repr

/-- the handler callback of the event -/
def runCallback (net : Net) (s : Sim) (mi : Nat) (m : ModRt) : Callback → Sim
  | .start => runHandler net (s.log m.path "start" "H" "-" []) mi m.path m.ttl0 (findRule net.rules m.path .start)
  | .message msg =>
    runHandler net (s.log m.path "msg" "H" (senderPath s.mods msg.sender) [msg.kind, msg.ttl, msg.serial])
      mi m.path msg.ttl (findRule net.rules m.path (.msg msg.kind))
  | .wakeup => s
  | .end_ => runHandler net (s.log m.path "end" "H" "-" []) mi m.path m.ttl0 (findRule net.rules m.path .end_)
  | .restart => runHandler net (s.log m.path "start" "H" "-" []) mi m.path m.ttl0 (findRule net.rules m.path .start)

/-- `buf_process`: flush `BUF_CTX.events` through `Runtime::add_event`, in push order -/
def Sim.flush (s : Sim) : Sim :=
  s.buf.foldl (fun s p => s.schedule p.1 p.2) { s with buf := [] }

/-- ghost: remember the seed that a tokio runtime of module `path` is built with — the element that the `pop`
    just took from the front of the stream of `before` (nothing is recorded when the stream is exhausted) -/
def Sim.recordSeed (s : Sim) (path : String) (before : Sim) : Sim :=
  { s with seeds := s.seeds ++ (before.stream.head?.toList.map (fun x => (path, x))) }

/-- `Harness::exec` -> `Rt::current`: the first event of a module builds its tokio runtime, whose
    `RngSeed` is one draw from the global RNG -/
def seedStage (s : Sim) (mi : Nat) (path : String) (seeded : Bool) : Sim :=
  if seeded then s else ((s.pop.2).recordSeed path s).updMod mi (fun m => { m with seeded := true })

/-- scheduler iterations a step can cause -/
def Step.weight : Step → Nat
  | .spin left _ _ => 2 * left + 3
  | .spun left _ _ => 2 * left + 3
  | _ => 1

/-- queued tasks + 1 (the tick that finds nothing) -/
def execFuel (s : Sim) (mi : Nat) : Nat :=
  match s.mods[mi]? with
  | some m =>
    -- queued tasks + 1 (the tick that finds nothing) + the polls that `sig` steps of running tasks can cause
    -- + two iterations (a poll and the tick that ends the turn) per `yield_now` still to come
    m.localq.length + m.inject.length + m.deferq.length + 2
      + (m.tasks.map (fun t => (t.prog.map Step.weight).sum)).sum
  | none => 0

/-- `ModuleRef::deactivate`: schedule the wake-up (straight into the event set, before the flush) -/
def deactivate (skipEmpty : Bool) (s : Sim) (mi : Nat) : Sim :=
  match s.mods[mi]? with
  | none => s
  | some m =>
    match wakeTime skipEmpty m with
    | some t => (s.updMod mi (fun m => { m with nextWakeup := some t })).schedule (.wakeup mi) t
    | none => s

def TaskRt.finished (t : TaskRt) : Bool :=
  match t.prog, t.wait with
  | [], .run => true
  | _, _ => false

/-- dropping a task drops its `Sleep`s: every registered one removes its entry from its slot, by sleep id -/
def dropWait (p : List Timer.Slot) : Wait → List Timer.Slot
  | .run => p
  | .sleeping sl => if sl.reg then Timer.removeEntry p sl.deadline sl.id else p
  | .selecting ss => ss.foldl (fun p sl => if sl.reg then Timer.removeEntry p sl.deadline sl.id else p) p
  | .waiting _ _ => p

/-- `Rt::shutdown`: the module's tokio runtime is dropped and with it all its tasks (in an order that is the
    subject of finding F-C04a; the resulting state does not depend on it); a fresh `Core` starts at tick 0 -/
def killTasks (m : ModRt) : ModRt :=
  { m with pending := m.tasks.foldl (fun p t => dropWait p t.wait) m.pending,
           tasks := m.tasks.map (fun t => { t with prog := [], wait := .run }),
           sems := m.sems.map (fun x => (x.1, x.2.1, [])),     -- a dropped `Acquire` leaves the wait list
           deferq := [],
           localq := [], inject := [], tick := 0 }

def unfinishedTags (m : ModRt) : List (String × String) :=
  (m.tasks.filter (fun t => !t.finished)).map (fun t => (m.path, t.tag))

def Sim.addDropped (s : Sim) (l : List (String × String)) : Sim := { s with dropped := s.dropped ++ l }

/-- the module side of a shutdown: `active = false`, the runtime and its tasks dropped, then `module.activate()` -/
def shutMod (now : Nat) (m : ModRt) : ModRt :=
  activate now { killTasks m with shutdownReq := none, active := false, inc := m.inc + 1 }

/-- `ModuleRef::reset` = `AsyncCoreExt::reset` builds the runtime of the next incarnation with a seed drawn from the
    simulation's RNG right here, then `Harness::exec(handler.reset())` runs on it (the harness logs `reset`);
    then `module.deactivate(rt)` -/
def resetStage (net : Net) (a : Ambient) (s : Sim) (mi : Nat) (path : String) : Sim :=
  let s1 := ((s.pop.2).recordSeed path s).log path "reset" "H" "-" []
  deactivate net.skipEmpty (schedLoop net a mi path (execFuel s1 mi) s1) mi

/-- the second half of `buf_process`: a requested shutdown, and the `ModuleRestartEvent` if one was asked for -/
def processShutdown (net : Net) (a : Ambient) (s : Sim) (mi : Nat) : Sim :=
  match s.mods[mi]? with
  | none => s
  | some m =>
    match m.shutdownReq with
    | none => s
    | some restart =>
      let s1 := resetStage net a ((s.addDropped (unfinishedTags m)).updMod mi (shutMod s.now)) mi m.path
      match restart with
      | some t => s1.schedule (.restart mi) t
      | none => s1

/-- does the event run module code?  `handle_message` / `async_wakeup` check `active`; `at_sim_start`,
    `at_sim_end` and `module_restart` do not -/
def Callback.runs (active : Bool) : Callback → Bool
  | .message _ => active
  | .wakeup => active
  | _ => true

/-- `module.activate()`; a `ModuleRestartEvent` then sets `active` (`module_restart`) -/
def wakeStage (s : Sim) (mi : Nat) : Callback → Sim
  | .restart => (s.updMod mi (activate s.now)).updMod mi (fun m => { m with active := true })
  | _ => s.updMod mi (activate s.now)

/-- `Harness::exec` of the event, if the module runs code for it: tokio runtime (first event), callback, tasks -/
def execStage (net : Net) (a : Ambient) (s : Sim) (mi : Nat) (m0 : ModRt) (cb : Callback) : Sim :=
  if cb.runs m0.active then
    let s2 := runCallback net (seedStage s mi m0.path m0.seeded) mi m0 cb
    schedLoop net a mi m0.path (execFuel s2 mi) s2
  else s

/-- `module.activate(); module.<event>(); module.deactivate(rt); buf_process(module, rt)`
    (`flush = false` for `at_sim_end`, which does not call `buf_process`) -/
def moduleEvent (net : Net) (a : Ambient) (s : Sim) (mi : Nat) (cb : Callback) (flush : Bool) : Sim :=
  match s.mods[mi]? with
  | none => { s with fault := some "no-such-module" }
  | some m0 =>
    let s4 := deactivate net.skipEmpty (execStage net a (wakeStage s mi cb) mi m0 cb) mi
    if flush then processShutdown net a s4.flush mi else s4

def Sim.setFes (s : Sim) (f : FES.State) : Sim := { s with fes := f }

/-- the loop of `Channel::unbusy`: start queued messages until the channel is busy again or the buffer is empty -/
def drain (net : Net) (li : Nat) : Nat → Sim → Sim
  | 0, s => s
  | fuel + 1, s =>
    match s.chans[li]? with
    | none => s
    | some c =>
      if c.busy then s
      else
        match c.queue with
        | [] => s
        | (m, di) :: r => drain net li fuel (transmit net (s.updChan li (fun c => { c with queue := r })) li m di true)

/-- `ChannelUnbusyNotif` -> `Channel::unbusy` (fuel = queued messages + 1) -/
def unbusy (net : Net) (s : Sim) (li : Nat) : Sim :=
  drain net li (((s.chans[li]?).map (·.queue.length)).getD 0 + 1) (s.updChan li (fun c => { c with busy := false }))

/-- `NetEvents::handle` -/
def dispatch (net : Net) (a : Ambient) (s : Sim) : Option KEvent → Sim
  | none => { s with fault := some "no-such-event" }
  | some (KEvent.deliver mi m) => moduleEvent net a s mi (.message m) true
  | some (KEvent.wakeup mi) => moduleEvent net a s mi .wakeup true
  | some (KEvent.restart mi) => moduleEvent net a s mi .restart true
  | some (KEvent.exitConn mi m) => s.schedule (.deliver mi m) s.now
  | some (KEvent.leave mi li m) => sendVia net s mi li m true
  | some (KEvent.unbusy li) => unbusy net s li

/-- `Runtime::dispatch_event`: the next event is the one the abstract event set (C01/C03) yields;
    `none` when the future event set is empty -/
def step (net : Net) (a : Ambient) (s : Sim) : Option Sim :=
  match FES.fetch s.fes with
  | .error _ => none
  | .ok (e, f) => some (dispatch net a (s.setFes f) (s.evs[e.val]?))

/-- `dispatch_all`, for at most `fuel` events; returns the number of dispatched events too -/
def loop (net : Net) (a : Ambient) : Nat → Sim → Nat → Sim × Nat
  | 0, s, n => (if FES.len s.fes = 0 then s else { s with fault := some "out-of-fuel" }, n)
  | fuel + 1, s, n =>
    match s.fault with
    | some _ => (s, n)
    | none =>
      match step net a s with
      | none => (s, n)
      | some s' => loop net a fuel s' (n + 1)

/-- `SimLifecycle::at_sim_start` (every module has one stage) -/
def simStart (net : Net) (a : Ambient) (s : Sim) : Sim :=
  (List.range s.mods.length).foldl (fun s mi => moduleEvent net a s mi .start true) s

/-- `SimLifecycle::at_sim_end` -/
def simEnd (net : Net) (a : Ambient) (s : Sim) : Sim :=
  (List.range s.mods.length).foldl (fun s mi => moduleEvent net a s mi .end_ false) s

/-- `Sim::new` + `node` per module (ids from `MODULE_ID`) + `Builder::seeded(seed).build`: clock 0,
    event ids from 0, the seeded stream installed -/
def init (net : Net) (a : Ambient) (stream : List Nat) : Sim :=
  { mods := net.mods.map (fun m => { path := m.path, id := a.modId m.cidx, ttl0 := m.ttl }),
    fes := FES.init, evs := [], buf := [], stream := stream, serial := 0, nextSleep := 0,
    trace := [], fault := none, chans := net.links.map (fun _ => {}), dropped := [], seeds := [] }

structure Result where
  trace : List Obs          -- oldest first
  time : Nat
  events : Nat
  left : Nat                -- events still in the event set after `at_sim_end`
  fault : Option String
  rest : List Nat           -- unused part of the stream
  sleeps : Nat              -- sleep ids consumed
  unfinished : List (String × String)   -- (module path, task tag) of the tasks that did not run to their end
  seeds : List (String × Nat)           -- the tokio `RngSeed`s, per runtime built
deriving Repr

/-- `Runtime::run` from a built simulation `s0`: start phase, main loop, end phase -/
def finalSimFrom (net : Net) (a : Ambient) (fuel : Nat) (s0 : Sim) : Sim × Nat :=
  let r := loop net a fuel (simStart net a s0) 0
  match r.1.fault with
  | some _ => r
  | none => (simEnd net a r.1, r.2)

def finalSim (net : Net) (a : Ambient) (stream : List Nat) (fuel : Nat) : Sim × Nat :=
  finalSimFrom net a fuel (init net a stream)

def unfinishedOf (ms : List ModRt) : List (String × String) :=
  ms.flatMap (fun m => (m.tasks.filter (fun t => !t.finished)).map (fun t => (m.path, t.tag)))

def resultOf (r : Sim × Nat) : Result :=
  { trace := r.1.trace.reverse, time := r.1.now, events := r.2, left := FES.len r.1.fes,
    fault := r.1.fault, rest := r.1.stream, sleeps := r.1.nextSleep,
    unfinished := r.1.dropped ++ unfinishedOf r.1.mods, seeds := r.1.seeds }

/-- `Runtime::run` -/
def run (net : Net) (a : Ambient) (stream : List Nat) (fuel : Nat) : Result :=
  resultOf (finalSim net a stream fuel)

/-! ### what a simulation leaves behind in the process, and what the next one makes of it

Every process-wide static of des: `BUF_CTX` (`events`: emissions that were never flushed — everything a module or
a task emits during `at_sim_end`, because `SimLifecycle::at_sim_end` does not call `buf_process`; `globals`),
`MOD_CTX`, the clock `SIMTIME`, the generator `RNG`, the counters `MODULE_ID` / `SLEEP_ID`.  (tokio's thread-local
context RNG is re-seeded from the runtime's seed generator on every `block_on` / `enter`, so nothing of it survives.) -/

structure Globals where
  buf : List (KEvent × Nat)      -- `BUF_CTX.events`
  bufGlobals : Bool              -- `BUF_CTX.globals.is_some()`
  modCtx : Option Nat            -- `MOD_CTX`
  clock : Nat                    -- `SIMTIME`
  rng : Option (List Nat)        -- `RNG`
  modIds : Nat                   -- how far `MODULE_ID` has counted
  sleepIds : Nat                 -- how far `SLEEP_ID` has counted

/-- a fresh process -/
def Globals.fresh : Globals := ⟨[], false, none, 0, none, 0, 0⟩

/-- the process after `Runtime::run` returned the simulation in state `s` (built on top of `g`), before it is dropped -/
def Globals.afterRun (g : Globals) (net : Net) (s : Sim) : Globals :=
  { buf := s.buf, bufGlobals := true, modCtx := none, clock := s.now, rng := some s.stream,
    modIds := g.modIds + net.mods.length, sleepIds := g.sleepIds + s.nextSleep }

/-- dropping the `Sim`: `SimStaticsGuard::drop` = `buf_drop()` (`*ctx = BufferContext::new()`) + `module_ctx_drop()` -/
def Globals.simDropped (g : Globals) : Globals := { g with buf := [], bufGlobals := false, modCtx := none }

/-- `Sim::new` -> `SimStaticsGuard::new` -> `buf_init`: link the globals, reset `MOD_CTX`, reset the clock -/
def Globals.simNew (g : Globals) : Globals := { g with bufGlobals := true, modCtx := none, clock := 0 }

/-- `Builder::seeded(seed).build`: `SimTime::set_now(start_time)`, install the RNG -/
def Globals.built (g : Globals) (stream : List Nat) : Globals := { g with clock := 0, rng := some stream }

/-- the simulation that is built in a process whose previous simulation left `g` (and has been dropped: a second
    `Sim::new` blocks on the statics guard until then): module ids continue the counter, the emission buffer, the
    clock and the generator are what `simDropped`, `simNew` and `built` make of the leftovers -/
def initFrom (g : Globals) (net : Net) (a : Ambient) (stream : List Nat) : Sim :=
  let g' := (g.simDropped.simNew).built stream
  { init net (a.after g.modIds g.sleepIds) stream with
    buf := g'.buf, fes := { FES.init with cur := g'.clock }, stream := g'.rng.getD [] }

/-- `Runtime::run` of a simulation built on the leftovers `g`; its sleeps continue `SLEEP_ID` -/
def runFrom (g : Globals) (net : Net) (a : Ambient) (stream : List Nat) (fuel : Nat) : Result :=
  resultOf (finalSimFrom net (a.after g.modIds g.sleepIds) fuel (initFrom g net a stream))

/-- the seeded defect C04-r2-1 as a model variant: `buf_drop` keeps `BUF_CTX.events` -/
def initFromKeepingBuffer (g : Globals) (net : Net) (a : Ambient) (stream : List Nat) : Sim :=
  { init net (a.after g.modIds g.sleepIds) stream with buf := g.buf }

/-! ### module-tree order (`ModuleTree::add`), on paths; used to build `Net.mods` -/

def rposition {α : Type} (f : α → Bool) : List α → Option Nat
  | [] => none
  | x :: xs =>
    match rposition f xs with
    | some i => some (i + 1)
    | none => if f x then some 0 else none

def depth (path : String) : Nat := (path.splitOn ".").length

def parentPath (path : String) : Option String :=
  match (path.splitOn ".").reverse with
  | _ :: r@(_ :: _) => some (".".intercalate r.reverse)
  | _ => none

def skipLen (d : Nat) : List ModSpec → Nat
  | [] => 0
  | m :: rest => if depth m.path > d then skipLen d rest + 1 else 0

/-- `ModuleTree::add` (the builder has checked that the parent exists) -/
def treeAdd (ms : List ModSpec) (m : ModSpec) : List ModSpec :=
  match parentPath m.path with
  | none => ms ++ [m]
  | some par =>
    match rposition (fun x => x.path == par) ms with
    | none => ms ++ [m]
    | some i =>
      let pos := i + 1 + skipLen (depth par) (ms.drop (i + 1))
      ms.take pos ++ m :: ms.drop pos

/-- modules in creation order -> tree order, numbered by creation -/
def treeOrder (created : List (String × Nat)) : List ModSpec :=
  (created.zipIdx).foldl (fun ms x => treeAdd ms ⟨x.1.1, x.1.2, x.2⟩) []

end Repro

/-
Model of the module tree, the builder checks and the start-up / tear-down loops of
des/src/net/runtime/mod.rs:

* `ModuleTree::get` / `ModuleTree::add`                (`get`, `add`)
* `SimBuilder::raw` (reached from `SimBuilder::node`)   (`raw`)
* `ModuleContext::standalone` / `child_of`: parent pointer + per-parent children map
* `ModuleContext::parent` / `child`                     (`lookupParent`, `lookupChild`)
* `SimLifecycle::at_sim_start` / `at_sim_end` loops     (`startCalls`, `endCalls`)

A module is identified by a model-side id (its creation index); `parent` is the weak parent
pointer, `kids` holds all the `children: HashMap<String, ModuleRef>` maps as
`(parent id, name, child id)` triples (insert replaces an entry with the same key).
-/
import Desverif.Model.ObjPath
namespace ModTree
open ObjPath

structure Mod where
  id : Nat
  path : Path
  stages : Nat             -- `Module::num_sim_start_stages`
  parent : Option Nat      -- id behind `ModuleContext::parent`
deriving Repr, DecidableEq

inductive BErr
  | path (e : ObjPath.Err)   -- a panic inside an `ObjectPath` function
  | dup                      -- "cannot create node '..', node allready exists"
  | noParent                 -- "cannot create node '..', since parent node '..' is required, but does not exist" (builder)
  | treeNoParent             -- the same panic raised by `ModuleTree::add`
  | insertOob                -- `Vec::insert` index out of bounds
deriving Repr, DecidableEq

/-- `ModuleTree::get`: first module with that path (`ObjectPath: PartialEq` compares all fields) -/
def get (ms : List Mod) (p : Path) : Option Mod := ms.find? (fun m => m.path == p)

/-- `Iterator::rposition` -/
def rposition {α : Type} (f : α → Bool) : List α → Option Nat
  | [] => none
  | x :: xs =>
    match rposition f xs with
    | some i => some (i + 1)
    | none => if f x then some 0 else none

/-- number of iterations of `while pos < len && modules[pos].path.len() > depth { pos += 1 }`,
    by recursion on the not-yet-visited suffix `modules[pos..]` -/
def skipLen (depth : Nat) : List Mod → Nat
  | [] => 0
  | m :: rest => if m.path.len > depth then skipLen depth rest + 1 else 0

/-- `ModuleTree::add` -/
def add (ms : List Mod) (m : Mod) : Except BErr (List Mod) :=
  match ObjPath.parent m.path with
  | .error e => .error (.path e)
  | .ok none => .ok (ms ++ [m])
  | .ok (some par) =>
    if isRoot par then .ok (ms ++ [m])
    else
      match rposition (fun x => x.path == par) ms with
      | none => .error .treeNoParent
      | some i =>
        let pos := i + 1 + skipLen par.len (ms.drop (i + 1))
        if pos ≤ ms.length then .ok (ms.take pos ++ m :: ms.drop pos) else .error .insertOob

structure Builder where
  mods : List Mod := []
  kids : List (Nat × List Nat × Nat) := []
  nextId : Nat := 0
deriving Repr

/-- `HashMap::insert` on the children map of module `pid` -/
def kidsInsert (kids : List (Nat × List Nat × Nat)) (pid : Nat) (nm : List Nat) (cid : Nat) :
    List (Nat × List Nat × Nat) :=
  (pid, nm, cid) :: kids.filter (fun k => !(k.1 == pid && k.2.1 == nm))

/-- `SimBuilder::raw(path, module)`; returns the new builder state and the panic, if any.
    (A panic leaves whatever was mutated before it.) -/
def raw (b : Builder) (path : Path) (stages : Nat) : Builder × Option BErr :=
  if (get b.mods path).isSome then (b, some .dup)
  else
    match nonzeroParent path with
    | .error e => (b, some (.path e))
    | .ok (some par) =>
      match get b.mods par with
      | none => (b, some .noParent)
      | some pm =>
        -- ModuleContext::child_of(path.name(), parent)
        match name path with
        | .error e => (b, some (.path e))
        | .ok nm =>
          match appended pm.path nm with
          | .error e => (b, some (.path e))
          | .ok cpath =>
            let m : Mod := ⟨b.nextId, cpath, stages, some pm.id⟩
            let b1 : Builder := { b with kids := kidsInsert b.kids pm.id nm b.nextId, nextId := b.nextId + 1 }
            match add b1.mods m with
            | .error e => (b1, some e)
            | .ok ms => ({ b1 with mods := ms }, none)
    | .ok none =>
      -- ModuleContext::standalone(path)
      let m : Mod := ⟨b.nextId, path, stages, none⟩
      let b1 : Builder := { b with nextId := b.nextId + 1 }
      match add b1.mods m with
      | .error e => (b1, some e)
      | .ok ms => ({ b1 with mods := ms }, none)

/-- `sim.node(path_str, module)` for a plain `Module` -/
def node (b : Builder) (pathStr : List Nat) (stages : Nat) : Builder × Option BErr :=
  raw b (fromStr pathStr) stages

def byId (b : Builder) (id : Nat) : Option Mod := b.mods.find? (fun m => m.id == id)

/-- `ModuleContext::parent()` (all modules are active and initialised at start-up) -/
def lookupParent (b : Builder) (m : Mod) : Option Mod := m.parent.bind (byId b)

/-- `ModuleContext::child(name)` -/
def lookupChild (b : Builder) (m : Mod) (nm : List Nat) : Option Mod :=
  (b.kids.find? (fun k => k.1 == m.id && k.2.1 == nm)).bind (fun k => byId b k.2.2)

/-! ### SimLifecycle -/

/-- `mods.iter().fold(1, |acc, m| acc.max(m.num_sim_start_stages()))` -/
def maxStage (ms : List Mod) : Nat := ms.foldl (fun acc m => max acc m.stages) 1

/-- inner loop of `at_sim_start` for one stage: `(module, stage)` calls in vector order -/
def stageCalls (ms : List Mod) (stage : Nat) : List (Mod × Nat) :=
  (ms.filter (fun m => stage < m.stages)).map (fun m => (m, stage))

/-- `SimLifecycle::at_sim_start`: `for stage in 0..max_stage { for module in mods { if stage < n … } }` -/
def startCalls (ms : List Mod) : List (Mod × Nat) :=
  (List.range (maxStage ms)).flatMap (stageCalls ms)

/-- `SimLifecycle::at_sim_end`: every module of the vector, in order -/
def endCalls (ms : List Mod) : List Mod := ms

/-- the errors collected by the `at_sim_end` loop,
    `for module in mods { let _ = module.at_sim_end().map_err(|e| error.merge(e)); … }`:
    every module is called whatever the earlier results were (`endCalls`), and the errors of all
    modules are merged in call order; `fails m` is the number of errors `m`'s callback returns -/
def endErrors (fails : Mod → Nat) (ms : List Mod) : List (Mod × Nat) :=
  ms.flatMap (fun m => (List.range (fails m)).map (fun i => (m, i)))

/-- `SimLifecycle::at_sim_end` returns `Ok(())` iff nothing was collected -/
def endOk (fails : Mod → Nat) (ms : List Mod) : Bool := (endErrors fails ms).isEmpty

/-! ### tear-down of the module tree (drop of `Sim` → `Globals` → `ModuleTree.modules`)

A `ModuleRef` is a pair of `Arc`s (`ctx`, `processing`); its clones live in the module vector and in
the parent's `children` map (`ModuleContext::child_of`); the parent pointer is weak.  Dropping the
last clone of a module first drops its `ModuleContext` (and with it its children map, i.e. one clone
of every child) and then its `Processor`, i.e. the user's module state.  `Vec` drops its elements
front to back. -/

structure DropSt where
  /-- live strong references per module id -/
  rc : Nat → Nat
  /-- module states dropped so far, in order -/
  out : List Nat

/-- number of `ModuleRef` clones of module `id` held by the tree -/
def refCount (b : Builder) (id : Nat) : Nat :=
  (b.mods.filter (fun m => m.id == id)).length + (b.kids.filter (fun k => k.2.2 == id)).length

/-- drop one clone of module `id` (fuel bounds the nesting of cascading drops) -/
def release (kids : List (Nat × List Nat × Nat)) : Nat → DropSt → Nat → DropSt
  | 0, st, _ => st
  | fuel + 1, st, id =>
    if st.rc id = 1 then
      -- last clone: drop the context (children map), then the module state
      let st1 : DropSt := { st with rc := fun x => if x = id then 0 else st.rc x }
      let st2 := (kids.filter (fun k => k.1 == id)).foldl (fun st k => release kids fuel st k.2.2) st1
      { st2 with out := st2.out ++ [id] }
    else { st with rc := fun x => if x = id then st.rc id - 1 else st.rc x }

/-- ids of the modules in the order in which their states are dropped when the tree is dropped -/
def teardown (b : Builder) : List Nat :=
  (b.mods.foldl (fun st m => release b.kids (b.mods.length + 1) st m.id) ⟨refCount b, []⟩).out

end ModTree

/-
Model of the network description language (NDL) front end of des:

* `des-net-utils/src/ndl/def.rs`   — the `Def` AST and the `FromStr` string grammar of type
  clauses (`A(T <- I)`), fields (`name[5]`) and connection endpoints (`sub[2]/gate[1]`)
* `des-net-utils/src/ndl/mod.rs`   — `transform`: required symbols, dependency ordering loop,
  `transform_module / submodule / connection`, `iter_for_kardinality_access`
* `des-net-utils/src/ndl/tree.rs`  — the elaborated tree and `Node::conform_to`
* `des/src/net/ndl/mod.rs`         — instantiation (`SimBuilderScoped::ndl`, `access_gate`,
  `Gate::connect`, `ChannelMetrics::from(&Link)`)

Strings are `List Char`.  Every Rust `assert!/expect/unwrap/index` that can fail is an explicit
`Fail.internal` (a panic).  Hash maps / hash sets are lists in iteration order; the theorems
quantify over every list, i.e. over every iteration order.  The model mirrors the code with the
three C18 repairs applied (patches/C18-*.diff).
-/
namespace Ndl

abbrev Str := List Char

/-! ## Errors -/

/-- `ErrorKind` of error.rs (only the kinds `transform` / instantiation can produce) -/
inductive Kind
  | symbolAlreadyDefined | unknownLink | unknownModule | unresolvableDependency
  | invalidGate | invalidSubmodule | unknownGateInConnection | unknownSubmoduleInConnection
  | connectionIndexOutOfBounds | unequalPeers | invalidTypStatement
  | assignedTypDoesNotConformToInterface | missingRegistrySymbol
deriving DecidableEq, Repr

/-- `Span` of error.rs -/
structure Span where
  module : Option Str := none
  submodule : Option Str := none
  gate : Option Str := none
  connection : Option Nat := none
deriving DecidableEq, Repr

inductive Fail
  /-- a Rust panic (`assert!`, `expect`, `unwrap`, index out of range, exhausted fuel) -/
  | internal (why : String)
  /-- `FromStr::from_str` returned `Err(String)` (surfaces as a serde error) -/
  | parse
  /-- `Err(Error { kind, span })`; `detail` = the payload of the kind, rendered with `Display` -/
  | err (kind : Kind) (detail : List Str) (span : Span)
deriving DecidableEq, Repr

def Fail.isInternal : Fail → Bool
  | .internal _ => true
  | _ => false

def Fail.mapSpan (f : Span → Span) : Fail → Fail
  | .err k d s => .err k d (f s)
  | e => e

/-- `result.map_err(|e| e.span_…(…))` -/
def mapErr {α : Type} (f : Span → Span) : Except Fail α → Except Fail α
  | .ok a => .ok a
  | .error e => .error (e.mapSpan f)

def kerr {α : Type} (k : Kind) (detail : List Str) : Except Fail α := .error (.err k detail {})

/-! ## String helpers (the `str` methods used by def.rs) -/

/-- Unicode `White_Space` (what `str::trim` removes) -/
def isWs (c : Char) : Bool :=
  let n := c.toNat
  (9 ≤ n && n ≤ 13) || n == 32 || n == 0x85 || n == 0xA0 || n == 0x1680 ||
  (0x2000 ≤ n && n ≤ 0x200A) || n == 0x2028 || n == 0x2029 || n == 0x202F || n == 0x205F ||
  n == 0x3000

def trimStart (s : Str) : Str := s.dropWhile isWs
def trimEnd (s : Str) : Str := (s.reverse.dropWhile isWs).reverse
/-- `str::trim` -/
def trim (s : Str) : Str := trimEnd (trimStart s)

/-- `str::ends_with(char)` -/
def endsWith (s : Str) (c : Char) : Bool := s.getLast? == some c

/-- `str::trim_end_matches(char)` -/
def trimEndMatches (s : Str) (c : Char) : Str := (s.reverse.dropWhile (· == c)).reverse

/-- `str::split_once(char)` -/
def splitOnce (c : Char) : Str → Option (Str × Str)
  | [] => none
  | x :: xs =>
    if x = c then some ([], xs)
    else match splitOnce c xs with
      | some (a, b) => some (x :: a, b)
      | none => none

/-- `str::split_once` with a two-character pattern (used with `"<-"`) -/
def splitOnce2 (a b : Char) : Str → Option (Str × Str)
  | [] => none
  | [_] => none
  | x :: y :: r =>
    if x = a ∧ y = b then some ([], r)
    else match splitOnce2 a b (y :: r) with
      | some (p, q) => some (x :: p, q)
      | none => none

/-- `str::split(char)`: always at least one piece -/
def splitChar (c : Char) : Str → List Str
  | [] => [[]]
  | x :: xs =>
    if x = c then [] :: splitChar c xs
    else match splitChar c xs with
      | p :: ps => (x :: p) :: ps
      | [] => [[x]]

/-- `str::split` with a two-character pattern (used with `", "`): leftmost, non-overlapping -/
def split2 (a b : Char) : Str → List Str
  | [] => [[]]
  | [x] => [[x]]
  | x :: y :: r =>
    if x = a ∧ y = b then [] :: split2 a b r
    else match split2 a b (y :: r) with
      | p :: ps => (x :: p) :: ps
      | [] => [[x]]

/-- `char::is_ascii_digit` -/
def isDigit (c : Char) : Bool := 48 ≤ c.toNat && c.toNat ≤ 57

/-- value of a digit string, most significant first -/
def digitsVal : Nat → Str → Nat
  | acc, [] => acc
  | acc, c :: cs => digitsVal (acc * 10 + (c.toNat - 48)) cs

/-- the optional leading `+` of an unsigned number -/
def stripPlus : Str → Str
  | '+' :: r => r
  | s => s

/-- `str::parse::<usize>()` on a 64-bit target: optional `+`, at least one ASCII digit,
    value below `2^64` -/
def parseUsize (s : Str) : Option Nat :=
  if (stripPlus s).isEmpty then none
  else if !(stripPlus s).all isDigit then none
  else if digitsVal 0 (stripPlus s) < 2 ^ 64 then some (digitsVal 0 (stripPlus s)) else none

/-- one decimal digit -/
def digitChar (n : Nat) : Char :=
  match n % 10 with
  | 0 => '0' | 1 => '1' | 2 => '2' | 3 => '3' | 4 => '4'
  | 5 => '5' | 6 => '6' | 7 => '7' | 8 => '8' | _ => '9'

def showNatAux : Nat → Nat → Str → Str
  | 0, _, acc => acc
  | fuel + 1, n, acc =>
    if n < 10 then digitChar n :: acc
    else showNatAux fuel (n / 10) (digitChar n :: acc)

/-- `Display for usize` -/
def showNat (n : Nat) : Str := showNatAux (n + 1) n []

/-! ## The `Def` AST (def.rs) -/

inductive Kard
  | atom
  | cluster (n : Nat)
deriving DecidableEq, Repr

def Kard.asSize : Kard → Nat
  | .atom => 1
  | .cluster n => n

structure FieldDef where
  ident : Str
  kard : Kard
deriving DecidableEq, Repr

abbrev GateDef := FieldDef

structure GenericsDef where
  binding : Str
  bound : Str
deriving DecidableEq, Repr

structure TypClause (α : Type) where
  ident : Str
  args : List α
deriving DecidableEq, Repr

structure EndpointDef where
  accessors : List FieldDef
deriving DecidableEq, Repr

structure ConnDef where
  lhs : EndpointDef
  rhs : EndpointDef
  link : Option Str
deriving DecidableEq, Repr

/-- `LinkDef`.  The `f64` seconds of `latency` / `jitter` are carried as integer milliseconds
    (what the harness writes as `k/1000`), `other["queuesize"]` as the parsed `i32`. -/
structure Link where
  latency : Int
  jitter : Int
  bitrate : Int
  queuesize : Option Int
deriving DecidableEq, Repr

structure ModuleDef where
  inherit : Option Str
  gates : List GateDef
  /-- `FxHashMap<FieldDef, TypClause<String>>` in iteration order -/
  submodules : List (FieldDef × TypClause Str)
  connections : List ConnDef
deriving DecidableEq, Repr

structure Def where
  entry : Str
  /-- `FxHashMap<TypClause<ModuleGenericsDef>, ModuleDef>` in iteration order -/
  modules : List (TypClause GenericsDef × ModuleDef)
  links : List (Str × Link)
deriving DecidableEq, Repr

/-! ## `Display` -/

def intercalate (sep : Str) : List Str → Str
  | [] => []
  | [x] => x
  | x :: y :: r => x ++ sep ++ intercalate sep (y :: r)

def FieldDef.display (f : FieldDef) : Str :=
  match f.kard with
  | .atom => f.ident
  | .cluster n => f.ident ++ ['['] ++ showNat n ++ [']']

def GenericsDef.display (g : GenericsDef) : Str := g.binding ++ " <- ".toList ++ g.bound

def TypClause.display {α : Type} (darg : α → Str) (t : TypClause α) : Str :=
  if t.args.isEmpty then t.ident
  else t.ident ++ ['('] ++ intercalate ", ".toList (t.args.map darg) ++ [')']

def EndpointDef.display (e : EndpointDef) : Str :=
  intercalate ['/'] (e.accessors.map FieldDef.display)

/-! ## `FromStr` -/

/-- `impl FromStr for FieldDef` -/
def parseField (s : Str) : Except Fail FieldDef :=
  if endsWith s ']' then
    match splitOnce '[' s with
    | none => .error .parse
    | some (ident, cluster) =>
      match parseUsize (trimEndMatches cluster ']') with
      | none => .error .parse
      | some n => .ok ⟨ident, .cluster n⟩
  else .ok ⟨s, .atom⟩

/-- `impl FromStr for ModuleGenericsDef` -/
def parseGenerics (s : Str) : Except Fail GenericsDef :=
  match splitOnce2 '<' '-' s with
  | none => .error .parse
  | some (binding, bound) => .ok ⟨trim binding, trim bound⟩

/-- `impl FromStr for String` -/
def parseStrArg (s : Str) : Except Fail Str := .ok s

/-- `impl FromStr for TypClause<Arg>` (with the repair of the unclosed-clause panic: the former
    `assert!(rem.ends_with(')'))` now returns `Err`) -/
def parseTypClause {α : Type} (parg : Str → Except Fail α) (s : Str) : Except Fail (TypClause α) :=
  match splitOnce '(' s with
  | none => .ok ⟨s, []⟩
  | some (ident, rem) =>
    if !endsWith rem ')' then .error .parse
    else do
      let args ← (split2 ',' ' ' (trimEndMatches rem ')')).mapM parg
      .ok ⟨trim ident, args⟩

/-- `impl FromStr for ConnectionEndpointDef` -/
def parseEndpoint (s : Str) : Except Fail EndpointDef := do
  let accessors ← (splitChar '/' s).mapM parseField
  .ok ⟨accessors⟩

/-! ## Documents: the strings a description file supplies, and their assembly into a `Def` -/

structure RawConn where
  lhs : Str
  rhs : Str
  link : Option Str
deriving DecidableEq, Repr

structure RawModule where
  key : Str
  inherit : Option Str
  gates : List Str
  submodules : List (Str × Str)
  connections : List RawConn
deriving DecidableEq, Repr

structure RawDef where
  entry : Str
  modules : List RawModule
  links : List (Str × Link)
deriving DecidableEq, Repr

/-- `HashMap::insert`: an equal key keeps its place and gets the new value -/
def insertKV {κ ν : Type} [DecidableEq κ] (k : κ) (v : ν) : List (κ × ν) → List (κ × ν)
  | [] => [(k, v)]
  | (k', v') :: r => if k' = k then (k', v) :: r else (k', v') :: insertKV k v r

def parseConn (c : RawConn) : Except Fail ConnDef := do
  let l ← parseEndpoint c.lhs
  let r ← parseEndpoint c.rhs
  .ok ⟨l, r, c.link⟩

def parseSubs : List (Str × Str) → List (FieldDef × TypClause Str) →
    Except Fail (List (FieldDef × TypClause Str))
  | [], acc => .ok acc
  | (k, v) :: r, acc => do
    let f ← parseField k
    let t ← parseTypClause parseStrArg v
    parseSubs r (insertKV f t acc)

def parseModule (m : RawModule) : Except Fail (TypClause GenericsDef × ModuleDef) := do
  let key ← parseTypClause parseGenerics m.key
  let gates ← m.gates.mapM parseField
  let subs ← parseSubs m.submodules []
  let conns ← m.connections.mapM parseConn
  .ok (key, ⟨m.inherit, gates, subs, conns⟩)

def parseModules : List RawModule → List (TypClause GenericsDef × ModuleDef) →
    Except Fail (List (TypClause GenericsDef × ModuleDef))
  | [], acc => .ok acc
  | m :: r, acc => do
    let (k, v) ← parseModule m
    parseModules r (insertKV k v acc)

def parseLinks : List (Str × Link) → List (Str × Link) → List (Str × Link)
  | [], acc => acc
  | (k, v) :: r, acc => parseLinks r (insertKV k v acc)

/-- deserialisation of a document (the YAML layer itself is trusted; this is the `FromStr` glue
    and the map semantics) -/
def parseDef (raw : RawDef) : Except Fail Def := do
  let ms ← parseModules raw.modules []
  .ok ⟨raw.entry, ms, parseLinks raw.links []⟩

/-! ## The elaborated tree (tree.rs) -/

structure Accessor where
  name : Str
  index : Option Nat
deriving DecidableEq, Repr

/-- `ConnectionEndpointAccessor::as_name` -/
def Accessor.asName (a : Accessor) : Str :=
  match a.index with
  | some i => a.name ++ ['['] ++ showNat i ++ [']']
  | none => a.name

structure Conn where
  lhs : List Accessor
  rhs : List Accessor
  link : Option Link
deriving DecidableEq, Repr

inductive Node
  | mk (typ : Str) (subs : List (FieldDef × Node)) (gates : List FieldDef) (conns : List Conn)
deriving Repr

def Node.typ : Node → Str | .mk t _ _ _ => t
def Node.subs : Node → List (FieldDef × Node) | .mk _ s _ _ => s
def Node.gates : Node → List FieldDef | .mk _ _ g _ => g
def Node.conns : Node → List Conn | .mk _ _ _ c => c
def Node.setTyp (t : Str) : Node → Node | .mk _ s g c => .mk t s g c
def Node.setSubs (s : List (FieldDef × Node)) : Node → Node | .mk t _ g c => .mk t s g c

/-- `FxHashSet` inclusion -/
def subsetOf (a b : List FieldDef) : Bool := a.all (b.contains ·)

mutual
/-- derived `PartialEq for Node`: gates are compared as sets -/
def Node.beq : Node → Node → Bool
  | .mk t s g c, .mk t' s' g' c' =>
    decide (t = t') && Node.beqSubs s s' && subsetOf g g' && subsetOf g' g && decide (c = c')
def Node.beqSubs : List (FieldDef × Node) → List (FieldDef × Node) → Bool
  | [], [] => true
  | (f, n) :: r, (f', n') :: r' => decide (f = f') && Node.beq n n' && Node.beqSubs r r'
  | _, _ => false
end

/-- `Node::conform_to` -/
def Node.conformTo (self interface : Node) : Bool :=
  subsetOf interface.gates self.gates &&
  interface.subs.all (fun sm => self.subs.any (fun o => decide (o.1 = sm.1) && Node.beq o.2 sm.2)) &&
  interface.conns.all (fun c => self.conns.any (fun o => decide (o = c)))

/-! ## `transform` (ndl/mod.rs) -/

/-- `ModuleDef::required_symbols` -/
def requiredSymbols (typ : TypClause GenericsDef) (m : ModuleDef) : List Str :=
  let s0 := m.submodules.map (·.2.ident) ++ m.submodules.flatMap (·.2.args)
  let s1 := s0.filter (fun x => !(typ.args.any (fun a => decide (a.binding = x))))
  s1 ++ typ.args.map (·.bound) ++ m.inherit.toList

/-- `TypClause::inner_ty_to_outer_ty` -/
def innerToOuter (args : List GenericsDef) (s : Str) : Str :=
  match args.find? (fun a => decide (a.binding = s)) with
  | some a => a.bound
  | none => s

/-- the archetype table `FxHashMap<String, (Node, Vec<ModuleGenericsDef>)>`: newest binding first,
    `lookup` returns the newest (= `insert` overwrites) -/
abbrev Archs := List (Str × (Node × List GenericsDef))

def unreachableMsg : String :=
  "unreachable: parse order should guarantee, that all required modules are already parsed"

/-- `nodes.get(name).expect("unreachable: …")` -/
def getArch (nodes : Archs) (name : Str) : Except Fail (Node × List GenericsDef) :=
  match nodes.lookup name with
  | some v => .ok v
  | none => .error (.internal unreachableMsg)

/-- the first pair `i < j` with equal bindings (step (0) of `transform_module`) -/
def dupBinding : List GenericsDef → Option GenericsDef
  | [] => none
  | a :: r =>
    match r.find? (fun b => decide (a.binding = b.binding)) with
    | some b => some b
    | none => dupBinding r

/-- `transform_gates` -/
def transformGates (ident : Str) (defs : List GateDef) : Except Fail (List FieldDef) :=
  match defs.find? (fun v => decide (v.kard = .cluster 0)) with
  | some v => .error (.err .invalidGate [ident, v.ident] { gate := some v.display })
  | none => .ok defs.eraseDups

def dispClause (t : TypClause Str) : Str := t.display id
def dispGenClause (t : TypClause GenericsDef) : Str := t.display GenericsDef.display

/-- payload rendering of `InvalidTypStatement(assign, defs)` -/
def invalidTyp {α : Type} (assign : TypClause Str) (defs : List GenericsDef) : Except Fail α :=
  kerr .invalidTypStatement [dispClause assign, dispGenClause ⟨assign.ident, defs⟩]

/-- replace every direct submodule whose symbol is `binding` (loop body at mod.rs:250) -/
def replaceTyp (binding : Str) (repl : Node) (subs : List (FieldDef × Node)) :
    List (FieldDef × Node) :=
  subs.map (fun s => if s.2.typ = binding then (s.1, repl) else s)

/-- the `for (i, generic_binding) in req_args.iter().enumerate()` loop of `transform_submodule` -/
def substArgs (typ : TypClause Str) (nodes : Archs) :
    List GenericsDef → List Str → Node → Except Fail Node
  | [], _, node => .ok node
  | _ :: _, [], _ => .error (.internal "index out of bounds: typ.args[i]")
  | g :: gs, a :: as, node => do
    let (repl, replDeps) ← getArch nodes a
    if !replDeps.isEmpty then invalidTyp ⟨a, []⟩ replDeps
    else do
      let (iface, _) ← getArch nodes g.bound
      if !repl.conformTo iface then
        kerr .assignedTypDoesNotConformToInterface [dispClause typ]
      else substArgs typ nodes gs as (node.setSubs (replaceTyp g.binding repl node.subs))

/-- `transform_submodule` -/
def transformSubmodule (field : FieldDef) (ident : TypClause GenericsDef) (typ : TypClause Str)
    (nodes : Archs) : Except Fail (FieldDef × Node) :=
  if field.kard = .cluster 0 then
    kerr .invalidSubmodule [dispGenClause ident, field.ident]
  else if typ.args.isEmpty then do
    let (node, reqs) ← getArch nodes (innerToOuter ident.args typ.ident)
    if !reqs.isEmpty then invalidTyp typ reqs
    else .ok (field, node.setTyp typ.ident)
  else
    -- repair: generic bindings can neither take arguments nor be passed on as arguments
    match ident.args.find? (fun a => decide (a.binding = typ.ident) || typ.args.contains a.binding) with
    | some a => kerr .unknownModule [a.binding]
    | none => do
      let (node, reqArgs) ← getArch nodes typ.ident
      if reqArgs.length ≠ typ.args.length then invalidTyp typ reqArgs
      else do
        let node ← substArgs typ nodes reqArgs typ.args node
        .ok (field, node)

/-- `transform_submodules` -/
def transformSubmodules (ident : TypClause GenericsDef) (nodes : Archs) :
    List (FieldDef × TypClause Str) → Except Fail (List (FieldDef × Node))
  | [] => .ok []
  | (f, t) :: r => do
    let s ← mapErr (fun sp => { sp with submodule := some f.display }) (transformSubmodule f ident t nodes)
    let rest ← transformSubmodules ident nodes r
    .ok (s :: rest)

/-- `iter_for_kardinality_access` -/
def kardAccess (defn access : FieldDef) : Except Fail (List Accessor) :=
  match defn.kard, access.kard with
  | .atom, .atom => .ok [⟨access.ident, none⟩]
  | .cluster n, .cluster i =>
    if i < n then .ok [⟨access.ident, some i⟩]
    else kerr .connectionIndexOutOfBounds [access.display]
  | .atom, .cluster _ => kerr .connectionIndexOutOfBounds [access.display]
  | .cluster n, .atom => .ok ((List.range n).map (fun i => ⟨access.ident, some i⟩))

/-- `transform_connection_endpoint_inner`; `position` is the accessor prefix -/
def endpointInner (position : List Accessor) :
    List FieldDef → List (FieldDef × Node) → List FieldDef → Except Fail (List (List Accessor))
  | [], _, _ => .error (.internal "accessors must be non-empty")
  | [accessor], _, gates =>
    match gates.find? (fun g => decide (g.ident = accessor.ident)) with
    | none => kerr .unknownGateInConnection [accessor.display]
    | some gateDef => do
      let finals ← kardAccess gateDef accessor
      .ok (finals.map (fun fa => position ++ [fa]))
  | accessor :: a2 :: rest, subs, _ =>
    match subs.find? (fun n => decide (n.1.ident = accessor.ident)) with
    | none => kerr .unknownSubmoduleInConnection [accessor.display]
    | some sub => do
      let locals ← kardAccess sub.1 accessor
      let inner ← locals.mapM (fun lm => endpointInner (position ++ [lm]) (a2 :: rest) sub.2.subs sub.2.gates)
      .ok inner.flatten

/-- `def.link.as_ref().map(|l| links.get(l).cloned().ok_or(UnknownLink(l)))` -/
def lookupLink (links : List (Str × Link)) : Option Str → Except Fail (Option Link)
  | none => .ok none
  | some l =>
    match links.lookup l with
    | some v => .ok (some v)
    | none => kerr .unknownLink [l]

/-- `transform_connection` -/
def transformConnection (d : ConnDef) (subs : List (FieldDef × Node)) (gates : List FieldDef)
    (links : List (Str × Link)) (results : List Conn) : Except Fail (List Conn) := do
  let lhs ← endpointInner [] d.lhs.accessors subs gates
  let rhs ← endpointInner [] d.rhs.accessors subs gates
  if lhs.length ≠ rhs.length then kerr .unequalPeers [showNat lhs.length, showNat rhs.length]
  else do
    let link ← lookupLink links d.link
    .ok (results ++ (lhs.zip rhs).map (fun p => ⟨p.1, p.2, link⟩))

/-- `transform_connections` -/
def transformConnections (subs : List (FieldDef × Node)) (gates : List FieldDef)
    (links : List (Str × Link)) : Nat → List ConnDef → List Conn → Except Fail (List Conn)
  | _, [], results => .ok results
  | idx, d :: r, results => do
    let results ← mapErr (fun sp => { sp with connection := some idx })
      (transformConnection d subs gates links results)
    transformConnections subs gates links (idx + 1) r results

/-- `gates.extend(arch.gates)` on a hash set -/
def extendSet (a b : List FieldDef) : List FieldDef := a ++ b.filter (fun g => !a.contains g)

/-- step (4) of `transform_module`: inherit gates, submodules and connections of the parent -/
def inheritFrom (nodes : Archs) (gates : List FieldDef) (subs : List (FieldDef × Node)) :
    Option Str → Except Fail (List FieldDef × List (FieldDef × Node) × List Conn)
  | none => .ok (gates, subs, [])
  | some parent => do
    let arch ← getArch nodes parent
    .ok (extendSet gates arch.1.gates, subs ++ arch.1.subs, arch.1.conns)

/-- `transform_module` -/
def transformModule (ident : TypClause GenericsDef) (d : ModuleDef) (nodes : Archs)
    (links : List (Str × Link)) : Except Fail (Node × List GenericsDef) :=
  match dupBinding ident.args with
  | some g => kerr .symbolAlreadyDefined [g.display]
  | none => do
    let gates ← transformGates ident.ident d.gates
    let subs ← transformSubmodules ident nodes d.submodules
    let inh ← inheritFrom nodes gates subs d.inherit
    let conns ← transformConnections inh.2.1 inh.1 links 0 d.connections inh.2.2
    .ok (.mk ident.ident inh.2.1 inh.1 conns, ident.args)

/-- one element of the work list of `transform` -/
structure Entry where
  ident : TypClause GenericsDef
  mdef : ModuleDef
  deps : List Str
deriving Repr

def resolvable (provided : List Str) (e : Entry) : Bool := e.deps.all (provided.contains ·)

/-- `position` + `swap(idx, next)` on the tail after a non-matching head `r0`: the selected
    element and what remains of `modules[idx+1..]` (with `r0` moved into the hole) -/
def pickIn (p : Entry → Bool) (r0 : Entry) : List Entry → Option (Entry × List Entry)
  | [] => none
  | t :: ts =>
    if p t then some (t, r0 :: ts)
    else match pickIn p r0 ts with
      | some (x, l) => some (x, t :: l)
      | none => none

def pickSwap (p : Entry → Bool) : List Entry → Option (Entry × List Entry)
  | [] => none
  | r0 :: tl => if p r0 then some (r0, tl) else pickIn p r0 tl

/-- the `while idx < modules.len()` loop: `done = modules[..idx]`, `rest = modules[idx..]` -/
def orderLoop : Nat → List Entry → List Entry → List Str → Except Fail (List Entry)
  | _, done, [], _ => .ok done
  | 0, _, _ :: _, _ => .error (.internal "fuel")
  | fuel + 1, done, r0 :: tl, provided =>
    match pickSwap (resolvable provided) (r0 :: tl) with
    | none => kerr .unresolvableDependency ((r0 :: tl).map (·.ident.ident))
    | some (x, rest') => orderLoop fuel (done ++ [x]) rest' (x.ident.ident :: provided)

/-- the `for ((ident, module), _) in modules` loop -/
def buildAll (links : List (Str × Link)) : List Entry → Archs → Except Fail Archs
  | [], a => .ok a
  | e :: es, a => do
    let arch ← mapErr (fun sp => { sp with module := some e.ident.ident })
      (transformModule e.ident e.mdef a links)
    buildAll links es ((e.ident.ident, arch) :: a)

def entries (d : Def) : List Entry := d.modules.map (fun km => ⟨km.1, km.2, requiredSymbols km.1 km.2⟩)

/-- all archetypes (what `transform` computes before picking the entry) -/
def elaborate (d : Def) : Except Fail Archs := do
  let ordered ← orderLoop (entries d).length [] (entries d) []
  buildAll d.links ordered []

/-- `transform` -/
def transform (d : Def) : Except Fail Node := do
  let archs ← elaborate d
  match archs.lookup d.entry with
  | some v => .ok v.1
  | none => kerr .unknownModule [d.entry]

/-- a document: deserialise, then transform -/
def load (raw : RawDef) : Except Fail Node := do
  let d ← parseDef raw
  transform d

/-- precondition of `transform` that every *parsed* description meets: `split('/')` yields at
    least one accessor -/
def Def.endpointsNonempty (d : Def) : Prop :=
  ∀ km ∈ d.modules, ∀ c ∈ km.2.connections, c.lhs.accessors ≠ [] ∧ c.rhs.accessors ≠ []

end Ndl

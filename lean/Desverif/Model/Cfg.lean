/-
Model of the configuration layer of des (C17):
  des-net-utils/src/props/yaml.rs   `Cfg::new` (= `compartmentalize`), `Cfg::capture_for[_into]`,
                                    `Props::update_from`
  des-net-utils/src/props/store.rs  `Props::set` (first value wins), `Props::get_raw`
  des-net-utils/src/props/mod.rs    typed slot `Entry::{None, Yaml, Some}`: `RawProp::typed`,
                                    `Prop::{get, or_default, set}`
  des/src/net/runtime/mod.rs        `SimBuilder::include_cfg`, `SimBuilder::raw` (node creation)

The model mirrors the code WITH the three repairs patches/C17-f6-*.diff, C17-f13-*.diff,
C17-f11a-*.diff applied (marked `-- FIX` below).  The behaviour F11b (a wildcard entry is dropped
when a scalar entry equals its literal prefix) is NOT repaired and is modelled as it is.

Data layout.  A YAML mapping is an insertion-ordered association list with the `indexmap`
operations the code uses (`get`, `insert`, `entry().or_insert`, `swap_remove`).  A dotted key string
is represented by the list of its segments (`"a.<any>.x"` ↦ `["a","<any>","x"]`, `""` ↦ `[]`); the
string operations of the code are transcribed to their meaning on segment lists, which is exact as
long as segments are non-empty, contain no `'.'`, and contain `"<any>"` only as a whole segment:
  `k.contains(ANY)`                          ↦ `ANY ∈ k`
  `k.split_once(ANY)` + `trim_*_matches('.')`  ↦ split at the first `ANY` segment (`splitAny`)
  `top.is_empty()`                           ↦ `top = []`
  `key` built by `push('.')`/`push_str`      ↦ `path.take (i+1)`
  `k.starts_with(&key) && k[key.len()..].starts_with('.')`, `&k[key.len()+1..]`   (FIX F6)
                                             ↦ `path` is a proper prefix of `k`, `k.drop path.length`
This string ↔ segment-list reading is part of the trusted transcription; it is exercised by the
correspondence runs (alphabet with prefix-sharing and non-ASCII names).
-/
namespace Cfg

abbrev Seg := String
abbrev Key := List Seg

/-- the wildcard token -/
def ANY : Seg := "<any>"

/-- `serde_yml::Value`, restricted to what flat configurations and `compartmentalize` produce -/
inductive Val where
  | scalar : String → Val
  | map : List (Key × Val) → Val

/-- `serde_yml::Mapping` (an `IndexMap`): insertion-ordered, keys unique -/
abbrev Entries := List (Key × Val)

inductive Err where
  | fuel        -- a recursion bound of the model was hit (proved impossible for flat configurations)
  | unwrapNone  -- `map.remove(&key).unwrap()` on a missing key
  deriving DecidableEq, Repr

/-! ### `indexmap` operations -/

/-- `Mapping::get` -/
def get : Entries → Key → Option Val
  | [], _ => none
  | (k', v) :: r, k => if k' = k then some v else get r k

/-- overwrite the value stored under an existing key, position unchanged (`*entry = …`) -/
def replace (es : Entries) (k : Key) (v : Val) : Entries :=
  es.map fun e => if e.1 = k then (k, v) else e

/-- `Mapping::insert`: replace in place, or append -/
def insert (es : Entries) (k : Key) (v : Val) : Entries :=
  if (get es k).isSome then replace es k v else es ++ [(k, v)]

/-- `map.entry(k).or_insert(Value::Mapping(Mapping::new()))`, the mapping afterwards -/
def orInsertEmpty (es : Entries) (k : Key) : Entries :=
  if (get es k).isSome then es else es ++ [(k, .map [])]

/-- `Mapping::remove` = `IndexMap::swap_remove`: the last element takes the place of the removed one -/
def swapRemove : Entries → Key → Option (Val × Entries)
  | [], _ => none
  | (k', v') :: r, k =>
    if k' = k then
      some (v', match r.getLast? with
                | none => []
                | some l => l :: r.dropLast)
    else
      match swapRemove r k with
      | none => none
      | some (v, r') => some (v, (k', v') :: r')

/-! ### `compartmentalize` -/

def hasAny (k : Key) : Bool := k.contains ANY

/-- `key.split_once(ANY)` with the dots trimmed: segments before / after the first wildcard -/
def splitAny : Key → Option (Key × Key)
  | [] => none
  | s :: r =>
    if s = ANY then some ([], r)
    else match splitAny r with
      | none => none
      | some (a, b) => some (s :: a, b)

/-- `Except`-fold (the `for` loops of the code; an error aborts) -/
def foldE {σ α : Type} (f : σ → α → Except Err σ) : σ → List α → Except Err σ
  | s, [] => .ok s
  | s, a :: r =>
    match f s a with
    | .ok s' => foldE f s' r
    | .error e => .error e

/-- yaml.rs:72-82 — on the mapping `entry`: `subentry = entry.entry(ANY).or_insert({})`, must be a
    mapping (else `continue`: `none`), `subentry.insert(bot, value)`, recurse into `subentry`.
    `rec` is `compartmentalize_map` for the recursive call. -/
def anyInsert (rec : Entries → Except Err Entries) (entry : Entries) (bot : Key) (value : Val) :
    Except Err (Option Entries) :=
  let entry1 := orInsertEmpty entry [ANY]
  match get entry1 [ANY] with
  | some (.map sub) =>
    match rec (insert sub bot value) with
    | .ok sub' => .ok (some (replace entry1 [ANY] (.map sub')))
    | .error e => .error e
  | _ => .ok none

/-- one iteration of the `for key in keys` loop of `compartmentalize_map` (yaml.rs:55-83) -/
def step (rec : Entries → Except Err Entries) (es : Entries) (key : Key) : Except Err Entries :=
  match splitAny key with
  | none => .ok es
  | some (top, bot) =>
    match swapRemove es key with
    | none => .error .unwrapNone
    | some (value, es1) =>
      if top = [] then
        match anyInsert rec es1 bot value with
        | .ok (some es2) => .ok es2
        | .ok none => .ok es1
        | .error e => .error e
      else
        let es2 := orInsertEmpty es1 top
        match get es2 top with
        | some (.map ent) =>
          match anyInsert rec ent bot value with
          | .ok (some ent') => .ok (replace es2 top (.map ent'))
          | .ok none => .ok es2
          | .error e => .error e
        | _ => .ok es2   -- F11b: `continue` after the entry has been removed

/-- the keys `compartmentalize_map` rewrites.  FIX F13: the nested key `<any>` itself is skipped. -/
def pendingKeys (es : Entries) : List Key :=
  (es.map (·.1)).filter fun k => hasAny k && k != [ANY]

/-- `compartmentalize_map` with a recursion bound -/
def compMapF : Nat → Entries → Except Err Entries
  | 0, _ => .error .fuel
  | f + 1, es => foldE (step (compMapF f)) es (pendingKeys es)

/-- recursion bound: every recursive call works on a strictly shorter key -/
def fuelOf (es : Entries) : Nat := 1 + (es.map (·.1.length)).foldl max 0

/-- `compartmentalize` / `Cfg::new` -/
def compartmentalize : Val → Except Err Val
  | .map es =>
    match compMapF (fuelOf es) es with
    | .ok es' => .ok (.map es')
    | .error e => .error e
  | other => .ok other

/-! ### typed slots and the property store -/

inductive Ty where
  | str | u64
  deriving DecidableEq, Repr

/-- a typed value (`Box<dyn PropType>`): the stored type is the constructor -/
inductive TV where
  | str : String → TV
  | u64 : Nat → TV
  deriving DecidableEq, Repr

def TV.ty : TV → Ty
  | .str _ => .str
  | .u64 _ => .u64

def Ty.default : Ty → TV
  | .str => .str ""
  | .u64 => .u64 0

/-- store.rs `Entry` -/
inductive Slot where
  | none
  | yaml : Val → Slot
  | some : TV → Slot

/-- store.rs `Props` (a hash map; observed only through sorted keys and per-key lookups) -/
abbrev Props := List (Key × Slot)

def Props.find (ps : Props) (k : Key) : Option Slot :=
  match ps with
  | [] => none
  | (k', s) :: r => if k' = k then some s else Props.find r k

/-- `Props::set`: `entry(key).or_insert(Yaml(val))` — an existing slot of any kind is kept -/
def Props.set (ps : Props) (k : Key) (v : Val) : Props :=
  if (ps.find k).isSome then ps else ps ++ [(k, .yaml v)]

def Props.put (ps : Props) (k : Key) (s : Slot) : Props :=
  ps.map fun e => if e.1 = k then (k, s) else e

/-- `Props::get_raw`: `entry(key).or_insert(None)` -/
def Props.getRaw (ps : Props) (k : Key) : Props × Slot :=
  match ps.find k with
  | some s => (ps, s)
  | none => (ps ++ [(k, .none)], .none)

/-! ### `Props::update_from` -/

/-- FIX F11a: `is_wildcard_node` — mappings with an `<any>` key are routing nodes, no values -/
def isWildcardNode : Val → Bool
  | .map es => (get es [ANY]).isSome
  | .scalar _ => false

/-- yaml.rs `path.is_empty()` branch -/
def setAll (ps : Props) (es : Entries) : Props :=
  es.foldl (fun ps e => if hasAny e.1 || isWildcardNode e.2 then ps else ps.set e.1 e.2) ps

/-- yaml.rs "extract direct prefixes" (FIX F6: segment boundary; FIX F11a) -/
def setDirect (ps : Props) (es : Entries) (path : List Seg) : Props :=
  es.foldl (fun ps e =>
    if path.isPrefixOf e.1 && decide (path.length < e.1.length) && !isWildcardNode e.2
    then ps.set (e.1.drop path.length) e.2 else ps) ps

/-- `Props::update_from(base, path)` with a recursion bound (every call shortens `path`) -/
def updateFromF : Nat → Props → Val → List Seg → Except Err Props
  | 0, _, _, _ => .error .fuel
  | f + 1, ps, base, path =>
    match base with
    | .scalar _ => .ok ps
    | .map es =>
      match path with
      | [] => .ok (setAll ps es)
      | _ :: rest =>
        -- wildcard branch
        match (match get es [ANY] with
               | some v => updateFromF f ps v rest
               | none => .ok ps) with
        | .error e => .error e
        | .ok ps1 =>
          -- progressive prefix lookup
          match foldE (fun ps i =>
                  match get es (path.take (i + 1)) with
                  | some entry => updateFromF f ps entry (path.drop (i + 1))
                  | none => .ok ps) ps1 (List.range path.length) with
          | .error e => .error e
          | .ok ps2 => .ok (setDirect ps2 es path)

def updateFrom (ps : Props) (base : Val) (path : List Seg) : Except Err Props :=
  updateFromF (path.length + 1) ps base path

/-- a flat configuration: dotted keys with scalar values, in file order -/
abbrev Flat := List (Key × String)

def Flat.toVal (c : Flat) : Val := .map (c.map fun e => (e.1, .scalar e.2))

/-- `Cfg::new(flat mapping).capture_for_into(path)` -/
def captureInto (c : Flat) (path : List Seg) : Except Err Props :=
  match compartmentalize c.toVal with
  | .ok v => updateFrom [] v path
  | .error e => .error e

/-! ### typed access (`RawProp::typed`, `Prop`) -/

/-- `T::from_value` for the two types the harness uses; scalars of generated configurations are
    quoted strings (serde behaviour: trusted, exercised by the correspondence runs) -/
def conv : Ty → Val → Option TV
  | .str, .scalar s => some (.str s)
  | _, _ => none

inductive TAns where
  | invalid            -- `ErrorKind::InvalidInput` "type missmatch"
  | other              -- deserialisation of the YAML value failed
  | none               -- `Prop::get` on an absent value
  | val : TV → TAns
  | ok
  | panic              -- `expect("prop-type has changed …")`, `expect("unreachable")`, `assert!` in `set`
  deriving DecidableEq, Repr

inductive TOp where
  | read | readd | write (v : TV)
  deriving DecidableEq, Repr

/-- `RawProp::typed::<T>` on a slot, parameterised by the deserialiser -/
def typedSlot (cv : Ty → Val → Option TV) (t : Ty) : Slot → Except TAns Slot
  | .none => .ok .none
  | .yaml v =>
    match cv t v with
    | some tv => .ok (.some tv)
    | none => .error .other
  | .some tv => if tv.ty = t then .ok (.some tv) else .error .invalid

/-- one typed access `prop::<T>(key)` followed by `get` / `or_default().get()` / `set(v)` on a slot -/
def slotOp (cv : Ty → Val → Option TV) (t : Ty) (op : TOp) (s : Slot) : Slot × TAns :=
  match typedSlot cv t s with
  | .error a => (s, a)
  | .ok s1 =>
    match op, s1 with
    | .read, .some tv => (s1, .val tv)
    | .read, _ => (s1, .none)
    | .readd, .some tv => (s1, .val tv)
    | .readd, _ => (.some t.default, .val t.default)
    | .write v, _ => (.some v, .ok)

def Props.typedOp (ps : Props) (k : Key) (t : Ty) (op : TOp) : Props × TAns :=
  let (ps1, s) := ps.getRaw k
  let (s', a) := slotOp conv t op s
  (ps1.put k s', a)

/-! ### live handles (`Prop<T, PRESENT>`)

A handle holds the shared slot (`Arc<Mutex<Entry>>`), the type parameter `T` and the const flag
`PRESENT`; it is NOT re-validated when used: `get`/`map` downcast the stored value with
`expect("prop-type has changed …")`, a `PRESENT` handle additionally `expect("unreachable")`s a
value, and `set` asserts that a stored value has type `T` before overwriting. -/

structure Handle where
  ty : Ty
  present : Bool
  deriving DecidableEq, Repr

inductive HOp where
  | get                -- `Prop::get`
  | orDefault          -- `Prop<T,false>::or_default()` (handle becomes `PRESENT`), then `get`;
                       -- on a `PRESENT` handle (no such method): `get`
  | set (v : TV)       -- `Prop::set(v : T)`
  | clear              -- `Prop::clear(self)`
  | drop
  deriving DecidableEq, Repr

/-- `Prop::get` / `Prop::map` through handle `h` -/
def handleGet (h : Handle) : Slot → TAns
  | .some tv => if tv.ty = h.ty then .val tv else .panic
  | _ => if h.present then .panic else .none

/-- one operation through a live handle: slot afterwards, answer, the handle afterwards
    (`none`: consumed) -/
def handleOp (h : Handle) (op : HOp) (s : Slot) : Slot × TAns × Option Handle :=
  match op with
  | .get => (s, handleGet h s, some h)
  | .orDefault =>
    if h.present then (s, handleGet h s, some h)
    else
      let s1 := match s with
        | .none => Slot.some h.ty.default     -- `or_else`: only `Entry::None` is initialised
        | s => s
      let h1 : Handle := { h with present := true }
      (s1, handleGet h1 s1, some h1)
  | .set v =>
    match s with
    | .some tv => if tv.ty = h.ty then (.some v, .ok, some h) else (s, .panic, some h)
    | _ => (.some v, .ok, some h)
  | .clear => (.none, .ok, none)
  | .drop => (s, .ok, none)

/-- `props.get::<T>(key)`: `get_raw` + `typed`; on success a fresh non-`PRESENT` handle -/
def Props.openH (ps : Props) (k : Key) (t : Ty) : Props × Except TAns Handle :=
  let (ps1, s) := ps.getRaw k
  match typedSlot conv t s with
  | .error a => (ps1, .error a)
  | .ok s1 => (ps1.put k s1, .ok { ty := t, present := false })

/-- an operation through a handle on the slot of key `k` (the slot exists: the handle was opened) -/
def Props.handleOp (ps : Props) (k : Key) (h : Handle) (op : HOp) : Props × TAns × Option Handle :=
  let s := (ps.find k).getD .none
  let (s', a, h') := Cfg.handleOp h op s
  (ps.put k s', a, h')

/-- `prop_raw(key).clear()` -/
def Props.rawClear (ps : Props) (k : Key) : Props :=
  (ps.getRaw k).1.put k .none

/-! ### the builder: `include_cfg` and node creation -/

structure Sim where
  cfgs : List Val := []                       -- compartmentalised, in include order
  mods : List (List Seg × Props) := []        -- in creation order

/-- apply `f` to the properties of every module in order -/
def mapModsE (f : List Seg → Props → Except Err Props) :
    List (List Seg × Props) → Except Err (List (List Seg × Props))
  | [] => .ok []
  | (p, ps) :: r =>
    match f p ps with
    | .error e => .error e
    | .ok ps' =>
      match mapModsE f r with
      | .error e => .error e
      | .ok r' => .ok ((p, ps') :: r')

/-- `SimBuilder::include_cfg` (the YAML text parsed to the flat configuration `c`) -/
def Sim.includeCfg (s : Sim) (c : Flat) : Except Err Sim :=
  match compartmentalize c.toVal with
  | .error e => .error e
  | .ok v =>
    match mapModsE (fun p ps => updateFrom ps v p) s.mods with
    | .error e => .error e
    | .ok mods => .ok { cfgs := s.cfgs ++ [v], mods := mods }

inductive NodeAns where
  | ok | exists | noParent | internal (e : Err)
  deriving DecidableEq, Repr

/-- `SimBuilder::raw`: duplicate / missing parent panic; the stored configurations are applied in
    include order -/
def Sim.node (s : Sim) (p : List Seg) : Sim × NodeAns :=
  if s.mods.any (·.1 = p) then (s, .exists)
  else if p.length > 1 && !(s.mods.any (·.1 = p.dropLast)) then (s, .noParent)
  else
    match foldE (fun ps v => updateFrom ps v p) [] s.cfgs with
    | .error e => (s, .internal e)
    | .ok ps => ({ s with mods := s.mods ++ [(p, ps)] }, .ok)

def Sim.props (s : Sim) (p : List Seg) : Option Props :=
  (s.mods.find? (·.1 = p)).map (·.2)

def Sim.setProps (s : Sim) (p : List Seg) (ps : Props) : Sim :=
  { s with mods := s.mods.map fun m => if m.1 = p then (p, ps) else m }

end Cfg

/-
Model of the processing stack of a `des` network module as the code runs it
(des/src/net/processing.rs, des/src/net/runtime/{events,ctx,mod}.rs, des/src/net/module/refs.rs).

* `upstream`   = `Processor::incoming_upstream`:   `for i in 0..n { items[i].event_start();
                  if let Some(m) = msg { msg = items[i].incoming(m) } }`
* `downstream` = `Processor::incoming_downstream`: `for i in (0..n).rev() { items[i].event_end() }`
* `runEvent`   = one `ModuleRef::{handle_message, async_wakeup, at_sim_start, at_sim_end}` between
                  `activate()` and `deactivate()`: timer bump, upstream, handler inside
                  `Harness::exec` (new tokio tasks are polled, woken tasks run), downstream, the
                  wake-up decision of `deactivate`.
* `Sim` / `step` / `run` = the kernel loop around it: the future event set (the abstract event set
  `FES` of C01/C03), `BUF_CTX.events` (the pushes of an event are flushed in the order they were
  made by `buf_process`, after the wake-up that `deactivate` adds), `SimLifecycle::at_sim_start`
  (stages outer loop, modules inner loop) and `at_sim_end` (no flush).

Elements and handlers are *scripted*: what they do is an arbitrary function of what the Rust
object can observe (the message id for `incoming`/`handle_message`, the ordinal of the element's
own `event_start`/`event_end` calls, the stage).  Every hook call and every push onto
`BUF_CTX.events` is recorded, in program order, in one trace of `Item`s.
-/
import Desverif.Spec.FES
namespace Proc

/-- what `ProcessingElement::incoming` does with a message -/
inductive Act
  | pass
  | modify (newId : Nat)
  | consume
deriving Repr, DecidableEq

/-- the `Option<Message>` returned by `incoming` (a message is its id) -/
def Act.apply : Act → Nat → Option Nat
  | .pass, id => some id
  | .modify n, _ => some n
  | .consume, _ => none

/-- a message sent from inside an event: `schedule_in(msg(id), delay)` (`send = false`) or
    `send`/`send_in(msg(id), gate to dst, delay)` -/
structure Emit where
  send : Bool
  dst : Nat
  delay : Nat
  id : Nat
deriving Repr, DecidableEq

/-- what a handler callback does, in program order: send right away, or `tokio::spawn` a task
    that sleeps `extra + 1` ns and then sends -/
inductive HEmit
  | now (e : Emit)
  | task (extra : Nat) (e : Emit)
deriving Repr, DecidableEq

/-- scripted behaviour of a processing element -/
structure Elem where
  tag : Nat
  act : Nat → Act               -- `incoming`, by message id
  onStart : Nat → List Emit     -- `event_start`, by ordinal of the call
  onInc : Nat → List Emit       -- `incoming`, by message id
  onEnd : Nat → List Emit       -- `event_end`, by ordinal of the call

/-- an installed element: behaviour + its own call counters -/
structure ElemRt where
  spec : Elem
  starts : Nat
  ends : Nat

structure Handler where
  stages : Nat
  onMsg : Nat → List HEmit
  onSimStart : Nat → List HEmit
  onSimEnd : List HEmit

/-- kernel events (`NetEvents`) -/
inductive KEvent
  | deliver (mod msg : Nat)     -- HandleMessageEvent
  | exitConn (mod msg : Nat)    -- MessageExitingConnection whose gate chain ends at `mod`
  | wakeup (mod : Nat)          -- AsyncWakeupEvent
deriving Repr, DecidableEq

inductive Hook
  | start | inc | end_ | msg | simStart | simEnd
deriving Repr, DecidableEq

/-- one logged call: module, element (stack index; `none` = the module's handler), hook, message id
    (stage for `simStart`), `SimTime::now()` -/
structure Entry where
  mod : Nat
  who : Option Nat
  hook : Hook
  msg : Option Nat
  time : Nat
deriving Repr, DecidableEq

/-- program-order trace of one event: hook calls and pushes onto `BUF_CTX.events` -/
inductive Item
  | call (e : Entry)
  | push (ev : KEvent) (t : Nat)
deriving Repr, DecidableEq

def Item.entry? : Item → Option Entry
  | .call e => some e
  | .push .. => none

def Item.push? : Item → Option (KEvent × Nat)
  | .call _ => none
  | .push ev t => some (ev, t)

/-- the module the event runs on, and `SimTime::now()` -/
structure Ctx where
  mod : Nat
  now : Nat

/-- `buf_schedule_at` / `buf_send_at`: an undelayed send walks the (channel-less) gate chain inline
    and buffers the `HandleMessageEvent`; a delayed send buffers the `MessageExitingConnection` -/
def Emit.toItem (c : Ctx) (e : Emit) : Item :=
  if e.send && e.dst != c.mod then
    if e.delay = 0 then .push (.deliver e.dst e.id) c.now
    else .push (.exitConn e.dst e.id) (c.now + e.delay)
  else .push (.deliver c.mod e.id) (c.now + e.delay)

def startItems (c : Ctx) (i : Nat) (e : ElemRt) : List Item :=
  .call ⟨c.mod, some i, .start, none, c.now⟩ :: (e.spec.onStart e.starts).map (Emit.toItem c)

def incItems (c : Ctx) (i : Nat) (e : ElemRt) (id : Nat) : List Item :=
  .call ⟨c.mod, some i, .inc, some id, c.now⟩ :: (e.spec.onInc id).map (Emit.toItem c)

def endItems (c : Ctx) (i : Nat) (e : ElemRt) : List Item :=
  .call ⟨c.mod, some i, .end_, none, c.now⟩ :: (e.spec.onEnd e.ends).map (Emit.toItem c)

/-- `incoming_upstream`, from stack index `i` on: new element states, the message that is left,
    the trace -/
def upstream (c : Ctx) : Nat → List ElemRt → Option Nat → List ElemRt × Option Nat × List Item
  | _, [], msg => ([], msg, [])
  | i, e :: es, msg =>
    let e' := { e with starts := e.starts + 1 }
    match msg with
    | some id =>
      let r := upstream c (i + 1) es ((e.spec.act id).apply id)
      (e' :: r.1, r.2.1, startItems c i e ++ incItems c i e id ++ r.2.2)
    | none =>
      let r := upstream c (i + 1) es none
      (e' :: r.1, r.2.1, startItems c i e ++ r.2.2)

/-- `incoming_downstream`: the elements behind `e` end first -/
def downstream (c : Ctx) : Nat → List ElemRt → List ElemRt × List Item
  | _, [] => ([], [])
  | i, e :: es =>
    let r := downstream c (i + 1) es
    ({ e with ends := e.ends + 1 } :: r.1, r.2 ++ endItems c i e)

inductive Kind
  | message (id : Nat)
  | wakeup
  | simStart (stage : Nat)
  | simEnd
deriving Repr, DecidableEq

def Kind.msg? : Kind → Option Nat
  | .message id => some id
  | _ => none

/-- pending `Sleep`s of a module's tasks: `TimerQueue.pending` flattened (slots ascending by
    deadline, entries of a slot in registration order), with what the task does when it resumes -/
abbrev Sleepers := List (Nat × Emit)

def insertSleeper : Sleepers → Nat → Emit → Sleepers
  | [], d, e => [(d, e)]
  | x :: xs, d, e => if x.1 ≤ d then x :: insertSleeper xs d e else (d, e) :: x :: xs

structure ModRt where
  elems : List ElemRt
  handler : Handler
  sleepers : Sleepers
  nextWakeup : Option Nat       -- `Driver::next_wakeup`; `none` = `SimTime::MAX`

/-- the direct sends of a handler callback -/
def hNow (c : Ctx) : List HEmit → List Item
  | [] => []
  | .now e :: r => e.toItem c :: hNow c r
  | .task .. :: r => hNow c r

/-- the tasks a handler callback spawns: (deadline of their sleep, what they send afterwards) -/
def hTasks (c : Ctx) : List HEmit → List (Nat × Emit)
  | [] => []
  | .now _ :: r => hTasks c r
  | .task extra e :: r => (c.now + extra + 1, e) :: hTasks c r

/-- what the handler callback of this event kind does (`none`: no callback — wake-up, or the
    message was consumed); the message id is the one that left the stack -/
def handlerCall (c : Ctx) (h : Handler) (kind : Kind) (out : Option Nat) : Option (Entry × List HEmit) :=
  match kind with
  | .message _ =>
    match out with
    | some id => some (⟨c.mod, none, .msg, some id, c.now⟩, h.onMsg id)
    | none => none
  | .wakeup => none
  | .simStart k => some (⟨c.mod, none, .simStart, some k, c.now⟩, h.onSimStart k)
  | .simEnd => some (⟨c.mod, none, .simEnd, none, c.now⟩, h.onSimEnd)

def handlerItems (c : Ctx) (h : Handler) (kind : Kind) (out : Option Nat) : List Item :=
  match handlerCall c h kind out with
  | some (e, hs) => .call e :: hNow c hs
  | none => []

def handlerTasks (c : Ctx) (h : Handler) (kind : Kind) (out : Option Nat) : List (Nat × Emit) :=
  match handlerCall c h kind out with
  | some (_, hs) => hTasks c hs
  | none => []

structure EventResult where
  mod : ModRt
  items : List Item
  wake : Option Nat             -- the `AsyncWakeupEvent` that `deactivate` adds

/-- one module event between `activate()` and `deactivate()` -/
def runEvent (c : Ctx) (m : ModRt) (kind : Kind) : EventResult :=
  -- activate: `Driver::bump` wakes every slot that is due; a due `next_wakeup` is forgotten
  let woken := m.sleepers.takeWhile (fun s => s.1 ≤ c.now)
  let asleep := m.sleepers.dropWhile (fun s => s.1 ≤ c.now)
  let nw := match m.nextWakeup with
    | some t => if t ≤ c.now then none else some t
    | none => none
  -- upstream
  let up := upstream c 0 m.elems kind.msg?
  -- handler inside `Harness::exec`; then the freshly spawned tasks are polled (they register their
  -- sleeps), then the woken tasks resume and send
  let hItems := handlerItems c m.handler kind up.2.1
  let asleep := (handlerTasks c m.handler kind up.2.1).foldl (fun s t => insertSleeper s t.1 t.2) asleep
  let wItems := woken.map (fun s => s.2.toItem c)
  -- downstream
  let down := downstream c 0 up.1
  -- deactivate: schedule a wake-up if the earliest sleep is before the one already scheduled
  let (nw, wake) := match asleep.head? with
    | some s =>
      match nw with
      | some t => if s.1 < t then (some s.1, some s.1) else (nw, none)
      | none => (some s.1, some s.1)
    | none => (nw, none)
  { mod := { m with elems := down.1, sleepers := asleep, nextWakeup := nw },
    items := up.2.2 ++ hItems ++ wItems ++ down.2,
    wake := wake }

/-- the log of one event -/
def EventResult.log (r : EventResult) : List Entry := r.items.filterMap Item.entry?

/-- what one event pushed onto `BUF_CTX.events`, in order -/
def EventResult.pushes (r : EventResult) : List (KEvent × Nat) := r.items.filterMap Item.push?

/-! ## kernel -/

structure Sim where
  mods : List ModRt
  fes : FES.State
  evs : Array KEvent            -- payload table: the FES value of an event is its index here
  log : List Entry
  fault : Option String         -- a state the code cannot reach / a panic of the code

/-- `Runtime::add_event` -/
def Sim.schedule (s : Sim) (ev : KEvent) (t : Nat) : Sim :=
  match FES.add s.fes t s.evs.size with
  | .ok (f, _) => { s with fes := f, evs := s.evs.push ev }
  | .error _ => { s with fault := some "add-in-the-past" }

/-- `module.activate(); module.<event>(); module.deactivate(rt); buf_process(module, rt)`
    (`flush = false` for `at_sim_end`, which does not call `buf_process`) -/
def Sim.moduleEvent (s : Sim) (mi : Nat) (kind : Kind) (flush : Bool) : Sim :=
  match s.mods[mi]? with
  | none => { s with fault := some "no-such-module" }
  | some m =>
    let r := runEvent ⟨mi, s.fes.cur⟩ m kind
    let s := { s with mods := s.mods.set mi r.mod, log := s.log ++ r.log }
    let s := match r.wake with
      | some t => s.schedule (.wakeup mi) t
      | none => s
    if flush then r.pushes.foldl (fun s p => s.schedule p.1 p.2) s else s

/-- `Runtime::dispatch_event`; `none` when the future event set is empty -/
def Sim.step (s : Sim) : Option Sim :=
  match FES.fetch s.fes with
  | .error _ => none
  | .ok (e, f) =>
    let s := { s with fes := f }
    let ev : Option KEvent := s.evs[e.val]?
    match ev with
    | none => some { s with fault := some "no-such-event" }
    | some (KEvent.deliver m id) => some (s.moduleEvent m (.message id) true)
    | some (KEvent.wakeup m) => some (s.moduleEvent m .wakeup true)
    | some (KEvent.exitConn m id) => some (s.schedule (.deliver m id) s.fes.cur)

/-- `dispatch_all`, for at most `fuel` events (a script may well run for ever) -/
def Sim.loop : Nat → Sim → Sim
  | 0, s => if FES.len s.fes = 0 then s else { s with fault := some "out-of-fuel" }
  | n + 1, s =>
    match s.fault with
    | some _ => s
    | none =>
      match s.step with
      | none => s
      | some s' => Sim.loop n s'

/-- `SimLifecycle::at_sim_start`: stages outside, modules inside -/
def Sim.simStart (s : Sim) : Sim :=
  let maxStage := s.mods.foldl (fun a m => max a m.handler.stages) 1
  (List.range maxStage).foldl (fun s stage =>
    (List.range s.mods.length).foldl (fun s mi =>
      match s.mods[mi]? with
      | some m => if stage < m.handler.stages then s.moduleEvent mi (.simStart stage) true else s
      | none => s) s) s

/-- `SimLifecycle::at_sim_end` -/
def Sim.simEnd (s : Sim) : Sim :=
  (List.range s.mods.length).foldl (fun s mi => s.moduleEvent mi .simEnd false) s

structure Config where
  mods : List ModRt
  inits : List (Nat × Nat × Nat)     -- (module, message id, time): `Runtime::handle_message_on`

def Sim.init (cfg : Config) : Sim :=
  cfg.inits.foldl (fun s i => s.schedule (.deliver i.1 i.2.1) i.2.2)
    { mods := cfg.mods, fes := FES.init, evs := #[], log := [], fault := none }

/-- `Runtime::run` (the main loop cut off after `fuel` events) -/
def run (fuel : Nat) (cfg : Config) : Sim :=
  let s := (Sim.init cfg).simStart
  let s := Sim.loop fuel s
  match s.fault with
  | some _ => s
  | none => s.simEnd

/-- `Module::stack` as the harness modules implement it: what the builder's default stack
    (`global`) and the module's own elements (`own`) are combined to -/
inductive StackMode
  | append | prepend | replace
deriving Repr, DecidableEq

def buildStack (mode : StackMode) (global own : List Elem) : List ElemRt :=
  (match mode with
   | .append => global ++ own
   | .prepend => own ++ global
   | .replace => own).map fun e => { spec := e, starts := 0, ends := 0 }

end Proc

/-
Model of the processing stack of a `des` network module as the code runs it
(des/src/net/processing.rs, des/src/net/runtime/{events,ctx,mod}.rs, des/src/net/module/refs.rs).

* `upstream`   = `Processor::incoming_upstream`:   `for i in 0..n { items[i].event_start();
                  if let Some(m) = msg { msg = items[i].incoming(m) } }`
* `downstream` = `Processor::incoming_downstream`: `for i in (0..n).rev() { items[i].event_end() }`
* `bracket`    = upstream, the handler inside `Harness::exec` (new tokio tasks are polled, woken
                  tasks run), downstream — the body of `ModuleRef::{handle_message (active module),
                  async_wakeup (active module), at_sim_start, at_sim_end}`
* `activate` / `deactivate` = `ModuleRef::activate/deactivate`: timer bump / wake-up decision
* `runEvent`   = activate, one bracket, deactivate;  `idleEvent` = what is left of a message or
                  wake-up event of a module that is shut down (`ctx.active == false`): no hook, no
                  handler;  `restartEvent` = `ModuleRef::module_restart`: the module becomes active
                  and *all* its start stages run as consecutive brackets inside one kernel event
* `Sim` / `step` / `run` = the kernel loop: the future event set (the abstract event set `FES` of
  C01/C03), `BUF_CTX.events` (the pushes of an event are flushed in the order they were made by
  `buf_process`, after the wake-up that `deactivate` adds), the shutdown part of `buf_process`
  (the *last* `shutdown()/shutdow_and_restart_in()` of the event wins; the module becomes inactive,
  its tokio runtime and so all its sleeping tasks are dropped, `Module::reset` runs — no element
  hook —, the restart event is scheduled after the flushed events),
  `SimLifecycle::at_sim_start` (stages outer loop, modules inner loop, inactive modules skipped)
  and `at_sim_end` (every module, active or not, gets a full bracket; no flush, shutdown requests
  are not processed any more).  Elements are never re-created: their state survives a restart.

Elements and handlers are *scripted*: what they do is an arbitrary function of what the Rust
object can observe (message id, the ordinal of its own calls of that hook, the stage).  Every
hook call, every push onto `BUF_CTX.events` and every shutdown request is recorded, in program
order, in one trace of `Item`s.

Tasks may be registered with `current().join(h)` / `current().try_join(h)`; instead of sending they
may panic (caught by tokio, seen only through the join handle) or hang for ever.  `teardown` is
`ModuleRef::at_sim_end`: the tear-down bracket, during which the join handles are evaluated
(`NotFinished` / `Paniced` / `Tokio` = cancelled when the module shut down); the join errors are
*returned* — the bracket is closed (`incoming_downstream`) whatever they are.

Not modelled: panics of hooks and handlers (after a non-caught handler panic `?` skips `incoming_downstream`, i.e. no
`event_end`; a caught one deactivates the module like a shutdown without reset) and sends from
`Module::reset`.
-/
import Desverif.Spec.FES
namespace Proc

/-- what `ProcessingElement::incoming` does with a message -/
inductive Act
  | pass
  | modify (newId : Nat)
  | consume
deriving Repr, DecidableEq

/-- the `Option<Message>` returned by `incoming` (a message is its id) -/
def Act.apply : Act → Nat → Option Nat
  | .pass, id => some id
  | .modify n, _ => some n
  | .consume, _ => none

/-- a message sent from inside an event: `schedule_in(msg(id), delay)` (`send = false`) or
    `send`/`send_in(msg(id), gate to dst, delay)` -/
structure Emit where
  send : Bool
  dst : Nat
  delay : Nat
  id : Nat
deriving Repr, DecidableEq

/-- what an element hook does besides logging: send, or `current().shutdown()` (`none`) /
    `current().shutdow_and_restart_in(d)` (`some d`) -/
inductive Action
  | send (e : Emit)
  | shutdown (restartIn : Option Nat)
deriving Repr, DecidableEq

/-- what a spawned task does once its sleep is over -/
inductive TaskFin
  | send (e : Emit)
  | panic
  | hang
deriving Repr, DecidableEq

/-- whether the task's `JoinHandle` is handed to `current().join` / `current().try_join` -/
inductive JoinMode
  | detached | must | try_
deriving Repr, DecidableEq

structure TaskSpec where
  fin : TaskFin
  join : JoinMode
deriving Repr, DecidableEq

/-- what a handler callback does, in program order: send right away, `tokio::spawn` a task
    that sleeps `extra + 1` ns and then sends / panics / hangs, or request a shutdown -/
inductive HEmit
  | now (e : Emit)
  | task (extra : Nat) (t : TaskSpec)
  | shutdown (restartIn : Option Nat)
deriving Repr, DecidableEq

/-- scripted behaviour of a processing element -/
structure Elem where
  tag : Nat
  act : Nat → Act                     -- `incoming`, by message id
  onStart : Nat → List Action         -- `event_start`, by ordinal of the call
  onInc : Nat → Nat → List Action     -- `incoming`, by message id and ordinal of the call
  onEnd : Nat → List Action           -- `event_end`, by ordinal of the call

/-- an installed element: behaviour + its own call counters -/
structure ElemRt where
  spec : Elem
  starts : Nat
  incs : Nat
  ends : Nat

structure Handler where
  stages : Nat
  onMsg : Nat → Nat → List HEmit        -- message id, ordinal of the `handle_message` call
  onSimStart : Nat → Nat → List HEmit   -- stage, ordinal of the `at_sim_start` call
  onSimEnd : List HEmit

/-- kernel events (`NetEvents`) -/
inductive KEvent
  | deliver (mod msg : Nat)         -- HandleMessageEvent
  | exitConn (src dst msg : Nat)    -- MessageExitingConnection on `src`'s gate, chain ends at `dst`
  | wakeup (mod : Nat)              -- AsyncWakeupEvent
  | restart (mod : Nat)             -- ModuleRestartEvent
deriving Repr, DecidableEq

inductive Hook
  | start | inc | end_ | msg | simStart | simEnd
deriving Repr, DecidableEq

/-- one logged call: module, element (stack index; `none` = the module's handler), hook, message id
    (stage for `simStart`), `SimTime::now()` -/
structure Entry where
  mod : Nat
  who : Option Nat
  hook : Hook
  msg : Option Nat
  time : Nat
deriving Repr, DecidableEq

/-- program-order trace of one event: hook calls, pushes onto `BUF_CTX.events`, shutdown requests
    (with the absolute restart time) -/
inductive Item
  | call (e : Entry)
  | push (ev : KEvent) (t : Nat)
  | down (restartAt : Option Nat)
deriving Repr, DecidableEq

def Item.entry? : Item → Option Entry
  | .call e => some e
  | _ => none

def Item.push? : Item → Option (KEvent × Nat)
  | .push ev t => some (ev, t)
  | _ => none

def Item.down? : Item → Option (Option Nat)
  | .down r => some r
  | _ => none

/-- the module the event runs on, and `SimTime::now()` -/
structure Ctx where
  mod : Nat
  now : Nat

/-- `buf_schedule_at` / `buf_send_at`: an undelayed send walks the (channel-less) gate chain inline
    and buffers the `HandleMessageEvent`; a delayed send buffers the `MessageExitingConnection` -/
def Emit.toItem (c : Ctx) (e : Emit) : Item :=
  if e.send && e.dst != c.mod then
    if e.delay = 0 then .push (.deliver e.dst e.id) c.now
    else .push (.exitConn c.mod e.dst e.id) (c.now + e.delay)
  else .push (.deliver c.mod e.id) (c.now + e.delay)

def Action.toItem (c : Ctx) : Action → Item
  | .send e => e.toItem c
  | .shutdown r => .down (r.map (c.now + ·))

def startItems (c : Ctx) (i : Nat) (e : ElemRt) : List Item :=
  .call ⟨c.mod, some i, .start, none, c.now⟩ :: (e.spec.onStart e.starts).map (Action.toItem c)

def incItems (c : Ctx) (i : Nat) (e : ElemRt) (id : Nat) : List Item :=
  .call ⟨c.mod, some i, .inc, some id, c.now⟩ :: (e.spec.onInc id e.incs).map (Action.toItem c)

def endItems (c : Ctx) (i : Nat) (e : ElemRt) : List Item :=
  .call ⟨c.mod, some i, .end_, none, c.now⟩ :: (e.spec.onEnd e.ends).map (Action.toItem c)

/-- `incoming_upstream`, from stack index `i` on: new element states, the message that is left,
    the trace -/
def upstream (c : Ctx) : Nat → List ElemRt → Option Nat → List ElemRt × Option Nat × List Item
  | _, [], msg => ([], msg, [])
  | i, e :: es, msg =>
    match msg with
    | some id =>
      let r := upstream c (i + 1) es ((e.spec.act id).apply id)
      ({ e with starts := e.starts + 1, incs := e.incs + 1 } :: r.1, r.2.1,
        startItems c i e ++ incItems c i e id ++ r.2.2)
    | none =>
      let r := upstream c (i + 1) es none
      ({ e with starts := e.starts + 1 } :: r.1, r.2.1, startItems c i e ++ r.2.2)

/-- `incoming_downstream`: the elements behind `e` end first -/
def downstream (c : Ctx) : Nat → List ElemRt → List ElemRt × List Item
  | _, [] => ([], [])
  | i, e :: es =>
    let r := downstream c (i + 1) es
    ({ e with ends := e.ends + 1 } :: r.1, r.2 ++ endItems c i e)

inductive Kind
  | message (id : Nat)
  | wakeup
  | simStart (stage : Nat)
  | simEnd
deriving Repr, DecidableEq

def Kind.msg? : Kind → Option Nat
  | .message id => some id
  | _ => none

/-- `handle_message` and `async_wakeup` test `ctx.active` first; `at_sim_start` / `at_sim_end` do not -/
def Kind.needsActive : Kind → Bool
  | .message _ => true
  | .wakeup => true
  | _ => false

/-- a spawned task: its number (spawn order within the module) and what it does after its sleep -/
structure Task where
  id : Nat
  fin : TaskFin
deriving Repr, DecidableEq

/-- pending `Sleep`s of a module's tasks: `TimerQueue.pending` flattened (slots ascending by
    deadline, entries of a slot in registration order), with the task that resumes -/
abbrev Sleepers := List (Nat × Task)

/-- the send of a task that resumes (a task that panics or hangs sends nothing) -/
def Task.item? (c : Ctx) (t : Task) : Option Item :=
  match t.fin with
  | .send e => some (e.toItem c)
  | _ => none

def wokenItems (c : Ctx) (woken : Sleepers) : List Item := woken.filterMap (fun s => s.2.item? c)

def insertSleeper : Sleepers → Nat → Task → Sleepers
  | [], d, e => [(d, e)]
  | x :: xs, d, e => if x.1 ≤ d then x :: insertSleeper xs d e else (d, e) :: x :: xs

structure ModRt where
  elems : List ElemRt
  handler : Handler
  hmsgs : Nat                   -- `handle_message` calls so far
  hstarts : Nat                 -- `at_sim_start` calls so far
  active : Bool                 -- `ModuleContext::active`
  sleepers : Sleepers
  nextWakeup : Option Nat       -- `Driver::next_wakeup`; `none` = `SimTime::MAX`
  nextTask : Nat                -- tasks spawned so far
  joins : List (Nat × Bool)     -- registered join handles in registration order: (task, `join` (true) / `try_join`)
  panicked : List Nat           -- tasks that panicked
  hung : List Nat               -- tasks that resumed and now wait for ever
  cancelled : List Nat          -- tasks that were dropped with the runtime when the module shut down

/-- the direct sends and shutdown requests of a handler callback -/
def hNow (c : Ctx) : List HEmit → List Item
  | [] => []
  | .now e :: r => e.toItem c :: hNow c r
  | .task .. :: r => hNow c r
  | .shutdown x :: r => .down (x.map (c.now + ·)) :: hNow c r

/-- the tasks a handler callback spawns: (deadline of their sleep, what they are) -/
def hTasks (c : Ctx) : List HEmit → List (Nat × TaskSpec)
  | [] => []
  | .now _ :: r => hTasks c r
  | .task extra e :: r => (c.now + extra + 1, e) :: hTasks c r
  | .shutdown _ :: r => hTasks c r

/-- what the handler callback of this event kind does (`none`: no callback — wake-up, or the
    message was consumed); the message id is the one that left the stack -/
def handlerCall (c : Ctx) (m : ModRt) (kind : Kind) (out : Option Nat) : Option (Entry × List HEmit) :=
  match kind with
  | .message _ =>
    match out with
    | some id => some (⟨c.mod, none, .msg, some id, c.now⟩, m.handler.onMsg id m.hmsgs)
    | none => none
  | .wakeup => none
  | .simStart k => some (⟨c.mod, none, .simStart, some k, c.now⟩, m.handler.onSimStart k m.hstarts)
  | .simEnd => some (⟨c.mod, none, .simEnd, none, c.now⟩, m.handler.onSimEnd)

def handlerItems (c : Ctx) (m : ModRt) (kind : Kind) (out : Option Nat) : List Item :=
  match handlerCall c m kind out with
  | some (e, hs) => .call e :: hNow c hs
  | none => []

def handlerTasks (c : Ctx) (m : ModRt) (kind : Kind) (out : Option Nat) : List (Nat × TaskSpec) :=
  match handlerCall c m kind out with
  | some (_, hs) => hTasks c hs
  | none => []

/-- `ModuleRef::activate`: `Driver::bump` wakes every slot that is due; a due `next_wakeup` is
    forgotten.  Returns the woken tasks. -/
def activate (c : Ctx) (m : ModRt) : ModRt × Sleepers :=
  ({ m with
      sleepers := m.sleepers.dropWhile (fun s => s.1 ≤ c.now)
      nextWakeup := match m.nextWakeup with
        | some t => if t ≤ c.now then none else some t
        | none => none },
   m.sleepers.takeWhile (fun s => s.1 ≤ c.now))

/-- upstream, handler inside `Harness::exec` (then the freshly spawned tasks are polled — they
    register their sleeps —, then the woken tasks resume and send), downstream -/
def bracket (c : Ctx) (m : ModRt) (kind : Kind) (woken : Sleepers) : ModRt × List Item :=
  let up := upstream c 0 m.elems kind.msg?
  let hItems := handlerItems c m kind up.2.1
  -- the spawned tasks are numbered in spawn order
  let spawned := (handlerTasks c m kind up.2.1).zipIdx.map fun p => (p.1.1, p.1.2, m.nextTask + p.2)
  let asleep := spawned.foldl (fun s t => insertSleeper s t.1 ⟨t.2.2, t.2.1.fin⟩) m.sleepers
  let wItems := wokenItems c woken
  let down := downstream c 0 up.1
  ({ m with
      elems := down.1
      sleepers := asleep
      nextTask := m.nextTask + spawned.length
      joins := m.joins ++ spawned.filterMap (fun t => match t.2.1.join with
        | .detached => none
        | .must => some (t.2.2, true)
        | .try_ => some (t.2.2, false))
      panicked := m.panicked ++ (woken.filter (fun s => s.2.fin == .panic)).map (·.2.id)
      hung := m.hung ++ (woken.filter (fun s => s.2.fin == .hang)).map (·.2.id)
      hmsgs := match kind, up.2.1 with
        | .message _, some _ => m.hmsgs + 1
        | _, _ => m.hmsgs
      hstarts := match kind with
        | .simStart _ => m.hstarts + 1
        | _ => m.hstarts },
   up.2.2 ++ hItems ++ wItems ++ down.2)

/-- `ModuleRef::deactivate`: schedule a wake-up if the earliest sleep is before the one already
    scheduled -/
def deactivate (m : ModRt) : ModRt × Option Nat :=
  match m.sleepers.head? with
  | some s =>
    match m.nextWakeup with
    | some t => if s.1 < t then ({ m with nextWakeup := some s.1 }, some s.1) else (m, none)
    | none => ({ m with nextWakeup := some s.1 }, some s.1)
  | none => (m, none)

structure EventResult where
  mod : ModRt
  items : List Item
  wake : Option Nat             -- the `AsyncWakeupEvent` that `deactivate` adds
  fault : Option String := none

/-- one event of an active module between `activate()` and `deactivate()` -/
def runEvent (c : Ctx) (m : ModRt) (kind : Kind) : EventResult :=
  let a := activate c m
  let b := bracket c a.1 kind a.2
  let d := deactivate b.1
  { mod := d.1, items := b.2, wake := d.2 }

/-- a message or wake-up event of a module that is shut down: `handle_message` / `async_wakeup`
    return at once; only the timer bookkeeping of `activate` / `deactivate` happens.  (All tasks
    were dropped with the runtime when the module shut down, so nothing can be due.) -/
def idleEvent (c : Ctx) (m : ModRt) : EventResult :=
  let a := activate c m
  let d := deactivate a.1
  { mod := d.1, items := [], wake := d.2,
    fault := if a.2.isEmpty then none else some "task-due-on-inactive-module" }

/-- the start stages `from, from+1, …` of a restart (the woken tasks run in the first `exec`) -/
def restartStages (c : Ctx) : List Nat → ModRt → Sleepers → ModRt × List Item
  | [], m, _ => (m, [])
  | k :: ks, m, woken =>
    let b := bracket c m (.simStart k) woken
    let r := restartStages c ks b.1 []
    (r.1, b.2 ++ r.2)

/-- `ModuleRestartEvent`: `module_restart` sets the module active and runs all its start stages
    inside this one event -/
def restartEvent (c : Ctx) (m : ModRt) : EventResult :=
  let a := activate c m
  let r := restartStages c (List.range m.handler.stages) { a.1 with active := true } a.2
  let d := deactivate r.1
  { mod := d.1, items := r.2, wake := d.2,
    fault := if m.handler.stages = 0 && !a.2.isEmpty then some "task-due-without-exec" else none }

/-- the log of one event -/
def EventResult.log (r : EventResult) : List Entry := r.items.filterMap Item.entry?

/-- what one event pushed onto `BUF_CTX.events`, in order -/
def EventResult.pushes (r : EventResult) : List (KEvent × Nat) := r.items.filterMap Item.push?

/-- the shutdown request that is in `shutdown_task` when the event ends: the last one made -/
def EventResult.shutdown (r : EventResult) : Option (Option Nat) :=
  (r.items.filterMap Item.down?).getLast?

/-- the shutdown requests of an event with their position in its log (number of calls made
    before) — only used to compare with the implementation's log -/
def downMarks : List Item → Nat → List (Nat × Option Nat)
  | [], _ => []
  | .call _ :: r, n => downMarks r (n + 1)
  | .push .. :: r, n => downMarks r n
  | .down x :: r, n => (n, x) :: downMarks r n

/-! ## kernel -/

/-- the kinds of `JoinError` of `at_sim_end` -/
inductive JoinErr
  | notFinished | paniced | tokio
deriving Repr, DecidableEq


structure Sim where
  mods : List ModRt
  fes : FES.State
  evs : Array KEvent            -- payload table: the FES value of an event is its index here
  log : List Entry
  downs : List (Nat × Nat × Option Nat)   -- shutdown requests: (calls logged before, module, restart time)
  errors : List (Nat × JoinErr) := []     -- what `run()` returns as `Err` (empty: `Ok`)
  fault : Option String         -- a state the code cannot reach / a panic of the code

/-- `Runtime::add_event` -/
def Sim.schedule (s : Sim) (ev : KEvent) (t : Nat) : Sim :=
  match FES.add s.fes t s.evs.size with
  | .ok (f, _) => { s with fes := f, evs := s.evs.push ev }
  | .error _ => { s with fault := some "add-in-the-past" }

/-- the shutdown part of `buf_process` -/
def Sim.applyShutdown (s : Sim) (mi : Nat) (m : ModRt) (req : Option (Option Nat)) : Sim :=
  match req with
  | none => s
  | some restart =>
    let s := { s with mods := s.mods.set mi { m with
      active := false, sleepers := [], hung := []
      cancelled := m.cancelled ++ m.sleepers.map (·.2.id) ++ m.hung } }
    match restart with
    | some t => s.schedule (.restart mi) t
    | none => s

/-- `module.deactivate(rt); buf_process(module, rt)` after the event `r` of module `mi`
    (`flush = false` for `at_sim_end`, which does not call `buf_process`) -/
def Sim.finish (s : Sim) (mi : Nat) (r : EventResult) (flush : Bool) : Sim :=
  let s := { s with
    mods := s.mods.set mi r.mod
    downs := s.downs ++ (downMarks r.items s.log.length).map (fun d => (d.1, mi, d.2))
    log := s.log ++ r.log
    fault := match s.fault with
      | some f => some f
      | none => r.fault }
  let s := match r.wake with
    | some t => s.schedule (.wakeup mi) t
    | none => s
  if flush then
    (r.pushes.foldl (fun s p => s.schedule p.1 p.2) s).applyShutdown mi r.mod r.shutdown
  else s

/-- `module.activate(); module.<event>(); module.deactivate(rt); buf_process(module, rt)`:
    a message or a wake-up is ignored by an inactive module, `at_sim_end` is not -/
def Sim.moduleEvent (s : Sim) (mi : Nat) (kind : Kind) (flush : Bool) : Sim :=
  match s.mods[mi]? with
  | none => { s with fault := some "no-such-module" }
  | some m =>
    let c : Ctx := ⟨mi, s.fes.cur⟩
    s.finish mi (if kind.needsActive && !m.active then idleEvent c m else runEvent c m kind) flush

def Sim.restart (s : Sim) (mi : Nat) : Sim :=
  match s.mods[mi]? with
  | none => { s with fault := some "no-such-module" }
  | some m => s.finish mi (restartEvent ⟨mi, s.fes.cur⟩ m) true

/-- `MessageExitingConnection::handle_with_sink` on a channel-less two-gate chain: the message is
    dropped if the owner of the first gate (the sender) is inactive by now -/
def Sim.exitConn (s : Sim) (src dst id : Nat) : Sim :=
  match s.mods[src]? with
  | none => { s with fault := some "no-such-module" }
  | some m => if m.active then s.schedule (.deliver dst id) s.fes.cur else s

/-- `Runtime::dispatch_event`; `none` when the future event set is empty -/
def Sim.step (s : Sim) : Option Sim :=
  match FES.fetch s.fes with
  | .error _ => none
  | .ok (e, f) =>
    let s := { s with fes := f }
    let ev : Option KEvent := s.evs[e.val]?
    match ev with
    | none => some { s with fault := some "no-such-event" }
    | some (KEvent.deliver m id) => some (s.moduleEvent m (.message id) true)
    | some (KEvent.wakeup m) => some (s.moduleEvent m .wakeup true)
    | some (KEvent.restart m) => some (s.restart m)
    | some (KEvent.exitConn src dst id) => some (s.exitConn src dst id)

/-- `dispatch_all`, for at most `fuel` events (a script may well run for ever) -/
def Sim.loop : Nat → Sim → Sim
  | 0, s => if FES.len s.fes = 0 then s else { s with fault := some "out-of-fuel" }
  | n + 1, s =>
    match s.fault with
    | some _ => s
    | none =>
      match s.step with
      | none => s
      | some s' => Sim.loop n s'

/-- `SimLifecycle::at_sim_start`: stages outside, modules inside; a module that shut down in an
    earlier stage is skipped -/
def Sim.simStart (s : Sim) : Sim :=
  let maxStage := s.mods.foldl (fun a m => max a m.handler.stages) 1
  (List.range maxStage).foldl (fun s stage =>
    (List.range s.mods.length).foldl (fun s mi =>
      match s.mods[mi]? with
      | some m =>
        if stage < m.handler.stages && m.active then s.moduleEvent mi (.simStart stage) true else s
      | none => s) s) s

/-- the join part of `ModuleRef::at_sim_end`: first the `try_join` handles (a panic is reported, a
    task that still runs or was cancelled is not), then the `join` handles (still running:
    `NotFinished`, panicked: `Paniced`, cancelled with the runtime at a shutdown: `Tokio`) -/
def joinErrors (m : ModRt) : List JoinErr :=
  let pending (id : Nat) : Bool := m.sleepers.any (fun s => s.2.id == id) || m.hung.contains id
  (m.joins.filter (fun j => !j.2)).filterMap (fun j =>
      if pending j.1 then none else if m.panicked.contains j.1 then some .paniced else none)
  ++ (m.joins.filter (fun j => j.2)).filterMap (fun j =>
      if pending j.1 then some .notFinished
      else if m.panicked.contains j.1 then some .paniced
      else if m.cancelled.contains j.1 then some .tokio
      else none)

/-- `module.activate(); module.at_sim_end(); module.deactivate(rt)`: the tear-down bracket (the
    handles are evaluated after the handler and the last poll of the tasks, before
    `incoming_downstream`; no hook can change a task any more, so they are read off the state after
    the bracket); the join errors are collected, the bracket is closed regardless -/
def Sim.teardown (s : Sim) (mi : Nat) : Sim :=
  let s := s.moduleEvent mi .simEnd false
  match s.mods[mi]? with
  | none => s
  | some m =>
    { s with
      mods := s.mods.set mi { m with joins := [] }
      errors := s.errors ++ (joinErrors m).map (fun e => (mi, e)) }

/-- `SimLifecycle::at_sim_end` -/
def Sim.simEnd (s : Sim) : Sim :=
  (List.range s.mods.length).foldl (fun s mi => s.teardown mi) s

structure Config where
  mods : List ModRt
  inits : List (Nat × Nat × Nat)     -- (module, message id, time): `Runtime::handle_message_on`

def Sim.init (cfg : Config) : Sim :=
  cfg.inits.foldl (fun s i => s.schedule (.deliver i.1 i.2.1) i.2.2)
    { mods := cfg.mods, fes := FES.init, evs := #[], log := [], downs := [], fault := none }

/-- `Runtime::run` (the main loop cut off after `fuel` events) -/
def run (fuel : Nat) (cfg : Config) : Sim :=
  let s := (Sim.init cfg).simStart
  let s := Sim.loop fuel s
  match s.fault with
  | some _ => s
  | none => s.simEnd

/-- `Module::stack` as the harness modules implement it: what the builder's default stack
    (`global`) and the module's own elements (`own`) are combined to -/
inductive StackMode
  | append | prepend | replace
deriving Repr, DecidableEq

def buildStack (mode : StackMode) (global own : List Elem) : List ElemRt :=
  (match mode with
   | .append => global ++ own
   | .prepend => own ++ global
   | .replace => own).map fun e => { spec := e, starts := 0, incs := 0, ends := 0 }

/-- a freshly built module -/
def ModRt.fresh (elems : List ElemRt) (h : Handler) : ModRt :=
  { elems := elems, handler := h, hmsgs := 0, hstarts := 0, active := true, sleepers := [],
    nextWakeup := none, nextTask := 0, joins := [], panicked := [], hung := [], cancelled := [] }

end Proc

/-
Model of what ONE call of `Harness::exec` (des/src/net/runtime/unwind.rs) does to the tokio tasks of a module,
for the pinned tokio 1.45.1 (current-thread runtime + LocalSet).  `exec` (with the C06 repairs) is

    rt.block_on(poll_fn(|cx| {
        if started && !local_work.swap(false) && runtime queue depth == 0 { return Ready }      // idle
        poll once: task_set.run_until(|| { f() once; Pending })  with a waker that sets `local_work`  // A, B
        poll once: yield_now() with cx                                                            // defer main waker
        Pending
    }))

Structure transcribed from tokio (runtime/scheduler/current_thread/mod.rs `CoreGuard::block_on`,
task/local.rs `RunUntil::poll`, `LocalSet::tick`, runtime/scheduler/defer.rs, task/coop).  One poll of the
block_on future and what the scheduler does until it polls it again is a *pass*:

  A  (first pass only) the module callback `f()` runs: spawns / wakes
  B  `LocalSet::tick()`: up to `L` (= MAX_TASKS_PER_TICK = 61) polls from the LocalSet's queue
  C  the scheduler loop `for _ in 0..event_interval`: up to `E` polls from the runtime's queue
         (stops early when the queue is empty)
  D  `park_yield` -> `Defer::wake()`: every deferred waker (tasks that called `yield_now`, or that ran out
         of their cooperative budget `C` = 128 inside one poll) is woken in LIFO order, i.e. *re-queued*;
         the main waker is woken as well, so the block_on future is polled again.

The code before the repair (`block_on(run_until(async { f(); yield_now().await }))`) is exactly ONE pass
(`turn1`): the second poll finds the inner future Ready and returns without ticking the LocalSet again.
The repaired code repeats passes until a pass starts with both queues empty (`drain`); its `local_work` flag
over-approximates "LocalSet queue non-empty" (a spurious `true` costs one empty pass, which changes nothing
observable), so the model tests the queue itself.

A wake performed in any phase appends the woken task to the queue of its kind (`tokio::spawn` tasks: the runtime's
queue; `spawn_local` tasks: the LocalSet's queue; on the owner thread the LocalSet's remote queue and the runtime's
inject queue are never used).

Tasks are small straight-line scripts.  Conditions are counting conditions with a single waiter (Semaphore,
unbounded mpsc, Notify woken at most once); `join` awaits a JoinHandle.  Every queue entry remembers the instant
at which it became runnable (`ready`) and the phase that queued it (`origin`), so that a late poll can be
recognised and attributed.

The budgets `L E C` are parameters (`Params`); `tokioParams` are the values of the code under test, and the
harness measures them on every run.  What is NOT modelled: the order-insensitive internals of the primitives, the
runtime's inject queue / LocalSet remote queue (never used on the owner thread inside `exec`), timers.
-/
namespace Exec

inductive Kind | rt | loc
  deriving DecidableEq, Repr, Inhabited

inductive Instr
  | spawn (t : Nat)   -- tokio::spawn / spawn_local of task t (kind is a property of the task)
  | wake (k : Nat)    -- add_permits(1) / send(()) / notify_one() on condition k
  | wait (k : Nat)    -- acquire().await / recv().await / notified().await on condition k
  | yield             -- tokio::task::yield_now().await, first poll
  | resume            -- (internal) a yield_now that has already yielded: completes when polled again
  | join (t : Nat)    -- JoinHandle of task t .await
  deriving DecidableEq, Repr, Inhabited

/-- the part of `exec` that queued an entry -/
inductive Phase | handler | tick | rtloop | flush
  deriving DecidableEq, Repr, Inhabited

structure Entry where
  kind : Kind
  idx : Nat
  /-- the instant at which the task became runnable (its awaited condition became true) -/
  ready : Nat
  origin : Phase
  deriving DecidableEq, Repr, Inhabited

structure Task where
  kind : Kind
  prog : List Instr
  started : Bool := false
  polled : Bool := false
  done : Bool := false
  joiner : Option (Kind × Nat) := none
  deriving DecidableEq, Repr, Inhabited

structure Cond where
  /-- awaiting this condition consumes cooperative budget (Semaphore, mpsc: yes; Notify: no) -/
  coop : Bool
  permits : Nat := 0
  waiter : Option (Kind × Nat) := none
  deriving DecidableEq, Repr, Inhabited

/-- one observation `SimTime::now()` made by task `idx` right after an await (or at its first poll) -/
structure LogEntry where
  time : Nat
  idx : Nat
  ready : Nat
  origin : Phase
  deriving DecidableEq, Repr, Inhabited

structure St where
  now : Nat := 0
  phase : Phase := .handler
  tasks : List Task := []
  conds : List Cond := []
  /-- the runtime's run queue (`Core::tasks`) -/
  rq : List Entry := []
  /-- the LocalSet's run queue -/
  lq : List Entry := []
  /-- deferred wakers (`Defer`), in push order -/
  dq : List Entry := []
  /-- newest first -/
  log : List LogEntry := []
  deriving DecidableEq, Repr, Inhabited

structure Params where
  /-- LocalSet: MAX_TASKS_PER_TICK -/
  L : Nat
  /-- runtime: event_interval -/
  E : Nat
  /-- coop: Budget::initial() -/
  C : Nat
  deriving DecidableEq, Repr

/-- the values of the code under test: tokio 1.45.1 constants, `event_interval` as des configures it -/
def tokioParams : Params := { L := 61, E := 4294967295, C := 128 }

def queue (q : Kind) (s : St) : List Entry :=
  match q with
  | .rt => s.rq
  | .loc => s.lq

def setQueue (q : Kind) (s : St) (l : List Entry) : St :=
  match q with
  | .rt => { s with rq := l }
  | .loc => { s with lq := l }

/-- `Schedule::schedule` on the owner thread: append to the queue of the task's kind -/
def pushEntry (s : St) (e : Entry) : St :=
  match e.kind with
  | .rt => { s with rq := s.rq ++ [e] }
  | .loc => { s with lq := s.lq ++ [e] }

def enqueue (s : St) (k : Kind) (i : Nat) : St := pushEntry s ⟨k, i, s.now, s.phase⟩

/-- `context::defer(waker)` -/
def defer (s : St) (k : Kind) (i : Nat) : St := { s with dq := s.dq ++ [⟨k, i, s.now, s.phase⟩] }

def spawnTask (s : St) (t : Nat) : St :=
  match s.tasks[t]? with
  | none => s
  | some tk =>
    if tk.started then s
    else enqueue { s with tasks := s.tasks.set t { tk with started := true } } tk.kind t

def wakeCond (s : St) (k : Nat) : St :=
  match s.conds[k]? with
  | none => s
  | some c =>
    match c.waiter with
    | none => { s with conds := s.conds.set k { c with permits := c.permits + 1 } }
    | some (wk, wi) =>
      enqueue { s with conds := s.conds.set k { c with permits := c.permits + 1, waiter := none } } wk wi

def setProg (s : St) (i : Nat) (p : List Instr) : St :=
  match s.tasks[i]? with
  | none => s
  | some tk => { s with tasks := s.tasks.set i { tk with prog := p } }

def logAt (s : St) (i rdy : Nat) (org : Phase) : St := { s with log := ⟨s.now, i, rdy, org⟩ :: s.log }

/-- the task's future returned Ready: mark it done, wake the JoinHandle's waker -/
def finish (s : St) (i : Nat) : St :=
  match s.tasks[i]? with
  | none => s
  | some tk =>
    let s' := { s with tasks := s.tasks.set i { tk with done := true, prog := [] } }
    match tk.joiner with
    | none => s'
    | some (k, j) => enqueue s' k j

/-- one poll of task `i`: run its remaining program until it blocks, is deferred, or finishes.
`c` = remaining cooperative budget of this poll; `(rdy, org)` describe why this poll happens (for the next
observation); after the first completed await later awaits of the same poll are ready "now". -/
def runProg (k : Kind) (i : Nat) : List Instr → Nat → Nat → Phase → St → St
  | [], _, _, _, s => finish s i
  | .spawn t :: r, c, rdy, org, s => runProg k i r c rdy org (spawnTask (setProg s i r) t)
  | .wake q :: r, c, rdy, org, s => runProg k i r c rdy org (wakeCond (setProg s i r) q)
  | .yield :: r, _, _, _, s => defer (setProg s i (.resume :: r)) k i
  | .resume :: r, c, rdy, org, s => runProg k i r c s.now s.phase (logAt (setProg s i r) i rdy org)
  | .wait q :: r, c, rdy, org, s =>
    match s.conds[q]? with
    | none => s
    | some cd =>
      if cd.coop && c == 0 then defer s k i
      else if cd.permits == 0 then { s with conds := s.conds.set q { cd with waiter := some (k, i) } }
      else
        let s1 := { s with conds := s.conds.set q { cd with permits := cd.permits - 1 } }
        runProg k i r (if cd.coop then c - 1 else c) s.now s.phase (logAt (setProg s1 i r) i rdy org)
  | .join t :: r, c, rdy, org, s =>
    match s.tasks[t]? with
    | none => s
    | some tj =>
      if c == 0 then defer s k i
      else if tj.done then runProg k i r (c - 1) s.now s.phase (logAt (setProg s i r) i rdy org)
      else { s with tasks := s.tasks.set t { tj with joiner := some (k, i) } }

def markPolled (s : St) (i : Nat) : St :=
  match s.tasks[i]? with
  | none => s
  | some tk => { s with tasks := s.tasks.set i { tk with polled := true } }

/-- `task.run()` for a popped queue entry -/
def pollTask (P : Params) (e : Entry) (s : St) : St :=
  match s.tasks[e.idx]? with
  | none => s
  | some tk =>
    if tk.done then s
    else if tk.polled then runProg e.kind e.idx tk.prog P.C e.ready e.origin s
    else runProg e.kind e.idx tk.prog P.C s.now s.phase (logAt (markPolled s e.idx) e.idx e.ready e.origin)

/-- pop the head of queue `q` and poll it -/
def step (P : Params) (q : Kind) (s : St) : St :=
  match queue q s with
  | [] => s
  | e :: r => pollTask P e (setQueue q s r)

/-- `for _ in 0..b { match next_task() { Some(t) => t.run(), None => break } }` -/
def runQ (P : Params) (q : Kind) : Nat → St → St
  | 0, s => s
  | b + 1, s =>
    match queue q s with
    | [] => s
    | _ :: _ => runQ P q b (step P q s)

/-- the number of polls `runQ P q b s` performs -/
def polls (P : Params) (q : Kind) : Nat → St → Nat
  | 0, _ => 0
  | b + 1, s =>
    match queue q s with
    | [] => 0
    | _ :: _ => polls P q b (step P q s) + 1

/-! ### termination measures -/

def iw : Instr → Nat
  | .yield => 4
  | _ => 2

def tw (t : Task) : Nat := if t.done then 0 else 1 + (t.prog.map iw).sum

/-- bounds the number of polls one `runQ` can make -/
def measure (s : St) : Nat := s.rq.length + s.lq.length + (s.tasks.map tw).sum

/-- instruction weights for `potential`: an await pays for one deferral -/
def iw3 : Instr → Nat
  | .yield => 5
  | .wait _ => 3
  | .join _ => 3
  | _ => 2

def tw3 (t : Task) : Nat := if t.done then 0 else 1 + (t.prog.map iw3).sum

/-- the module callback `f()` (synchronous: only spawns and wakes have an effect) -/
def runH : List Instr → St → St
  | [], s => s
  | .spawn t :: r, s => runH r (spawnTask s t)
  | .wake k :: r, s => runH r (wakeCond s k)
  | _ :: r, s => runH r s

/-- `Defer::wake()`: pop from the back, wake (= re-queue) each -/
def flush (s : St) : St :=
  s.dq.reverse.foldl (fun s e => pushEntry s { e with origin := .flush }) { s with dq := [], phase := .flush }

def afterHandler (h : List Instr) (s : St) : St := runH h { s with phase := .handler }
/-- the state in which `LocalSet::tick` starts -/
def tickStart (s : St) : St := { s with phase := .tick }
def afterTick (P : Params) (s : St) : St := runQ P .loc P.L (tickStart s)
/-- the state in which the scheduler loop of `block_on` starts -/
def rtStart (P : Params) (s : St) : St := { afterTick P s with phase := .rtloop }
def afterRt (P : Params) (s : St) : St := runQ P .rt P.E (rtStart P s)

/-- one pass B;C;D -/
def pass (P : Params) (s : St) : St := flush (afterRt P s)

/-- the unrepaired `exec`: the callback and exactly one pass -/
def turn1 (P : Params) (h : List Instr) (s : St) : St := pass P (afterHandler h s)

/-- bounds the number of passes `drain` needs (see Proofs/ExecPotential.lean) -/
def potential (s : St) : Nat := s.rq.length + s.lq.length + s.dq.length + (s.tasks.map tw3).sum

/-- repeat passes until one would start with nothing runnable -/
def drain (P : Params) : Nat → St → St
  | 0, s => s
  | n + 1, s => if s.rq.isEmpty && s.lq.isEmpty then s else drain P n (pass P s)

/-- one `Harness::exec(f)` (repaired): the callback, one pass, then passes until idle.  The real loop is
unbounded; `potential` is proved to be enough fuel (`C06.exec_drains`). -/
def exec (P : Params) (h : List Instr) (s : St) : St :=
  drain P (potential (turn1 P h s)) (turn1 P h s)

/-- an event for the module at instant `t` whose callback is `h` -/
def deliver (P : Params) (t : Nat) (h : List Instr) (s : St) : St := exec P h { s with now := t }

def runEvents (P : Params) : List (Nat × List Instr) → St → St
  | [], s => s
  | (t, h) :: r, s => runEvents P r (deliver P t h s)

/-- the unrepaired module step: set the clock, the callback, one pass -/
def deliver1 (P : Params) (t : Nat) (h : List Instr) (s : St) : St := turn1 P h { s with now := t }

def runEvents1 (P : Params) : List (Nat × List Instr) → St → St
  | [], s => s
  | (t, h) :: r, s => runEvents1 P r (deliver1 P t h s)

/-- nothing is runnable -/
def Quiet (s : St) : Prop := s.rq = [] ∧ s.lq = [] ∧ s.dq = []

instance (s : St) : Decidable (Quiet s) := by unfold Quiet; infer_instance

/-! ### the executor the property asks for (specification): keep turning until nothing is runnable,
with budgets that never bind -/

def idealDeliver (big : Nat) (t : Nat) (h : List Instr) (s : St) : St :=
  drain ⟨big, big, big⟩ big (pass ⟨big, big, big⟩ (afterHandler h { s with now := t }))

def idealEvents (big : Nat) : List (Nat × List Instr) → St → St
  | [], s => s
  | (t, h) :: r, s => idealEvents big r (idealDeliver big t h s)

end Exec

/-
Model of what ONE call of `Harness::exec` (des/src/net/runtime/unwind.rs) does to the tokio tasks of a module,
for the pinned tokio 1.45.1 (current-thread runtime + LocalSet).  `exec` (with the C06 repairs) is

    rt.block_on(poll_fn(|cx| {
        if started && !local_work.swap(false) && runtime queue depth == 0 { return Ready }      // idle
        poll once: task_set.run_until(|| { f() once; Pending })  with a waker that sets `local_work`  // A, B
        poll once: yield_now() with cx                                                            // defer main waker
        Pending
    }))

Structure transcribed from tokio (runtime/scheduler/current_thread/mod.rs `CoreGuard::block_on`,
task/local.rs `RunUntil::poll`, `LocalSet::tick`, runtime/scheduler/defer.rs, task/coop).  One poll of the
block_on future and what the scheduler does until it polls it again is a *pass*:

  A  (first pass only) the module callback `f()` runs: spawns / wakes
  B  `LocalSet::tick()`: up to `L` (= MAX_TASKS_PER_TICK = 61) polls from the LocalSet's queue
  C  the scheduler loop `for _ in 0..event_interval`: up to `E` polls from the runtime's queue
         (stops early when the queue is empty)
  D  `park_yield` -> `Defer::wake()`: every deferred waker (tasks that called `yield_now`, or that ran out
         of their cooperative budget `C` = 128 inside one poll) is woken in LIFO order, i.e. *re-queued*;
         the main waker is woken as well, so the block_on future is polled again.

The code before the repair (`block_on(run_until(async { f(); yield_now().await }))`) is exactly ONE pass
(`turn1`): the second poll finds the inner future Ready and returns without ticking the LocalSet again.
The repaired code repeats passes until a pass starts with both queues empty (`drain`); its `local_work` flag
over-approximates "LocalSet queue non-empty": a spurious `true` (a tick that used exactly its budget) costs one
empty pass, which is observable through `Core::tick`, so the model carries the flag (`lflag`).

A wake performed inside `block_on` appends the woken task to the queue of its kind (`tokio::spawn` tasks: the
runtime's local queue `Core::tasks`; `spawn_local` tasks: the LocalSet's queue).  A wake performed OUTSIDE
`block_on` - the timer wake-ups of `ModuleRef::activate()` (`TimerSlot::wake_all`), the wakes a consuming
`ProcessingElement` performs in `incoming_upstream` - finds no scheduler context: a `tokio::spawn` task goes to the
runtime's INJECT queue (`Handle::schedule` -> `shared.inject.push`), a `spawn_local` task still to the LocalSet's
own queue (owner thread; the LocalSet's remote queue is never used).  The scheduler loop takes
`Core::next_task()`: `tick += 1; if tick % global_queue_interval == 0 { inject, then local } else { local, then
inject }`; the iteration that finds both empty counts as a tick as well (`Core::tick` lives as long as the runtime).

Timers (des/src/time): `sleep(d)` / `sleep_until(t)` register `(deadline, waker)` with the module's `TimerQueue`
unless the deadline is not in the future; `activate()` wakes every timer whose deadline has passed, slots in
deadline order, entries in registration order; `deactivate()` schedules an `AsyncWakeupEvent` for the earliest
pending deadline unless one at or before it is already scheduled (`Driver::next_wakeup`).  `runSim` is the event
loop of one module: external messages and these wake-up events in time order (external first on a tie: it was
scheduled earlier).

Tasks are small straight-line scripts.  Conditions are tokio primitives with a FIFO queue of waiting tasks and
direct hand-over: a wake takes the longest-waiting task off the queue, grants it (`Task.granted`) and schedules
it; only without a waiter the permit is stored (Semaphore: counted; unbounded mpsc: queued messages, one receiver;
Notify: at most one stored permit, `cap1`).  `notifyAll` is `Notify::notify_waiters`: every waiting task is granted
and scheduled, oldest first, nothing is stored.  `join` awaits a JoinHandle (of any task, once).

`waitT k d` is `des::time::timeout(d, <await on k>)`: two concurrent awaits inside one task - the condition and a
`Sleep`; `Timeout::poll` polls the await first, then the Sleep.  The loser is dropped: when the await completes the
Sleep's timer leaves the timer queue (`removeTimer`), when the Sleep elapses the task leaves the condition's waiter
queue (`removeWaiter`).  A task woken by BOTH in one instant is scheduled once, as tokio does not schedule a
task that is scheduled already: `grant` does not enqueue a task whose timer has fired (`timerFired`), `fire` does
not enqueue a task that has been granted.  (Only for conditions without cooperative budget - Notify.)

Wakes performed by ANOTHER module's event (a shared `Arc<Notify>` / channel) reach the module like wakes from
outside the executor (inject queue / LocalSet queue, phase `.foreign`); nothing polls the module then - its tasks
continue at the module's next own event.  C06 is stated for "an event processed for a module" and "every task of
that module": entries of origin `.foreign` are therefore exempt from the on-time requirement, but not from
`exec_drains` at the module's next event.  Every queue entry remembers the instant
at which it became runnable (`ready`) and the phase that queued it (`origin`), so that a late poll can be
recognised and attributed.

The budgets `L E C` are parameters (`Params`); `tokioParams` are the values of the code under test, and the
harness measures them on every run.  What is NOT modelled: the order-insensitive internals of the primitives, the
LocalSet remote queue and its tick counter (never used on the owner thread), wrap-around of `Core::tick` (u32),
cancelled / reset timers (no `select`, `timeout`, `interval` in the scripts).
-/
namespace Exec

inductive Kind | rt | loc
  deriving DecidableEq, Repr, Inhabited

inductive Instr
  | spawn (t : Nat)   -- tokio::spawn / spawn_local of task t (kind is a property of the task)
  | wake (k : Nat)    -- add_permits(1) / send(()) / notify_one() on condition k
  | wait (k : Nat)    -- acquire().await / recv().await / notified().await on condition k
  | yield             -- tokio::task::yield_now().await, first poll
  | resume            -- (internal) a yield_now that has already yielded: completes when polled again
  | join (t : Nat)    -- JoinHandle of task t .await
  | waiting (k : Nat) -- (internal) an await on condition k that is registered in the condition's waiter queue
  | joining (t : Nat) -- (internal) a JoinHandle await whose waker is registered with task t
  | notifyAll (k : Nat) -- Notify::notify_waiters() on condition k
  | waitT (k d : Nat)   -- des::time::timeout(d, <await on condition k>).await  (two concurrent awaits: the condition
                        --  and a Sleep; the loser is dropped)
  | waitingT (k t : Nat) -- (internal) a timeout whose await is registered with condition k and whose Sleep is
                        --  registered with the timer queue, deadline t
  | sleep (d : Nat)       -- des::time::sleep(d).await
  | sleepUntil (t : Nat)  -- des::time::sleep_until(t).await
  | sleeping (t : Nat)    -- (internal) a Sleep that is registered with the timer queue, deadline t
  deriving DecidableEq, Repr, Inhabited

/-- the part of `exec` that queued an entry -/
inductive Phase | handler | tick | rtloop | flush | outside | timer | foreign
  deriving DecidableEq, Repr, Inhabited

structure Entry where
  kind : Kind
  idx : Nat
  /-- the instant at which the task became runnable (its awaited condition became true) -/
  ready : Nat
  origin : Phase
  deriving DecidableEq, Repr, Inhabited

structure Task where
  kind : Kind
  prog : List Instr
  started : Bool := false
  polled : Bool := false
  done : Bool := false
  joiner : Option (Kind × Nat) := none
  /-- a wake handed its permit / notification to this waiting task -/
  granted : Bool := false
  deriving DecidableEq, Repr, Inhabited

structure Cond where
  /-- awaiting this condition consumes cooperative budget (Semaphore, mpsc: yes; Notify: no) -/
  coop : Bool
  /-- Notify: at most one stored permit -/
  cap1 : Bool := false
  permits : Nat := 0
  /-- tasks registered as waiting, oldest first -/
  waiters : List (Kind × Nat) := []
  deriving DecidableEq, Repr, Inhabited

/-- one observation `SimTime::now()` made by task `idx` right after an await (or at its first poll) -/
structure LogEntry where
  time : Nat
  idx : Nat
  ready : Nat
  origin : Phase
  deriving DecidableEq, Repr, Inhabited

/-- a registered timer -/
structure Timer where
  deadline : Nat
  kind : Kind
  idx : Nat
  deriving DecidableEq, Repr, Inhabited

structure St where
  now : Nat := 0
  phase : Phase := .handler
  tasks : List Task := []
  conds : List Cond := []
  /-- the runtime's run queue (`Core::tasks`) -/
  rq : List Entry := []
  /-- the runtime's inject queue (tasks woken outside `block_on`) -/
  iq : List Entry := []
  /-- `Core::tick` -/
  tick : Nat := 0
  /-- the LocalSet's run queue -/
  lq : List Entry := []
  /-- the module's `TimerQueue`, sorted by deadline, registration order within a deadline -/
  timers : List Timer := []
  /-- the `local_work` flag of `Harness::exec`: set by the waker handed to the LocalSet, i.e. when a LocalSet tick
  used up its budget and whenever a local task is scheduled while the LocalSet is not being polled -/
  lflag : Bool := false
  /-- deferred wakers (`Defer`), in push order -/
  dq : List Entry := []
  /-- newest first -/
  log : List LogEntry := []
  /-- the number of observations so far (`log.length`, kept as a counter: histories get long) -/
  nobs : Nat := 0
  /-- (ghost) the number of polls so far that made no observation: a task that was deferred by the cooperative
  budget at an await that cannot complete registers there when it is polled again -/
  silent : Nat := 0
  deriving DecidableEq, Repr, Inhabited

structure Params where
  /-- LocalSet: MAX_TASKS_PER_TICK -/
  L : Nat
  /-- runtime: event_interval -/
  E : Nat
  /-- coop: Budget::initial() -/
  C : Nat
  /-- runtime: global_queue_interval -/
  G : Nat := 31
  deriving DecidableEq, Repr

/-- the values of the code under test: tokio 1.45.1 constants, `event_interval` as des configures it -/
def tokioParams : Params := { L := 61, E := 4294967295, C := 128 }

/-- `Schedule::schedule` on the owner thread: inside `block_on` append to the queue of the task's kind; outside
(`phase = .outside`, or another module's event: `.foreign`) a runtime task goes to the inject queue -/
def pushEntry (s : St) (e : Entry) : St :=
  match e.kind with
  | .rt =>
    if s.phase = .outside ∨ s.phase = .foreign then { s with iq := s.iq ++ [e] } else { s with rq := s.rq ++ [e] }
  | .loc =>
    -- `Shared::schedule`: while the LocalSet is not being polled its waker is woken (inside `exec` that is the
    -- `local_work` flag; before `exec` a stale waker of the previous event)
    if s.phase = .rtloop ∨ s.phase = .flush then { s with lq := s.lq ++ [e], lflag := true }
    else { s with lq := s.lq ++ [e] }

def enqueue (s : St) (k : Kind) (i : Nat) : St := pushEntry s ⟨k, i, s.now, s.phase⟩

/-- `context::defer(waker)` -/
def defer (s : St) (k : Kind) (i : Nat) : St := { s with dq := s.dq ++ [⟨k, i, s.now, s.phase⟩] }

def spawnTask (s : St) (t : Nat) : St :=
  match s.tasks[t]? with
  | none => s
  | some tk =>
    if tk.started then s
    else enqueue { s with tasks := s.tasks.set t { tk with started := true } } tk.kind t

/-- task `wi` waits in a `timeout` whose timer has already fired in this instant: it is scheduled already (tokio
does not schedule a task twice) -/
def timerFired (s : St) (tk : Task) (wk : Kind) (wi : Nat) : Bool :=
  match tk.prog with
  | .waitingT _ t :: _ => !(s.timers.contains ⟨t, wk, wi⟩)
  | _ => false

/-- hand a permit / notification to waiting task `wi` and schedule it (unless it is scheduled already) -/
def grant (s : St) (wk : Kind) (wi : Nat) : St :=
  match s.tasks[wi]? with
  | none => enqueue s wk wi
  | some tk =>
    if timerFired s tk wk wi then { s with tasks := s.tasks.set wi { tk with granted := true } }
    else enqueue { s with tasks := s.tasks.set wi { tk with granted := true } } wk wi

/-- `add_permits(1)` / `send(())` / `notify_one()`: the longest-waiting task gets it, else it is stored -/
def wakeCond (s : St) (k : Nat) : St :=
  match s.conds[k]? with
  | none => s
  | some c =>
    match c.waiters with
    | [] => { s with conds := s.conds.set k { c with permits := if c.cap1 then 1 else c.permits + 1 } }
    | (wk, wi) :: r => grant { s with conds := s.conds.set k { c with waiters := r } } wk wi

def grantAll : List (Kind × Nat) → St → St
  | [], s => s
  | (wk, wi) :: r, s => grantAll r (grant s wk wi)

/-- `notify_waiters()` -/
def wakeAll (s : St) (k : Nat) : St :=
  match s.conds[k]? with
  | none => s
  | some c => grantAll c.waiters { s with conds := s.conds.set k { c with waiters := [] } }

def condCoop (s : St) (q : Nat) : Bool :=
  match s.conds[q]? with
  | none => false
  | some cd => cd.coop

def setProg (s : St) (i : Nat) (p : List Instr) : St :=
  match s.tasks[i]? with
  | none => s
  | some tk => { s with tasks := s.tasks.set i { tk with prog := p } }

def logAt (s : St) (i rdy : Nat) (org : Phase) : St :=
  { s with log := ⟨s.now, i, rdy, org⟩ :: s.log, nobs := s.nobs + 1 }

/-- `TimerQueue::add`: behind every timer whose deadline is not later -/
def insertTimer (tm : Timer) : List Timer → List Timer
  | [] => [tm]
  | x :: r => if x.deadline ≤ tm.deadline then x :: insertTimer tm r else tm :: x :: r

def addTimer (s : St) (tm : Timer) : St := { s with timers := insertTimer tm s.timers }

/-- a `Sleep` is dropped before it elapsed: `TimerSlotEntryHandle::drop` takes its entry out of the timer queue -/
def removeTimer (s : St) (tm : Timer) : St := { s with timers := s.timers.erase tm }

/-- a registered await is dropped: it leaves the condition's waiter queue -/
def removeWaiter (s : St) (q : Nat) (w : Kind × Nat) : St :=
  match s.conds[q]? with
  | none => s
  | some cd => { s with conds := s.conds.set q { cd with waiters := cd.waiters.erase w } }

/-- the task's future returned Ready: mark it done, wake the JoinHandle's waker -/
def finish (s : St) (i : Nat) : St :=
  match s.tasks[i]? with
  | none => s
  | some tk =>
    let s' := { s with tasks := s.tasks.set i { tk with done := true, prog := [] } }
    match tk.joiner with
    | none => s'
    | some (k, j) => enqueue s' k j

/-- one poll of task `i`: run its remaining program until it blocks, is deferred, or finishes.
`c` = remaining cooperative budget of this poll; `(rdy, org)` describe why this poll happens (for the next
observation); after the first completed await later awaits of the same poll are ready "now". -/
def runProg (k : Kind) (i : Nat) : List Instr → Nat → Nat → Phase → St → St
  | [], _, _, _, s => finish s i
  | .spawn t :: r, c, rdy, org, s => runProg k i r c rdy org (spawnTask (setProg s i r) t)
  | .wake q :: r, c, rdy, org, s => runProg k i r c rdy org (wakeCond (setProg s i r) q)
  | .yield :: r, _, _, _, s => defer (setProg s i (.resume :: r)) k i
  | .resume :: r, c, rdy, org, s => runProg k i r c s.now s.phase (logAt (setProg s i r) i rdy org)
  | .notifyAll q :: r, c, rdy, org, s => runProg k i r c rdy org (wakeAll (setProg s i r) q)
  | .wait q :: r, c, rdy, org, s =>
    match s.conds[q]? with
    | none => s
    | some cd =>
      if cd.coop && c == 0 then defer s k i
      else if cd.permits == 0 then
        setProg { s with conds := s.conds.set q { cd with waiters := cd.waiters ++ [(k, i)] } } i (.waiting q :: r)
      else
        let s1 := { s with conds := s.conds.set q { cd with permits := cd.permits - 1 } }
        runProg k i r (if cd.coop then c - 1 else c) s.now s.phase (logAt (setProg s1 i r) i rdy org)
  | .waiting q :: r, c, rdy, org, s =>
    let coop := condCoop s q
    match s.tasks[i]? with
    | none => s
    | some tk =>
      if coop && c == 0 then defer s k i
      else if tk.granted then
        let s1 := { s with tasks := s.tasks.set i { tk with granted := false } }
        runProg k i r (if coop then c - 1 else c) s.now s.phase (logAt (setProg s1 i r) i rdy org)
      else s
  | .join t :: r, c, rdy, org, s =>
    match s.tasks[t]? with
    | none => s
    | some tj =>
      if !tj.started then s
      else if c == 0 then defer s k i
      else if tj.done then runProg k i r (c - 1) s.now s.phase (logAt (setProg s i r) i rdy org)
      else setProg { s with tasks := s.tasks.set t { tj with joiner := some (k, i) } } i (.joining t :: r)
  | .joining t :: r, c, rdy, org, s =>
    match s.tasks[t]? with
    | none => s
    | some tj =>
      if c == 0 then defer s k i
      else if tj.done then runProg k i r (c - 1) s.now s.phase (logAt (setProg s i r) i rdy org)
      else s
  | .waitT q d :: r, c, rdy, org, s =>
    -- `Timeout::poll`: the await first; if it is pending, the Sleep
    match s.conds[q]? with
    | none => s
    | some cd =>
      if cd.permits == 0 then
        if s.now < s.now + d then
          addTimer (setProg { s with conds := s.conds.set q { cd with waiters := cd.waiters ++ [(k, i)] } } i
            (.waitingT q (s.now + d) :: r)) ⟨s.now + d, k, i⟩
        else runProg k i r c s.now s.phase (logAt (setProg s i r) i rdy org)
      else
        let s1 := { s with conds := s.conds.set q { cd with permits := cd.permits - 1 } }
        runProg k i r c s.now s.phase (logAt (setProg s1 i r) i rdy org)
  | .waitingT q t :: r, c, rdy, org, s =>
    match s.tasks[i]? with
    | none => s
    | some tk =>
      if tk.granted then
        -- the await won: the Sleep is dropped
        let s1 := removeTimer { s with tasks := s.tasks.set i { tk with granted := false } } ⟨t, k, i⟩
        runProg k i r c s.now s.phase (logAt (setProg s1 i r) i rdy org)
      else if s.now < t then s
      else
        -- elapsed: the await is dropped
        runProg k i r c s.now s.phase (logAt (setProg (removeWaiter s q (k, i)) i r) i rdy org)
  | .sleep d :: r, c, rdy, org, s =>
    if s.now < s.now + d then addTimer (setProg s i (.sleeping (s.now + d) :: r)) ⟨s.now + d, k, i⟩
    else runProg k i r c s.now s.phase (logAt (setProg s i r) i rdy org)
  | .sleepUntil t :: r, c, rdy, org, s =>
    if s.now < t then addTimer (setProg s i (.sleeping t :: r)) ⟨t, k, i⟩
    else runProg k i r c s.now s.phase (logAt (setProg s i r) i rdy org)
  | .sleeping t :: r, c, rdy, org, s =>
    if s.now < t then s
    else runProg k i r c s.now s.phase (logAt (setProg s i r) i rdy org)

def markPolled (s : St) (i : Nat) : St :=
  match s.tasks[i]? with
  | none => s
  | some tk => { s with tasks := s.tasks.set i { tk with polled := true } }

/-- `task.run()` for a popped queue entry -/
def pollTask (P : Params) (e : Entry) (s : St) : St :=
  match s.tasks[e.idx]? with
  | none => s
  | some tk =>
    if tk.done then s
    else if tk.polled then runProg tk.kind e.idx tk.prog P.C e.ready e.origin s
    else runProg tk.kind e.idx tk.prog P.C s.now s.phase (logAt (markPolled s e.idx) e.idx e.ready e.origin)

/-- `next_task()`: the LocalSet pops its queue; the runtime (`Core::next_task`) ticks and looks at the inject
queue first on every `G`-th tick, else at its local queue first -/
def pop (P : Params) (q : Kind) (s : St) : Option (Entry × St) :=
  match q with
  | .loc =>
    match s.lq with
    | [] => none
    | e :: r => some (e, { s with lq := r })
  | .rt =>
    if (s.tick + 1) % P.G = 0 then
      match s.iq, s.rq with
      | e :: r, _ => some (e, { s with iq := r, tick := s.tick + 1 })
      | [], e :: r => some (e, { s with rq := r, tick := s.tick + 1 })
      | [], [] => none
    else
      match s.rq, s.iq with
      | e :: r, _ => some (e, { s with rq := r, tick := s.tick + 1 })
      | [], e :: r => some (e, { s with iq := r, tick := s.tick + 1 })
      | [], [] => none

/-- (ghost) count a poll that added nothing to the log -/
def noteSilent (before r : St) : St :=
  if r.nobs = before.nobs then { r with silent := r.silent + 1 } else r

/-- pop the next task of queue `q` and poll it -/
def step (P : Params) (q : Kind) (s : St) : St :=
  match pop P q s with
  | none => s
  | some (e, s') =>
    noteSilent s' (pollTask P e s')

/-- `for _ in 0..b { match next_task() { Some(t) => t.run(), None => break } }` -/
def runQ (P : Params) (q : Kind) : Nat → St → St
  | 0, s => s
  | b + 1, s =>
    match pop P q s with
    | none => s
    | some _ => runQ P q b (step P q s)

/-- the number of polls `runQ P q b s` performs -/
def polls (P : Params) (q : Kind) : Nat → St → Nat
  | 0, _ => 0
  | b + 1, s =>
    match pop P q s with
    | none => 0
    | some _ => polls P q b (step P q s) + 1

/-- `runQ` and `polls` in one go (`Exec.runQn_eq`) -/
def runQn (P : Params) (q : Kind) : Nat → St → St × Nat
  | 0, s => (s, 0)
  | b + 1, s =>
    match pop P q s with
    | none => (s, 0)
    | some _ =>
      let (r, n) := runQn P q b (step P q s)
      (r, n + 1)

/-! ### termination measures -/

def iw : Instr → Nat
  | .yield => 4
  | .sleep _ => 4
  | .sleepUntil _ => 4
  | .wait _ => 3
  | .join _ => 3
  | .waitT _ _ => 3
  | _ => 2

/-- a registered JoinHandle waker counts: the finishing task will schedule it -/
def jw (t : Task) : Nat := if t.joiner.isSome then 1 else 0

def tw (t : Task) : Nat := if t.done then 0 else 1 + (t.prog.map iw).sum + jw t

/-- registered waiters count: a wake will schedule them -/
def cw (c : Cond) : Nat := c.waiters.length

/-- bounds the number of polls one `runQ` can make -/
def measure (s : St) : Nat :=
  s.rq.length + s.iq.length + s.lq.length + (s.tasks.map tw).sum + (s.conds.map cw).sum

/-- instruction weights for `potential`: an await pays for one deferral -/
def iw3 : Instr → Nat
  | .yield => 5
  | .wait _ => 3
  | .join _ => 3
  | .sleep _ => 4
  | .sleepUntil _ => 4
  | .waitT _ _ => 3
  | _ => 2

def tw3 (t : Task) : Nat := if t.done then 0 else 1 + (t.prog.map iw3).sum + jw t

/-- the module callback `f()` (synchronous: only spawns and wakes have an effect) -/
def runH : List Instr → St → St
  | [], s => s
  | .spawn t :: r, s => runH r (spawnTask s t)
  | .wake k :: r, s => runH r (wakeCond s k)
  | .notifyAll k :: r, s => runH r (wakeAll s k)
  | _ :: r, s => runH r s

/-- `Defer::wake()`: pop from the back, wake (= re-queue) each -/
def flush (s : St) : St :=
  s.dq.reverse.foldl (fun s e => pushEntry s { e with origin := .flush }) { s with dq := [], phase := .flush }

def afterHandler (h : List Instr) (s : St) : St := runH h { s with phase := .handler }
/-- the state in which `LocalSet::tick` starts -/
def tickStart (s : St) : St := { s with phase := .tick }
/-- `LocalSet::tick()` returns `true` (and `RunUntil::poll` wakes its waker) iff it used all `L` iterations -/
def afterTick (P : Params) (s : St) : St :=
  let (r, n) := runQn P .loc P.L (tickStart s)
  if n < P.L then r else { r with lflag := true }
/-- the state in which the scheduler loop of `block_on` starts -/
def rtStart (P : Params) (s : St) : St := { afterTick P s with phase := .rtloop }
/-- the scheduler loop; when it ends because `next_task()` found nothing (not because the budget is used up) that
last iteration has ticked as well -/
def afterRt (P : Params) (s : St) : St :=
  let (r, n) := runQn P .rt P.E (rtStart P s)
  if n < P.E then { r with tick := r.tick + 1 } else r

/-- one pass B;C;D -/
def pass (P : Params) (s : St) : St := flush (afterRt P s)

/-- the unrepaired `exec`: the callback and exactly one pass (the `local_work` flag starts cleared) -/
def turn1 (P : Params) (h : List Instr) (s : St) : St := pass P (afterHandler h { s with lflag := false })

/-- bounds the number of passes `drain` needs (see Proofs/ExecPotential.lean) -/
def potential (s : St) : Nat :=
  s.rq.length + s.iq.length + s.lq.length + s.dq.length + (s.tasks.map tw3).sum + (s.conds.map cw).sum

/-- repeat passes until one would start with nothing runnable -/
def drain (P : Params) : Nat → St → St
  | 0, s => s
  | n + 1, s =>
    if !s.lflag && s.rq.isEmpty && s.iq.isEmpty then s else drain P n (pass P { s with lflag := false })

/-- one `Harness::exec(f)` (repaired): the callback, one pass, then passes until idle.  The real loop is
unbounded; `2 * potential + 1` is proved to be enough fuel (`C06.exec_drains`). -/
def exec (P : Params) (h : List Instr) (s : St) : St :=
  let t := turn1 P h s
  drain P (2 * potential t + 1) t

/-- `ModuleRef::activate()` at instant `t`: the clock is `t`; every timer whose deadline has passed is woken
(outside `block_on`), slots in deadline order, entries in registration order -/
def isGranted (s : St) (i : Nat) : Bool :=
  match s.tasks[i]? with
  | none => false
  | some tk => tk.granted

/-- `TimerSlot::wake_all` for one entry: a task that a wake has scheduled already is not scheduled again -/
def fire (s : St) (tm : Timer) : St :=
  if isGranted s tm.idx then s else pushEntry s ⟨tm.kind, tm.idx, tm.deadline, .timer⟩

def activate (t : Nat) (s : St) : St :=
  (s.timers.filter (·.deadline ≤ t)).foldl fire
    { s with now := t, phase := .outside, timers := s.timers.filter (t < ·.deadline) }

/-- `activate()`: a `Driver::next_wakeup` (`none` = SimTime::MAX) that has passed is forgotten -/
def resetWakeup (t : Nat) : Option Nat → Option Nat
  | some w => if w ≤ t then none else some w
  | none => none

def minL : List Nat → Option Nat
  | [] => none
  | x :: r => match minL r with
    | none => some x
    | some m => some (if x ≤ m then x else m)

/-- `ModuleRef::deactivate()`: an `AsyncWakeupEvent` is scheduled for the earliest pending deadline
(`TimerQueue::next`) unless `next_wakeup` is not later; returns the new `next_wakeup` and the instant of the
newly scheduled event, if any -/
def deactivate (s : St) (nw : Option Nat) : Option Nat × Option Nat :=
  match minL (s.timers.map (·.deadline)) with
  | none => (nw, none)
  | some d =>
    match nw with
    | none => (some d, some d)
    | some w => if d < w then (some d, some d) else (nw, none)

/-- an event of the module: a message whose handler is `prog`; a message `consumed` by a processing element that
executes `prog` (wakes only) in `incoming_upstream`, i.e. outside `block_on`; a timer wake-up (`prog = []`) -/
structure Ev where
  time : Nat
  consumed : Bool := false
  prog : List Instr := []
  /-- an event of ANOTHER module whose handler executes `prog` (wakes on shared conditions); this module is
  not activated and nothing of it is polled -/
  foreign : Bool := false
  deriving DecidableEq, Repr, Inhabited

/-- `handle_message` / `async_wakeup` between `activate()` and `deactivate()`; `single` selects the code before
the repairs (one pass) -/
def handle (P : Params) (single : Bool) (ev : Ev) (s : St) : St :=
  if ev.foreign then
    -- the woken tasks are stamped with the instant of that event; this module's clock is untouched
    { runH ev.prog { s with now := ev.time, phase := .foreign } with now := s.now }
  else
  let s0 := activate ev.time s
  let (h, s1) := if ev.consumed then (([] : List Instr), runH ev.prog s0) else (ev.prog, s0)
  if single then turn1 P h s1 else exec P h s1

/-- an event for the module at instant `t` whose callback is `h` -/
def deliver (P : Params) (t : Nat) (h : List Instr) (s : St) : St := handle P false { time := t, prog := h } s

/-- the next event: the external message unless a wake-up event is strictly earlier -/
def nextEvent (evs : List Ev) (wk : List Nat) : Option (Ev × List Ev × List Nat) :=
  match evs, minL wk with
  | [], none => none
  | [], some m => some ({ time := m }, [], wk.erase m)
  | e :: r, none => some (e, r, wk)
  | e :: r, some m => if m < e.time then some ({ time := m }, e :: r, wk.erase m) else some (e, r, wk)

/-- the event loop of one module: `evs` = the external messages (increasing times), `wk` = the scheduled
`AsyncWakeupEvent`s -/
def runSim (P : Params) (single : Bool) : Nat → List Ev → List Nat → Option Nat → St → St
  | 0, _, _, _, s => s
  | n + 1, evs, wk, nw, s =>
    match nextEvent evs wk with
    | none => s
    | some (ev, evs', wk') =>
      let s' := handle P single ev s
      if ev.foreign then runSim P single n evs' wk' nw s' else
      let (nw', w) := deactivate s' (resetWakeup ev.time nw)
      runSim P single n evs' (wk' ++ w.toList) nw' s'

/-- external messages only (no timer wake-up events) -/
def runEvents (P : Params) : List (Nat × List Instr) → St → St
  | [], s => s
  | (t, h) :: r, s => runEvents P r (deliver P t h s)

/-- nothing is runnable -/
def Quiet (s : St) : Prop := s.rq = [] ∧ s.iq = [] ∧ s.lq = [] ∧ s.dq = []

instance (s : St) : Decidable (Quiet s) := by unfold Quiet; infer_instance

end Exec

/-
Model of `des/src/net/gate.rs` (gate slots, `connect`, `Connection::next_hop`, `PathIter`,
`kind`, `path_iter`, `next_gate`, `path_end`, `prev_hop`) and of message forwarding along a gate
chain (`MessageExitingConnection::handle_with_sink` in `net/runtime/events.rs`, `buf_send_at` in
`net/runtime/ctx.rs`, `send/send_in/send_at` in `net/message/api.rs`).

Data layout as in the code: every gate owns `connections : [Option<Connection>; 2]`; a `Connection`
stores the peer gate, `endpoint_id` (index of the slot used *inside the peer* for the back link) and
an optional channel.  Slot indices are `Bool` (`false` = slot 0, `true` = slot 1), so that the table
`[1, 0][endpoint_id]` of `next_hop` is `!came`.  `connect` only ever produces `endpoint_id ∈ {0,1}`
(it asserts `len < 2` on both sides before using `len` as the index).  Gates are referred to by
`Nat` identifiers (the code uses `Arc` pointers; `Arc::ptr_eq` is `=` here).

A channel is represented by the delay it adds to the (fixed-size) test message on an idle link
(`Option Nat`, ns; latency + transmission time `8·len / bitrate`, jitter 0):
`Channel::send_message` on a non-busy channel schedules `MessageExitingConnection { con: via }` at
`now + delay`; the channel's own accounting (busy / queue / drop) is property C07's model.
-/
namespace Gate

/-- `gate::Connection` -/
structure Conn where
  peer : Nat               -- `endpoint`
  peerSlot : Bool          -- `endpoint_id`: slot index of the back link inside `peer`
  chan : Option Nat        -- `channel` (delay of the idle channel in ns)
deriving Repr, DecidableEq

/-- `gate::Connections` : `[Option<Connection>; 2]` -/
structure Slots where
  s0 : Option Conn := none
  s1 : Option Conn := none
deriving Repr, DecidableEq

def Slots.get (s : Slots) (i : Bool) : Option Conn := if i then s.s1 else s.s0

/-- `Connections::len` -/
def Slots.len (s : Slots) : Nat :=
  (if s.s0.isSome then 1 else 0) + (if s.s1.isSome then 1 else 0)

/-- the "already connected" scan at the top of `Gate::connect` -/
def Slots.hasPeer (s : Slots) (b : Nat) : Bool :=
  (match s.s0 with | some c => c.peer == b | none => false) ||
  (match s.s1 with | some c => c.peer == b | none => false)

/-- `Connections::put`: first free slot; `none` = `unreachable!()` -/
def Slots.put (s : Slots) (c : Conn) : Option Slots :=
  match s.s0 with
  | none => some { s with s0 := some c }
  | some _ =>
    match s.s1 with
    | none => some { s with s1 := some c }
    | some _ => none

/-- all gates of a simulation (gates never connected have two empty slots) -/
abbrev Net := Nat → Slots

def Net.empty : Net := fun _ => {}

def Net.set (net : Net) (g : Nat) (s : Slots) : Net := fun x => if x = g then s else net x

inductive ConnErr
  | selfConnect      -- assert!(!Arc::ptr_eq(&self, &other))
  | full             -- assert!(conns_pos < 2 && other_conns_pos < 2)
  | unreachable      -- `Connections::put` found no free slot
deriving Repr, DecidableEq

/-- `Gate::connect(self = a, other = b, channel)`; the channel is `dup`ed so both directions carry
    a channel with the same metrics -/
def connect (net : Net) (a b : Nat) (ch : Option Nat) : Except ConnErr Net :=
  if a = b then .error .selfConnect
  else if (net a).hasPeer b then .ok net
  else
    let la := (net a).len
    let lb := (net b).len
    if la < 2 ∧ lb < 2 then
      match (net a).put ⟨b, decide (lb = 1), ch⟩, (net b).put ⟨a, decide (la = 1), ch⟩ with
      | some sa, some sb => .ok ((net.set a sa).set b sb)
      | _, _ => .error .unreachable
    else .error .full

/-- a builder script: `connect` calls in order; a panicking call leaves every gate as it was (both
    assertions precede the first `put`) -/
def connectAll : Net → List (Nat × Nat × Option Nat) → Net
  | net, [] => net
  | net, (a, b, ch) :: ops =>
    match connect net a b ch with
    | .ok net' => connectAll net' ops
    | .error _ => connectAll net ops

/-- `Connection::next_hop` for the position "at gate `g`, entered through slot `came`" -/
def nextHop (net : Net) (g : Nat) (came : Bool) : Option Conn := (net g).get (!came)

/-- `PathIter` continued from the connection `(g, came)`; yields the `Connection`s in order -/
def walk (net : Net) : Nat → Nat → Bool → List Conn
  | 0, _, _ => []
  | fuel + 1, g, came =>
    match nextHop net g came with
    | none => []
    | some c => c :: walk net fuel c.peer c.peerSlot

inductive Kind
  | standalone | endpoint | transit
deriving Repr, DecidableEq

/-- `Gate::kind` -/
def kind (net : Net) (g : Nat) : Kind :=
  match (net g).len with
  | 0 => .standalone
  | 1 => .endpoint
  | _ => .transit

/-- `Gate::path_iter` collected: `None` on a transit gate, otherwise the iterator started with
    `Connection::new_unchecked(g)` (`endpoint_id = 1`).  `fuel` = number of gates of the net. -/
def pathIter (net : Net) (fuel : Nat) (g : Nat) : Option (List Conn) :=
  if kind net g = .transit then none else some (walk net fuel g true)

/-- `Gate::next_gate` -/
def nextGate (net : Net) (fuel : Nat) (g : Nat) : Option Nat :=
  (pathIter net fuel g).bind fun l => l.head?.map (·.peer)

/-- `Gate::path_end` -/
def pathEnd (net : Net) (fuel : Nat) (g : Nat) : Option Nat :=
  (pathIter net fuel g).bind fun l => l.getLast?.map (·.peer)

/-- `Connection::prev_hop` -/
def prevHop (net : Net) (c : Conn) : Option Nat := ((net c.peer).get c.peerSlot).map (·.peer)

/-- the gates visited by a walk that starts on `g` -/
def gatesOf (g : Nat) (hops : List Conn) : List Nat := g :: hops.map (·.peer)

/-- the gate a walk ends on -/
def lastGate (g : Nat) : List Conn → Nat
  | [] => g
  | c :: rest => lastGate c.peer rest

/-! ### message forwarding -/

/-- what became of a message -/
inductive Fate
  /-- `HandleMessageEvent` for module `mod` at `time` (which stamps `receiver_module_id = mod`),
      header `last_gate = last`, `sender_module_id = sender`; `seen` tells whether `handle_message`
      reaches the user code (module active at that time) -/
  | handled (mod : Nat) (time : Nat) (last : Option Nat) (seen : Bool) (sender : Nat)
  /-- dropped on gate `g` because its owner is inactive -/
  | dropped (g : Nat) (time : Nat)
  | outOfFuel
  /-- `Connection::new` asserts the gate is not a transit gate -/
  | sendPanic
deriving Repr, DecidableEq

/-- `handle_with_sink` from the connection `(g, came)` at time `t`, iterated over the
    `MessageExitingConnection` events an idle channel schedules (`now + delay`, `con = next`):
    every loop iteration and every channel exit is one step.  `active m t` = module `m` is active
    at time `t` (`is_active()` is read when the message stands on a gate of `m`); `sender` is
    `header.sender_module_id`, which nothing on the way rewrites. -/
def forward (net : Net) (owner : Nat → Nat) (active : Nat → Nat → Bool) (sender : Nat) :
    Nat → Nat → Bool → Nat → Option Nat → Fate
  | 0, _, _, _, _ => .outOfFuel
  | fuel + 1, g, came, t, last =>
    match nextHop net g came with
    | none => .handled (owner g) t last (active (owner g) t) sender
    | some next =>
      if !active (owner g) t then .dropped g t
      else forward net owner active sender fuel next.peer next.peerSlot (t + next.chan.getD 0) (some next.peer)

/-- `send_at(msg, gate, send_time)` by module `sender` with `send_time ≥ now` (`send` :
    `send_time = now`): `buf_send_at` stamps `sender_module_id = current().id()` first — before the
    immediate / delayed split —, `Connection::new(gate)` panics on a transit gate, header
    `last_gate = gate`, then the walk: inline for an immediate send, as a
    `MessageExitingConnection` event at `send_time` otherwise. -/
def send (net : Net) (owner : Nat → Nat) (active : Nat → Nat → Bool) (sender : Nat) (fuel : Nat) (g : Nat)
    (sendTime : Nat) : Fate :=
  if (net g).len ≤ 1 then forward net owner active sender fuel g true sendTime (some g) else .sendPanic

/-- `forward` when the wiring changes while the simulation runs (`connect` called from module
    code): `netAt t` is the wiring at time `t`; every `next_hop` reads the slots as they are at the
    moment the message stands on the gate. -/
def forwardT (netAt : Nat → Net) (owner : Nat → Nat) (active : Nat → Nat → Bool) (sender : Nat) :
    Nat → Nat → Bool → Nat → Option Nat → Fate
  | 0, _, _, _, _ => .outOfFuel
  | fuel + 1, g, came, t, last =>
    match nextHop (netAt t) g came with
    | none => .handled (owner g) t last (active (owner g) t) sender
    | some next =>
      if !active (owner g) t then .dropped g t
      else forwardT netAt owner active sender fuel next.peer next.peerSlot (t + next.chan.getD 0) (some next.peer)

/-- `send_at(msg, gate, send_time)` issued at time `issue ≤ sendTime`: `Connection::new(gate)` is
    built — and its assertion evaluated — when the call is made; it only names the gate
    (`endpoint_id = 1` is a constant), so a delayed send resolves its chain when the
    `MessageExitingConnection` event fires, with the wiring of that moment. -/
def sendIssued (netAt : Nat → Net) (owner : Nat → Nat) (active : Nat → Nat → Bool) (sender : Nat)
    (fuel : Nat) (g : Nat) (issue sendTime : Nat) : Fate :=
  if (netAt issue g).len ≤ 1 then forwardT netAt owner active sender fuel g true sendTime (some g)
  else .sendPanic

/-! ### the header fields a message carries (it may have been received and sent on before) -/

/-- `sender_module_id`, `receiver_module_id`, `last_gate` of `message::Header` -/
structure Hdr where
  sender : Nat
  receiver : Nat
  last : Option Nat
deriving Repr, DecidableEq

inductive Delivery
  /-- `Module::handle_message` of module `mod` at `time` gets a message with header `hdr` (`seen`:
      the module is active, the user code runs) -/
  | handled (mod : Nat) (time : Nat) (hdr : Hdr) (seen : Bool)
  | dropped (g : Nat) (time : Nat)
  | outOfFuel
  | sendPanic
deriving Repr, DecidableEq

/-- `forwardT` with the header writes made explicit: `handle_with_sink` overwrites `last_gate` on
    every hop, `HandleMessageEvent::handle` overwrites `receiver_module_id` with the id of the module
    it hands the message to — unconditionally, whatever the header held. -/
def forwardH (netAt : Nat → Net) (owner : Nat → Nat) (active : Nat → Nat → Bool) :
    Nat → Nat → Bool → Nat → Hdr → Delivery
  | 0, _, _, _, _ => .outOfFuel
  | fuel + 1, g, came, t, h =>
    match nextHop (netAt t) g came with
    | none => .handled (owner g) t { h with receiver := owner g } (active (owner g) t)
    | some next =>
      if !active (owner g) t then .dropped g t
      else forwardH netAt owner active fuel next.peer next.peerSlot (t + next.chan.getD 0)
        { h with last := some next.peer }

/-- module `sendingModule` sends a message whose header currently is `h` (a fresh message, one built
    with explicit ids, or one it received earlier): `buf_send_at` overwrites `sender_module_id`,
    `handle_with_sink` starts with `last_gate = gate`. -/
def sendH (netAt : Nat → Net) (owner : Nat → Nat) (active : Nat → Nat → Bool) (sendingModule : Nat)
    (fuel : Nat) (g : Nat) (issue sendTime : Nat) (h : Hdr) : Delivery :=
  if (netAt issue g).len ≤ 1 then
    forwardH netAt owner active fuel g true sendTime { h with sender := sendingModule, last := some g }
  else .sendPanic

/-- the header a fate implies: sender as stamped at send, receiver = the module the message is
    handed to, last gate as walked -/
def Fate.toDelivery : Fate → Delivery
  | .handled m t last seen sender => .handled m t ⟨sender, m, last⟩ seen
  | .dropped g t => .dropped g t
  | .outOfFuel => .outOfFuel
  | .sendPanic => .sendPanic

/-! ### addressing a gate by `(name, pos)` -/

/-- an entry of `ModuleContext::gates` (registration order): cluster name, position, the gate -/
structure GateDecl where
  name : Nat
  pos : Nat
  id : Nat
deriving Repr, DecidableEq

/-- `ModuleContext::gate(name, pos)` and `IntoModuleGate for (&str, usize)`: the first registered gate
    with that name and position — whatever the order in which the members of a cluster were created
    (`create_raw_gate`) and whatever was registered in between -/
def lookupGate (gs : List GateDecl) (name pos : Nat) : Option Nat :=
  (gs.find? fun d => d.name == name && d.pos == pos).map (·.id)

/-- total delay of the channels on a list of hops -/
def delaySum (hops : List Conn) : Nat := (hops.map (·.chan.getD 0)).sum

end Gate

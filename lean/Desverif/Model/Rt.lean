/-
Model of `des::runtime::Runtime` (runtime/mod.rs): the event loop `dispatch_event`,
`dispatch_all`, `dispatch_n_events`, `dispatch_events_until`, `add_event`, `finish`, the limits
(runtime/limit.rs) and `Builder::{start_time,max_itr,max_time,limit}`.

Generic over the event set (`ES`), instantiated with the calendar-queue model `CQ` (what the code
uses) and with the abstract event set `FES` (what the properties are stated on).
Events carry a node number; the application is a table of scripted handlers.
-/
import Desverif.Spec.FES
namespace Rt
open CQ (Ev)

/-! ### limits (runtime/limit.rs) -/

inductive Limit
  | none
  | eventCount (n : Nat)
  | simTime (t : Nat)
  | and (a b : Limit)
  | or (a b : Limit)
deriving Repr, DecidableEq, Inhabited

/-- `RuntimeLimit::applies(itr_count, time)` -/
def Limit.applies : Limit → Nat → Nat → Bool
  | .none, _, _ => false
  | .eventCount e, itr, _ => decide (itr > e)
  | .simTime t, _, time => decide (time > t)
  | .and a b, itr, time => a.applies itr time && b.applies itr time
  | .or a b, itr, time => a.applies itr time || b.applies itr time

/-- `RuntimeLimit::add` (used by `Builder::max_itr/max_time/limit`) -/
def Limit.add (self l : Limit) : Limit :=
  match self with
  | .none => l
  | s => .or s l

/-! ### event-set interface -/

structure ES (σ : Type) where
  add : σ → Nat → Nat → Option σ          -- time, payload; `none` = the event set panicked
  fetch : σ → Option (Ev × σ)
  nextTime : σ → Option Nat
  len : σ → Nat

def cqES : ES CQ.State where
  add s t v := match CQ.add s t v with | .ok (s', _) => some s' | .error _ => none
  fetch s := match CQ.fetch s with | .ok p => some p | .error _ => none
  nextTime := CQ.nextTime
  len s := s.len

def fesES : ES FES.State where
  add s t v := match FES.add s t v with | .ok (s', _) => some s' | .error _ => none
  fetch s := match FES.fetch s with | .ok p => some p | .error _ => none
  nextTime := FES.nextTime
  len := FES.len

/-! ### scripted application -/

/-- one `add_event` call of a handler: at `now + delay`, or (probing the past) `now - delay` -/
structure Act where
  back : Bool
  delay : Nat
  node : Nat
deriving Repr, DecidableEq, Inhabited

/-- handler table: node ↦ the calls its handler makes, in program order -/
abbrev Prog := List (List Act)

inductive Obs
  | handled (node time : Nat)            -- handler of `node` ran and saw `SimTime::now() = time`
  | sched (node time : Nat) (ok : Bool)  -- an `add_event(node, time)` returned (`ok`) or panicked
  | internal                             -- the model reached a state the code cannot (diagnostic)
deriving Repr, DecidableEq

structure State (σ : Type) where
  es : σ
  now : Nat              -- `SimTime::now()`
  itr : Nat              -- events dispatched
  limit : Limit
  scheduled : Nat        -- `event_id` = `num_events_scheduled`

variable {σ : Type} (E : ES σ)

/-- `Runtime::add_event(event, time)` -/
def addEvent (s : State σ) (time node : Nat) : State σ × Obs :=
  if time < s.now then (s, .sched node time false) else
  match E.add s.es time node with
  | some es' => ({ s with es := es', scheduled := s.scheduled + 1 }, .sched node time true)
  | none => (s, .sched node time false)

def actTime (now : Nat) (a : Act) : Nat := if a.back then now - a.delay else now + a.delay

/-- the scripted handler: issue the node's calls in program order -/
def runActs (s : State σ) : List Act → State σ × List Obs
  | [] => (s, [])
  | a :: as =>
    let (s1, o) := addEvent E s (actTime s.now a) a.node
    let (s2, os) := runActs s1 as
    (s2, o :: os)

def handle (prog : Prog) (s : State σ) (node : Nat) : State σ × List Obs :=
  runActs E s (prog.getD node [])

/-- does the limit stop the loop in this state? (`dispatch_event`, before anything is fetched) -/
def limitHit (s : State σ) : Bool :=
  match s.limit with
  | .none => false
  | l => match E.nextTime s.es with
    | some t => l.applies (s.itr + 1) t
    | none => false

/-- handle the next event, whatever the limit says; `none` when the event set is empty -/
def stepU (prog : Prog) (s : State σ) : Option (State σ × List Obs) :=
  match E.fetch s.es with
  | none => none
  | some (e, es') =>
    let s1 : State σ := { s with es := es', itr := s.itr + 1, now := e.time }
    let (s2, os) := handle E prog s1 e.val
    some (s2, .handled e.val e.time :: os)

/-- `Runtime::dispatch_event`; the flag is its return value (`true` = stop) -/
def dispatchEvent (prog : Prog) (s : State σ) : State σ × List Obs × Bool :=
  if E.len s.es = 0 then (s, [], true)
  else if limitHit E s then (s, [], true)
  else match stepU E prog s with
    | some (s', os) => (s', os, false)
    | none => (s, [.internal], true)

/-- `Runtime::dispatch_all`: `while !self.dispatch_event() {}` (fuel bounds the number of events) -/
def dispatchAll (prog : Prog) : Nat → State σ → State σ × List Obs
  | 0, s => (s, [])
  | fuel + 1, s =>
    match dispatchEvent E prog s with
    | (s', os, true) => (s', os)
    | (s', os, false) =>
      let (s'', os') := dispatchAll prog fuel s'
      (s'', os ++ os')

/-- `dispatch_n_events(n)`: swap in `EventCount(itr + n)`, run, restore -/
def dispatchN (prog : Prog) (fuel n : Nat) (s : State σ) : State σ × List Obs :=
  let saved := s.limit
  let (s', os) := dispatchAll E prog fuel { s with limit := .eventCount (s.itr + n) }
  ({ s' with limit := saved }, os)

/-- `dispatch_events_until(t)` -/
def dispatchUntil (prog : Prog) (fuel t : Nat) (s : State σ) : State σ × List Obs :=
  let saved := s.limit
  let (s', os) := dispatchAll E prog fuel { s with limit := .simTime t }
  ({ s' with limit := saved }, os)

/-- `finish`: what is left in the event set, in the order `fetch_next` hands it out -/
def drain : Nat → σ → List (Nat × Nat)
  | 0, _ => []
  | fuel + 1, es =>
    match E.fetch es with
    | none => []
    | some (e, es') => (e.val, e.time) :: drain fuel es'

/-! ### scripted sessions (what the harness does with a `Runtime`) -/

inductive Cmd
  | add (time node : Nat)      -- external `add_event` (before `start` or while paused)
  | stepN (n : Nat)
  | stepUntil (t : Nat)
  | runAll
deriving Repr, DecidableEq

/-- what the harness reads off the paused runtime after a command -/
structure Paused where
  itr : Nat
  now : Nat
  remaining : Nat
  scheduled : Nat
deriving Repr, DecidableEq

def paused (s : State σ) : Paused := ⟨s.itr, s.now, E.len s.es, s.scheduled⟩

def execCmd (prog : Prog) (fuel : Nat) (s : State σ) : Cmd → State σ × List Obs
  | .add time node => let (s', o) := addEvent E s time node; (s', [o])
  | .stepN n => dispatchN E prog fuel n s
  | .stepUntil t => dispatchUntil E prog fuel t s
  | .runAll => dispatchAll E prog fuel s

def execCmds (prog : Prog) (fuel : Nat) : State σ → List Cmd → State σ × List (List Obs × Paused)
  | s, [] => (s, [])
  | s, c :: cs =>
    let (s1, os) := execCmd E prog fuel s c
    let (s2, rest) := execCmds prog fuel s1 cs
    (s2, (os, paused E s1) :: rest)

/-- `Builder::…::build`: the clock starts at `start`, the event set at time zero -/
def build (es0 : σ) (start : Nat) (limit : Limit) : State σ :=
  { es := es0, now := start, itr := 0, limit := limit, scheduled := 0 }

end Rt

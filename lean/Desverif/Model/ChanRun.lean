/-
Event-level interface shared by the channel model (`Chan`), the abstract server (`ChanSrv`),
the theorems (Props/C07) and the driver.

A *world* is one channel direction embedded in the event kernel as far as the channel can
tell: the clock, the pending `ChannelUnbusyNotif` events, the `MessageExitingConnection`
events scheduled so far, plus ghost history (who was offered / started / dropped).
A script is a list of `Op`s in dispatch order: `offer t m` — `send_message` is called at
time `t` (from a handler or from a `MessageExitingConnection` event); `unbusy` — the kernel
dispatches the pending `ChannelUnbusyNotif`; `deliver` — the kernel dispatches a pending
`MessageExitingConnection` of this channel (the message leaves towards the receiver).
`step` rejects scripts that are not consistent with event order: time running backwards, an
offer later than a pending event of the channel, and a dispatch of a channel event that is not
the one the kernel would take first among the channel's pending events (`kq`, `kmin`: the
tie rule of C01/C03 — events scheduled for the current instant first, then by timestamp,
then in scheduling order).  An offer at the *same instant* as a pending event may come before
or after it — both orders are scripts.
-/
import Desverif.Spec.ChanSrv
namespace ChanRun
open Chan (Msg Metrics DropB Eff Fate Err)

/-- what `is_busy()`, `transmission_finish_time()` and the `Debug` output show -/
structure Obs where
  busy : Bool
  finish : Nat
  qbytes : Nat
  qlen : Nat
deriving Repr, DecidableEq

/-- a channel implementation: the model of the code or the abstract server -/
structure Impl (σ : Type) where
  init : σ
  offer : Metrics → σ → Nat → Msg → σ × List Eff × Fate
  unbusy : Metrics → σ → Nat → Except Err (σ × List Eff × List (Msg × Fate))
  obs : σ → Obs

def model : Impl Chan.State where
  init := Chan.init
  offer := Chan.sendMessage
  unbusy := Chan.unbusy
  obs s := ⟨s.busy, s.finish, s.acc, s.packets.length⟩

def spec : Impl ChanSrv.Srv where
  init := ChanSrv.init
  offer := ChanSrv.offer
  unbusy mt s now := .ok (ChanSrv.unbusy mt s now)
  obs s := ⟨s.serving.isSome, s.serving.getD 0, ChanSrv.bytes s.queue, s.queue.length⟩

/-- a scheduled `MessageExitingConnection`: scheduled when the clock showed `sched`, for `time` -/
structure Exit where
  sched : Nat
  time : Nat
  id : Nat
deriving Repr, DecidableEq

/-- a pending kernel event of this channel -/
inductive KEv
  | unbusy (t : Nat)
  | exit (e : Exit)
deriving Repr, DecidableEq

def KEv.time : KEv → Nat
  | .unbusy t => t
  | .exit e => e.time

/-- 0: scheduled for the instant it was scheduled at (the kernel's current-instant FIFO);
    1: scheduled with a positive delay (an unbusy notification always is) -/
def KEv.rank : KEv → Nat
  | .unbusy _ => 1
  | .exit e => if e.sched = e.time then 0 else 1

/-- strictly earlier in the kernel's dispatch order, scheduling order aside -/
def KEv.before (a b : KEv) : Prop := a.time < b.time ∨ (a.time = b.time ∧ a.rank < b.rank)

instance (a b : KEv) : Decidable (a.before b) := by unfold KEv.before; exact inferInstance

/-- the event the kernel dispatches first among `l` (given in scheduling order): the minimum in
    dispatch order, the earliest scheduled among equals -/
def kmin : List KEv → Option KEv
  | [] => none
  | e :: l =>
    match kmin l with
    | none => some e
    | some m => if m.before e then some m else some e

structure World (σ : Type) where
  clock : Nat
  chan : σ
  pend : List Nat               -- pending ChannelUnbusyNotif times, in scheduling order
  exits : List Exit             -- all exit events scheduled so far, in scheduling order
  offered : List Msg            -- ghost: every message handed to the channel, in order
  started : List (Nat × Msg)    -- ghost: (start of transmission, message), in order
  dropBusy : List Msg           -- ghost
  dropFull : List Msg           -- ghost
  kq : List KEv                 -- the channel's pending kernel events, in scheduling order
  delivered : List Nat          -- ghost: ids of the messages that left the channel, in order

def World.init (I : Impl σ) : World σ :=
  { clock := 0, chan := I.init, pend := [], exits := [], offered := [], started := [],
    dropBusy := [], dropFull := [], kq := [], delivered := [] }

def unbusyTimes (effs : List Eff) : List Nat :=
  effs.filterMap fun | .unbusyAt t => some t | _ => none

def exitsOf (now : Nat) (effs : List Eff) : List Exit :=
  effs.filterMap fun | .exitAt t id => some ⟨now, t, id⟩ | _ => none

def withFate (f : Fate) (l : List (Msg × Fate)) : List Msg :=
  l.filterMap fun p => if p.2 = f then some p.1 else none

def startedOf (now : Nat) (l : List (Msg × Fate)) : List (Nat × Msg) :=
  (withFate .started l).map fun m => (now, m)

/-- the kernel events of a list of sink effects handed over at time `now`, in order -/
def kevs (now : Nat) (effs : List Eff) : List KEv :=
  effs.map fun | .unbusyAt t => .unbusy t | .exitAt t id => .exit ⟨now, t, id⟩

inductive Op
  | offer (t : Nat) (m : Msg)
  | unbusy
  | deliver
deriving Repr, DecidableEq

inductive RErr
  | past          -- the script lets time run backwards
  | order         -- an offer later than a pending event, or a dispatch the kernel would not make
  | noExit        -- no exit event is pending
  | noUnbusy      -- no unbusy notification is pending
  | chan (e : Err)  -- the channel model hit a state the code cannot reach
deriving Repr, DecidableEq

def minTime : List Nat → Option Nat
  | [] => none
  | t :: ts => some (ts.foldl min t)

/-- the kernel dispatches the earliest pending notification -/
def popMin (l : List Nat) : Option (Nat × List Nat) :=
  match minTime l with
  | none => none
  | some u => some (u, l.erase u)

/-- bookkeeping after the channel answered with effects `effs` and fates `l` at time `now` -/
def advance (w : World σ) (now : Nat) (c : σ) (pend : List Nat) (kq : List KEv) (effs : List Eff)
    (l : List (Msg × Fate)) (offered : List Msg) : World σ :=
  { clock := now, chan := c, pend := pend ++ unbusyTimes effs,
    kq := kq ++ kevs now effs, delivered := w.delivered,
    exits := w.exits ++ exitsOf now effs,
    offered := w.offered ++ offered,
    started := w.started ++ startedOf now l,
    dropBusy := w.dropBusy ++ withFate .droppedBusy l,
    dropFull := w.dropFull ++ withFate .droppedFull l }

def step (I : Impl σ) (mt : Metrics) (w : World σ) : Op → Except RErr (World σ)
  | .offer t m =>
    if t < w.clock then .error .past
    else if w.pend.any (· < t) then .error .order
    else if w.kq.any (·.time < t) then .error .order
    else
      let r := I.offer mt w.chan t m
      .ok (advance w t r.1 w.pend w.kq r.2.1 [(m, r.2.2)] [m])
  | .unbusy =>
    match popMin w.pend with
    | none => .error .noUnbusy
    | some (u, rest) =>
      if u < w.clock then .error .past
      else if kmin w.kq ≠ some (.unbusy u) then .error .order
      else
        match I.unbusy mt w.chan u with
        | .error e => .error (.chan e)
        | .ok r => .ok (advance w u r.1 rest (w.kq.erase (.unbusy u)) r.2.1 r.2.2 [])
  | .deliver =>
    match kmin w.kq with
    | some (.exit e) =>
      if e.time < w.clock then .error .past
      else .ok { w with clock := e.time, kq := w.kq.erase (.exit e), delivered := w.delivered ++ [e.id] }
    | some (.unbusy _) => .error .order
    | none => .error .noExit

def runFrom (I : Impl σ) (mt : Metrics) : World σ → List Op → Except RErr (World σ)
  | w, [] => .ok w
  | w, op :: ops =>
    match step I mt w op with
    | .error e => .error e
    | .ok w' => runFrom I mt w' ops

def run (I : Impl σ) (mt : Metrics) (ops : List Op) : Except RErr (World σ) :=
  runFrom I mt (World.init I) ops

/-- the model of the code, run on a script -/
def mrun (mt : Metrics) (ops : List Op) := run model mt ops
/-- the abstract server, run on a script -/
def srun (mt : Metrics) (ops : List Op) := run spec mt ops

end ChanRun

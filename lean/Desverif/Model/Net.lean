/-
Kernel model of the `des` net layer as the code runs it
(des/src/net/runtime/{ctx,events,unwind,mod}.rs, des/src/net/module/{refs.rs,ctx/mod.rs,ctx/rt.rs},
des/src/net/{gate,channel}.rs), with scripted modules.

* `State`      = the future event set (the abstract event set `FES` of C01/C03, whose value is an
                 index into the payload table `evs`), per module `ModRt` (`ModuleContext.active`,
                 the stereotype's `on_panic_catch`, `shutdown_task`, the tokio side: tasks that are
                 spawned but not polled yet, registered `Sleep`s, woken tasks, `Driver::next_wakeup`,
                 the `try_join` handles of panicked tasks), per gate chain the channel state
                 (`busy`, queue), `BUF_CTX.events` (`buf`), `MOD_CTX` (`cur`), `Sim::error`
                 (`errors`) and the observation trace.
* `runActions` = the scripted callback body: the script language of harness/src/c09.rs, interpreted
                 action by action; a `panic` action aborts the rest.
* `exec`       = `Harness::exec`: the callback, then (unless it unwound) every runnable task:
                 freshly spawned tasks register their `Sleep`, woken tasks resume
                 (`spawn_local` tasks before `tokio::spawn` tasks: the `LocalSet` is polled first).
                 Both kinds of task live in what the shutdown drops (runtime AND `LocalSet`):
                 `consumeShutdown` clears all of them alike.
* `walk`       = `MessageExitingConnection::handle_with_sink`: along the gate chain, dropping the
                 message at a gate whose owner is inactive, entering the channel if there is one.
* `moduleEvent`= `activate(); <callback>; deactivate(rt); buf_process(module, rt)`:
                 timer bump, the callback guarded by `active`, `Harness::catch`, the wake-up
                 decision, the flush of `buf` in order, then the consumption of the shutdown
                 request (deactivate, drop the runtime = all tasks and their timers, `reset`,
                 schedule `ModuleRestartEvent`).
* `step` / `loop` / `simStart` / `simEnd` / `run` = `Runtime::dispatch_event`, `dispatch_all`,
                 `SimLifecycle::at_sim_start` / `at_sim_end`, `Runtime::run`.

The model mirrors /repo after the repairs patches/C05-next-skips-empty-slots.diff (the earliest
pending timer is the first NON-EMPTY slot, so cancelled sleeps leave no trace) and
patches/C09-start-stages-on-inactive-module.diff (a module that shut down or panicked in a start
stage gets no further stage calls).
-/
import Desverif.Spec.FES
namespace Net

/-- a message: the scripted id (`header.id`) and the harness's serial number (`header.kind`) -/
structure Msg where
  id : Nat
  serial : Nat
deriving Repr, DecidableEq

/-- one scripted action of a callback / task body -/
inductive Action
  | send (dst delay id : Nat)        -- `send` / `send_in` on the gate chain to module `dst`
  | sched (delay id : Nat)           -- `schedule_in`
  | spawn (tag sleep : Nat) (join loc must : Bool)
      -- `tokio::spawn(async { sleep(sleep).await; … })`, with `loc` `tokio::task::spawn_local`; the handle
      -- is given to `current().join` if `must`, else to `current().try_join` if `join`
  | shutdown                         -- `current().shutdown()`
  | restartIn (d : Nat)              -- `current().shutdow_and_restart_in(d)`
  | restartAt (t : Nat)              -- `current().shutdow_and_restart_at(t)`
  | panic
  | rpanic                           -- panics iff the module has been reset before (`reset()` counts)
  | log (n : Nat)
deriving Repr, DecidableEq

/-- scripted behaviour of a module -/
structure Prog where
  onMsg : Nat → List Action          -- `handle_message`, by message id
  onStart : Nat → List Action        -- `at_sim_start(stage)`
  onEnd : List Action                -- `at_sim_end`
  onTask : Nat → List Action         -- body of the task with this tag, after its sleep

/-- the program of a module that has fallen silent -/
def Prog.silent : Prog := { onMsg := fun _ => [], onStart := fun _ => [], onEnd := [], onTask := fun _ => [] }

structure ChanCfg where
  pos : Nat            -- the channel sits on the connection from gate `pos` to gate `pos + 1`
  lat : Nat            -- latency
  tx : Nat             -- `calculate_busy(msg)` (all messages have the same length)
  queue : Bool         -- `ChannelDropBehaviour::Queue(None)` (else `Drop`)
deriving Repr, DecidableEq

/-- a gate chain: gate `k` is owned by module `owners[k]`; the first gate belongs to the sender,
    the last one to the receiver, the ones in between are transit gates -/
structure Link where
  src : Nat
  dst : Nat
  owners : List Nat
  chan : Option ChanCfg
deriving Repr, DecidableEq

/-- `ChannelInner` (one direction) -/
structure ChanSt where
  busy : Bool
  buf : List Msg
deriving Repr, DecidableEq

/-- kernel events (`NetEvents`) -/
inductive KEvent
  | deliver (mod : Nat) (m : Msg)          -- HandleMessageEvent
  | exitConn (link pos : Nat) (m : Msg)    -- MessageExitingConnection: `m` is at gate `pos` of chain `link`
  | unbusy (link : Nat)                    -- ChannelUnbusyNotif of the chain's channel
  | restart (mod : Nat)                    -- ModuleRestartEvent
  | wakeup (mod : Nat)                     -- AsyncWakeupEvent
  | bad                                    -- marker of a state the code cannot reach
deriving Repr, DecidableEq

inductive OKind
  | msg | start | end_ | reset | task | snd | sch | log | dwn | pan
  -- harness-only lines, never produced by the model (the driver's acceptance checker judges them):
  -- a task was spawned; `event_start` / `event_end` of the module's pass-through processing element
  | spw | spm | trs | pes | pee   -- `spm`: spawned with the handle given to `current().join`; `trs`: task n resumes
deriving Repr, DecidableEq

/-- one observation line of the harness: module, kind, two arguments, `SimTime::now()` -/
structure Obs where
  mod : Nat
  kind : OKind
  a : Option Nat
  b : Option Nat
  time : Nat
deriving Repr, DecidableEq

structure Task where
  tag : Nat
  join : Bool          -- handle given to `try_join`
  loc : Bool           -- spawned with `spawn_local` (lives in the module's `LocalSet`)
  mid : Option Nat     -- handle given to `join`: its position in the module's `must_join` list
deriving Repr, DecidableEq

/-- what a `JoinHandle` in `must_join` will answer at the end of the simulation -/
inductive HState
  | running      -- not finished: `JoinError { kind: NotFinished }`
  | done
  | paniced      -- `JoinError { kind: Paniced }`
  | cancelled    -- the runtime was dropped by a shutdown: `JoinError { kind: Tokio }`
deriving Repr, DecidableEq

inductive ErrKind
  | panic       -- PanicError
  | join        -- JoinError { kind: Paniced }
  | unfinished  -- JoinError { kind: NotFinished }
  | tokio       -- JoinError { kind: Tokio } (the task was cancelled)
deriving Repr, DecidableEq

/-- per-module state -/
structure ModRt where
  prog : Prog
  stages : Nat
  catches : Bool                       -- `stereotyp.on_panic_catch`
  active : Bool
  shutdownReq : Option (Option Nat)    -- `shutdown_task`
  unpolled : List (Nat × Task)         -- spawned, never polled: (sleep duration, task)
  sleepers : List (Nat × Task)         -- registered `Sleep`s: (deadline, task), ascending, stable
  ready : List Task                    -- woken by `bump`, not polled yet
  nextWakeup : Option Nat              -- `Driver::next_wakeup`; `none` = `SimTime::MAX`
  joinPanics : Nat                     -- `try_join` handles whose task panicked
  must : List HState                   -- `must_join`, in registration order (never cleared by a shutdown)
  nextSerial : Nat                     -- the harness's per-sender message counter
  incarnation : Nat                    -- number of `reset` calls (the scripted module counts them)

/-- serial numbers are `sender * 4096 + counter` (16 bits in the harness) -/
def serialOf (mi n : Nat) : Nat := mi * 4096 + n

/-- what the running callback can see of the rest of the kernel -/
structure Env where
  mi : Nat
  now : Nat
  links : List Link
  active : List Bool                   -- `is_active()` of every module
  inc : Nat                            -- how often the running module has been reset

def Env.isActive (e : Env) (o : Nat) : Bool := e.active.getD o false

/-- `Channel::send_message` -/
def chanSend (cfg : ChanCfg) (c : ChanSt) (li now : Nat) (m : Msg) : ChanSt × List (KEvent × Nat) :=
  if c.busy then
    (if cfg.queue then { c with buf := c.buf ++ [m] } else c, [])
  else
    let exit := (KEvent.exitConn li (cfg.pos + 1) m, now + cfg.lat + cfg.tx)
    if cfg.tx ≠ 0 then ({ c with busy := true }, [exit, (KEvent.unbusy li, now + cfg.tx)])
    else (c, [exit])

/-- the dequeue loop of `Channel::unbusy` -/
def chanDrain (cfg : ChanCfg) (li now : Nat) : List Msg → ChanSt × List (KEvent × Nat)
  | [] => ({ busy := false, buf := [] }, [])
  | m :: rest =>
    let r := chanSend cfg { busy := false, buf := rest } li now m
    if r.1.busy then r
    else
      let r' := chanDrain cfg li now rest
      (r'.1, r.2 ++ r'.2)

/-- `handle_with_sink` from gate `pos` on (`owners` = the owners of the gates from `pos` on) -/
def walkFrom (env : Env) (li : Nat) (chan : Option ChanCfg) (m : Msg) (c : ChanSt) :
    List Nat → Nat → ChanSt × List (KEvent × Nat)
  | [], _ => (c, [(KEvent.bad, env.now)])
  | [o], _ => (c, [(KEvent.deliver o m, env.now)])
  | o :: o' :: rest, pos =>
    if !env.isActive o then (c, [])       -- dropped: the owner of the gate is inactive
    else
      match chan with
      | some cfg =>
        if cfg.pos = pos then chanSend cfg c li env.now m
        else walkFrom env li chan m c (o' :: rest) (pos + 1)
      | none => walkFrom env li chan m c (o' :: rest) (pos + 1)

def walk (env : Env) (li : Nat) (l : Link) (m : Msg) (c : ChanSt) (pos : Nat) : ChanSt × List (KEvent × Nat) :=
  walkFrom env li l.chan m c (l.owners.drop pos) pos

/-- what a callback (and the tasks polled with it) changes -/
structure ES where
  obs : List Obs
  buf : List (KEvent × Nat)            -- pushes onto `BUF_CTX.events`
  chans : List ChanSt
  spawned : List (Nat × Task)
  req : Option (Option Nat)
  nextSerial : Nat
  must : List HState

def findLink (links : List Link) (src dst : Nat) : Option Nat :=
  links.findIdx? (fun l => l.src == src && l.dst == dst)

/-- one action; `true` = it panicked -/
def runAction (env : Env) (inTask : Bool) (join : Bool) (es : ES) : Action → ES × Bool
  | .send dst delay id =>
    match findLink env.links env.mi dst with
    | none => (es, false)              -- no gate towards `dst`: the harness skips the action
    | some li =>
      let m : Msg := ⟨id, serialOf env.mi es.nextSerial⟩
      let es := { es with nextSerial := es.nextSerial + 1,
                          obs := es.obs ++ [(⟨env.mi, .snd, some id, some m.serial, env.now⟩ : Obs)] }
      if delay = 0 then
        match env.links[li]?, es.chans[li]? with
        | some l, some c =>
          let r := walk env li l m c 0
          ({ es with chans := es.chans.set li r.1, buf := es.buf ++ r.2 }, false)
        | _, _ => ({ es with buf := es.buf ++ [(KEvent.bad, env.now)] }, false)
      else ({ es with buf := es.buf ++ [(KEvent.exitConn li 0 m, env.now + delay)] }, false)
  | .sched delay id =>
    let m : Msg := ⟨id, serialOf env.mi es.nextSerial⟩
    ({ es with nextSerial := es.nextSerial + 1,
               obs := es.obs ++ [(⟨env.mi, .sch, some id, some m.serial, env.now⟩ : Obs)],
               buf := es.buf ++ [(KEvent.deliver env.mi m, env.now + delay)] }, false)
  | .spawn tag sleep join loc must =>
    if must then
      ({ es with spawned := es.spawned ++ [(sleep, Task.mk tag false loc (some es.must.length))],
                 must := es.must ++ [HState.running] }, false)
    else ({ es with spawned := es.spawned ++ [(sleep, Task.mk tag join loc none)] }, false)
  | .shutdown =>
    ({ es with req := some none, obs := es.obs ++ [(⟨env.mi, .dwn, none, none, env.now⟩ : Obs)] }, false)
  | .restartIn d =>
    ({ es with req := some (some (env.now + d)),
               obs := es.obs ++ [(⟨env.mi, .dwn, some (env.now + d), none, env.now⟩ : Obs)] }, false)
  | .restartAt t =>
    ({ es with req := some (some t), obs := es.obs ++ [(⟨env.mi, .dwn, some t, none, env.now⟩ : Obs)] }, false)
  | .panic =>
    ({ es with obs := es.obs ++ [(⟨env.mi, .pan, some (if inTask then 1 else 0),
                                   some (if join then 1 else 0), env.now⟩ : Obs)] }, true)
  | .rpanic =>
    if env.inc = 0 then (es, false)
    else
      ({ es with obs := es.obs ++ [(⟨env.mi, .pan, some (if inTask then 1 else 0),
                                     some (if join then 1 else 0), env.now⟩ : Obs)] }, true)
  | .log n => ({ es with obs := es.obs ++ [(⟨env.mi, .log, some n, none, env.now⟩ : Obs)] }, false)

/-- a callback / task body: the actions in order, cut off by a panic -/
def runActions (env : Env) (inTask join : Bool) : List Action → ES → ES × Bool
  | [], es => (es, false)
  | a :: rest, es =>
    let r := runAction env inTask join es a
    if r.2 then r else runActions env inTask join rest r.1

/-- `spawn_local` is only possible inside the `LocalSet`: the scripted body of a task that was
    spawned with `tokio::spawn` uses `tokio::spawn` for all the tasks it spawns (`keep` = the
    number of tasks that were spawned before this body ran) -/
def demote (keep : Nat) (loc : Bool) (sp : List (Nat × Task)) : List (Nat × Task) :=
  if loc then sp else sp.take keep ++ (sp.drop keep).map (fun p => (p.1, { p.2 with loc := false }))

/-- the woken tasks resume, in the given order; a panic ends that task only (tokio catches it) and
    is remembered by its `try_join` handle; returns the number of such panics -/
def runTasks (env : Env) (prog : Prog) : List Task → ES → ES × Nat
  | [], es => (es, 0)
  | t :: rest, es =>
    let es1 := { es with obs := es.obs ++ [(⟨env.mi, .task, some t.tag, none, env.now⟩ : Obs)] }
    let r := runActions env true t.join (prog.onTask t.tag) es1
    let es2 := { r.1 with spawned := demote es.spawned.length t.loc r.1.spawned,
                          must := match t.mid with
                            | some i => r.1.must.set i (if r.2 then HState.paniced else HState.done)
                            | none => r.1.must }
    let r' := runTasks env prog rest es2
    (r'.1, (if r.2 && t.join then 1 else 0) + r'.2)

/-- one turn of `Harness::exec` polls the `LocalSet` first (inside the `block_on` future), then the
    runtime's own queue: `spawn_local` tasks come before `tokio::spawn` tasks, each group in order -/
def localsFirst {α : Type} (loc : α → Bool) (l : List α) : List α :=
  l.filter loc ++ l.filter (fun x => !loc x)

def insertSleeper : List (Nat × Task) → Nat → Task → List (Nat × Task)
  | [], d, t => [(d, t)]
  | x :: xs, d, t => if x.1 ≤ d then x :: insertSleeper xs d t else (d, t) :: x :: xs

/-- the first poll of spawned tasks: `sleep(d)` registers at `now + d` -/
def registerAll (now : Nat) (sl : List (Nat × Task)) (sp : List (Nat × Task)) : List (Nat × Task) :=
  sp.foldl (fun s p => insertSleeper s (now + p.1) p.2) sl

def ES.start (m : ModRt) (chans : List ChanSt) : ES :=
  { obs := [], buf := [], chans := chans, spawned := [], req := m.shutdownReq, nextSerial := m.nextSerial,
    must := m.must }

structure ExecResult where
  mod : ModRt
  es : ES
  panicked : Bool

/-- `Harness::exec(callback)`: the callback runs; if it unwinds nothing else is polled (spawned
    and woken tasks stay queued in the runtime); else all runnable tasks are polled -/
def exec (env : Env) (m : ModRt) (entry : Obs) (acts : List Action) (es : ES) : ExecResult :=
  let es := { es with obs := es.obs ++ [entry] }
  let r := runActions env false false acts es
  if r.2 then
    { mod := { m with unpolled := m.unpolled ++ r.1.spawned, shutdownReq := r.1.req, nextSerial := r.1.nextSerial,
                      must := r.1.must },
      es := { r.1 with spawned := [] }, panicked := true }
  else
    let t := runTasks env m.prog (localsFirst (·.loc) m.ready) r.1
    let es := t.1
    { mod := { m with unpolled := [], ready := [],
                      sleepers := registerAll env.now m.sleepers (localsFirst (·.2.loc) (m.unpolled ++ es.spawned)),
                      joinPanics := m.joinPanics + t.2, must := es.must,
                      shutdownReq := es.req, nextSerial := es.nextSerial },
      es := { es with spawned := [] }, panicked := false }

/-- `Harness::exec(|| {})` of `async_wakeup` -/
def execIdle (env : Env) (m : ModRt) (es : ES) : ExecResult :=
  let t := runTasks env m.prog (localsFirst (·.loc) m.ready) es
  let es := t.1
  { mod := { m with unpolled := [], ready := [],
                    sleepers := registerAll env.now m.sleepers (localsFirst (·.2.loc) (m.unpolled ++ es.spawned)),
                    joinPanics := m.joinPanics + t.2, must := es.must,
                    shutdownReq := es.req, nextSerial := es.nextSerial },
    es := { es with spawned := [] }, panicked := false }

/-- `ModuleRef::activate`: `Driver::bump` wakes every slot that is due, a due `next_wakeup` is forgotten -/
def ModRt.bump (m : ModRt) (now : Nat) : ModRt :=
  { m with ready := m.ready ++ (m.sleepers.takeWhile (fun s => s.1 ≤ now)).map (·.2),
           sleepers := m.sleepers.dropWhile (fun s => s.1 ≤ now),
           nextWakeup := match m.nextWakeup with
             | some t => if t ≤ now then none else some t
             | none => none }

/-- `ModuleRef::deactivate`: the wake-up that is scheduled, if any -/
def ModRt.wakeDecision (m : ModRt) : ModRt × Option Nat :=
  match m.sleepers.head? with
  | some s =>
    match m.nextWakeup with
    | some t => if s.1 < t then ({ m with nextWakeup := some s.1 }, some s.1) else (m, none)
    | none => ({ m with nextWakeup := some s.1 }, some s.1)
  | none => (m, none)

inductive Kind
  | message (m : Msg)
  | wakeup
  | simStart (stage : Nat)
  | restart
deriving Repr, DecidableEq

/-- `Harness::catch`: a panic deactivates the module; it is an error unless the stereotype catches -/
def catchPanic (mi : Nat) (r : ExecResult) : ModRt × List (ErrKind × Nat) :=
  if r.panicked then ({ r.mod with active := false }, if r.mod.catches then [] else [(ErrKind.panic, mi)])
  else (r.mod, [])

structure CbResult where
  mod : ModRt
  es : ES
  errs : List (ErrKind × Nat)

/-- `ModuleRef::at_sim_start(stage)` (no `active` check) -/
def startStage (env : Env) (m : ModRt) (es : ES) (stage : Nat) : CbResult :=
  let r := exec env m ⟨env.mi, .start, some stage, none, env.now⟩ (m.prog.onStart stage) es
  let c := catchPanic env.mi r
  { mod := c.1, es := r.es, errs := c.2 }

/-- the loop of `ModuleRef::module_restart`: an uncaught panic returns (`?`), a caught one has
    deactivated the module, which ends the loop as well -/
def restartStages (env : Env) : List Nat → ModRt → ES → CbResult
  | [], m, es => { mod := m, es := es, errs := [] }
  | stage :: rest, m, es =>
    let r := startStage env m es stage
    if !r.errs.isEmpty || !r.mod.active then r
    else
      let r' := restartStages env rest r.mod r.es
      { r' with errs := r.errs ++ r'.errs }

/-- the callback between `activate()` and `deactivate()` -/
def callback (env : Env) (m : ModRt) (es : ES) : Kind → CbResult
  | .message msg =>
    if m.active then
      let r := exec env m ⟨env.mi, .msg, some msg.id, some msg.serial, env.now⟩ (m.prog.onMsg msg.id) es
      let c := catchPanic env.mi r
      { mod := c.1, es := r.es, errs := c.2 }
    else { mod := m, es := es, errs := [] }
  | .wakeup =>
    if m.active then
      let r := execIdle env m es
      { mod := r.mod, es := r.es, errs := [] }
    else { mod := m, es := es, errs := [] }
  | .simStart stage => startStage env m es stage
  | .restart =>
    -- `active.store(true)` comes first: the module's own gates forward again while the stages run
    restartStages { env with active := env.active.set env.mi true } (List.range m.stages) { m with active := true } es

structure State where
  mods : List ModRt
  links : List Link
  chans : List ChanSt                  -- the channel state of every chain (unused if it has none)
  fes : FES.State
  evs : Array KEvent                   -- payload table: the FES value of an event is its index here
  buf : List (KEvent × Nat)            -- `BUF_CTX.events`
  cur : Option Nat                     -- `MOD_CTX`
  errors : List (ErrKind × Nat)        -- `Sim::error`
  trace : List Obs
  fault : Option String                -- a panic of the simulator itself / an unreachable state

def State.actives (s : State) : List Bool := s.mods.map (·.active)

def State.env (s : State) (mi : Nat) : Env :=
  { mi := mi, now := s.fes.cur, links := s.links, active := s.actives,
    inc := ((s.mods[mi]?).map (·.incarnation)).getD 0 }

/-- `Runtime::add_event` -/
def State.schedule (s : State) (ev : KEvent) (t : Nat) : State :=
  match FES.add s.fes t s.evs.size with
  | .ok (f, _) => { s with fes := f, evs := s.evs.push ev }
  | .error _ => { s with fault := some "add-in-the-past" }

def State.scheduleAll (s : State) (l : List (KEvent × Nat)) : State :=
  l.foldl (fun s p => s.schedule p.1 p.2) s

/-- the second half of `buf_process`: the shutdown request is consumed -/
def State.consumeShutdown (s : State) (mi : Nat) (m : ModRt) : State :=
  match m.shutdownReq with
  | none => s
  | some restart =>
    -- inactive; the runtime is dropped (every task, and with it every timer entry); `activate`
    -- (a due `next_wakeup` is forgotten), `reset` on a fresh runtime, `deactivate` (nothing to wake)
    let m' : ModRt := { m with active := false, shutdownReq := none, unpolled := [], sleepers := [], ready := [],
                               nextWakeup := (match m.nextWakeup with
                                 | some t => if t ≤ s.fes.cur then none else some t
                                 | none => none),
                               must := m.must.map (fun h => if h = HState.running then HState.cancelled else h),
                               incarnation := m.incarnation + 1 }
    let s := { s with mods := s.mods.set mi m', trace := s.trace ++ [(⟨mi, .reset, none, none, s.fes.cur⟩ : Obs)] }
    match restart with
    | some t => s.schedule (.restart mi) t
    | none => s

/-- `module.activate(); <callback>; module.deactivate(rt); buf_process(&module, rt)` -/
def State.moduleEvent (s : State) (mi : Nat) (kind : Kind) : State :=
  match s.mods[mi]? with
  | none => { s with fault := some "no-such-module" }
  | some m =>
    let env := s.env mi
    -- activate
    let s := { s with cur := some mi }
    let m := m.bump env.now
    -- callback
    let r := callback env m (ES.start m s.chans) kind
    -- deactivate
    let w := r.mod.wakeDecision
    let s := { s with mods := s.mods.set mi w.1, chans := r.es.chans, trace := s.trace ++ r.es.obs,
                      errors := s.errors ++ r.errs, buf := s.buf ++ r.es.buf, cur := none }
    let s := match w.2 with
      | some t => s.schedule (.wakeup mi) t
      | none => s
    -- buf_process
    let s := { s.scheduleAll s.buf with buf := [] }
    s.consumeShutdown mi w.1

/-- `Runtime::dispatch_event`; `none` when the future event set is empty -/
def State.step (s : State) : Option State :=
  match FES.fetch s.fes with
  | .error _ => none
  | .ok (e, f) =>
    let s := { s with fes := f }
    let ev : Option KEvent := s.evs[e.val]?
    match ev with
    | none => some { s with fault := some "no-such-event" }
    | some (.deliver mi m) => some (s.moduleEvent mi (.message m))
    | some (.wakeup mi) => some (s.moduleEvent mi .wakeup)
    | some (.restart mi) => some (s.moduleEvent mi .restart)
    | some (.exitConn li pos m) =>
      match s.links[li]?, s.chans[li]? with
      | some l, some c =>
        let r := walk (s.env 0) li l m c pos
        some ({ s with chans := s.chans.set li r.1 }.scheduleAll r.2)
      | _, _ => some { s with fault := some "no-such-link" }
    | some (.unbusy li) =>
      match s.links[li]?, s.chans[li]? with
      | some l, some c =>
        match l.chan with
        | some cfg =>
          let r := chanDrain cfg li s.fes.cur c.buf
          some ({ s with chans := s.chans.set li r.1 }.scheduleAll r.2)
        | none => some { s with fault := some "no-such-channel" }
      | _, _ => some { s with fault := some "no-such-link" }
    | some .bad => some { s with fault := some "unreachable" }

/-- `dispatch_all`, for at most `fuel` events (a script may run for ever) -/
def State.loop : Nat → State → State
  | 0, s => if FES.len s.fes = 0 then s else { s with fault := some "out-of-fuel" }
  | n + 1, s =>
    match s.fault with
    | some _ => s
    | none =>
      match s.step with
      | none => s
      | some s' => State.loop n s'

/-- `SimLifecycle::at_sim_start`: stages outside, modules inside; a module that is inactive
    (it shut down or panicked in an earlier stage) is skipped -/
def State.simStart (s : State) : State :=
  let maxStage := s.mods.foldl (fun a m => max a m.stages) 1
  (List.range maxStage).foldl (fun s stage =>
    (List.range s.mods.length).foldl (fun s mi =>
      match s.mods[mi]? with
      | some m => if stage < m.stages && m.active then s.moduleEvent mi (.simStart stage) else s
      | none => s) s) s

/-- the loop over `must_join` in `ModuleRef::at_sim_end` -/
def mustErrs (mi : Nat) (l : List HState) : List (ErrKind × Nat) :=
  l.filterMap fun h => match h with
    | .running => some (ErrKind.unfinished, mi)
    | .paniced => some (ErrKind.join, mi)
    | .cancelled => some (ErrKind.tokio, mi)
    | .done => none

/-- `activate(); ModuleRef::at_sim_end(); deactivate(rt)` for one module — no `active` check, no
    `buf_process`: overdue tasks resume, the emissions stay in the buffer.  An uncaught panic of the
    callback returns before the join handles are looked at; after a caught one the runnable tasks
    are still polled (`task_set.block_on(&rt, yield_now())`) -/
def State.moduleEnd (s : State) (mi : Nat) : State :=
  match s.mods[mi]? with
  | none => { s with fault := some "no-such-module" }
  | some m =>
    let env := s.env mi
    let m := m.bump env.now
    let r := exec env m ⟨mi, .end_, none, none, env.now⟩ m.prog.onEnd (ES.start m s.chans)
    let c := catchPanic mi r
    let uncaught := !c.2.isEmpty
    let r2 := if r.panicked && !uncaught then execIdle env c.1 r.es else { r with mod := c.1 }
    let errs := if uncaught then c.2
      else List.replicate r2.mod.joinPanics (ErrKind.join, mi) ++ mustErrs mi r2.mod.must
    let w := r2.mod.wakeDecision
    let s := { s with mods := s.mods.set mi { w.1 with joinPanics := if uncaught then w.1.joinPanics else 0,
                                                       must := if uncaught then w.1.must else [] },
                      chans := r2.es.chans, trace := s.trace ++ r2.es.obs,
                      errors := s.errors ++ errs, buf := s.buf ++ r2.es.buf, cur := none }
    match w.2 with
    | some t => s.schedule (.wakeup mi) t
    | none => s

/-- `SimLifecycle::at_sim_end` -/
def State.simEnd (s : State) : State :=
  (List.range s.mods.length).foldl (fun s mi => s.moduleEnd mi) s

structure ModCfg where
  prog : Prog
  stages : Nat
  catches : Bool

structure Config where
  mods : List ModCfg
  links : List Link
  inits : List (Nat × Nat × Nat)       -- (module, message id, time): `Runtime::handle_message_on`

/-- injected messages get the serial numbers of "sender" 15 -/
def initSerial (k : Nat) : Nat := serialOf 15 k

def ModCfg.init (c : ModCfg) : ModRt :=
  { prog := c.prog, stages := c.stages, catches := c.catches, active := true, shutdownReq := none,
    unpolled := [], sleepers := [], ready := [], nextWakeup := none, joinPanics := 0, must := [], nextSerial := 0,
    incarnation := 0 }

def State.init (cfg : Config) : State :=
  let s : State :=
    { mods := cfg.mods.map ModCfg.init, links := cfg.links,
      chans := cfg.links.map (fun _ => { busy := false, buf := [] }),
      fes := FES.init, evs := #[], buf := [], cur := none, errors := [], trace := [], fault := none }
  (cfg.inits.zipIdx.foldl (fun s i => s.schedule (.deliver i.1.1 ⟨i.1.2.1, initSerial i.2⟩) i.1.2.2) s)

/-- `Runtime::run` (the main loop cut off after `fuel` events); `errors` is what `run()` returns -/
def run (fuel : Nat) (cfg : Config) : State :=
  let s := (State.init cfg).simStart
  match s.fault with
  | some _ => s
  | none =>
    let s := State.loop fuel s
    match s.fault with
    | some _ => s
    | none => s.simEnd

end Net

/-
Scripted timer programs on top of `Model.Timer`: the same script language the Rust harness
(harness/src/c05.rs) interprets with real `des::time::{sleep, sleep_until, timeout, interval_at}`,
`tokio::select!{biased; …}`, `Sleep::reset`, drops and module shutdown/restart.

`Fut` is both the script term and the running state of the future built from it (`sleeping`,
`timeoutRun` are the started forms).  `poll` is one `Future::poll` of the term: it *emits* the queue
operations (`Timer.Op`) it performs, so one module event of the simulation is literally
`Timer.stepWith` applied to the emitted ops (`Mod.event`; invariants in Proofs/TimerSim.lean).

Assumption (tokio's waker plumbing, C06): a task whose waker was woken in `activate` is polled
exactly once during that event's `Harness::exec`; tasks spawned in `at_sim_start` are polled in
the event that spawned them.
-/
import Desverif.Model.Timer
namespace Timer

inductive Fut
  | nop
  | sleep (d : Nat)
  | until_ (t : Nat)
  | sleeping (s : Sleep)
  | timeout (d : Nat) (e : Fut)
  | timeoutRun (s : Sleep) (e : Fut)
  | select (a b : Fut)
  | seq (a b : Fut)
  | new (x : String) (d : Nat)
  | newu (x : String) (t : Nat)
  | pollOnce (x : String)
  | reset (x : String) (d : Nat)
  | resetu (x : String) (t : Nat)
  | drop (x : String)
  | await (x : String)
  | inew (x : String) (p : Nat) (m : Missed) (d : Nat)
  | tick (x : String)
  | ireset (x : String)
  | restart (d : Nat)
  | halt
deriving Repr

/-- a plain script term: nothing has been started yet (what the parser produces) -/
def Fut.isSrc : Fut → Bool
  | .sleeping _ => false
  | .timeoutRun _ _ => false
  | .timeout _ e => e.isSrc
  | .select a b => a.isSrc && b.isSrc
  | .seq a b => a.isSrc && b.isSrc
  | _ => true

inductive Named
  | sl (s : Sleep)
  | iv (i : Interval)
deriving Repr

/-- one observation: script line, incarnation of the module, kind, `SimTime::now()`.
    Ghost fields (not printed, not compared): for the completion of a timer (`s`, `el`, `a`, `k…`,
    `rdy`) `due` is the deadline of the `Sleep` that completed and `since` the time from which it was
    being waited for (`Sleep.since`). -/
structure Obs where
  line : Nat
  inc : Nat
  kind : String
  time : Nat
  due : Option Nat := none
  since : Nat := 0
  /-- ghost: completion of a `Sleep` owned by the awaiting future itself (`sleep`, `sleep_until`,
      the delay of a `timeout`), which is polled on every poll of its task -/
  own : Bool := false
deriving Repr, DecidableEq

/-- interpreter context of one task poll -/
structure Ctx where
  now : Nat
  tid : Nat
  inc : Nat
  line : Nat := 0
  nextId : Nat
  env : List (String × Named) := []
  log : List Obs := []
  ops : List Op := []
  shut : Option (Option Nat) := none

def Ctx.emit (c : Ctx) (ops : List Op) : Ctx := { c with ops := c.ops ++ ops }
def Ctx.obs (c : Ctx) (kind : String) : Ctx :=
  { c with log := c.log ++ [{ line := c.line, inc := c.inc, kind := kind, time := c.now }] }
/-- observation of a timer completion -/
def Ctx.fin (c : Ctx) (kind : String) (due since : Nat) (own : Bool := false) : Ctx :=
  { c with log := c.log ++ [{ line := c.line, inc := c.inc, kind := kind, time := c.now, due := some due,
                              since := since, own := own }] }

def envGet (env : List (String × Named)) (x : String) : Option Named :=
  (env.find? (·.1 == x)).map (·.2)

def envSet (env : List (String × Named)) (x : String) (v : Named) : List (String × Named) :=
  match env with
  | [] => [(x, v)]
  | (y, w) :: rest => if y == x then (x, v) :: rest else (y, w) :: envSet rest x v

def envDel (env : List (String × Named)) (x : String) : List (String × Named) :=
  env.filter (·.1 != x)

def Named.dropOps : Named → List Op
  | .sl s => s.drop
  | .iv i => i.delay.drop

/-- `HashMap::insert` + drop of the replaced value -/
def Ctx.bind (c : Ctx) (x : String) (v : Named) : Ctx :=
  let old := match envGet c.env x with
    | some o => o.dropOps
    | none => []
  { c with env := envSet c.env x v, ops := c.ops ++ old }

/-- dropping a (possibly running) future drops the `Sleep`s it owns -/
def dropFut : Fut → List Op
  | .sleeping s => s.drop
  | .timeoutRun s e => dropFut e ++ s.drop
  | .select a b => dropFut a ++ dropFut b
  | .seq a _ => dropFut a
  | _ => []

/-- poll a `Sleep` owned by the future; `kind` is logged on completion -/
def pollSleep (s : Sleep) (c : Ctx) (kind : String) : Option Fut × Ctx :=
  let (s', ops, r) := s.poll c.tid c.now
  let c := c.emit ops
  if r then (none, c.fin kind s.deadline (s.since c.now) true) else (some (.sleeping s'), c)

/-- `Timeout::poll` after the inner future was polled with result `r`: `Ok` if it is ready, else the
    delay decides (`Elapsed` drops the inner future) -/
def timeoutStep (s : Sleep) : Option Fut × Ctx → Option Fut × Ctx
  | (none, c1) =>
    let (s', ops, _) := Timeout.poll true s c1.tid c1.now
    (none, ((c1.emit ops).emit s'.drop).obs "ok")
  | (some e', c1) =>
    let (s', ops, r) := Timeout.poll false s c1.tid c1.now
    let c2 := c1.emit ops
    match r with
    | some _ => (none, ((c2.emit (dropFut e')).emit s'.drop).fin "el" s.deadline (s.since c1.now) true)
    | none => (some (.timeoutRun s' e'), c2)

/-- one `Future::poll`; `none` = `Poll::Ready` -/
def poll : Fut → Ctx → Option Fut × Ctx
  | .nop, c => (none, c)
  | .sleep d, c =>
    pollSleep { id := c.nextId, deadline := c.now + d } { c with nextId := c.nextId + 1 } "s"
  | .until_ t, c =>
    pollSleep { id := c.nextId, deadline := t } { c with nextId := c.nextId + 1 } "s"
  | .sleeping s, c => pollSleep s c "s"
  | .timeout d e, c =>
    -- `timeout(d, fut)` creates its `Sleep` when called
    timeoutStep { id := c.nextId, deadline := c.now + d } (poll e { c with nextId := c.nextId + 1 })
  | .timeoutRun s e, c => timeoutStep s (poll e c)
  | .select a b, c =>
    match poll a c with
    | (none, c1) => (none, (c1.emit (dropFut b)).obs "w0")
    | (some a', c1) =>
      match poll b c1 with
      | (none, c2) => (none, (c2.emit (dropFut a')).obs "w1")
      | (some b', c2) => (some (.select a' b'), c2)
  | .seq a b, c =>
    match poll a c with
    | (none, c1) => poll b c1
    | (some a', c1) => (some (.seq a' b), c1)
  | .new x d, c =>
    (none, ({ c with nextId := c.nextId + 1 }).bind x (.sl { id := c.nextId, deadline := c.now + d }))
  | .newu x t, c =>
    (none, ({ c with nextId := c.nextId + 1 }).bind x (.sl { id := c.nextId, deadline := t }))
  | .pollOnce x, c =>
    match envGet c.env x with
    | some (.sl s) =>
      let (s', ops, r) := s.poll c.tid c.now
      let c' := { c with env := envSet c.env x (.sl s') }.emit ops
      (none, if r then c'.fin "rdy" s.deadline (s.since c.now) else c'.obs "pnd")
    | _ => (none, c.obs "mis")
  | .reset x d, c =>
    match envGet c.env x with
    | some (.sl s) =>
      let (s', ops) := s.reset (c.now + d)
      (none, { c with env := envSet c.env x (.sl s') }.emit ops)
    | _ => (none, c)
  | .resetu x t, c =>
    match envGet c.env x with
    | some (.sl s) =>
      let (s', ops) := s.reset t
      (none, { c with env := envSet c.env x (.sl s') }.emit ops)
    | _ => (none, c)
  | .drop x, c =>
    match envGet c.env x with
    | some v => (none, { c with env := envDel c.env x }.emit v.dropOps)
    | none => (none, c)
  | .await x, c =>
    match envGet c.env x with
    | some (.sl s) =>
      let (s', ops, r) := s.poll c.tid c.now
      let c := { c with env := envSet c.env x (.sl s') }.emit ops
      if r then (none, c.fin "a" s.deadline (s.since c.now)) else (some (.await x), c)
    | _ => (none, c.obs "mis")
  | .inew x p m d, c =>
    (none, ({ c with nextId := c.nextId + 1 }).bind x
      (.iv { delay := { id := c.nextId, deadline := c.now + d }, period := p, mode := m }))
  | .tick x, c =>
    match envGet c.env x with
    | some (.iv i) =>
      let (i', ops, r) := i.pollTick c.tid c.now
      let c := { c with env := envSet c.env x (.iv i') }.emit ops
      match r with
      | some t => (none, c.fin ("k" ++ toString t) t (i.delay.since c.now))
      | none => (some (.tick x), c)
    | _ => (none, c.obs "mis")
  | .ireset x, c =>
    match envGet c.env x with
    | some (.iv i) =>
      let (i', ops) := i.reset c.now
      (none, { c with env := envSet c.env x (.iv i') }.emit ops)
    | _ => (none, c)
  | .restart d, c =>
    if c.inc = 0 then (none, { c with shut := some (some (c.now + d)) }) else (none, c)
  | .halt, c => (none, { c with shut := some none })

/-- a spawned task: remaining script lines (the head is the running one) and its named timers -/
structure Task where
  lines : List (Nat × Fut)
  env : List (String × Named) := []
  done : Bool := false
deriving Repr

def pollLines : List (Nat × Fut) → Ctx → List (Nat × Fut) × Ctx
  | [], c => ([], c)
  | (ln, f) :: rest, c =>
    match poll f { c with line := ln } with
    | (none, c1) => pollLines rest c1
    | (some f', c1) => ((ln, f') :: rest, c1)

def envDropOps (env : List (String × Named)) : List Op := env.flatMap (·.2.dropOps)

/-- what dropping the whole task future releases -/
def Task.dropOps (t : Task) : List Op :=
  (match t.lines with
   | (_, f) :: _ => dropFut f
   | [] => []) ++ envDropOps t.env

/-- shared state threaded through the polls of one module event -/
structure Acc where
  nextId : Nat
  log : List Obs
  ops : List Op
  shut : Option (Option Nat)

def Task.poll (t : Task) (tid now inc : Nat) (a : Acc) : Task × Acc :=
  if t.done then (t, a) else
  let c : Ctx := { now := now, tid := tid, inc := inc, nextId := a.nextId, env := t.env,
                   log := a.log, ops := a.ops, shut := a.shut }
  let (ls, c') := pollLines t.lines c
  match ls with
  | [] =>
    -- the task's `async` block returns: its named timers are dropped
    ({ lines := [], env := [], done := true },
     { nextId := c'.nextId, log := c'.log, ops := c'.ops ++ envDropOps c'.env, shut := c'.shut })
  | _ => ({ lines := ls, env := c'.env, done := false },
          { nextId := c'.nextId, log := c'.log, ops := c'.ops, shut := c'.shut })

/-- poll the tasks whose index is in `run`, in index order -/
def pollTasks (tasks : List Task) (idx : Nat) (run : Nat → Bool) (now inc : Nat) (a : Acc) :
    List Task × Acc :=
  match tasks with
  | [] => ([], a)
  | t :: rest =>
    let (t', a') := if run idx then t.poll idx now inc a else (t, a)
    let (rest', a'') := pollTasks rest (idx + 1) run now inc a'
    (t' :: rest', a'')

inductive Kind | start | wake | restart | simEnd
deriving DecidableEq, Repr

structure Mod where
  progs : List (List (Nat × Fut))
  tasks : List Task := []
  active : Bool := true
  inc : Nat := 0
  timer : State := {}
  nextId : Nat := 0
  restartAt : Option Nat := none
  cancelled : Nat := 0
  /-- observations of this module's tasks, in the order they were made -/
  log : List Obs := []
  /-- time of this module's last event -/
  last : Nat := 0
  -- statistics
  fired : Nat := 0
  emptyFront : Nat := 0
  ties : Nat := 0
  crowd : Nat := 0          -- one activation woke ≥ 3 entries
  resetLater : Nat := 0     -- `Sleep::reset` of a registered sleep to a later deadline
  resetEarlier : Nat := 0
  dropReg : Nat := 0        -- handle drops of registered sleeps (drop, select loser, timeout, task end)
  staleWake : Nat := 0      -- wake-up events that woke nobody
  staleInc : Nat := 0       -- … in a later incarnation than the first (wake-up of a previous incarnation)
  wakeInactive : Nat := 0   -- wake-up events handled while the module was shut down
  twins : Nat := 0          -- events after which one slot holds ≥ 2 entries of the same task
  twinCancel : Nat := 0     -- drops / resets of an entry whose slot holds another entry of the same task

def spawnAll (progs : List (List (Nat × Fut))) : List Task := progs.map fun p => { lines := p }

/-- is there an emptied slot in front of a live one (the F3 situation) -/
def emptyBeforeLive : List Slot → Bool
  | [] => false
  | s :: rest => if s.entries.isEmpty then rest.any (fun r => !r.entries.isEmpty) else emptyBeforeLive rest

/-- does some slot hold two entries of the same task (two `Sleep`s of one task, equal deadlines) -/
def hasTwins (p : List Slot) : Bool :=
  p.any fun sl => sl.entries.any fun e => (sl.entries.filter (·.tid == e.tid)).length ≥ 2

/-- statistics: how many of the operations cancel (drop / reset) an entry while another entry of the
    same task stays in the same slot -/
def twinCancels : State → List Op → Nat
  | _, [] => 0
  | T, o :: rest =>
    let hit : Nat := match o with
      | .remove h sid | .reset h sid _ =>
        match T.pending.find? (·.time == h) with
        | some sl =>
          match sl.entries.find? (·.sid == sid) with
          | some e => if (sl.entries.filter (·.tid == e.tid)).length ≥ 2 then 1 else 0
          | none => 0
        | none => 0
      | _ => 0
    hit + twinCancels (applyOp T o) rest

/-- second half of a module event, after the scheduler turn left the tasks `tasks'` and the shared
    state `a`: the whole event as far as the driver is concerned (`ev1`: activate, the emitted ops,
    deactivate), then `buf_process` (shutdown request). -/
def Mod.finish (nx : List Slot → Option Nat) (m : Mod) (now : Nat) (k : Kind) (nwoken inc : Nat) (active : Bool)
    (tasks' : List Task) (a : Acc) : Mod × List Ev :=
  let ev1 : Ev := { time := now, wake := k = .wake, ops := a.ops }
  let t3 := (stepWith nx m.timer ev1).1
  let m1 : Mod := { m with tasks := tasks', active := active, inc := inc, timer := t3, nextId := a.nextId,
                           restartAt := if k = .restart then none else m.restartAt, last := now, log := a.log,
                           fired := m.fired + nwoken,
                           ties := m.ties + (if nwoken ≥ 2 then 1 else 0),
                           crowd := m.crowd + (if nwoken ≥ 3 then 1 else 0),
                           resetLater := m.resetLater + (a.ops.filter fun o => match o with
                             | .reset h _ d' => h < d' | _ => false).length,
                           resetEarlier := m.resetEarlier + (a.ops.filter fun o => match o with
                             | .reset h _ d' => d' < h | _ => false).length,
                           dropReg := m.dropReg + (a.ops.filter (·.isRemove)).length,
                           staleWake := m.staleWake + (if k = .wake ∧ nwoken = 0 then 1 else 0),
                           staleInc := m.staleInc + (if k = .wake ∧ nwoken = 0 ∧ inc ≥ 1 then 1 else 0),
                           wakeInactive := m.wakeInactive + (if k = .wake ∧ active = false then 1 else 0),
                           twins := m.twins + (if hasTwins t3.pending then 1 else 0),
                           twinCancel := m.twinCancel + twinCancels (activate now (if k = .wake
                             then { m.timer with wakeups := m.timer.wakeups.erase now } else m.timer)).1 a.ops,
                           emptyFront := m.emptyFront + (if emptyBeforeLive t3.pending then 1 else 0) }
  match a.shut, k with
  | _, .simEnd => (m1, [ev1])
  | none, _ => (m1, [ev1])
  | some r, _ =>
    -- buf_process: active := false; the tokio runtime is dropped (every task future is dropped);
    -- activate; Module::reset; deactivate; schedule the restart
    let ev2 : Ev := { time := now, wake := false, pre := tasks'.flatMap Task.dropOps, ops := [] }
    ({ m1 with tasks := [], active := false, timer := (stepWith nx t3 ev2).1, restartAt := r,
               cancelled := m1.cancelled + (tasks'.filter (fun t => !t.done)).length },
     [ev1, ev2])

/-- One event of module `m` at time `now`: `activate`, handler (`at_sim_start` spawns every task),
    one scheduler turn, `deactivate`, then `buf_process` (shutdown request).  Returns the module
    (its `log` extended) and the `Timer.Ev`s this event amounts to. -/
def Mod.event (nx : List Slot → Option Nat) (m : Mod) (now : Nat) (k : Kind) : Mod × List Ev :=
  -- `activate`: the entries of the popped slots are woken (they do not depend on what runs afterwards)
  let woken := (stepWith nx m.timer { time := now, wake := k = .wake, ops := [] }).2
  let spawn := k = .start || k = .restart
  let inc := if k = .restart then m.inc + 1 else m.inc
  let active := m.active || spawn
  let tasks := if spawn then spawnAll m.progs else m.tasks
  let run : Nat → Bool := fun i => spawn || (active && woken.any (·.tid == i))
  let r := pollTasks tasks 0 run now inc ⟨m.nextId, m.log, [], none⟩
  Mod.finish nx m now k woken.length inc active r.1 r.2

structure Sim where
  now : Nat := 0
  mods : List Mod
  /-- all modules satisfied `wakeInvB` after each of their events so far -/
  invOk : Bool := true
  events : Nat := 0

def listMin : List Nat → Option Nat
  | [] => none
  | x :: xs => match listMin xs with
    | none => some x
    | some y => some (min x y)

/-- earliest pending event of a module: wake-ups before the restart on ties -/
def Mod.nextEvent (m : Mod) : Option (Nat × Kind) :=
  match listMin m.timer.wakeups, m.restartAt with
  | some w, some r => if w ≤ r then some (w, .wake) else some (r, .restart)
  | some w, none => some (w, .wake)
  | none, some r => some (r, .restart)
  | none, none => none

/-- the future event set delivers the earliest event (ties: lowest module index) -/
def pickNext (mods : List Mod) (idx : Nat) : Option (Nat × Nat × Kind) :=
  match mods with
  | [] => none
  | m :: rest =>
    match m.nextEvent, pickNext rest (idx + 1) with
    | some (t, k), some (i', t', k') => if t ≤ t' then some (idx, t, k) else some (i', t', k')
    | some (t, k), none => some (idx, t, k)
    | none, r => r

def Sim.eventOn (nx : List Slot → Option Nat) (s : Sim) (i : Nat) (now : Nat) (k : Kind) : Sim :=
  match s.mods[i]? with
  | none => s
  | some m =>
    let (m', _) := m.event nx now k
    { s with now := now, mods := s.mods.set i m', events := s.events + 1,
             invOk := s.invOk && wakeInvB now m'.timer }

def Sim.loop (nx : List Slot → Option Nat) : Nat → Sim → Option Sim
  | 0, _ => none
  | fuel + 1, s =>
    match pickNext s.mods 0 with
    | none => some s
    | some (i, t, k) => Sim.loop nx fuel (s.eventOn nx i t k)

def Sim.forAll (nx : List Slot → Option Nat) (s : Sim) (k : Kind) : Nat → Nat → Sim
  | 0, _ => s
  | n + 1, i => Sim.forAll nx (s.eventOn nx i s.now k) k n (i + 1)

/-! ### fuel of the event loop

A potential of the simulation state that every event of the loop strictly decreases
(Proofs/TimerTerm.lean): wake-up events in the event set + slots in the queues + twice the number
of slot-creating queue operations the scripts can still perform + restart / shutdown budget. -/

/-- an unregistered `Sleep` may register once when polled -/
def Sleep.u (s : Sleep) : Nat := if s.handle.isSome then 0 else 1

def Named.u : Named → Nat
  | .sl s => s.u
  | .iv i => i.delay.u

def envU : List (String × Named) → Nat
  | [] => 0
  | (_, v) :: rest => v.u + envU rest

/-- bound on the slot-creating operations (`register`, `reset`) a term can still emit -/
def w : Fut → Nat
  | .nop => 0
  | .sleep _ => 1
  | .until_ _ => 1
  | .sleeping s => s.u
  | .timeout _ e => 1 + w e
  | .timeoutRun s e => s.u + w e
  | .select a b => w a + w b
  | .seq a b => w a + w b
  | .new _ _ => 1
  | .newu _ _ => 1
  | .pollOnce _ => 1
  | .reset _ _ => 2
  | .resetu _ _ => 2
  | .drop _ => 0
  | .await _ => 1
  | .inew _ _ _ _ => 1
  | .tick _ => 1
  | .ireset _ => 2
  | .restart _ => 0
  | .halt => 0

def W : List (Nat × Fut) → Nat
  | [] => 0
  | (_, f) :: rest => w f + W rest

def taskW (t : Task) : Nat := W t.lines + envU t.env

def tasksW : List Task → Nat
  | [] => 0
  | t :: rest => taskW t + tasksW rest

def progW (progs : List (List (Nat × Fut))) : Nat := (progs.map W).sum

def tPhi (t : State) : Nat := t.wakeups.length + t.pending.length
def rflag (m : Mod) : Nat := if m.restartAt.isSome then 1 else 0
def aflag (b : Bool) : Nat := if b then 3 else 0

/-- potential of one module -/
def mPhi (m : Mod) : Nat :=
  tPhi m.timer + 2 * tasksW m.tasks + rflag m + (if m.inc = 0 then 2 * progW m.progs + 5 else 0) + aflag m.active

/-- fuel that suffices for the event loop from this state on -/
def Sim.fuel (s : Sim) : Nat := (s.mods.map mPhi).sum + 1

/-- `Runtime::run`: `at_sim_start` of every module, the event loop, `at_sim_end` of every module.
    The loop runs on the fuel computed from the state after start-up; for the repaired `next` it
    never runs out (`sim_run_terminates`), `none` is kept only for other `nx`. -/
def Sim.run (nx : List Slot → Option Nat) (progs : List (List (List (Nat × Fut)))) : Option Sim :=
  let s0 : Sim := { mods := progs.map fun p => { progs := p } }
  let s1 := Sim.forAll nx s0 .start s0.mods.length 0
  match Sim.loop nx s1.fuel s1 with
  | none => none
  | some s2 => some (Sim.forAll nx s2 .simEnd s2.mods.length 0)

end Timer

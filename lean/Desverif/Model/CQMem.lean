/-
The calendar queue together with the memory of its list nodes: `CQ` (mod.rs / linked_list.rs
list structure) composed with `Alloc` (alloc.rs) the way `LocalBox` / `DualLinkedList` use it:

* `CQueue::new`: one page, then per bucket a head and a tail sentinel node (`EventNode::empty`);
* `add` of an event that is not for the current instant: one node (`EventNode::new`);
  events for the current instant live in the `VecDeque` and own no node;
* `fetch_next` / `cancel` of a bucket-resident event (the number of bucket-resident events went
  down): its node is re-boxed and dropped;
* `Drop for CQueue`: bucket by bucket, pending nodes front to back, then head, then tail;
  afterwards the `VecDeque` drops the current-instant payloads.

All nodes of one queue have the same layout `(nsize, 2^nlog)` = `Layout::new::<EventNode<T>>()`.
Outputs: the queue's answer, the allocator events, and the payloads destroyed during the call.
-/
import Desverif.Model.CQRun
import Desverif.Model.Alloc
namespace CQMem
open Alloc (MEv)

structure State where
  q : CQ.State × CQRun.Handles
  a : Alloc.RState
  /-- event id ↦ allocator key of the node that stores the event (bucket-resident events only) -/
  nodes : List (Nat × Nat)
  /-- per bucket: allocator keys of the head and tail sentinels -/
  sent : List (Nat × Nat)
  nsize : Nat
  nlog : Nat

inductive Out
  | cq (o : CQRun.Out)
  | created
  | createFailed           -- `LocalBox::new_in` unwrapped `Err(())`: the node does not fit a page
  | dropped
  | diverged               -- `find_region` would not terminate
  | internal
deriving Repr, DecidableEq

structure Res where
  st : State
  out : Out
  evs : List MEv := []
  drops : List Nat := []   -- payload values destroyed during the call, in order

/-- allocate one node -/
def allocNode (orc : Nat → Nat) (a : Alloc.RState) (nsize nlog : Nat) :
    Alloc.RState × Alloc.Out × List MEv :=
  Alloc.stepEv orc a (.alloc nsize nlog)

/-- release nodes by allocator key, in order; `false` if some key was not live -/
def freeKeys (orc : Nat → Nat) : Alloc.RState → List Nat → Alloc.RState × List MEv × Bool
  | a, [] => (a, [], true)
  | a, k :: ks =>
    let (a', o, ev) := Alloc.stepEv orc a (.free k)
    let (a'', evs, ok) := freeKeys orc a' ks
    (a'', ev ++ evs, ok && o == .freed)

/-- sentinels of `n` buckets -/
def mkSentinels (orc : Nat → Nat) (nsize nlog : Nat) :
    Nat → Alloc.RState → List (Nat × Nat) → List MEv → Except (Out × List MEv) (Alloc.RState × List (Nat × Nat) × List MEv)
  | 0, a, acc, evs => .ok (a, acc, evs)
  | n + 1, a, acc, evs =>
    let (a1, o1, e1) := allocNode orc a nsize nlog
    match o1 with
    | .allocated _ =>
      let (a2, o2, e2) := allocNode orc a1 nsize nlog
      match o2 with
      | .allocated _ => mkSentinels orc nsize nlog n a2 (acc ++ [(a.next, a1.next)]) (evs ++ e1 ++ e2)
      | .diverged => .error (.diverged, evs ++ e1 ++ e2)
      | _ => .error (.internal, evs ++ e1 ++ e2)
    | .failed => if acc.isEmpty then .error (.createFailed, evs ++ e1) else .error (.internal, evs ++ e1)
    | .diverged => .error (.diverged, evs ++ e1)
    | _ => .error (.internal, evs ++ e1)

/-- `CQueue::new(n, t)` on an allocator with the given page size -/
def create (orc : Nat → Nat) (n t page nsize nlog : Nat) : Option State × Out × List MEv :=
  match Alloc.start orc page with
  | none => (none, .internal, [])
  | some a0 =>
    let ev0 := Alloc.newPages { a0.st with pages := [] } a0.st
    match mkSentinels orc nsize nlog n a0 [] ev0 with
    | .error (o, evs) => (none, o, evs)
    | .ok (a, sent, evs) =>
      (some { q := (CQ.init n t, []), a, nodes := [], sent, nsize, nlog }, .created, evs)

def pendingOf (m : CQ.State) : List CQ.Ev := m.zero ++ m.buckets.flatten

/-- number of bucket-resident events (each owns one list node) -/
def bucketCount (m : CQ.State) : Nat := m.buckets.flatten.length

def add (orc : Nat → Nat) (st : State) (time val : Nat) : Res :=
  match CQ.add st.q.1 time val with
  | .error _ => { st, out := .cq .rejected, drops := [val] }     -- the payload dies with the panic
  | .ok (m', id) =>
    let q' := (m', st.q.2 ++ [(id, time)])
    if time = st.q.1.tcur then { st := { st with q := q' }, out := .cq .added }
    else
      let (a', o, evs) := allocNode orc st.a st.nsize st.nlog
      match o with
      | .allocated _ =>
        { st := { st with q := q', a := a', nodes := (id, st.a.next) :: st.nodes }, out := .cq .added, evs }
      | .diverged => { st, out := .diverged, evs }
      | _ => { st, out := .internal, evs }

/-- release the node of event `id`, if it has one -/
def freeNodeOf (orc : Nat → Nat) (st : State) (id : Nat) : State × List MEv × Bool :=
  match st.nodes.lookup id with
  | none => (st, [], false)
  | some key =>
    let (a', evs, ok) := freeKeys orc st.a [key]
    ({ st with a := a', nodes := st.nodes.filter (·.1 ≠ id) }, evs, ok)

def cancel (orc : Nat → Nat) (st : State) (k : Nat) : Res :=
  match st.q.2[k]? with
  | none => { st, out := .cq .badHandle }
  | some (id, time) =>
    let m := st.q.1
    let m' := CQ.cancel m id time
    let st' := { st with q := (m', st.q.2) }
    if (pendingOf m').length = (pendingOf m).length then { st := st', out := .cq .cancelDone }
    else
      let victim := ((pendingOf m).find? (·.id = id)).map (·.val)
      if bucketCount m' < bucketCount m then
        let (st'', evs, ok) := freeNodeOf orc st' id
        { st := st'', out := if ok then .cq .cancelDone else .internal, evs, drops := victim.toList }
      else { st := st', out := .cq .cancelDone, drops := victim.toList }

def fetch (orc : Nat → Nat) (st : State) : Res :=
  match CQ.fetch st.q.1 with
  | .error .empty => { st, out := .cq .empty }
  | .error _ => { st, out := .internal }
  | .ok (e, m') =>
    let st' := { st with q := (m', st.q.2) }
    if bucketCount m' < bucketCount st.q.1 then
      let (st'', evs, ok) := freeNodeOf orc st' e.id
      { st := st'', out := if ok then .cq (.fetched e.val e.time) else .internal, evs }
    else { st := st', out := .cq (.fetched e.val e.time) }

/-- one scripted queue operation -/
def step (orc : Nat → Nat) (st : State) : CQRun.Op → Res
  | .add time val => add orc st time val
  | .cancel k => cancel orc st k
  | .fetch => fetch orc st
  | .peek => { st, out := .cq (.peeked (CQ.nextTime st.q.1)) }

/-- keys released by `Drop for CQueue`, in order -/
def dropKeys (st : State) : List Nat :=
  (st.q.1.buckets.zip st.sent).flatMap fun (b, (h, t)) =>
    (b.filterMap fun e => st.nodes.lookup e.id) ++ [h, t]

/-- `Drop for CQueue` -/
def drop (orc : Nat → Nat) (st : State) : Res :=
  let (a', evs, ok) := freeKeys orc st.a (dropKeys st)
  { st := { st with a := a', nodes := [] }, out := if ok then .dropped else .internal, evs,
    drops := (st.q.1.buckets.flatten ++ st.q.1.zero).map (·.val) }

end CQMem

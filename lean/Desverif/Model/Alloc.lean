/-
Model of the calendar queue's page allocator `CQueueLLAllocatorInner` / `CQueueLLAllocator`
(des-cqueue/src/stable/alloc.rs). Core Lean only: this file is linked into the driver.

Addresses and sizes are `Nat` (usize overflow — `checked_add` — is out of scope).  The free list
is the list of `(addr, size)` regions in list order (front first): the Rust code stores each
`ListNode {size, next}` *inside* the free region it describes, so the region's address is the
node's address.  Fresh pages come from a *page oracle* `orc : Nat → Nat` (`orc k` = address the
system allocator returns for the k-th page).  Every `assert!` is an explicit error value.
-/
namespace Alloc

/-- `size_of::<ListNode>()` (a `usize` and an `Option<&mut _>`), 64-bit target -/
def NODE_SIZE : Nat := 16
/-- `align_of::<ListNode>()` -/
def NODE_ALIGN : Nat := 8

/-- `align_up(addr, align) = (addr + align - 1) & !(align - 1)`.
    For `align` a power of two (guaranteed by `Layout`) the mask clears `(addr+align-1) % align`;
    see `Alloc.alignUp_eq_mask`. -/
def alignUp (addr align : Nat) : Nat := (addr + align - 1) - (addr + align - 1) % align

structure Region where
  addr : Nat
  size : Nat
deriving Repr, DecidableEq, Inhabited

/-- `ListNode::end_addr` -/
def Region.stop (r : Region) : Nat := r.addr + r.size

/-- `size_align(layout)`: `layout.align_to(8).pad_to_align()`, size at least a `ListNode` -/
def sizeAlign (lsize lalign : Nat) : Nat × Nat :=
  let align := max lalign NODE_ALIGN
  (max (alignUp lsize align) NODE_SIZE, align)

structure State where
  /-- `head.next …`: the free list, front first -/
  free : List Region
  /-- `pages` (push order) -/
  pages : List Nat
  pageSize : Nat
  /-- `allocated_mem` -/
  allocated : Nat
deriving Repr, DecidableEq

inductive Err
  | assertAlign     -- `assert_eq!(align_up(addr, align_of::<ListNode>()), addr)` in add_free_region
  | assertSize      -- `assert!(size >= size_of::<ListNode>())` in add_free_region
  | underflow       -- `allocated_mem -= size` below zero
  | diverge         -- `find_region` recursion does not terminate (fuel exhausted)
deriving Repr, DecidableEq

/-- `add_free_region`: push to the *front* of the list -/
def addFreeRegion (s : State) (addr size : Nat) : Except Err State :=
  if alignUp addr NODE_ALIGN ≠ addr then .error .assertAlign
  else if size < NODE_SIZE then .error .assertSize
  else .ok { s with free := ⟨addr, size⟩ :: s.free }

/-- `add_page`: the next page of the oracle becomes one free region -/
def addPage (orc : Nat → Nat) (s : State) : Except Err State :=
  let b := orc s.pages.length
  addFreeRegion { s with pages := s.pages ++ [b] } b s.pageSize

/-- `with_page_size` -/
def init (orc : Nat → Nat) (pageSize : Nat) : Except Err State :=
  addPage orc { free := [], pages := [], pageSize, allocated := 0 }

/-- `alloc_from_region`: align the region start up, the block must end inside the region, and
    what is left behind it must be nothing or room for a `ListNode`. -/
def allocFromRegion (r : Region) (size align : Nat) : Option Nat :=
  let start := alignUp r.addr align
  let stop := start + size
  if stop > r.stop then none
  else
    let excess := r.stop - stop
    if excess > 0 ∧ excess < NODE_SIZE then none else some start

/-- the `while let Some(region) = current.next` loop of `find_region`: first region (from the
    front) that is suitable; it is unlinked.  Result: (remaining list, region, alloc_start). -/
def scan : List Region → Nat → Nat → Option (List Region × Region × Nat)
  | [], _, _ => none
  | r :: rs, size, align =>
    match allocFromRegion r size align with
    | some st => some (rs, r, st)
    | none =>
      match scan rs size align with
      | some (rest, r', st) => some (r :: rest, r', st)
      | none => none

/-- `find_region`: scan; when nothing fits add a page and start over (the Rust code recurses
    without bound; `fuel` = number of pages it may add). -/
def findRegion (orc : Nat → Nat) : Nat → State → Nat → Nat → Except Err (State × Region × Nat)
  | fuel, s, size, align =>
    match scan s.free size align with
    | some (rest, r, st) => .ok ({ s with free := rest }, r, st)
    | none =>
      match fuel with
      | 0 => .error .diverge
      | fuel + 1 =>
        match addPage orc s with
        | .error e => .error e
        | .ok s' => findRegion orc fuel s' size align

/-- pages `find_region` may add: a fresh page either serves the request or no page ever will
    (`Alloc.findRegion_diverges`), so one is enough. -/
def FUEL : Nat := 1

/-- `CQueueLLAllocator::allocate(layout)`; `none` = `Err(())`.
    Split rule: the tail behind the block goes back to the free list only if it is at least as
    large as the block just handed out; a shorter tail is abandoned. -/
def allocate (orc : Nat → Nat) (s : State) (lsize lalign : Nat) : Except Err (State × Option Nat) :=
  let (size, align) := sizeAlign lsize lalign
  if size > s.pageSize then .ok (s, none)
  else
    match findRegion orc FUEL s size align with
    | .error e => .error e
    | .ok (s1, region, start) =>
      let stop := start + size
      let excess := region.stop - stop
      let s2 : Except Err State :=
        if excess > 0 then
          if excess < size then .ok s1 else addFreeRegion s1 stop excess
        else .ok s1
      match s2 with
      | .error e => .error e
      | .ok s2 => .ok ({ s2 with allocated := s2.allocated + size }, some start)

/-- `CQueueLLAllocator::deallocate(ptr, layout)` -/
def deallocate (s : State) (addr lsize lalign : Nat) : Except Err State :=
  let size := (sizeAlign lsize lalign).1
  if s.allocated < size then .error .underflow
  else addFreeRegion { s with allocated := s.allocated - size } addr size

/-! ### Scripted runs (what the driver replays and the theorems quantify over) -/

/-- a request sequence: layouts are `(size, 2^alignLog)` — `Layout` only admits power-of-two
    alignments; `free k` releases the block returned by the k-th successful allocation, with the
    layout it was requested with (the contract of the `unsafe fn deallocate`). -/
inductive Op
  | alloc (lsize alignLog : Nat)
  | free (k : Nat)
deriving Repr, DecidableEq

inductive Out
  | allocated (addr : Nat)
  | failed               -- `allocate` returned `Err(())` (request larger than a page)
  | freed
  | badHandle            -- the script names a block that is not live: no call is made
  | diverged             -- `find_region` would add pages forever
  | internal             -- an `assert!` of the allocator failed / counter underflow
deriving Repr, DecidableEq

/-- a live block (ghost state: the allocator itself keeps no record of live blocks) -/
structure Live where
  key : Nat
  addr : Nat
  lsize : Nat
  lalign : Nat
deriving Repr, DecidableEq

/-- the memory the allocator reserved for a live block: its normalised size -/
def Live.blk (e : Live) : Region := ⟨e.addr, (sizeAlign e.lsize e.lalign).1⟩

structure RState where
  st : State
  live : List Live
  next : Nat            -- number of successful allocations so far
deriving Repr, DecidableEq

def errOut : Err → Out
  | .diverge => .diverged
  | _ => .internal

def step (orc : Nat → Nat) (rs : RState) : Op → RState × Out
  | .alloc lsize alignLog =>
    match allocate orc rs.st lsize (2 ^ alignLog) with
    | .error e => (rs, errOut e)
    | .ok (s', none) => ({ rs with st := s' }, .failed)
    | .ok (s', some a) =>
      ({ st := s', live := ⟨rs.next, a, lsize, 2 ^ alignLog⟩ :: rs.live, next := rs.next + 1 },
       .allocated a)
  | .free k =>
    match rs.live.find? (·.key = k) with
    | none => (rs, .badHandle)
    | some e =>
      match deallocate rs.st e.addr e.lsize e.lalign with
      | .error err => (rs, errOut err)
      | .ok s' => ({ rs with st := s', live := rs.live.erase e }, .freed)

def runFrom (orc : Nat → Nat) : RState → List Op → RState × List Out
  | rs, [] => (rs, [])
  | rs, op :: ops =>
    let (rs', o) := step orc rs op
    let (rs'', os) := runFrom orc rs' ops
    (rs'', o :: os)

/-- the allocator right after `with_page_size(pageSize)` -/
def start (orc : Nat → Nat) (pageSize : Nat) : Option RState :=
  match init orc pageSize with
  | .ok s => some { st := s, live := [], next := 0 }
  | .error _ => none

def run (orc : Nat → Nat) (pageSize : Nat) (ops : List Op) : Option (RState × List Out) :=
  (start orc pageSize).map (runFrom orc · ops)

/-! ### The allocator event stream (what the cfg(petrichorit_des_verif) observer reports) -/

inductive MEv
  | page (addr len : Nat)                 -- `add_page`
  | alloc (addr lsize lalign : Nat)       -- `allocate` returned `Ok(addr)`
  | fail (lsize lalign : Nat)             -- `allocate` returned `Err(())`
  | free (addr lsize lalign : Nat)        -- `deallocate(addr, layout)`
deriving Repr, DecidableEq

/-- pages acquired between two states -/
def newPages (s s' : State) : List MEv :=
  (s'.pages.drop s.pages.length).map (fun b => .page b s'.pageSize)

/-- `step` together with the events the observer would record for it -/
def stepEv (orc : Nat → Nat) (rs : RState) (op : Op) : RState × Out × List MEv :=
  let (rs', o) := step orc rs op
  let pg := newPages rs.st rs'.st
  match op, o with
  | .alloc lsize k, .allocated a => (rs', o, pg ++ [.alloc a lsize (2 ^ k)])
  | .alloc lsize k, .failed => (rs', o, pg ++ [.fail lsize (2 ^ k)])
  | .free k, .freed =>
    match rs.live.find? (·.key = k) with
    | some e => (rs', o, [.free e.addr e.lsize e.lalign])
    | none => (rs', o, [])
  | _, _ => (rs', o, pg)

/-- the event stream of a scripted run -/
def traceFrom (orc : Nat → Nat) : RState → List Op → List MEv
  | _, [] => []
  | rs, op :: ops => (stepEv orc rs op).2.2 ++ traceFrom orc (stepEv orc rs op).1 ops

/-- …including the page obtained by `with_page_size` -/
def trace (orc : Nat → Nat) (pageSize : Nat) (ops : List Op) : Option (List MEv) :=
  (start orc pageSize).map fun rs =>
    newPages { rs.st with pages := [] } rs.st ++ traceFrom orc rs ops

end Alloc

/-
Normal form of compartmentalised configurations, their flat reading, and the extension
relation on property stores used to state what `update_from` adds.
-/
import Desverif.Proofs.CfgMap
import Desverif.Proofs.CfgSpecLemmas
namespace Cfg
open CfgSpec (Matches)

/-- flat reading of a (nested) mapping: keys along a branch are concatenated -/
inductive FlatOf : Entries → Key → String → Prop
  | leaf {es k s} : (k, Val.scalar s) ∈ es → FlatOf es k s
  | node {es k sub k' s} : (k, Val.map sub) ∈ es → FlatOf sub k' s → FlatOf es (k ++ k') s

mutual
/-- compartmentalised mapping: unique keys, every entry is a wildcard node, a literal prefix
    leading to a wildcard node, or a wildcard-free key with a scalar -/
inductive NF : Entries → Prop
  | mk {es} : (keysOf es).Nodup → (∀ k v, (k, v) ∈ es → ENF k v) → NF es
inductive ENF : Key → Val → Prop
  | any {w} : NF w → (∃ k s, FlatOf w k s) → ENF [ANY] (.map w)
  | top {k w} : ANY ∉ k → k ≠ [] → NF w → (∃ k s, FlatOf w k s) → ENF k (.map [([ANY], .map w)])
  | leaf {k s} : ANY ∉ k → k ≠ [] → ENF k (.scalar s)
end

theorem NF.nodup {es : Entries} (h : NF es) : (keysOf es).Nodup := by cases h; assumption
theorem NF.ent {es : Entries} (h : NF es) {k : Key} {v : Val} (hm : (k, v) ∈ es) : ENF k v := by
  cases h with
  | mk _ h2 => exact h2 k v hm

theorem NF.nil : NF [] := NF.mk (by simp) (by simp)

theorem ENF.key_any {v : Val} (h : ENF [ANY] v) : ∃ w, v = .map w ∧ NF w ∧ ∃ k s, FlatOf w k s := by
  cases h with
  | any h1 h2 => exact ⟨_, rfl, h1, h2⟩
  | top h1 _ _ _ => simp at h1
  | leaf h1 _ => simp at h1

theorem NF.single {w : Entries} (h : NF w) (hw : ∃ k s, FlatOf w k s) : NF [([ANY], .map w)] :=
  NF.mk (by simp) (by
    intro k v hm
    simp only [List.mem_singleton, Prod.mk.injEq] at hm
    obtain ⟨h1, h2⟩ := hm
    subst h1 h2
    exact ENF.any h hw)

/-- every value in a normal form is a scalar or a mapping in normal form -/
theorem ENF.val {k : Key} {v : Val} (h : ENF k v) : (∃ s, v = .scalar s) ∨ ∃ sub, v = .map sub ∧ NF sub := by
  cases h with
  | any h1 _ => exact Or.inr ⟨_, rfl, h1⟩
  | top _ _ h3 h4 => exact Or.inr ⟨_, rfl, NF.single h3 h4⟩
  | leaf _ _ => exact Or.inl ⟨_, rfl⟩

theorem FlatOf.single_inv {w : Entries} {k : Key} {s : String} (h : FlatOf [([ANY], Val.map w)] k s) :
    ∃ k', k = ANY :: k' ∧ FlatOf w k' s := by
  cases h with
  | leaf hm => simp at hm
  | node hm hf =>
    simp only [List.mem_singleton, Prod.mk.injEq, Val.map.injEq] at hm
    obtain ⟨h1, h2⟩ := hm
    subst h1 h2
    exact ⟨_, rfl, hf⟩

/-! ### extension of a property store -/

/-- `ps'` extends `ps`: nothing is lost or changed, every new entry satisfies `S`, and every name
    in `C` is present afterwards -/
structure Ext (S : Key × Slot → Prop) (C : Key → Prop) (ps ps' : Props) : Prop where
  mono : ∀ x, x ∈ ps → x ∈ ps'
  sound : ∀ x, x ∈ ps' → x ∈ ps ∨ S x
  cover : ∀ n, C n → n ∈ ps'.map (·.1)

theorem Ext.refl {S : Key × Slot → Prop} (ps : Props) : Ext S (fun _ => False) ps ps :=
  ⟨fun _ h => h, fun _ h => Or.inl h, fun _ h => h.elim⟩

theorem Ext.same {S : Key × Slot → Prop} {C : Key → Prop} (ps : Props) (hc : ∀ n, C n → False) :
    Ext S C ps ps :=
  ⟨fun _ h => h, fun _ h => Or.inl h, fun n h => (hc n h).elim⟩

theorem Ext.trans {S1 S2 : Key × Slot → Prop} {C1 C2 : Key → Prop} {a b c : Props}
    (h1 : Ext S1 C1 a b) (h2 : Ext S2 C2 b c) :
    Ext (fun x => S1 x ∨ S2 x) (fun n => C1 n ∨ C2 n) a c where
  mono x h := h2.mono x (h1.mono x h)
  sound x h := by
    rcases h2.sound x h with h | h
    · rcases h1.sound x h with h | h
      · exact Or.inl h
      · exact Or.inr (Or.inl h)
    · exact Or.inr (Or.inr h)
  cover n h := by
    rcases h with h | h
    · obtain ⟨x, hx, hn⟩ := List.mem_map.mp (h1.cover n h)
      exact List.mem_map.mpr ⟨x, h2.mono x hx, hn⟩
    · exact h2.cover n h

theorem Ext.weaken {S S' : Key × Slot → Prop} {C C' : Key → Prop} {a b : Props} (h : Ext S C a b)
    (hs : ∀ x, S x → S' x) (hc : ∀ n, C' n → C n) : Ext S' C' a b :=
  ⟨h.mono, fun x hx => (h.sound x hx).imp id (hs x), fun n hn => h.cover n (hc n hn)⟩

/-- a loop of conditional `Props::set` calls -/
theorem ext_foldSet (c : Key × Val → Bool) (g : Key × Val → Key) (es : Entries) (ps : Props) :
    Ext (fun x => ∃ e ∈ es, c e = true ∧ x = (g e, .yaml e.2)) (fun n => ∃ e ∈ es, c e = true ∧ n = g e)
      ps (es.foldl (fun ps e => if c e then ps.set (g e) e.2 else ps) ps) := by
  induction es generalizing ps with
  | nil => exact ⟨fun _ h => h, fun _ h => Or.inl h, fun _ h => by simp at h⟩
  | cons e r ih =>
    simp only [List.foldl_cons]
    have hstep : Ext (fun x => c e = true ∧ x = (g e, .yaml e.2)) (fun n => c e = true ∧ n = g e) ps
        (if c e then ps.set (g e) e.2 else ps) := by
      by_cases hc : c e = true
      · rw [if_pos hc]
        refine ⟨fun x h => Props.mem_set.mpr (Or.inl h), ?_, ?_⟩
        · intro x h
          rcases Props.mem_set.mp h with h | h
          · exact Or.inl h
          · exact Or.inr ⟨hc, h.2⟩
        · rintro n ⟨_, hn⟩; subst hn; exact Props.key_mem_set ..
      · rw [if_neg hc]
        exact ⟨fun _ h => h, fun _ h => Or.inl h, fun n h => absurd h.1 hc⟩
    refine (hstep.trans (ih _)).weaken ?_ ?_
    · rintro x (⟨h1, h2⟩ | ⟨e', h1, h2⟩)
      · exact ⟨e, List.mem_cons_self .., h1, h2⟩
      · exact ⟨e', List.mem_cons_of_mem _ h1, h2⟩
    · rintro n ⟨e', h1, h2⟩
      rcases List.mem_cons.mp h1 with h1 | h1
      · subst h1; exact Or.inl h2
      · exact Or.inr ⟨e', h1, h2⟩

/-- an `Except` loop whose every step extends the store -/
theorem foldE_ext {α : Type} (step : Props → α → Except Err Props) (S : α → Key × Slot → Prop)
    (C : α → Key → Prop) (l : List α)
    (h : ∀ a ∈ l, ∀ ps, ∃ ps', step ps a = .ok ps' ∧ Ext (S a) (C a) ps ps') :
    ∀ ps, ∃ ps', foldE step ps l = .ok ps' ∧
      Ext (fun x => ∃ a ∈ l, S a x) (fun n => ∃ a ∈ l, C a n) ps ps' := by
  induction l with
  | nil =>
    intro ps
    exact ⟨ps, rfl, fun _ h => h, fun _ h => Or.inl h, fun _ h => by simp at h⟩
  | cons a r ih =>
    intro ps
    obtain ⟨ps1, h1, e1⟩ := h a (List.mem_cons_self ..) ps
    obtain ⟨ps2, h2, e2⟩ := ih (fun b hb => h b (List.mem_cons_of_mem _ hb)) ps1
    refine ⟨ps2, by simp only [foldE, h1, h2], (e1.trans e2).weaken ?_ ?_⟩
    · rintro x (h | ⟨b, hb, h⟩)
      · exact ⟨a, List.mem_cons_self .., h⟩
      · exact ⟨b, List.mem_cons_of_mem _ hb, h⟩
    · rintro n ⟨b, hb, hc⟩
      rcases List.mem_cons.mp hb with hb | hb
      · subst hb; exact Or.inl hc
      · exact Or.inr ⟨b, hb, hc⟩

end Cfg

/-
C18, totality: the NDL parsers and `transform` never reach an `internal` (panic) state.

* `NoInt x`           — `x` is not `error (internal _)`
* parsers             — `parseField_noInt`, `parseTypClause_noInt`, `parseEndpoint_noInt`, `parseDef_noInt`,
                        `parseDef_endpointsNonempty` (what the deserialiser guarantees `transform`)
* ordering loop       — `orderLoop_spec`: the fuel suffices and the produced order is `Ordered`
                        (every entry's required symbols are provided by earlier entries)
* elaboration         — `buildAll_noInt`: along an `Ordered` work list every `nodes.get(..).expect(..)`
                        succeeds (invariant `ArchOK`: stored archetypes only mention stored bounds)
-/
import Desverif.Model.Ndl
namespace Ndl

/-- the computation does not panic -/
def NoInt {α : Type} (x : Except Fail α) : Prop := ∀ w, x ≠ .error (.internal w)

theorem NoInt.ok {α : Type} (a : α) : NoInt (.ok a : Except Fail α) := by intro w h; cases h
theorem NoInt.pure {α : Type} (a : α) : NoInt (pure a : Except Fail α) := by intro w h; cases h
theorem NoInt.parse {α : Type} : NoInt (.error .parse : Except Fail α) := by intro w h; cases h
theorem NoInt.err {α : Type} (k : Kind) (d : List Str) (s : Span) :
    NoInt (.error (.err k d s) : Except Fail α) := by intro w h; cases h
theorem NoInt.kerr {α : Type} (k : Kind) (d : List Str) : NoInt (kerr k d : Except Fail α) := by
  intro w h; cases h

theorem NoInt.bind {α β : Type} {x : Except Fail α} {f : α → Except Fail β} (hx : NoInt x)
    (hf : ∀ a, x = .ok a → NoInt (f a)) : NoInt (x >>= f) := by
  intro w h
  cases x with
  | ok a => exact hf a rfl w h
  | error e =>
    have h' : (Except.error e : Except Fail β) = .error (.internal w) := h
    cases h'
    exact hx w rfl

theorem NoInt.mapErr {α : Type} {x : Except Fail α} (g : Span → Span) (hx : NoInt x) :
    NoInt (mapErr g x) := by
  intro w h
  cases x with
  | ok a => cases h
  | error e =>
    cases e with
    | internal w' => exact hx w' rfl
    | parse => cases h
    | err k d s => cases h

theorem mapErr_ok {α : Type} {x : Except Fail α} {g : Span → Span} {a : α}
    (h : mapErr g x = .ok a) : x = .ok a := by
  cases x with
  | ok b => simpa [mapErr] using h
  | error e => cases h

theorem NoInt.mapM {α β : Type} {f : α → Except Fail β} :
    ∀ (l : List α), (∀ a ∈ l, NoInt (f a)) → NoInt (l.mapM f)
  | [], _ => by simp only [List.mapM_nil]; exact NoInt.pure _
  | a :: l, h => by
    simp only [List.mapM_cons]
    refine NoInt.bind (h a (List.mem_cons_self ..)) fun b _ => ?_
    refine NoInt.bind (NoInt.mapM l fun x hx => h x (List.mem_cons_of_mem _ hx)) fun bs _ => ?_
    exact NoInt.pure _

theorem mapM_length {α β : Type} {f : α → Except Fail β} :
    ∀ (l : List α) (l' : List β), l.mapM f = .ok l' → l'.length = l.length
  | [], l', h => by
    simp only [List.mapM_nil] at h
    cases h; rfl
  | a :: l, l', h => by
    simp only [List.mapM_cons] at h
    cases hfa : f a with
    | error e => rw [hfa] at h; cases h
    | ok b =>
      rw [hfa] at h
      cases hl : l.mapM f with
      | error e => rw [hl] at h; cases h
      | ok bs =>
        rw [hl] at h
        cases h
        simp [mapM_length l bs hl]

theorem mapM_mem {α β : Type} {f : α → Except Fail β} :
    ∀ (l : List α) (l' : List β), l.mapM f = .ok l' → ∀ b ∈ l', ∃ a ∈ l, f a = .ok b
  | [], l', h, b, hb => by
    simp only [List.mapM_nil] at h
    cases h; cases hb
  | a :: l, l', h, b, hb => by
    simp only [List.mapM_cons] at h
    cases hfa : f a with
    | error e => rw [hfa] at h; cases h
    | ok b0 =>
      rw [hfa] at h
      cases hl : l.mapM f with
      | error e => rw [hl] at h; cases h
      | ok bs =>
        rw [hl] at h
        cases h
        rcases List.mem_cons.1 hb with rfl | hb
        · exact ⟨a, List.mem_cons_self .., hfa⟩
        · obtain ⟨a', ha', h'⟩ := mapM_mem l bs hl b hb
          exact ⟨a', List.mem_cons_of_mem _ ha', h'⟩

/-! ### parsers -/

theorem parseField_noInt (s : Str) : NoInt (parseField s) := by
  unfold parseField
  split
  · split
    · exact NoInt.parse
    · split
      · exact NoInt.parse
      · exact NoInt.ok _
  · exact NoInt.ok _

theorem parseGenerics_noInt (s : Str) : NoInt (parseGenerics s) := by
  unfold parseGenerics
  split
  · exact NoInt.parse
  · exact NoInt.ok _

theorem parseStrArg_noInt (s : Str) : NoInt (parseStrArg s) := NoInt.ok _

theorem parseTypClause_noInt {α : Type} (parg : Str → Except Fail α) (hp : ∀ s, NoInt (parg s))
    (s : Str) : NoInt (parseTypClause parg s) := by
  unfold parseTypClause
  split
  · exact NoInt.ok _
  · split
    · exact NoInt.parse
    · exact NoInt.bind (NoInt.mapM _ fun a _ => hp a) fun _ _ => NoInt.ok _

theorem parseEndpoint_noInt (s : Str) : NoInt (parseEndpoint s) := by
  unfold parseEndpoint
  exact NoInt.bind (NoInt.mapM _ fun a _ => parseField_noInt a) fun _ _ => NoInt.ok _

theorem parseConn_noInt (c : RawConn) : NoInt (parseConn c) := by
  unfold parseConn
  exact NoInt.bind (parseEndpoint_noInt _) fun _ _ =>
    NoInt.bind (parseEndpoint_noInt _) fun _ _ => NoInt.ok _

theorem parseSubs_noInt : ∀ (l : List (Str × Str)) (acc : List (FieldDef × TypClause Str)),
    NoInt (parseSubs l acc)
  | [], acc => NoInt.ok _
  | (k, v) :: r, acc => by
    unfold parseSubs
    exact NoInt.bind (parseField_noInt _) fun _ _ =>
      NoInt.bind (parseTypClause_noInt _ parseStrArg_noInt _) fun _ _ => parseSubs_noInt r _

theorem parseModule_noInt (m : RawModule) : NoInt (parseModule m) := by
  unfold parseModule
  exact NoInt.bind (parseTypClause_noInt _ parseGenerics_noInt _) fun _ _ =>
    NoInt.bind (NoInt.mapM _ fun a _ => parseField_noInt a) fun _ _ =>
      NoInt.bind (parseSubs_noInt _ _) fun _ _ =>
        NoInt.bind (NoInt.mapM _ fun a _ => parseConn_noInt a) fun _ _ => NoInt.ok _

theorem parseModules_noInt : ∀ (l : List RawModule) (acc : List (TypClause GenericsDef × ModuleDef)),
    NoInt (parseModules l acc)
  | [], acc => NoInt.ok _
  | m :: r, acc => by
    unfold parseModules
    exact NoInt.bind (parseModule_noInt _) fun a _ => by
      cases a with
      | mk k v => exact parseModules_noInt r _

theorem parseDef_noInt (raw : RawDef) : NoInt (parseDef raw) := by
  unfold parseDef
  exact NoInt.bind (parseModules_noInt _ _) fun _ _ => NoInt.ok _

/-! ### what the deserialiser guarantees: endpoints have at least one accessor -/

theorem splitChar_ne_nil (c : Char) : ∀ s : Str, splitChar c s ≠ []
  | [] => by simp [splitChar]
  | x :: xs => by
    unfold splitChar
    split
    · exact List.cons_ne_nil _ _
    · split <;> exact List.cons_ne_nil _ _

theorem parseEndpoint_nonempty {s : Str} {e : EndpointDef} (h : parseEndpoint s = .ok e) :
    e.accessors ≠ [] := by
  unfold parseEndpoint at h
  cases hm : (splitChar '/' s).mapM parseField with
  | error err => rw [hm] at h; cases h
  | ok l =>
    rw [hm] at h
    cases h
    have hl := mapM_length _ _ hm
    intro h0
    have h0' : l = [] := h0
    have : (splitChar '/' s).length = 0 := by rw [← hl, h0']; rfl
    exact splitChar_ne_nil '/' s (List.length_eq_zero_iff.1 this)

def ConnWF (c : ConnDef) : Prop := c.lhs.accessors ≠ [] ∧ c.rhs.accessors ≠ []

def ModWF (m : ModuleDef) : Prop := ∀ c ∈ m.connections, ConnWF c

theorem parseConn_wf {c : RawConn} {d : ConnDef} (h : parseConn c = .ok d) : ConnWF d := by
  unfold parseConn at h
  cases hl : parseEndpoint c.lhs with
  | error e => rw [hl] at h; cases h
  | ok l =>
    rw [hl] at h
    cases hr : parseEndpoint c.rhs with
    | error e => rw [hr] at h; cases h
    | ok r =>
      rw [hr] at h
      cases h
      exact ⟨parseEndpoint_nonempty hl, parseEndpoint_nonempty hr⟩

theorem parseModule_wf {m : RawModule} {k : TypClause GenericsDef} {v : ModuleDef}
    (h : parseModule m = .ok (k, v)) : ModWF v := by
  unfold parseModule at h
  cases h1 : parseTypClause parseGenerics m.key with
  | error e => rw [h1] at h; cases h
  | ok key =>
    rw [h1] at h
    cases h2 : m.gates.mapM parseField with
    | error e => rw [h2] at h; cases h
    | ok gates =>
      rw [h2] at h
      cases h3 : parseSubs m.submodules [] with
      | error e => rw [h3] at h; cases h
      | ok subs =>
        rw [h3] at h
        cases h4 : m.connections.mapM parseConn with
        | error e => rw [h4] at h; cases h
        | ok conns =>
          rw [h4] at h
          cases h
          intro c hc
          obtain ⟨rc, _, hrc⟩ := mapM_mem _ _ h4 c hc
          exact parseConn_wf hrc

theorem mem_insertKV {κ ν : Type} [DecidableEq κ] (k : κ) (v : ν) :
    ∀ (l : List (κ × ν)) (x : κ × ν), x ∈ insertKV k v l → x.2 = v ∨ x ∈ l
  | [], x, h => by
    simp only [insertKV, List.mem_singleton] at h
    left; rw [h]
  | (k', v') :: r, x, h => by
    unfold insertKV at h
    split at h
    · rcases List.mem_cons.1 h with rfl | h
      · left; rfl
      · right; exact List.mem_cons_of_mem _ h
    · rcases List.mem_cons.1 h with rfl | h
      · right; exact List.mem_cons_self ..
      · rcases mem_insertKV k v r x h with h | h
        · left; exact h
        · right; exact List.mem_cons_of_mem _ h

theorem parseModules_wf : ∀ (l : List RawModule) (acc out : List (TypClause GenericsDef × ModuleDef)),
    (∀ x ∈ acc, ModWF x.2) → parseModules l acc = .ok out → ∀ x ∈ out, ModWF x.2
  | [], acc, out, hacc, h => by
    unfold parseModules at h
    cases h
    exact hacc
  | m :: r, acc, out, hacc, h => by
    unfold parseModules at h
    cases hm : parseModule m with
    | error e => rw [hm] at h; cases h
    | ok kv =>
      cases kv with
      | mk k v =>
        rw [hm] at h
        refine parseModules_wf r _ out ?_ h
        intro x hx
        rcases mem_insertKV k v acc x hx with h' | h'
        · rw [h']; exact parseModule_wf hm
        · exact hacc x h'

theorem parseDef_endpointsNonempty {raw : RawDef} {d : Def} (h : parseDef raw = .ok d) :
    d.endpointsNonempty := by
  unfold parseDef at h
  cases hm : parseModules raw.modules [] with
  | error e => rw [hm] at h; cases h
  | ok ms =>
    rw [hm] at h
    cases h
    intro km hkm c hc
    exact parseModules_wf raw.modules [] ms (fun x hx => by cases hx) hm km hkm c hc

/-! ### the dependency ordering loop -/

/-- a work list in which every entry's required symbols are provided by `p` or by earlier entries -/
inductive Ordered : List Str → List Entry → Prop
  | nil (p : List Str) : Ordered p []
  | cons {p : List Str} {e : Entry} {es : List Entry} :
      (∀ s ∈ e.deps, s ∈ p) → Ordered (e.ident.ident :: p) es → Ordered p (e :: es)

theorem resolvable_iff (p : List Str) (e : Entry) : resolvable p e = true ↔ ∀ s ∈ e.deps, s ∈ p := by
  simp [resolvable, List.all_eq_true]

theorem pickIn_spec (q : Entry → Bool) (r0 : Entry) : ∀ (l : List Entry) (x : Entry) (l' : List Entry),
    pickIn q r0 l = some (x, l') →
      q x = true ∧ l'.length = l.length ∧ (∀ y, y ∈ x :: l' → y = r0 ∨ y ∈ l)
  | [], x, l', h => by cases h
  | t :: ts, x, l', h => by
    unfold pickIn at h
    split at h
    · next hq =>
      cases h
      refine ⟨hq, by simp, ?_⟩
      intro y hy
      rcases List.mem_cons.1 hy with rfl | hy
      · right; exact List.mem_cons_self ..
      · rcases List.mem_cons.1 hy with rfl | hy
        · left; rfl
        · right; exact List.mem_cons_of_mem _ hy
    · cases hp : pickIn q r0 ts with
      | none => rw [hp] at h; cases h
      | some xl =>
        cases xl with
        | mk x' l'' =>
          rw [hp] at h
          cases h
          obtain ⟨h1, h2, h3⟩ := pickIn_spec q r0 ts x l'' hp
          refine ⟨h1, by simp [h2], ?_⟩
          intro y hy
          rcases List.mem_cons.1 hy with rfl | hy
          · rcases h3 y (List.mem_cons_self ..) with h | h
            · left; exact h
            · right; exact List.mem_cons_of_mem _ h
          · rcases List.mem_cons.1 hy with rfl | hy
            · right; exact List.mem_cons_self ..
            · rcases h3 y (List.mem_cons_of_mem _ hy) with h | h
              · left; exact h
              · right; exact List.mem_cons_of_mem _ h

theorem pickSwap_spec (q : Entry → Bool) : ∀ (l : List Entry) (x : Entry) (l' : List Entry),
    pickSwap q l = some (x, l') →
      q x = true ∧ l'.length + 1 = l.length ∧ (∀ y, y ∈ x :: l' → y ∈ l)
  | [], x, l', h => by cases h
  | r0 :: tl, x, l', h => by
    simp only [pickSwap] at h
    split at h
    · next hq =>
      cases h
      exact ⟨hq, by simp, fun y hy => hy⟩
    · obtain ⟨h1, h2, h3⟩ := pickIn_spec q r0 tl x l' h
      refine ⟨h1, by simp [h2], ?_⟩
      intro y hy
      rcases h3 y hy with rfl | h
      · exact List.mem_cons_self ..
      · exact List.mem_cons_of_mem _ h

/-- the loop never runs out of fuel, produces an `Ordered` list, and only returns given entries -/
theorem orderLoop_spec : ∀ (fuel : Nat) (done rest : List Entry) (p : List Str),
    rest.length ≤ fuel →
    NoInt (orderLoop fuel done rest p) ∧
    ∀ out, orderLoop fuel done rest p = .ok out →
      ∃ tail, out = done ++ tail ∧ Ordered p tail ∧ ∀ y ∈ tail, y ∈ rest
  | fuel, done, [], p, _ => by
    refine ⟨?_, ?_⟩
    · unfold orderLoop; exact NoInt.ok _
    · intro out h
      unfold orderLoop at h
      cases h
      exact ⟨[], by simp, Ordered.nil p, fun y hy => by cases hy⟩
  | 0, done, r0 :: tl, p, hf => by simp at hf
  | fuel + 1, done, r0 :: tl, p, hf => by
    unfold orderLoop
    cases hp : pickSwap (resolvable p) (r0 :: tl) with
    | none =>
      refine ⟨NoInt.kerr _ _, ?_⟩
      intro out h
      cases h
    | some xl =>
      cases xl with
      | mk x rest' =>
        obtain ⟨hq, hlen, hmem⟩ := pickSwap_spec _ _ _ _ hp
        have hf' : rest'.length ≤ fuel := by
          simp only [List.length_cons] at hlen hf
          omega
        obtain ⟨ih1, ih2⟩ := orderLoop_spec fuel (done ++ [x]) rest' (x.ident.ident :: p) hf'
        refine ⟨ih1, ?_⟩
        intro out h
        obtain ⟨tail, ht, hord, hsub⟩ := ih2 out h
        refine ⟨x :: tail, by simp [ht], Ordered.cons ((resolvable_iff p x).1 hq) hord, ?_⟩
        intro y hy
        rcases List.mem_cons.1 hy with rfl | hy
        · exact hmem _ (List.mem_cons_self ..)
        · exact hmem _ (List.mem_cons_of_mem _ (hsub y hy))

/-! ### elaboration along an ordered work list -/

def keys (a : Archs) : List Str := a.map Prod.fst

/-- every stored archetype's generic bounds are stored as well -/
def ArchOK (a : Archs) : Prop := ∀ e ∈ a, ∀ g ∈ e.2.2, g.bound ∈ keys a

theorem lookup_of_mem_keys : ∀ (a : Archs) (k : Str), k ∈ keys a → ∃ v, a.lookup k = some v
  | [], k, h => by cases h
  | (k', v') :: r, k, h => by
    by_cases hk : k = k'
    · subst hk
      exact ⟨v', by simp [List.lookup]⟩
    · have : k ∈ keys r := by
        simp only [keys, List.map_cons, List.mem_cons] at h
        rcases h with h | h
        · exact absurd h hk
        · exact h
      obtain ⟨v, hv⟩ := lookup_of_mem_keys r k this
      refine ⟨v, ?_⟩
      simp only [List.lookup]
      have : (k == k') = false := by simpa using hk
      rw [this]
      exact hv

theorem lookup_mem : ∀ (a : Archs) (k : Str) (v : Node × List GenericsDef),
    a.lookup k = some v → (k, v) ∈ a
  | [], k, v, h => by cases h
  | (k', v') :: r, k, v, h => by
    simp only [List.lookup] at h
    split at h
    · next heq =>
      have : k = k' := by simpa using heq
      cases h
      subst this
      exact List.mem_cons_self ..
    · exact List.mem_cons_of_mem _ (lookup_mem r k v h)

theorem getArch_noInt {a : Archs} {k : Str} (h : k ∈ keys a) : NoInt (getArch a k) := by
  obtain ⟨v, hv⟩ := lookup_of_mem_keys a k h
  unfold getArch
  rw [hv]
  exact NoInt.ok _

theorem getArch_mem {a : Archs} {k : Str} {v : Node × List GenericsDef} (h : getArch a k = .ok v) :
    (k, v) ∈ a := by
  unfold getArch at h
  cases hl : a.lookup k with
  | none => rw [hl] at h; cases h
  | some v' =>
    rw [hl] at h
    cases h
    exact lookup_mem a k _ hl

theorem invalidTyp_noInt {α : Type} (t : TypClause Str) (g : List GenericsDef) :
    NoInt (invalidTyp t g : Except Fail α) := NoInt.kerr _ _

theorem substArgs_noInt (typ : TypClause Str) (nodes : Archs) :
    ∀ (gs : List GenericsDef) (as : List Str) (node : Node),
      gs.length = as.length → (∀ a ∈ as, a ∈ keys nodes) → (∀ g ∈ gs, g.bound ∈ keys nodes) →
      NoInt (substArgs typ nodes gs as node)
  | [], as, node, _, _, _ => by unfold substArgs; exact NoInt.ok _
  | g :: gs, [], node, hl, _, _ => by simp at hl
  | g :: gs, a :: as, node, hl, ha, hg => by
    unfold substArgs
    refine NoInt.bind (getArch_noInt (ha a (List.mem_cons_self ..))) ?_
    intro v _
    cases v with
    | mk repl replDeps =>
      simp only []
      split
      · exact invalidTyp_noInt _ _
      · refine NoInt.bind (getArch_noInt (hg g (List.mem_cons_self ..))) ?_
        intro v' _
        cases v' with
        | mk iface x =>
          simp only []
          split
          · exact NoInt.kerr _ _
          · exact substArgs_noInt typ nodes gs as _ (by simpa using hl)
              (fun a' h' => ha a' (List.mem_cons_of_mem _ h'))
              (fun g' h' => hg g' (List.mem_cons_of_mem _ h'))

theorem innerToOuter_cases (args : List GenericsDef) (s : Str) :
    (∃ a ∈ args, innerToOuter args s = a.bound) ∨
    ((∀ a ∈ args, a.binding ≠ s) ∧ innerToOuter args s = s) := by
  unfold innerToOuter
  cases h : args.find? (fun a => decide (a.binding = s)) with
  | some a => left; exact ⟨a, List.mem_of_find?_eq_some h, rfl⟩
  | none =>
    right
    refine ⟨?_, rfl⟩
    intro a ha
    have := List.find?_eq_none.1 h a ha
    simpa using this

/-- membership in `requiredSymbols`, piecewise -/
theorem mem_required_bound {typ : TypClause GenericsDef} {m : ModuleDef} {a : GenericsDef}
    (h : a ∈ typ.args) : a.bound ∈ requiredSymbols typ m := by
  unfold requiredSymbols
  simp only [List.mem_append, List.mem_map]
  left; right
  exact ⟨a, h, rfl⟩

theorem mem_required_inherit {typ : TypClause GenericsDef} {m : ModuleDef} {p : Str}
    (h : m.inherit = some p) : p ∈ requiredSymbols typ m := by
  unfold requiredSymbols
  simp only [List.mem_append]
  right
  simp [h]

theorem mem_required_ident {typ : TypClause GenericsDef} {m : ModuleDef} {f : FieldDef}
    {t : TypClause Str} (h : (f, t) ∈ m.submodules) (hb : ∀ a ∈ typ.args, a.binding ≠ t.ident) :
    t.ident ∈ requiredSymbols typ m := by
  unfold requiredSymbols
  simp only [List.mem_append, List.mem_filter, List.mem_map]
  left; left
  refine ⟨Or.inl ⟨(f, t), h, rfl⟩, ?_⟩
  simp only [Bool.not_eq_true', List.any_eq_false, decide_eq_true_eq]
  intro a ha
  exact hb a ha

theorem mem_required_arg {typ : TypClause GenericsDef} {m : ModuleDef} {f : FieldDef}
    {t : TypClause Str} {x : Str} (h : (f, t) ∈ m.submodules) (hx : x ∈ t.args)
    (hb : ∀ a ∈ typ.args, a.binding ≠ x) : x ∈ requiredSymbols typ m := by
  unfold requiredSymbols
  simp only [List.mem_append, List.mem_filter, List.mem_map, List.mem_flatMap]
  left; left
  refine ⟨Or.inr ⟨(f, t), h, hx⟩, ?_⟩
  simp only [Bool.not_eq_true', List.any_eq_false, decide_eq_true_eq]
  intro a ha
  exact hb a ha

theorem transformSubmodule_noInt {ident : TypClause GenericsDef} {m : ModuleDef} {nodes : Archs}
    (hA : ArchOK nodes) (hreq : ∀ s ∈ requiredSymbols ident m, s ∈ keys nodes)
    {f : FieldDef} {t : TypClause Str} (hmem : (f, t) ∈ m.submodules) :
    NoInt (transformSubmodule f ident t nodes) := by
  unfold transformSubmodule
  split
  · exact NoInt.kerr _ _
  · split
    · -- no arguments: concrete type or generic binding
      have hk : innerToOuter ident.args t.ident ∈ keys nodes := by
        rcases innerToOuter_cases ident.args t.ident with ⟨a, ha, he⟩ | ⟨hb, he⟩
        · rw [he]; exact hreq _ (mem_required_bound ha)
        · rw [he]; exact hreq _ (mem_required_ident hmem hb)
      refine NoInt.bind (getArch_noInt hk) fun v _ => ?_
      cases v with
      | mk node reqs =>
        simp only []
        split
        · exact invalidTyp_noInt _ _
        · exact NoInt.ok _
    · split
      · exact NoInt.kerr _ _
      · next hnone =>
        have hno : ∀ a ∈ ident.args, a.binding ≠ t.ident ∧ ∀ x ∈ t.args, a.binding ≠ x := by
          intro a ha
          have := List.find?_eq_none.1 hnone a ha
          simp only [Bool.or_eq_true, decide_eq_true_eq, List.contains_iff_mem, not_or] at this
          refine ⟨this.1, ?_⟩
          intro x hx hax
          exact this.2 (hax ▸ hx)
        have hk : t.ident ∈ keys nodes :=
          hreq _ (mem_required_ident hmem fun a ha => (hno a ha).1)
        refine NoInt.bind (getArch_noInt hk) fun v hv => ?_
        cases v with
        | mk node reqArgs =>
          simp only []
          split
          · exact invalidTyp_noInt _ _
          · next hlen =>
            have hlen' : reqArgs.length = t.args.length := by
              simpa using hlen
            refine NoInt.bind (substArgs_noInt t nodes reqArgs t.args node hlen' ?_ ?_) fun _ _ => NoInt.ok _
            · intro x hx
              exact hreq _ (mem_required_arg hmem hx fun a ha => (hno a ha).2 x hx)
            · intro g hg
              exact hA _ (getArch_mem hv) g hg

theorem transformSubmodules_noInt {ident : TypClause GenericsDef} {m : ModuleDef} {nodes : Archs}
    (hA : ArchOK nodes) (hreq : ∀ s ∈ requiredSymbols ident m, s ∈ keys nodes) :
    ∀ (l : List (FieldDef × TypClause Str)), (∀ x ∈ l, x ∈ m.submodules) →
      NoInt (transformSubmodules ident nodes l)
  | [], _ => by unfold transformSubmodules; exact NoInt.ok _
  | (f, t) :: r, h => by
    unfold transformSubmodules
    refine NoInt.bind (NoInt.mapErr _ (transformSubmodule_noInt hA hreq (h _ (List.mem_cons_self ..)))) fun _ _ => ?_
    refine NoInt.bind (transformSubmodules_noInt hA hreq r fun x hx => h x (List.mem_cons_of_mem _ hx)) fun _ _ => ?_
    exact NoInt.ok _

theorem kardAccess_noInt (d a : FieldDef) : NoInt (kardAccess d a) := by
  unfold kardAccess
  split
  · exact NoInt.ok _
  · split
    · exact NoInt.ok _
    · exact NoInt.kerr _ _
  · exact NoInt.kerr _ _
  · exact NoInt.ok _

theorem endpointInner_noInt : ∀ (acc : List FieldDef) (position : List Accessor)
    (subs : List (FieldDef × Node)) (gates : List FieldDef), acc ≠ [] →
    NoInt (endpointInner position acc subs gates)
  | [], _, _, _, h => absurd rfl h
  | [a], position, subs, gates, _ => by
    unfold endpointInner
    split
    · exact NoInt.kerr _ _
    · exact NoInt.bind (kardAccess_noInt _ _) fun _ _ => NoInt.ok _
  | a :: b :: r, position, subs, gates, _ => by
    unfold endpointInner
    split
    · exact NoInt.kerr _ _
    · refine NoInt.bind (kardAccess_noInt _ _) fun _ _ => ?_
      refine NoInt.bind (NoInt.mapM _ fun lm _ => ?_) fun _ _ => NoInt.ok _
      exact endpointInner_noInt (b :: r) _ _ _ (by simp)

theorem lookupLink_noInt (links : List (Str × Link)) (l : Option Str) : NoInt (lookupLink links l) := by
  unfold lookupLink
  split
  · exact NoInt.ok _
  · split
    · exact NoInt.ok _
    · exact NoInt.kerr _ _

theorem transformConnection_noInt (d : ConnDef) (hd : ConnWF d) (subs : List (FieldDef × Node))
    (gates : List FieldDef) (links : List (Str × Link)) (results : List Conn) :
    NoInt (transformConnection d subs gates links results) := by
  unfold transformConnection
  refine NoInt.bind (endpointInner_noInt _ _ _ _ hd.1) fun _ _ => ?_
  refine NoInt.bind (endpointInner_noInt _ _ _ _ hd.2) fun _ _ => ?_
  split
  · exact NoInt.kerr _ _
  · exact NoInt.bind (lookupLink_noInt _ _) fun _ _ => NoInt.ok _

theorem transformConnections_noInt (subs : List (FieldDef × Node)) (gates : List FieldDef)
    (links : List (Str × Link)) : ∀ (l : List ConnDef) (idx : Nat) (results : List Conn),
    (∀ c ∈ l, ConnWF c) → NoInt (transformConnections subs gates links idx l results)
  | [], _, _, _ => by unfold transformConnections; exact NoInt.ok _
  | d :: r, idx, results, h => by
    unfold transformConnections
    refine NoInt.bind (NoInt.mapErr _ (transformConnection_noInt d (h d (List.mem_cons_self ..)) _ _ _ _)) fun _ _ => ?_
    exact transformConnections_noInt subs gates links r _ _ fun c hc => h c (List.mem_cons_of_mem _ hc)

theorem transformGates_noInt (ident : Str) (defs : List GateDef) : NoInt (transformGates ident defs) := by
  unfold transformGates
  split
  · exact NoInt.err _ _ _
  · exact NoInt.ok _

theorem transformModule_noInt {ident : TypClause GenericsDef} {m : ModuleDef} {nodes : Archs}
    (links : List (Str × Link)) (hA : ArchOK nodes)
    (hreq : ∀ s ∈ requiredSymbols ident m, s ∈ keys nodes) (hwf : ModWF m) :
    NoInt (transformModule ident m nodes links) := by
  unfold transformModule
  split
  · exact NoInt.kerr _ _
  · refine NoInt.bind (transformGates_noInt _ _) fun gates _ => ?_
    refine NoInt.bind (transformSubmodules_noInt hA hreq _ fun x hx => hx) fun subs _ => ?_
    refine NoInt.bind ?_ fun inh _ => ?_
    · unfold inheritFrom
      split
      · exact NoInt.ok _
      · next parent hp =>
        exact NoInt.bind (getArch_noInt (hreq _ (mem_required_inherit hp))) fun _ _ => NoInt.ok _
    · exact NoInt.bind (transformConnections_noInt _ _ _ _ _ _ hwf) fun _ _ => NoInt.ok _

theorem bind_ok {α β : Type} {x : Except Fail α} {f : α → Except Fail β} {b : β}
    (h : x >>= f = .ok b) : ∃ a, x = .ok a ∧ f a = .ok b := by
  cases x with
  | ok a => exact ⟨a, rfl, by simpa [bind, Except.bind] using h⟩
  | error e => simp [bind, Except.bind] at h

theorem transformModule_args {ident : TypClause GenericsDef} {m : ModuleDef} {nodes : Archs}
    {links : List (Str × Link)} {v : Node × List GenericsDef}
    (h : transformModule ident m nodes links = .ok v) : v.2 = ident.args := by
  unfold transformModule at h
  split at h
  · cases h
  · obtain ⟨_, _, h⟩ := bind_ok h
    obtain ⟨_, _, h⟩ := bind_ok h
    obtain ⟨_, _, h⟩ := bind_ok h
    obtain ⟨_, _, h⟩ := bind_ok h
    cases h
    rfl

theorem buildAll_noInt (links : List (Str × Link)) : ∀ (es : List Entry) (a : Archs),
    Ordered (keys a) es → ArchOK a → (∀ e ∈ es, e.deps = requiredSymbols e.ident e.mdef ∧ ModWF e.mdef) →
    NoInt (buildAll links es a)
  | [], a, _, _, _ => by unfold buildAll; exact NoInt.ok _
  | e :: es, a, hord, hA, hwf => by
    unfold buildAll
    cases hord with
    | cons hdeps hrest =>
      obtain ⟨hd, hm⟩ := hwf e (List.mem_cons_self ..)
      have hreq : ∀ s ∈ requiredSymbols e.ident e.mdef, s ∈ keys a := by
        rw [← hd]; exact hdeps
      refine NoInt.bind (NoInt.mapErr _ (transformModule_noInt links hA hreq hm)) fun arch harch => ?_
      refine buildAll_noInt links es _ hrest ?_ fun e' he' => hwf e' (List.mem_cons_of_mem _ he')
      -- the invariant is preserved
      have hargs := transformModule_args (mapErr_ok harch)
      intro x hx g hg
      rcases List.mem_cons.1 hx with rfl | hx
      · simp only [keys, List.map_cons, List.mem_cons]
        right
        simp only [] at hg
        rw [hargs] at hg
        exact hreq _ (mem_required_bound hg)
      · simp only [keys, List.map_cons, List.mem_cons]
        right
        exact hA x hx g hg

theorem elaborate_noInt (d : Def) (hd : d.endpointsNonempty) : NoInt (elaborate d) := by
  unfold elaborate
  obtain ⟨h1, h2⟩ := orderLoop_spec (entries d).length [] (entries d) [] (Nat.le_refl _)
  refine NoInt.bind h1 fun ordered ho => ?_
  obtain ⟨tail, ht, hord, hsub⟩ := h2 ordered ho
  simp only [List.nil_append] at ht
  subst ht
  refine buildAll_noInt d.links _ [] hord (fun e he => by cases he) ?_
  intro e he
  have := hsub e he
  simp only [entries, List.mem_map] at this
  obtain ⟨km, hkm, rfl⟩ := this
  exact ⟨rfl, fun c hc => hd km hkm c hc⟩

theorem transform_noInt (d : Def) (hd : d.endpointsNonempty) : NoInt (transform d) := by
  unfold transform
  refine NoInt.bind (elaborate_noInt d hd) fun archs _ => ?_
  split
  · exact NoInt.ok _
  · exact NoInt.kerr _ _

theorem load_noInt (raw : RawDef) : NoInt (load raw) := by
  unfold load
  exact NoInt.bind (parseDef_noInt raw) fun d hd => transform_noInt d (parseDef_endpointsNonempty hd)

end Ndl

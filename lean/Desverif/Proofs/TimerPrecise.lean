/-
Precision of completion observations at script level, conditional on the scheduling fact the
wake-level theorems establish (`OwnOk`: a task is never polled after the deadline of a sleep it
has been waiting on): every completion of a `Sleep` owned by the awaiting future (`sleep`,
`sleep_until`, the delay of `timeout`) is observed at exactly max(deadline, time of its first poll).
-/
import Desverif.Proofs.TimerInterp
namespace Timer

/-- the `Sleep`s owned by the running future -/
def own : Fut → List Sleep
  | .sleeping s => [s]
  | .timeout _ e => own e
  | .timeoutRun s e => s :: own e
  | .select a b => own a ++ own b
  | .seq a b => own a ++ own b
  | _ => []

/-- a sleep that has been waited on since `a` is not overdue, and `a` was before its deadline -/
def SleepOk (now : Nat) (s : Sleep) : Prop := ∀ a, s.armed = some a → now ≤ s.deadline ∧ a ≤ s.deadline

def OwnOk (now : Nat) (f : Fut) : Prop := ∀ s ∈ own f, SleepOk now s

/-- the observation of an own-sleep completion carries exactly max(deadline, first poll) -/
def Precise (o : Obs) : Prop := o.own = true → ∀ d, o.due = some d → o.time = max d o.since

def LogPrecise (l : List Obs) : Prop := ∀ o ∈ l, Precise o

theorem logPrecise_append {l : List Obs} (h : LogPrecise l) {o : Obs} (ho : Precise o) : LogPrecise (l ++ [o]) := by
  intro x hx
  rcases List.mem_append.mp hx with hx | hx
  · exact h x hx
  · rw [List.mem_singleton.mp hx]; exact ho

theorem precise_obs {c : Ctx} (h : LogPrecise c.log) (k : String) : LogPrecise (c.obs k).log :=
  logPrecise_append h (by intro ho; cases ho)

theorem precise_fin_named {c : Ctx} (h : LogPrecise c.log) (k : String) (d s : Nat) :
    LogPrecise (c.fin k d s).log :=
  logPrecise_append h (by intro ho; cases ho)

theorem precise_fin_own {c : Ctx} (h : LogPrecise c.log) (k : String) (s : Sleep) (hs : SleepOk c.now s)
    (hr : s.deadline ≤ c.now) : LogPrecise (c.fin k s.deadline (s.since c.now) true).log := by
  apply logPrecise_append h
  intro _ d hd
  simp only [Option.some.injEq] at hd
  subst hd
  show c.now = max s.deadline (s.since c.now)
  unfold Sleep.since
  cases ha : s.armed with
  | none => simp only [Option.getD_none]; omega
  | some a =>
    obtain ⟨h1, h2⟩ := hs a ha
    simp only [Option.getD_some]; omega

theorem pollSleep_precise (s : Sleep) (c : Ctx) (k : String) (hs : SleepOk c.now s) (h : LogPrecise c.log) :
    LogPrecise (pollSleep s c k).2.log := by
  unfold pollSleep
  simp only
  split
  · rename_i hr
    exact precise_fin_own (c := c.emit (s.poll c.tid c.now).2.1) h k s hs ((sleep_poll_ready s c.tid c.now).mp hr)
  · exact h

theorem fresh_sleepOk (now id dl : Nat) : SleepOk now { id := id, deadline := dl } := by
  intro a ha; cases ha

theorem poll_now (f : Fut) (c : Ctx) : (poll f c).2.now = c.now := (moves_poll f (Moves.refl c)).now

theorem timeoutStep_precise (s : Sleep) (r : Option Fut × Ctx) (hs : SleepOk r.2.now s) (h1 : LogPrecise r.2.log) :
    LogPrecise (timeoutStep s r).2.log := by
  obtain ⟨re, c1⟩ := r
  cases re with
  | none =>
    simp only [timeoutStep]
    exact precise_obs (c := (c1.emit _).emit _) h1 _
  | some e' =>
    simp only [timeoutStep]
    split
    · rename_i v hv
      exact precise_fin_own (c := ((c1.emit _).emit _).emit _) h1 "el" s hs (timeout_poll_elapsed hv)
    · exact h1

/-- **conditional precision of one poll**: if no own sleep of the running future is overdue, every
    own-sleep completion this poll observes is at max(deadline, first poll) -/
theorem poll_precise (f : Fut) : ∀ c : Ctx, OwnOk c.now f → LogPrecise c.log → LogPrecise (poll f c).2.log := by
  induction f with
  | nop => intro c _ h; exact h
  | sleep d => intro c _ h; exact pollSleep_precise _ _ _ (fresh_sleepOk _ _ _) h
  | until_ t => intro c _ h; exact pollSleep_precise _ _ _ (fresh_sleepOk _ _ _) h
  | sleeping s => intro c ho h; exact pollSleep_precise _ _ _ (ho s (by simp [own])) h
  | timeout d e ih =>
    intro c ho h
    simp only [poll]
    have h1 := ih { c with nextId := c.nextId + 1 } (fun s hs => ho s (by simpa [own] using hs)) h
    have hn := poll_now e { c with nextId := c.nextId + 1 }
    exact timeoutStep_precise _ _ (by rw [hn]; exact fresh_sleepOk _ _ _) h1
  | timeoutRun s e ih =>
    intro c ho h
    simp only [poll]
    have h1 := ih c (fun s' hs' => ho s' (by simp [own, hs'])) h
    have hn := poll_now e c
    exact timeoutStep_precise _ _ (by rw [hn]; exact ho s (by simp [own])) h1
  | select a b iha ihb =>
    intro c ho h
    simp only [poll]
    have h1 := iha c (fun s hs => ho s (by simp [own, hs])) h
    have hn := poll_now a c
    split
    · rename_i c1 heq
      rw [heq] at h1
      exact precise_obs (c := c1.emit _) h1 _
    · rename_i a' c1 heq
      rw [heq] at h1 hn
      simp only at hn
      have h2 := ihb c1 (by rw [hn]; exact fun s hs => ho s (by simp [own, hs])) h1
      split
      · rename_i c2 heq2
        rw [heq2] at h2
        exact precise_obs (c := c2.emit _) h2 _
      · rename_i b' c2 heq2
        rw [heq2] at h2
        exact h2
  | seq a b iha ihb =>
    intro c ho h
    simp only [poll]
    have h1 := iha c (fun s hs => ho s (by simp [own, hs])) h
    have hn := poll_now a c
    split
    · rename_i c1 heq
      rw [heq] at h1 hn
      simp only at hn
      exact ihb c1 (by rw [hn]; exact fun s hs => ho s (by simp [own, hs])) h1
    · rename_i a' c1 heq
      rw [heq] at h1
      exact h1
  | new x d => intro c _ h; exact h
  | newu x t => intro c _ h; exact h
  | pollOnce x =>
    intro c _ h
    simp only [poll]
    split
    · split
      · exact precise_fin_named (c := ({ c with env := _ } : Ctx).emit _) h _ _ _
      · exact precise_obs (c := ({ c with env := _ } : Ctx).emit _) h _
    · exact precise_obs h _
  | reset x d => intro c _ h; simp only [poll]; split <;> exact h
  | resetu x t => intro c _ h; simp only [poll]; split <;> exact h
  | drop x => intro c _ h; simp only [poll]; split <;> exact h
  | await x =>
    intro c _ h
    simp only [poll]
    split
    · split
      · exact precise_fin_named (c := ({ c with env := _ } : Ctx).emit _) h _ _ _
      · exact h
    · exact precise_obs h _
  | inew x p m d => intro c _ h; exact h
  | tick x =>
    intro c _ h
    simp only [poll]
    split
    · split
      · exact precise_fin_named (c := ({ c with env := _ } : Ctx).emit _) h _ _ _
      · exact h
    · exact precise_obs h _
  | ireset x => intro c _ h; simp only [poll]; split <;> exact h
  | restart d => intro c _ h; simp only [poll]; split <;> exact h
  | halt => intro c _ h; exact h

end Timer

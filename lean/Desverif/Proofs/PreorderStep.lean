/-
The effect of one more declaration on the specification pre-order:
`preorder (D ++ [p])` is `preorder D` with `p` spliced in directly after the subtree of its parent
(or appended, for a module without a parent module).  Consequence: `preorder D` is a permutation
of `D` for every valid `D`.
-/
import Desverif.Proofs.PreorderBasics
namespace PreSpec
variable {α : Type} [DecidableEq α]
set_option linter.unusedSectionVars false

/-- `X'` is `X` with `p` inserted after the block `qd :: S` (the subtree of the node at `q`):
    `S` lies strictly deeper than `q`, what follows the block does not. -/
def Split (p : Decl α) (q : List α) (X X' : List (Decl α)) : Prop :=
  ∃ A qd S B, X = A ++ qd :: S ++ B ∧ X' = A ++ qd :: S ++ p :: B ∧ qd.segs = q ∧
    (∀ x ∈ S, q.length < x.segs.length) ∧ (∀ b, B.head? = some b → b.segs.length ≤ q.length)

theorem head_flatMap {β γ : Type} (g : β → List γ) : ∀ (L : List β) (b : γ),
    (L.flatMap g).head? = some b → ∃ c ∈ L, (g c).head? = some b := by
  intro L
  induction L with
  | nil => intro b h; simp at h
  | cons x xs ih =>
    intro b h
    simp only [List.flatMap_cons] at h
    cases hx : g x with
    | nil =>
      rw [hx] at h
      obtain ⟨c, hc, hb⟩ := ih b (by simpa using h)
      exact ⟨c, by simp [hc], hb⟩
    | cons y ys =>
      rw [hx] at h
      exact ⟨x, by simp, by rw [hx]; simpa using h⟩

theorem flatMap_split (p : Decl α) (q : List α) (g g' : Decl α → List (Decl α)) :
    ∀ (L : List (Decl α)),
      (∃ y ∈ L.flatMap g, y.segs = q) →
      ((L.flatMap g).map (·.segs)).Nodup →
      (∀ c ∈ L, (∀ y ∈ g c, y.segs ≠ q) → g' c = g c) →
      (∀ c ∈ L, (∃ y ∈ g c, y.segs = q) → ((g c).map (·.segs)).Nodup → Split p q (g c) (g' c)) →
      (∀ c ∈ L, ∀ b, (g c).head? = some b → b.segs.length ≤ q.length) →
      Split p q (L.flatMap g) (L.flatMap g') := by
  intro L
  induction L with
  | nil => intro h; simp at h
  | cons c L ih =>
    intro h1 h2 h3 h4 h5
    simp only [List.flatMap_cons, List.map_append] at h1 h2 ⊢
    rw [List.nodup_append] at h2
    obtain ⟨hnc, hnr, hdisj⟩ := h2
    by_cases hc : ∃ y ∈ g c, y.segs = q
    · obtain ⟨A, qd, S, B, e1, e2, e3, e4, e5⟩ := h4 c (by simp) hc hnc
      have hrest : L.flatMap g' = L.flatMap g := by
        apply flatMap_congr'
        intro c' hc'
        apply h3 c' (by simp [hc'])
        intro y hy e
        obtain ⟨y0, hy0, e0⟩ := hc
        refine hdisj y0.segs (List.mem_map.mpr ⟨y0, hy0, rfl⟩) y.segs
          (List.mem_map.mpr ⟨y, List.mem_flatMap.mpr ⟨c', hc', hy⟩, rfl⟩) ?_
        rw [e0, e]
      refine ⟨A, qd, S, B ++ L.flatMap g, ?_, ?_, e3, e4, ?_⟩
      · rw [e1]; simp [List.append_assoc]
      · rw [e2, hrest]; simp [List.append_assoc]
      · intro b hb
        cases hB : B with
        | nil =>
          rw [hB] at hb
          obtain ⟨c', hc', hh⟩ := head_flatMap g L b (by simpa using hb)
          exact h5 c' (by simp [hc']) b hh
        | cons b0 B0 =>
          rw [hB] at hb
          apply e5
          rw [hB]
          simpa using hb
    · have hc' : ∀ y ∈ g c, y.segs ≠ q := fun y hy e => hc ⟨y, hy, e⟩
      have hq : ∃ y ∈ L.flatMap g, y.segs = q := by
        obtain ⟨y, hy, e⟩ := h1
        rcases List.mem_append.mp hy with hy | hy
        · exact absurd e (hc' y hy)
        · exact ⟨y, hy, e⟩
      obtain ⟨A, qd, S, B, e1, e2, e3, e4, e5⟩ :=
        ih hq hnr (fun c0 h0 => h3 c0 (by simp [h0])) (fun c0 h0 => h4 c0 (by simp [h0]))
          (fun c0 h0 => h5 c0 (by simp [h0]))
      refine ⟨g c ++ A, qd, S, B, ?_, ?_, e3, e4, e5⟩
      · rw [e1]; simp [List.append_assoc]
      · rw [h3 c (by simp) hc', e2]; simp [List.append_assoc]

/-- subtrees that do not contain the new node's parent are unaffected by the new declaration -/
theorem dfs_unchanged (D : List (Decl α)) (p : Decl α) : ∀ (f : Nat) (d : Decl α),
    (∀ y ∈ dfs D f d, par p.segs ≠ some y.segs) → dfs (D ++ [p]) f d = dfs D f d := by
  intro f
  induction f with
  | zero => intro d _; rfl
  | succ f ih =>
    intro d h
    have hd : par p.segs ≠ some d.segs := h d (dfs_self_mem D _ d)
    simp only [dfs, kids_snoc, if_neg hd, List.append_nil]
    congr 1
    apply flatMap_congr'
    intro c hc
    apply ih
    intro y hy
    apply h
    simp only [dfs, List.mem_cons, List.mem_flatMap]
    exact Or.inr ⟨c, hc, hy⟩

/-- a freshly declared node has no declared children -/
theorem dfs_new_leaf (D : List (Decl α)) (p : Decl α) (f : Nat)
    (h : kids (D ++ [p]) p.segs = []) : dfs (D ++ [p]) f p = [p] := by
  cases f with
  | zero => rfl
  | succ f => simp [dfs, h]

theorem dfs_split (D : List (Decl α)) (p : Decl α) (q : List α) (hpar : par p.segs = some q)
    (hleaf : kids (D ++ [p]) p.segs = []) : ∀ (f : Nat) (d : Decl α),
    maxLen (D ++ [p]) ≤ d.segs.length + f →
    (∃ y ∈ dfs D f d, y.segs = q) →
    ((dfs D f d).map (·.segs)).Nodup →
    Split p q (dfs D f d) (dfs (D ++ [p]) f d) := by
  have hplen : p.segs.length = q.length + 1 := by have := (par_some hpar).2.2; omega
  have hpmax : q.length + 1 ≤ maxLen (D ++ [p]) := by
    rw [← hplen]; exact mem_maxLen (by simp)
  intro f
  induction f with
  | zero =>
    intro d hf hq _
    obtain ⟨y, hy, e⟩ := hq
    simp [dfs] at hy
    subst hy
    rw [e] at hf
    omega
  | succ f ih =>
    intro d hf hq hnd
    by_cases hdq : d.segs = q
    · -- the parent itself: the new node becomes its last child
      refine ⟨[], d, (kids D q).flatMap (dfs D f), [], ?_, ?_, hdq, ?_, by simp⟩
      · simp [dfs, hdq]
      · have hk : ∀ c ∈ kids D q, dfs (D ++ [p]) f c = dfs D f c := by
          intro c hc
          apply dfs_unchanged
          intro y hy e
          rw [hpar] at e
          injection e with e
          have := dfs_len D f c y hy
          have := kids_len hc
          have e' := congrArg List.length e
          omega
        simp only [dfs, hdq, kids_snoc, hpar, if_true, List.flatMap_append, List.flatMap_cons,
          List.flatMap_nil, List.append_nil, List.nil_append]
        rw [flatMap_congr' _ _ _ hk, dfs_new_leaf D p f hleaf]
        simp
      · intro x hx
        rw [← hdq]
        exact dfs_tail_len D f d x (by rw [hdq]; exact hx)
    · -- the parent lies in the subtree of exactly one child
      have hne : par p.segs ≠ some d.segs := by
        rw [hpar]; intro e; injection e with e; exact hdq e.symm
      have hq' : ∃ y ∈ (kids D d.segs).flatMap (dfs D f), y.segs = q := by
        obtain ⟨y, hy, e⟩ := hq
        simp only [dfs, List.mem_cons] at hy
        rcases hy with rfl | hy
        · exact absurd e hdq
        · exact ⟨y, hy, e⟩
      have hdeep : d.segs.length < q.length := by
        obtain ⟨y, hy, e⟩ := hq'
        rw [← e]
        exact dfs_tail_len D f d y hy
      have hnd' : (((kids D d.segs).flatMap (dfs D f)).map (·.segs)).Nodup := by
        simp only [dfs, List.map_cons, List.nodup_cons] at hnd
        exact hnd.2
      obtain ⟨A, qd, S, B, e1, e2, e3, e4, e5⟩ :=
        flatMap_split p q (dfs D f) (dfs (D ++ [p]) f) (kids D d.segs) hq' hnd'
          (fun c _ hc => dfs_unchanged D p f c (fun y hy e => by
            rw [hpar] at e; injection e with e; exact hc y hy e.symm))
          (fun c hc hqc hndc => ih c (by have := kids_len hc; omega) hqc hndc)
          (fun c hc b hb => by
            rw [dfs_head] at hb
            injection hb with hb
            subst hb
            have := kids_len hc
            omega)
      refine ⟨d :: A, qd, S, B, ?_, ?_, e3, e4, e5⟩
      · simp only [dfs]; rw [e1]; simp
      · simp only [dfs, kids_snoc, if_neg hne, List.append_nil]; rw [e2]; simp

/-- One more declaration, seen on the specification pre-order. -/
theorem preorder_step (D : List (Decl α)) (p : Decl α) (hv : Valid (D ++ [p]))
    (hperm : (preorder D).Perm D) :
    (par p.segs = none → preorder (D ++ [p]) = preorder D ++ [p]) ∧
    (∀ q, par p.segs = some q → Split p q (preorder D) (preorder (D ++ [p]))) := by
  obtain ⟨hvD, hnew, hparent⟩ := (valid_snoc D p).mp hv
  have good := valid_good D hvD
  have hleaf : kids (D ++ [p]) p.segs = [] := by
    apply List.eq_nil_iff_forall_not_mem.mpr
    intro c hc
    obtain ⟨hcm, hcp⟩ := mem_kids.mp hc
    rcases List.mem_append.mp hcm with h | h
    · exact hnew (good.closed c h _ hcp)
    · simp at h; subst h; exact par_ne_self _ hcp
  have hF : maxLen D ≤ maxLen (D ++ [p]) := by rw [maxLen_snoc]; omega
  -- normalise the fuel of the old pre-order
  have hpre : preorder D = (roots D).flatMap (dfs D (maxLen (D ++ [p]))) := by
    unfold preorder
    apply flatMap_congr'
    intro r _
    exact dfs_fuel D _ _ r (by omega) (by omega)
  constructor
  · intro hnone
    have hun : ∀ r ∈ roots D, dfs (D ++ [p]) (maxLen (D ++ [p])) r = dfs D (maxLen (D ++ [p])) r := by
      intro r _
      apply dfs_unchanged
      intro y _ e
      rw [hnone] at e
      cases e
    rw [hpre]
    unfold preorder
    rw [roots_snoc, if_pos hnone, List.flatMap_append, flatMap_congr' _ _ _ hun]
    simp [dfs_new_leaf D p _ hleaf]
  · intro q hq
    have hqD : q ∈ D.map (·.segs) := hparent q hq
    have hqlen : 1 ≤ q.length := by have := (par_some hq).2; omega
    have hne : ¬ par p.segs = none := by rw [hq]; simp
    have hnd : ((preorder D).map (·.segs)).Nodup :=
      (List.Perm.nodup_iff (hperm.map _)).mpr good.nodup
    have hex : ∃ y ∈ preorder D, y.segs = q := by
      obtain ⟨y, hy, e⟩ := List.mem_map.mp hqD
      exact ⟨y, hperm.mem_iff.mpr hy, e⟩
    have hpre' : preorder (D ++ [p]) = (roots D).flatMap (dfs (D ++ [p]) (maxLen (D ++ [p]))) := by
      unfold preorder
      rw [roots_snoc, if_neg hne, List.append_nil]
    rw [hpre']
    rw [hpre] at hnd hex ⊢
    apply flatMap_split p q _ _ (roots D) hex hnd
    · intro c _ hc
      apply dfs_unchanged
      intro y hy e
      rw [hq] at e
      injection e with e
      exact hc y hy e.symm
    · intro c _ hqc hndc
      exact dfs_split D p q hq hleaf _ c (by omega) hqc hndc
    · intro c hc b hb
      rw [dfs_head] at hb
      injection hb with hb
      subst hb
      have := par_none (mem_roots.mp hc).2
      omega

theorem split_perm {p : Decl α} {q : List α} {X X' : List (Decl α)} (h : Split p q X X') :
    X'.Perm (X ++ [p]) := by
  obtain ⟨A, qd, S, B, e1, e2, _⟩ := h
  rw [e1, e2]
  have : (A ++ qd :: S ++ p :: B) = (A ++ qd :: S) ++ p :: B := by simp
  have h2 : (A ++ qd :: S ++ B ++ [p]) = (A ++ qd :: S) ++ (B ++ [p]) := by simp
  simp only [List.append_assoc, List.cons_append] at *
  refine List.Perm.append_left A (List.Perm.cons qd (List.Perm.append_left S ?_))
  exact (List.perm_append_singleton p B).symm

/-- The specification pre-order lists every declared module exactly once. -/
theorem preorder_perm : ∀ D : List (Decl α), Valid D → (preorder D).Perm D := by
  intro D
  induction D using snoc_induction with
  | nil => intro _; exact List.Perm.refl _
  | snoc l p ih =>
    intro hv
    have hl := ((valid_snoc l p).mp hv).1
    have hperm := ih hl
    obtain ⟨h1, h2⟩ := preorder_step l p hv hperm
    cases hp : par p.segs with
    | none => rw [h1 hp]; exact List.Perm.append_right _ hperm
    | some q => exact (split_perm (h2 q hp)).trans (List.Perm.append_right _ hperm)

end PreSpec

/-
C16 helper lemmas: the ghost heap.  `HeapOk h ps` — no undefined access happened so far, every
box was released (dropped or moved out) exactly once iff it is no longer live, and the live boxes
are exactly the (pairwise distinct) addresses `ps` owned by the messages.
-/
import Desverif.Model.Body
namespace MB

structure HeapOk (h : Heap) (ps : List Nat) : Prop where
  nofault : h.faults = 0
  box : ∀ (p : Nat) (bx : Box), h.boxes[p]? = some bx → bx.drops + bx.moved = (if bx.live = true then 0 else 1)
  nodup : ps.Nodup
  owned : ∀ p, p ∈ ps ↔ ∃ bx, h.boxes[p]? = some bx ∧ bx.live = true

theorem HeapOk.perm {h : Heap} {ps ps' : List Nat} (hk : HeapOk h ps) (hp : ps.Perm ps') :
    HeapOk h ps' :=
  ⟨hk.nofault, hk.box, hp.nodup_iff.mp hk.nodup, fun p => by rw [← hp.mem_iff]; exact hk.owned p⟩

theorem HeapOk.empty : HeapOk {} [] :=
  ⟨rfl, by simp, by simp, by simp⟩

/-! ### alloc -/

@[simp] theorem alloc_snd (h : Heap) (T : Ty) (v : Val) : (h.alloc T v).2 = h.boxes.length := rfl
@[simp] theorem alloc_boxes (h : Heap) (T : Ty) (v : Val) :
    (h.alloc T v).1.boxes = h.boxes ++ [{ ty := T, val := v, live := true, drops := 0, moved := 0 }] := rfl
@[simp] theorem alloc_faults (h : Heap) (T : Ty) (v : Val) : (h.alloc T v).1.faults = h.faults := rfl

theorem alloc_get_old {h : Heap} {T : Ty} {v : Val} {p : Nat} {bx : Box}
    (hb : h.boxes[p]? = some bx) : (h.alloc T v).1.boxes[p]? = some bx := by
  have hlt : p < h.boxes.length := by
    rcases Nat.lt_or_ge p h.boxes.length with hlt | hge
    · exact hlt
    · rw [List.getElem?_eq_none hge] at hb; cases hb
  simp [List.getElem?_append_left hlt, hb]

theorem alloc_get_new (h : Heap) (T : Ty) (v : Val) :
    (h.alloc T v).1.boxes[h.boxes.length]? =
      some { ty := T, val := v, live := true, drops := 0, moved := 0 } := by
  simp

theorem mem_lt_of_ok {h : Heap} {ps : List Nat} (hk : HeapOk h ps) {p : Nat} (hp : p ∈ ps) :
    p < h.boxes.length := by
  obtain ⟨bx, hb, _⟩ := (hk.owned p).mp hp
  rcases Nat.lt_or_ge p h.boxes.length with hlt | hge
  · exact hlt
  · rw [List.getElem?_eq_none hge] at hb; cases hb

theorem HeapOk.alloc {h : Heap} {ps : List Nat} (hk : HeapOk h ps) (T : Ty) (v : Val) :
    HeapOk (h.alloc T v).1 (h.boxes.length :: ps) := by
  refine ⟨by simpa using hk.nofault, ?_, ?_, ?_⟩
  · intro p bx hb
    rw [alloc_boxes] at hb
    rcases Nat.lt_or_ge p h.boxes.length with hlt | hge
    · rw [List.getElem?_append_left hlt] at hb; exact hk.box p bx hb
    · rw [List.getElem?_append_right hge] at hb
      rcases Nat.eq_zero_or_pos (p - h.boxes.length) with hz | hpos
      · rw [hz] at hb; simp at hb; subst hb; simp
      · rw [List.getElem?_eq_none (by simp; omega)] at hb; cases hb
  · rw [List.nodup_cons]
    exact ⟨fun hm => Nat.lt_irrefl _ (mem_lt_of_ok hk hm), hk.nodup⟩
  · intro p
    rw [List.mem_cons, alloc_boxes]
    constructor
    · rintro (rfl | hm)
      · exact ⟨{ ty := T, val := v, live := true, drops := 0, moved := 0 }, by simp, rfl⟩
      · obtain ⟨bx, hb, hl⟩ := (hk.owned p).mp hm
        exact ⟨bx, by rw [List.getElem?_append_left (mem_lt_of_ok hk hm)]; exact hb, hl⟩
    · rintro ⟨bx, hb, hl⟩
      rcases Nat.lt_or_ge p h.boxes.length with hlt | hge
      · rw [List.getElem?_append_left hlt] at hb
        exact Or.inr ((hk.owned p).mpr ⟨bx, hb, hl⟩)
      · rcases Nat.eq_zero_or_pos (p - h.boxes.length) with hz | hpos
        · left; omega
        · rw [List.getElem?_append_right hge, List.getElem?_eq_none (by simp; omega)] at hb
          cases hb

/-! ### release (free / take) -/

/-- the common effect of `free` and `take` on an owned, well-typed box -/
theorem HeapOk.release {h : Heap} {p : Nat} {ps : List Nat} (hk : HeapOk h (p :: ps)) {bx bx' : Box}
    (hb : h.boxes[p]? = some bx) (hl : bx'.live = false) (hc : bx'.drops + bx'.moved = bx.drops + bx.moved + 1) :
    HeapOk { h with boxes := h.boxes.set p bx' } ps := by
  have hlive : bx.live = true := by
    obtain ⟨b2, hb2, hl2⟩ := (hk.owned p).mp (List.mem_cons_self)
    rw [hb] at hb2; cases hb2; exact hl2
  have hzero := hk.box p bx hb
  rw [if_pos hlive] at hzero
  have hnd := List.nodup_cons.mp hk.nodup
  refine ⟨hk.nofault, ?_, hnd.2, ?_⟩
  · intro q b hq
    simp only [List.getElem?_set] at hq
    split at hq
    · split at hq
      · cases hq; simp [hl]; omega
      · cases hq
    · exact hk.box q b hq
  · intro q
    simp only [List.getElem?_set]
    constructor
    · intro hm
      have hne : p ≠ q := fun he => hnd.1 (he ▸ hm)
      rw [if_neg hne]
      exact (hk.owned q).mp (List.mem_cons_of_mem _ hm)
    · rintro ⟨b, hq, hbl⟩
      split at hq
      · split at hq
        · cases hq; rw [hl] at hbl; cases hbl
        · cases hq
      · rename_i hne
        have := (hk.owned q).mpr ⟨b, hq, hbl⟩
        rcases List.mem_cons.mp this with he | hm
        · exact absurd he.symm hne
        · exact hm

theorem owned_live {h : Heap} {p : Nat} {ps : List Nat} (hk : HeapOk h ps) (hp : p ∈ ps) {bx : Box}
    (hb : h.boxes[p]? = some bx) : bx.live = true := by
  obtain ⟨b2, hb2, hl2⟩ := (hk.owned p).mp hp
  rw [hb] at hb2; cases hb2; exact hl2

theorem free_eq {h : Heap} {p : Nat} {bx : Box} {T : Ty} (hb : h.boxes[p]? = some bx)
    (hl : bx.live = true) (hT : bx.ty = T) :
    h.free T p = { h with boxes := h.boxes.set p { bx with live := false, drops := bx.drops + 1 } } := by
  simp [Heap.free, hb, hl, hT]

theorem take_eq {h : Heap} {p : Nat} {bx : Box} {T : Ty} (hb : h.boxes[p]? = some bx)
    (hl : bx.live = true) (hT : bx.ty = T) :
    h.take T p =
      ({ h with boxes := h.boxes.set p { bx with live := false, moved := bx.moved + 1 } }, some bx.val) := by
  simp [Heap.take, hb, hl, hT]

theorem read_eq {h : Heap} {p : Nat} {bx : Box} {T : Ty} (hb : h.boxes[p]? = some bx)
    (hl : bx.live = true) (hT : bx.ty = T) : h.read T p = (h, some bx.val) := by
  simp [Heap.read, hb, hl, hT]

theorem set_get_other {bs : List Box} {p q : Nat} {b : Box} (hne : q ≠ p) :
    (bs.set p b)[q]? = bs[q]? := by
  simp [Ne.symm hne]

/-! ### counters -/

theorem released_append (xs ys : List Box) :
    Heap.released (xs ++ ys) = Heap.released xs + Heap.released ys := by
  induction xs with
  | nil => simp [Heap.released]
  | cons x xs ih => simp [Heap.released, ih]; omega

theorem released_set {bs : List Box} {p : Nat} {bx bx' : Box} (hb : bs[p]? = some bx) :
    Heap.released (bs.set p bx') + (bx.drops + bx.moved) = Heap.released bs + (bx'.drops + bx'.moved) := by
  induction bs generalizing p with
  | nil => simp at hb
  | cons x xs ih =>
    cases p with
    | zero => simp at hb; subst hb; simp [Heap.released]; omega
    | succ p =>
      simp at hb
      have := ih hb
      simp [Heap.released]; omega

end MB

/-
Graph notions on a topology value `Topo.T` (indices as vertices): adjacency, walks of a given
length, reachability — the vocabulary of the C19 query theorems (`connected`, `dijkstra`,
`filter_nodes`).
-/
import Desverif.Model.Topo
namespace Topo

/-- there is an edge from node `a` to node `b` -/
def T.Adj (t : T) (a b : Nat) : Prop := ∃ e ∈ t.edgesAt a, e.dst = b

/-- `t.Walk a b k`: a walk of exactly `k` edges from `a` to `b` -/
inductive T.Walk (t : T) (a : Nat) : Nat → Nat → Prop
  | refl : T.Walk t a a 0
  | step {b c k : Nat} : T.Walk t a b k → t.Adj b c → T.Walk t a c (k + 1)

def T.Reach (t : T) (a b : Nat) : Prop := ∃ k, t.Walk a b k

theorem T.Walk.cons {t : T} {a b : Nat} (h : t.Adj a b) : ∀ {c k}, t.Walk b c k → t.Walk a c (k + 1) := by
  intro c k hw
  induction hw with
  | refl => exact T.Walk.step T.Walk.refl h
  | step _ hadj ih => exact T.Walk.step ih hadj

theorem T.Walk.zero_eq {t : T} {a b : Nat} (h : t.Walk a b 0) : b = a := by
  cases h; rfl

theorem T.Reach.refl (t : T) (a : Nat) : t.Reach a a := ⟨0, T.Walk.refl⟩

theorem T.Reach.cons {t : T} {a b c : Nat} (h : t.Adj a b) (hr : t.Reach b c) : t.Reach a c := by
  obtain ⟨k, hk⟩ := hr; exact ⟨k + 1, T.Walk.cons h hk⟩

theorem T.Reach.snoc {t : T} {a b c : Nat} (hr : t.Reach a b) (h : t.Adj b c) : t.Reach a c := by
  obtain ⟨k, hk⟩ := hr; exact ⟨k + 1, T.Walk.step hk h⟩

theorem T.adj_lt {t : T} (hwf : t.WF) {a b : Nat} (h : t.Adj a b) : b < t.nodes.length := by
  obtain ⟨e, he, rfl⟩ := h
  simp only [T.edgesAt, List.getD_eq_getElem?_getD] at he
  cases hb : t.edges[a]? with
  | none => rw [hb] at he; simp at he
  | some es => rw [hb] at he; exact hwf.2 es (List.mem_of_getElem? hb) e he

theorem nodup_lt_length {l : List Nat} {n : Nat} (hnd : l.Nodup) (hlt : ∀ x ∈ l, x < n) : l.length ≤ n := by
  have := List.Nodup.length_le_of_subset hnd (l₂ := List.range n) (fun x hx => List.mem_range.mpr (hlt x hx))
  simpa using this

end Topo

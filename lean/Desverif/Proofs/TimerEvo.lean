/-
One poll of any script term never duplicates a `Sleep` id, creates ids only from the counter, and
emits queue operations only for ids of the polled term, of the task's environment, or fresh ones.
-/
import Desverif.Proofs.TimerIds
namespace Timer

/-- how ids and emitted operations evolve from `(f, c)` to the poll result `(r, c')` -/
structure Evo (f : Fut) (c : Ctx) (r : Option Fut) (c' : Ctx) : Prop where
  nid : c.nextId ≤ c'.nextId
  old : ∀ x, x < c.nextId →
    (idsO r).count x ≤ (ids f).count x ∧ (envIds c'.env).count x ≤ (envIds c.env).count x
  mid : ∀ x, c.nextId ≤ x → x < c'.nextId → (idsO r).count x + (envIds c'.env).count x ≤ 1
  hi : ∀ x, c'.nextId ≤ x → (idsO r).count x = 0 ∧ (envIds c'.env).count x = 0
  frame : ∃ δ, c'.ops = c.ops ++ δ ∧
    ∀ o ∈ δ, opSid o ∈ ids f ∨ opSid o ∈ envIds c.env ∨ (c.nextId ≤ opSid o ∧ opSid o < c'.nextId)

/-- no id at or above the counter is in use -/
def Bd (f : Fut) (c : Ctx) : Prop :=
  ∀ x, c.nextId ≤ x → (ids f).count x = 0 ∧ (envIds c.env).count x = 0

theorem pollSleep_shape (s : Sleep) (c : Ctx) (k : String) :
    (pollSleep s c k).2.env = c.env ∧ (pollSleep s c k).2.nextId = c.nextId ∧
    (pollSleep s c k).2.ops = c.ops ++ (s.poll c.tid c.now).2.1 ∧
    (∀ x, (idsO (pollSleep s c k).1).count x ≤ (if s.id = x then 1 else 0)) := by
  unfold pollSleep
  simp only
  split
  · refine ⟨rfl, rfl, rfl, ?_⟩
    intro x; simp [idsO]
  · refine ⟨rfl, rfl, rfl, ?_⟩
    intro x
    simp only [idsO, ids_sleeping, sleep_poll_id, List.count_cons, List.count_nil, beq_iff_eq]
    split <;> simp_all

/-- `sleeping s` -/
theorem evo_sleeping (s : Sleep) (c : Ctx) (k : String) (hb : Bd (.sleeping s) c) :
    Evo (.sleeping s) c (pollSleep s c k).1 (pollSleep s c k).2 := by
  obtain ⟨he, hn, ho, hi⟩ := pollSleep_shape s c k
  refine ⟨by rw [hn]; exact Nat.le_refl _, ?_, ?_, ?_, ⟨_, ho, ?_⟩⟩
  · intro x _
    rw [he]
    refine ⟨?_, Nat.le_refl _⟩
    have := hi x
    simp only [ids_sleeping, List.count_cons, List.count_nil, beq_iff_eq]
    split at this <;> simp_all
  · intro x h1 h2; rw [hn] at h2; omega
  · intro x hx
    rw [hn] at hx
    rw [he]
    have h0 := hb x hx
    have := hi x
    simp only [ids_sleeping, List.count_cons, List.count_nil, beq_iff_eq] at h0
    refine ⟨?_, h0.2⟩
    split at this
    · rename_i hs; simp [hs] at h0
    · omega
  · intro o hoo
    left
    rw [sleep_poll_sids s _ _ o hoo]; simp

/-- a freshly created `Sleep` (`sleep d`, `sleep_until t`) -/
theorem evo_fresh (f : Fut) (hf : ids f = []) (c : Ctx) (dl : Nat) (k : String) (hb : Bd f c) :
    Evo f c (pollSleep { id := c.nextId, deadline := dl } { c with nextId := c.nextId + 1 } k).1
      (pollSleep { id := c.nextId, deadline := dl } { c with nextId := c.nextId + 1 } k).2 := by
  obtain ⟨he, hn, ho, hi⟩ := pollSleep_shape { id := c.nextId, deadline := dl } { c with nextId := c.nextId + 1 } k
  refine ⟨by rw [hn]; exact Nat.le_succ _, ?_, ?_, ?_, ⟨_, ho, ?_⟩⟩
  · intro x hx
    rw [he]
    refine ⟨?_, Nat.le_refl _⟩
    have := hi x
    rw [if_neg (by simp only; omega)] at this
    omega
  · intro x h1 h2
    rw [hn] at h2
    rw [he]
    have := hi x
    have h0 := (hb x h1).2
    simp only at h0 ⊢
    split at this <;> omega
  · intro x hx
    rw [hn] at hx
    rw [he]
    have := hi x
    have h0 := (hb x (by simp only at hx; omega)).2
    rw [if_neg (by simp only at hx ⊢; omega)] at this
    exact ⟨by omega, h0⟩
  · intro o hoo
    right; right
    rw [sleep_poll_sids _ _ _ o hoo, hn]
    simp only; omega

/-- terms that own no `Sleep` and only act on the environment -/
theorem evo_leaf (f : Fut) (hf : ids f = []) (c c' : Ctx) (r : Option Fut) (hr : idsO r = [])
    (hn : c.nextId ≤ c'.nextId)
    (henv : ∀ x, (envIds c'.env).count x ≤
      (envIds c.env).count x + (if c.nextId ≤ x ∧ x < c'.nextId then 1 else 0))
    (hops : ∃ δ, c'.ops = c.ops ++ δ ∧
      ∀ o ∈ δ, opSid o ∈ envIds c.env ∨ (c.nextId ≤ opSid o ∧ opSid o < c'.nextId))
    (hb : Bd f c) : Evo f c r c' := by
  obtain ⟨δ, hδ, hs⟩ := hops
  refine ⟨hn, ?_, ?_, ?_, ⟨δ, hδ, fun o ho => Or.inr (hs o ho)⟩⟩
  · intro x hx
    have := henv x
    rw [if_neg (by omega)] at this
    rw [hr, hf]; exact ⟨Nat.le_refl _, this⟩
  · intro x h1 h2
    have := henv x
    have h0 := (hb x h1).2
    rw [hr]
    split at this <;> simp <;> omega
  · intro x hx
    have := henv x
    have h0 := (hb x (by omega)).2
    rw [if_neg (by omega)] at this
    rw [hr]; exact ⟨rfl, by omega⟩

theorem evo_same (f : Fut) (hf : ids f = []) (c c' : Ctx) (r : Option Fut) (hr : idsO r = [])
    (hn : c'.nextId = c.nextId) (he : c'.env = c.env) (ho : c'.ops = c.ops) (hb : Bd f c) : Evo f c r c' :=
  evo_leaf f hf c c' r hr (by omega) (by intro x; rw [he]; omega) ⟨[], by simp [ho], by intro o h; cases h⟩ hb

/-- binding a fresh `Sleep` / `Interval` to a name -/
theorem evo_bind (f : Fut) (hf : ids f = []) (c : Ctx) (k : String) (v : Named) (hv : v.sid = c.nextId)
    (hb : Bd f c) : Evo f c none (({ c with nextId := c.nextId + 1 } : Ctx).bind k v) := by
  apply evo_leaf f hf c _ none rfl (Nat.le_succ _)
  · intro x
    have := envIds_count_set_le c.env k v x
    rw [hv] at this
    show (envIds (envSet c.env k v)).count x ≤ _ + (if c.nextId ≤ x ∧ x < c.nextId + 1 then 1 else 0)
    by_cases h : c.nextId = x
    · rw [if_pos h] at this; rw [if_pos (by omega)]; exact this
    · rw [if_neg h] at this; omega
  · refine ⟨_, rfl, ?_⟩
    intro o ho
    left
    split at ho
    · rename_i old hold
      rw [named_dropOps_sids old o ho]; exact envGet_mem_ids hold
    · cases ho
  · exact hb

/-- an operation on a named `Sleep` / `Interval` that keeps its id -/
theorem evo_named (f : Fut) (hf : ids f = []) (c c' : Ctx) (r : Option Fut) (hr : idsO r = [])
    (k : String) (old v : Named) (hget : envGet c.env k = some old) (hv : v.sid = old.sid)
    (hn : c'.nextId = c.nextId) (he : c'.env = envSet c.env k v) (ops : List Op) (ho : c'.ops = c.ops ++ ops)
    (hs : ∀ o ∈ ops, opSid o = old.sid) (hb : Bd f c) : Evo f c r c' := by
  apply evo_leaf f hf c c' r hr (by omega)
  · intro x
    rw [he, envIds_count_set_same hget v hv x]; omega
  · exact ⟨ops, ho, fun o ho' => Or.inl (by rw [hs o ho']; exact envGet_mem_ids hget)⟩
  · exact hb

theorem Evo.env_back {f : Fut} {c c' : Ctx} {r : Option Fut} (E : Evo f c r c') {x : Nat}
    (h : x ∈ envIds c'.env) : x ∈ envIds c.env ∨ (c.nextId ≤ x ∧ x < c'.nextId) := by
  have hp := count_pos_of_mem h
  by_cases h1 : x < c.nextId
  · exact Or.inl (mem_of_count_pos (by have := (E.old x h1).2; omega))
  · by_cases h2 : x < c'.nextId
    · exact Or.inr ⟨by omega, h2⟩
    · have := (E.hi x (by omega)).2; omega

theorem Evo.ids_back {f : Fut} {c c' : Ctx} {r : Option Fut} (E : Evo f c r c') {x : Nat}
    (h : x ∈ idsO r) : x ∈ ids f ∨ (c.nextId ≤ x ∧ x < c'.nextId) := by
  have hp := count_pos_of_mem h
  by_cases h1 : x < c.nextId
  · exact Or.inl (mem_of_count_pos (by have := (E.old x h1).1; omega))
  · by_cases h2 : x < c'.nextId
    · exact Or.inr ⟨by omega, h2⟩
    · have := (E.hi x (by omega)).1; omega

/-- the bound needed to continue with another term after a first poll -/
theorem Evo.bd_next {f g : Fut} {c c' : Ctx} {r : Option Fut} (E : Evo f c r c')
    (hg : ∀ x, c.nextId ≤ x → (ids g).count x = 0) : Bd g c' := by
  intro x hx
  exact ⟨hg x (by have := E.nid; omega), (E.hi x hx).2⟩

end Timer

/-
C18, `Display` / `FromStr` round trips of the NDL string grammar (fields, endpoints, type clauses).
Identifiers are strings without whitespace and without the grammar's punctuation (`Ident`).
-/
import Desverif.Model.Ndl
namespace Ndl

/-- punctuation of the clause grammar -/
def punct : List Char := ['[', ']', '(', ')', '/', ',', '<']

def identChar (c : Char) : Bool := !isWs c && !punct.contains c

/-- an identifier: no whitespace, no punctuation (may be empty) -/
def Ident (s : Str) : Prop := ∀ c ∈ s, identChar c = true

instance (s : Str) : Decidable (Ident s) := by unfold Ident; exact inferInstance

theorem Ident.not_mem {s : Str} (h : Ident s) {c : Char} (hc : c ∈ punct) : c ∉ s := by
  intro hm
  have := h c hm
  simp only [identChar, Bool.and_eq_true, Bool.not_eq_true'] at this
  have h2 := this.2
  rw [List.contains_iff_mem.2 hc] at h2
  cases h2

theorem Ident.not_ws {s : Str} (h : Ident s) : ∀ c ∈ s, isWs c = false := by
  intro c hm
  have := h c hm
  simp only [identChar, Bool.and_eq_true, Bool.not_eq_true'] at this
  exact this.1

/-! ### list-level facts about the `str` helpers -/

theorem splitOnce_append (c : Char) : ∀ (a b : Str), c ∉ a → splitOnce c (a ++ c :: b) = some (a, b)
  | [], b, _ => by simp [splitOnce]
  | x :: a, b, h => by
    have hx : x ≠ c := fun e => h (e ▸ List.mem_cons_self ..)
    have ha : c ∉ a := fun m => h (List.mem_cons_of_mem _ m)
    simp only [List.cons_append, splitOnce, hx, if_false, splitOnce_append c a b ha]

theorem splitOnce_none (c : Char) : ∀ (s : Str), c ∉ s → splitOnce c s = none
  | [], _ => rfl
  | x :: s, h => by
    have hx : x ≠ c := fun e => h (e ▸ List.mem_cons_self ..)
    have hs : c ∉ s := fun m => h (List.mem_cons_of_mem _ m)
    simp only [splitOnce, hx, if_false, splitOnce_none c s hs]

theorem endsWith_snoc (a : Str) (c : Char) : endsWith (a ++ [c]) c = true := by
  simp [endsWith]

theorem endsWith_false {s : Str} {c : Char} (h : c ∉ s) : endsWith s c = false := by
  unfold endsWith
  cases hl : s.getLast? with
  | none => simp
  | some x =>
    have hx : x ∈ s := List.mem_of_getLast? hl
    have : x ≠ c := fun e => h (e ▸ hx)
    simp [this]

theorem dropWhile_id {p : Char → Bool} : ∀ (l : Str), (∀ c ∈ l, p c = false) → l.dropWhile p = l
  | [], _ => rfl
  | x :: l, h => by simp [List.dropWhile, h x (List.mem_cons_self ..)]

theorem trimEndMatches_snoc {a : Str} {c : Char} (h : c ∉ a) : trimEndMatches (a ++ [c]) c = a := by
  unfold trimEndMatches
  simp only [List.reverse_append, List.reverse_cons, List.reverse_nil, List.nil_append,
    List.singleton_append, List.dropWhile_cons, beq_self_eq_true, if_true]
  rw [dropWhile_id]
  · simp
  · intro x hx
    have hx' : x ∈ a := List.mem_reverse.1 hx
    have : x ≠ c := fun e => h (e ▸ hx')
    simpa using this

theorem trim_ident {s : Str} (h : Ident s) : trim s = s := by
  unfold trim trimEnd trimStart
  rw [dropWhile_id s h.not_ws, dropWhile_id]
  · simp
  · intro c hc
    exact h.not_ws c (List.mem_reverse.1 hc)

/-! ### decimal numbers -/

theorem digitChar_val : ∀ k, k < 10 → ((match k with
    | 0 => '0' | 1 => '1' | 2 => '2' | 3 => '3' | 4 => '4'
    | 5 => '5' | 6 => '6' | 7 => '7' | 8 => '8' | _ => '9' : Char).toNat - 48 = k) ∧
    isDigit (match k with
    | 0 => '0' | 1 => '1' | 2 => '2' | 3 => '3' | 4 => '4'
    | 5 => '5' | 6 => '6' | 7 => '7' | 8 => '8' | _ => '9' : Char) = true := by decide

theorem digitChar_spec (n : Nat) : (digitChar n).toNat - 48 = n % 10 ∧ isDigit (digitChar n) = true :=
  digitChar_val (n % 10) (Nat.mod_lt _ (by decide))

theorem digitsVal_append : ∀ (xs ys : Str) (a : Nat), digitsVal a (xs ++ ys) = digitsVal (digitsVal a xs) ys
  | [], _, _ => rfl
  | x :: xs, ys, a => by
    show digitsVal (a * 10 + (x.toNat - 48)) (xs ++ ys) = digitsVal (digitsVal (a * 10 + (x.toNat - 48)) xs) ys
    exact digitsVal_append xs ys _

theorem showNatAux_acc : ∀ (fuel n : Nat) (acc : Str), showNatAux fuel n acc = showNatAux fuel n [] ++ acc
  | 0, _, acc => by simp [showNatAux]
  | fuel + 1, n, acc => by
    unfold showNatAux
    split
    · simp
    · rw [showNatAux_acc fuel (n / 10) (digitChar n :: acc), showNatAux_acc fuel (n / 10) [digitChar n]]
      simp

theorem showNatAux_spec : ∀ (fuel n : Nat), n < fuel →
    digitsVal 0 (showNatAux fuel n []) = n ∧ (∀ c ∈ showNatAux fuel n [], isDigit c = true) ∧
    showNatAux fuel n [] ≠ []
  | 0, n, h => by omega
  | fuel + 1, n, h => by
    unfold showNatAux
    split
    · next hlt =>
      refine ⟨?_, ?_, by simp⟩
      · show 0 * 10 + ((digitChar n).toNat - 48) = n
        rw [(digitChar_spec n).1, Nat.mod_eq_of_lt hlt]
        omega
      · intro c hc
        rw [List.mem_singleton.1 hc]
        exact (digitChar_spec n).2
    · next hge =>
      have hlt : n / 10 < fuel := by omega
      obtain ⟨h1, h2, h3⟩ := showNatAux_spec fuel (n / 10) hlt
      rw [showNatAux_acc]
      refine ⟨?_, ?_, by simp⟩
      · rw [digitsVal_append, h1]
        show n / 10 * 10 + ((digitChar n).toNat - 48) = n
        rw [(digitChar_spec n).1]
        omega
      · intro c hc
        rcases List.mem_append.1 hc with hc | hc
        · exact h2 c hc
        · rw [List.mem_singleton.1 hc]
          exact (digitChar_spec n).2

theorem showNat_digits (n : Nat) : ∀ c ∈ showNat n, isDigit c = true :=
  (showNatAux_spec (n + 1) n (Nat.lt_succ_self n)).2.1

theorem isDigit_not {c d : Char} (h : isDigit c = true) (hd : isDigit d = false) : c ≠ d :=
  fun e => by rw [e, hd] at h; cases h

theorem parseUsize_showNat (n : Nat) (hn : n < 2 ^ 64) : parseUsize (showNat n) = some n := by
  obtain ⟨h1, h2, h3⟩ := showNatAux_spec (n + 1) n (Nat.lt_succ_self n)
  have hbody : stripPlus (showNat n) = showNat n := by
    cases hs : showNat n with
    | nil => rfl
    | cons x r =>
      have hx : isDigit x = true := showNat_digits n x (by rw [hs]; exact List.mem_cons_self ..)
      have : x ≠ '+' := isDigit_not hx (by decide)
      unfold stripPlus
      split
      · next heq => cases heq; exact absurd rfl this
      · rfl
  have he : (showNat n).isEmpty = false := by
    cases hs : showNat n with
    | nil => exact absurd hs h3
    | cons x r => rfl
  have ha : (showNat n).all isDigit = true := List.all_eq_true.2 h2
  have hv : digitsVal 0 (showNat n) = n := h1
  unfold parseUsize
  rw [hbody]
  simp [he, ha, hv, hn]

/-! ### fields -/

/-- a field whose cluster size / index fits `usize` -/
def FieldOk (f : FieldDef) : Prop :=
  Ident f.ident ∧ match f.kard with
    | .atom => True
    | .cluster n => n < 2 ^ 64

theorem parseField_display (f : FieldDef) (h : FieldOk f) : parseField f.display = .ok f := by
  obtain ⟨hi, hk⟩ := h
  cases f with
  | mk ident kard =>
    cases kard with
    | atom =>
      have : endsWith ident ']' = false := endsWith_false (hi.not_mem (by decide))
      simp [parseField, FieldDef.display, this]
    | cluster n =>
      have hdig : ']' ∉ showNat n := fun hm => isDigit_not (showNat_digits n _ hm) (by decide) rfl
      have e1 : ident ++ ['['] ++ showNat n ++ [']'] = (ident ++ '[' :: showNat n) ++ [']'] := by simp
      have e2 : ident ++ ['['] ++ showNat n ++ [']'] = ident ++ '[' :: (showNat n ++ [']']) := by simp
      have hends : endsWith (ident ++ ['['] ++ showNat n ++ [']']) ']' = true := by
        rw [e1]; exact endsWith_snoc _ _
      have hsplit : splitOnce '[' (ident ++ ['['] ++ showNat n ++ [']']) = some (ident, showNat n ++ [']']) := by
        rw [e2]; exact splitOnce_append '[' ident _ (hi.not_mem (by decide))
      simp only [parseField, FieldDef.display, hends, if_true, hsplit]
      rw [trimEndMatches_snoc hdig, parseUsize_showNat n hk]

theorem mapM_parseField_display : ∀ (fs : List FieldDef), (∀ f ∈ fs, FieldOk f) →
    (fs.map FieldDef.display).mapM parseField = .ok fs
  | [], _ => rfl
  | f :: fs, h => by
    simp only [List.map_cons, List.mapM_cons]
    rw [parseField_display f (h f (List.mem_cons_self ..)),
      mapM_parseField_display fs fun g hg => h g (List.mem_cons_of_mem _ hg)]
    rfl

/-! ### endpoints -/

theorem splitChar_none (c : Char) : ∀ (s : Str), c ∉ s → splitChar c s = [s]
  | [], _ => rfl
  | x :: s, h => by
    have hx : x ≠ c := fun e => h (e ▸ List.mem_cons_self ..)
    have hs : c ∉ s := fun m => h (List.mem_cons_of_mem _ m)
    simp only [splitChar, hx, if_false, splitChar_none c s hs]

theorem splitChar_append (c : Char) : ∀ (a rest : Str), c ∉ a →
    splitChar c (a ++ c :: rest) = a :: splitChar c rest
  | [], rest, _ => by simp [splitChar]
  | x :: a, rest, h => by
    have hx : x ≠ c := fun e => h (e ▸ List.mem_cons_self ..)
    have ha : c ∉ a := fun m => h (List.mem_cons_of_mem _ m)
    simp only [List.cons_append, splitChar, hx, if_false, splitChar_append c a rest ha]

theorem splitChar_intercalate (c : Char) : ∀ (xs : List Str), xs ≠ [] → (∀ x ∈ xs, c ∉ x) →
    splitChar c (intercalate [c] xs) = xs
  | [], h, _ => absurd rfl h
  | [x], _, h => by
    simp only [intercalate]
    exact splitChar_none c x (h x (List.mem_cons_self ..))
  | x :: y :: r, _, h => by
    simp only [intercalate, List.append_assoc, List.singleton_append]
    rw [splitChar_append c x _ (h x (List.mem_cons_self ..)),
      splitChar_intercalate c (y :: r) (by simp) fun z hz => h z (List.mem_cons_of_mem _ hz)]

theorem display_no_slash (f : FieldDef) (h : FieldOk f) : '/' ∉ f.display := by
  obtain ⟨hi, _⟩ := h
  have h1 : '/' ∉ f.ident := hi.not_mem (by decide)
  cases f with
  | mk ident kard =>
    cases kard with
    | atom => exact h1
    | cluster n =>
      have hdig : '/' ∉ showNat n := fun hm => isDigit_not (showNat_digits n _ hm) (by decide) rfl
      simp only [FieldDef.display, List.mem_append, List.mem_singleton, not_or]
      exact ⟨⟨⟨h1, by decide⟩, hdig⟩, by decide⟩

theorem parseEndpoint_display (e : EndpointDef) (hne : e.accessors ≠ [])
    (h : ∀ f ∈ e.accessors, FieldOk f) : parseEndpoint e.display = .ok e := by
  unfold parseEndpoint EndpointDef.display
  rw [splitChar_intercalate '/' _ (by simpa using hne)]
  · rw [mapM_parseField_display _ h]
    rfl
  · intro x hx
    obtain ⟨f, hf, rfl⟩ := List.mem_map.1 hx
    exact display_no_slash f (h f hf)

/-! ### type clauses -/

theorem split2_none (a b : Char) : ∀ (s : Str), a ∉ s → split2 a b s = [s]
  | [], _ => rfl
  | [x], _ => rfl
  | x :: y :: r, h => by
    have hx : x ≠ a := fun e => h (e ▸ List.mem_cons_self ..)
    have hs : a ∉ y :: r := fun m => h (List.mem_cons_of_mem _ m)
    have : ¬(x = a ∧ y = b) := fun e => hx e.1
    simp only [split2, this, if_false, split2_none a b (y :: r) hs]

theorem split2_append (a b : Char) : ∀ (x rest : Str), a ∉ x →
    split2 a b (x ++ a :: b :: rest) = x :: split2 a b rest
  | [], rest, _ => by simp [split2]
  | [c], rest, h => by
    have hc : c ≠ a := fun e => h (e ▸ List.mem_cons_self ..)
    have : ¬(c = a ∧ a = b) := fun e => hc e.1
    have h0 := split2_append a b [] rest (by simp)
    simp only [List.nil_append] at h0
    simp [split2, this]
  | c :: d :: x, rest, h => by
    have hc : c ≠ a := fun e => h (e ▸ List.mem_cons_self ..)
    have hx : a ∉ d :: x := fun m => h (List.mem_cons_of_mem _ m)
    have : ¬(c = a ∧ d = b) := fun e => hc e.1
    have ih := split2_append a b (d :: x) rest hx
    simp only [List.cons_append] at ih
    simp only [List.cons_append, split2, this, if_false, ih]

theorem split2_intercalate (a b : Char) : ∀ (xs : List Str), xs ≠ [] → (∀ x ∈ xs, a ∉ x) →
    split2 a b (intercalate [a, b] xs) = xs
  | [], h, _ => absurd rfl h
  | [x], _, h => by
    simp only [intercalate]
    exact split2_none a b x (h x (List.mem_cons_self ..))
  | x :: y :: r, _, h => by
    simp only [intercalate, List.append_assoc, List.cons_append, List.nil_append]
    rw [split2_append a b x _ (h x (List.mem_cons_self ..)),
      split2_intercalate a b (y :: r) (by simp) fun z hz => h z (List.mem_cons_of_mem _ hz)]

theorem mem_intercalate {sep : Str} : ∀ (xs : List Str) (c : Char), c ∈ intercalate sep xs →
    c ∈ sep ∨ ∃ x ∈ xs, c ∈ x
  | [], c, h => by cases h
  | [x], c, h => Or.inr ⟨x, List.mem_cons_self .., h⟩
  | x :: y :: r, c, h => by
    simp only [intercalate, List.mem_append] at h
    rcases h with (h | h) | h
    · exact Or.inr ⟨x, List.mem_cons_self .., h⟩
    · exact Or.inl h
    · rcases mem_intercalate (y :: r) c h with h | ⟨z, hz, hc⟩
      · exact Or.inl h
      · exact Or.inr ⟨z, List.mem_cons_of_mem _ hz, hc⟩

/-- generic round trip of `TypClause<Arg>`: the arguments' `Display` contains neither `,` nor `)`
    and parses back -/
theorem parseTypClause_display {α : Type} (parg : Str → Except Fail α) (darg : α → Str)
    (t : TypClause α) (hi : Ident t.ident)
    (hd : ∀ a ∈ t.args, ',' ∉ darg a ∧ ')' ∉ darg a)
    (hp : (t.args.map darg).mapM parg = .ok t.args) :
    parseTypClause parg (t.display darg) = .ok t := by
  cases t with
  | mk ident args =>
    cases args with
    | nil =>
      have : splitOnce '(' ident = none := splitOnce_none _ _ (hi.not_mem (by decide))
      simp [parseTypClause, TypClause.display, this]
    | cons a as =>
      have hne : (a :: as).map darg ≠ [] := by simp
      have hclose : ')' ∉ intercalate ", ".toList ((a :: as).map darg) := by
        intro hm
        rcases mem_intercalate _ _ hm with h | ⟨x, hx, hc⟩
        · revert h; decide
        · obtain ⟨b, hb, rfl⟩ := List.mem_map.1 hx
          exact (hd b hb).2 hc
      have e2 : ident ++ ['('] ++ intercalate ", ".toList ((a :: as).map darg) ++ [')'] =
          ident ++ '(' :: (intercalate ", ".toList ((a :: as).map darg) ++ [')']) := by simp
      simp only [parseTypClause, TypClause.display, List.isEmpty_cons, Bool.false_eq_true, if_false]
      rw [e2, splitOnce_append '(' ident _ (hi.not_mem (by decide))]
      simp only [endsWith_snoc, Bool.not_true, Bool.false_eq_true, if_false]
      rw [trimEndMatches_snoc hclose]
      have hsplit : split2 ',' ' ' (intercalate ", ".toList ((a :: as).map darg)) = (a :: as).map darg := by
        have : ", ".toList = [',', ' '] := by decide
        rw [this]
        refine split2_intercalate ',' ' ' _ hne ?_
        intro x hx
        obtain ⟨b, hb, rfl⟩ := List.mem_map.1 hx
        exact (hd b hb).1
      rw [hsplit, hp, trim_ident hi]
      rfl

theorem mapM_parseStrArg : ∀ (l : List Str), l.mapM parseStrArg = .ok l
  | [] => rfl
  | x :: l => by
    simp only [List.mapM_cons, parseStrArg, mapM_parseStrArg l]
    rfl

theorem splitOnce2_append (a b : Char) : ∀ (x rest : Str), a ∉ x →
    splitOnce2 a b (x ++ a :: b :: rest) = some (x, rest)
  | [], rest, _ => by simp [splitOnce2]
  | [c], rest, h => by
    have hc : c ≠ a := fun e => h (e ▸ List.mem_cons_self ..)
    have : ¬(c = a ∧ a = b) := fun e => hc e.1
    have h0 := splitOnce2_append a b [] rest (by simp)
    simp only [List.nil_append] at h0
    simp [splitOnce2, this]
  | c :: d :: x, rest, h => by
    have hc : c ≠ a := fun e => h (e ▸ List.mem_cons_self ..)
    have hx : a ∉ d :: x := fun m => h (List.mem_cons_of_mem _ m)
    have : ¬(c = a ∧ d = b) := fun e => hc e.1
    have ih := splitOnce2_append a b (d :: x) rest hx
    simp only [List.cons_append] at ih
    simp only [List.cons_append, splitOnce2, this, if_false, ih]

theorem trim_pad_right {s : Str} (h : Ident s) : trim (s ++ [' ']) = s := by
  unfold trim trimEnd trimStart
  cases s with
  | nil => decide
  | cons x r =>
    have hx : isWs x = false := h.not_ws x (List.mem_cons_self ..)
    simp only [List.cons_append, List.dropWhile_cons, hx, Bool.false_eq_true, if_false,
      List.reverse_cons, List.reverse_append, List.reverse_nil, List.nil_append]
    have hsp : isWs ' ' = true := by decide
    simp only [hsp, if_true]
    rw [dropWhile_id]
    · simp
    · intro c hc
      have : c ∈ x :: r := by
        simp only [List.mem_append, List.mem_reverse, List.mem_singleton] at hc
        rcases hc with hc | hc
        · exact List.mem_cons_of_mem _ hc
        · exact hc ▸ List.mem_cons_self ..
      exact h.not_ws c this

theorem trim_pad_left {s : Str} (h : Ident s) : trim (' ' :: s) = s := by
  have hsp : isWs ' ' = true := by decide
  have : trimStart (' ' :: s) = s := by
    unfold trimStart
    simp only [List.dropWhile_cons, hsp, if_true]
    exact dropWhile_id s h.not_ws
  unfold trim
  rw [this]
  have := trim_ident h
  unfold trim at this
  rw [show trimStart s = s from dropWhile_id s h.not_ws] at this
  exact this

theorem parseGenerics_display (g : GenericsDef) (hb : Ident g.binding) (hB : Ident g.bound) :
    parseGenerics g.display = .ok g := by
  have e : g.display = (g.binding ++ [' ']) ++ '<' :: '-' :: (' ' :: g.bound) := by
    simp only [GenericsDef.display]
    have : " <- ".toList = [' ', '<', '-', ' '] := by decide
    rw [this]
    simp
  have hlt : '<' ∉ g.binding ++ [' '] := by
    simp only [List.mem_append, List.mem_singleton, not_or]
    exact ⟨hb.not_mem (by decide), by decide⟩
  unfold parseGenerics
  rw [e, splitOnce2_append '<' '-' _ _ hlt]
  simp only [trim_pad_right hb, trim_pad_left hB]

theorem mapM_parseGenerics_display : ∀ (l : List GenericsDef),
    (∀ g ∈ l, Ident g.binding ∧ Ident g.bound) → (l.map GenericsDef.display).mapM parseGenerics = .ok l
  | [], _ => rfl
  | g :: l, h => by
    simp only [List.map_cons, List.mapM_cons]
    rw [parseGenerics_display g (h g (List.mem_cons_self ..)).1 (h g (List.mem_cons_self ..)).2,
      mapM_parseGenerics_display l fun x hx => h x (List.mem_cons_of_mem _ hx)]
    rfl

theorem generics_display_clean (g : GenericsDef) (hb : Ident g.binding) (hB : Ident g.bound) :
    ',' ∉ g.display ∧ ')' ∉ g.display := by
  have : " <- ".toList = [' ', '<', '-', ' '] := by decide
  simp only [GenericsDef.display, this, List.mem_append, not_or]
  exact ⟨⟨⟨hb.not_mem (by decide), by decide⟩, hB.not_mem (by decide)⟩,
         ⟨⟨hb.not_mem (by decide), by decide⟩, hB.not_mem (by decide)⟩⟩

end Ndl

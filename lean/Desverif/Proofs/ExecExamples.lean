/-
Concrete states used by the witnesses and non-vacuity examples of Props/C06.lean.
-/
import Desverif.Model.Exec
namespace Exec

/-- `n` tasks of kind `k` with empty programs -/
def readyTasks (k : Kind) (n : Nat) : St := { tasks := List.replicate n { kind := k, prog := [] } }
def spawnAll (n : Nat) : List Instr := (List.range n).map .spawn


/-- a local task awaiting condition 0, a runtime task that wakes it -/
def crossState : St :=
  { tasks := [{ kind := .loc, prog := [.wait 0] }, { kind := .rt, prog := [.wake 0] }], conds := [{ coop := true }] }


/-- a chain: task 0 (rt) wakes task 1 (rt) wakes task 2 (rt); spawned in the order 2,1,0 all run in the instant, with 5 polls -/
def chainState : St :=
  { tasks := [{ kind := .rt, prog := [.wake 0] }, { kind := .rt, prog := [.wait 0, .wake 1] },
              { kind := .rt, prog := [.wait 1] }]
    conds := [{ coop := true }, { coop := false }] }


/-- `n` tasks of kind `k` that sleep until instant `t` -/
def sleepers (k : Kind) (n t : Nat) : St :=
  { tasks := List.replicate n { kind := k, prog := [.sleepUntil t] } }

/-- a runtime task that sleeps until instant 5 and then wakes condition 0, a local task awaiting condition 0 -/
def timerChain : St :=
  { tasks := [{ kind := .rt, prog := [.sleepUntil 5, .wake 0] }, { kind := .loc, prog := [.wait 0, .sleep 2] }],
    conds := [{ coop := false }] }

/-- three tasks (runtime, local, runtime) awaiting the same Notify -/
def waitersState : St :=
  { tasks := [{ kind := .rt, prog := [.wait 0] }, { kind := .loc, prog := [.wait 0] }, { kind := .rt, prog := [.wait 0] }],
    conds := [{ coop := false, cap1 := true }] }

/-- two tasks in `timeout(500, notified())` on one Notify -/
def timeoutState : St :=
  { tasks := [{ kind := .rt, prog := [.waitT 0 500] }, { kind := .loc, prog := [.waitT 0 500] }],
    conds := [{ coop := false, cap1 := true }] }

end Exec

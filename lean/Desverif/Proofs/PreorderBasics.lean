/-
Basic facts about the declared-tree specification (`PreSpec`): `par`, `kids`, `maxLen`, validity,
fuel-independence of `dfs`.
-/
import Desverif.Spec.Preorder
namespace PreSpec
variable {α : Type} [DecidableEq α]
set_option linter.unusedSectionVars false

theorem par_some {p q : List α} (h : par p = some q) :
    q = p.dropLast ∧ 2 ≤ p.length ∧ q.length + 1 = p.length := by
  unfold par at h
  split at h
  · simp at h
  · injection h with h
    subst h
    simp only [List.length_dropLast]
    refine ⟨trivial, by omega, by omega⟩

theorem par_none {p : List α} (h : par p = none) : p.length ≤ 1 := by
  unfold par at h
  split at h
  · assumption
  · simp at h

theorem par_ne_self (p : List α) : par p ≠ some p := by
  intro h
  have := (par_some h).2.2
  omega

theorem mem_kids {D : List (Decl α)} {q : List α} {c : Decl α} :
    c ∈ kids D q ↔ c ∈ D ∧ par c.segs = some q := by
  simp [kids]

theorem mem_roots {D : List (Decl α)} {c : Decl α} :
    c ∈ roots D ↔ c ∈ D ∧ par c.segs = none := by
  simp [roots]

theorem kids_len {D : List (Decl α)} {q : List α} {c : Decl α} (h : c ∈ kids D q) :
    c.segs.length = q.length + 1 := by
  have := (par_some (mem_kids.mp h).2).2.2
  omega

theorem kids_snoc (D : List (Decl α)) (p : Decl α) (q : List α) :
    kids (D ++ [p]) q = kids D q ++ (if par p.segs = some q then [p] else []) := by
  simp only [kids, List.filter_append, List.filter_cons, List.filter_nil, beq_iff_eq]

theorem roots_snoc (D : List (Decl α)) (p : Decl α) :
    roots (D ++ [p]) = roots D ++ (if par p.segs = none then [p] else []) := by
  simp only [roots, List.filter_append, List.filter_cons, List.filter_nil, beq_iff_eq]

/-! ### maxLen -/

theorem foldl_max_ge (g : Decl α → Nat) (D : List (Decl α)) (a : Nat) :
    a ≤ D.foldl (fun a d => max a (g d)) a ∧ ∀ d ∈ D, g d ≤ D.foldl (fun a d => max a (g d)) a := by
  induction D generalizing a with
  | nil => simp
  | cons x xs ih =>
    simp only [List.foldl_cons, List.mem_cons, forall_eq_or_imp]
    have h := ih (max a (g x))
    refine ⟨by omega, by omega, fun d hd => h.2 d hd⟩

theorem mem_maxLen {D : List (Decl α)} {d : Decl α} (h : d ∈ D) : d.segs.length ≤ maxLen D :=
  (foldl_max_ge (fun d => d.segs.length) D 0).2 d h

theorem maxLen_snoc (D : List (Decl α)) (p : Decl α) :
    maxLen (D ++ [p]) = max (maxLen D) p.segs.length := by
  simp [maxLen, List.foldl_append]

/-! ### dfs -/

theorem dfs_head (D : List (Decl α)) (f : Nat) (d : Decl α) : (dfs D f d).head? = some d := by
  cases f <;> simp [dfs]

theorem dfs_self_mem (D : List (Decl α)) (f : Nat) (d : Decl α) : d ∈ dfs D f d := by
  cases f <;> simp [dfs]

theorem dfs_len (D : List (Decl α)) : ∀ (f : Nat) (d y : Decl α), y ∈ dfs D f d →
    d.segs.length ≤ y.segs.length := by
  intro f
  induction f with
  | zero => intro d y h; simp [dfs] at h; subst h; exact Nat.le_refl _
  | succ f ih =>
    intro d y h
    simp only [dfs, List.mem_cons, List.mem_flatMap] at h
    rcases h with rfl | ⟨c, hc, hy⟩
    · exact Nat.le_refl _
    · have := ih c y hy
      have := kids_len hc
      omega

theorem dfs_tail_len (D : List (Decl α)) (f : Nat) (d y : Decl α)
    (h : y ∈ (kids D d.segs).flatMap (dfs D f)) : d.segs.length < y.segs.length := by
  simp only [List.mem_flatMap] at h
  obtain ⟨c, hc, hy⟩ := h
  have := dfs_len D f c y hy
  have := kids_len hc
  omega

theorem dfs_mem_D (D : List (Decl α)) : ∀ (f : Nat) (d y : Decl α), d ∈ D → y ∈ dfs D f d → y ∈ D := by
  intro f
  induction f with
  | zero => intro d y hd h; simp [dfs] at h; subst h; exact hd
  | succ f ih =>
    intro d y hd h
    simp only [dfs, List.mem_cons, List.mem_flatMap] at h
    rcases h with rfl | ⟨c, hc, hy⟩
    · exact hd
    · exact ih c y (mem_kids.mp hc).1 hy

theorem flatMap_congr' {β γ : Type} (g g' : β → List γ) (L : List β) (h : ∀ c ∈ L, g' c = g c) :
    L.flatMap g' = L.flatMap g := by
  induction L with
  | nil => rfl
  | cons x xs ih =>
    simp only [List.flatMap_cons]
    rw [h x (by simp), ih (fun c hc => h c (by simp [hc]))]

/-- enough fuel is enough: the result does not depend on the fuel once it covers the depth -/
theorem dfs_fuel (D : List (Decl α)) : ∀ (f g : Nat) (d : Decl α),
    maxLen D ≤ d.segs.length + f → maxLen D ≤ d.segs.length + g → dfs D f d = dfs D g d := by
  have hnokids : ∀ d : Decl α, maxLen D ≤ d.segs.length → kids D d.segs = [] := by
    intro d h
    apply List.eq_nil_iff_forall_not_mem.mpr
    intro c hc
    have h1 := kids_len hc
    have h2 := mem_maxLen (mem_kids.mp hc).1
    omega
  intro f
  induction f with
  | zero =>
    intro g d hf _
    cases g with
    | zero => rfl
    | succ g => simp [dfs, hnokids d (by omega)]
  | succ f ih =>
    intro g d hf hg
    cases g with
    | zero => simp [dfs, hnokids d (by omega)]
    | succ g =>
      simp only [dfs]
      congr 1
      apply flatMap_congr'
      intro c hc
      have := kids_len hc
      exact ih g c (by omega) (by omega)

/-! ### validity -/

/-- consequences of `Valid` used by the proofs -/
structure Good (D : List (Decl α)) : Prop where
  nodup : (D.map (·.segs)).Nodup
  closed : ∀ y ∈ D, ∀ x, par y.segs = some x → x ∈ D.map (·.segs)

theorem validFrom_snoc (D : List (Decl α)) (p : Decl α) : ∀ seen : List (List α),
    validFrom seen (D ++ [p]) = true ↔
      validFrom seen D = true ∧ p.segs ∉ seen ∧ p.segs ∉ D.map (·.segs) ∧
        ∀ q, par p.segs = some q → q ∈ seen ∨ q ∈ D.map (·.segs) := by
  induction D with
  | nil =>
    intro seen
    cases hp : par p.segs <;> simp [validFrom, hp]
  | cons d ds ih =>
    intro seen
    simp only [List.cons_append, validFrom, Bool.and_eq_true, ih (d.segs :: seen)]
    simp only [List.mem_cons, List.map_cons, not_or]
    constructor
    · rintro ⟨h1, h2, ⟨h3, h4⟩, h5, h6⟩
      refine ⟨⟨h1, h2⟩, h4, ⟨h3, h5⟩, fun q hq => ?_⟩
      rcases h6 q hq with (h | h) | h
      · exact Or.inr (Or.inl h)
      · exact Or.inl h
      · exact Or.inr (Or.inr h)
    · rintro ⟨⟨h1, h2⟩, h4, ⟨h3, h5⟩, h6⟩
      refine ⟨h1, h2, ⟨h3, h4⟩, h5, fun q hq => ?_⟩
      rcases h6 q hq with h | h | h
      · exact Or.inl (Or.inr h)
      · exact Or.inl (Or.inl h)
      · exact Or.inr h

theorem valid_snoc (D : List (Decl α)) (p : Decl α) :
    Valid (D ++ [p]) ↔ Valid D ∧ p.segs ∉ D.map (·.segs) ∧
      ∀ q, par p.segs = some q → q ∈ D.map (·.segs) := by
  unfold Valid
  rw [validFrom_snoc]
  simp

theorem snoc_induction {β : Type} {P : List β → Prop} (nil : P [])
    (snoc : ∀ l a, P l → P (l ++ [a])) : ∀ l, P l := by
  intro l
  have : ∀ n (l : List β), l.length = n → P l := by
    intro n
    induction n with
    | zero =>
      intro l h
      have : l = [] := List.length_eq_zero_iff.mp h
      subst this; exact nil
    | succ n ih =>
      intro l h
      have hne : l ≠ [] := by intro h'; subst h'; simp at h
      rw [← List.dropLast_concat_getLast hne]
      apply snoc
      apply ih
      simp [h]
  exact this _ _ rfl

theorem valid_good : ∀ D : List (Decl α), Valid D → Good D := by
  intro D
  induction D using snoc_induction with
  | nil => intro _; exact ⟨by simp, by simp⟩
  | snoc l p ih =>
    intro h
    obtain ⟨hl, hnew, hpar⟩ := (valid_snoc l p).mp h
    have g := ih hl
    constructor
    · simp only [List.map_append, List.map_cons, List.map_nil]
      rw [List.nodup_append]
      refine ⟨g.nodup, by simp, ?_⟩
      intro a ha b hb
      simp at hb
      subst hb
      intro e
      subst e
      exact hnew ha
    · intro y hy x hx
      simp only [List.mem_append, List.mem_singleton] at hy
      simp only [List.map_append, List.mem_append]
      rcases hy with hy | rfl
      · exact Or.inl (g.closed y hy x hx)
      · exact Or.inl (hpar x hx)

end PreSpec

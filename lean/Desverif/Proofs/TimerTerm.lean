/-
Termination of the scripted simulation: a potential of the simulation state (wake-up events in the
event set + slots in the queues + twice the registration budget of the scripts + restart budget)
strictly decreases with every event of the event loop, so the loop started with that much fuel
never runs out of fuel — for all scripts.
-/
import Desverif.Proofs.TimerPot
import Desverif.Proofs.TimerMeasurePoll
import Desverif.Proofs.TimerSched
namespace Timer

theorem dropOps_removes (tasks : List Task) : ∀ o ∈ tasks.flatMap Task.dropOps, o.isRemove = true := by
  apply cnt_zero_removes
  induction tasks with
  | nil => rfl
  | cons t rest ih =>
    simp only [List.flatMap_cons, cnt_append, ih, Task.dropOps, envDropOps_cnt]
    split
    · simp [dropFut_cnt]
    · rfl

theorem finish_phi {last now : Nat} (m : Mod) (k : Kind) (nwoken inc : Nat) (active : Bool)
    (tasks' : List Task) (a : Acc) (hinv : WakeInv last m.timer) (hs : SlotInv m.timer)
    (hw : ∀ w ∈ m.timer.wakeups, now ≤ w) (hok : OkOps now a.ops)
    (hk : k = .wake ∨ k = .restart)
    (hwake : k = .wake → now ∈ m.timer.wakeups) (hact : a.shut ≠ none → active = true) :
    tPhi (m.finish next now k nwoken inc active tasks' a).1.timer
      + 2 * tasksW (m.finish next now k nwoken inc active tasks' a).1.tasks
      + rflag (m.finish next now k nwoken inc active tasks' a).1
      + aflag (m.finish next now k nwoken inc active tasks' a).1.active
      + (if k = .wake then 1 else 0)
      ≤ tPhi m.timer + 2 * (tasksW tasks' + cnt a.ops) + (if k = .restart then 0 else rflag m) + aflag active := by
  have hev : EvOk m.timer ⟨now, decide (k = Kind.wake), [], a.ops⟩ := ⟨hw, hok⟩
  have h1 : WakeInv now (stepEv m.timer ⟨now, decide (k = Kind.wake), [], a.ops⟩).1 := wakeinv_step hinv hev
  have hs1 := slotinv_step hs ⟨now, decide (k = Kind.wake), [], a.ops⟩
  have hT1 := tPhi_step hinv hs ⟨now, decide (k = Kind.wake), [], a.ops⟩ (by intro o ho; cases ho)
    (by intro hk; exact hwake (by simpa using hk))
  have hT2 := tPhi_step h1 hs1 ⟨now, false, tasks'.flatMap Task.dropOps, []⟩ (dropOps_removes tasks')
    (by intro hk; cases hk)
  simp only [cnt_nil, Bool.false_eq_true, if_false, Nat.mul_zero, Nat.add_zero] at hT1 hT2
  unfold stepEv at hT1 hT2
  rcases hk with rfl | rfl
  · cases hsh : a.shut with
    | none =>
      simp only [Mod.finish, hsh, decide_true] at hT1 ⊢
      generalize (stepWith next m.timer ⟨now, true, [], a.ops⟩).1 = t3 at hT1 ⊢
      simp only [rflag, if_true, reduceCtorEq, if_false] at hT1 ⊢
      omega
    | some r =>
      have hat : active = true := hact (by rw [hsh]; simp)
      subst hat
      simp only [Mod.finish, hsh, decide_true] at hT1 hT2 ⊢
      generalize (stepWith next m.timer ⟨now, true, [], a.ops⟩).1 = t3 at hT1 hT2 ⊢
      generalize (stepWith next t3 ⟨now, false, tasks'.flatMap Task.dropOps, []⟩).1 = t6 at hT2 ⊢
      simp only [rflag, aflag, tasksW, if_true, reduceCtorEq, if_false, Bool.false_eq_true] at hT1 ⊢
      have : (if r.isSome = true then 1 else 0) ≤ 1 := by split <;> omega
      omega
  · cases hsh : a.shut with
    | none =>
      simp only [Mod.finish, hsh, reduceCtorEq, decide_false, Bool.false_eq_true, if_false] at hT1 ⊢
      generalize (stepWith next m.timer ⟨now, false, [], a.ops⟩).1 = t3 at hT1 ⊢
      simp only [rflag, if_true, Option.isSome_none, Bool.false_eq_true, if_false] at hT1 ⊢
      omega
    | some r =>
      have hat : active = true := hact (by rw [hsh]; simp)
      subst hat
      simp only [Mod.finish, hsh, reduceCtorEq, decide_false, Bool.false_eq_true, if_false] at hT1 hT2 ⊢
      generalize (stepWith next m.timer ⟨now, false, [], a.ops⟩).1 = t3 at hT1 hT2 ⊢
      generalize (stepWith next t3 ⟨now, false, tasks'.flatMap Task.dropOps, []⟩).1 = t6 at hT2 ⊢
      simp only [rflag, aflag, tasksW, if_true, Bool.false_eq_true, if_false] at hT1 ⊢
      have : (if r.isSome = true then 1 else 0) ≤ 1 := by split <;> omega
      omega

theorem finish_inc (m : Mod) (now : Nat) (k : Kind) (nwoken inc : Nat) (active : Bool) (tasks' : List Task)
    (a : Acc) : (m.finish next now k nwoken inc active tasks' a).1.inc = inc ∧
      (m.finish next now k nwoken inc active tasks' a).1.progs = m.progs := by
  unfold Mod.finish
  simp only
  split <;> exact ⟨rfl, rfl⟩

theorem finish_slotinv (m : Mod) (now : Nat) (k : Kind) (nwoken inc : Nat) (active : Bool) (tasks' : List Task)
    (a : Acc) (hs : SlotInv m.timer) : SlotInv (m.finish next now k nwoken inc active tasks' a).1.timer := by
  have h1 := slotinv_step hs ⟨now, decide (k = Kind.wake), [], a.ops⟩
  unfold Mod.finish
  simp only
  split
  · exact h1
  · exact h1
  · exact slotinv_step h1 ⟨now, false, _, []⟩

/-- a restart can only be pending for a module in its first incarnation -/
theorem finish_restart_inc (m : Mod) (now : Nat) (k : Kind) (nwoken inc : Nat) (active : Bool) (tasks' : List Task)
    (a : Acc) (hsh : ∀ r, a.shut = some (some r) → inc = 0)
    (hH : k = .restart ∨ (m.restartAt.isSome → inc = 0)) :
    (m.finish next now k nwoken inc active tasks' a).1.restartAt.isSome → inc = 0 := by
  unfold Mod.finish
  simp only
  split
  · intro h
    rcases hH with hk | hH
    · cases hk
    · simp only [reduceCtorEq, if_false] at h; exact hH h
  · intro h
    rcases hH with hk | hH
    · rw [if_pos hk] at h; cases h
    · split at h
      · cases h
      · exact hH h
  · rename_i r hr _
    intro h
    simp only at h
    cases r with
    | none => cases h
    | some r' => exact hsh r' hr

/-- the tasks polled by a wake-up event: those whose waker was woken, if the module is active -/
def wakeRun (m : Mod) (t : Nat) : Nat → Bool :=
  fun i => m.active && (stepWith next m.timer ⟨t, true, [], []⟩).2.any (·.tid == i)

theorem event_wake_eq (m : Mod) (t : Nat) :
    m.event next t .wake = m.finish next t .wake (stepWith next m.timer ⟨t, true, [], []⟩).2.length m.inc m.active
      (pollTasks m.tasks 0 (wakeRun m t) t m.inc ⟨m.nextId, m.log, [], none⟩).1
      (pollTasks m.tasks 0 (wakeRun m t) t m.inc ⟨m.nextId, m.log, [], none⟩).2 := by
  unfold Mod.event wakeRun
  simp

theorem event_restart_eq (m : Mod) (t : Nat) :
    m.event next t .restart = m.finish next t .restart (stepWith next m.timer ⟨t, false, [], []⟩).2.length
      (m.inc + 1) true
      (pollTasks (spawnAll m.progs) 0 (fun _ => true) t (m.inc + 1) ⟨m.nextId, m.log, [], none⟩).1
      (pollTasks (spawnAll m.progs) 0 (fun _ => true) t (m.inc + 1) ⟨m.nextId, m.log, [], none⟩).2 := by
  unfold Mod.event
  simp

/-- per-module invariants used by the termination argument -/
structure MInv (m : Mod) : Prop where
  inv : WakeInv m.last m.timer
  slot : SlotInv m.timer
  rst : m.restartAt.isSome → m.inc = 0

theorem shutOk_none {now inc : Nat} {s : Option (Option Nat)} (h : ShutOk now inc none s) :
    (∀ r, s = some (some r) → inc = 0 ∧ now ≤ r) := by
  intro r hr
  rcases h with h | h | ⟨r', h, h0, h1⟩
  · rw [h] at hr; cases hr
  · rw [h] at hr; cases hr
  · rw [h] at hr; cases hr; exact ⟨h0, h1⟩

theorem event_wake_phi (m : Mod) (t : Nat) (hI : MInv m) (hmem : t ∈ m.timer.wakeups)
    (hw : ∀ w ∈ m.timer.wakeups, t ≤ w) :
    mPhi (m.event next t .wake).1 < mPhi m ∧ MInv (m.event next t .wake).1 := by
  rw [event_wake_eq]
  have hmeas := measure_pollTasks m.tasks 0 (wakeRun m t) t m.inc ⟨m.nextId, m.log, [], none⟩
  have hmov := amoves_pollTasks m.tasks 0 (wakeRun m t) t m.inc ⟨m.nextId, m.log, [], none⟩
  have hact : (pollTasks m.tasks 0 (wakeRun m t) t m.inc ⟨m.nextId, m.log, [], none⟩).2.shut ≠ none →
      m.active = true := by
    intro hne
    cases hb : m.active with
    | true => rfl
    | false =>
      exfalso
      apply hne
      rw [pollTasks_norun _ _ _ _ _ _ (by intro i; simp [wakeRun, hb])]
  generalize pollTasks m.tasks 0 (wakeRun m t) t m.inc ⟨m.nextId, m.log, [], none⟩ = R at hmeas hmov hact ⊢
  obtain ⟨δ, hδ, hokδ⟩ := hmov.ops
  have hok : OkOps t R.2.ops := by rw [hδ]; exact hokδ
  have hsh := shutOk_none hmov.shut
  have hphi := finish_phi m .wake (stepWith next m.timer ⟨t, true, [], []⟩).2.length m.inc m.active R.1 R.2
    hI.inv hI.slot hw hok (Or.inl rfl) (fun _ => hmem) hact
  obtain ⟨hinc, hprogs⟩ := finish_inc m t .wake (stepWith next m.timer ⟨t, true, [], []⟩).2.length m.inc m.active R.1 R.2
  refine ⟨?_, ⟨?_, finish_slotinv _ _ _ _ _ _ _ _ hI.slot, ?_⟩⟩
  · unfold mPhi
    rw [hinc, hprogs]
    simp only [cnt_nil, if_true, reduceCtorEq, if_false] at hmeas hphi
    omega
  · rw [finish_last]
    exact finish_wakeinv m .wake _ _ _ _ _ hI.inv hw hok
  · rw [hinc]
    exact finish_restart_inc m t .wake _ _ _ _ _ (fun r hr => (hsh r hr).1) (Or.inr hI.rst)

theorem event_restart_phi (m : Mod) (t : Nat) (hI : MInv m) (hr : m.restartAt.isSome)
    (hw : ∀ w ∈ m.timer.wakeups, t ≤ w) :
    mPhi (m.event next t .restart).1 < mPhi m ∧ MInv (m.event next t .restart).1 := by
  rw [event_restart_eq]
  have hmeas := measure_pollTasks (spawnAll m.progs) 0 (fun _ => true) t (m.inc + 1) ⟨m.nextId, m.log, [], none⟩
  have hmov := amoves_pollTasks (spawnAll m.progs) 0 (fun _ => true) t (m.inc + 1) ⟨m.nextId, m.log, [], none⟩
  generalize pollTasks (spawnAll m.progs) 0 (fun _ => true) t (m.inc + 1) ⟨m.nextId, m.log, [], none⟩ = R
    at hmeas hmov ⊢
  obtain ⟨δ, hδ, hokδ⟩ := hmov.ops
  have hok : OkOps t R.2.ops := by rw [hδ]; exact hokδ
  have hsh := shutOk_none hmov.shut
  have hphi := finish_phi m .restart (stepWith next m.timer ⟨t, false, [], []⟩).2.length (m.inc + 1) true R.1 R.2
    hI.inv hI.slot hw hok (Or.inr rfl) (by intro h; cases h) (fun _ => rfl)
  obtain ⟨hinc, hprogs⟩ := finish_inc m t .restart (stepWith next m.timer ⟨t, false, [], []⟩).2.length (m.inc + 1) true R.1 R.2
  have h0 : m.inc = 0 := hI.rst hr
  refine ⟨?_, ⟨?_, finish_slotinv _ _ _ _ _ _ _ _ hI.slot, ?_⟩⟩
  · unfold mPhi
    rw [hinc, hprogs, tasksW_spawnAll] at *
    have hrf : rflag m = 1 := by unfold rflag; rw [if_pos hr]
    simp only [cnt_nil, reduceCtorEq, if_false, if_true, h0, Nat.add_eq_zero_iff, Nat.succ_ne_zero, and_false,
      aflag] at hmeas hphi ⊢
    unfold progW
    omega
  · rw [finish_last]
    exact finish_wakeinv m .restart _ _ _ _ _ hI.inv hw hok
  · rw [hinc]
    exact finish_restart_inc m t .restart _ _ _ _ _ (fun r hr' => (hsh r hr').1) (Or.inl rfl)

theorem event_start_eq (m : Mod) (t : Nat) :
    m.event next t .start = m.finish next t .start (stepWith next m.timer ⟨t, false, [], []⟩).2.length
      m.inc true
      (pollTasks (spawnAll m.progs) 0 (fun _ => true) t m.inc ⟨m.nextId, m.log, [], none⟩).1
      (pollTasks (spawnAll m.progs) 0 (fun _ => true) t m.inc ⟨m.nextId, m.log, [], none⟩).2 := by
  unfold Mod.event
  simp

theorem event_start_minv (m : Mod) (t : Nat) (hI : MInv m) (hw : ∀ w ∈ m.timer.wakeups, t ≤ w) :
    MInv (m.event next t .start).1 := by
  rw [event_start_eq]
  have hmov := amoves_pollTasks (spawnAll m.progs) 0 (fun _ => true) t m.inc ⟨m.nextId, m.log, [], none⟩
  generalize pollTasks (spawnAll m.progs) 0 (fun _ => true) t m.inc ⟨m.nextId, m.log, [], none⟩ = R at hmov ⊢
  obtain ⟨δ, hδ, hokδ⟩ := hmov.ops
  have hok : OkOps t R.2.ops := by rw [hδ]; exact hokδ
  have hsh := shutOk_none hmov.shut
  obtain ⟨hinc, _⟩ := finish_inc m t .start (stepWith next m.timer ⟨t, false, [], []⟩).2.length m.inc true R.1 R.2
  refine ⟨?_, finish_slotinv _ _ _ _ _ _ _ _ hI.slot, ?_⟩
  · rw [finish_last]
    exact finish_wakeinv m .start _ _ _ _ _ hI.inv hw hok
  · rw [hinc]
    exact finish_restart_inc m t .start _ _ _ _ _ (fun r hr' => (hsh r hr').1) (Or.inr hI.rst)

theorem listMin_mem {l : List Nat} {x : Nat} (h : listMin l = some x) : x ∈ l := by
  induction l generalizing x with
  | nil => cases h
  | cons a r ih =>
    simp only [listMin] at h
    split at h
    · cases h; exact List.mem_cons_self
    · rename_i y hy
      cases h
      by_cases hle : a ≤ y
      · rw [Nat.min_eq_left hle]; exact List.mem_cons_self
      · rw [Nat.min_eq_right (by omega)]; exact List.mem_cons_of_mem _ (ih hy)

theorem nextEvent_kind {m : Mod} {t : Nat} {k : Kind} (h : m.nextEvent = some (t, k)) :
    (k = .wake ∧ t ∈ m.timer.wakeups) ∨ (k = .restart ∧ m.restartAt.isSome) := by
  unfold Mod.nextEvent at h
  split at h
  · rename_i w0 r hw0 hr
    split at h
    · cases h; exact Or.inl ⟨rfl, listMin_mem hw0⟩
    · cases h; exact Or.inr ⟨rfl, by rw [hr]; rfl⟩
  · rename_i w0 hw0 _
    cases h; exact Or.inl ⟨rfl, listMin_mem hw0⟩
  · rename_i r _ hr
    cases h; exact Or.inr ⟨rfl, by rw [hr]; rfl⟩
  · cases h

theorem sum_set_lt {ms : List Mod} {i : Nat} {m m' : Mod} (f : Mod → Nat) (hm : ms[i]? = some m)
    (hlt : f m' < f m) : ((ms.set i m').map f).sum < (ms.map f).sum := by
  induction ms generalizing i with
  | nil => simp at hm
  | cons a rest ih =>
    cases i with
    | zero =>
      simp only [List.getElem?_cons_zero, Option.some.injEq] at hm
      subst hm
      simp only [List.set_cons_zero, List.map_cons, List.sum_cons]
      omega
    | succ j =>
      simp only [List.getElem?_cons_succ] at hm
      have := ih hm
      simp only [List.set_cons_succ, List.map_cons, List.sum_cons]
      omega

/-- everything the termination argument needs to know about a simulation state -/
def AllInv (s : Sim) : Prop := ∀ m ∈ s.mods, MInv m

theorem eventOn_loop_step {s : Sim} (h : AllInv s) {i t : Nat} {k : Kind} (hp : pickNext s.mods 0 = some (i, t, k)) :
    AllInv (s.eventOn next i t k) ∧ (s.eventOn next i t k).fuel < s.fuel := by
  obtain ⟨_, m, hm, hmn⟩ := pickNext_spec hp
  simp only [Nat.sub_zero] at hm
  have hmem : m ∈ s.mods := List.mem_of_getElem? hm
  have hw := pickNext_le hp m hmem
  have hI := h m hmem
  have hev : mPhi (m.event next t k).1 < mPhi m ∧ MInv (m.event next t k).1 := by
    rcases nextEvent_kind hmn with ⟨rfl, hk⟩ | ⟨rfl, hk⟩
    · exact event_wake_phi m t hI hk hw
    · exact event_restart_phi m t hI hk hw
  have hmods := eventOn_mods (t := t) (k := k) hm
  constructor
  · intro x hx
    rw [hmods] at hx
    rcases List.mem_or_eq_of_mem_set hx with hx | hx
    · exact h x hx
    · subst hx; exact hev.2
  · unfold Sim.fuel
    rw [hmods]
    have := sum_set_lt mPhi hm hev.1
    omega

/-- **the event loop never runs out of the fuel computed from the state** -/
theorem loop_terminates {fuel : Nat} {s : Sim} (h : AllInv s) (hf : s.fuel ≤ fuel) :
    ∃ s', Sim.loop next fuel s = some s' := by
  induction fuel generalizing s with
  | zero => unfold Sim.fuel at hf; omega
  | succ n ih =>
    simp only [Sim.loop]
    split
    · exact ⟨s, rfl⟩
    · rename_i i t k hp
      obtain ⟨h1, h2⟩ := eventOn_loop_step h hp
      exact ih h1 (by omega)

theorem allinv_start {s : Sim} (h : AllInv s) (hs : SimInv s) (n i : Nat) :
    AllInv (Sim.forAll next s .start n i) := by
  induction n generalizing s i with
  | zero => exact h
  | succ n ih =>
    simp only [Sim.forAll]
    refine ih ?_ (siminv_eventOn hs i s.now .start hs.2) _
    intro x hx
    unfold Sim.eventOn at hx
    split at hx
    · exact h x hx
    · rename_i m hm
      have hmem : m ∈ s.mods := List.mem_of_getElem? hm
      simp only at hx
      rcases List.mem_or_eq_of_mem_set hx with hx | hx
      · exact h x hx
      · subst hx
        exact event_start_minv m s.now (h m hmem) (hs.2 m hmem)

theorem allinv_init (progs : List (List (List (Nat × Fut)))) :
    AllInv { mods := progs.map fun p => ({ progs := p } : Mod) } := by
  intro m hm
  simp only [List.mem_map] at hm
  obtain ⟨p, _, rfl⟩ := hm
  refine ⟨wakeinv_init, ?_, ?_⟩
  · intro h; exact absurd h (Nat.lt_irrefl _)
  · intro h; cases h

/-- **`Sim.run` terminates with a result for all scripts** (the driver's `kind=internal` cannot occur) -/
theorem sim_run_total (progs : List (List (List (Nat × Fut)))) : ∃ s, Sim.run next progs = some s := by
  unfold Sim.run
  simp only
  obtain ⟨s', hs'⟩ := loop_terminates (fuel := (Sim.forAll next { mods := progs.map fun p => ({ progs := p } : Mod) }
      .start (progs.map fun p => ({ progs := p } : Mod)).length 0).fuel)
    (allinv_start (allinv_init progs) (siminv_init progs) _ _) (Nat.le_refl _)
  rw [hs']
  exact ⟨_, rfl⟩

/-! ### observations: timer completions are never early -/

/-- a timer completion is not observed before its deadline -/
def LogOk (l : List Obs) : Prop := ∀ o ∈ l, ∀ d, o.due = some d → d ≤ o.time

theorem finish_log (m : Mod) (now : Nat) (k : Kind) (nwoken inc : Nat) (active : Bool) (tasks' : List Task)
    (a : Acc) : (m.finish next now k nwoken inc active tasks' a).1.log = a.log := by
  unfold Mod.finish
  simp only
  split <;> rfl

/-- a module event only appends observations made at the time of the event, none of them early -/
theorem event_log (m : Mod) (t : Nat) (k : Kind) :
    ∃ l, (m.event next t k).1.log = m.log ++ l ∧ ∀ o ∈ l, o.time = t ∧ ∀ d, o.due = some d → d ≤ t := by
  unfold Mod.event
  simp only
  rw [finish_log]
  obtain ⟨l, hl, hp⟩ := (amoves_pollTasks _ _ _ _ _ ⟨m.nextId, m.log, [], none⟩).log
  exact ⟨l, hl, fun o ho => ⟨(hp o ho).1, (hp o ho).2.2⟩⟩

theorem event_logok (m : Mod) (t : Nat) (k : Kind) (h : LogOk m.log) : LogOk (m.event next t k).1.log := by
  obtain ⟨l, hl, hp⟩ := event_log m t k
  rw [hl]
  intro o ho d hd
  rcases List.mem_append.mp ho with ho | ho
  · exact h o ho d hd
  · obtain ⟨h1, h2⟩ := hp o ho
    rw [h1]; exact h2 d hd

theorem eventOn_logok {s : Sim} (h : ∀ m ∈ s.mods, LogOk m.log) (i t : Nat) (k : Kind) :
    ∀ m ∈ (s.eventOn next i t k).mods, LogOk m.log := by
  unfold Sim.eventOn
  split
  · exact h
  · rename_i m hm
    intro x hx
    simp only at hx
    rcases List.mem_or_eq_of_mem_set hx with hx | hx
    · exact h x hx
    · subst hx; exact event_logok m t k (h m (List.mem_of_getElem? hm))

theorem forAll_logok {s : Sim} (h : ∀ m ∈ s.mods, LogOk m.log) (k : Kind) (n i : Nat) :
    ∀ m ∈ (Sim.forAll next s k n i).mods, LogOk m.log := by
  induction n generalizing s i with
  | zero => exact h
  | succ n ih => simp only [Sim.forAll]; exact ih (eventOn_logok h i s.now k) _

theorem loop_logok {fuel : Nat} {s s' : Sim} (h : ∀ m ∈ s.mods, LogOk m.log) (hr : Sim.loop next fuel s = some s') :
    ∀ m ∈ s'.mods, LogOk m.log := by
  induction fuel generalizing s with
  | zero => cases hr
  | succ n ih =>
    simp only [Sim.loop] at hr
    split at hr
    · cases hr; exact h
    · exact ih (eventOn_logok h _ _ _) hr

theorem sim_logok (progs : List (List (List (Nat × Fut)))) (s : Sim) (h : Sim.run next progs = some s) :
    ∀ m ∈ s.mods, LogOk m.log := by
  unfold Sim.run at h
  simp only at h
  split at h
  · cases h
  · rename_i s2 hl
    cases h
    refine forAll_logok (loop_logok (forAll_logok ?_ _ _ _) hl) _ _ _
    intro m hm
    simp only [List.mem_map] at hm
    obtain ⟨p, _, rfl⟩ := hm
    intro o ho; cases ho

/-! ### the clock of the scripted simulation: monotone, and at the end the latest module event -/

theorem finish_restartAt (m : Mod) (now : Nat) (k : Kind) (nwoken inc : Nat) (active : Bool) (tasks' : List Task)
    (a : Acc) {r : Nat} (h : (m.finish next now k nwoken inc active tasks' a).1.restartAt = some r) :
    a.shut = some (some r) ∨ m.restartAt = some r := by
  unfold Mod.finish at h
  simp only at h
  split at h
  · simp only [reduceCtorEq, if_false] at h; exact Or.inr h
  · split at h
    · cases h
    · exact Or.inr h
  · rename_i r' hr _
    simp only at h
    subst h
    exact Or.inl hr

theorem event_restartAt (m : Mod) (t : Nat) (k : Kind) {r : Nat}
    (h : (m.event next t k).1.restartAt = some r) : t ≤ r ∨ m.restartAt = some r := by
  unfold Mod.event at h
  simp only at h
  rcases finish_restartAt _ _ _ _ _ _ _ _ h with h | h
  · exact Or.inl (shutOk_none (amoves_pollTasks _ _ _ _ _ ⟨m.nextId, m.log, [], none⟩).shut r h).2
  · exact Or.inr h

theorem nextEvent_le_restart {m : Mod} {t : Nat} {k : Kind} (h : m.nextEvent = some (t, k)) :
    ∀ r, m.restartAt = some r → t ≤ r := by
  intro r hr
  unfold Mod.nextEvent at h
  rw [hr] at h
  split at h
  · rename_i w0 r0 _ heq
    cases heq
    split at h
    · cases h; assumption
    · cases h; exact Nat.le_refl _
  · rename_i heq; cases heq
  · rename_i r0 _ heq
    cases heq; cases h; exact Nat.le_refl _
  · cases h

theorem pickNext_le_restart {mods : List Mod} {idx i t : Nat} {k : Kind} (h : pickNext mods idx = some (i, t, k)) :
    ∀ m ∈ mods, ∀ r, m.restartAt = some r → t ≤ r := by
  induction mods generalizing idx i t k with
  | nil => intro m hm; cases hm
  | cons a rest ih =>
    simp only [pickNext] at h
    intro m hm r hr
    split at h
    · rename_i t0 k0 i' t' k' hne hrest
      have h0 := nextEvent_le_restart hne
      have hrr := ih hrest
      split at h
      · rename_i hle
        cases h
        rcases List.mem_cons.mp hm with hm | hm
        · subst hm; exact h0 r hr
        · exact Nat.le_trans hle (hrr m hm r hr)
      · rename_i hgt
        cases h
        rcases List.mem_cons.mp hm with hm | hm
        · subst hm; have := h0 r hr; omega
        · exact hrr m hm r hr
    · rename_i t0 k0 hne hrest
      cases h
      rcases List.mem_cons.mp hm with hm | hm
      · subst hm; exact nextEvent_le_restart hne r hr
      · have hq := pickNext_quiescent hrest m hm
        unfold Mod.nextEvent at hq
        rw [hr] at hq
        split at hq
        · rename_i heq; split at hq <;> cases hq
        · cases hq
        · cases hq
        · rename_i heq; cases heq
    · rename_i hne
      rcases List.mem_cons.mp hm with hm | hm
      · subst hm
        unfold Mod.nextEvent at hne
        rw [hr] at hne
        split at hne
        · split at hne <;> cases hne
        · cases hne
        · cases hne
        · rename_i heq; cases heq
      · exact ih h m hm r hr

/-- the clock is at or after every module's last event and before every pending restart, and it
    is the time of some module's last event (or still 0) -/
structure NowInv (s : Sim) : Prop where
  last_le : ∀ m ∈ s.mods, m.last ≤ s.now
  restart_ge : ∀ m ∈ s.mods, ∀ r, m.restartAt = some r → s.now ≤ r
  attained : s.now = 0 ∨ ∃ m ∈ s.mods, m.last = s.now

theorem nowinv_eventOn {s : Sim} (h : NowInv s) {i t : Nat} {k : Kind} (ht : s.now ≤ t)
    (hmin : ∀ m ∈ s.mods, ∀ r, m.restartAt = some r → t ≤ r) (hi : i < s.mods.length) :
    NowInv (s.eventOn next i t k) := by
  have hm : s.mods[i]? = some s.mods[i] := List.getElem?_eq_getElem hi
  have hmem : s.mods[i] ∈ s.mods := List.getElem_mem hi
  unfold Sim.eventOn
  rw [hm]
  simp only
  refine ⟨?_, ?_, Or.inr ⟨(s.mods[i].event next t k).1, List.mem_iff_getElem.mpr ⟨i, by simpa using hi, by simp⟩, event_last _ _ _⟩⟩
  · intro x hx
    rcases List.mem_or_eq_of_mem_set hx with hx | hx
    · exact Nat.le_trans (h.last_le x hx) ht
    · subst hx; rw [event_last]; exact Nat.le_refl _
  · intro x hx r hr
    rcases List.mem_or_eq_of_mem_set hx with hx | hx
    · exact hmin x hx r hr
    · subst hx
      rcases event_restartAt _ _ _ hr with h1 | h1
      · exact h1
      · exact hmin _ hmem r h1

/-- **the clock never goes back, and when the event loop stops it shows the time of the latest
    module event** — a quantity determined by the module states, hence independent of the order in
    which the event set delivers events of different modules -/
theorem loop_now {fuel : Nat} {s s' : Sim} (hs : SimInv s) (h : NowInv s) (hr : Sim.loop next fuel s = some s') :
    s.now ≤ s'.now ∧ NowInv s' := by
  induction fuel generalizing s with
  | zero => cases hr
  | succ n ih =>
    simp only [Sim.loop] at hr
    split at hr
    · cases hr; exact ⟨Nat.le_refl _, h⟩
    · rename_i i t k hp
      obtain ⟨_, m, hm, hmn⟩ := pickNext_spec hp
      simp only [Nat.sub_zero] at hm
      have hmem : m ∈ s.mods := List.mem_of_getElem? hm
      have hi : i < s.mods.length := (List.getElem?_eq_some_iff.mp hm).1
      have ht : s.now ≤ t := by
        rcases nextEvent_kind hmn with ⟨_, hk⟩ | ⟨_, hk⟩
        · exact hs.2 m hmem t hk
        · obtain ⟨r, hr'⟩ := Option.isSome_iff_exists.mp hk
          have h1 := h.restart_ge m hmem r hr'
          have h2 : t = r := by
            have := hmn
            unfold Mod.nextEvent at this
            rw [hr'] at this
            rename_i hkr
            subst hkr
            split at this
            · rename_i heq; cases heq
              split at this
              · cases this
              · cases this; rfl
            · rename_i heq; cases heq
            · rename_i heq; cases heq; cases this; rfl
            · cases this
          omega
      have hstep := nowinv_eventOn (k := k) h ht (pickNext_le_restart hp) hi
      have hnow : (s.eventOn next i t k).now = t := by
        unfold Sim.eventOn; rw [hm]
      obtain ⟨h1, h2⟩ := ih (siminv_eventOn hs i t k (pickNext_le hp)) hstep hr
      exact ⟨by omega, h2⟩

theorem nowinv_forAll {s : Sim} (h : NowInv s) (k : Kind) (n i : Nat) :
    NowInv (Sim.forAll next s k n i) ∧ (Sim.forAll next s k n i).now = s.now := by
  induction n generalizing s i with
  | zero => exact ⟨h, rfl⟩
  | succ n ih =>
    simp only [Sim.forAll]
    have hstep : NowInv (s.eventOn next i s.now k) := by
      by_cases hi : i < s.mods.length
      · exact nowinv_eventOn h (Nat.le_refl _) h.restart_ge hi
      · have : s.mods[i]? = none := List.getElem?_eq_none_iff.mpr (by omega)
        unfold Sim.eventOn; rw [this]; exact h
    obtain ⟨h1, h2⟩ := ih hstep (i + 1)
    exact ⟨h1, by rw [h2, eventOn_now]⟩

theorem nowinv_init (progs : List (List (List (Nat × Fut)))) :
    NowInv { mods := progs.map fun p => ({ progs := p } : Mod) } := by
  refine ⟨?_, ?_, Or.inl rfl⟩
  · intro m hm
    simp only [List.mem_map] at hm
    obtain ⟨p, _, rfl⟩ := hm
    exact Nat.le_refl _
  · intro m hm r hr
    simp only [List.mem_map] at hm
    obtain ⟨p, _, rfl⟩ := hm
    cases hr

end Timer

/-
The event loop of one module (`Exec.runSim`): the wake-up events that `deactivate()` schedules make sure that no
timer deadline is skipped, so a timer-woken task is polled at its deadline; with the repaired `exec` every event
ends with nothing runnable, hence no observation is ever late.
-/
import Desverif.Proofs.ExecPotential
namespace Exec

/-- every pending timer has a scheduled wake-up event at or before its deadline, and `next_wakeup` names a
scheduled wake-up event -/
def Sched (s : St) (wk : List Nat) (nw : Option Nat) : Prop :=
  (∀ tm ∈ s.timers, ∃ w ∈ wk, w ≤ tm.deadline) ∧ (∀ w0, nw = some w0 → w0 ∈ wk)

/-- the chosen event is not later than any scheduled wake-up, and wake-ups strictly later than it stay scheduled -/
theorem nextEvent_spec (evs evs' : List Ev) (wk wk' : List Nat) (ev : Ev)
    (h : nextEvent evs wk = some (ev, evs', wk')) :
    (∀ w ∈ wk, ev.time ≤ w) ∧ (∀ w ∈ wk, ev.time < w → w ∈ wk') := by
  unfold nextEvent at h
  cases hm : minL wk with
  | none =>
    have hw := minL_none wk hm
    subst hw
    cases evs with
    | nil => simp [hm] at h
    | cons e r =>
      simp [hm] at h
      exact ⟨fun w hw => by simp at hw, fun w hw => by simp at hw⟩
  | some m =>
    have hs := minL_spec wk m hm
    have herase : ∀ w ∈ wk, m < w → w ∈ wk.erase m := by
      intro w hw hlt
      exact (List.mem_erase_of_ne (by omega)).2 hw
    cases evs with
    | nil =>
      simp [hm] at h
      obtain ⟨h1, _, h3⟩ := h
      subst h1 h3
      exact ⟨fun w hw => hs.2 w hw, herase⟩
    | cons e r =>
      simp only [hm] at h
      split at h
      · simp only [Option.some.injEq, Prod.mk.injEq] at h
        obtain ⟨h1, _, h3⟩ := h
        subst h1 h3
        exact ⟨fun w hw => hs.2 w hw, herase⟩
      · rename_i hlt
        simp only [Option.some.injEq, Prod.mk.injEq] at h
        obtain ⟨h1, _, h3⟩ := h
        subst h1 h3
        exact ⟨fun w hw => by have := hs.2 w hw; omega, fun w hw _ => hw⟩

/-- a foreign event is an external one: the scheduled wake-ups are untouched -/
theorem nextEvent_keeps (evs evs' : List Ev) (wk wk' : List Nat) (ev : Ev)
    (h : nextEvent evs wk = some (ev, evs', wk')) (hf : ev.foreign = true) : ∀ w ∈ wk, w ∈ wk' := by
  unfold nextEvent at h
  cases hm : minL wk with
  | none =>
    cases evs with
    | nil => simp [hm] at h
    | cons e r =>
      simp [hm] at h
      obtain ⟨_, _, h3⟩ := h
      subst h3
      exact fun w hw => hw
  | some m =>
    cases evs with
    | nil =>
      simp [hm] at h
      obtain ⟨h1, _, _⟩ := h
      subst h1
      simp at hf
    | cons e r =>
      simp only [hm] at h
      split at h
      · simp only [Option.some.injEq, Prod.mk.injEq] at h
        obtain ⟨h1, _, _⟩ := h
        subst h1
        simp at hf
      · simp only [Option.some.injEq, Prod.mk.injEq] at h
        obtain ⟨_, _, h3⟩ := h
        subst h3
        exact fun w hw => hw

theorem flush_now (s : St) : (flush s).now = s.now := by
  unfold flush
  generalize s.dq.reverse = l
  have : ∀ (l : List Entry) (u : St),
      (l.foldl (fun s e => pushEntry s { e with origin := .flush }) u).now = u.now := by
    intro l
    induction l with
    | nil => intro u; rfl
    | cons a l ih =>
      intro u
      simp only [List.foldl_cons]
      rw [ih]
      exact (keeps_pushEntry u { a with origin := .flush }).2.1
  rw [this]

theorem pass_now (P : Params) (s : St) (hi : Inv s) : (pass P s).now = s.now := by
  unfold pass
  rw [flush_now]
  exact (afterRt_inv P s hi).2.2

theorem drain_now (P : Params) : ∀ (n : Nat) (s : St), Inv s → (drain P n s).now = s.now := by
  intro n
  induction n with
  | zero => intro s _; rfl
  | succ n ih =>
    intro s hi
    simp only [drain]
    split
    · rfl
    · have h0 : Inv { s with lflag := false } := inv_of_icore s _ rfl hi
      rw [ih _ (pass_inv P _ h0).1, pass_now P _ h0]

theorem turn1_now (P : Params) (h : List Instr) (s : St) (hi : Inv s) : (turn1 P h s).now = s.now := by
  unfold turn1
  have h0 : Inv { s with lflag := false } := inv_of_icore s _ rfl hi
  rw [pass_now P _ (afterHandler_inv h _ h0)]
  unfold afterHandler
  have h1 : Inv { { s with lflag := false } with phase := .handler } := inv_of_icore s _ rfl hi
  exact (runH_inv h _ h1).2

theorem exec_now (P : Params) (h : List Instr) (s : St) (hi : Inv s) : (exec P h s).now = s.now := by
  unfold exec
  simp only
  rw [drain_now P _ _ (turn1_inv P h s hi).1, turn1_now P h s hi]

theorem activate_now (t : Nat) (s : St) : (activate t s).now = t := by
  unfold activate
  generalize s.timers.filter (fun x => decide (x.deadline ≤ t)) = l
  have : ∀ (l : List Timer) (u : St), (l.foldl fire u).now = u.now := by
    intro l
    induction l with
    | nil => intro u; rfl
    | cons a l ih =>
      intro u
      simp only [List.foldl_cons]
      rw [ih]
      exact (keeps_fire u a).2.1
  rw [this]

/-- an own event of the module (repaired code) from a state in which only foreign wakes are pending, at an instant
that no pending deadline precedes: it ends with nothing runnable, no late observation, every pending timer in the
future of its instant -/
theorem handle_spec (P : Params) (hL : 1 ≤ P.L) (hE : 1 ≤ P.E) (hC : 1 ≤ P.C) (ev : Ev) (s : St)
    (hf : ev.foreign = false) (hq : Pend s) (ho : OnTime s) (hns : ∀ tm ∈ s.timers, ev.time ≤ tm.deadline) :
    Quiet (handle P false ev s) ∧ OnTime (handle P false ev s) ∧
    (∀ tm ∈ (handle P false ev s).timers, ev.time < tm.deadline) := by
  have hi := handle_inv P false ev s hf hq ho hns
  have hnow : (handle P false ev s).now = ev.time := by
    unfold handle
    simp only [hf, Bool.false_eq_true, if_false]
    have h0 := activate_inv ev.time s hq ho hns
    by_cases hc : ev.consumed = true
    · simp only [hc, if_true]
      have h1 := runH_inv ev.prog _ h0
      rw [exec_now P _ _ h1.1, h1.2, activate_now]
    · simp only [hc]
      simp only [Bool.false_eq_true, if_false]
      rw [exec_now P _ _ h0, activate_now]
  have hquiet : Quiet (handle P false ev s) := by
    unfold handle
    simp only [hf, Bool.false_eq_true, if_false]
    by_cases hc : ev.consumed = true
    · simp only [hc, if_true]
      exact exec_quiet P hL hE hC _ _
    · simp only [hc, Bool.false_eq_true, if_false]
      exact exec_quiet P hL hE hC _ _
  refine ⟨hquiet, hi.2.2.2.2.1, ?_⟩
  intro tm htm
  have := hi.2.2.2.2.2 tm htm
  rw [hnow] at this
  exact this

theorem resetWakeup_some (t : Nat) (nw : Option Nat) (w0 : Nat) (h : resetWakeup t nw = some w0) :
    nw = some w0 ∧ t < w0 := by
  unfold resetWakeup at h
  cases nw with
  | none => simp at h
  | some w =>
    simp only at h
    split at h
    · cases h
    · simp only [Option.some.injEq] at h
      subst h
      exact ⟨rfl, by omega⟩

/-- `deactivate()` re-establishes `Sched` -/
theorem deactivate_sched (s : St) (t : Nat) (wk wk' : List Nat) (nw : Option Nat)
    (hs2 : ∀ w0, nw = some w0 → w0 ∈ wk) (hsurv : ∀ w ∈ wk, t < w → w ∈ wk') :
    Sched s (wk' ++ (deactivate s (resetWakeup t nw)).2.toList) (deactivate s (resetWakeup t nw)).1 := by
  have hkeep : ∀ w0, resetWakeup t nw = some w0 → w0 ∈ wk' := by
    intro w0 h
    have := resetWakeup_some t nw w0 h
    exact hsurv w0 (hs2 w0 this.1) this.2
  unfold deactivate
  cases hm : minL (s.timers.map (·.deadline)) with
  | none =>
    have hnil := minL_none _ hm
    have ht : s.timers = [] := by simpa using hnil
    simp only
    refine ⟨fun tm htm => by rw [ht] at htm; simp at htm, fun w0 h => ?_⟩
    simp only [Option.toList, List.append_nil]
    exact hkeep w0 h
  | some d =>
    have hd := minL_spec _ d hm
    have hle : ∀ tm ∈ s.timers, d ≤ tm.deadline := fun tm htm =>
      hd.2 tm.deadline (List.mem_map.2 ⟨tm, htm, rfl⟩)
    have hnew : Sched s (wk' ++ (some d : Option Nat).toList) (some d) := by
      refine ⟨fun tm htm => ⟨d, by simp [Option.toList], hle tm htm⟩, fun w0 h => ?_⟩
      simp only [Option.some.injEq] at h
      subst h
      simp [Option.toList]
    simp only
    cases hr : resetWakeup t nw with
    | none => exact hnew
    | some w =>
      simp only
      split
      · exact hnew
      · rename_i hnlt
        simp only [Option.toList, List.append_nil]
        have hw : w ∈ wk' := hkeep w hr
        exact ⟨fun tm htm => ⟨w, hw, by have := hle tm htm; omega⟩,
          fun w0 h => by simp only [Option.some.injEq] at h; subst h; exact hw⟩

/-- the whole run of a module (repaired code), interleaved with events of other modules that wake its tasks: every
own event ends with nothing runnable, between own events only foreign wakes are pending, and no task - woken by
a task, by the handler, by a consuming element or by a timer - ever observes a time later than the instant at
which its awaited condition became true (tasks woken by another module's event continue at the module's next own
event) -/
theorem runSim_onTime (P : Params) (hL : 1 ≤ P.L) (hE : 1 ≤ P.E) (hC : 1 ≤ P.C) :
    ∀ (n : Nat) (evs : List Ev) (wk : List Nat) (nw : Option Nat) (s : St),
      Pend s → OnTime s → Sched s wk nw →
      OnTime (runSim P false n evs wk nw s) ∧ Pend (runSim P false n evs wk nw s) := by
  intro n
  induction n with
  | zero => intro evs wk nw s hq ho _; exact ⟨ho, hq⟩
  | succ n ih =>
    intro evs wk nw s hq ho hs
    simp only [runSim]
    cases hne : nextEvent evs wk with
    | none => exact ⟨ho, hq⟩
    | some x =>
      obtain ⟨ev, evs', wk'⟩ := x
      simp only
      have hspec := nextEvent_spec evs evs' wk wk' ev hne
      cases hf : ev.foreign with
      | true =>
        simp only [if_true]
        have hh := handle_foreign P false ev s hf hq ho
        refine ih _ _ _ _ hh.1 hh.2.1 ⟨fun tm htm => ?_, fun w0 h => ?_⟩
        · rw [hh.2.2] at htm
          obtain ⟨w, hw, hle⟩ := hs.1 tm htm
          have hge := hspec.1 w hw
          rcases Nat.lt_or_ge ev.time w with hlt | hge'
          · exact ⟨w, hspec.2 w hw hlt, hle⟩
          · -- the wake-up event of this very instant is still scheduled: an external event never removes it
            exact ⟨w, nextEvent_keeps evs evs' wk wk' ev hne hf w hw, hle⟩
        · exact nextEvent_keeps evs evs' wk wk' ev hne hf w0 (hs.2 w0 h)
      | false =>
        simp only [Bool.false_eq_true, if_false]
        have hns : ∀ tm ∈ s.timers, ev.time ≤ tm.deadline := by
          intro tm htm
          obtain ⟨w, hw, hle⟩ := hs.1 tm htm
          have := hspec.1 w hw
          omega
        have hh := handle_spec P hL hE hC ev s hf hq ho hns
        exact ih _ _ _ _ (pend_of_quiet _ hh.1) hh.2.1 (deactivate_sched _ ev.time wk wk' nw hs.2 hspec.2)

end Exec

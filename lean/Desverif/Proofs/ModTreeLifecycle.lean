/-
The start-up loop `startCalls` (stage-major) and the tear-down loop, for an arbitrary module vector.
-/
import Desverif.Model.ModTree
import Desverif.Spec.Preorder
namespace ModTree

/-- `fold(1, max)` dominates its start value and every element -/
theorem foldl_max_ge {β : Type} (g : β → Nat) (l : List β) (a : Nat) :
    a ≤ l.foldl (fun a d => max a (g d)) a ∧ ∀ d ∈ l, g d ≤ l.foldl (fun a d => max a (g d)) a := by
  induction l generalizing a with
  | nil => simp
  | cons x xs ih =>
    simp only [List.foldl_cons, List.mem_cons, forall_eq_or_imp]
    have h := ih (max a (g x))
    refine ⟨by omega, by omega, fun d hd => h.2 d hd⟩

/-- … and is attained -/
theorem foldl_max_attained {β : Type} (g : β → Nat) (l : List β) (a : Nat) :
    l.foldl (fun a d => max a (g d)) a = a ∨ ∃ d ∈ l, l.foldl (fun a d => max a (g d)) a = g d := by
  induction l generalizing a with
  | nil => simp
  | cons x xs ih =>
    simp only [List.foldl_cons, List.mem_cons, exists_eq_or_imp]
    rcases ih (max a (g x)) with h | ⟨d, hd, h⟩
    · rw [h]
      by_cases hle : g x ≤ a
      · left; omega
      · right; left; omega
    · right; right; exact ⟨d, hd, h⟩

theorem foldl_max_perm {β : Type} (g : β → Nat) {l l' : List β} (h : l.Perm l') (a : Nat) :
    l.foldl (fun a d => max a (g d)) a = l'.foldl (fun a d => max a (g d)) a := by
  have h1 := foldl_max_ge g l a
  have h2 := foldl_max_ge g l' a
  apply Nat.le_antisymm
  · rcases foldl_max_attained g l a with e | ⟨d, hd, e⟩
    · rw [e]; exact h2.1
    · rw [e]; exact h2.2 d (h.mem_iff.mp hd)
  · rcases foldl_max_attained g l' a with e | ⟨d, hd, e⟩
    · rw [e]; exact h1.1
    · rw [e]; exact h1.2 d (h.mem_iff.mpr hd)

theorem stages_le_maxStage {ms : List Mod} {m : Mod} (h : m ∈ ms) : m.stages ≤ maxStage ms :=
  (foldl_max_ge (fun m : Mod => m.stages) ms 1).2 m h

theorem stageCalls_snd (ms : List Mod) (s : Nat) : ∀ c ∈ stageCalls ms s, c.2 = s := by
  intro c hc
  simp only [stageCalls, List.mem_map] at hc
  obtain ⟨m, _, rfl⟩ := hc
  rfl

theorem stageCalls_beyond (ms : List Mod) (s : Nat) (h : maxStage ms ≤ s) : stageCalls ms s = [] := by
  simp only [stageCalls, List.map_eq_nil_iff, List.filter_eq_nil_iff, decide_eq_true_eq]
  intro m hm
  have := stages_le_maxStage hm
  omega

/-- generic: selecting one stage out of a stage-major concatenation -/
theorem filter_flatMap_range {β : Type} (f : Nat → List (β × Nat)) (hf : ∀ i, ∀ c ∈ f i, c.2 = i)
    (s : Nat) : ∀ N, ((List.range N).flatMap f).filter (fun c => c.2 == s) = if s < N then f s else []
  | 0 => by simp
  | N + 1 => by
    rw [List.range_succ, List.flatMap_append, List.filter_append, filter_flatMap_range f hf s N]
    simp only [List.flatMap_cons, List.flatMap_nil, List.append_nil]
    by_cases hN : s = N
    · subst hN
      have : (f s).filter (fun c => c.2 == s) = f s := by
        apply List.filter_eq_self.mpr
        intro c hc
        simp [hf s c hc]
      simp [this]
    · have : (f N).filter (fun c => c.2 == s) = [] := by
        apply List.filter_eq_nil_iff.mpr
        intro c hc
        simp [hf N c hc]
        omega
      rw [this]
      by_cases h1 : s < N
      · simp [h1, Nat.lt_succ_of_lt h1]
      · have : ¬ s < N + 1 := by omega
        simp [h1, this]

theorem pairwise_flatMap_range {β : Type} (f : Nat → List (β × Nat)) (hf : ∀ i, ∀ c ∈ f i, c.2 = i) :
    ∀ N, (((List.range N).flatMap f).map (·.2)).Pairwise (· ≤ ·)
  | 0 => by simp
  | N + 1 => by
    rw [List.range_succ, List.flatMap_append, List.map_append, List.pairwise_append]
    refine ⟨pairwise_flatMap_range f hf N, ?_, ?_⟩
    · simp only [List.flatMap_cons, List.flatMap_nil, List.append_nil]
      rw [List.pairwise_map]
      apply List.Pairwise.imp_of_mem (R := fun _ _ => True)
      · intro a b ha hb _
        rw [hf N a ha, hf N b hb]
        exact Nat.le_refl _
      · exact List.pairwise_of_forall (fun _ _ => trivial)
    · intro a ha b hb
      simp only [List.mem_map, List.mem_flatMap, List.mem_range] at ha
      obtain ⟨c, ⟨i, hi, hc⟩, rfl⟩ := ha
      simp only [List.flatMap_cons, List.flatMap_nil, List.append_nil, List.mem_map] at hb
      obtain ⟨c', hc', rfl⟩ := hb
      rw [hf i c hc, hf N c' hc']
      omega

/-- the calls of stage `s` are exactly the inner loop for `s`: vector order, filtered by declared stages -/
theorem startCalls_filter (ms : List Mod) (s : Nat) :
    (startCalls ms).filter (fun c => c.2 == s) = stageCalls ms s := by
  unfold startCalls
  rw [filter_flatMap_range (stageCalls ms) (stageCalls_snd ms) s]
  split
  · rfl
  · exact (stageCalls_beyond ms s (by omega)).symm

theorem startCalls_sorted (ms : List Mod) : ((startCalls ms).map (·.2)).Pairwise (· ≤ ·) :=
  pairwise_flatMap_range (stageCalls ms) (stageCalls_snd ms) _

theorem count_map_pair (l : List Mod) (m : Mod) (s : Nat) :
    (l.map (fun m => (m, s))).count (m, s) = l.count m := by
  induction l with
  | nil => simp
  | cons x xs ih =>
    simp only [List.map_cons, List.count_cons, ih]
    by_cases hxm : x = m
    · subst hxm; simp
    · simp [hxm]

theorem count_stageCalls (ms : List Mod) (m : Mod) (s : Nat) :
    (stageCalls ms s).count (m, s) = if s < m.stages then ms.count m else 0 := by
  unfold stageCalls
  rw [count_map_pair]
  by_cases h : s < m.stages
  · rw [if_pos h]
    exact List.count_filter (by simp [h])
  · rw [if_neg h]
    apply List.count_eq_zero_of_not_mem
    simp [h]

/-- how often `(m, s)` is called at start-up -/
theorem count_startCalls (ms : List Mod) (m : Mod) (s : Nat) :
    (startCalls ms).count (m, s) = if s < m.stages then ms.count m else 0 := by
  have h1 : (startCalls ms).count (m, s) = ((startCalls ms).filter (fun c => c.2 == s)).count (m, s) := by
    rw [List.count_filter]
    simp
  rw [h1, startCalls_filter, count_stageCalls]

/-! ### errors returned by `at_sim_end` callbacks -/

theorem count_range_pair (x m : Mod) (k i : Nat) :
    ((List.range k).map (fun j => (x, j))).count (m, i) = if x = m ∧ i < k then 1 else 0 := by
  induction k with
  | zero => simp
  | succ k ih =>
    rw [List.range_succ, List.map_append, List.count_append, ih]
    simp only [List.map_cons, List.map_nil, List.count_cons, List.count_nil, beq_iff_eq,
      Prod.mk.injEq, Nat.zero_add]
    by_cases hx : x = m
    · by_cases h1 : i < k
      · have : ¬ k = i := by omega
        have h2 : i < k + 1 := by omega
        simp [hx, h1, this, h2]
      · by_cases h3 : k = i
        · subst h3; simp [hx]
        · have : ¬ i < k + 1 := by omega
          simp [hx, h1, h3, this]
    · simp [hx]

/-- every error of every module is reported exactly once (as often as the module is in the vector) -/
theorem count_endErrors (fails : Mod → Nat) (ms : List Mod) (m : Mod) (i : Nat) :
    (endErrors fails ms).count (m, i) = if i < fails m then ms.count m else 0 := by
  unfold endErrors
  induction ms with
  | nil => simp
  | cons x xs ih =>
    rw [List.flatMap_cons, List.count_append, ih, count_range_pair, List.count_cons]
    by_cases hx : x = m
    · subst hx
      by_cases hi : i < fails x
      · simp [hi]; omega
      · simp [hi]
    · simp [hx]

/-- the errors come module by module in vector order -/
theorem endErrors_modules (fails : Mod → Nat) (ms : List Mod) :
    (endErrors fails ms).map (·.1) = ms.flatMap (fun m => List.replicate (fails m) m) := by
  unfold endErrors
  induction ms with
  | nil => rfl
  | cons x xs ih =>
    simp only [List.flatMap_cons, List.map_append, ih]
    congr 1
    generalize fails x = k
    induction k with
    | zero => rfl
    | succ k ihk =>
      rw [List.range_succ, List.map_append, List.map_append, ihk, List.replicate_succ']
      rfl

theorem endOk_iff (fails : Mod → Nat) (ms : List Mod) :
    endOk fails ms = true ↔ ∀ m ∈ ms, fails m = 0 := by
  unfold endOk endErrors
  simp only [List.isEmpty_iff, List.flatMap_eq_nil_iff, List.map_eq_nil_iff]
  constructor
  · intro h m hm
    have := h m hm
    cases hk : fails m with
    | zero => rfl
    | succ k => rw [hk, List.range_succ] at this; simp at this
  · intro h m hm
    rw [h m hm]; rfl

end ModTree

/-
Every `connect` preserves the representation invariant `R` (Proofs/GateInv.lean): either it
changes nothing, or it links two path ends exactly as the abstract `Paths.link` says.
-/
import Desverif.Proofs.GateInv
namespace Gate

theorem find_path (a : Nat) : ∀ (L : List (List Nat)), L.flatten.Nodup → ∀ p ∈ L, a ∈ p →
    L.find? (fun q => q.contains a) = some p := by
  intro L
  induction L with
  | nil => intro _ p hp; simp at hp
  | cons q L ih =>
    intro hnd p hp ha
    rw [List.flatten_cons, List.nodup_append] at hnd
    obtain ⟨_, hndL, hdis⟩ := hnd
    by_cases hq : a ∈ q
    · have hpq : p = q := by
        rcases List.mem_cons.mp hp with h | h
        · exact h
        · exact absurd rfl (hdis a hq a (List.mem_flatten.mpr ⟨p, h, ha⟩))
      subst hpq
      simp [List.find?, hq]
    · have hne : p ≠ q := fun e => hq (e ▸ ha)
      have hpL : p ∈ L := by
        rcases List.mem_cons.mp hp with h | h
        · exact absurd h hne
        · exact h
      have hc : q.contains a = false := by simpa using hq
      rw [List.find?_cons]
      simp only [hc]
      exact ih hndL p hpL ha

theorem ending_orient (net : Net) (g : Nat) (hops : List Conn) (h : PathOK net g hops) (a : Nat)
    (ha : a = g ∨ a = lastGate g hops) :
    ∃ g1 h1, PathOK net g1 h1 ∧ lastGate g1 h1 = a ∧
      Paths.endingAt (gatesOf g hops) a = some (gatesOf g1 h1) ∧
      (gatesOf g1 h1).Perm (gatesOf g hops) := by
  by_cases hl : a = lastGate g hops
  · refine ⟨g, hops, h, hl.symm, ?_, List.Perm.refl _⟩
    simp [Paths.endingAt, getLast?_gatesOf, hl]
  · have hag : a = g := by rcases ha with h | h; exact h; exact absurd h hl
    obtain ⟨ok, hlast, hgates⟩ := pathOK_mirror net g hops h
    refine ⟨_, _, ok, by rw [hlast, hag], ?_, by rw [hgates]; exact List.reverse_perm _⟩
    have hne : ¬ (lastGate g hops = a) := fun e => hl e.symm
    simp [Paths.endingAt, getLast?_gatesOf, hne, hgates]
    simp [gatesOf, hag]

theorem starting_orient (net : Net) (g : Nat) (hops : List Conn) (h : PathOK net g hops) (b : Nat)
    (hb : b = g ∨ b = lastGate g hops) :
    ∃ h2, PathOK net b h2 ∧ Paths.startingAt (gatesOf g hops) b = some (gatesOf b h2) ∧
      (gatesOf b h2).Perm (gatesOf g hops) := by
  by_cases hg : b = g
  · subst hg
    exact ⟨hops, h, by simp [Paths.startingAt, gatesOf], List.Perm.refl _⟩
  · have hbl : b = lastGate g hops := by rcases hb with h | h; exact absurd h hg; exact h
    obtain ⟨ok, _, hgates⟩ := pathOK_mirror net g hops h
    rw [← hbl] at ok hgates
    refine ⟨_, ok, ?_, by rw [hgates]; exact List.reverse_perm _⟩
    have hne : ¬ (g = b) := fun e => hg e.symm
    have e1 : (gatesOf g hops).head? = some g := rfl
    have e2 := getLast?_gatesOf g hops
    unfold Paths.startingAt
    rw [e1, e2, if_neg (by simpa using hne), if_pos (by rw [hbl]), hgates]

/-- state of the only link slot of the last gate of a complete chain -/
theorem pathOK_last_slots (net : Net) (g : Nat) (hops : List Conn) (h : PathOK net g hops) :
    (net (lastGate g hops)).s1 = none ∧ (net (lastGate g hops)).s0.isSome = !hops.isEmpty := by
  obtain ⟨h1, h2, h3⟩ := h
  cases hops with
  | nil => simp [lastGate] at h3 ⊢; exact ⟨h1, by simp [h3]⟩
  | cons k rest =>
    have := seg_last_slot net (k :: rest) g true false h2 (by simp)
    simp at h3 this ⊢
    exact ⟨h3, this⟩

theorem pathOK_first_slots (net : Net) (g : Nat) (hops : List Conn) (h : PathOK net g hops) :
    (net g).s1 = none ∧ (net g).s0.isSome = !hops.isEmpty := by
  obtain ⟨h1, h2, h3⟩ := h
  cases hops with
  | nil => simp [lastGate] at h3 ⊢; exact ⟨h1, by simp [h3]⟩
  | cons k rest =>
    obtain ⟨h4, _, _⟩ := h2
    simp at h4 ⊢
    exact ⟨h1, by simp [h4]⟩

theorem nodup_first_ne_last (g : Nat) (hops : List Conn) (hnd : (gatesOf g hops).Nodup)
    (hne : hops ≠ []) : g ≠ lastGate g hops := by
  have hm := lastGate_mem_hops g hops hne
  simp only [gatesOf, List.nodup_cons] at hnd
  intro e
  exact hnd.1 (e ▸ hm)

theorem connect_R (n : Nat) (net net' : Net) (sp : Paths.State) (a b : Nat) (ch : Option Nat)
    (hR : R n net sp) (ha : a < n) (hb : b < n) (h : connect net a b ch = .ok net') :
    net' = net ∨ ∃ sp', Paths.link sp a b = some sp' ∧ R n net' sp' := by
  have hmono := connect_mono net net' a b ch h
  rcases connect_cases net net' a b ch h with hsame | ⟨hab, _, hla, hlb, sa, sb, e1, e2, hnet⟩
  · left; exact hsame
  right
  have hna : net' a = sa := by subst hnet; simp [Net.set, hab]
  have hnb : net' b = sb := by subst hnet; simp [Net.set]
  have hframe : ∀ x, x ≠ a → x ≠ b → net' x = net x := by
    intro x hxa hxb; subst hnet; simp [Net.set, hxa, hxb]
  have hnd : (sp.paths.flatten ++ sp.closed).Nodup := hR.perm.nodup_iff.mpr List.nodup_range
  have locate : ∀ x, x < n → (net x).len < 2 → ∃ p ∈ sp.paths, x ∈ p := by
    intro x hx hl
    have : x ∈ sp.paths.flatten ++ sp.closed := hR.perm.mem_iff.mpr (List.mem_range.mpr hx)
    rcases List.mem_append.mp this with h | h
    · obtain ⟨p, hp, hxp⟩ := List.mem_flatten.mp h; exact ⟨p, hp, hxp⟩
    · have := len_full _ (hR.rings x h); omega
  obtain ⟨pa, hpa, hapa⟩ := locate a ha hla
  obtain ⟨pb, hpb, hbpb⟩ := locate b hb hlb
  have hndp : sp.paths.flatten.Nodup := (List.nodup_append.mp hnd).1
  have hfa : Paths.pathOf sp a = some pa := find_path a _ hndp pa hpa hapa
  have hfb : Paths.pathOf sp b = some pb := find_path b _ hndp pb hpb hbpb
  obtain ⟨ga, hopsa, hpaeq, hoka⟩ := hR.paths pa hpa
  obtain ⟨gb, hopsb, hpbeq, hokb⟩ := hR.paths pb hpb
  have hea := pathOK_free_end net ga hopsa hoka a (hpaeq ▸ hapa) hla
  have heb := pathOK_free_end net gb hopsb hokb b (hpbeq ▸ hbpb) hlb
  by_cases hsame : pa = pb
  · -- the two ends of one path: it becomes a ring
    subst hsame
    have hP : sp.paths.Perm (pa :: sp.paths.erase pa) := List.perm_cons_erase hpa
    have eF : (sp.paths.flatten ++ sp.closed).Perm (pa ++ ((sp.paths.erase pa).flatten ++ sp.closed)) := by
      have := (List.Perm.flatten hP).append_right sp.closed
      simpa [List.append_assoc] using this
    have hF := eF.nodup_iff.mp hnd
    obtain ⟨hndpa, _, hdis⟩ := List.nodup_append.mp hF
    have hne : hopsa ≠ [] := by
      intro e; subst e
      simp [lastGate] at hea
      have : b = ga := by
        rw [hpaeq] at hbpb; simpa [gatesOf] using hbpb
      exact hab (hea.trans this.symm)
    have hfl := nodup_first_ne_last ga hopsa (hpaeq ▸ hndpa) hne
    have hends : (a = ga ∧ b = lastGate ga hopsa) ∨ (a = lastGate ga hopsa ∧ b = ga) := by
      have hb' := pathOK_free_end net ga hopsa hoka b (hpaeq ▸ hbpb) hlb
      rcases hea with h1 | h1 <;> rcases hb' with h2 | h2
      · exact absurd (h1.trans h2.symm) hab
      · exact Or.inl ⟨h1, h2⟩
      · exact Or.inr ⟨h1, h2⟩
      · exact absurd (h1.trans h2.symm) hab
    refine ⟨⟨sp.paths.erase pa, pa :: sp.rings⟩, ?_, ?_⟩
    · simp only [Paths.link, hfa, hfb, if_true]
      have h1 : pa.head? = some ga := by rw [hpaeq]; rfl
      have h2 : pa.getLast? = some (lastGate ga hopsa) := by rw [hpaeq]; exact getLast?_gatesOf _ _
      rw [if_pos]
      refine ⟨hab, ?_⟩
      rw [h1, h2]
      rcases hends with ⟨x, y⟩ | ⟨x, y⟩
      · left; exact ⟨by rw [x], by rw [y]⟩
      · right; exact ⟨by rw [y], by rw [x]⟩
    · -- both ends are now full
      have hfirst := pathOK_first_slots net ga hopsa hoka
      have hlast := pathOK_last_slots net ga hopsa hoka
      have hise : hopsa.isEmpty = false := by cases hopsa with | nil => exact absurd rfl hne | cons _ _ => rfl
      rw [hise] at hfirst hlast
      have hfull_put : ∀ (x : Nat) (c : Conn) (s' : Slots), (net x).s1 = none → (net x).s0.isSome = true →
          (net x).put c = some s' → s'.s0.isSome ∧ s'.s1.isSome := by
        intro x c s' h1 h0 hp
        obtain ⟨s'', e, _, _, _, _, hf⟩ := put_end (net x) h1 c
        rw [hp] at e; cases e
        exact hf h0
      have hfa' : (net' a).s0.isSome ∧ (net' a).s1.isSome := by
        rw [hna]
        rcases hends with ⟨x, _⟩ | ⟨x, _⟩
        · exact hfull_put a _ sa (x ▸ hfirst.1) (x ▸ hfirst.2) e1
        · exact hfull_put a _ sa (x ▸ hlast.1) (x ▸ hlast.2) e1
      have hfb' : (net' b).s0.isSome ∧ (net' b).s1.isSome := by
        rw [hnb]
        rcases hends with ⟨_, y⟩ | ⟨_, y⟩
        · exact hfull_put b _ sb (y ▸ hlast.1) (y ▸ hlast.2) e2
        · exact hfull_put b _ sb (y ▸ hfirst.1) (y ▸ hfirst.2) e2
      refine ⟨?_, ?_, ?_⟩
      · intro p hp
        have hpm : p ∈ sp.paths := List.mem_of_mem_erase hp
        obtain ⟨g, hops, hpe, ok⟩ := hR.paths p hpm
        refine ⟨g, hops, hpe, ?_⟩
        have hout : ∀ x ∈ p, x ≠ a ∧ x ≠ b := by
          intro x hx
          have hxf : x ∈ (sp.paths.erase pa).flatten ++ sp.closed :=
            List.mem_append_left _ (List.mem_flatten.mpr ⟨p, hp, hx⟩)
          exact ⟨fun e => hdis a hapa x hxf e.symm, fun e => hdis b hbpb x hxf e.symm⟩
        have hg := hout g (hpe ▸ List.mem_cons_self)
        have hl := hout (lastGate g hops) (hpe ▸ lastGate_mem g hops)
        refine ⟨?_, seg_mono net net' hmono _ _ _ _ ok.2.1, ?_⟩
        · rw [hframe g hg.1 hg.2]; exact ok.1
        · rw [hframe _ hl.1 hl.2]; exact ok.2.2
      · intro x hx
        simp only [Paths.State.closed, List.flatten_cons, List.mem_append] at hx
        rcases hx with hx | hx
        · rw [hpaeq] at hx
          · by_cases hxa : x = a
            · rw [hxa]; exact hfa'
            · by_cases hxb : x = b
              · rw [hxb]; exact hfb'
              · apply full_mono net net' hmono
                simp only [gatesOf, List.mem_cons] at hx
                rcases hx with hx | hx
                · rcases hends with ⟨u, _⟩ | ⟨_, v⟩
                  · exact absurd (hx.trans u.symm) hxa
                  · exact absurd (hx.trans v.symm) hxb
                · apply seg_inner_full net hopsa ga true _ x hoka.2.1 hx
                  rcases hends with ⟨_, v⟩ | ⟨u, _⟩
                  · exact fun e => hxb (e.trans v.symm)
                  · exact fun e => hxa (e.trans u.symm)
        · exact full_mono net net' hmono x (hR.rings x hx)
      · have : ((sp.paths.erase pa).flatten ++ (pa ++ sp.closed)).Perm (pa ++ ((sp.paths.erase pa).flatten ++ sp.closed)) := by
          rw [← List.append_assoc, ← List.append_assoc]
          exact List.Perm.append_right _ List.perm_append_comm
        simp only [Paths.State.closed, List.flatten_cons]
        exact (this.trans eF.symm).trans hR.perm
  · -- two different paths are joined
    have hpba : pb ∈ sp.paths.erase pa := (List.mem_erase_of_ne (fun e => hsame e.symm)).mpr hpb
    have hP : sp.paths.Perm (pa :: pb :: (sp.paths.erase pa).erase pb) :=
      (List.perm_cons_erase hpa).trans (List.Perm.cons _ (List.perm_cons_erase hpba))
    have eF : (sp.paths.flatten ++ sp.closed).Perm
        (pa ++ (pb ++ (((sp.paths.erase pa).erase pb).flatten ++ sp.closed))) := by
      have := (List.Perm.flatten hP).append_right sp.closed
      simpa [List.append_assoc] using this
    have hF := eF.nodup_iff.mp hnd
    obtain ⟨hndpa, hF2, hdisa⟩ := List.nodup_append.mp hF
    obtain ⟨hndpb, _, hdisb⟩ := List.nodup_append.mp hF2
    obtain ⟨g1, h1, ok1, hl1, hend, hperm1⟩ := ending_orient net ga hopsa hoka a hea
    obtain ⟨h2, ok2, hstart, hperm2⟩ := starting_orient net gb hopsb hokb b heb
    rw [← hpaeq] at hend hperm1
    rw [← hpbeq] at hstart hperm2
    -- the free slots at `a` and `b`
    have hsa := pathOK_last_slots net g1 h1 ok1
    rw [hl1] at hsa
    have hsb := pathOK_first_slots net b h2 ok2
    obtain ⟨sa', ea, hdeca, hgeta, _, hnonea, _⟩ := put_end (net a) hsa.1 ⟨b, decide ((net b).len = 1), ch⟩
    rw [e1] at ea; cases ea
    obtain ⟨sb', eb, hdecb, hgetb, _, hnoneb, _⟩ := put_end (net b) hsb.1 ⟨a, decide ((net a).len = 1), ch⟩
    rw [e2] at eb; cases eb
    rw [hsa.2] at hgeta hdeca
    rw [hsb.2] at hgetb hdecb
    rw [hdecb] at hgeta
    rw [hdeca] at hgetb
    -- membership / disjointness
    have hm1 : ∀ x ∈ gatesOf g1 h1, x ∈ pa := fun x hx => hperm1.mem_iff.mp hx
    have hm2 : ∀ x ∈ gatesOf b h2, x ∈ pb := fun x hx => hperm2.mem_iff.mp hx
    have hab12 : ∀ x ∈ pa, ∀ y ∈ pb, x ≠ y := fun x hx y hy => hdisa x hx y (List.mem_append_left _ hy)
    have hg1b : g1 ≠ b := hab12 g1 (hm1 _ List.mem_cons_self) b hbpb
    have hg1a : h1 ≠ [] → g1 ≠ a := fun hne =>
      hl1 ▸ nodup_first_ne_last g1 h1 (hperm1.nodup_iff.mpr hndpa) hne
    have hl2a : lastGate b h2 ≠ a := fun e => hab12 a hapa _ (hm2 _ (lastGate_mem b h2)) e.symm
    have hl2b : h2 ≠ [] → lastGate b h2 ≠ b := fun hne e =>
      nodup_first_ne_last b h2 (hperm2.nodup_iff.mpr hndpb) hne e.symm
    let ka : Conn := ⟨b, !h2.isEmpty, ch⟩
    refine ⟨⟨(gatesOf g1 h1 ++ gatesOf b h2) :: (sp.paths.erase pa).erase pb, sp.rings⟩, ?_, ?_, ?_, ?_⟩
    · simp only [Paths.link, hfa, hfb, hsame, if_false, hend, hstart]
    · intro p hp
      rcases List.mem_cons.mp hp with hp | hp
      · subst hp
        refine ⟨g1, h1 ++ ka :: h2, ?_, ?_, ?_, ?_⟩
        · simp [gatesOf, ka]
        · -- nothing behind the first gate
          cases h1 with
          | nil =>
            simp only [lastGate] at hl1
            subst hl1
            rw [hna]
            exact hnonea (by simpa using hsa.2)
          | cons k r =>
            rw [hframe g1 (hg1a (by simp)) hg1b]; exact ok1.1
        · have hemp : (h1 ++ ka :: h2).isEmpty = false := by cases h1 <;> rfl
          rw [hemp]
          apply seg_append net' h1 g1 true h1.isEmpty (ka :: h2) false
            (seg_mono net net' hmono _ _ _ _ ok1.2.1)
          rw [hl1]
          refine ⟨?_, ?_, ?_⟩
          · rw [hna]; exact hgeta
          · show (net' b).get (!h2.isEmpty) = some ⟨a, !h1.isEmpty, ch⟩
            rw [hnb]; exact hgetb
          · show Seg net' b (!h2.isEmpty) h2 false
            cases h2 with
            | nil => rfl
            | cons k r => exact seg_mono net net' hmono _ _ _ _ ok2.2.1
        · have hemp : (h1 ++ ka :: h2).isEmpty = false := by cases h1 <;> rfl
          rw [hemp, lastGate_append]
          show (net' (lastGate b h2)).get (!false) = none
          cases h2 with
          | nil =>
            simp only [lastGate]
            rw [hnb]
            exact hnoneb (by simpa using hsb.2)
          | cons k r =>
            rw [hframe _ hl2a (hl2b (by simp))]
            exact ok2.2.2
      · have hpm : p ∈ sp.paths := List.mem_of_mem_erase (List.mem_of_mem_erase hp)
        obtain ⟨g, hops, hpe, ok⟩ := hR.paths p hpm
        refine ⟨g, hops, hpe, ?_⟩
        have hout : ∀ x ∈ p, x ≠ a ∧ x ≠ b := by
          intro x hx
          have hxf : x ∈ ((sp.paths.erase pa).erase pb).flatten ++ sp.closed :=
            List.mem_append_left _ (List.mem_flatten.mpr ⟨p, hp, hx⟩)
          exact ⟨fun e => hdisa a hapa x (List.mem_append_right _ hxf) e.symm,
            fun e => hdisb b hbpb x hxf e.symm⟩
        have hg := hout g (hpe ▸ List.mem_cons_self)
        have hl := hout (lastGate g hops) (hpe ▸ lastGate_mem g hops)
        refine ⟨?_, seg_mono net net' hmono _ _ _ _ ok.2.1, ?_⟩
        · rw [hframe g hg.1 hg.2]; exact ok.1
        · rw [hframe _ hl.1 hl.2]; exact ok.2.2
    · intro x hx
      exact full_mono net net' hmono x (hR.rings x hx)
    · have e3 : (((gatesOf g1 h1 ++ gatesOf b h2) :: (sp.paths.erase pa).erase pb).flatten ++ sp.closed).Perm
          (pa ++ (pb ++ (((sp.paths.erase pa).erase pb).flatten ++ sp.closed))) := by
        simp only [List.flatten_cons, List.append_assoc]
        exact hperm1.append (hperm2.append (List.Perm.refl _))
      exact (e3.trans eF.symm).trans hR.perm

end Gate

/-
C20: nothing below a gate has a destructor that removes handles.  The nodes `below` (gates, channels,
probes, buffer entries, messages, bodies, connections) are closed under strong edges in every graph
`mkEdges d` (also for the code before the repair), none of them is a module context, and no removable
timer entry is registered through one of them.  Hence the handles that `dissolve_paths` releases while
it is still running can only trigger plain frees (decrement, free, release the fields) — never a
second `dissolve_paths` and never an entry removal.
-/
import Desverif.Proofs.OwnGraph
namespace Own

def below : NId → Bool
  | .gate _ | .chan .. | .probe .. | .bufEntry .. | .msg _ | .body _ | .conn _ => true
  | _ => false

def belowOk (e : Edge NId) : Bool :=
  (!below e.src || below e.tgt) &&
  (match e.via with
   | .entry h => !below h
   | _ => true)

theorem below_msgEdges (l : Loc) (m : MsgD) : (msgEdges l m).all belowOk = true := by
  unfold msgEdges
  cases m.body <;> cases m.lastGate <;> simp [belowOk, below, fld]

theorem below_evEdges (l : Loc) (e : EvD) : (evEdges l e).all belowOk = true := by
  cases e with
  | handle m msg => simp [evEdges, modRefEdges, below_msgEdges]; simp [belowOk, below, fld]
  | exiting g ch msg => cases ch <;> simp [evEdges, below_msgEdges] <;> simp [belowOk, below, fld]
  | unbusy c f => simp [evEdges, belowOk, below, fld]
  | restart m => simp [evEdges, modRefEdges, belowOk, below, fld]
  | wakeup m => simp [evEdges, modRefEdges, belowOk, below, fld]

theorem below_evSet (owner : NId) (mk : Nat → Loc) (evs : List EvD) (ho : below owner = false) :
    (evSetEdges owner mk evs).all belowOk = true := by
  unfold evSetEdges
  rw [List.all_flatMap, List.all_eq_true]
  rintro ⟨k, e⟩ _
  simp [below_evEdges]
  simp [belowOk, fld, ho]

theorem below_taskEdges (m t : Nat) (td : TaskD) : (taskEdges m t td).all belowOk = true := by
  obtain ⟨w, j⟩ := td
  cases j <;> cases w with
  | sleep s => simp [taskEdges, belowOk, below, fld]
  | recv b => cases b <;> simp [taskEdges, belowOk, below, fld]

theorem below_afnEdges (cb : Bool) (m t : Nat) (a : Option AfnD) :
    (afnEdges cb m t a).all belowOk = true := by
  cases a with
  | none => simp [afnEdges]
  | some a =>
    unfold afnEdges
    simp only [List.all_cons, List.all_append, Bool.and_eq_true]
    refine ⟨by simp [belowOk, below, fld], ?_, ?_⟩
    · rw [List.all_flatMap, List.all_eq_true]
      rintro ⟨k, msg⟩ _
      simp [below_msgEdges]
      simp [belowOk, below, fld]
    · cases a.alive
      · simp
      · simp only [if_true, List.all_append, Bool.and_eq_true]
        refine ⟨⟨⟨by simp [belowOk, below, fld], ?_⟩, by cases cb <;> simp [belowOk, below, fld]⟩, ?_⟩
        · cases a.sleeping <;> simp [belowOk, below, fld]
        · rw [List.all_flatMap, List.all_eq_true]
          rintro ⟨k, msg⟩ _
          simp [below_msgEdges]
          simp [belowOk, below, fld]

theorem below_modEdges (d : Desc) (m : Nat) (md : ModD) : (modEdges d m md).all belowOk = true := by
  unfold modEdges
  simp only [List.all_append, Bool.and_eq_true]
  refine ⟨⟨⟨⟨⟨⟨⟨⟨?_, ?_⟩, ?_⟩, ?_⟩, ?_⟩, ?_⟩, ?_⟩, ?_⟩, ?_⟩
  · simp [modRefEdges, belowOk, below, fld]
  · cases md.parent with
    | none => simp
    | some p =>
      simp only
      split
      · simp only [List.all_append, Bool.and_eq_true]
        refine ⟨by simp [modRefEdges, belowOk, below, fld], ?_⟩
        split <;> simp [modRefEdges, belowOk, below, fld]
      · simp
  · simp [belowOk, below, fld]
  · simp [List.all_map, belowOk, below, fld]
  · simp [belowOk, below, fld]
  · simp [List.all_flatMap, belowOk, below, fld]
  · split
    · simp only [List.all_cons, List.all_append, List.all_flatMap, Bool.and_eq_true]
      refine ⟨by simp [belowOk, below, fld], ?_, below_afnEdges _ m _ _⟩
      rw [List.all_eq_true]
      rintro ⟨t, td⟩ _
      exact below_taskEdges m t td
    · simp
  · rw [List.all_flatMap, List.all_eq_true]
    rintro ⟨k, msg⟩ _
    simp [below_msgEdges]
    simp [belowOk, below, fld]
  · simp [List.all_map, belowOk, below, fld]

theorem below_queueEdges (kc : Bool) (c : Nat) (f : Bool) (ep : Nat) (q : List MsgD) :
    (queueEdges kc c f ep q).all belowOk = true := by
  unfold queueEdges
  rw [List.all_flatMap, List.all_eq_true]
  rintro ⟨k, msg⟩ _
  cases kc <;> simp [below_msgEdges] <;> simp [belowOk, below, fld]

theorem below_linkEdges (d : Desc) (c : Nat) (l : LinkD) : (linkEdges d c l).all belowOk = true := by
  unfold linkEdges
  split
  · cases l.chan
    · simp [belowOk, below]
    · simp only [if_true, List.all_append, below_queueEdges, Bool.and_true]
      simp [belowOk, below, fld]
  · simp

theorem below_mkEdges (d : Desc) : (mkEdges d).all belowOk = true := by
  unfold mkEdges
  simp only [List.all_append, Bool.and_eq_true]
  refine ⟨⟨⟨⟨⟨?_, ?_⟩, ?_⟩, ?_⟩, ?_⟩, ?_⟩
  · simp [belowOk, below, fld]
  · exact below_evSet _ _ _ rfl
  · exact below_evSet _ _ _ rfl
  · exact below_evSet _ _ _ rfl
  · rw [List.all_flatMap, List.all_eq_true]
    rintro ⟨m, md⟩ _
    exact below_modEdges d m md
  · rw [List.all_flatMap, List.all_eq_true]
    rintro ⟨c, l⟩ _
    exact below_linkEdges d c l


/-- freeing a node below a gate runs no handle-removing destructor -/
theorem cutOnFree_below (d : Desc) (es : List (Edge NId)) (hsub : ∀ e ∈ es, e ∈ mkEdges d) (v : NId)
    (hv : below v = true) : cutOnFree nidSem es v = some (es, []) := by
  have hb := List.all_eq_true.mp (below_mkEdges d)
  have hne : ∀ e ∈ es, e.via ≠ Via.entry v := by
    intro e he hc
    have := hb e (hsub e he)
    simp only [belowOk, hc, Bool.and_eq_true, Bool.not_eq_true'] at this
    rw [hv] at this
    cases this.2
  have h1 : es.filter (fun e => decide (e.via ≠ Via.entry v)) = es := by
    rw [List.filter_eq_self]
    intro e he
    simpa using hne e he
  have h2 : es.filter (fun e => decide (e.via = Via.entry v)) = [] := by
    rw [List.filter_eq_nil_iff]
    intro e he
    simpa using hne e he
  have hctx : nidSem.isCtx v = false := by
    cases v <;> simp [below] at hv <;> rfl
  unfold cutOnFree
  simp only [h1, h2, hctx, List.map_nil]
  rfl

end Own

/-
Allocator steps seen through the keys of the live blocks (what a client such as the calendar
queue's node store relies on): an in-range request always succeeds and adds one fresh key; freeing
a live key succeeds and removes exactly that key.
-/
import Desverif.Proofs.AllocSizes
namespace Alloc

theorem stepEv_step (orc : Nat → Nat) (rs : RState) (op : Op) :
    (stepEv orc rs op).1 = (step orc rs op).1 ∧ (stepEv orc rs op).2.1 = (step orc rs op).2 := by
  unfold stepEv
  generalize step orc rs op = r
  obtain ⟨rs', o⟩ := r
  cases op <;> cases o <;> simp
  split <;> simp

theorem eq_of_nodup_map {α β : Type} {f : α → β} {l : List α} (h : (l.map f).Nodup) {x y : α}
    (hx : x ∈ l) (hy : y ∈ l) (hxy : f x = f y) : x = y := by
  induction l with
  | nil => cases hx
  | cons a as ih =>
    simp only [List.map_cons, List.nodup_cons, List.mem_map, not_exists, not_and] at h
    rcases List.mem_cons.mp hx with hxa | hxa <;> rcases List.mem_cons.mp hy with hya | hya
    · rw [hxa, hya]
    · subst hxa; exact absurd hxy.symm (h.1 y hya)
    · subst hya; exact absurd hxy (h.1 x hxa)
    · exact ih h.2 hxa hya

theorem nodup_of_nodup_map {α β : Type} {f : α → β} {l : List α} (h : (l.map f).Nodup) : l.Nodup := by
  induction l with
  | nil => exact List.nodup_nil
  | cons a as ih =>
    simp only [List.map_cons, List.nodup_cons, List.mem_map, not_exists, not_and] at h
    rw [List.nodup_cons]
    exact ⟨fun hm => h.1 a hm rfl, ih h.2⟩

structure KInv (orc : Nat → Nat) (P : Nat) (rs : RState) : Prop where
  r : RInv orc P rs
  nodup : (rs.live.map (·.key)).Nodup

/-- the request is inside the property's range for page size `P` -/
def Fits (P lsize k : Nat) : Prop :=
  (sizeAlign lsize (2 ^ k)).2 ≤ P ∧
    ((sizeAlign lsize (2 ^ k)).1 = P ∨ (sizeAlign lsize (2 ^ k)).1 + 16 ≤ P)

theorem step_alloc_terminates {orc P rs} (ho : OracleOk orc P) (hp : PageOk P)
    (hi : RInv orc P rs) {lsize k : Nat} (hf : Fits P lsize k) :
    ∃ s' a, step orc rs (.alloc lsize k) =
      ({ st := s', live := ⟨rs.next, a, lsize, 2 ^ k⟩ :: rs.live, next := rs.next + 1 },
       .allocated a) := by
  obtain ⟨hal, hsz⟩ := hf
  have hn := sizeAlign_ok lsize k
  have hdvd : (sizeAlign lsize (2 ^ k)).2 ∣ P := by
    obtain ⟨p, _, rfl⟩ := hp
    simp only [sizeAlign] at hal ⊢
    rw [max_pow_eq] at hal ⊢
    exact pow_dvd_of_le hal
  obtain ⟨t, ht⟩ := findRegion_terminates ho hp hdvd hn.alignPos hsz hi.inv
  rcases step_alloc_cases orc rs lsize k with ⟨e, h1, _⟩ | ⟨s', h1, _⟩ | ⟨s', a, _, h2⟩
  · have hd := allocate_err ho hp hi.inv h1
    subst hd
    have := allocate_diverge_inv h1
    rw [ht] at this
    simp at this
  · have := (allocate_none h1).2
    rw [hi.inv.ps] at this
    omega
  · exact ⟨s', a, h2⟩

theorem alloc_step_ok {orc P rs} (ho : OracleOk orc P) (hp : PageOk P)
    (h : KInv orc P rs) {lsize k : Nat} (hf : Fits P lsize k) :
    ∃ s' a, step orc rs (.alloc lsize k) =
      ({ st := s', live := ⟨rs.next, a, lsize, 2 ^ k⟩ :: rs.live, next := rs.next + 1 },
       .allocated a) ∧
      KInv orc P { st := s', live := ⟨rs.next, a, lsize, 2 ^ k⟩ :: rs.live, next := rs.next + 1 } := by
  obtain ⟨s', a, hs⟩ := step_alloc_terminates ho hp h.r hf
  refine ⟨s', a, hs, ?_, ?_⟩
  · have := step_inv ho hp h.r (.alloc lsize k)
    rw [hs] at this; exact this
  · simp only [List.map_cons, List.nodup_cons]
    refine ⟨?_, h.nodup⟩
    intro hm
    obtain ⟨e, he, hk⟩ := List.mem_map.mp hm
    have := h.r.keys e he
    omega

/-- the same, through the event-reporting step -/
theorem alloc_stepEv_ok {orc P rs} (ho : OracleOk orc P) (hp : PageOk P)
    (h : KInv orc P rs) {lsize k : Nat} (hf : Fits P lsize k) :
    ∃ rs' addr evs, stepEv orc rs (.alloc lsize k) = (rs', .allocated addr, evs) ∧ KInv orc P rs' ∧
      rs'.live = ⟨rs.next, addr, lsize, 2 ^ k⟩ :: rs.live ∧ rs'.next = rs.next + 1 := by
  obtain ⟨s', addr, hstep, hk'⟩ := alloc_step_ok ho hp h hf
  have hse := stepEv_step orc rs (.alloc lsize k)
  rw [hstep] at hse
  rcases hev : stepEv orc rs (.alloc lsize k) with ⟨a1, o1, ev1⟩
  rw [hev] at hse
  simp only at hse
  obtain ⟨rfl, rfl⟩ := hse
  exact ⟨_, addr, ev1, rfl, hk', rfl, rfl⟩

theorem free_step_ok {orc P rs} (ho : OracleOk orc P) (hp : PageOk P) (h : KInv orc P rs) {k : Nat}
    (hk : k ∈ rs.live.map (·.key)) :
    ∃ e s', e ∈ rs.live ∧ e.key = k ∧
      step orc rs (.free k) = ({ rs with st := s', live := rs.live.erase e }, .freed) ∧
      KInv orc P { rs with st := s', live := rs.live.erase e } ∧
      s'.allocated + e.blk.size = rs.st.allocated ∧
      ∀ x, x ∈ (rs.live.erase e).map (·.key) ↔ (x ∈ rs.live.map (·.key) ∧ x ≠ k) := by
  obtain ⟨e0, he0, hk0⟩ := List.mem_map.mp hk
  cases hf : rs.live.find? (·.key = k) with
  | none =>
    have := List.find?_eq_none.mp hf e0 he0
    simp [hk0] at this
  | some e =>
    have he := List.mem_of_find?_eq_some hf
    have hke : e.key = k := by
      have := List.find?_some hf
      simpa using this
    obtain ⟨s', hs', hinv, _, hacct, _⟩ := deallocate_live h.r.inv he
    have hstep : step orc rs (.free k) = ({ rs with st := s', live := rs.live.erase e }, .freed) := by
      simp [step, hf, hs']
    have hnd : rs.live.Nodup := nodup_of_nodup_map h.nodup
    refine ⟨e, s', he, hke, hstep, ⟨?_, ?_⟩, hacct, ?_⟩
    · have := step_inv ho hp h.r (.free k)
      rw [hstep] at this; exact this
    · exact ((List.erase_sublist).map _).nodup h.nodup
    · intro x
      constructor
      · intro hx
        obtain ⟨y, hy, rfl⟩ := List.mem_map.mp hx
        have hy' := (List.Nodup.mem_erase_iff hnd).mp hy
        refine ⟨List.mem_map_of_mem hy'.2, ?_⟩
        intro hyk
        exact hy'.1 (eq_of_nodup_map h.nodup hy'.2 he (hyk.trans hke.symm))
      · rintro ⟨hx, hne⟩
        obtain ⟨y, hy, rfl⟩ := List.mem_map.mp hx
        have : y ≠ e := by intro hye; subst hye; exact hne hke
        exact List.mem_map_of_mem ((List.mem_erase_of_ne this).mpr hy)

end Alloc

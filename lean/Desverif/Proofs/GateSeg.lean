/-
Chain segments of the gate model: `Seg net g came hops c` says that `PathIter`, standing on gate `g`
entered through slot `came`, will yield exactly the connections `hops` (every link stored
symmetrically on both gates, as `connect` does) and arrive on the last gate through slot `c`.
Lemmas: walking / forwarding follows a segment, segments compose, and a segment read from its far
end is the exact mirror image (`mirror`).  All by induction over the segment, any length.
-/
import Desverif.Model.Gate
namespace Gate

def Seg (net : Net) : Nat → Bool → List Conn → Bool → Prop
  | _, came, [], c => c = came
  | g, came, k :: rest, c =>
    (net g).get (!came) = some k ∧ (net k.peer).get k.peerSlot = some ⟨g, !came, k.chan⟩ ∧
      Seg net k.peer k.peerSlot rest c

/-- the connections `PathIter` yields when the segment is read from its far end (accumulator =
    what lies behind the start gate) -/
def mirror : Nat → Bool → List Conn → List Conn → List Conn
  | _, _, [], acc => acc
  | g, came, k :: rest, acc => mirror k.peer k.peerSlot rest (⟨g, !came, k.chan⟩ :: acc)

@[simp] theorem get_false (s : Slots) : s.get false = s.s0 := rfl
@[simp] theorem get_true (s : Slots) : s.get true = s.s1 := rfl

theorem lastGate_append (g : Nat) (h1 : List Conn) (k : Conn) (h2 : List Conn) :
    lastGate g (h1 ++ k :: h2) = lastGate k.peer h2 := by
  induction h1 generalizing g with
  | nil => rfl
  | cons x xs ih => simpa [lastGate] using ih x.peer

theorem getLast?_gatesOf (g : Nat) (hops : List Conn) :
    (gatesOf g hops).getLast? = some (lastGate g hops) := by
  induction hops generalizing g with
  | nil => simp [gatesOf, lastGate]
  | cons k rest ih =>
    have := ih k.peer
    simp only [gatesOf, List.map_cons, List.getLast?_cons_cons, lastGate] at this ⊢
    exact this

theorem lastGate_mem (g : Nat) (hops : List Conn) : lastGate g hops ∈ gatesOf g hops := by
  have := getLast?_gatesOf g hops
  exact List.mem_of_getLast? this

/-- the walk (`PathIter`) follows a segment that ends in an empty slot -/
theorem walk_seg (net : Net) : ∀ (hops : List Conn) (g : Nat) (came c : Bool) (fuel : Nat),
    Seg net g came hops c → (net (lastGate g hops)).get (!c) = none → hops.length < fuel →
    walk net fuel g came = hops := by
  intro hops
  induction hops with
  | nil =>
    intro g came c fuel hs he hf
    cases fuel with
    | zero => omega
    | succ fuel =>
      simp only [Seg] at hs
      subst hs
      simp only [lastGate] at he
      simp [walk, nextHop, he]
  | cons k rest ih =>
    intro g came c fuel hs he hf
    cases fuel with
    | zero => simp at hf
    | succ fuel =>
      obtain ⟨h1, _, h3⟩ := hs
      simp only [walk, nextHop, h1]
      congr 1
      exact ih k.peer k.peerSlot c fuel h3 (by simpa [lastGate] using he)
        (by simp at hf; omega)

/-- message forwarding follows a segment: with every owner on the way active the message is handed
    to the owner of the last gate, after the sum of the channel delays -/
theorem forward_seg (net : Net) (owner : Nat → Nat) (active : Nat → Nat → Bool) (sender : Nat) :
    ∀ (hops : List Conn) (g : Nat) (came c : Bool) (fuel t : Nat) (last : Option Nat),
    Seg net g came hops c → (net (lastGate g hops)).get (!c) = none → hops.length < fuel →
    (∀ x ∈ (gatesOf g hops).dropLast, ∀ t', active (owner x) t' = true) →
    forward net owner active sender fuel g came t last =
      .handled (owner (lastGate g hops)) (t + delaySum hops)
        (if hops = [] then last else some (lastGate g hops))
        (active (owner (lastGate g hops)) (t + delaySum hops)) sender := by
  intro hops
  induction hops with
  | nil =>
    intro g came c fuel t last hs he hf _
    cases fuel with
    | zero => omega
    | succ fuel =>
      simp only [Seg] at hs
      subst hs
      simp only [lastGate] at he
      simp [forward, nextHop, he, lastGate, delaySum]
  | cons k rest ih =>
    intro g came c fuel t last hs he hf hact
    cases fuel with
    | zero => simp at hf
    | succ fuel =>
      obtain ⟨h1, _, h3⟩ := hs
      have hg : active (owner g) t = true := by
        apply hact
        simp [gatesOf]
      have hact' : ∀ x ∈ (gatesOf k.peer rest).dropLast, ∀ t', active (owner x) t' = true := by
        intro x hx
        apply hact
        simp only [gatesOf, List.map_cons] at hx ⊢
        rw [List.dropLast_cons_cons]
        exact List.mem_cons_of_mem _ hx
      have := ih k.peer k.peerSlot c fuel (t + k.chan.getD 0) (some k.peer) h3
        (by simpa [lastGate] using he) (by simp at hf; omega) hact'
      simp only [forward, nextHop, h1, hg, Bool.not_true, Bool.false_eq_true, if_false, this, lastGate]
      have hd : delaySum (k :: rest) = k.chan.getD 0 + delaySum rest := by
        simp [delaySum]
      rw [hd]
      cases rest with
      | nil => simp [lastGate, delaySum]
      | cons k2 r2 => simp [Nat.add_assoc]

/-- a gate with an inactive owner on the way (not the last gate) swallows the message -/
theorem forward_seg_dropped (net : Net) (owner : Nat → Nat) (active : Nat → Nat → Bool) (sender : Nat) :
    ∀ (hops : List Conn) (g : Nat) (came c : Bool) (fuel t : Nat) (last : Option Nat),
    Seg net g came hops c → hops.length < fuel →
    (∃ x ∈ (gatesOf g hops).dropLast, ∀ t', active (owner x) t' = false) →
    ∃ x t', forward net owner active sender fuel g came t last = .dropped x t' := by
  intro hops
  induction hops with
  | nil =>
    intro g came c fuel t last _ _ hex
    obtain ⟨x, hx, _⟩ := hex
    simp [gatesOf] at hx
  | cons k rest ih =>
    intro g came c fuel t last hs hf hex
    cases fuel with
    | zero => simp at hf
    | succ fuel =>
      obtain ⟨h1, _, h3⟩ := hs
      cases hg : active (owner g) t with
      | false => exact ⟨g, t, by simp [forward, nextHop, h1, hg]⟩
      | true =>
        obtain ⟨x, hx, hxa⟩ := hex
        simp only [gatesOf, List.map_cons] at hx
        rw [List.dropLast_cons_cons, List.mem_cons] at hx
        rcases hx with rfl | hx
        · rw [hxa t] at hg; cases hg
        · obtain ⟨y, t', hy⟩ := ih k.peer k.peerSlot c fuel (t + k.chan.getD 0) (some k.peer) h3
            (by simp at hf; omega) ⟨x, hx, hxa⟩
          exact ⟨y, t', by simp [forward, nextHop, h1, hg, hy]⟩

/-- once the wiring no longer changes, the time-indexed walk is the walk on that wiring -/
theorem forwardT_stable (netAt : Nat → Net) (net : Net) (owner : Nat → Nat) (active : Nat → Nat → Bool)
    (sender : Nat) : ∀ (fuel g : Nat) (came : Bool) (t : Nat) (last : Option Nat),
    (∀ t', t ≤ t' → netAt t' = net) →
    forwardT netAt owner active sender fuel g came t last = forward net owner active sender fuel g came t last := by
  intro fuel
  induction fuel with
  | zero => intro g came t last _; rfl
  | succ fuel ih =>
    intro g came t last hst
    simp only [forwardT, forward, hst t (Nat.le_refl t)]
    cases nextHop net g came with
    | none => rfl
    | some next =>
      simp only []
      split
      · rfl
      · exact ih _ _ _ _ (fun t' ht' => hst t' (by omega))

/-- the explicit header writes leave nothing of the old header: the delivered header is determined by
    the walk, the stamped sender and the last gate alone -/
theorem forwardH_eq (netAt : Nat → Net) (owner : Nat → Nat) (active : Nat → Nat → Bool) :
    ∀ (fuel g : Nat) (came : Bool) (t : Nat) (h : Hdr),
    forwardH netAt owner active fuel g came t h =
      (forwardT netAt owner active h.sender fuel g came t h.last).toDelivery := by
  intro fuel
  induction fuel with
  | zero => intro g came t h; rfl
  | succ fuel ih =>
    intro g came t h
    simp only [forwardH, forwardT]
    cases nextHop (netAt t) g came with
    | none => rfl
    | some next =>
      simp only []
      split
      · rfl
      · rw [ih]

theorem sendH_eq (netAt : Nat → Net) (owner : Nat → Nat) (active : Nat → Nat → Bool) (sm fuel g issue sendTime : Nat)
    (h : Hdr) :
    sendH netAt owner active sm fuel g issue sendTime h =
      (sendIssued netAt owner active sm fuel g issue sendTime).toDelivery := by
  simp only [sendH, sendIssued]
  split
  · rw [forwardH_eq]
  · rfl

theorem seg_append (net : Net) : ∀ (h1 : List Conn) (g : Nat) (came c1 : Bool) (h2 : List Conn) (c2 : Bool),
    Seg net g came h1 c1 → Seg net (lastGate g h1) c1 h2 c2 → Seg net g came (h1 ++ h2) c2 := by
  intro h1
  induction h1 with
  | nil =>
    intro g came c1 h2 c2 hs1 hs2
    simp only [Seg] at hs1
    subst hs1
    simpa [lastGate] using hs2
  | cons k rest ih =>
    intro g came c1 h2 c2 hs1 hs2
    obtain ⟨a, b, c⟩ := hs1
    exact ⟨a, b, ih k.peer k.peerSlot c1 h2 c2 c (by simpa [lastGate] using hs2)⟩

/-- slots that only gain entries keep every segment -/
theorem seg_mono (net net' : Net)
    (hm : ∀ g i c, (net g).get i = some c → (net' g).get i = some c) :
    ∀ (hops : List Conn) (g : Nat) (came c : Bool), Seg net g came hops c → Seg net' g came hops c := by
  intro hops
  induction hops with
  | nil => intro g came c h; exact h
  | cons k rest ih =>
    intro g came c h
    obtain ⟨a, b, d⟩ := h
    exact ⟨hm _ _ _ a, hm _ _ _ b, ih _ _ _ d⟩

/-- **mirror image**: a segment read from its last gate is the mirrored segment, followed by
    whatever lay behind the start gate -/
theorem seg_mirror (net : Net) : ∀ (hops : List Conn) (g : Nat) (came c : Bool) (acc : List Conn) (cEnd : Bool),
    Seg net g came hops c → Seg net g (!came) acc cEnd →
    Seg net (lastGate g hops) (!c) (mirror g came hops acc) cEnd := by
  intro hops
  induction hops with
  | nil =>
    intro g came c acc cEnd hs hb
    simp only [Seg] at hs
    subst hs
    simpa [lastGate, mirror] using hb
  | cons k rest ih =>
    intro g came c acc cEnd hs hb
    obtain ⟨h1, h2, h3⟩ := hs
    have hback : Seg net k.peer (!k.peerSlot) (⟨g, !came, k.chan⟩ :: acc) cEnd := by
      refine ⟨?_, ?_, ?_⟩
      · simpa using h2
      · simpa using h1
      · exact hb
    simpa [lastGate, mirror] using ih k.peer k.peerSlot c _ cEnd h3 hback

theorem mirror_gates : ∀ (hops : List Conn) (g : Nat) (came : Bool) (acc : List Conn),
    (mirror g came hops acc).map (·.peer) = (gatesOf g hops).reverse.tail ++ acc.map (·.peer) := by
  intro hops
  induction hops with
  | nil => intro g came acc; simp [mirror, gatesOf]
  | cons k rest ih =>
    intro g came acc
    rw [mirror, ih]
    have : gatesOf g (k :: rest) = g :: gatesOf k.peer rest := rfl
    rw [this, List.reverse_cons]
    cases hr : (gatesOf k.peer rest).reverse with
    | nil => simp [gatesOf] at hr
    | cons x xs => simp

theorem mirror_chans : ∀ (hops : List Conn) (g : Nat) (came : Bool) (acc : List Conn),
    (mirror g came hops acc).map (·.chan) = (hops.map (·.chan)).reverse ++ acc.map (·.chan) := by
  intro hops
  induction hops with
  | nil => intro g came acc; simp [mirror]
  | cons k rest ih => intro g came acc; rw [mirror, ih]; simp

theorem mirror_length : ∀ (hops : List Conn) (g : Nat) (came : Bool) (acc : List Conn),
    (mirror g came hops acc).length = hops.length + acc.length := by
  intro hops
  induction hops with
  | nil => intro g came acc; simp [mirror]
  | cons k rest ih => intro g came acc; rw [mirror, ih]; simp; omega

theorem lastGate_mirror : ∀ (hops : List Conn) (g : Nat) (came : Bool) (acc : List Conn),
    lastGate (lastGate g hops) (mirror g came hops acc) = lastGate g acc := by
  intro hops
  induction hops with
  | nil => intro g came acc; simp [mirror, lastGate]
  | cons k rest ih => intro g came acc; simp only [lastGate, mirror]; rw [ih]; rfl

theorem delaySum_mirror (hops : List Conn) (g : Nat) (came : Bool) :
    delaySum (mirror g came hops []) = delaySum hops := by
  have h := mirror_chans hops g came []
  simp only [List.map_nil, List.append_nil] at h
  have e : ∀ l : List Conn, delaySum l = ((l.map (·.chan)).map (·.getD 0)).sum := by
    intro l; simp [delaySum, List.map_map, Function.comp_def]
  rw [e, e, h, List.map_reverse, List.sum_reverse]

/-- inner gates of a segment have both slots occupied -/
theorem seg_inner_full (net : Net) : ∀ (hops : List Conn) (g : Nat) (came c : Bool) (x : Nat),
    Seg net g came hops c → x ∈ hops.map (·.peer) → x ≠ lastGate g hops →
    (net x).s0.isSome ∧ (net x).s1.isSome := by
  intro hops
  induction hops with
  | nil => intro g came c x _ hx; simp at hx
  | cons k rest ih =>
    intro g came c x hs hx hne
    obtain ⟨_, h2, h3⟩ := hs
    simp only [lastGate] at hne
    by_cases hxk : x = k.peer
    · subst hxk
      cases rest with
      | nil => simp [lastGate] at hne
      | cons k2 r2 =>
        obtain ⟨h4, _, _⟩ := h3
        cases hps : k.peerSlot <;> simp [hps] at h2 h4 <;> simp [h2, h4]
    · have : x ∈ rest.map (·.peer) := by
        simp only [List.map_cons, List.mem_cons] at hx
        rcases hx with h | h
        · exact absurd h hxk
        · exact h
      exact ih k.peer k.peerSlot c x h3 this hne

/-- the slot through which a non-empty segment arrives on its last gate is occupied -/
theorem seg_last_slot (net : Net) : ∀ (hops : List Conn) (g : Nat) (came c : Bool),
    Seg net g came hops c → hops ≠ [] → ((net (lastGate g hops)).get c).isSome := by
  intro hops
  induction hops with
  | nil => intro g came c _ h; exact absurd rfl h
  | cons k rest ih =>
    intro g came c hs _
    obtain ⟨_, h2, h3⟩ := hs
    cases rest with
    | nil =>
      simp only [Seg] at h3
      subst h3
      simp [lastGate, h2]
    | cons k2 r2 => exact ih k.peer k.peerSlot c h3 (by simp)

end Gate

/-
Arithmetic of `align_up` and of the layout normalisation `size_align` (alloc.rs).
-/
import Desverif.Model.Alloc
namespace Alloc

theorem alignUp_ge (a n : Nat) (hn : 0 < n) : a ≤ alignUp a n := by
  unfold alignUp
  have := Nat.mod_lt (a + n - 1) hn
  omega

theorem alignUp_lt (a n : Nat) (hn : 0 < n) : alignUp a n < a + n := by
  unfold alignUp
  omega

theorem alignUp_mod (a n : Nat) : alignUp a n % n = 0 := by
  unfold alignUp
  have h := Nat.mod_add_div (a + n - 1) n
  have : a + n - 1 - (a + n - 1) % n = n * ((a + n - 1) / n) := by omega
  rw [this, Nat.mul_mod_right]

theorem alignUp_of_mod (a n : Nat) (hn : 0 < n) (h : a % n = 0) : alignUp a n = a := by
  unfold alignUp
  have h1 := Nat.mod_add_div a n
  rw [h] at h1
  have h2 : a + n - 1 = (n - 1) + n * (a / n) := by omega
  have h3 : (a + n - 1) % n = n - 1 := by
    rw [h2, Nat.add_mul_mod_self_left, Nat.mod_eq_of_lt (by omega)]
  omega

theorem alignUp_eq_iff (a n : Nat) (hn : 0 < n) : alignUp a n = a ↔ a % n = 0 :=
  ⟨fun h => by rw [← h]; exact alignUp_mod a n, alignUp_of_mod a n hn⟩

/-- the bit-mask form of the Rust code, `(addr + align - 1) & !(align - 1)`, written without
    complement as `x - (x & (align-1))`, is the modulus form for power-of-two alignments -/
theorem alignUp_eq_mask (a k : Nat) :
    alignUp a (2 ^ k) = (a + 2 ^ k - 1) - ((a + 2 ^ k - 1) &&& (2 ^ k - 1)) := by
  unfold alignUp
  rw [Nat.and_two_pow_sub_one_eq_mod]

theorem mod_of_dvd_mod {a m n : Nat} (hmn : m ∣ n) (h : a % n = 0) : a % m = 0 := by
  have := Nat.dvd_of_mod_eq_zero h
  exact Nat.mod_eq_zero_of_dvd (Nat.dvd_trans hmn this)

theorem eight_dvd_max_pow (k : Nat) : 8 ∣ max (2 ^ k) NODE_ALIGN := by
  unfold NODE_ALIGN
  by_cases h : k ≤ 3
  · have : 2 ^ k ≤ 2 ^ 3 := Nat.pow_le_pow_right (by omega) h
    rw [Nat.max_eq_right (by omega)]
    exact Nat.dvd_refl 8
  · have h3 : 3 ≤ k := by omega
    have : 2 ^ 3 ≤ 2 ^ k := Nat.pow_le_pow_right (by omega) h3
    rw [Nat.max_eq_left (by omega)]
    exact Nat.pow_dvd_pow 2 h3

/-- the normalised alignment is again a power of two (≥ 8) -/
theorem max_pow_eq (k : Nat) : max (2 ^ k) NODE_ALIGN = 2 ^ (max k 3) := by
  unfold NODE_ALIGN
  by_cases h : k ≤ 3
  · have : 2 ^ k ≤ 2 ^ 3 := Nat.pow_le_pow_right (by omega) h
    rw [Nat.max_eq_right (by omega), Nat.max_eq_right h]
  · have h3 : 3 ≤ k := by omega
    have : 2 ^ 3 ≤ 2 ^ k := Nat.pow_le_pow_right (by omega) h3
    rw [Nat.max_eq_left (by omega), Nat.max_eq_left h3]

/-- facts about a normalised layout `(size, align) = size_align(lsize, 2^k)` -/
structure NormOk (size align : Nat) : Prop where
  size16 : 16 ≤ size
  size8 : size % 8 = 0
  align8 : 8 ∣ align
  alignPos : 0 < align
  sizeAl : size % align = 0 ∨ size = 16

theorem sizeAlign_ok (lsize k : Nat) :
    NormOk (sizeAlign lsize (2 ^ k)).1 (sizeAlign lsize (2 ^ k)).2 := by
  have h8 := eight_dvd_max_pow k
  have hpos : 0 < max (2 ^ k) NODE_ALIGN := by unfold NODE_ALIGN; omega
  have hm := alignUp_mod lsize (max (2 ^ k) NODE_ALIGN)
  have hm8 : alignUp lsize (max (2 ^ k) NODE_ALIGN) % 8 = 0 := mod_of_dvd_mod h8 hm
  simp only [sizeAlign, NODE_SIZE]
  refine ⟨by omega, ?_, h8, hpos, ?_⟩
  · rcases Nat.le_total (alignUp lsize (max (2 ^ k) NODE_ALIGN)) 16 with h | h
    · rw [Nat.max_eq_right h]
    · rw [Nat.max_eq_left h]; exact hm8
  · rcases Nat.le_total (alignUp lsize (max (2 ^ k) NODE_ALIGN)) 16 with h | h
    · right; rw [Nat.max_eq_right h]
    · left; rw [Nat.max_eq_left h]; exact hm

theorem sizeAlign_ge (lsize lalign : Nat) : lsize ≤ (sizeAlign lsize lalign).1 := by
  simp only [sizeAlign]
  have : 0 < max lalign NODE_ALIGN := by unfold NODE_ALIGN; omega
  have := alignUp_ge lsize _ this
  omega

theorem pow_dvd_of_le {j p : Nat} (h : 2 ^ j ≤ 2 ^ p) : 2 ^ j ∣ 2 ^ p := by
  apply Nat.pow_dvd_pow
  exact (Nat.pow_le_pow_iff_right (by omega)).mp h

end Alloc

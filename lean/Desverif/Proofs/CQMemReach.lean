/-
The node ↔ event invariant `NInv` holds after `CQueue::new` and is preserved by every operation;
what `Drop for CQueue` releases.
-/
import Desverif.Proofs.CQMemNodes
namespace CQMem
open CQRun Alloc
open CQ (Ev)
open FES (eraseId)

theorem bids_perm {m : CQ.State} {s : FES.State} (h : CQ.R m s) (i : Nat) :
    i ∈ bids m ↔ i ∈ s.pend.map (·.id) := (h.pend.map (·.id)).mem_iff

theorem bucketCount_eq {m : CQ.State} {s : FES.State} (h : CQ.R m s) :
    bucketCount m = s.pend.length := h.pend.length_eq

theorem fes_add_pend {s s' : FES.State} {time val i : Nat} (h : FES.add s time val = .ok (s', i)) :
    (time = s.cur → s'.pend = s.pend) ∧
    (time ≠ s.cur → s'.pend = s.pend ++ [⟨time, s.nextId, val⟩]) := by
  unfold FES.add at h
  split at h
  · cases h
  · split at h
    · rename_i heq
      simp only [Except.ok.injEq, Prod.mk.injEq] at h
      rw [← h.1]
      exact ⟨fun _ => rfl, fun hne => absurd heq hne⟩
    · rename_i hne
      simp only [Except.ok.injEq, Prod.mk.injEq] at h
      rw [← h.1]
      exact ⟨fun heq => absurd heq hne, fun _ => rfl⟩

/-- every operation answers (never `diverged` / `internal`), as the abstract event set does, and
    keeps the invariant -/
theorem step_ninv {orc P st ss} (ho : OracleOk orc P) (hp : PageOk P) (h : NInv orc P st ss)
    (op : CQRun.Op) :
    ∃ o, (step orc st op).out = .cq o ∧ o = (sstep ss op).2 ∧
      NInv orc P (step orc st op).st (sstep ss op).1 := by
  -- it is enough to show that the operation answers and that the node bookkeeping is kept
  suffices hmain : ∃ o, (step orc st op).out = .cq o ∧
      NodesOk orc P (step orc st op).st.q.1 (step orc st op).st by
    obtain ⟨o, ho1, hno⟩ := hmain
    obtain ⟨hq, hoq⟩ := step_queue orc st op o ho1
    obtain ⟨hout, hrr⟩ := step_refines h.rr op
    refine ⟨o, ho1, hoq.trans hout, ?_, hno⟩
    rw [hq]; exact hrr
  rcases hq : st.q with ⟨m, hs⟩
  have hR : CQ.R m ss.1 := by have := h.rr.r; rw [hq] at this; exact this
  have hN : NodesOk orc P m st := by have := h.nodes; rw [hq] at this; exact this
  cases op with
  | peek => exact ⟨_, rfl, by simp only [step]; rw [hq]; exact hN⟩
  | add time val =>
    simp only [step, add, hq]
    by_cases hlt : time < m.tcur
    · obtain ⟨h1, _⟩ := CQ.add_past hR time val hlt
      simp only [h1]
      exact ⟨_, rfl, by rw [hq]; exact hN⟩
    · obtain ⟨m', s', h1, h2, hR'⟩ := CQ.add_ok hR time val (by omega)
      obtain ⟨hp0, hp1⟩ := fes_add_pend h2
      have hn := add_n h1
      simp only [h1]
      by_cases heq : time = m.tcur
      · simp only [heq, if_true]
        refine ⟨_, rfl, ?_⟩
        apply same_events hN hn
        intro i
        rw [bids_perm hR', bids_perm hR, hp0 (by rw [← hR.cur]; exact heq)]
      · simp only [heq, if_false]
        have hnin : m.eventId ∉ bids m := by
          intro hm
          obtain ⟨e, he, hid⟩ := List.mem_map.mp hm
          have := hR.inv.idsLt e (List.mem_append_right _ he)
          omega
        have hb : ∀ i, i ∈ bids m' ↔ (i ∈ bids m ∨ i = m.eventId) := by
          intro i
          rw [bids_perm hR', bids_perm hR, hp1 (by rw [← hR.cur]; exact heq), hR.nid]
          simp
        obtain ⟨a', addr, evs, hal, hno⟩ := add_event ho hp hN hn hnin hb (m', hs ++ [(m.eventId, time)])
        rw [hal]
        exact ⟨_, rfl, hno⟩
  | cancel k =>
    simp only [step, cancel, hq]
    cases hk : hs[k]? with
    | none => exact ⟨_, rfl, by rw [hq]; exact hN⟩
    | some p =>
      obtain ⟨id, time⟩ := p
      simp only
      have hmem : (id, time) ∈ hs := List.mem_of_getElem? hk
      have hok : CQ.HandleOk m id time := by
        have := (h.rr.hok (id, time) (by rw [hq]; exact hmem)).2
        rw [hq] at this; exact this
      have hR' := CQ.cancel_refines hR id time hok
      have hn := cancel_n m id time
      have hpend' : (FES.cancel ss.1 id).pend = eraseId ss.1.pend id := rfl
      have hzero' : (FES.cancel ss.1 id).zero = eraseId ss.1.zero id := rfl
      have hc' := bucketCount_eq hR'
      have hc := bucketCount_eq hR
      rw [hpend'] at hc'
      have hle := erase_len_le ss.1.pend id
      -- unchanged bucket population
      have hsame : (eraseId ss.1.pend id).length = ss.1.pend.length →
          ∀ i, i ∈ bids (CQ.cancel m id time) ↔ i ∈ bids m := by
        intro hlen i
        rw [bids_perm hR', bids_perm hR, hpend', erase_len_eq hlen]
      by_cases hA : (pendingOf (CQ.cancel m id time)).length = (pendingOf m).length
      · rw [if_pos hA]
        refine ⟨_, rfl, same_events hN hn (hsame ?_) _⟩
        simp only [pendingOf, List.length_append] at hA
        have hz := erase_len_le ss.1.zero id
        have e1 : (CQ.cancel m id time).zero.length = (eraseId ss.1.zero id).length := by
          rw [hR'.zero, hzero']
        have e2 : m.zero.length = ss.1.zero.length := by rw [hR.zero]
        unfold bucketCount at hc hc'
        omega
      · rw [if_neg hA]
        by_cases hB : bucketCount (CQ.cancel m id time) < bucketCount m
        · rw [if_pos hB]
          obtain ⟨e, he, hid⟩ := erase_lt (l := ss.1.pend) (id := id) (by omega)
          have hin : id ∈ bids m := (bids_perm hR id).mpr (List.mem_map.mpr ⟨e, he, hid⟩)
          have hb : ∀ i, i ∈ bids (CQ.cancel m id time) ↔ (i ∈ bids m ∧ i ≠ id) := by
            intro i
            rw [bids_perm hR', bids_perm hR, hpend', erase_ids]
          obtain ⟨st'', evs, hfree, hq'', hno⟩ :=
            remove_event ho hp hN hn hin hb (CQ.cancel m id time, hs)
          rw [hfree]
          refine ⟨_, rfl, ?_⟩
          simp only
          rw [hq'']; exact hno
        · rw [if_neg hB]
          exact ⟨_, rfl, same_events hN hn (hsame (by omega)) _⟩
  | fetch =>
    simp only [step, fetch, hq]
    by_cases hl : m.len = 0
    · obtain ⟨h1, _⟩ := CQ.fetch_empty hR hl
      simp only [h1]
      exact ⟨_, rfl, by rw [hq]; exact hN⟩
    · obtain ⟨e, m', s', h1, h2, hR'⟩ := CQ.fetch_ok hR hl
      have hn := fetch_n h1
      simp only [h1]
      have hc' := bucketCount_eq hR'
      have hc := bucketCount_eq hR
      -- what the abstract event set removed
      have hcases : (s'.pend = ss.1.pend) ∨ (e ∈ ss.1.pend ∧ s'.pend = eraseId ss.1.pend e.id) := by
        unfold FES.fetch at h2
        split at h2
        · simp only [Except.ok.injEq, Prod.mk.injEq] at h2
          left; rw [← h2.2]
        · rename_i hz
          split at h2
          · cases h2
          · rename_i e' hm
            simp only [Except.ok.injEq, Prod.mk.injEq] at h2
            obtain ⟨rfl, rfl⟩ := h2
            right
            refine ⟨?_, rfl⟩
            cases hpd : ss.1.pend with
            | nil => rw [hpd] at hm; simp [FES.minEv] at hm
            | cons a as =>
              rw [hpd] at hm
              simp only [FES.minEv, Option.some.injEq] at hm
              have : ∀ (l : List Ev) (m0 : Ev),
                  l.foldl (fun m x => if FES.evLt x m then x else m) m0 ∈ m0 :: l := by
                intro l
                induction l with
                | nil => intro m0; simp
                | cons x xs ih =>
                  intro m0
                  simp only [List.foldl_cons]
                  have := ih (if FES.evLt x m0 then x else m0)
                  rcases List.mem_cons.mp this with h | h
                  · rw [h]; split <;> simp
                  · simp [h]
              rw [← hm]; exact this as a
      rcases hcases with hsm | ⟨hep, hsm⟩
      · have : ¬ bucketCount m' < bucketCount m := by rw [hc', hc, hsm]; omega
        rw [if_neg this]
        refine ⟨_, rfl, same_events hN hn ?_ _⟩
        intro i
        rw [bids_perm hR', bids_perm hR, hsm]
      · have hlt : bucketCount m' < bucketCount m := by
          rw [hc', hc, hsm]; exact mem_erase_lt hep
        rw [if_pos hlt]
        have hin : e.id ∈ bids m := (bids_perm hR e.id).mpr (List.mem_map_of_mem hep)
        have hb : ∀ i, i ∈ bids m' ↔ (i ∈ bids m ∧ i ≠ e.id) := by
          intro i
          rw [bids_perm hR', bids_perm hR, hsm, erase_ids]
        obtain ⟨st'', evs, hfree, hq'', hno⟩ := remove_event ho hp hN hn hin hb (m', hs)
        rw [hfree]
        refine ⟨_, rfl, ?_⟩
        simp only
        rw [hq'']; exact hno

/-! ### `CQueue::new` -/

theorem mkSentinels_ok {orc P nsize nlog} (ho : OracleOk orc P) (hp : PageOk P)
    (hf : Fits P nsize nlog) :
    ∀ (n : Nat) (a : RState) (acc : List (Nat × Nat)) (evs : List MEv), KInv orc P a →
      (∀ e ∈ a.live, e.lsize = nsize ∧ e.lalign = 2 ^ nlog) →
      ∃ a' sent evs', mkSentinels orc nsize nlog n a acc evs = .ok (a', acc ++ sent, evs') ∧
        KInv orc P a' ∧ sent.length = n ∧
        a'.live.map (·.key) = (sentKeys sent).reverse ++ a.live.map (·.key) ∧
        (∀ e ∈ a'.live, e.lsize = nsize ∧ e.lalign = 2 ^ nlog) := by
  intro n
  induction n with
  | zero =>
    intro a acc evs h hl
    exact ⟨a, [], evs, by simp [mkSentinels], h, rfl, by simp [sentKeys], hl⟩
  | succ n ih =>
    intro a acc evs h hl
    obtain ⟨a1, ad1, ev1, hev1, hk1, hlive1, hnext1⟩ := alloc_stepEv_ok ho hp h hf
    obtain ⟨a2, ad2, ev2, hev2, hk2, hlive2, hnext2⟩ := alloc_stepEv_ok ho hp hk1 hf
    have hl2 : ∀ e ∈ a2.live, e.lsize = nsize ∧ e.lalign = 2 ^ nlog := by
      intro e he
      rw [hlive2, hlive1] at he
      simp only [List.mem_cons] at he
      rcases he with rfl | rfl | he
      · exact ⟨rfl, rfl⟩
      · exact ⟨rfl, rfl⟩
      · exact hl e he
    obtain ⟨a', sent, evs', hmk, hk', hlen, hkeys, hl'⟩ :=
      ih a2 (acc ++ [(a.next, a1.next)]) (evs ++ ev1 ++ ev2) hk2 hl2
    refine ⟨a', (a.next, a1.next) :: sent, evs', ?_, hk', by simp [hlen], ?_, hl'⟩
    · simp only [mkSentinels, allocNode, hev1, hev2]
      rw [hmk]; simp
    · rw [hkeys, hlive2, hlive1, hnext1]
      simp [sentKeys]

theorem create_ninv {orc P} (ho : OracleOk orc P) (hp : PageOk P) {n t nsize nlog : Nat}
    (hn : 1 ≤ n) (ht : 1 ≤ t) (hf : Fits P nsize nlog) :
    ∃ st evs, create orc n t P nsize nlog = (some st, .created, evs) ∧
      NInv orc P st (FES.init, []) := by
  obtain ⟨a0, h0, hr0, _, hlive0⟩ := start_inv ho hp
  have hk0 : KInv orc P a0 := ⟨hr0, by rw [hlive0]; simp⟩
  obtain ⟨a', sent, evs', hmk, hk', hlen, hkeys, hl'⟩ :=
    mkSentinels_ok ho hp hf n a0 [] (Alloc.newPages { a0.st with pages := [] } a0.st) hk0
      (by intro e he; rw [hlive0] at he; cases he)
  simp only [List.nil_append] at hmk
  refine ⟨{ q := (CQ.init n t, []), a := a', nodes := [], sent := sent, nsize := nsize, nlog := nlog },
    evs', by simp [create, h0, hmk], ⟨init_RR n t hn ht, ?_⟩⟩
  rw [hlive0] at hkeys
  simp only [List.map_nil, List.append_nil] at hkeys
  have hb : bids (CQ.init n t) = [] := by simp [bids, CQ.init]
  refine ⟨hk', hf, by simp, by intro i; simp [hb], ?_, ?_, by simp [hlen, CQ.init], hl'⟩
  · simp only [List.map_nil, List.nil_append]
    have := hk'.nodup
    rw [hkeys] at this
    exact ((List.reverse_perm _).nodup_iff).mp this
  · intro x
    simp only
    rw [hkeys]
    simp

/-! ### `Drop for CQueue` -/

theorem nodup_filterMap_lookup {nodes : List (Nat × Nat)} (hs : (nodes.map (·.2)).Nodup) :
    ∀ (l : List Ev), (l.map (·.id)).Nodup → (l.filterMap (fun e => nodes.lookup e.id)).Nodup := by
  intro l
  induction l with
  | nil => intro _; simp
  | cons e l ih =>
    intro hnd
    simp only [List.map_cons, List.nodup_cons] at hnd
    rw [List.filterMap_cons]
    cases hl : nodes.lookup e.id with
    | none => exact ih hnd.2
    | some k =>
      simp only
      rw [List.nodup_cons]
      refine ⟨?_, ih hnd.2⟩
      intro hm
      obtain ⟨e', he', hl'⟩ := List.mem_filterMap.mp hm
      have h1 := mem_of_lookup hl
      have h2 := mem_of_lookup hl'
      have : (e'.id, k) = (e.id, k) := eq_of_nodup_map hs h2 h1 rfl
      injection this with hid _
      exact hnd.1 (List.mem_map.mpr ⟨e', he', hid⟩)

/-- `Drop for CQueue` walks every live node exactly once, every release succeeds, nothing stays
    allocated, and the payloads destroyed are exactly the pending ones. -/
theorem drop_ninv {orc P st ss} (ho : OracleOk orc P) (hp : PageOk P) (h : NInv orc P st ss) :
    (dropKeys st).Perm (st.a.live.map (·.key)) ∧
    (drop orc st).out = .dropped ∧ (drop orc st).st.a.live = [] ∧
    (drop orc st).st.a.st.allocated = 0 ∧ KInv orc P (drop orc st).st.a ∧
    (drop orc st).drops.Perm ((spending ss.1).map (·.val)) := by
  have hN := h.nodes
  have hR := h.rr.r
  have hblen : st.sent.length = st.q.1.buckets.length := by rw [hN.sentLen, hR.inv.hlen]
  have hperm := dropKeys_perm st hblen
  have hsnd : (st.nodes.map (·.2)).Nodup := (List.nodup_append.mp hN.keysNodup).1
  have hidsFlat : (st.q.1.buckets.flatten.map (·.id)).Nodup := by
    have := hR.inv.nodup
    unfold CQ.pending at this
    rw [List.map_append] at this
    exact (List.nodup_append.mp this).2.1
  have hA : ∀ x, x ∈ st.q.1.buckets.flatten.filterMap (fun e => st.nodes.lookup e.id) ↔
      x ∈ st.nodes.map (·.2) := by
    intro x
    rw [List.mem_filterMap]
    constructor
    · rintro ⟨e, _, hl⟩
      exact List.mem_map.mpr ⟨(e.id, x), mem_of_lookup hl, rfl⟩
    · intro hx
      obtain ⟨p, hp1, rfl⟩ := List.mem_map.mp hx
      have : p.1 ∈ bids st.q.1 := (hN.ids p.1).mp (List.mem_map_of_mem hp1)
      obtain ⟨e, he, hid⟩ := List.mem_map.mp this
      refine ⟨e, he, ?_⟩
      rw [hid]
      exact lookup_of_mem hN.idsNodup hp1
  have hANodup := nodup_filterMap_lookup hsnd _ hidsFlat
  have hABNodup : (st.q.1.buckets.flatten.filterMap (fun e => st.nodes.lookup e.id) ++
      sentKeys st.sent).Nodup := by
    rw [List.nodup_append]
    refine ⟨hANodup, (List.nodup_append.mp hN.keysNodup).2.1, ?_⟩
    intro a ha b hb
    exact (List.nodup_append.mp hN.keysNodup).2.2 a ((hA a).mp ha) b hb
  have hKNodup : (dropKeys st).Nodup := (hperm.nodup_iff).mpr hABNodup
  have hKmem : ∀ x, x ∈ dropKeys st ↔ x ∈ st.a.live.map (·.key) := by
    intro x
    rw [hperm.mem_iff, hN.keys x, List.mem_append, hA x]
  have hKperm : (dropKeys st).Perm (st.a.live.map (·.key)) :=
    (List.perm_ext_iff_of_nodup hKNodup hN.k.nodup).mpr hKmem
  obtain ⟨f1, f2, f3, _, _⟩ := freeKeys_all ho hp (dropKeys st) st.a hN.k hKNodup
    (fun k hk => (hKmem k).mp hk)
  have hlive : (freeKeys orc st.a (dropKeys st)).1.live = [] := by
    cases hl : (freeKeys orc st.a (dropKeys st)).1.live with
    | nil => rfl
    | cons e es =>
      have := (f3 e.key).mp (by rw [hl]; simp)
      exact absurd ((hKmem e.key).mpr this.1) this.2
  refine ⟨hKperm, ?_, ?_, ?_, ?_, ?_⟩
  · simp [drop, f1]
  · simpa [drop] using hlive
  · have := f2.r.inv.acct
    rw [hlive] at this
    simpa [drop] using this
  · simpa [drop] using f2
  · simp only [drop, spending]
    apply List.Perm.map
    rw [← hR.zero]
    exact (List.perm_append_comm).trans (List.Perm.append_left _ hR.pend)

/-! ### reachable states -/

/-- states of the queue-with-memory model reachable from `CQueue::new` by add / cancel / fetch /
    peek, paired with the state of the abstract event set run in lock-step -/
inductive Reach (orc : Nat → Nat) (P n t nsize nlog : Nat) : State → FES.State × Handles → Prop
  | create {st evs} : create orc n t P nsize nlog = (some st, .created, evs) →
      Reach orc P n t nsize nlog st (FES.init, [])
  | step {st ss} (op : CQRun.Op) : Reach orc P n t nsize nlog st ss →
      Reach orc P n t nsize nlog (step orc st op).st (sstep ss op).1

theorem reach_ninv {orc P n t nsize nlog} (ho : OracleOk orc P) (hp : PageOk P) (hn : 1 ≤ n)
    (ht : 1 ≤ t) (hf : Fits P nsize nlog) {st ss} (h : Reach orc P n t nsize nlog st ss) :
    NInv orc P st ss := by
  induction h with
  | create hc =>
    obtain ⟨st', evs', hc', hinv⟩ := create_ninv (orc := orc) ho hp hn ht hf
    rw [hc'] at hc
    simp only [Prod.mk.injEq, Option.some.injEq] at hc
    rw [← hc.1]; exact hinv
  | step op _ ih =>
    obtain ⟨_, _, _, hinv⟩ := step_ninv ho hp ih op
    exact hinv

theorem sentKeys_length (sent : List (Nat × Nat)) : (sentKeys sent).length = 2 * sent.length := by
  induction sent with
  | nil => rfl
  | cons p ps ih => simp only [sentKeys, List.flatMap_cons, List.length_append, List.length_cons,
      List.length_nil] at ih ⊢; omega

end CQMem

/-
Refinement: the model of `Channel` (busy flag, finish time, byte counter, dequeue loop with
fuel) behaves exactly like the abstract FIFO server, step by step and on every script.
-/
import Desverif.Model.ChanRun
namespace ChanRefine
open Chan (Msg Metrics DropB Eff Fate Err State)
open ChanSrv (Srv bytes)
open ChanRun

/-- representation relation between the code's state and the abstract server -/
structure R (s : State) (a : Srv) : Prop where
  busy : s.busy = a.serving.isSome
  finish : s.finish = a.serving.getD 0
  packets : s.packets = a.queue
  acc : s.acc = bytes a.queue

theorem bytes_append (q : List Msg) (m : Msg) : bytes (q ++ [m]) = bytes q + m.len := by
  simp [bytes]

theorem bytes_cons (q : List Msg) (m : Msg) : bytes (m :: q) = m.len + bytes q := by
  simp [bytes]

theorem init_R : R Chan.init ChanSrv.init := ⟨rfl, rfl, rfl, rfl⟩

theorem overLimit_iff (limit : Option Nat) (q : List Msg) (m : Msg) :
    Chan.overLimit limit (bytes q) m.len = true ↔ ¬ ChanSrv.accepts limit q m := by
  cases limit with
  | none => simp [Chan.overLimit, ChanSrv.accepts]
  | some l => simp only [Chan.overLimit, ChanSrv.accepts, decide_eq_true_eq]; omega

/-- `send_message` refines the server's `offer` -/
theorem offer_refines (mt : Metrics) {s : State} {a : Srv} (h : R s a) (now : Nat) (m : Msg) :
    (Chan.sendMessage mt s now m).2 = (ChanSrv.offer mt a now m).2 ∧
    R (Chan.sendMessage mt s now m).1 (ChanSrv.offer mt a now m).1 := by
  obtain ⟨hb, hf, hp, ha⟩ := h
  cases hs : a.serving with
  | some f =>
    have hbusy : s.busy = true := by rw [hb, hs]; rfl
    simp only [Chan.sendMessage, hbusy, if_true, ChanSrv.offer, hs, Chan.handle]
    cases hdb : mt.db with
    | drop => exact ⟨by trivial, ⟨by simp [hbusy, hs], by simp [hf, hs], hp, ha⟩⟩
    | queue limit =>
      simp only []
      by_cases hacc : ChanSrv.accepts limit a.queue m
      · have hov : Chan.overLimit limit s.acc m.len = false := by
          rw [ha]
          cases hh : Chan.overLimit limit (bytes a.queue) m.len with
          | false => rfl
          | true => exact absurd hacc ((overLimit_iff limit a.queue m).mp hh)
        simp only [hov, hacc, if_true, Bool.false_eq_true, if_false]
        refine ⟨by trivial, ⟨by simp [Chan.enqueue, hbusy], by simp [Chan.enqueue, hf, hs],
          by simp [Chan.enqueue, hp], ?_⟩⟩
        simp only [Chan.enqueue, bytes_append, ha]
      · have hov : Chan.overLimit limit s.acc m.len = true := by
          rw [ha]; exact (overLimit_iff limit a.queue m).mpr hacc
        simp only [hov, hacc, if_true, if_false]
        exact ⟨by trivial, ⟨by simp [hbusy, hs], by simp [hf, hs], hp, ha⟩⟩
  | none =>
    have hbusy : s.busy = false := by rw [hb, hs]; rfl
    simp only [Chan.sendMessage, hbusy, Bool.false_eq_true, if_false, ChanSrv.offer, hs,
      Chan.duration, ChanSrv.exitOf]
    by_cases htx : m.tx = 0
    · simp only [htx, ne_eq, not_true_eq_false, if_false, if_true]
      exact ⟨by trivial, ⟨by simp [hbusy, hs], by simp [hf, hs], hp, ha⟩⟩
    · simp only [htx, ne_eq, not_false_eq_true, if_true, if_false]
      exact ⟨by trivial, ⟨by simp, by simp, hp, ha⟩⟩

theorem dequeue_cons (m : Msg) (q : List Msg) :
    Chan.dequeue ⟨false, 0, m :: q, bytes (m :: q)⟩ = .ok (some (m, ⟨false, 0, q, bytes q⟩)) := by
  have h1 : ¬ bytes (m :: q) < m.len := by rw [bytes_cons]; omega
  have h2 : bytes (m :: q) - m.len = bytes q := by rw [bytes_cons]; omega
  simp [Chan.dequeue, h1, h2]

/-- the dequeue loop refines `drain`; the computed fuel suffices and the byte counter never
    underflows -/
theorem loop_refines (mt : Metrics) (now : Nat) :
    ∀ (q : List Msg) (fuel : Nat), q.length < fuel →
      ∃ r, Chan.unbusyLoop mt now fuel ⟨false, 0, q, bytes q⟩ = .ok r ∧
        r.2 = (ChanSrv.drain mt now q).2 ∧ R r.1 (ChanSrv.drain mt now q).1 := by
  intro q
  induction q with
  | nil =>
    intro fuel hfuel
    cases fuel with
    | zero => omega
    | succ fuel =>
      refine ⟨(⟨false, 0, [], bytes []⟩, [], []), ?_, rfl, ⟨rfl, rfl, rfl, rfl⟩⟩
      simp [Chan.unbusyLoop, Chan.dequeue]
  | cons m q ih =>
    intro fuel hfuel
    cases fuel with
    | zero => omega
    | succ fuel =>
      simp only [List.length_cons] at hfuel
      simp only [Chan.unbusyLoop, Bool.false_eq_true, if_false, dequeue_cons]
      by_cases htx : m.tx = 0
      · -- zero transmission time: the channel stays idle, the loop goes on
        have hsend : Chan.sendMessage mt ⟨false, 0, q, bytes q⟩ now m =
            (⟨false, 0, q, bytes q⟩, [ChanSrv.exitOf mt now m], .started) := by
          simp [Chan.sendMessage, htx, Chan.duration, ChanSrv.exitOf]
        obtain ⟨r, hr, hr2, hrR⟩ := ih fuel (by omega)
        rw [hsend]
        simp only [hr]
        refine ⟨_, rfl, ?_, ?_⟩
        · simp only [ChanSrv.drain, htx, if_true, ← hr2]; rfl
        · simp only [ChanSrv.drain, htx, if_true]; exact hrR
      · have hsend : Chan.sendMessage mt ⟨false, 0, q, bytes q⟩ now m =
            (⟨true, now + m.tx, q, bytes q⟩,
             [ChanSrv.exitOf mt now m, .unbusyAt (now + m.tx)], .started) := by
          simp [Chan.sendMessage, htx, Chan.duration, ChanSrv.exitOf]
        rw [hsend]
        cases fuel with
        | zero => omega
        | succ fuel =>
          simp only [Chan.unbusyLoop, if_true]
          refine ⟨_, rfl, ?_, ?_⟩
          · simp only [ChanSrv.drain, htx, if_false]; rfl
          · simp only [ChanSrv.drain, htx, if_false]
            exact ⟨rfl, rfl, rfl, rfl⟩

/-- `Channel::unbusy` refines the server's `unbusy` and never fails -/
theorem unbusy_refines (mt : Metrics) {s : State} {a : Srv} (h : R s a) (now : Nat) :
    ∃ r, Chan.unbusy mt s now = .ok r ∧ r.2 = (ChanSrv.unbusy mt a now).2 ∧
      R r.1 (ChanSrv.unbusy mt a now).1 := by
  have hs : ({ s with busy := false, finish := 0 } : State) = ⟨false, 0, a.queue, bytes a.queue⟩ := by
    have h1 := h.packets; have h2 := h.acc
    cases s; simp only at h1 h2; subst h1 h2; rfl
  have := loop_refines mt now a.queue (s.packets.length + 1) (by rw [h.packets]; omega)
  simp only [Chan.unbusy, hs]
  exact this

/-- worlds agree on everything but the representation of the channel -/
structure WR (wm : World State) (ws : World Srv) : Prop where
  clock : wm.clock = ws.clock
  chan : R wm.chan ws.chan
  pend : wm.pend = ws.pend
  exits : wm.exits = ws.exits
  offered : wm.offered = ws.offered
  started : wm.started = ws.started
  dropBusy : wm.dropBusy = ws.dropBusy
  dropFull : wm.dropFull = ws.dropFull
  kq : wm.kq = ws.kq
  delivered : wm.delivered = ws.delivered

theorem init_WR : WR (World.init model) (World.init spec) :=
  ⟨rfl, init_R, rfl, rfl, rfl, rfl, rfl, rfl, rfl, rfl⟩

/-- outcome of a step / run of the model against the one of the spec -/
def Agree : Except RErr (World State) → Except RErr (World Srv) → Prop
  | .ok wm, .ok ws => WR wm ws
  | .error e, .error e' => e = e'
  | _, _ => False

theorem step_refines (mt : Metrics) {wm : World State} {ws : World Srv} (h : WR wm ws) (op : Op) :
    Agree (step model mt wm op) (step spec mt ws op) := by
  obtain ⟨hc, hR, hp, he, ho, hs, hdb, hdf, hk, hd⟩ := h
  cases op with
  | offer t m =>
    simp only [step, hc, hp, hk]
    by_cases h1 : t < ws.clock
    · simp [h1, Agree]
    · simp only [h1, if_false]
      by_cases h2 : ws.pend.any (· < t) = true
      · simp [h2, Agree]
      · simp only [h2, Bool.false_eq_true, if_false]
        by_cases h3 : ws.kq.any (·.time < t) = true
        · simp [h3, Agree]
        simp only [h3, Bool.false_eq_true, if_false]
        obtain ⟨e1, e2⟩ := offer_refines mt hR t m
        simp only [model, spec, Agree, advance]
        have e1a : (Chan.sendMessage mt wm.chan t m).2.1 = (ChanSrv.offer mt ws.chan t m).2.1 := by rw [e1]
        have e1b : (Chan.sendMessage mt wm.chan t m).2.2 = (ChanSrv.offer mt ws.chan t m).2.2 := by rw [e1]
        exact ⟨rfl, e2, by rw [e1a], by rw [he, e1a], by rw [ho], by rw [hs, e1b],
          by rw [hdb, e1b], by rw [hdf, e1b], by rw [e1a], hd⟩
  | deliver =>
    simp only [step, hk, hc]
    cases hkm : kmin ws.kq with
    | none => simp [Agree]
    | some ev =>
      cases ev with
      | unbusy u => simp [Agree]
      | exit e =>
        simp only []
        by_cases h1 : e.time < ws.clock
        · simp [h1, Agree]
        · simp only [h1, if_false, Agree]
          exact ⟨rfl, hR, hp, he, ho, hs, hdb, hdf, rfl, by show wm.delivered ++ _ = ws.delivered ++ _; rw [hd]⟩
  | unbusy =>
    simp only [step, hp, hc, hk]
    cases hpm : popMin ws.pend with
    | none => simp [Agree]
    | some ur =>
      obtain ⟨u, rest⟩ := ur
      simp only []
      by_cases h1 : u < ws.clock
      · simp [h1, Agree]
      · simp only [h1, if_false]
        by_cases h3 : kmin ws.kq = some (.unbusy u)
        case neg => simp [h3, Agree]
        simp only [h3, ne_eq, not_true_eq_false, if_false]
        obtain ⟨r, hr, hr2, hrR⟩ := unbusy_refines mt hR u
        simp only [model, spec, hr, Agree, advance]
        have e1a : r.2.1 = (ChanSrv.unbusy mt ws.chan u).2.1 := by rw [hr2]
        have e1b : r.2.2 = (ChanSrv.unbusy mt ws.chan u).2.2 := by rw [hr2]
        exact ⟨rfl, hrR, by rw [e1a], by rw [he, e1a], by rw [ho], by rw [hs, e1b],
          by rw [hdb, e1b], by rw [hdf, e1b], by rw [e1a], hd⟩

theorem runFrom_refines (mt : Metrics) (ops : List Op) :
    ∀ {wm : World State} {ws : World Srv}, WR wm ws →
      Agree (runFrom model mt wm ops) (runFrom spec mt ws ops) := by
  induction ops with
  | nil => intro wm ws h; exact h
  | cons op ops ih =>
    intro wm ws h
    have hstep := step_refines mt h op
    simp only [runFrom]
    cases h1 : step model mt wm op with
    | error e =>
      cases h2 : step spec mt ws op with
      | error e' => rw [h1, h2] at hstep; exact hstep
      | ok w => rw [h1, h2] at hstep; exact hstep.elim
    | ok w =>
      cases h2 : step spec mt ws op with
      | error e' => rw [h1, h2] at hstep; exact hstep.elim
      | ok w' => rw [h1, h2] at hstep; exact ih hstep

theorem run_refines (mt : Metrics) (ops : List Op) : Agree (mrun mt ops) (srun mt ops) :=
  runFrom_refines mt ops init_WR

/-- a successful model run has a matching successful spec run -/
theorem mrun_ok {mt : Metrics} {ops : List Op} {wm : World State} (h : mrun mt ops = .ok wm) :
    ∃ ws, srun mt ops = .ok ws ∧ WR wm ws := by
  have := run_refines mt ops
  rw [h] at this
  cases h2 : srun mt ops with
  | error e => rw [h2] at this; exact this.elim
  | ok ws => rw [h2] at this; exact ⟨ws, rfl, this⟩

/-- the spec never reports a channel-internal error -/
theorem spec_step_no_chan_err (mt : Metrics) (w : World Srv) (op : Op) (e : Err) :
    step spec mt w op ≠ .error (.chan e) := by
  cases op with
  | offer t m =>
    simp only [step]
    split
    · simp
    · split
      · simp
      · split <;> simp
  | deliver =>
    simp only [step]
    split
    · split <;> simp
    · simp
    · simp
  | unbusy =>
    simp only [step]
    split
    · simp
    · split
      · simp
      · split
        · simp
        · simp [spec]

theorem spec_runFrom_no_chan_err (mt : Metrics) (ops : List Op) :
    ∀ (w : World Srv) (e : Err), runFrom spec mt w ops ≠ .error (.chan e) := by
  induction ops with
  | nil => intro w e; simp [runFrom]
  | cons op ops ih =>
    intro w e
    simp only [runFrom]
    cases h : step spec mt w op with
    | error e' =>
      simp only []
      intro heq
      have : e' = RErr.chan e := by injection heq
      exact spec_step_no_chan_err mt w op e (by rw [h, this])
    | ok w' => exact ih w' e

end ChanRefine

/-
Registration invariant of one poll: every `Sleep` owned by the running future that holds a handle
has its entry in the module's queue (so the wake-up invariant protects it), given that it had before
the poll; no other part of the poll can remove that entry because ids are unique.
-/
import Desverif.Proofs.TimerEvoPoll
import Desverif.Proofs.TimerFire
namespace Timer

/-- shape of futures the interpreter produces: the not yet started parts own no `Sleep` -/
def WF : Fut → Prop
  | .timeout _ e => ids e = [] ∧ WF e
  | .timeoutRun _ e => WF e
  | .select a b => WF a ∧ WF b
  | .seq a b => WF a ∧ WF b ∧ ids b = []
  | _ => True

def WFO : Option Fut → Prop
  | none => True
  | some f => WF f

def ownO : Option Fut → List Sleep
  | none => []
  | some f => own f

theorem wf_timeoutStep (s : Sleep) (r : Option Fut × Ctx) (h : WFO r.1) : WFO (timeoutStep s r).1 := by
  obtain ⟨re, c1⟩ := r
  cases re with
  | none => simp [timeoutStep, WFO]
  | some e' =>
    simp only [timeoutStep]
    split
    · simp [WFO]
    · exact h

theorem wf_pollSleep (s : Sleep) (c : Ctx) (k : String) : WFO (pollSleep s c k).1 := by
  unfold pollSleep
  simp only
  split <;> simp [WFO, WF]

theorem wf_poll (f : Fut) : ∀ c : Ctx, WF f → WFO (poll f c).1 := by
  induction f with
  | sleep d => intro c _; exact wf_pollSleep _ _ _
  | until_ t => intro c _; exact wf_pollSleep _ _ _
  | sleeping s => intro c _; exact wf_pollSleep _ _ _
  | timeout d e ih => intro c h; simp only [poll]; exact wf_timeoutStep _ _ (ih _ h.2)
  | timeoutRun s e ih => intro c h; simp only [poll]; exact wf_timeoutStep _ _ (ih _ h)
  | select a b iha ihb =>
    intro c h
    simp only [poll]
    have h1 := iha c h.1
    rcases hpa : poll a c with ⟨ra, c1⟩
    rw [hpa] at h1
    cases ra with
    | none => simp [WFO]
    | some a' =>
      simp only
      have h2 := ihb c1 h.2
      rcases hpb : poll b c1 with ⟨rb, c2⟩
      rw [hpb] at h2
      cases rb with
      | none => simp [WFO]
      | some b' => exact ⟨h1, h2⟩
  | seq a b iha ihb =>
    intro c h
    simp only [poll]
    have h1 := iha c h.1
    rcases hpa : poll a c with ⟨ra, c1⟩
    rw [hpa] at h1
    cases ra with
    | none => exact ihb c1 h.2.1
    | some a' => exact ⟨h1, h.2.1, h.2.2⟩
  | pollOnce x => intro c _; simp only [poll]; split <;> (try split) <;> simp [WFO]
  | reset x d => intro c _; simp only [poll]; split <;> simp [WFO]
  | resetu x t => intro c _; simp only [poll]; split <;> simp [WFO]
  | drop x => intro c _; simp only [poll]; split <;> simp [WFO]
  | await x => intro c _; simp only [poll]; split <;> (try split) <;> simp [WFO, WF]
  | tick x => intro c _; simp only [poll]; split <;> (try split) <;> simp [WFO, WF]
  | ireset x => intro c _; simp only [poll]; split <;> simp [WFO]
  | restart d => intro c _; simp only [poll]; split <;> simp [WFO]
  | _ => intro c _; simp [poll, WFO, Ctx.bind]

/-! ### entries of registered sleeps -/

/-- the queue as it will be once the operations emitted so far are applied to the state `A`
    (the module's driver right after `activate`) -/
def Qof (A : State) (c : Ctx) : List Slot := (applyOps A c.ops).pending

/-- before its poll at `now`: a sleep with a handle is not overdue and, unless due right now, has
    its entry in the queue; `armed` (being waited on) implies handle and lies before the deadline -/
def InS (Q : List Slot) (i now : Nat) (s : Sleep) : Prop :=
  (∀ a, s.armed = some a → a < s.deadline ∧ s.handle.isSome) ∧
  (s.handle.isSome → now ≤ s.deadline ∧ (now < s.deadline → HasEntry Q s.deadline ⟨s.id, i⟩))

/-- after the poll at `now` (it was pending): the entry is in the queue -/
def OutS (Q : List Slot) (i now : Nat) (s : Sleep) : Prop :=
  (∀ a, s.armed = some a → a < s.deadline ∧ s.handle.isSome) ∧
  (s.handle.isSome → now < s.deadline ∧ HasEntry Q s.deadline ⟨s.id, i⟩)

theorem touches_sid {o : Op} {sid : Nat} (h : o.touches sid = true) : opSid o = sid := by
  cases o <;> simp_all [Op.touches, opSid]

theorem applyOps_append (t : State) (a b : List Op) : applyOps t (a ++ b) = applyOps (applyOps t a) b := by
  simp [applyOps, List.foldl_append]

/-- an entry whose id is neither in the polled term, nor in the environment, nor fresh survives the poll -/
theorem Evo.keep {g : Fut} {c c' : Ctx} {r : Option Fut} (E : Evo g c r c') (A : State) {sid d i : Nat}
    (h1 : sid ∉ ids g) (h2 : sid ∉ envIds c.env) (h3 : sid < c.nextId)
    (h : HasEntry (Qof A c) d ⟨sid, i⟩) : HasEntry (Qof A c') d ⟨sid, i⟩ := by
  obtain ⟨δ, hδ, hs⟩ := E.frame
  unfold Qof at *
  rw [hδ, applyOps_append]
  apply hasEntry_applyOps _ h
  intro o ho
  cases ht : o.touches sid with
  | false => rfl
  | true =>
    have := touches_sid ht
    rcases hs o ho with h' | h' | h'
    · rw [this] at h'; exact absurd h' h1
    · rw [this] at h'; exact absurd h' h2
    · rw [this] at h'; omega

theorem sleep_poll_no_touch (s : Sleep) (tid now sid : Nat) : ∀ o ∈ (s.poll tid now).2.1, o.touches sid = false := by
  unfold Sleep.poll
  split
  · cases s.handle with
    | none => intro o ho; simp at ho; subst ho; rfl
    | some _ => intro o ho; simp at ho
  · intro o ho; simp at ho

/-- polling a sleep that stays pending: it is registered afterwards -/
theorem reg_sleep_poll (T : State) (i now : Nat) (s : Sleep) (hin : InS T.pending i now s)
    (hp : (s.poll i now).2.2 = false) :
    OutS (applyOps T (s.poll i now).2.1).pending i now (s.poll i now).1 := by
  have hlt : now < s.deadline := by
    apply Nat.lt_of_not_le
    intro hle
    have := (sleep_poll_ready s i now).mpr hle
    rw [hp] at this; cases this
  unfold Sleep.poll
  rw [if_pos hlt]
  cases hh : s.handle with
  | none =>
    simp only [applyOps, List.foldl_cons, List.foldl_nil, applyOp]
    refine ⟨?_, fun _ => ⟨hlt, add_has _ _ _⟩⟩
    intro a ha
    simp only [Option.some.injEq] at ha
    refine ⟨?_, rfl⟩
    show a < s.deadline
    unfold Sleep.since at ha
    cases har : s.armed with
    | none => rw [har] at ha; simp at ha; omega
    | some a' =>
      have := (hin.1 a' har).2
      rw [hh] at this; cases this
  | some h =>
    simp only [applyOps, List.foldl_nil]
    refine ⟨?_, fun _ => ⟨hlt, (hin.2 (by rw [hh]; rfl)).2 hlt⟩⟩
    intro a ha
    simp only [Option.some.injEq] at ha
    refine ⟨?_, rfl⟩
    show a < s.deadline
    unfold Sleep.since at ha
    cases har : s.armed with
    | none => rw [har] at ha; simp at ha; omega
    | some a' => rw [har] at ha; simp at ha; have := (hin.1 a' har).1; omega

theorem fresh_inS (Q : List Slot) (i now id dl : Nat) : InS Q i now { id := id, deadline := dl } :=
  ⟨(by intro a ha; cases ha), (by intro h; cases h)⟩

theorem outS_mono {Q Q' : List Slot} {i now : Nat} {s : Sleep} (h : OutS Q i now s)
    (hq : HasEntry Q s.deadline ⟨s.id, i⟩ → HasEntry Q' s.deadline ⟨s.id, i⟩) : OutS Q' i now s :=
  ⟨h.1, fun hh => ⟨(h.2 hh).1, hq (h.2 hh).2⟩⟩

theorem inS_mono {Q Q' : List Slot} {i now : Nat} {s : Sleep} (h : InS Q i now s)
    (hq : HasEntry Q s.deadline ⟨s.id, i⟩ → HasEntry Q' s.deadline ⟨s.id, i⟩) : InS Q' i now s :=
  ⟨h.1, fun hh => ⟨(h.2 hh).1, fun hlt => hq ((h.2 hh).2 hlt)⟩⟩

theorem poll_tid (f : Fut) (c : Ctx) : (poll f c).2.tid = c.tid := (moves_poll f (Moves.refl c)).tid

theorem pollSleep_reg (A : State) (s : Sleep) (c : Ctx) (k : String) (hin : InS (Qof A c) c.tid c.now s) :
    ∀ s' ∈ ownO (pollSleep s c k).1, OutS (Qof A (pollSleep s c k).2) c.tid c.now s' := by
  unfold pollSleep
  simp only
  split
  · intro s' hs'; cases hs'
  · rename_i hr
    intro s' hs'
    simp only [ownO, own, List.mem_singleton] at hs'
    subst hs'
    have := reg_sleep_poll (applyOps A c.ops) c.tid c.now s hin (by simpa using hr)
    unfold Qof
    rw [ev_emit_ops, applyOps_append]
    exact this

theorem timeoutStep_reg (A : State) (s : Sleep) (r : Option Fut × Ctx) (i now : Nat) (hnow : r.2.now = now)
    (htid : r.2.tid = i) (hs : InS (Qof A r.2) i now s) (he : ∀ s' ∈ ownO r.1, OutS (Qof A r.2) i now s') :
    ∀ s' ∈ ownO (timeoutStep s r).1, OutS (Qof A (timeoutStep s r).2) i now s' := by
  obtain ⟨re, c1⟩ := r
  simp only at hnow htid hs he
  cases re with
  | none => intro s' hs'; simp [timeoutStep, ownO] at hs'
  | some e' =>
    simp only [timeoutStep, Timeout.poll, Bool.false_eq_true, if_false]
    have hreg := reg_sleep_poll (applyOps A c1.ops) i now s hs
    have hnt := sleep_poll_no_touch s i now
    rw [htid, hnow]
    rcases hp : s.poll i now with ⟨s1, ops, rr⟩
    rw [hp] at hreg hnt
    simp only at hreg hnt ⊢
    cases rr with
    | true => intro s' hs'; simp [ownO] at hs'
    | false =>
      simp only [Bool.false_eq_true, if_false]
      intro s' hs'
      simp only [ownO, own, List.mem_cons] at hs'
      unfold Qof
      rw [ev_emit_ops, applyOps_append]
      rcases hs' with rfl | hs'
      · exact hreg rfl
      · exact outS_mono (he s' hs') (fun h => hasEntry_applyOps (fun o ho => hnt s'.id o ho) h)

/-- ids of the term and of the environment are pairwise distinct -/
def Uq (f : Fut) (c : Ctx) : Prop := ∀ x, (ids f).count x + (envIds c.env).count x ≤ 1

theorem own_id_count {f : Fut} {s : Sleep} (h : s ∈ own f) : 0 < (ids f).count s.id :=
  count_pos_of_mem (List.mem_map_of_mem h)

theorem ownO_id_count {r : Option Fut} {s : Sleep} (h : s ∈ ownO r) : 0 < (idsO r).count s.id := by
  cases r with
  | none => cases h
  | some f => exact own_id_count h

theorem not_mem_of_count_zero {l : List Nat} {x : Nat} (h : l.count x = 0) : x ∉ l := by
  intro hm; have := count_pos_of_mem hm; omega

theorem own_nil_of_ids_nil {f : Fut} (h : ids f = []) : own f = [] := by
  unfold ids at h
  exact List.map_eq_nil_iff.mp h

/-- **registration invariant of one poll** -/
theorem reg_poll (A : State) (f : Fut) : ∀ c : Ctx, WF f → Bd f c → Uq f c →
    (∀ s ∈ own f, InS (Qof A c) c.tid c.now s) →
    ∀ s ∈ ownO (poll f c).1, OutS (Qof A (poll f c).2) c.tid c.now s := by
  induction f with
  | sleep d =>
    intro c _ _ _ _
    exact pollSleep_reg A _ { c with nextId := c.nextId + 1 } "s" (fresh_inS _ _ _ _ _)
  | until_ t =>
    intro c _ _ _ _
    exact pollSleep_reg A _ { c with nextId := c.nextId + 1 } "s" (fresh_inS _ _ _ _ _)
  | sleeping s =>
    intro c _ _ _ hin
    exact pollSleep_reg A s c "s" (hin s (by simp [own]))
  | timeout d e ih =>
    intro c hwf hb hu _
    simp only [poll]
    have hbe : Bd e { c with nextId := c.nextId + 1 } := by
      intro x hx
      have := hb x (by simp only at hx; omega)
      simpa using this
    have hue : Uq e { c with nextId := c.nextId + 1 } := fun x => by simpa using hu x
    have he := ih { c with nextId := c.nextId + 1 } hwf.2 hbe hue
      (by rw [own_nil_of_ids_nil hwf.1]; intro s hs; cases hs)
    exact timeoutStep_reg A _ _ c.tid c.now (poll_now e _) (poll_tid e _) (fresh_inS _ _ _ _ _) he
  | timeoutRun s e ih =>
    intro c hwf hb hu hin
    simp only [poll]
    have hbe : Bd e c := by
      intro x hx
      have := hb x hx
      simp only [ids_timeoutRun, List.count_cons, beq_iff_eq] at this
      exact ⟨by omega, this.2⟩
    have hue : Uq e c := by
      intro x
      have := hu x
      simp only [ids_timeoutRun, List.count_cons, beq_iff_eq] at this
      omega
    have he := ih c hwf hbe hue (fun s' hs' => hin s' (by simp [own, hs']))
    have Ee := evo_poll e c hbe
    refine timeoutStep_reg A s _ c.tid c.now (poll_now e _) (poll_tid e _) ?_ he
    refine inS_mono (hin s (by simp [own])) (Ee.keep A ?_ ?_ ?_)
    · have := hu s.id
      simp only [ids_timeoutRun, List.count_cons, beq_self_eq_true, if_true] at this
      exact not_mem_of_count_zero (by omega)
    · have := hu s.id
      simp only [ids_timeoutRun, List.count_cons, beq_self_eq_true, if_true] at this
      exact not_mem_of_count_zero (by omega)
    · apply Nat.lt_of_not_le
      intro hle
      have := (hb s.id hle).1
      simp at this
  | select a b iha ihb =>
    intro c hwf hb hu hin
    have hb' := hb
    simp only [ids_select, Bd] at hb'
    obtain ⟨hba, hbb⟩ := bd_left hb'
    have hua : Uq a c := by
      intro x; have := hu x; simp only [ids_select, List.count_append] at this; omega
    have Ea := evo_poll a c hba
    have ha := iha c hwf.1 hba hua (fun s hs => hin s (by simp [own, hs]))
    have hn1 := poll_now a c
    have ht1 := poll_tid a c
    simp only [poll]
    rcases hpa : poll a c with ⟨ra, c1⟩
    rw [hpa] at Ea ha hn1 ht1
    simp only at Ea ha hn1 ht1
    cases ra with
    | none => intro s hs; simp [ownO] at hs
    | some a' =>
      simp only
      have hbb1 : Bd b c1 := Ea.bd_next hbb
      have hub : Uq b c1 := by
        intro x
        have h0 := hu x
        simp only [ids_select, List.count_append] at h0
        by_cases hx : x < c.nextId
        · have := (Ea.old x hx).2; omega
        · have h1 := hbb x (by omega)
          by_cases hx1 : x < c1.nextId
          · have := Ea.mid x (by omega) hx1; omega
          · have := (Ea.hi x (by omega)).2; omega
      have hinb : ∀ s ∈ own b, InS (Qof A c1) c1.tid c1.now s := by
        intro s hs
        rw [ht1, hn1]
        have hc := own_id_count hs
        have h0 := hu s.id
        simp only [ids_select, List.count_append] at h0
        refine inS_mono (hin s (by simp [own, hs])) (Ea.keep A ?_ ?_ ?_)
        · exact not_mem_of_count_zero (by omega)
        · exact not_mem_of_count_zero (by omega)
        · apply Nat.lt_of_not_le
          intro hle
          have := hbb s.id hle
          omega
      have Eb := evo_poll b c1 hbb1
      have hbo := ihb c1 hwf.2 hbb1 hub hinb
      rw [ht1, hn1] at hbo
      rcases hpb : poll b c1 with ⟨rb, c2⟩
      rw [hpb] at Eb hbo
      simp only at Eb hbo
      cases rb with
      | none => intro s hs; simp [ownO] at hs
      | some b' =>
        simp only
        intro s hs
        simp only [ownO, own, List.mem_append] at hs
        rcases hs with hs | hs
        · -- a sleep of `a'`: its entry survives the poll of `b`
          have hc : 0 < (idsO (some a')).count s.id := ownO_id_count (r := some a') hs
          have hlt : s.id < c1.nextId := by
            apply Nat.lt_of_not_le
            intro hle
            have := (Ea.hi s.id hle).1; omega
          have hz : (ids b).count s.id = 0 ∧ (envIds c1.env).count s.id = 0 := by
            by_cases hx : s.id < c.nextId
            · have h1 := Ea.old s.id hx
              have h0 := hu s.id
              simp only [ids_select, List.count_append] at h0
              exact ⟨by omega, by omega⟩
            · have h1 := Ea.mid s.id (by omega) hlt
              have h2 := hbb s.id (by omega)
              exact ⟨h2, by omega⟩
          exact outS_mono (ha s hs) (Eb.keep A (not_mem_of_count_zero hz.1) (not_mem_of_count_zero hz.2) hlt)
        · exact hbo s hs
  | seq a b iha ihb =>
    intro c hwf hb hu hin
    have hb' := hb
    simp only [ids_seq, Bd] at hb'
    obtain ⟨hba, hbb⟩ := bd_left hb'
    have hua : Uq a c := by
      intro x; have := hu x; simp only [ids_seq, List.count_append] at this; omega
    have Ea := evo_poll a c hba
    have ha := iha c hwf.1 hba hua (fun s hs => hin s (by simp [own, hs]))
    simp only [poll]
    rcases hpa : poll a c with ⟨ra, c1⟩
    rw [hpa] at Ea ha
    simp only at Ea ha
    have hn1 : c1.now = c.now := by have := poll_now a c; rw [hpa] at this; exact this
    have ht1 : c1.tid = c.tid := by have := poll_tid a c; rw [hpa] at this; exact this
    cases ra with
    | none =>
      simp only
      have hub : Uq b c1 := by
        intro x
        rw [hwf.2.2]
        simp only [List.count_nil]
        by_cases hx : x < c.nextId
        · have := (Ea.old x hx).2; have := hu x; omega
        · by_cases hx1 : x < c1.nextId
          · have := Ea.mid x (by omega) hx1; omega
          · have := (Ea.hi x (by omega)).2; omega
      have := ihb c1 hwf.2.1 (Ea.bd_next hbb) hub
        (by rw [own_nil_of_ids_nil hwf.2.2]; intro s hs; cases hs)
      rw [ht1, hn1] at this
      exact this
    | some a' =>
      simp only
      intro s hs
      simp only [ownO, own, own_nil_of_ids_nil hwf.2.2, List.append_nil] at hs
      exact ha s hs
  | nop => intro c _ _ _ _ s hs; simp [poll, ownO] at hs
  | new x d => intro c _ _ _ _ s hs; simp [poll, ownO] at hs
  | newu x t => intro c _ _ _ _ s hs; simp [poll, ownO] at hs
  | inew x p m d => intro c _ _ _ _ s hs; simp [poll, ownO] at hs
  | halt => intro c _ _ _ _ s hs; simp [poll, ownO] at hs
  | pollOnce x => intro c _ _ _ _ s hs; simp only [poll] at hs; split at hs <;> (try split at hs) <;> simp [ownO] at hs
  | reset x d => intro c _ _ _ _ s hs; simp only [poll] at hs; split at hs <;> simp [ownO] at hs
  | resetu x t => intro c _ _ _ _ s hs; simp only [poll] at hs; split at hs <;> simp [ownO] at hs
  | drop x => intro c _ _ _ _ s hs; simp only [poll] at hs; split at hs <;> simp [ownO] at hs
  | await x =>
    intro c _ _ _ _ s hs; simp only [poll] at hs
    split at hs <;> (try split at hs) <;> simp [ownO, own] at hs
  | tick x =>
    intro c _ _ _ _ s hs; simp only [poll] at hs
    split at hs <;> (try split at hs) <;> simp [ownO, own] at hs
  | ireset x => intro c _ _ _ _ s hs; simp only [poll] at hs; split at hs <;> simp [ownO] at hs
  | restart d => intro c _ _ _ _ s hs; simp only [poll] at hs; split at hs <;> simp [ownO] at hs

end Timer

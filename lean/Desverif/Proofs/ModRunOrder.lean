/-
Order of the callbacks of `ModTree.run`: start stages, then events, then tear-down.
-/
import Desverif.Model.ModRun
namespace ModTree

variable {σ : Type} (E : Rt.ES σ)

theorem runActs_sched (s : Rt.State σ) : ∀ (as : List Rt.Act) (o : Rt.Obs),
    o ∈ (Rt.runActs E s as).2 → ∃ n t ok, o = .sched n t ok := by
  intro as
  induction as generalizing s with
  | nil => intro o h; simp [Rt.runActs] at h
  | cons a as ih =>
    intro o h
    simp only [Rt.runActs, List.mem_cons] at h
    rcases h with rfl | h
    · unfold Rt.addEvent
      split
      · exact ⟨_, _, _, rfl⟩
      · split <;> exact ⟨_, _, _, rfl⟩
    · exact ih _ o h

/-- the start phase makes no `stop` and no `handled` callback, and its `start` callbacks are the calls -/
theorem startPhase_log (acts : Mod → Nat → List Rt.Act) : ∀ (calls : List (Mod × Nat)) (s : Rt.State σ),
    (∀ c ∈ (startPhase E acts s calls).2, c.isStop = false ∧ c.isHandled = false) ∧
    (startPhase E acts s calls).2.filterMap Cb.startOf = calls := by
  intro calls
  induction calls with
  | nil => intro s; simp [startPhase]
  | cons c cs ih =>
    intro s
    obtain ⟨m, stage⟩ := c
    have h := ih (Rt.runActs E s (acts m stage)).1
    have hk : ∀ o ∈ (Rt.runActs E s (acts m stage)).2, (Cb.kernel o).isStop = false ∧ (Cb.kernel o).isHandled = false := by
      intro o ho
      obtain ⟨n, t, ok, rfl⟩ := runActs_sched E s _ o ho
      exact ⟨rfl, rfl⟩
    have hf : ((Rt.runActs E s (acts m stage)).2.map Cb.kernel).filterMap Cb.startOf = [] := by
      apply List.filterMap_eq_nil_iff.mpr
      intro c hc
      obtain ⟨o, _, rfl⟩ := List.mem_map.mp hc
      rfl
    constructor
    · intro c hc
      simp only [startPhase, List.mem_cons, List.mem_append, List.mem_map] at hc
      rcases hc with (rfl | ⟨o, ho, rfl⟩) | hc
      · exact ⟨rfl, rfl⟩
      · exact hk o ho
      · exact h.1 c hc
    · simp only [startPhase, List.filterMap_cons, Cb.startOf, List.filterMap_append, hf, h.2]
      rfl

/-- **Shape of the run log**: a prefix without `stop` callbacks that contains all start and event
    callbacks, followed by exactly the tear-down calls. -/
theorem runWith_split (prog : Rt.Prog) (fuel : Nat) (acts : Mod → Nat → List Rt.Act)
    (s0 : Rt.State σ) (calls : List (Mod × Nat)) (ends : List Mod) :
    ∃ pre, (runWith E prog fuel acts s0 calls ends).2 = pre ++ ends.map Cb.stop ∧
      (∀ c ∈ pre, c.isStop = false) ∧ pre.filterMap Cb.startOf = calls := by
  refine ⟨(startPhase E acts s0 calls).2 ++
    (Rt.dispatchAll E prog fuel (startPhase E acts s0 calls).1).2.map Cb.kernel, rfl, ?_, ?_⟩
  · intro c hc
    rcases List.mem_append.mp hc with h | h
    · exact ((startPhase_log E acts calls s0).1 c h).1
    · obtain ⟨o, _, rfl⟩ := List.mem_map.mp h
      rfl
  · rw [List.filterMap_append, (startPhase_log E acts calls s0).2]
    have : ((Rt.dispatchAll E prog fuel (startPhase E acts s0 calls).1).2.map Cb.kernel).filterMap
        Cb.startOf = [] := by
      apply List.filterMap_eq_nil_iff.mpr
      intro c hc
      obtain ⟨o, _, rfl⟩ := List.mem_map.mp hc
      rfl
    rw [this, List.append_nil]

theorem getElem?_split {β : Type} (pre suf : List β) (P : β → Prop)
    (hpre : ∀ c ∈ pre, ¬ P c) (hsuf : ∀ c ∈ suf, P c) (i j : Nat) (a b : β)
    (hi : (pre ++ suf)[i]? = some a) (ha : P a) (hj : (pre ++ suf)[j]? = some b) (hb : ¬ P b) :
    j < i := by
  have hi' : pre.length ≤ i := by
    apply Nat.le_of_not_lt
    intro h
    rw [List.getElem?_append_left h] at hi
    exact hpre a (List.mem_of_getElem? hi) ha
  have hj' : j < pre.length := by
    apply Nat.lt_of_not_le
    intro h
    rw [List.getElem?_append_right h] at hj
    exact hb (hsuf b (List.mem_of_getElem? hj))
  omega

/-- the `stop` callbacks of the log are exactly the tear-down calls, in order -/
theorem runWith_stops (prog : Rt.Prog) (fuel : Nat) (acts : Mod → Nat → List Rt.Act)
    (s0 : Rt.State σ) (calls : List (Mod × Nat)) (ends : List Mod) :
    (runWith E prog fuel acts s0 calls ends).2.filterMap Cb.stopOf = ends := by
  obtain ⟨pre, e, hpre, _⟩ := runWith_split E prog fuel acts s0 calls ends
  rw [e, List.filterMap_append]
  have h1 : pre.filterMap Cb.stopOf = [] := by
    apply List.filterMap_eq_nil_iff.mpr
    intro c hc
    have := hpre c hc
    cases c <;> simp_all [Cb.isStop, Cb.stopOf]
  have h2 : ∀ l : List Mod, (l.map Cb.stop).filterMap Cb.stopOf = l := by
    intro l
    induction l with
    | nil => rfl
    | cons x xs ih => simp only [List.map_cons, List.filterMap_cons, Cb.stopOf, ih]
  rw [h1, h2 ends, List.nil_append]

/-- the `start` callbacks of the log are exactly the start-up calls, in order -/
theorem runWith_starts (prog : Rt.Prog) (fuel : Nat) (acts : Mod → Nat → List Rt.Act)
    (s0 : Rt.State σ) (calls : List (Mod × Nat)) (ends : List Mod) :
    (runWith E prog fuel acts s0 calls ends).2.filterMap Cb.startOf = calls := by
  obtain ⟨pre, e, _, hst⟩ := runWith_split E prog fuel acts s0 calls ends
  rw [e, List.filterMap_append, hst]
  have h2 : (ends.map Cb.stop).filterMap Cb.startOf = [] := by
    apply List.filterMap_eq_nil_iff.mpr
    intro c hc
    obtain ⟨o, _, rfl⟩ := List.mem_map.mp hc
    rfl
  rw [h2, List.append_nil]

theorem getElem?_split2 {β : Type} (pre suf : List β) (P Q : β → Prop)
    (hpre : ∀ c ∈ pre, ¬ Q c) (hsuf : ∀ c ∈ suf, ¬ P c) (i j : Nat) (a b : β)
    (hi : (pre ++ suf)[i]? = some a) (ha : P a) (hj : (pre ++ suf)[j]? = some b) (hb : Q b) :
    i < j := by
  have hi' : i < pre.length := by
    apply Nat.lt_of_not_le
    intro h
    rw [List.getElem?_append_right h] at hi
    exact hsuf a (List.mem_of_getElem? hi) ha
  have hj' : pre.length ≤ j := by
    apply Nat.le_of_not_lt
    intro h
    rw [List.getElem?_append_left h] at hj
    exact hpre b (List.mem_of_getElem? hj) hb
  omega

/-- the start phase comes first: no message handler runs inside it, no start call after it -/
theorem runWith_split_start (prog : Rt.Prog) (fuel : Nat) (acts : Mod → Nat → List Rt.Act)
    (s0 : Rt.State σ) (calls : List (Mod × Nat)) (ends : List Mod) :
    ∃ l1 rest, (runWith E prog fuel acts s0 calls ends).2 = l1 ++ rest ∧
      (∀ c ∈ l1, c.isHandled = false) ∧ (∀ c ∈ rest, c.startOf = none) := by
  refine ⟨(startPhase E acts s0 calls).2,
    (Rt.dispatchAll E prog fuel (startPhase E acts s0 calls).1).2.map Cb.kernel ++ ends.map Cb.stop,
    by simp [runWith], ?_, ?_⟩
  · intro c hc
    exact ((startPhase_log E acts calls s0).1 c hc).2
  · intro c hc
    rcases List.mem_append.mp hc with h | h
    · obtain ⟨o, _, rfl⟩ := List.mem_map.mp h; rfl
    · obtain ⟨o, _, rfl⟩ := List.mem_map.mp h; rfl

end ModTree

/-
C20: the ownership graph `Own.mkEdges d` of every description `d` of the repaired code
(`d.keepChan = false`) is ranked: ordinary fields go up in `rank`, connection slots belong to gates
that are owned by a module context below the slot's target, and nothing user-visible hangs below the
`TimerQueue ⇄ TimerSlot` cycle.
-/
import Desverif.Proofs.OwnRun
import Desverif.Spec.OwnRank
namespace Own

/-- closes the arithmetic side goals (`decide (a < b) = true`, conjunctions) -/
macro "arith" : tactic =>
  `(tactic| (repeat' apply And.intro) <;> first | omega | (apply decide_eq_true; omega))

theorem mem_enum {β : Type} (l : List β) (k : Nat) (x : β) : (k, x) ∈ enum l ↔ l[k]? = some x := by
  unfold enum
  rw [List.mem_map]
  constructor
  · rintro ⟨⟨y, i⟩, h, heq⟩
    simp only [Prod.mk.injEq] at heq
    obtain ⟨rfl, rfl⟩ := heq
    exact List.mem_zipIdx_iff_getElem?.mp h
  · intro h
    exact ⟨(x, k), List.mem_zipIdx_iff_getElem?.mpr h, rfl⟩

theorem local_msgEdges (d : Desc) (l : Loc) (m : MsgD) : (msgEdges l m).all (localOk d) = true := by
  unfold msgEdges
  cases m.body <;> cases m.lastGate <;> simp [localOk, good, rank, fld]


theorem local_evEdges (d : Desc) (l : Loc) (e : EvD)
    (hc : rank d (.conn l) = 30 + 10 * d.mods.length) : (evEdges l e).all (localOk d) = true := by
  have hm := fun m => local_msgEdges d l m
  cases e with
  | handle m msg =>
    simp only [evEdges, modRefEdges, List.all_append, hm, Bool.and_true]
    simp [localOk, good, rank, fld]
    arith
  | exiting g ch msg =>
    simp only [evEdges, List.all_append, hm, Bool.and_true]
    cases ch with
    | none => simp [localOk, good, fld, hc]; simp [rank] <;> arith
    | some cf => simp [localOk, good, fld, hc]; simp [rank] <;> arith
  | unbusy c f => simp [evEdges, localOk, good, rank, fld] <;> arith
  | restart m => simp [evEdges, modRefEdges, localOk, good, rank, fld] <;> arith
  | wakeup m => simp [evEdges, modRefEdges, localOk, good, rank, fld] <;> arith

theorem local_evSet (d : Desc) (owner : NId) (mk : Nat → Loc) (evs : List EvD)
    (ho : good owner = true) (hr : rank d owner < 4)
    (hc : ∀ k, rank d (.conn (mk k)) = 30 + 10 * d.mods.length) :
    (evSetEdges owner mk evs).all (localOk d) = true := by
  unfold evSetEdges
  rw [List.all_flatMap, List.all_eq_true]
  rintro ⟨k, e⟩ _
  simp only [List.all_cons, local_evEdges d (mk k) e (hc k), Bool.and_true]
  have h4 : rank d (.ev (mk k)) = 4 := rfl
  have hg : good (.ev (mk k)) = true := rfl
  simp [localOk, fld, ho, hg, h4]
  exact hr


theorem local_taskEdges (d : Desc) (m t : Nat) (td : TaskD) :
    (taskEdges m t td).all (localOk d) = true := by
  obtain ⟨w, j⟩ := td
  unfold taskEdges
  cases j <;> cases w with
  | sleep s => simp [localOk, good, rank, fld]
  | recv b => cases b <;> simp [localOk, good, rank, fld]

theorem local_afnEdges (d : Desc) (m t : Nat) (a : Option AfnD) :
    (afnEdges false m t a).all (localOk d) = true := by
  cases a with
  | none => simp [afnEdges]
  | some a =>
    unfold afnEdges
    simp only [List.all_cons, List.all_append, Bool.and_eq_true]
    refine ⟨by simp [localOk, good, rank, fld], ?_, ?_⟩
    · rw [List.all_flatMap, List.all_eq_true]
      rintro ⟨k, msg⟩ _
      simp only [List.all_cons, local_msgEdges, Bool.and_true]
      simp [localOk, good, rank, fld] <;> arith
    · cases a.alive
      · simp
      · simp only [if_true, List.all_append, Bool.and_eq_true]
        refine ⟨⟨⟨by simp [localOk, good, rank, fld], ?_⟩, by simp⟩, ?_⟩
        · cases a.sleeping <;> simp [localOk, good, rank, fld]
        · rw [List.all_flatMap, List.all_eq_true]
          rintro ⟨k, msg⟩ _
          simp only [List.all_cons, local_msgEdges, Bool.and_true]
          simp [localOk, good, rank, fld] <;> arith

theorem local_modEdges (d : Desc) (ht : d.taskCtx = false) (hpc : d.parentCache = false) (m : Nat) (md : ModD)
    (hm : m < d.mods.length) :
    (modEdges d m md).all (localOk d) = true := by
  have hmin : min m d.mods.length = m := by omega
  unfold modEdges
  simp only [List.all_append, Bool.and_eq_true]
  refine ⟨⟨⟨⟨⟨⟨⟨⟨?_, ?_⟩, ?_⟩, ?_⟩, ?_⟩, ?_⟩, ?_⟩, ?_⟩, ?_⟩
  · simp [modRefEdges, localOk, good, rank, fld] <;> arith
  · cases hp : md.parent with
    | none => simp
    | some p =>
      simp only
      split
      · rename_i hlt
        have : min p d.mods.length = p := by omega
        simp [modRefEdges, localOk, good, rank, fld, hmin, this, hpc] <;> arith
      · simp
  · simp [localOk, good, rank, fld]
  · simp [List.all_map, localOk, good, rank, fld]
  · simp [localOk, good, rank, fld]
  · simp [List.all_flatMap, localOk, good, rank, fld]
  · split
    · simp only [List.all_cons, List.all_append, List.all_flatMap, Bool.and_eq_true]
      refine ⟨by simp [localOk, good, rank, fld], ?_, by rw [ht]; exact local_afnEdges d m _ _⟩
      rw [List.all_eq_true]
      rintro ⟨t, td⟩ _
      exact local_taskEdges d m t td
    · simp
  · rw [List.all_flatMap, List.all_eq_true]
    rintro ⟨k, msg⟩ _
    simp only [List.all_cons, local_msgEdges, Bool.and_true]
    simp [localOk, good, rank, fld] <;> arith
  · simp [List.all_map, List.all_filter, localOk, good, rank, fld]
    intro a b _
    exact Or.inr (by arith)


theorem local_queueEdges (d : Desc) (c : Nat) (f : Bool) (ep : Nat) (q : List MsgD) :
    (queueEdges false c f ep q).all (localOk d) = true := by
  unfold queueEdges
  rw [List.all_flatMap, List.all_eq_true]
  rintro ⟨k, msg⟩ _
  simp only [List.all_append, local_msgEdges, Bool.and_true]
  simp [localOk, good, rank, fld]

theorem local_linkEdges (d : Desc) (hk : d.keepChan = false) (c : Nat) (l : LinkD) :
    (linkEdges d c l).all (localOk d) = true := by
  unfold linkEdges
  split
  · cases l.chan
    · simp [localOk, good]
    · simp only [if_true, List.all_append, hk, local_queueEdges, Bool.and_true]
      simp [localOk, good, rank, fld]
  · simp

theorem local_mkEdges (d : Desc) (hk : d.keepChan = false) (ht : d.taskCtx = false)
    (hpc : d.parentCache = false) :
    (mkEdges d).all (localOk d) = true := by
  unfold mkEdges
  simp only [List.all_append, Bool.and_eq_true]
  refine ⟨⟨⟨⟨⟨?_, ?_⟩, ?_⟩, ?_⟩, ?_⟩, ?_⟩
  · simp [localOk, good, rank, fld]
  · exact local_evSet d _ _ _ rfl (by simp [rank]) (fun k => rfl)
  · exact local_evSet d _ _ _ rfl (by simp [rank]) (fun k => rfl)
  · exact local_evSet d _ _ _ rfl (by simp [rank]) (fun k => rfl)
  · rw [List.all_flatMap, List.all_eq_true]
    rintro ⟨m, md⟩ hmem
    have := (mem_enum d.mods m md).mp hmem
    have hm : m < d.mods.length := (List.getElem?_eq_some_iff.mp this).1
    exact local_modEdges d ht hpc m md hm
  · rw [List.all_flatMap, List.all_eq_true]
    rintro ⟨c, l⟩ _
    exact local_linkEdges d hk c l


/-- the rank function is a witness that the strong edges which `dissolve_paths` does not cut are
    well-founded; `wired` adds the two closure conditions that mention other edges -/
theorem ranked_of_wired (d : Desc) (hk : d.keepChan = false) (ht : d.taskCtx = false)
    (hpc : d.parentCache = false) (hw : wired d = true) :
    Ranked nidSem (mkEdges d) roots (fun v => good v = true) (rank d) := by
  have hl := List.all_eq_true.mp (local_mkEdges d hk ht hpc)
  have hw' := List.all_eq_true.mp hw
  refine ⟨?_, ?_, ?_, ?_, ?_⟩
  · intro e he hg
    have := hl e he
    simp only [localOk, Bool.and_eq_true, Bool.or_eq_true, Bool.not_eq_true'] at this
    rcases this.1 with h | h
    · rw [hg] at h; cases h
    · exact h
  · intro e he hf hg
    have := hl e he
    simp only [localOk, Bool.and_eq_true, hf, Bool.or_eq_true, Bool.not_eq_true',
      decide_eq_true_eq] at this
    rcases this.2 with h | h
    · rw [hg] at h; cases h
    · exact h
  · intro e he hc hg
    have := hw' e he
    simp only [Bool.and_eq_true, Bool.or_eq_true, Bool.not_eq_true', hc] at this
    rcases this.2 with h | h
    · cases h
    · refine ⟨h.1, ?_⟩
      obtain ⟨e', he', hp⟩ := List.any_eq_true.mp h.2
      simp only [Bool.and_eq_true, beq_iff_eq, decide_eq_true_eq] at hp
      obtain ⟨⟨⟨hctx, htgt⟩, hvia⟩, hlt⟩ := hp
      refine ⟨e'.src, hctx, ?_, hlt⟩
      have : e' = ⟨e'.src, e.src, Via.field⟩ := by
        cases e'; simp_all
      rw [← this]
      exact he'
  · intro e he h hh hg
    have := hl e he
    simp only [localOk, Bool.and_eq_true, hh, Bool.not_eq_true'] at this
    rw [hg] at this
    cases this.2
  · intro e he hg
    have := hw' e he
    simp only [Bool.and_eq_true, Bool.or_eq_true, Bool.not_eq_true'] at this
    rcases this.1 with (h | h) | h
    · rw [hg] at h; cases h
    · have : 0 < roots.count e.src := by
        rw [List.count_pos_iff]
        simpa using h
      omega
    · obtain ⟨e', he', hp⟩ := List.any_eq_true.mp h
      have : 0 < inDeg (mkEdges d) e.src := by
        unfold inDeg
        rw [List.countP_pos_iff]
        exact ⟨e', he', by simpa using hp⟩
      omega

end Own

import Desverif.Proofs.FESHist
namespace CQRun
open CQ (Ev)
open FES (evLt eraseId minEv)

/-! Tie-order (C03) view of a scripted run: what was fetched from the current-instant FIFO
(`fz`) and what from the set of other pending events (`fb`). -/

def ghostFetchZ (s : FES.State) : Op → List Ev
  | .fetch => match s.zero with
    | e :: _ => [e]
    | [] => []
  | _ => []

def ghostFetchB (s : FES.State) : Op → List Ev
  | .fetch => match s.zero with
    | _ :: _ => []
    | [] => match minEv s.pend with
      | some e => [e]
      | none => []
  | _ => []

def ordFrom : (FES.State × Handles) → List Ev × List Ev → List Op →
    (FES.State × Handles) × (List Ev × List Ev)
  | st, h, [] => (st, h)
  | st, h, op :: ops =>
    ordFrom (sstep st op).1 (h.1 ++ ghostFetchZ st.1 op, h.2 ++ ghostFetchB st.1 op) ops

def ord (ops : List Op) := ordFrom (FES.init, []) ([], []) ops

theorem minEv_mem {l : List Ev} {e : Ev} (h : minEv l = some e) : e ∈ l := by
  cases l with
  | nil => simp [minEv] at h
  | cons a as =>
    simp only [minEv, Option.some.injEq] at h
    have : ∀ (l : List Ev) (m0 : Ev),
        l.foldl (fun m x => if evLt x m then x else m) m0 ∈ m0 :: l := by
      intro l
      induction l with
      | nil => intro m0; simp
      | cons y ys ih =>
        intro m0
        simp only [List.foldl_cons]
        have := ih (if evLt y m0 then y else m0)
        rcases List.mem_cons.mp this with h | h
        · rw [h]; split <;> simp
        · exact List.mem_cons_of_mem _ (List.mem_cons_of_mem _ h)
    rw [← h]; exact this as a

/-- nothing in the list is strictly before the minimum -/
theorem minEv_not_lt {l : List Ev} {e : Ev} (h : minEv l = some e) : ∀ x ∈ l, ¬ evLt x e := by
  cases l with
  | nil => simp [minEv] at h
  | cons a as =>
    simp only [minEv, Option.some.injEq] at h
    have key : ∀ (l : List Ev) (m0 : Ev),
        ¬ evLt m0 (l.foldl (fun m x => if evLt x m then x else m) m0) ∧
        ∀ x ∈ l, ¬ evLt x (l.foldl (fun m x => if evLt x m then x else m) m0) := by
      intro l
      induction l with
      | nil => intro m0; simp [evLt]
      | cons y ys ih =>
        intro m0
        simp only [List.foldl_cons]
        obtain ⟨h1, h2⟩ := ih (if evLt y m0 then y else m0)
        by_cases hy : evLt y m0
        · rw [if_pos hy] at h1 h2 ⊢
          refine ⟨?_, ?_⟩
          · unfold evLt at *; omega
          · intro x hx
            rcases List.mem_cons.mp hx with rfl | hx
            · exact h1
            · exact h2 x hx
        · rw [if_neg hy] at h1 h2 ⊢
          refine ⟨h1, ?_⟩
          intro x hx
          rcases List.mem_cons.mp hx with rfl | hx
          · unfold evLt at *; omega
          · exact h2 x hx
    obtain ⟨k1, k2⟩ := key as a
    intro x hx
    rw [← h]
    rcases List.mem_cons.mp hx with rfl | hx
    · exact k1
    · exact k2 x hx

structure OInv (s : FES.State) (fz fb : List Ev) : Prop where
  zsorted : s.zero.Pairwise (fun a b => a.id < b.id)
  zlt : ∀ f ∈ fz, ∀ z ∈ s.zero, f.id < z.id
  fzs : fz.Pairwise (fun a b => a.id < b.id)
  fbs : fb.Pairwise evLt
  fbp : ∀ f ∈ fb, ∀ p ∈ s.pend, evLt f p
  fble : ∀ f ∈ fb, f.time ≤ s.cur
  idsZ : ∀ z ∈ s.zero, z.id < s.nextId
  idsF : ∀ f ∈ fz, f.id < s.nextId
  pnd : (s.pend.map (·.id)).Nodup
  idsP : ∀ p ∈ s.pend, p.id < s.nextId

theorem oinv_init : OInv FES.init [] [] := by
  refine ⟨?_, ?_, ?_, ?_, ?_, ?_, ?_, ?_, ?_, ?_⟩ <;> simp [FES.init]

theorem oinv_step {st : FES.State × Handles} {fz fb : List Ev} (g : OInv st.1 fz fb) (op : Op) :
    OInv (sstep st op).1.1 (fz ++ ghostFetchZ st.1 op) (fb ++ ghostFetchB st.1 op) := by
  obtain ⟨s, hs⟩ := st
  have g : OInv s fz fb := g
  cases op with
  | add time val =>
    simp only [sstep, ghostFetchZ, ghostFetchB, List.append_nil]
    by_cases hlt : time < s.cur
    · simp only [FES.add, hlt, if_true]; exact g
    · simp only [FES.add, hlt, if_false]
      by_cases heq : time = s.cur
      · simp only [heq, if_true]
        refine ⟨?_, ?_, g.fzs, g.fbs, g.fbp, g.fble, ?_, ?_, g.pnd, ?_⟩
        · rw [List.pairwise_append]
          refine ⟨g.zsorted, by simp, ?_⟩
          intro a ha b hb; simp at hb; subst hb; exact g.idsZ a ha
        · intro f hf z hz
          rcases List.mem_append.mp hz with hz | hz
          · exact g.zlt f hf z hz
          · simp at hz; subst hz; exact g.idsF f hf
        · intro z hz
          rcases List.mem_append.mp hz with hz | hz
          · have := g.idsZ z hz; show z.id < s.nextId + 1; omega
          · simp at hz; subst hz; show s.nextId < s.nextId + 1; omega
        · intro f hf; have := g.idsF f hf; show f.id < s.nextId + 1; omega
        · intro p hp; have := g.idsP p hp; show p.id < s.nextId + 1; omega
      · simp only [heq, if_false]
        refine ⟨g.zsorted, g.zlt, g.fzs, g.fbs, ?_, g.fble, ?_, ?_, ?_, ?_⟩
        · intro f hf p hp
          rcases List.mem_append.mp hp with hp | hp
          · exact g.fbp f hf p hp
          · simp at hp; subst hp
            have := g.fble f hf
            left; show f.time < time; omega
        · intro z hz; have := g.idsZ z hz; show z.id < s.nextId + 1; omega
        · intro f hf; have := g.idsF f hf; show f.id < s.nextId + 1; omega
        · show ((s.pend ++ [(⟨time, s.nextId, val⟩ : Ev)]).map (fun x : Ev => x.id)).Nodup
          rw [List.map_append, List.nodup_append]
          refine ⟨g.pnd, by simp, ?_⟩
          intro a ha b hb
          obtain ⟨x, hx, rfl⟩ := List.mem_map.mp ha
          simp at hb; subst hb
          have := g.idsP x hx; omega
        · intro p hp
          rcases List.mem_append.mp hp with hp | hp
          · have := g.idsP p hp; show p.id < s.nextId + 1; omega
          · simp at hp; subst hp; show s.nextId < s.nextId + 1; omega
  | cancel k =>
    simp only [sstep, ghostFetchZ, ghostFetchB, List.append_nil]
    cases hk : hs[k]? with
    | none => simpa using g
    | some p =>
      obtain ⟨id, time⟩ := p
      simp only [FES.cancel]
      refine ⟨g.zsorted.filter _, ?_, g.fzs, g.fbs, ?_, g.fble, ?_, g.idsF, ?_, ?_⟩
      · intro f hf z hz; exact g.zlt f hf z (List.mem_filter.mp hz).1
      · intro f hf p hp; exact g.fbp f hf p (List.mem_filter.mp hp).1
      · intro z hz; exact g.idsZ z (List.mem_filter.mp hz).1
      · exact ((List.filter_sublist (l := s.pend)).map _).nodup g.pnd
      · intro p hp; exact g.idsP p (List.mem_filter.mp hp).1
  | fetch =>
    simp only [sstep, ghostFetchZ, ghostFetchB]
    cases hz : s.zero with
    | cons e z =>
      simp only [FES.fetch, hz, List.append_nil]
      have hzs := g.zsorted; rw [hz] at hzs
      refine ⟨(List.pairwise_cons.mp hzs).2, ?_, ?_, g.fbs, g.fbp, g.fble, ?_, ?_, g.pnd, g.idsP⟩
      · intro f hf x hx
        rcases List.mem_append.mp hf with hf | hf
        · exact g.zlt f hf x (hz ▸ List.mem_cons_of_mem _ hx)
        · simp at hf; subst hf; exact (List.pairwise_cons.mp hzs).1 x hx
      · rw [List.pairwise_append]
        refine ⟨g.fzs, by simp, ?_⟩
        intro a ha b hb; simp at hb; subst hb
        exact g.zlt a ha b (hz ▸ List.mem_cons_self)
      · intro x hx; exact g.idsZ x (hz ▸ List.mem_cons_of_mem _ hx)
      · intro f hf
        rcases List.mem_append.mp hf with hf | hf
        · exact g.idsF f hf
        · simp at hf; subst hf; exact g.idsZ f (hz ▸ List.mem_cons_self)
    | nil =>
      simp only [FES.fetch, hz, List.append_nil]
      cases hm : minEv s.pend with
      | none => simp only [List.append_nil]; exact g
      | some e =>
        simp only
        have hmem := minEv_mem hm
        have hnl := minEv_not_lt hm
        have hmin : ∀ x ∈ eraseId s.pend e.id, evLt e x := by
          intro x hx
          have hx' := List.mem_filter.mp hx
          have hne : x.id ≠ e.id := by simpa using hx'.2
          have := hnl x hx'.1
          unfold evLt at *; omega
        refine ⟨by simp, ?_, g.fzs, ?_, ?_, ?_, by simp, g.idsF, ?_, ?_⟩
        · intro f _ z hzz; cases hzz
        · rw [List.pairwise_append]
          refine ⟨g.fbs, by simp, ?_⟩
          intro a ha b hb; simp at hb; subst hb; exact g.fbp a ha b hmem
        · intro f hf p hp
          rcases List.mem_append.mp hf with hf | hf
          · exact g.fbp f hf p (List.mem_filter.mp hp).1
          · simp at hf; subst hf; exact hmin p hp
        · intro f hf
          show f.time ≤ e.time
          rcases List.mem_append.mp hf with hf | hf
          · exact CQ.evLt_time_le (g.fbp f hf e hmem)
          · simp at hf; subst hf; exact Nat.le_refl _
        · exact ((List.filter_sublist (l := s.pend)).map _).nodup g.pnd
        · intro p hp; exact g.idsP p (List.mem_filter.mp hp).1
  | peek =>
    simp only [sstep, ghostFetchZ, ghostFetchB, List.append_nil]
    exact g

theorem oinv_ordFrom (ops : List Op) : ∀ (st : FES.State × Handles) (h : List Ev × List Ev),
    OInv st.1 h.1 h.2 → OInv (ordFrom st h ops).1.1 (ordFrom st h ops).2.1 (ordFrom st h ops).2.2 := by
  induction ops with
  | nil => intro st h g; exact g
  | cons op ops ih =>
    intro st h g
    simp only [ordFrom]
    exact ih _ _ (oinv_step g op)

theorem oinv_ord (ops : List Op) : OInv (ord ops).1.1 (ord ops).2.1 (ord ops).2.2 :=
  oinv_ordFrom ops _ _ oinv_init

theorem ordFrom_state (ops : List Op) : ∀ (st : FES.State × Handles) (h : List Ev × List Ev),
    (ordFrom st h ops).1 = (runWith sstep st ops).1 := by
  induction ops with
  | nil => intro st h; rfl
  | cons op ops ih => intro st h; simp only [ordFrom, runWith]; exact ih _ _

end CQRun

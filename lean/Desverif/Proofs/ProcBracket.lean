/-
Lemmas for C14 about the bracket `shape` itself: who is in it, how often, and when the message
gets how far.
-/
import Desverif.Proofs.ProcShape
namespace Proc

theorem filter_flatMap' {α β : Type} (p : β → Bool) (g : α → List β) (l : List α) :
    (l.flatMap g).filter p = l.flatMap (fun a => (g a).filter p) := by
  induction l with
  | nil => rfl
  | cons a l ih => simp only [List.flatMap_cons, List.filter_append, ih]

theorem apply_isSome (a : Act) (id : Nat) : (a.apply id).isSome = !(a == .consume) := by
  cases a <;> rfl

/-- the message reaches element `i` iff the event carries one and nobody before `i` consumed it -/
theorem msgAt_isSome (acts : List (Nat → Act)) (m0 : Option Nat) (i : Nat) (hi : i ≤ acts.length) :
    (msgAt acts m0 i).isSome = true ↔
      m0.isSome = true ∧ ∀ j, j < i → consumesAt acts m0 j = false := by
  induction i with
  | zero => simp [msgAt]
  | succ i ih =>
    have hi' : i < acts.length := by omega
    have ih := ih (by omega)
    have hget : acts[i]? = some acts[i] := List.getElem?_eq_getElem hi'
    constructor
    · intro h
      rw [msgAt] at h
      cases hm : msgAt acts m0 i with
      | none => rw [hm] at h; simp at h
      | some id =>
        rw [hm, hget] at h
        simp only [Option.bind_some] at h
        have hprev := ih.mp (by rw [hm]; rfl)
        refine ⟨hprev.1, ?_⟩
        intro j hj
        by_cases hji : j < i
        · exact hprev.2 j hji
        · have : j = i := by omega
          subst this
          rw [apply_isSome] at h
          simp only [consumesAt, hget, hm]
          cases hc : (acts[j] id == Act.consume) with
          | false => rfl
          | true => rw [hc] at h; simp at h
    · intro ⟨h0, hall⟩
      have hprev := ih.mpr ⟨h0, fun j hj => hall j (by omega)⟩
      cases hm : msgAt acts m0 i with
      | none => rw [hm] at hprev; simp at hprev
      | some id =>
        have hc := hall i (by omega)
        simp only [consumesAt, hget, hm] at hc
        rw [msgAt, hm, hget]
        simp only [Option.bind_some]
        rw [apply_isSome, hc]; rfl

/-- … equivalently: the message is gone after `i` elements iff one of them consumed it -/
theorem msgAt_isNone (acts : List (Nat → Act)) (id : Nat) (i : Nat) (hi : i ≤ acts.length) :
    msgAt acts (some id) i = none ↔ ∃ j, j < i ∧ consumesAt acts (some id) j = true := by
  have h := msgAt_isSome acts (some id) i hi
  constructor
  · intro hn
    apply Classical.byContradiction
    intro hne
    have : (msgAt acts (some id) i).isSome = true := h.mpr ⟨rfl, fun j hj => by
      cases hc : consumesAt acts (some id) j with
      | false => rfl
      | true => exact absurd ⟨j, hj, hc⟩ hne⟩
    rw [hn] at this; simp at this
  · intro ⟨j, hj, hc⟩
    cases hm : msgAt acts (some id) i with
    | none => rfl
    | some x =>
      have := (h.mp (by rw [hm]; rfl)).2 j hj
      rw [hc] at this; simp at this

/-! ### membership -/

theorem mem_upEntries {mi t : Nat} {acts : List (Nat → Act)} {m0 : Option Nat} {i : Nat} {e : Entry}
    (h : e ∈ upEntries mi t acts m0 i) :
    e = startEntry mi t i ∨ ∃ id, msgAt acts m0 i = some id ∧ e = incEntry mi t i id := by
  simp only [upEntries, List.mem_cons] at h
  rcases h with h | h
  · exact Or.inl h
  · cases hm : msgAt acts m0 i with
    | none => rw [hm] at h; simp at h
    | some id =>
      rw [hm] at h
      simp only [List.mem_cons, List.not_mem_nil, or_false] at h
      exact Or.inr ⟨id, rfl, h⟩

/-- every entry of a bracket, classified -/
theorem mem_shape {mi t : Nat} {acts : List (Nat → Act)} {kind : Kind} {e : Entry}
    (h : e ∈ shape mi t acts kind) :
    (∃ i, i < acts.length ∧ (e = startEntry mi t i ∨
        (∃ id, msgAt acts kind.msg? i = some id ∧ e = incEntry mi t i id) ∨ e = endEntry mi t i)) ∨
    e ∈ handlerEntries mi t kind (msgAt acts kind.msg? acts.length) := by
  simp only [shape, List.mem_append, List.mem_flatMap, List.mem_range, List.mem_map,
    List.mem_reverse] at h
  rcases h with (⟨i, hi, h⟩ | h) | ⟨i, hi, h⟩
  · rcases mem_upEntries h with h | h
    · exact Or.inl ⟨i, hi, Or.inl h⟩
    · exact Or.inl ⟨i, hi, Or.inr (Or.inl h)⟩
  · exact Or.inr h
  · exact Or.inl ⟨i, hi, Or.inr (Or.inr h.symm)⟩

theorem handlerEntries_who {mi t : Nat} {kind : Kind} {out : Option Nat} {e : Entry}
    (h : e ∈ handlerEntries mi t kind out) : e.who = none ∧ e.mod = mi ∧ e.time = t := by
  cases kind with
  | message id =>
    cases out with
    | none => simp [handlerEntries] at h
    | some x => simp only [handlerEntries, List.mem_singleton] at h; subst h; exact ⟨rfl, rfl, rfl⟩
  | wakeup => simp [handlerEntries] at h
  | simStart k => simp only [handlerEntries, List.mem_singleton] at h; subst h; exact ⟨rfl, rfl, rfl⟩
  | simEnd => simp only [handlerEntries, List.mem_singleton] at h; subst h; exact ⟨rfl, rfl, rfl⟩

/-- the handler is called in a message bracket iff the message survived the whole stack -/
theorem handler_in_shape (mi t : Nat) (acts : List (Nat → Act)) (id : Nat) :
    (∃ e ∈ shape mi t acts (.message id), e.who = none) ↔
      (msgAt acts (some id) acts.length).isSome = true := by
  constructor
  · intro ⟨e, he, hw⟩
    rcases mem_shape he with ⟨i, _, h | ⟨_, _, h⟩ | h⟩ | h
    · subst h; simp [startEntry] at hw
    · subst h; simp [incEntry] at hw
    · subst h; simp [endEntry] at hw
    · simp only [Kind.msg?] at h
      cases hm : msgAt acts (some id) acts.length with
      | none => rw [hm] at h; simp [handlerEntries] at h
      | some x => rfl
  · intro h
    cases hm : msgAt acts (some id) acts.length with
    | none => rw [hm] at h; simp at h
    | some x =>
      refine ⟨⟨mi, none, .msg, some x, t⟩, ?_, rfl⟩
      simp [shape, Kind.msg?, hm, handlerEntries]

/-- `inc` of element `i` is in the bracket iff the message reached element `i` -/
theorem inc_in_shape (mi t : Nat) (acts : List (Nat → Act)) (kind : Kind) (i : Nat) :
    (∃ e ∈ shape mi t acts kind, e.who = some i ∧ e.hook = .inc) ↔
      i < acts.length ∧ (msgAt acts kind.msg? i).isSome = true := by
  constructor
  · intro ⟨e, he, hw, hh⟩
    rcases mem_shape he with ⟨j, hj, h | ⟨x, hx, h⟩ | h⟩ | h
    · subst h; simp [startEntry] at hh
    · subst h
      simp only [incEntry, Option.some.injEq] at hw
      subst hw
      exact ⟨hj, by rw [hx]; rfl⟩
    · subst h; simp [endEntry] at hh
    · rw [(handlerEntries_who h).1] at hw; simp at hw
  · intro ⟨hi, hs⟩
    cases hm : msgAt acts kind.msg? i with
    | none => rw [hm] at hs; simp at hs
    | some x =>
      refine ⟨incEntry mi t i x, ?_, rfl, rfl⟩
      simp only [shape, List.mem_append, List.mem_flatMap, List.mem_range]
      exact Or.inl (Or.inl ⟨i, hi, by simp [upEntries, hm]⟩)

/-- the handler entries of a message bracket: exactly one, carrying the message as the stack left
    it, if the message survived the stack; none otherwise -/
theorem shape_handler_filter (mi t : Nat) (acts : List (Nat → Act)) (id : Nat) :
    (shape mi t acts (.message id)).filter (fun e => e.who == none) =
      match msgAt acts (some id) acts.length with
      | some x => [⟨mi, none, .msg, some x, t⟩]
      | none => [] := by
  simp only [shape, List.filter_append, filter_flatMap', Kind.msg?]
  have h1 : (List.range acts.length).flatMap
      (fun a => (upEntries mi t acts (some id) a).filter (fun e => e.who == none)) = [] := by
    rw [List.flatMap_eq_nil_iff]
    intro a _
    rw [List.filter_eq_nil_iff]
    intro e he
    rcases mem_upEntries he with h | ⟨_, _, h⟩ <;> subst h <;> simp [startEntry, incEntry]
  have h2 : ((List.range acts.length).reverse.map (endEntry mi t)).filter
      (fun e => e.who == none) = [] := by
    rw [List.filter_eq_nil_iff]
    intro e he
    simp only [List.mem_map] at he
    obtain ⟨_, _, rfl⟩ := he
    simp [endEntry]
  rw [h1, h2]
  cases msgAt acts (some id) acts.length <;> simp [handlerEntries]

/-! ### exactly once, in order -/

def hookIs (h : Hook) (e : Entry) : Bool := e.hook == h

theorem handlerEntries_filter_start (mi t : Nat) (kind : Kind) (out : Option Nat) :
    (handlerEntries mi t kind out).filter (hookIs .start) = [] ∧
    (handlerEntries mi t kind out).filter (hookIs .end_) = [] := by
  cases kind with
  | message id => cases out <;> simp [handlerEntries, hookIs]
  | wakeup => simp [handlerEntries]
  | simStart k => simp [handlerEntries, hookIs]
  | simEnd => simp [handlerEntries, hookIs]

theorem upEntries_filter (mi t : Nat) (acts : List (Nat → Act)) (m0 : Option Nat) (i : Nat) :
    (upEntries mi t acts m0 i).filter (hookIs .start) = [startEntry mi t i] ∧
    (upEntries mi t acts m0 i).filter (hookIs .end_) = [] := by
  cases hm : msgAt acts m0 i <;> simp [upEntries, hm, hookIs, startEntry, incEntry]

theorem shape_starts (mi t : Nat) (acts : List (Nat → Act)) (kind : Kind) :
    (shape mi t acts kind).filter (hookIs .start) = (List.range acts.length).map (startEntry mi t) := by
  simp only [shape, List.filter_append, filter_flatMap', (handlerEntries_filter_start _ _ _ _).1,
    List.append_nil]
  have h1 : (List.range acts.length).flatMap
        (fun a => (upEntries mi t acts kind.msg? a).filter (hookIs .start)) =
      (List.range acts.length).map (startEntry mi t) := by
    rw [← flatMap_singleton']
    exact flatMap_congr' (fun a _ => (upEntries_filter mi t acts kind.msg? a).1)
  have h2 : ((List.range acts.length).reverse.map (endEntry mi t)).filter (hookIs .start) = [] := by
    rw [List.filter_eq_nil_iff]
    intro e he
    simp only [List.mem_map] at he
    obtain ⟨_, _, rfl⟩ := he
    simp [hookIs, endEntry]
  rw [h1, h2, List.append_nil]

theorem shape_ends (mi t : Nat) (acts : List (Nat → Act)) (kind : Kind) :
    (shape mi t acts kind).filter (hookIs .end_) =
      (List.range acts.length).reverse.map (endEntry mi t) := by
  simp only [shape, List.filter_append, filter_flatMap', (handlerEntries_filter_start _ _ _ _).2,
    List.append_nil]
  have h1 : (List.range acts.length).flatMap
        (fun a => (upEntries mi t acts kind.msg? a).filter (hookIs .end_)) = [] := by
    rw [List.flatMap_eq_nil_iff]
    intro a _
    exact (upEntries_filter mi t acts kind.msg? a).2
  have h2 : ((List.range acts.length).reverse.map (endEntry mi t)).filter (hookIs .end_) =
      (List.range acts.length).reverse.map (endEntry mi t) := by
    rw [List.filter_eq_self]
    intro e he
    simp only [List.mem_map] at he
    obtain ⟨_, _, rfl⟩ := he
    simp [hookIs, endEntry]
  rw [h1, h2, List.nil_append]

theorem count_range (k i : Nat) : (List.range k).count i = if i < k then 1 else 0 := by
  induction k with
  | zero => simp
  | succ k ih =>
    rw [List.range_succ, List.count_append, ih, List.count_singleton]
    by_cases h1 : i < k
    · have : ¬ (k = i) := by omega
      simp [h1, this]; omega
    · by_cases h2 : i = k
      · subst h2; simp
      · have h3 : ¬ (i < k + 1) := by omega
        have h4 : ¬ (k = i) := by omega
        simp [h1, h3, h4]

theorem countP_range_map (k i : Nat) (f : Nat → Entry) (hf : ∀ j, (f j).who = some j) :
    ((List.range k).map f).countP (fun e => e.who == some i) = if i < k then 1 else 0 := by
  rw [List.countP_map, ← count_range k i, List.count_eq_countP]
  apply List.countP_congr
  intro j _
  simp only [Function.comp_apply, hf j]
  by_cases h : j = i
  · subst h; simp
  · simp [h]

end Proc

/-
The registration invariant lifted from one poll to a task (its script lines and named timers).
-/
import Desverif.Proofs.TimerReg
namespace Timer

/-- ids / sleeps of the running line of a task -/
def idsL : List (Nat × Fut) → List Nat
  | [] => []
  | (_, f) :: _ => ids f

def ownL : List (Nat × Fut) → List Sleep
  | [] => []
  | (_, f) :: _ => own f

/-- the running line is well-formed, the lines not yet started are plain script terms -/
def LWF : List (Nat × Fut) → Prop
  | [] => True
  | (_, f) :: rest => WF f ∧ ∀ p ∈ rest, ids p.2 = [] ∧ WF p.2

theorem lwf_tail {p : Nat × Fut} {rest : List (Nat × Fut)} (h : LWF (p :: rest)) : LWF rest ∧ idsL rest = [] := by
  cases rest with
  | nil => exact ⟨trivial, rfl⟩
  | cons q r =>
    have hq := h.2 q List.mem_cons_self
    exact ⟨⟨hq.2, fun x hx => h.2 x (List.mem_cons_of_mem _ hx)⟩, hq.1⟩

/-- `Evo` for the lines of a task -/
structure EvoL (ls : List (Nat × Fut)) (c : Ctx) (ls' : List (Nat × Fut)) (c' : Ctx) : Prop where
  nid : c.nextId ≤ c'.nextId
  old : ∀ x, x < c.nextId →
    (idsL ls').count x ≤ (idsL ls).count x ∧ (envIds c'.env).count x ≤ (envIds c.env).count x
  mid : ∀ x, c.nextId ≤ x → x < c'.nextId → (idsL ls').count x + (envIds c'.env).count x ≤ 1
  hi : ∀ x, c'.nextId ≤ x → (idsL ls').count x = 0 ∧ (envIds c'.env).count x = 0
  frame : ∃ δ, c'.ops = c.ops ++ δ ∧
    ∀ o ∈ δ, opSid o ∈ idsL ls ∨ opSid o ∈ envIds c.env ∨ (c.nextId ≤ opSid o ∧ opSid o < c'.nextId)
  now : c'.now = c.now
  tid : c'.tid = c.tid

def BdL (ls : List (Nat × Fut)) (c : Ctx) : Prop :=
  ∀ x, c.nextId ≤ x → (idsL ls).count x = 0 ∧ (envIds c.env).count x = 0

def UqL (ls : List (Nat × Fut)) (c : Ctx) : Prop := ∀ x, (idsL ls).count x + (envIds c.env).count x ≤ 1

theorem evoL_pollLines (ls : List (Nat × Fut)) : ∀ c : Ctx, LWF ls → BdL ls c →
    EvoL ls c (pollLines ls c).1 (pollLines ls c).2 ∧ LWF (pollLines ls c).1 := by
  induction ls with
  | nil =>
    intro c _ hb
    simp only [pollLines]
    refine ⟨⟨Nat.le_refl _, fun x _ => ⟨Nat.le_refl _, Nat.le_refl _⟩, fun x h1 h2 => by omega,
      fun x hx => hb x hx, ⟨[], by simp, by intro o ho; cases ho⟩, rfl, rfl⟩, trivial⟩
  | cons p rest ih =>
    intro c hwf hb
    obtain ⟨ln, f⟩ := p
    obtain ⟨hwr, hir⟩ := lwf_tail hwf
    have hbf : Bd f { c with line := ln } := hb
    have E := evo_poll f { c with line := ln } hbf
    have hw := wf_poll f { c with line := ln } hwf.1
    have hn := poll_now f { c with line := ln }
    have ht := poll_tid f { c with line := ln }
    simp only [pollLines]
    rcases hp : poll f { c with line := ln } with ⟨r, c1⟩
    rw [hp] at E hw hn ht
    simp only at E hw hn ht
    obtain ⟨δ1, hδ1, hs1⟩ := E.frame
    cases r with
    | some f' =>
      simp only
      refine ⟨⟨E.nid, E.old, E.mid, E.hi, ⟨δ1, hδ1, hs1⟩, hn, ht⟩, ⟨hw, hwf.2⟩⟩
    | none =>
      simp only
      have hbr : BdL rest c1 := by
        intro x hx
        rw [hir]
        exact ⟨rfl, (E.hi x hx).2⟩
      obtain ⟨E2, hw2⟩ := ih c1 hwr hbr
      obtain ⟨δ2, hδ2, hs2⟩ := E2.frame
      have hn1 := E.nid
      have hn2 := E2.nid
      simp only at hn1
      refine ⟨⟨by omega, ?_, ?_, ?_, ⟨δ1 ++ δ2, by rw [hδ2, hδ1, List.append_assoc], ?_⟩,
        by rw [E2.now, hn], by rw [E2.tid, ht]⟩, hw2⟩
      · intro x hx
        have h1 := E.old x hx
        have hx' : x < c.nextId := hx
        have h2 := E2.old x (by omega)
        rw [hir] at h2
        simp only [idsO, List.count_nil] at h1 h2
        have h1' : (envIds c1.env).count x ≤ (envIds c.env).count x := h1.2
        exact ⟨by show _ ≤ (ids f).count x; omega, by omega⟩
      · intro x h1 h2
        by_cases hx : x < c1.nextId
        · have h3 := E.mid x h1 hx
          have h4 := E2.old x hx
          rw [hir] at h4
          simp only [idsO, List.count_nil] at h3 h4
          omega
        · exact E2.mid x (by omega) h2
      · intro x hx; exact E2.hi x hx
      · intro o ho
        rcases List.mem_append.mp ho with ho | ho
        · rcases hs1 o ho with h | h | h
          · exact Or.inl h
          · exact Or.inr (Or.inl h)
          · exact Or.inr (Or.inr ⟨h.1, by omega⟩)
        · rcases hs2 o ho with h | h | h
          · rw [hir] at h; cases h
          · rcases E.env_back h with h | h
            · exact Or.inr (Or.inl h)
            · exact Or.inr (Or.inr ⟨h.1, by omega⟩)
          · exact Or.inr (Or.inr ⟨by omega, h.2⟩)

theorem ownL_nil_of_idsL_nil {ls : List (Nat × Fut)} (h : idsL ls = []) : ownL ls = [] := by
  cases ls with
  | nil => rfl
  | cons p r => obtain ⟨ln, f⟩ := p; exact own_nil_of_ids_nil h

theorem reg_pollLines (A : State) (ls : List (Nat × Fut)) : ∀ c : Ctx, LWF ls → BdL ls c → UqL ls c →
    (∀ s ∈ ownL ls, InS (Qof A c) c.tid c.now s) →
    ∀ s ∈ ownL (pollLines ls c).1, OutS (Qof A (pollLines ls c).2) c.tid c.now s := by
  induction ls with
  | nil => intro c _ _ _ _ s hs; simp [pollLines, ownL] at hs
  | cons p rest ih =>
    intro c hwf hb hu hin
    obtain ⟨ln, f⟩ := p
    obtain ⟨hwr, hir⟩ := lwf_tail hwf
    have hbf : Bd f { c with line := ln } := hb
    have E := evo_poll f { c with line := ln } hbf
    have hr := reg_poll A f { c with line := ln } hwf.1 hbf hu hin
    have hn := poll_now f { c with line := ln }
    have ht := poll_tid f { c with line := ln }
    simp only [pollLines]
    rcases hp : poll f { c with line := ln } with ⟨r, c1⟩
    rw [hp] at E hr hn ht
    simp only at E hr hn ht
    cases r with
    | some f' => exact hr
    | none =>
      simp only
      have hbr : BdL rest c1 := by
        intro x hx
        rw [hir]
        exact ⟨rfl, (E.hi x hx).2⟩
      have hur : UqL rest c1 := by
        intro x
        rw [hir]
        simp only [List.count_nil, Nat.zero_add]
        have hn1 : c.nextId ≤ c1.nextId := E.nid
        by_cases hx : x < c.nextId
        · have := (E.old x hx).2
          have := hu x
          simp only at *
          omega
        · by_cases hx1 : x < c1.nextId
          · have := E.mid x (by simp only; omega) hx1; omega
          · have := (E.hi x (by omega)).2; omega
      have := ih c1 hwr hbr hur (by rw [ownL_nil_of_idsL_nil hir]; intro s hs; cases hs)
      rw [ht, hn] at this
      exact this

theorem precise_pollLines (ls : List (Nat × Fut)) : ∀ c : Ctx, LWF ls → (∀ s ∈ ownL ls, SleepOk c.now s) →
    LogPrecise c.log → LogPrecise (pollLines ls c).2.log := by
  induction ls with
  | nil => intro c _ _ h; exact h
  | cons p rest ih =>
    intro c hwf ho h
    obtain ⟨ln, f⟩ := p
    obtain ⟨hwr, hir⟩ := lwf_tail hwf
    have h1 := poll_precise f { c with line := ln } ho h
    simp only [pollLines]
    rcases hp : poll f { c with line := ln } with ⟨r, c1⟩
    rw [hp] at h1
    simp only at h1
    cases r with
    | some f' => exact h1
    | none => exact ih c1 hwr (by rw [ownL_nil_of_idsL_nil hir]; intro s hs; cases hs) h1

/-! ### one task -/

def tcnt (x : Nat) (t : Task) : Nat := (idsL t.lines).count x + (envIds t.env).count x

def TWF (t : Task) : Prop := LWF t.lines ∧ (t.done = true → t.lines = [] ∧ t.env = [])

structure TStep (A : State) (i now : Nat) (t : Task) (a : Acc) (t' : Task) (a' : Acc) : Prop where
  nid : a.nextId ≤ a'.nextId
  old : ∀ x, x < a.nextId → tcnt x t' ≤ tcnt x t
  mid : ∀ x, a.nextId ≤ x → x < a'.nextId → tcnt x t' ≤ 1
  hi : ∀ x, a'.nextId ≤ x → tcnt x t' = 0
  frame : ∃ δ, a'.ops = a.ops ++ δ ∧
    ∀ o ∈ δ, 0 < tcnt (opSid o) t ∨ (a.nextId ≤ opSid o ∧ opSid o < a'.nextId)
  wf : TWF t'
  reg : ∀ s ∈ ownL t'.lines, OutS (applyOps A a'.ops).pending i now s
  log : LogPrecise a.log → LogPrecise a'.log

theorem EvoL.env_back {ls ls' : List (Nat × Fut)} {c c' : Ctx} (E : EvoL ls c ls' c') {x : Nat}
    (h : x ∈ envIds c'.env) : x ∈ envIds c.env ∨ (c.nextId ≤ x ∧ x < c'.nextId) := by
  have hp := count_pos_of_mem h
  by_cases h1 : x < c.nextId
  · exact Or.inl (mem_of_count_pos (by have := (E.old x h1).2; omega))
  · by_cases h2 : x < c'.nextId
    · exact Or.inr ⟨by omega, h2⟩
    · have := (E.hi x (by omega)).2; omega

theorem envDropOps_sids (env : List (String × Named)) : ∀ o ∈ envDropOps env, opSid o ∈ envIds env := by
  intro o ho
  simp only [envDropOps, List.mem_flatMap] at ho
  obtain ⟨p, hp, hop⟩ := ho
  rw [named_dropOps_sids p.2 o hop]
  exact List.mem_map.mpr ⟨p, hp, rfl⟩

theorem inS_sleepOk {Q : List Slot} {i now : Nat} {s : Sleep} (h : InS Q i now s) : SleepOk now s := by
  intro a ha
  obtain ⟨h1, h2⟩ := h.1 a ha
  exact ⟨(h.2 h2).1, by omega⟩

theorem task_step (A : State) (t : Task) (tid now inc : Nat) (a : Acc) (hwf : TWF t)
    (hb : ∀ x, a.nextId ≤ x → tcnt x t = 0) (hu : ∀ x, tcnt x t ≤ 1)
    (hin : ∀ s ∈ ownL t.lines, InS (applyOps A a.ops).pending tid now s) :
    TStep A tid now t a (t.poll tid now inc a).1 (t.poll tid now inc a).2 := by
  unfold Task.poll
  split
  · rename_i hd
    obtain ⟨hl, _⟩ := hwf.2 hd
    refine ⟨Nat.le_refl _, fun x _ => Nat.le_refl _, fun x h1 h2 => absurd (show x < a.nextId from h2) (by omega), hb,
      ⟨[], by simp, by intro o ho; cases ho⟩, hwf, ?_, id⟩
    intro s hs; rw [hl] at hs; cases hs
  · simp only
    have hbL : BdL t.lines ⟨now, tid, inc, 0, a.nextId, t.env, a.log, a.ops, a.shut⟩ := by
      intro x hx
      have := hb x hx
      unfold tcnt at this
      exact ⟨by omega, by show (envIds t.env).count x = 0; omega⟩
    have huL : UqL t.lines ⟨now, tid, inc, 0, a.nextId, t.env, a.log, a.ops, a.shut⟩ := hu
    obtain ⟨E, hw⟩ := evoL_pollLines t.lines ⟨now, tid, inc, 0, a.nextId, t.env, a.log, a.ops, a.shut⟩ hwf.1 hbL
    have hr := reg_pollLines A t.lines ⟨now, tid, inc, 0, a.nextId, t.env, a.log, a.ops, a.shut⟩ hwf.1 hbL huL hin
    have hlg := precise_pollLines t.lines ⟨now, tid, inc, 0, a.nextId, t.env, a.log, a.ops, a.shut⟩ hwf.1
      (fun s hs => inS_sleepOk (hin s hs))
    rcases hp : pollLines t.lines ⟨now, tid, inc, 0, a.nextId, t.env, a.log, a.ops, a.shut⟩ with ⟨ls, c'⟩
    rw [hp] at E hw hr hlg
    simp only at E hw hr hlg ⊢
    obtain ⟨δ, hδ, hs⟩ := E.frame
    simp only at hδ hs
    have hframe : ∀ o ∈ δ, 0 < tcnt (opSid o) t ∨ (a.nextId ≤ opSid o ∧ opSid o < c'.nextId) := by
      intro o ho
      rcases hs o ho with h | h | h
      · exact Or.inl (by unfold tcnt; have := count_pos_of_mem h; omega)
      · exact Or.inl (by unfold tcnt; have := count_pos_of_mem h; omega)
      · exact Or.inr h
    cases ls with
    | nil =>
      simp only
      refine ⟨E.nid, fun x _ => by simp [tcnt, idsL, envIds], fun x _ _ => by simp [tcnt, idsL, envIds],
        fun x _ => by simp [tcnt, idsL, envIds],
        ⟨δ ++ envDropOps c'.env, by rw [hδ, List.append_assoc], ?_⟩, ⟨trivial, fun _ => ⟨rfl, rfl⟩⟩, ?_, hlg⟩
      · intro o ho
        rcases List.mem_append.mp ho with ho | ho
        · exact hframe o ho
        · rcases E.env_back (envDropOps_sids _ o ho) with h | h
          · exact Or.inl (by unfold tcnt; have := count_pos_of_mem h; simp only at this; omega)
          · exact Or.inr h
      · intro s hs; cases hs
    | cons p rest =>
      simp only
      refine ⟨E.nid, ?_, ?_, ?_, ⟨δ, hδ, hframe⟩, ⟨hw, by intro h; cases h⟩, hr, hlg⟩
      · intro x hx
        have := E.old x hx
        unfold tcnt
        simp only at this ⊢
        omega
      · intro x h1 h2
        exact E.mid x h1 h2
      · intro x hx
        have := E.hi x hx
        unfold tcnt
        simp only at this ⊢
        omega

end Timer

/-
Lemmas about the `ObjectPath` model on representable paths (`reprOf segs`).
-/
import Desverif.Spec.PathRepr
namespace ObjPath

theorem snoc_induction {α : Type} {P : List α → Prop} (nil : P [])
    (snoc : ∀ l a, P l → P (l ++ [a])) : ∀ l, P l := by
  intro l
  have : ∀ n (l : List α), l.length = n → P l := by
    intro n
    induction n with
    | zero =>
      intro l h
      have : l = [] := List.length_eq_zero_iff.mp h
      subst this; exact nil
    | succ n ih =>
      intro l h
      have hne : l ≠ [] := by intro h'; subst h'; simp at h
      rw [← List.dropLast_concat_getLast hne]
      apply snoc
      apply ih
      simp [h]
  exact this _ _ rfl

/-! ### rfind -/

theorem rfind_none_of_not_mem (b : Nat) : ∀ (l : List Nat), b ∉ l → rfind b l = none
  | [], _ => rfl
  | x :: xs, h => by
    have hx : x ≠ b := fun e => h (by simp [e])
    have hxs : b ∉ xs := fun e => h (by simp [e])
    simp [rfind, rfind_none_of_not_mem b xs hxs, hx]

theorem rfind_append_mid (b : Nat) (ys : List Nat) (h : b ∉ ys) :
    ∀ xs : List Nat, rfind b (xs ++ b :: ys) = some xs.length
  | [] => by simp [rfind, rfind_none_of_not_mem b ys h]
  | x :: xs => by simp [rfind, rfind_append_mid b ys h xs]

/-- `last_element_offset` recomputed from the data by `parent` -/
def offOf (d : List Nat) : Nat :=
  match rfind DOT d with
  | some i => i + 1
  | none => 0

/-! ### render / reprOf closed forms -/

theorem render_snoc (s : List (List Nat)) (n : List Nat) :
    render (s ++ [n]) = if s = [] then n else render s ++ DOT :: n := by
  induction s with
  | nil => simp [render]
  | cons a r ih =>
    cases r with
    | nil => simp [render]
    | cons b r =>
      have : render (a :: b :: r ++ [n]) = a ++ DOT :: render (b :: r ++ [n]) := by
        simp [render]
      rw [this]
      have ih' : render (b :: r ++ [n]) = render (b :: r) ++ DOT :: n := by
        simpa using ih
      rw [ih']
      simp [render]

theorem reprOf_snoc (s : List (List Nat)) (n : List Nat) : reprOf (s ++ [n]) = push (reprOf s) n := by
  simp [reprOf, List.foldl_append]

theorem reprOf_nil : reprOf [] = root := rfl

theorem push_len (p : Path) (n : List Nat) : (push p n).len = p.len + 1 := by
  unfold push; split <;> rfl

theorem push_isGate (p : Path) (n : List Nat) : (push p n).isGate = false := by
  unfold push; split <;> rfl

theorem reprOf_len (s : List (List Nat)) : (reprOf s).len = s.length := by
  induction s using snoc_induction with
  | nil => rfl
  | snoc l a ih => rw [reprOf_snoc, push_len, ih]; simp

theorem reprOf_isGate (s : List (List Nat)) : (reprOf s).isGate = false := by
  induction s using snoc_induction with
  | nil => rfl
  | snoc l a ih => rw [reprOf_snoc, push_isGate]

theorem reprOf_data (s : List (List Nat)) : (reprOf s).data = render s := by
  induction s using snoc_induction with
  | nil => rfl
  | snoc l a ih =>
    rw [reprOf_snoc, render_snoc]
    unfold push
    rw [reprOf_len]
    by_cases hl : l = []
    · subst hl; simp [reprOf_nil, root]
    · have : l.length ≠ 0 := by simpa using hl
      simp [this, hl, ih]

theorem render_no_dot_single (n : List Nat) : render [n] = n := rfl

theorem reprOf_lastOff (s : List (List Nat)) (hv : ∀ n ∈ s, DOT ∉ n) :
    (reprOf s).lastOff = offOf (render s) := by
  induction s using snoc_induction with
  | nil => rfl
  | snoc l a ih =>
    have ha : DOT ∉ a := hv a (by simp)
    have hl : ∀ n ∈ l, DOT ∉ n := fun n hn => hv n (by simp [hn])
    rw [reprOf_snoc, render_snoc]
    unfold push
    rw [reprOf_len]
    by_cases hnil : l = []
    · subst hnil
      simp [reprOf_nil, root, offOf, rfind_none_of_not_mem DOT a ha]
    · have : l.length ≠ 0 := by simpa using hnil
      simp [this, hnil, offOf, rfind_append_mid DOT a ha, reprOf_data]

/-- explicit form of a pushed path with at least one earlier segment -/
theorem reprOf_snoc_cons (s : List (List Nat)) (n : List Nat) (hs : s ≠ []) :
    reprOf (s ++ [n]) = ⟨render s ++ DOT :: n, (render s).length + 1, s.length + 1, false⟩ := by
  rw [reprOf_snoc]
  unfold push
  have : s.length ≠ 0 := by simpa using hs
  simp [reprOf_len, this, reprOf_data]

theorem reprOf_single (n : List Nat) : reprOf [n] = ⟨n, 0, 1, false⟩ := by
  simp [reprOf, push, root]

end ObjPath

/-
The structural facts `TInv` hold for every simulation built from a valid declaration sequence
(from the lookup invariant `LInv` and "no declaration precedes its parent" in the pre-order).
-/
import Desverif.Proofs.ModTreeTeardown
namespace ModTree
open ObjPath PreSpec

theorem pairwise_transfer {R : SDecl → SDecl → Prop} {R' : Mod → Mod → Prop} :
    ∀ (ms : List Mod) (L : List SDecl), ms.map view = L.map dview → L.Pairwise R →
      (∀ x y dx dy, x ∈ ms → y ∈ ms → dx ∈ L → dy ∈ L → view x = dview dx → view y = dview dy →
        R dx dy → R' x y) → ms.Pairwise R' := by
  intro ms
  induction ms with
  | nil => intro _ _ _ _; exact List.Pairwise.nil
  | cons x ms ih =>
    intro L h hR imp
    cases L with
    | nil => simp at h
    | cons dx L =>
      simp only [List.map_cons, List.cons.injEq] at h
      rw [List.pairwise_cons] at hR ⊢
      constructor
      · intro y hy
        obtain ⟨dy, hdy, e⟩ := mem_of_map_view h.2 hy
        exact imp x y dx dy (by simp) (by simp [hy]) (by simp) (by simp [hdy]) h.1 e (hR.1 dy hdy)
      · exact ih L h.2 hR.2 (fun a c da dc ha hc hda hdc => imp a c da dc (by simp [ha]) (by simp [hc])
          (by simp [hda]) (by simp [hdc]))

theorem length_eq_one_of_all_eq {β : Type} : ∀ (l : List β) (t : β), l.Nodup → t ∈ l →
    (∀ a ∈ l, a = t) → l.length = 1
  | [], _, _, h, _ => by simp at h
  | [_], _, _, _, _ => rfl
  | a :: c :: r, t, hnd, _, hall => by
    have h1 : a = t := hall a (by simp)
    have h2 : c = t := hall c (by simp)
    rw [List.nodup_cons] at hnd
    exact absurd (by rw [h1, h2]; simp) hnd.1

section
variable {D : List SDecl} {b : Builder}

/-- a children-map entry is determined by the child it points to -/
theorem entry_eq (hv : Valid D) (hn : NamesValid D) (hL : LInv D b)
    {a a' : Nat × List Nat × Nat} (ha : a ∈ b.kids) (ha' : a' ∈ b.kids) (e : a.2.2 = a'.2.2) : a = a' := by
  obtain ⟨pm, hpm, cm, hcm, dc, hdc, s, hpar, hsegs, hpid, hcid, hpp, hcp⟩ := (hL.kids a).mp ha
  obtain ⟨pm', hpm', cm', hcm', dc', hdc', s', hpar', hsegs', hpid', hcid', hpp', hcp'⟩ := (hL.kids a').mp ha'
  have hcc : cm = cm' := eq_of_id hL.idnd hcm hcm' (by rw [hcid, hcid', e])
  subst hcc
  have hds : dc.segs = dc'.segs := reprOf_injective _ _ (hn dc hdc) (hn dc' hdc') (hcp.symm.trans hcp')
  have hss : s = s' := by rw [hds, hpar'] at hpar; injection hpar with h; exact h.symm
  subst hss
  have hnm : a.2.1 = a'.2.1 := by
    have := hsegs.symm.trans (hds.trans hsegs')
    exact List.singleton_inj.mp (List.append_cancel_left this)
  have hpmeq : pm = pm' := binv_path_unique hv hn hL.binv hpm hpm' (hpp.trans hpp'.symm)
  subst hpmeq
  obtain ⟨a1, a2, a3⟩ := a
  obtain ⟨b1, b2, b3⟩ := a'
  simp only at hnm e hpid hpid'
  rw [← hpid, ← hpid', hnm, e]

/-- the module a children-map entry points to has its parent pointer at the entry's owner -/
theorem entry_child (hv : Valid D) (hn : NamesValid D) (hL : LInv D b)
    {k : Nat × List Nat × Nat} (hk : k ∈ b.kids) :
    ∃ pm ∈ b.mods, ∃ cm ∈ b.mods, pm.id = k.1 ∧ cm.id = k.2.2 ∧ cm.parent = some pm.id := by
  obtain ⟨pm, hpm, cm, hcm, dc, hdc, s, hpar, _, hpid, hcid, hpp, hcp⟩ := (hL.kids k).mp hk
  refine ⟨pm, hpm, cm, hcm, hpid, hcid, ?_⟩
  rcases hL.parent cm hcm dc hdc hcp with ⟨h, _⟩ | ⟨q, pm', hq, hpm', hpp', hcpar⟩
  · rw [hpar] at h; cases h
  · have hqs : q = s := by rw [hpar] at hq; injection hq with h; exact h.symm
    subst hqs
    have : pm' = pm := binv_path_unique hv hn hL.binv hpm' hpm (hpp'.trans hpp.symm)
    rw [← this]; exact hcpar

/-- a parent pointer has its entry in the parent's children map -/
theorem parent_entry (hv : Valid D) (hL : LInv D b) {x y : Mod}
    (hx : x ∈ b.mods) (hy : y ∈ b.mods) (hp : y.parent = some x.id) :
    ∃ k ∈ b.kids, k.1 = x.id ∧ k.2.2 = y.id := by
  obtain ⟨dy, hdy, hyp, _⟩ := binv_mem_decl hv hL.binv hy
  rcases hL.parent y hy dy hdy hyp with ⟨_, h⟩ | ⟨q, pm, hq, hpm, hpp, hypar⟩
  · rw [h] at hp; cases hp
  · have hid : pm.id = x.id := by rw [hypar] at hp; injection hp
    have hpmx : pm = x := eq_of_id hL.idnd hpm hx hid
    subst hpmx
    have hne : dy.segs ≠ [] := by
      intro e
      have := (par_some hq).2.1
      rw [e] at this
      simp at this
    have hsn : dy.segs = q ++ [dy.segs.getLast hne] := by
      rw [(par_some hq).1]; exact (List.dropLast_concat_getLast hne).symm
    exact ⟨(pm.id, dy.segs.getLast hne, y.id),
      (hL.kids _).mpr ⟨pm, hpm, y, hy, dy, hdy, q, hq, hsn, rfl, rfl, hpp, hyp⟩, rfl, rfl⟩

theorem tinv_of_linv (hv : Valid D) (hn : NamesValid D) (hL : LInv D b) : TInv b := by
  have hb := hL.binv
  have hmnd : b.mods.Nodup :=
    List.Pairwise.of_map (fun m : Mod => m.id) (fun a c hac e => hac (by rw [e])) hL.idnd
  -- a module is not its own parent
  have hnoself : ∀ x ∈ b.mods, x.parent ≠ some x.id := by
    intro x hx hp
    obtain ⟨dx, hdx, hxp, _⟩ := binv_mem_decl hv hb hx
    rcases hL.parent x hx dx hdx hxp with ⟨_, h⟩ | ⟨q, pm, hq, hpm, hpp, hxpar⟩
    · rw [h] at hp; cases hp
    · have hid : pm.id = x.id := by rw [hxpar] at hp; injection hp
      have : pm = x := eq_of_id hL.idnd hpm hx hid
      subst this
      have := reprOf_injective _ _ (allValid_of_par (hn dx hdx) hq) (hn dx hdx) (hpp.symm.trans hxp)
      rw [this] at hq
      exact par_ne_self _ hq
  refine ⟨hL.idnd, ?_, ?_, hnoself, ?_, ?_, ?_⟩
  · -- reference counts
    intro x hx
    have h1 : (b.mods.filter (fun m => m.id == x.id)).length = 1 :=
      length_eq_one_of_all_eq _ x (List.Pairwise.filter _ hmnd) (by simp [List.mem_filter, hx])
        (fun a ha => by
          simp only [List.mem_filter, beq_iff_eq] at ha
          exact eq_of_id hL.idnd ha.1 hx ha.2)
    unfold refCount
    rw [h1]
    cases hp : x.parent with
    | none =>
      have h2 : b.kids.filter (fun k => k.2.2 == x.id) = [] := by
        apply List.filter_eq_nil_iff.mpr
        intro k hk hkx
        simp only [beq_iff_eq] at hkx
        obtain ⟨pm, _, cm, hcm, _, hcid, hcp⟩ := entry_child hv hn hL hk
        have : cm = x := eq_of_id hL.idnd hcm hx (hcid.trans hkx)
        rw [this, hp] at hcp
        cases hcp
      simp [h2, liveParent, hp]
    | some pid =>
      obtain ⟨dx, hdx, hxp, _⟩ := binv_mem_decl hv hb hx
      have hpin : pid ∈ b.mods.map (·.id) := by
        rcases hL.parent x hx dx hdx hxp with ⟨_, h⟩ | ⟨q, pm, _, hpm, _, hxpar⟩
        · rw [h] at hp; cases hp
        · rw [hxpar] at hp; injection hp with hp
          exact List.mem_map.mpr ⟨pm, hpm, hp⟩
      obtain ⟨pm, hpm, hpmid⟩ := List.mem_map.mp hpin
      obtain ⟨k, hk, _, hk2⟩ := parent_entry hv hL hpm hx (by rw [hp, hpmid])
      have h2 : (b.kids.filter (fun k => k.2.2 == x.id)).length = 1 :=
        length_eq_one_of_all_eq _ k (List.Pairwise.filter _ hL.kidsnd)
          (by simp [List.mem_filter, hk, hk2])
          (fun a ha => by
            simp only [List.mem_filter, beq_iff_eq] at ha
            exact entry_eq hv hn hL ha.1 hk (ha.2.trans hk2.symm))
      rw [h2]
      simp [liveParent, hp, hpin]
  · -- no module precedes its parent
    apply pairwise_transfer b.mods (preorder D) hb (preorder_parent_first D hv)
    intro x y dx dy hx hy hdx hdy hvx hvy hR hp
    have hdxD : dx ∈ D := (preorder_perm D hv).mem_iff.mp hdx
    have hdyD : dy ∈ D := (preorder_perm D hv).mem_iff.mp hdy
    have hxp : x.path = reprOf dx.segs := congrArg Prod.fst hvx
    have hyp : y.path = reprOf dy.segs := congrArg Prod.fst hvy
    rcases hL.parent x hx dx hdxD hxp with ⟨_, h⟩ | ⟨q, pm, hq, hpm, hpp, hxpar⟩
    · rw [h] at hp; cases hp
    · have hid : pm.id = y.id := by rw [hxpar] at hp; injection hp
      have : pm = y := eq_of_id hL.idnd hpm hy hid
      subst this
      have := reprOf_injective _ _ (hn dy hdyD) (allValid_of_par (hn dx hdxD) hq) (hyp.symm.trans hpp)
      exact hR (by rw [this]; exact hq)
  · -- entries of `x` point to modules whose parent pointer is `x`
    intro x hx k hk hk1
    obtain ⟨pm, hpm, cm, hcm, hpid, hcid, hcp⟩ := entry_child hv hn hL hk
    have : pm = x := eq_of_id hL.idnd hpm hx (hpid.trans hk1)
    subst this
    exact ⟨cm, hcm, hcid, hcp⟩
  · intro x hx y hy hp
    exact parent_entry hv hL hx hy hp
  · intro x _
    unfold List.Nodup
    rw [List.pairwise_map]
    apply List.Pairwise.imp_of_mem (R := fun a c => a ≠ c)
    · intro a c ha hc hne e
      exact hne (entry_eq hv hn hL (List.mem_filter.mp ha).1 (List.mem_filter.mp hc).1 e)
    · exact List.Pairwise.filter _ hL.kidsnd

end

/-- **Tear-down order.**  For every valid declaration sequence, dropping the built simulation drops
    the module states in vector order (depth-first pre-order): a parent before its children, and no
    drop cascades into another module. -/
theorem teardown_built (D : List SDecl) (hv : Valid D) (hn : NamesValid D) :
    teardown (buildAll D).1 = (buildAll D).1.mods.map (·.id) :=
  teardown_of_tinv _ (tinv_of_linv hv hn (buildAll_linv D hv hn))

end ModTree

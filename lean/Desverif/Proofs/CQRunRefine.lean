import Desverif.Proofs.CQRefine
import Desverif.Model.CQRun
namespace CQRun
open CQ (Ev R HandleOk pending)
open FES (evLt eraseId minEv)

def spending (s : FES.State) : List Ev := s.zero ++ s.pend

theorem mem_pending_iff {m : CQ.State} {s : FES.State} (h : R m s) (x : Ev) :
    x ∈ pending m ↔ x ∈ spending s := by
  unfold pending spending
  rw [List.mem_append, List.mem_append, h.zero, h.pend.mem_iff]

theorem add_mem {s s' : FES.State} {time val i : Nat} (h : FES.add s time val = .ok (s', i)) :
    i = s.nextId ∧ s.cur ≤ time ∧ s'.nextId = s.nextId + 1 ∧ s'.cur = s.cur ∧
    ∀ x, x ∈ spending s' ↔ (x ∈ spending s ∨ x = ⟨time, s.nextId, val⟩) := by
  unfold FES.add at h
  split at h
  · cases h
  · rename_i hge
    split at h
    · simp only [Except.ok.injEq, Prod.mk.injEq] at h
      obtain ⟨rfl, rfl⟩ := h
      refine ⟨rfl, by omega, rfl, rfl, ?_⟩
      intro x; simp only [spending, List.mem_append, List.mem_singleton]; grind
    · simp only [Except.ok.injEq, Prod.mk.injEq] at h
      obtain ⟨rfl, rfl⟩ := h
      refine ⟨rfl, by omega, rfl, rfl, ?_⟩
      intro x; simp only [spending, List.mem_append, List.mem_singleton]; grind

theorem cancel_mem (s : FES.State) (id : Nat) (x : Ev) :
    x ∈ spending (FES.cancel s id) ↔ (x ∈ spending s ∧ x.id ≠ id) := by
  simp [spending, FES.cancel, eraseId, List.mem_filter]
  constructor
  · rintro (⟨h1, h2⟩ | ⟨h1, h2⟩) <;> simp [h1, h2]
  · rintro ⟨h1 | h1, h2⟩ <;> simp [h1, h2]

theorem fetch_mem {s s' : FES.State} {e : Ev} (h : FES.fetch s = .ok (e, s')) :
    s'.nextId = s.nextId ∧ e ∈ spending s ∧ ∀ x, x ∈ spending s' → x ∈ spending s := by
  unfold FES.fetch at h
  split at h
  · rename_i e' z hz
    simp only [Except.ok.injEq, Prod.mk.injEq] at h
    obtain ⟨rfl, rfl⟩ := h
    refine ⟨rfl, by simp [spending, hz], ?_⟩
    intro x; simp [spending, hz]; intro h; rcases h with h | h <;> simp [h]
  · split at h
    · cases h
    · rename_i _ hz _ e' hm
      simp only [Except.ok.injEq, Prod.mk.injEq] at h
      obtain ⟨rfl, rfl⟩ := h
      have hmem : e' ∈ s.pend := by
        cases hp : s.pend with
        | nil => simp [hp, minEv] at hm
        | cons a as =>
          rw [hp] at hm
          simp only [minEv, Option.some.injEq] at hm
          -- the fold result is one of the candidates
          have : ∀ (l : List Ev) (m0 : Ev),
              l.foldl (fun m x => if evLt x m then x else m) m0 ∈ m0 :: l := by
            intro l
            induction l with
            | nil => intro m0; simp
            | cons y ys ih =>
              intro m0
              simp only [List.foldl_cons]
              have := ih (if evLt y m0 then y else m0)
              rcases List.mem_cons.mp this with h | h
              · rw [h]; split <;> simp
              · exact List.mem_cons_of_mem _ (List.mem_cons_of_mem _ h)
          rw [← hm]; exact this as a
      refine ⟨rfl, by simp [spending, hmem], ?_⟩
      intro x; simp [spending, hz, eraseId, List.mem_filter]; intro h _; exact h

/-- simulation relation for scripted runs: refinement + the issued handles are well formed -/
structure RR (ms : CQ.State × Handles) (ss : FES.State × Handles) : Prop where
  r : R ms.1 ss.1
  heq : ms.2 = ss.2
  hok : ∀ p ∈ ms.2, p.1 < ms.1.eventId ∧ HandleOk ms.1 p.1 p.2

theorem init_RR (n t : Nat) (hn : 0 < n) (ht : 0 < t) : RR (CQ.init n t, []) (FES.init, []) :=
  ⟨CQ.init_R n t hn ht, rfl, by simp⟩

theorem step_refines {ms : CQ.State × Handles} {ss : FES.State × Handles} (h : RR ms ss)
    (op : Op) : (mstep ms op).2 = (sstep ss op).2 ∧ RR (mstep ms op).1 (sstep ss op).1 := by
  obtain ⟨m, hm⟩ := ms
  obtain ⟨s, hs⟩ := ss
  have hr : R m s := h.r
  have heq : hm = hs := h.heq
  subst heq
  have hok := h.hok
  cases op with
  | add time val =>
    by_cases hlt : time < m.tcur
    · obtain ⟨h1, h2⟩ := CQ.add_past hr time val hlt
      simp only [mstep, sstep, h1, h2]
      exact ⟨by first | rfl | trivial, h⟩
    · obtain ⟨m', s', h1, h2, hr'⟩ := CQ.add_ok hr time val (by omega)
      simp only [mstep, sstep, h1, h2]
      refine ⟨by first | rfl | trivial, hr', rfl, ?_⟩
      obtain ⟨_, hge, hnid, _, hmem⟩ := add_mem h2
      have hid' : m'.eventId = m.eventId + 1 := by rw [hr'.nid, hnid, hr.nid]
      intro p hp
      rcases List.mem_append.mp hp with hp | hp
      · obtain ⟨hlt', hwf⟩ := hok p hp
        have hlt0 : p.1 < m.eventId := hlt'
        refine ⟨by simp only [hid']; omega, ?_⟩
        intro x hx hxid
        rcases (hmem x).mp ((mem_pending_iff hr' x).mp hx) with hx' | rfl
        · exact hwf x ((mem_pending_iff hr x).mpr hx') hxid
        · have hlt'' : p.1 < m.eventId := hlt'
          simp only at hxid; rw [← hr.nid] at hxid; omega
      · simp at hp; subst hp
        refine ⟨by simp only [hid']; omega, ?_⟩
        intro x hx hxid
        rcases (hmem x).mp ((mem_pending_iff hr' x).mp hx) with hx' | rfl
        · have := hr.inv.idsLt x ((mem_pending_iff hr x).mpr hx')
          simp only at hxid; omega
        · rfl
  | cancel k =>
    simp only [mstep, sstep]
    cases hk : hm[k]? with
    | none => exact ⟨by first | rfl | trivial, h⟩
    | some p =>
      obtain ⟨id, time⟩ := p
      simp only
      obtain ⟨_, hwf⟩ := hok (id, time) (List.mem_of_getElem? hk)
      have hr' := CQ.cancel_refines hr id time hwf
      refine ⟨by first | rfl | trivial, hr', rfl, ?_⟩
      have hid' : (CQ.cancel m id time).eventId = m.eventId := by
        rw [hr'.nid]; show s.nextId = m.eventId; exact hr.nid.symm
      intro p hp
      obtain ⟨hlt', hwf'⟩ := hok p hp
      refine ⟨by simp only [hid']; exact hlt', ?_⟩
      intro x hx hxid
      have := ((cancel_mem s id x).mp ((mem_pending_iff hr' x).mp hx)).1
      exact hwf' x ((mem_pending_iff hr x).mpr this) hxid
  | fetch =>
    by_cases hl : m.len = 0
    · obtain ⟨h1, h2⟩ := CQ.fetch_empty hr hl
      simp only [mstep, sstep, h1, h2]
      exact ⟨by first | rfl | trivial, h⟩
    · obtain ⟨e, m', s', h1, h2, hr'⟩ := CQ.fetch_ok hr hl
      simp only [mstep, sstep, h1, h2]
      refine ⟨by first | rfl | trivial, hr', rfl, ?_⟩
      obtain ⟨hnid, _, hsub⟩ := fetch_mem h2
      have hid' : m'.eventId = m.eventId := by rw [hr'.nid, hnid, hr.nid]
      intro p hp
      obtain ⟨hlt', hwf'⟩ := hok p hp
      refine ⟨by simp only [hid']; exact hlt', ?_⟩
      intro x hx hxid
      exact hwf' x ((mem_pending_iff hr x).mpr (hsub x ((mem_pending_iff hr' x).mp hx))) hxid
  | peek =>
    simp only [mstep, sstep, CQ.nextTime_refines hr]
    exact ⟨by first | rfl | trivial, h⟩

theorem runWith_refines (ops : List Op) : ∀ {ms : CQ.State × Handles} {ss : FES.State × Handles},
    RR ms ss → (runWith mstep ms ops).2 = (runWith sstep ss ops).2 ∧
      RR (runWith mstep ms ops).1 (runWith sstep ss ops).1 := by
  induction ops with
  | nil => intro ms ss h; exact ⟨by first | rfl | trivial, h⟩
  | cons op ops ih =>
    intro ms ss h
    obtain ⟨ho, h'⟩ := step_refines h op
    obtain ⟨hos, h''⟩ := ih h'
    simp only [runWith]
    exact ⟨by rw [ho, hos], h''⟩

end CQRun

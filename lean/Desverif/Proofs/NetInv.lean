/-
Invariants of the kernel loop of `Model/Net.lean`: between events the emission buffer is empty,
no module context is set and no shutdown request is pending (`Quiet`); an event of another
module, or an event (other than its restart) of an inactive module, leaves no observation of
that module and leaves it inactive.
-/
import Desverif.Proofs.NetKernel
import Desverif.Proofs.NetCbSpec
namespace Net

/-- the simulator's globals are released and every shutdown request has been executed -/
structure Quiet (s : State) : Prop where
  buf : s.buf = []
  cur : s.cur = none
  req : ∀ m ∈ s.mods, m.shutdownReq = none

theorem Quiet.of_fields {s s' : State} (h : Quiet s) (h1 : s'.buf = s.buf) (h2 : s'.cur = s.cur)
    (h3 : s'.mods = s.mods) : Quiet s' :=
  ⟨by rw [h1, h.buf], by rw [h2, h.cur], by rw [h3]; exact h.req⟩

theorem Quiet.schedule {s : State} (h : Quiet s) (ev : KEvent) (t : Nat) : Quiet (s.schedule ev t) :=
  h.of_fields (by simp) (by simp) (by simp)

theorem Quiet.scheduleAll {s : State} (h : Quiet s) (l : List (KEvent × Nat)) : Quiet (s.scheduleAll l) :=
  h.of_fields (by simp) (by simp) (by simp)

theorem cbResult_spec (s : State) (mi : Nat) (m : ModRt) (kind : Kind) :
    ∃ l, CbSpec (s.env mi) ((m.bump s.fes.cur).enter kind) (ES.start (m.bump s.fes.cur) s.chans)
        (s.cbResult mi m kind) l ∧
      (m.active = false → kind ≠ .restart → (∀ st, kind ≠ .simStart st) →
        l = [] ∧ (s.cbResult mi m kind).mod = m.bump s.fes.cur ∧
        (s.cbResult mi m kind).es = ES.start (m.bump s.fes.cur) s.chans) :=
  callback_spec (s.env mi) (m.bump s.fes.cur) (ES.start (m.bump s.fes.cur) s.chans) kind rfl

/-- the shutdown request at the end of the callback, given none was pending before -/
theorem cbResult_req (s : State) (mi : Nat) (m : ModRt) (kind : Kind) (l : List Obs)
    (c : CbSpec (s.env mi) ((m.bump s.fes.cur).enter kind) (ES.start (m.bump s.fes.cur) s.chans)
      (s.cbResult mi m kind) l) (hm : m.shutdownReq = none) :
    (s.cbResult mi m kind).mod.shutdownReq.isSome = l.any isDwn := by
  rw [c.req, c.dwn]
  simp [ES.start, ModRt.bump, hm]

theorem moduleEvent_quiet {s : State} (h : Quiet s) (mi : Nat) (kind : Kind) : Quiet (s.moduleEvent mi kind) := by
  cases hm : s.mods[mi]? with
  | none => rw [moduleEvent_none s mi kind hm]; exact h.of_fields rfl rfl rfl
  | some m =>
    obtain ⟨_, _, h3, h4, _, h6, _, _⟩ := moduleEvent_fields s mi kind m hm
    refine ⟨h4, h3, ?_⟩
    rw [h6]
    intro x hx
    rcases List.mem_or_eq_of_mem_set hx with hx | hx
    · exact h.req x hx
    · subst hx
      cases hq : (s.cbResult mi m kind).mod.shutdownReq with
      | none => simp [wakeDecision_req, hq]
      | some r => simp [ModRt.shutDown]

/-- the event `step` is about to dispatch -/
def State.nextEvent (s : State) : Option KEvent :=
  match FES.fetch s.fes with
  | .error _ => none
  | .ok (e, _) => s.evs[e.val]?

theorem step_quiet {s s' : State} (h : Quiet s) (hs : s.step = some s') : Quiet s' := by
  unfold State.step at hs
  split at hs
  · cases hs
  · rename_i e f _
    have hq : Quiet { s with fes := f } := h.of_fields rfl rfl rfl
    simp only at hs
    split at hs
    · cases hs; exact hq.of_fields rfl rfl rfl
    · cases hs; exact moduleEvent_quiet hq _ _
    · cases hs; exact moduleEvent_quiet hq _ _
    · cases hs; exact moduleEvent_quiet hq _ _
    · split at hs
      · cases hs
        apply Quiet.scheduleAll; exact ⟨hq.buf, hq.cur, hq.req⟩
      · cases hs; exact hq.of_fields rfl rfl rfl
    · split at hs
      · split at hs
        · cases hs
          apply Quiet.scheduleAll; exact ⟨hq.buf, hq.cur, hq.req⟩
        · cases hs; exact hq.of_fields rfl rfl rfl
      · cases hs; exact hq.of_fields rfl rfl rfl
    · cases hs; exact hq.of_fields rfl rfl rfl

theorem loop_quiet (n : Nat) : ∀ {s : State}, Quiet s → Quiet (State.loop n s) := by
  induction n with
  | zero =>
    intro s h
    unfold State.loop
    split
    · exact h
    · exact h.of_fields rfl rfl rfl
  | succ n ih =>
    intro s h
    unfold State.loop
    split
    · exact h
    · split
      · exact h
      · rename_i s' hs
        exact ih (step_quiet h hs)

theorem foldl_inv {α σ : Type} (P : σ → Prop) (f : σ → α → σ) (hf : ∀ s a, P s → P (f s a)) :
    ∀ (l : List α) (s : σ), P s → P (l.foldl f s) := by
  intro l
  induction l with
  | nil => intro s h; exact h
  | cons a l ih => intro s h; exact ih _ (hf s a h)

theorem simStart_quiet {s : State} (h : Quiet s) : Quiet s.simStart := by
  unfold State.simStart
  apply foldl_inv Quiet _ _ _ _ h
  intro s stage hs
  apply foldl_inv Quiet _ _ _ _ hs
  intro s mi hs
  split
  · split
    · exact moduleEvent_quiet hs _ _
    · exact hs
  · exact hs

theorem init_quiet (cfg : Config) : Quiet (State.init cfg) := by
  unfold State.init
  apply foldl_inv Quiet _ _ _ _ ⟨rfl, rfl, ?_⟩
  · intro s i hs; exact hs.schedule _ _
  · intro m hm
    simp only [List.mem_map] at hm
    obtain ⟨c, _, rfl⟩ := hm
    rfl

/-- `at_sim_end` does not flush the buffer, but it does release the module context -/
theorem moduleEnd_cur {s : State} (h : s.cur = none) (mi : Nat) : (s.moduleEnd mi).cur = none := by
  unfold State.moduleEnd
  split
  · exact h
  · simp only
    split <;> simp

theorem simEnd_cur {s : State} (h : s.cur = none) : s.simEnd.cur = none := by
  unfold State.simEnd
  exact foldl_inv (fun s : State => s.cur = none) _ (fun s mi hs => moduleEnd_cur hs mi) _ _ h

/-! ## events that leave a module alone -/

theorem bump_active (m : ModRt) (now : Nat) : (m.bump now).active = m.active := rfl
theorem bump_req (m : ModRt) (now : Nat) : (m.bump now).shutdownReq = m.shutdownReq := rfl

/-- a module event of `mi` as seen from module `m`: if `m` is inactive and this is not its
    restart (or a start stage), no observation of `m` is made and `m` stays inactive -/
theorem moduleEvent_inert {s : State} (hq : Quiet s) (mi : Nat) (kind : Kind) (m : Nat)
    (hdown : (s.mods[m]?).map (·.active) = some false)
    (hk : mi = m → kind ≠ .restart ∧ ∀ st, kind ≠ .simStart st) :
    ∃ seg, (s.moduleEvent mi kind).trace = s.trace ++ seg ∧ (∀ o ∈ seg, o.mod ≠ m) ∧
      ((s.moduleEvent mi kind).mods[m]?).map (·.active) = some false ∧
      (mi = m → seg = [] ∧ (s.moduleEvent mi kind).errors = s.errors) := by
  cases hm : s.mods[mi]? with
  | none =>
    rw [moduleEvent_none s mi kind hm]
    exact ⟨[], by simp, by simp, hdown, fun _ => ⟨rfl, rfl⟩⟩
  | some y =>
    obtain ⟨h1, h2, _, _, _, h6, _, _⟩ := moduleEvent_fields s mi kind y hm
    obtain ⟨l, c, hin⟩ := cbResult_spec s mi y kind
    have hyreq : y.shutdownReq = none := hq.req y (List.mem_of_getElem? hm)
    have hreq := cbResult_req s mi y kind l c hyreq
    by_cases hmi : mi = m
    · subst hmi
      have hya : y.active = false := by simpa [hm] using hdown
      obtain ⟨hl, hmod, _⟩ := hin hya (hk rfl).1 (hk rfl).2
      subst hl
      have hnone : (s.cbResult mi y kind).mod.shutdownReq.isSome = false := by rw [hreq]; rfl
      refine ⟨[], ?_, by simp, ?_, fun _ => ⟨rfl, ?_⟩⟩
      · rw [h1, c.obs, hnone]; simp [ES.start]
      · rw [h6, hnone]
        simp only [Bool.false_eq_true, if_false]
        have hlt : mi < s.mods.length := by
          have := List.getElem?_eq_some_iff.mp hm
          exact this.1
        simp [List.getElem?_set_self hlt, wakeDecision_active, hmod, bump_active, hya]
      · rw [h2, c.errs]; simp
    · refine ⟨(s.cbResult mi y kind).es.obs ++
        (if (s.cbResult mi y kind).mod.shutdownReq.isSome then [resetObs mi s.fes.cur] else []), ?_, ?_, ?_,
        fun h => absurd h hmi⟩
      · rw [h1, List.append_assoc]
      · intro o ho
        rcases List.mem_append.mp ho with ho | ho
        · rw [c.obs] at ho
          simp only [ES.start, List.nil_append] at ho
          have := (c.own o ho).1
          simp only [State.env] at this
          omega
        · split at ho
          · simp only [List.mem_singleton] at ho
            subst ho
            simp only [resetObs]
            omega
          · simp at ho
      · rw [h6, List.getElem?_set_ne hmi]
        exact hdown

/-- the state after the event was taken out of the future event set -/
def State.pop (s : State) (f : FES.State) : State := { s with fes := f }

@[simp] theorem pop_trace (s : State) (f : FES.State) : (s.pop f).trace = s.trace := rfl
@[simp] theorem pop_mods (s : State) (f : FES.State) : (s.pop f).mods = s.mods := rfl
@[simp] theorem pop_errors (s : State) (f : FES.State) : (s.pop f).errors = s.errors := rfl
@[simp] theorem pop_evs (s : State) (f : FES.State) : (s.pop f).evs = s.evs := rfl
@[simp] theorem pop_fes (s : State) (f : FES.State) : (s.pop f).fes = f := rfl
@[simp] theorem pop_links (s : State) (f : FES.State) : (s.pop f).links = s.links := rfl
@[simp] theorem pop_chans (s : State) (f : FES.State) : (s.pop f).chans = s.chans := rfl

/-- what `step` does, event by event -/
theorem step_eq (s : State) (e : CQ.Ev) (f : FES.State) (hf : FES.fetch s.fes = .ok (e, f)) :
    s.step = match (s.evs[e.val]? : Option KEvent) with
      | none => some { s.pop f with fault := some "no-such-event" }
      | some (.deliver mi m) => some ((s.pop f).moduleEvent mi (.message m))
      | some (.wakeup mi) => some ((s.pop f).moduleEvent mi .wakeup)
      | some (.restart mi) => some ((s.pop f).moduleEvent mi .restart)
      | some (.exitConn li pos m) =>
        (match s.links[li]?, s.chans[li]? with
        | some l, some c =>
          some (State.scheduleAll { s.pop f with chans := s.chans.set li (walk ((s.pop f).env 0) li l m c pos).1 }
            (walk ((s.pop f).env 0) li l m c pos).2)
        | _, _ => some { s.pop f with fault := some "no-such-link" })
      | some (.unbusy li) =>
        (match s.links[li]?, s.chans[li]? with
        | some l, some c =>
          (match l.chan with
          | some cfg =>
            some (State.scheduleAll { s.pop f with chans := s.chans.set li (chanDrain cfg li f.cur c.buf).1 }
              (chanDrain cfg li f.cur c.buf).2)
          | none => some { s.pop f with fault := some "no-such-channel" })
        | _, _ => some { s.pop f with fault := some "no-such-link" })
      | some .bad => some { s.pop f with fault := some "unreachable" } := by
  unfold State.step
  rw [hf]
  rfl

/-- one dispatched event: an inactive module `m` whose restart it is not shows no observation and
    stays inactive -/
theorem step_inert {s s' : State} (hq : Quiet s) (hs : s.step = some s') (m : Nat)
    (hdown : (s.mods[m]?).map (·.active) = some false) (hne : s.nextEvent ≠ some (.restart m)) :
    ∃ seg, s'.trace = s.trace ++ seg ∧ (∀ o ∈ seg, o.mod ≠ m) ∧ (s'.mods[m]?).map (·.active) = some false := by
  cases hf : FES.fetch s.fes with
  | error x => simp [State.step, hf] at hs
  | ok p =>
    obtain ⟨e, f⟩ := p
    rw [step_eq s e f hf] at hs
    have hne' : (s.evs[e.val]? : Option KEvent) ≠ some (.restart m) := by
      simpa [State.nextEvent, hf] using hne
    have hq' : Quiet (s.pop f) := hq.of_fields rfl rfl rfl
    split at hs
    · cases hs; exact ⟨[], by simp [State.pop], by simp, hdown⟩
    · cases hs
      obtain ⟨seg, a, b, c, _⟩ := moduleEvent_inert hq' _ (.message _) m hdown (fun _ => ⟨by simp, by simp⟩)
      exact ⟨seg, a, b, c⟩
    · cases hs
      obtain ⟨seg, a, b, c, _⟩ := moduleEvent_inert hq' _ .wakeup m hdown (fun _ => ⟨by simp, by simp⟩)
      exact ⟨seg, a, b, c⟩
    · rename_i mi hev
      cases hs
      have : mi ≠ m := by
        intro h; subst h; exact hne' hev
      obtain ⟨seg, a, b, c, _⟩ := moduleEvent_inert hq' mi .restart m hdown (fun h => absurd h this)
      exact ⟨seg, a, b, c⟩
    · split at hs
      · cases hs; exact ⟨[], by simp, by simp, by simpa using hdown⟩
      · cases hs; exact ⟨[], by simp, by simp, hdown⟩
    · split at hs
      · split at hs
        · cases hs; exact ⟨[], by simp, by simp, by simpa using hdown⟩
        · cases hs; exact ⟨[], by simp, by simp, hdown⟩
      · cases hs; exact ⟨[], by simp, by simp, hdown⟩
    · cases hs; exact ⟨[], by simp, by simp, hdown⟩

end Net

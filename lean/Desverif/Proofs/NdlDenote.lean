/-
C18, elaboration vs. denotation: the memoised bottom-up `transform` (dependency-ordered work list,
table of finished archetypes) computes the top-down denotation `Spec.denoteTree`.

* `endpointInner_expand`      — endpoint expansion with a position stack = the list comprehension
* `transformConnections_expand`
* `transformModule_bodyOf`    — one module: if the table agrees with `ev` on everything it stores,
                                `transform_module` against the table = `Spec.bodyOf` against `ev`
* `buildAll_good`             — along the work list every stored archetype is ⟦name⟧ for every
                                fuel ≥ the number of stored archetypes
* `transform_denoteTree`      — the theorem (submodule types without type arguments)
-/
import Desverif.Spec.Ndl
import Desverif.Proofs.NdlTotal
namespace Ndl

theorem bind_ok_eq {α β : Type} {x : Except Fail α} {f : α → Except Fail β} {a : α}
    (h : x = .ok a) : x >>= f = f a := by rw [h]; rfl

theorem mapM_uniform {α β : Type} (f : α → Except Fail β) (g : α → β) :
    ∀ (l : List α) (ys : List β), l.mapM f = .ok ys →
      (∀ x ∈ l, ∀ y, f x = .ok y → y = g x) → ys = l.map g
  | [], ys, h, _ => by
    simp only [List.mapM_nil] at h
    cases h; rfl
  | a :: l, ys, h, hg => by
    simp only [List.mapM_cons] at h
    obtain ⟨b, hb, h⟩ := bind_ok h
    obtain ⟨bs, hbs, h⟩ := bind_ok h
    cases h
    rw [List.map_cons, hg a (List.mem_cons_self ..) b hb,
      mapM_uniform f g l bs hbs fun x hx => hg x (List.mem_cons_of_mem _ hx)]

theorem mapM_ok_of_forall {α β : Type} (f : α → Except Fail β) :
    ∀ (l : List α), (∀ a ∈ l, ∃ b, f a = .ok b) → ∃ bs, l.mapM f = .ok bs
  | [], _ => ⟨[], rfl⟩
  | a :: l, h => by
    obtain ⟨b, hb⟩ := h a (List.mem_cons_self ..)
    obtain ⟨bs, hbs⟩ := mapM_ok_of_forall f l fun x hx => h x (List.mem_cons_of_mem _ hx)
    refine ⟨b :: bs, ?_⟩
    simp only [List.mapM_cons]
    rw [bind_ok_eq hb, bind_ok_eq hbs]
    rfl

/-! ### connection endpoints -/

theorem kardAccess_eq_indices (d a : FieldDef) : kardAccess d a = Spec.indices d a := by
  unfold kardAccess Spec.indices
  cases d.kard <;> cases a.kard <;> rfl

theorem flatten_prefix (pos : List Accessor) (t : List (List Accessor)) :
    ∀ (locals : List Accessor),
      (locals.map fun lm => t.map fun x => (pos ++ [lm]) ++ x).flatten =
        (locals.flatMap fun a => t.map fun tl => a :: tl).map (fun x => pos ++ x)
  | [] => rfl
  | l0 :: ls => by
    simp only [List.map_cons, List.flatten_cons, List.flatMap_cons, List.map_append, List.map_map,
      flatten_prefix pos t ls]
    congr 1
    apply List.map_congr_left
    intro x _
    simp

theorem endpointInner_expand : ∀ (acc : List FieldDef) (pos : List Accessor)
    (subs : List (FieldDef × Node)) (gates : List FieldDef) (r : List (List Accessor)),
    endpointInner pos acc subs gates = .ok r →
    ∃ r', Spec.expandEndpoint acc subs gates = .ok r' ∧ r = r'.map (fun x => pos ++ x)
  | [], pos, subs, gates, r, h => by
    unfold endpointInner at h
    cases h
  | [a], pos, subs, gates, r, h => by
    unfold endpointInner at h
    unfold Spec.expandEndpoint
    cases hf : gates.find? (fun g => decide (g.ident = a.ident)) with
    | none => rw [hf] at h; cases h
    | some decl =>
      rw [hf] at h
      simp only [] at h ⊢
      obtain ⟨finals, hk, h⟩ := bind_ok h
      cases h
      rw [← kardAccess_eq_indices, bind_ok_eq hk]
      exact ⟨_, rfl, by simp [List.map_map, Function.comp]⟩
  | a :: b :: rest, pos, subs, gates, r, h => by
    unfold endpointInner at h
    unfold Spec.expandEndpoint
    cases hf : subs.find? (fun n => decide (n.1.ident = a.ident)) with
    | none => rw [hf] at h; cases h
    | some sub =>
      rw [hf] at h
      simp only [] at h ⊢
      obtain ⟨locals, hk, h⟩ := bind_ok h
      obtain ⟨inner, hin, h⟩ := bind_ok h
      cases h
      rw [← kardAccess_eq_indices, bind_ok_eq hk]
      cases locals with
      | nil =>
        simp only [List.mapM_nil] at hin
        cases hin
        exact ⟨[], rfl, rfl⟩
      | cons l0 ls =>
        simp only [List.isEmpty_cons, Bool.false_eq_true, if_false]
        -- the first iteration determines the tails
        have h0 := hin
        simp only [List.mapM_cons] at h0
        obtain ⟨x0, hx0, _⟩ := bind_ok h0
        obtain ⟨t, ht, _⟩ := endpointInner_expand (b :: rest) _ _ _ x0 hx0
        have huni : ∀ lm ∈ l0 :: ls, ∀ y,
            endpointInner (pos ++ [lm]) (b :: rest) sub.2.subs sub.2.gates = .ok y →
            y = t.map fun x => (pos ++ [lm]) ++ x := by
          intro lm _ y hy
          obtain ⟨t', ht', hy'⟩ := endpointInner_expand (b :: rest) _ _ _ y hy
          rw [ht] at ht'
          cases ht'
          exact hy'
        have hinner := mapM_uniform _ _ _ _ hin huni
        rw [bind_ok_eq ht]
        refine ⟨_, rfl, ?_⟩
        rw [hinner]
        exact flatten_prefix pos t (l0 :: ls)

theorem transformConnection_expand {c : ConnDef} {subs : List (FieldDef × Node)}
    {gates : List FieldDef} {links : List (Str × Link)} {results r : List Conn}
    (h : transformConnection c subs gates links results = .ok r) :
    ∃ cs, Spec.expandConn links subs gates c = .ok cs ∧ r = results ++ cs := by
  unfold transformConnection at h
  obtain ⟨lhs, hl, h⟩ := bind_ok h
  obtain ⟨rhs, hr, h⟩ := bind_ok h
  obtain ⟨l', hl', el⟩ := endpointInner_expand _ _ _ _ _ hl
  obtain ⟨r', hr', er⟩ := endpointInner_expand _ _ _ _ _ hr
  simp only [List.nil_append, List.map_id'] at el er
  subst el er
  unfold Spec.expandConn
  rw [bind_ok_eq hl', bind_ok_eq hr']
  split at h
  · cases h
  · next hlen =>
    rw [if_neg hlen]
    obtain ⟨link, hlink, h⟩ := bind_ok h
    cases h
    unfold lookupLink at hlink
    cases hc : c.link with
    | none =>
      rw [hc] at hlink
      cases hlink
      exact ⟨_, rfl, rfl⟩
    | some name =>
      rw [hc] at hlink
      simp only [] at hlink ⊢
      cases hlk : links.lookup name with
      | none => rw [hlk] at hlink; cases hlink
      | some v =>
        rw [hlk] at hlink
        cases hlink
        exact ⟨_, rfl, rfl⟩

theorem transformConnections_expand (subs : List (FieldDef × Node)) (gates : List FieldDef)
    (links : List (Str × Link)) : ∀ (l : List ConnDef) (idx : Nat) (results r : List Conn),
    transformConnections subs gates links idx l results = .ok r →
    ∃ css, l.mapM (Spec.expandConn links subs gates) = .ok css ∧ r = results ++ css.flatten
  | [], _, results, r, h => by
    unfold transformConnections at h
    cases h
    exact ⟨[], rfl, by simp⟩
  | c :: l, idx, results, r, h => by
    unfold transformConnections at h
    obtain ⟨r1, h1, h⟩ := bind_ok h
    obtain ⟨cs, hcs, e1⟩ := transformConnection_expand (mapErr_ok h1)
    obtain ⟨css, hcss, e2⟩ := transformConnections_expand subs gates links l _ _ r h
    refine ⟨cs :: css, ?_, ?_⟩
    · simp only [List.mapM_cons]
      rw [bind_ok_eq hcs, bind_ok_eq hcss]
      rfl
    · rw [e2, e1]
      simp

/-! ### the table invariant -/

def idents (d : Def) : List Str := d.modules.map (·.1.ident)

/-- how the submodules of a stored archetype relate to the declarations of its module: the own
    submodules come first, in declaration order, each carrying the identifier of its declared type
    (a module identifier, or — without arguments — one of the module's own type parameters);
    the inherited ones follow and carry module identifiers -/
def Shape (d : Def) (params : List GenericsDef) :
    List (FieldDef × TypClause Str) → List (FieldDef × Node) → Prop
  | [], par => ∀ s ∈ par, s.2.typ ∈ idents d
  | _ :: _, [] => False
  | (_, ty) :: ds, s :: ss =>
    s.2.typ = ty.ident ∧
    (ty.ident ∈ idents d ∨ (ty.args.isEmpty = true ∧ ∃ a ∈ params, a.binding = ty.ident)) ∧
    Shape d params ds ss

/-- every stored archetype is stored under its own name, stems from a module of the description
    and has the `Shape` of that module -/
def TableOK (d : Def) (a : Archs) : Prop :=
  ∀ name v, a.lookup name = some v → v.1.typ = name ∧
    ∃ km ∈ d.modules, km.1.ident = name ∧ v.2 = km.1.args ∧ Shape d km.1.args km.2.submodules v.1.subs

/-- the supported fragment (`Spec.unsupported d = false`), as facts -/
structure Supported (d : Def) : Prop where
  uniq : Spec.allDistinct (idents d) = true
  fresh : ∀ km ∈ d.modules, ∀ a ∈ km.1.args, a.binding ∉ idents d
  plainParent : ∀ km ∈ d.modules, ∀ p, km.2.inherit = some p →
    ∀ km' ∈ d.modules, km'.1.ident = p → km'.1.args = []

theorem supported_of {d : Def} (h : Spec.unsupported d = false) : Supported d := by
  unfold Spec.unsupported at h
  simp only [Bool.or_eq_false_iff, Bool.not_eq_false'] at h
  obtain ⟨⟨h1, h2⟩, h3⟩ := h
  refine ⟨h1, ?_, ?_⟩
  · intro km hkm a ha hmem
    obtain ⟨km', hkm', he⟩ := List.mem_map.1 hmem
    have : (d.modules.any fun km => km.1.args.any fun a => d.modules.any fun km' =>
        decide (km'.1.ident = a.binding)) = true := by
      apply List.any_eq_true.2
      refine ⟨km, hkm, List.any_eq_true.2 ⟨a, ha, List.any_eq_true.2 ⟨km', hkm', by simpa using he⟩⟩⟩
    rw [h2] at this
    cases this
  · intro km hkm p hp km' hkm' he
    cases hargs : km'.1.args with
    | nil => rfl
    | cons x xs =>
      exfalso
      have h3' := List.any_eq_false.1 h3 km hkm
      simp only [hp, Bool.not_eq_true, List.any_eq_false] at h3'
      have := h3' km' hkm'
      simp [he, hargs] at this

theorem setTyp_self (n : Node) : n.setTyp n.typ = n := by cases n; rfl
theorem setTyp_typ (t : Str) (n : Node) : (n.setTyp t).typ = t := by cases n; rfl
theorem setSubs_typ (s : List (FieldDef × Node)) (n : Node) : (n.setSubs s).typ = n.typ := by cases n; rfl
theorem setSubs_subs (s : List (FieldDef × Node)) (n : Node) : (n.setSubs s).subs = s := by cases n; rfl
theorem setSubs_setSubs (s s' : List (FieldDef × Node)) (n : Node) :
    (n.setSubs s).setSubs s' = n.setSubs s' := by cases n; rfl

theorem getArch_lookup {a : Archs} {k : Str} {v : Node × List GenericsDef} (h : getArch a k = .ok v) :
    a.lookup k = some v := by
  unfold getArch at h
  cases hl : a.lookup k with
  | none => rw [hl] at h; cases h
  | some v' => rw [hl] at h; cases h; rfl

theorem tableOK_ident {d : Def} {a : Archs} (ht : TableOK d a) {name : Str} {v : Node × List GenericsDef}
    (h : a.lookup name = some v) : name ∈ idents d := by
  obtain ⟨_, km, hkm, he, _⟩ := ht name v h
  exact List.mem_map.2 ⟨km, hkm, he⟩

/-! ### type arguments: sequential replacement by symbol = positional replacement by declaration -/

/-- what the loop of `substArgs` does to one submodule -/
def replOne (acts : List (Str × Node)) (s : FieldDef × Node) : FieldDef × Node :=
  acts.foldl (fun s a => if s.2.typ = a.1 then (s.1, a.2) else s) s

/-- what the loop of `substArgs` does to the submodule list -/
def replAll (acts : List (Str × Node)) (subs : List (FieldDef × Node)) : List (FieldDef × Node) :=
  acts.foldl (fun subs a => replaceTyp a.1 a.2 subs) subs

theorem replAll_map : ∀ (acts : List (Str × Node)) (subs : List (FieldDef × Node)),
    replAll acts subs = subs.map (replOne acts)
  | [], subs => by
    have : replOne ([] : List (Str × Node)) = id := rfl
    rw [this, List.map_id]
    rfl
  | a :: r, subs => by
    have ih := replAll_map r (replaceTyp a.1 a.2 subs)
    simp only [replAll, List.foldl_cons] at ih ⊢
    rw [ih]
    simp only [replaceTyp, List.map_map]
    apply List.map_congr_left
    intro s _
    simp [replOne, List.foldl_cons]

theorem replOne_noop : ∀ (acts : List (Str × Node)) (s : FieldDef × Node),
    (∀ a ∈ acts, a.1 ≠ s.2.typ) → replOne acts s = s
  | [], _, _ => rfl
  | a :: r, s, h => by
    have hne : ¬ s.2.typ = a.1 := fun e => h a (List.mem_cons_self ..) e.symm
    simp only [replOne, List.foldl_cons, if_neg hne]
    exact replOne_noop r s fun x hx => h x (List.mem_cons_of_mem _ hx)

theorem replOne_find : ∀ (acts : List (Str × Node)) (s : FieldDef × Node),
    (∀ a ∈ acts, ∀ b ∈ acts, b.1 ≠ a.2.typ) →
    replOne acts s = match acts.find? (fun a => a.1 = s.2.typ) with
      | some a => (s.1, a.2)
      | none => s
  | [], _, _ => rfl
  | a :: r, s, h => by
    by_cases he : s.2.typ = a.1
    · have : replOne (a :: r) s = replOne r (s.1, a.2) := by
        simp only [replOne, List.foldl_cons, if_pos he]
      rw [this, replOne_noop r (s.1, a.2) fun b hb => h a (List.mem_cons_self ..) b (List.mem_cons_of_mem _ hb)]
      simp [he]
    · have : replOne (a :: r) s = replOne r s := by
        simp only [replOne, List.foldl_cons, if_neg he]
      rw [this, replOne_find r s fun x hx y hy => h x (List.mem_cons_of_mem _ hx) y (List.mem_cons_of_mem _ hy)]
      have hne : ¬ a.1 = s.2.typ := fun e => he e.symm
      simp [hne]

theorem replAll_substOwn (d : Def) (params : List GenericsDef) (acts : List (Str × Node))
    (hb : ∀ act ∈ acts, ∃ p ∈ params, p.binding = act.1)
    (hfresh : ∀ p ∈ params, p.binding ∉ idents d)
    (hact : ∀ act ∈ acts, act.2.typ ∈ idents d) :
    ∀ (decls : List (FieldDef × TypClause Str)) (subs : List (FieldDef × Node)),
      Shape d params decls subs → replAll acts subs = Spec.substOwn acts decls subs := by
  have hsep : ∀ a ∈ acts, ∀ b ∈ acts, b.1 ≠ a.2.typ := by
    intro a ha b hb' e
    obtain ⟨p, hp, hpe⟩ := hb b hb'
    exact hfresh p hp (hpe ▸ e ▸ hact a ha)
  have hnoop : ∀ (s : FieldDef × Node), s.2.typ ∈ idents d → replOne acts s = s := by
    intro s hs
    apply replOne_noop
    intro a ha e
    obtain ⟨p, hp, hpe⟩ := hb a ha
    exact hfresh p hp (hpe ▸ e ▸ hs)
  intro decls
  induction decls with
  | nil =>
    intro subs hsh
    rw [replAll_map]
    simp only [Spec.substOwn]
    have : ∀ (l : List (FieldDef × Node)), (∀ s ∈ l, s.2.typ ∈ idents d) → l.map (replOne acts) = l := by
      intro l
      induction l with
      | nil => intro _; rfl
      | cons x l ih =>
        intro hl
        rw [List.map_cons, hnoop x (hl x (List.mem_cons_self ..)), ih fun s hs => hl s (List.mem_cons_of_mem _ hs)]
    exact this subs hsh
  | cons dcl ds ih =>
    intro subs hsh
    cases dcl with
    | mk f ty =>
      cases subs with
      | nil => exact absurd hsh (by simp [Shape])
      | cons s ss =>
        obtain ⟨h1, h2, h3⟩ := hsh
        have ih' := ih ss h3
        rw [replAll_map] at ih' ⊢
        simp only [List.map_cons, Spec.substOwn, ih']
        congr 1
        by_cases hargs : ty.args.isEmpty = true
        · rw [if_pos hargs, replOne_find acts s hsep, h1]
          cases acts.find? (fun a => decide (a.1 = ty.ident)) <;> rfl
        · rw [if_neg hargs]
          rcases h2 with h2 | h2
          · exact hnoop s (h1 ▸ h2)
          · exact absurd h2.1 hargs

theorem plain_of_lookup {a : Archs} {ev : Str → Except Fail (Node × List GenericsDef)}
    (hev : ∀ name v, a.lookup name = some v → ev name = .ok v) {name : Str} {n : Node}
    {deps : List GenericsDef} (h : a.lookup name = some (n, deps)) (hd : deps.isEmpty = true) :
    Spec.plain ev name = .ok n := by
  unfold Spec.plain
  rw [hev _ _ h]
  show (if deps.isEmpty = true then Except.ok n else kerr .invalidTypStatement [name]) = _
  rw [if_pos hd]

/-- the `for (i, generic_binding)` loop of `transform_submodule` -/
theorem substArgs_spec {d : Def} {typ : TypClause Str} {a : Archs}
    {ev : Str → Except Fail (Node × List GenericsDef)}
    (hev : ∀ name v, a.lookup name = some v → ev name = .ok v) (ht : TableOK d a) :
    ∀ (gs : List GenericsDef) (as : List Str) (node node' : Node), gs.length = as.length →
      substArgs typ a gs as node = .ok node' →
      ∃ acts, (gs.zip as).mapM (Spec.actual ev typ) = .ok acts ∧
        node' = node.setSubs (replAll acts node.subs) ∧
        ∀ act ∈ acts, (∃ g ∈ gs, g.binding = act.1) ∧ act.2.typ ∈ idents d
  | [], as, node, node', _, h => by
    unfold substArgs at h
    cases h
    refine ⟨[], rfl, ?_, fun act hact => by cases hact⟩
    cases node
    rfl
  | g :: gs, [], node, node', hl, _ => by simp at hl
  | g :: gs, x :: as, node, node', hl, h => by
    unfold substArgs at h
    obtain ⟨v, hv, h⟩ := bind_ok h
    cases v with
    | mk repl deps =>
    simp only [] at h
    by_cases hdeps : (!deps.isEmpty) = true
    · rw [if_pos hdeps] at h
      cases h
    · rw [if_neg hdeps] at h
      obtain ⟨vi, hvi, h⟩ := bind_ok h
      cases vi with
      | mk iface xi =>
      simp only [] at h
      by_cases hconf : (!repl.conformTo iface) = true
      · rw [if_pos hconf] at h
        cases h
      · rw [if_neg hconf] at h
        obtain ⟨acts, hacts, hnode, hall⟩ := substArgs_spec hev ht gs as _ node' (by simpa using hl) h
        have hlx := getArch_lookup hv
        have hdeps' : deps.isEmpty = true := by simpa using hdeps
        have hconf' : repl.conformTo iface = true := by simpa using hconf
        have hact : Spec.actual ev typ (g, x) = .ok (g.binding, repl) := by
          unfold Spec.actual
          rw [bind_ok_eq (plain_of_lookup hev hlx hdeps'), bind_ok_eq (hev _ _ (getArch_lookup hvi))]
          show (if repl.conformTo iface = true then _ else _) = _
          rw [if_pos hconf']
        refine ⟨(g.binding, repl) :: acts, ?_, ?_, ?_⟩
        · simp only [List.zip_cons_cons, List.mapM_cons]
          rw [bind_ok_eq hact, bind_ok_eq hacts]
          rfl
        · rw [hnode, setSubs_setSubs, setSubs_subs]
          rfl
        · intro act hmem
          rcases List.mem_cons.1 hmem with rfl | hmem
          · refine ⟨⟨g, List.mem_cons_self .., rfl⟩, ?_⟩
            rw [(ht _ _ hlx).1]
            exact tableOK_ident ht hlx
          · obtain ⟨⟨g', hg', he⟩, h2⟩ := hall act hmem
            exact ⟨⟨g', List.mem_cons_of_mem _ hg', he⟩, h2⟩

theorem ownDecls_of_mem {d : Def} (hs : Supported d) {km : TypClause GenericsDef × ModuleDef}
    (hm : km ∈ d.modules) : Spec.ownDecls d km.1.ident = km.2.submodules := by
  unfold Spec.ownDecls
  have : ∀ (l : List (TypClause GenericsDef × ModuleDef)),
      Spec.allDistinct (l.map (·.1.ident)) = true → km ∈ l →
      l.find? (fun x => x.1.ident = km.1.ident) = some km := by
    intro l
    induction l with
    | nil => intro _ h; cases h
    | cons x l ih =>
      intro hd hmem
      simp only [List.map_cons, Spec.allDistinct, Bool.and_eq_true, Bool.not_eq_true'] at hd
      rcases List.mem_cons.1 hmem with rfl | hmem
      · simp
      · have hne : x.1.ident ≠ km.1.ident := by
          intro e
          have : x.1.ident ∈ l.map (·.1.ident) := e ▸ List.mem_map.2 ⟨km, hmem, rfl⟩
          have hc : (l.map (·.1.ident)).contains x.1.ident = true := by simpa using this
          rw [hd.1] at hc
          cases hc
        simp only [List.find?_cons, hne, decide_false]
        exact ih hd.2 hmem
  rw [this d.modules hs.uniq hm]

/-! ### one submodule -/

theorem transformSubmodule_evalType {d : Def} (hs : Supported d) {fld : FieldDef}
    {key : TypClause GenericsDef} {t : TypClause Str} {a : Archs}
    {ev : Str → Except Fail (Node × List GenericsDef)}
    (hev : ∀ name v, a.lookup name = some v → ev name = .ok v) (ht : TableOK d a)
    {out : FieldDef × Node} (h : transformSubmodule fld key t a = .ok out) :
    fld.kard ≠ .cluster 0 ∧ out.1 = fld ∧ Spec.evalType ev (Spec.ownDecls d) key.args t = .ok out.2 ∧
    out.2.typ = t.ident ∧
    (t.ident ∈ idents d ∨ (t.args.isEmpty = true ∧ ∃ b ∈ key.args, b.binding = t.ident)) := by
  unfold transformSubmodule at h
  by_cases hz : fld.kard = .cluster 0
  · rw [if_pos hz] at h
    cases h
  · rw [if_neg hz] at h
    by_cases hna : t.args.isEmpty = true
    · -- no arguments
      rw [if_pos hna] at h
      obtain ⟨v, hv, h⟩ := bind_ok h
      have hl := getArch_lookup hv
      cases v with
      | mk node reqs =>
      simp only [] at h
      by_cases hreq : (!reqs.isEmpty) = true
      · rw [if_pos hreq] at h
        cases h
      · rw [if_neg hreq] at h
        cases h
        have hreq' : reqs.isEmpty = true := by simpa using hreq
        refine ⟨hz, rfl, ?_, setTyp_typ _ _, ?_⟩
        · unfold Spec.evalType
          rw [if_pos hna]
          unfold innerToOuter at hl
          cases hf : key.args.find? (fun x => decide (x.binding = t.ident)) with
          | some b =>
            rw [hf] at hl
            simp only [] at hl ⊢
            rw [bind_ok_eq (plain_of_lookup hev hl hreq')]
          | none =>
            rw [hf] at hl
            simp only [] at hl ⊢
            rw [plain_of_lookup hev hl hreq']
            have := (ht _ _ hl).1
            show Except.ok node = Except.ok (node.setTyp t.ident)
            rw [← this, setTyp_self]
        · unfold innerToOuter at hl
          cases hf : key.args.find? (fun x => decide (x.binding = t.ident)) with
          | some b =>
            right
            refine ⟨hna, b, List.mem_of_find?_eq_some hf, ?_⟩
            simpa using List.find?_some hf
          | none =>
            rw [hf] at hl
            left
            exact tableOK_ident ht hl
    · -- type arguments
      rw [if_neg hna] at h
      cases hfind : key.args.find? (fun x => decide (x.binding = t.ident) || t.args.contains x.binding) with
      | some b => rw [hfind] at h; cases h
      | none =>
        rw [hfind] at h
        simp only [] at h
        obtain ⟨v, hv, h⟩ := bind_ok h
        have hl := getArch_lookup hv
        cases v with
        | mk g reqArgs =>
        simp only [] at h
        by_cases hlen : reqArgs.length ≠ t.args.length
        · rw [if_pos hlen] at h
          cases h
        · rw [if_neg hlen] at h
          obtain ⟨node', hsub, h⟩ := bind_ok h
          cases h
          have hlen' : reqArgs.length = t.args.length := by simpa using hlen
          obtain ⟨acts, hacts, hnode, hall⟩ := substArgs_spec hev ht reqArgs t.args g node' hlen' hsub
          obtain ⟨htyp, km, hkm, hname, hargs, hshape⟩ := ht _ _ hl
          simp only [] at htyp hargs hshape
          have hany : (key.args.any fun x => decide (x.binding = t.ident) || t.args.contains x.binding) = false := by
            apply Bool.eq_false_iff.2
            intro hc
            obtain ⟨x, hx, hp⟩ := List.any_eq_true.1 hc
            have := List.find?_eq_none.1 hfind x hx
            exact this hp
          refine ⟨hz, rfl, ?_, ?_, Or.inl (tableOK_ident ht hl)⟩
          · unfold Spec.evalType
            rw [if_neg hna, hany]
            simp only [Bool.false_eq_true, if_false]
            rw [bind_ok_eq (hev _ _ hl)]
            simp only []
            rw [if_neg hlen, bind_ok_eq hacts, hnode]
            have hdecl : Spec.ownDecls d t.ident = km.2.submodules := by
              rw [← hname]; exact ownDecls_of_mem hs hkm
            rw [hdecl, replAll_substOwn d km.1.args acts
              (fun act hact => by
                obtain ⟨⟨g', hg', he⟩, _⟩ := hall act hact
                exact ⟨g', hargs ▸ hg', he⟩)
              (hs.fresh km hkm) (fun act hact => (hall act hact).2) _ _ hshape]
          · rw [hnode, setSubs_typ]
            exact htyp

theorem transformSubmodules_evalType {d : Def} (hs : Supported d) {key : TypClause GenericsDef} {a : Archs}
    {ev : Str → Except Fail (Node × List GenericsDef)}
    (hev : ∀ name v, a.lookup name = some v → ev name = .ok v) (ht : TableOK d a)
    (par : List (FieldDef × Node)) (hpar : ∀ s ∈ par, s.2.typ ∈ idents d) :
    ∀ (l : List (FieldDef × TypClause Str)) (out : List (FieldDef × Node)),
      transformSubmodules key a l = .ok out →
      l.any (fun s => s.1.kard = .cluster 0) = false ∧
      l.mapM (fun (s : FieldDef × TypClause Str) => do
        let n ← Spec.evalType ev (Spec.ownDecls d) key.args s.2
        .ok (s.1, n)) = .ok out ∧
      Shape d key.args l (out ++ par)
  | [], out, h => by
    unfold transformSubmodules at h
    cases h
    exact ⟨rfl, rfl, hpar⟩
  | (f, t) :: r, out, h => by
    unfold transformSubmodules at h
    obtain ⟨s, hs', h⟩ := bind_ok h
    obtain ⟨rest, hrest, h⟩ := bind_ok h
    cases h
    obtain ⟨hz, h1, h2, h3, h4⟩ := transformSubmodule_evalType hs hev ht (mapErr_ok hs')
    obtain ⟨hz', hm, hsh⟩ := transformSubmodules_evalType hs hev ht par hpar r rest hrest
    refine ⟨?_, ?_, ?_⟩
    · simp only [List.any_cons, hz', Bool.or_false, decide_eq_false_iff_not]
      exact hz
    · cases s with
      | mk s1 s2 =>
        simp only [] at h1 h2
        subst h1
        simp only [List.mapM_cons, h2, hm]
        rfl
    · exact ⟨h3, h4, hsh⟩

theorem shape_plain {d : Def} : ∀ (l : List (FieldDef × TypClause Str)) (subs : List (FieldDef × Node)),
    Shape d [] l subs → ∀ s ∈ subs, s.2.typ ∈ idents d
  | [], subs, h => h
  | _ :: _, [], _ => fun s hs => by cases hs
  | (f, ty) :: ds, s :: ss, h => by
    obtain ⟨h1, h2, h3⟩ := h
    intro x hx
    rcases List.mem_cons.1 hx with rfl | hx
    · rcases h2 with h2 | ⟨_, b, hb, _⟩
      · exact h1 ▸ h2
      · cases hb
    · exact shape_plain ds ss h3 x hx

theorem dupBinding_none : ∀ (l : List GenericsDef), dupBinding l = none →
    Spec.allDistinct (l.map (·.binding)) = true
  | [], _ => rfl
  | g :: r, h => by
    unfold dupBinding at h
    cases hf : r.find? (fun b => decide (g.binding = b.binding)) with
    | some b => rw [hf] at h; cases h
    | none =>
      rw [hf] at h
      simp only [List.map_cons, Spec.allDistinct, Bool.and_eq_true, Bool.not_eq_true',
        dupBinding_none r h, and_true]
      apply Bool.eq_false_iff.2
      intro hc
      have hm : g.binding ∈ r.map (·.binding) := by simpa using hc
      obtain ⟨b, hb, he⟩ := List.mem_map.1 hm
      have := List.find?_eq_none.1 hf b hb
      simp only [decide_eq_true_eq] at this
      exact this he.symm

theorem bodyOf_of_lookup {d : Def} {ev : Str → Except Fail (Node × List GenericsDef)} {name : Str}
    {km : TypClause GenericsDef × ModuleDef} (h : Spec.lookupModule d name = .ok km) :
    Spec.bodyOf d ev name =
      (if !Spec.allDistinct (km.1.args.map (·.binding)) then kerr .symbolAlreadyDefined [name]
       else if km.2.gates.any (fun g => g.kard = .cluster 0) then kerr .invalidGate [name]
       else if km.2.submodules.any (fun s => s.1.kard = .cluster 0) then kerr .invalidSubmodule [name]
       else do
        let _ ← km.1.args.mapM fun a => ev a.bound
        let own ← km.2.submodules.mapM fun (s : FieldDef × TypClause Str) => do
          let n ← Spec.evalType ev (Spec.ownDecls d) km.1.args s.2
          .ok (s.1, n)
        let parent ← Spec.parentOf ev km.2.inherit
        let conns ← km.2.connections.mapM
          (Spec.expandConn d.links (own ++ parent.subs) (extendSet km.2.gates.eraseDups parent.gates))
        .ok (.mk name (own ++ parent.subs) (extendSet km.2.gates.eraseDups parent.gates)
          (parent.conns ++ conns.flatten), km.1.args)) := by
  unfold Spec.bodyOf
  rw [bind_ok_eq h]

/-! ### one module -/

/-- **one module**: `transform_module` against a table that agrees with `ev` = `bodyOf` against
    `ev`; and the result has the `Shape` of the module -/
theorem transformModule_bodyOf {d : Def} (hs : Supported d) {key : TypClause GenericsDef} {m : ModuleDef}
    {a : Archs} {ev : Str → Except Fail (Node × List GenericsDef)}
    (hmem : (key, m) ∈ d.modules)
    (hlook : Spec.lookupModule d key.ident = .ok (key, m))
    (hev : ∀ name v, a.lookup name = some v → ev name = .ok v) (ht : TableOK d a)
    (hreq : ∀ s ∈ requiredSymbols key m, s ∈ keys a)
    {v : Node × List GenericsDef} (h : transformModule key m a d.links = .ok v) :
    Spec.bodyOf d ev key.ident = .ok v ∧ Shape d key.args m.submodules v.1.subs := by
  unfold transformModule at h
  split at h
  · cases h
  · next hdup =>
    obtain ⟨gates, hg, h⟩ := bind_ok h
    obtain ⟨subs, hsb, h⟩ := bind_ok h
    obtain ⟨inh, hi, h⟩ := bind_ok h
    obtain ⟨conns, hc, h⟩ := bind_ok h
    cases h
    -- gates
    have hgz : m.gates.any (fun g => g.kard = .cluster 0) = false ∧ gates = m.gates.eraseDups := by
      unfold transformGates at hg
      split at hg
      · cases hg
      · next hnone =>
        cases hg
        refine ⟨?_, rfl⟩
        apply Bool.eq_false_iff.2
        intro hc
        obtain ⟨g, hgm, hgk⟩ := List.any_eq_true.1 hc
        exact absurd hgk (by simpa using List.find?_eq_none.1 hnone g hgm)
    obtain ⟨hgz, rfl⟩ := hgz
    -- parent
    have hpar : ∃ P, Spec.parentOf ev m.inherit = .ok P ∧
        inh = (extendSet m.gates.eraseDups P.gates, subs ++ P.subs, P.conns) ∧
        ∀ s ∈ P.subs, s.2.typ ∈ idents d := by
      unfold inheritFrom at hi
      unfold Spec.parentOf
      cases hinh : m.inherit with
      | none =>
        rw [hinh] at hi
        cases hi
        exact ⟨_, rfl, by simp [extendSet, Node.gates, Node.subs, Node.conns],
          fun s hs' => by simp [Node.subs] at hs'⟩
      | some p =>
        rw [hinh] at hi
        simp only [] at hi ⊢
        obtain ⟨arch, harch, hi⟩ := bind_ok hi
        cases hi
        have hl := getArch_lookup harch
        rw [bind_ok_eq (hev _ _ hl)]
        refine ⟨_, rfl, rfl, ?_⟩
        obtain ⟨_, km', hkm', hname, hargs, hshape⟩ := ht _ _ hl
        have : km'.1.args = [] := hs.plainParent (key, m) hmem p hinh km' hkm' hname
        rw [this] at hshape
        exact shape_plain _ _ hshape
    obtain ⟨P, hP, rfl, hPsubs⟩ := hpar
    -- submodules
    obtain ⟨hsz, hsm, hshape⟩ := transformSubmodules_evalType hs hev ht P.subs hPsubs m.submodules subs hsb
    -- bounds
    obtain ⟨bs, hbs⟩ := mapM_ok_of_forall (fun (x : GenericsDef) => ev x.bound) key.args (by
      intro x hx
      obtain ⟨v, hv⟩ := lookup_of_mem_keys a _ (hreq _ (mem_required_bound hx))
      exact ⟨v, hev _ _ hv⟩)
    -- connections
    obtain ⟨css, hcss, hce⟩ := transformConnections_expand _ _ _ _ _ _ _ hc
    refine ⟨?_, hshape⟩
    rw [bodyOf_of_lookup hlook]
    simp only [] at hcss hce ⊢
    rw [if_neg (by simp [dupBinding_none _ hdup]), if_neg (by simp [hgz]), if_neg (by simp [hsz])]
    rw [bind_ok_eq hbs, bind_ok_eq hsm, bind_ok_eq hP, bind_ok_eq hcss, hce]

/-! ### the work list -/

/-- every stored archetype is ⟦name⟧ at every fuel ≥ the number of stored archetypes -/
def Good (d : Def) (a : Archs) : Prop :=
  ∀ f, a.length ≤ f → ∀ name v, a.lookup name = some v → Spec.evalBody d f name = .ok v

theorem transformModule_typ {ident : TypClause GenericsDef} {m : ModuleDef} {nodes : Archs}
    {links : List (Str × Link)} {v : Node × List GenericsDef}
    (h : transformModule ident m nodes links = .ok v) : v.1.typ = ident.ident ∧ v.2 = ident.args := by
  unfold transformModule at h
  split at h
  · cases h
  · obtain ⟨_, _, h⟩ := bind_ok h
    obtain ⟨_, _, h⟩ := bind_ok h
    obtain ⟨_, _, h⟩ := bind_ok h
    obtain ⟨_, _, h⟩ := bind_ok h
    cases h
    exact ⟨rfl, rfl⟩

theorem lookup_cons (k : Str) (v : Node × List GenericsDef) (a : Archs) (x : Str) :
    List.lookup x ((k, v) :: a) = if x = k then some v else a.lookup x := by
  simp only [List.lookup]
  by_cases h : x = k
  · simp [h]
  · have : (x == k) = false := by simpa using h
    simp [this, h]

theorem buildAll_good (d : Def) (hs : Supported d) : ∀ (es : List Entry) (a a' : Archs),
    buildAll d.links es a = .ok a' → Ordered (keys a) es →
    (∀ e ∈ es, e.deps = requiredSymbols e.ident e.mdef ∧ (e.ident, e.mdef) ∈ d.modules ∧
      Spec.lookupModule d e.ident.ident = .ok (e.ident, e.mdef)) →
    Good d a → TableOK d a →
    Good d a' ∧ TableOK d a' ∧ a'.length = a.length + es.length ∧
      (∀ e ∈ es, e.ident.ident ∈ keys a') ∧ (∀ k ∈ keys a, k ∈ keys a')
  | [], a, a', h, _, _, hg, ht => by
    unfold buildAll at h
    cases h
    refine ⟨hg, ht, by simp, ?_, fun k hk => hk⟩
    intro e he
    cases he
  | e :: es, a, a', h, hord, hes, hg, ht => by
    unfold buildAll at h
    obtain ⟨arch, harch, h⟩ := bind_ok h
    have harch := mapErr_ok harch
    cases hord with
    | cons hdeps hrest =>
      obtain ⟨hd, hmem, hlook⟩ := hes e (List.mem_cons_self ..)
      have hreq : ∀ s ∈ requiredSymbols e.ident e.mdef, s ∈ keys a := by rw [← hd]; exact hdeps
      have hg' : Good d ((e.ident.ident, arch) :: a) := by
        intro f hf name v hl
        rw [lookup_cons] at hl
        split at hl
        · next hname =>
          cases hl
          subst hname
          cases f with
          | zero => simp at hf
          | succ f =>
            have hf' : a.length ≤ f := by simpa using hf
            show Spec.bodyOf d (Spec.evalBody d f) e.ident.ident = .ok _
            exact (transformModule_bodyOf hs hmem hlook (fun n w hw => hg f hf' n w hw) ht hreq harch).1
        · exact hg f (by simp at hf; omega) name v hl
      have ht' : TableOK d ((e.ident.ident, arch) :: a) := by
        intro name v hl
        rw [lookup_cons] at hl
        split at hl
        · next hname =>
          cases hl
          obtain ⟨t1, t2⟩ := transformModule_typ harch
          refine ⟨by rw [hname]; exact t1, (e.ident, e.mdef), hmem, hname.symm, t2, ?_⟩
          exact (transformModule_bodyOf hs hmem hlook (fun n w hw => hg a.length (Nat.le_refl _) n w hw) ht hreq harch).2
        · exact ht name v hl
      obtain ⟨g1, g2, g3, g4, g5⟩ := buildAll_good d hs es _ a' h hrest
        (fun e' he' => hes e' (List.mem_cons_of_mem _ he')) hg' ht'
      refine ⟨g1, g2, by simp at g3 ⊢; omega, ?_, ?_⟩
      · intro e' he'
        rcases List.mem_cons.1 he' with rfl | he'
        · exact g5 _ (by simp [keys])
        · exact g4 e' he'
      · intro k hk
        exact g5 k (by simp only [keys, List.map_cons, List.mem_cons]; right; exact hk)

/-! ### completeness of the ordering loop -/

theorem pickIn_complete (q : Entry → Bool) (r0 : Entry) : ∀ (l : List Entry) (x : Entry) (l' : List Entry),
    pickIn q r0 l = some (x, l') → (∀ y, y = r0 ∨ y ∈ l → y ∈ x :: l') ∧ l'.length = l.length
  | [], x, l', h => by cases h
  | t :: ts, x, l', h => by
    unfold pickIn at h
    split at h
    · cases h
      refine ⟨?_, by simp⟩
      intro y hy
      rcases hy with rfl | hy
      · simp
      · rcases List.mem_cons.1 hy with rfl | hy
        · simp
        · simp [hy]
    · cases hp : pickIn q r0 ts with
      | none => rw [hp] at h; cases h
      | some xl =>
        cases xl with
        | mk x' l'' =>
          rw [hp] at h
          cases h
          obtain ⟨h1, h2⟩ := pickIn_complete q r0 ts x l'' hp
          refine ⟨?_, by simp [h2]⟩
          intro y hy
          rcases hy with rfl | hy
          · rcases List.mem_cons.1 (h1 y (Or.inl rfl)) with h | h
            · simp [h]
            · simp [h]
          · rcases List.mem_cons.1 hy with rfl | hy
            · simp
            · rcases List.mem_cons.1 (h1 y (Or.inr hy)) with h | h
              · simp [h]
              · simp [h]

theorem pickSwap_complete (q : Entry → Bool) : ∀ (l : List Entry) (x : Entry) (l' : List Entry),
    pickSwap q l = some (x, l') → ∀ y ∈ l, y ∈ x :: l'
  | [], x, l', h => by cases h
  | r0 :: tl, x, l', h => by
    simp only [pickSwap] at h
    split at h
    · cases h
      exact fun y hy => hy
    · intro y hy
      exact (pickIn_complete q r0 tl x l' h).1 y (List.mem_cons.1 hy)

theorem orderLoop_complete : ∀ (fuel : Nat) (done rest : List Entry) (p : List Str) (out : List Entry),
    orderLoop fuel done rest p = .ok out →
    (∀ y, y ∈ done ∨ y ∈ rest → y ∈ out) ∧ out.length = done.length + rest.length
  | fuel, done, [], p, out, h => by
    unfold orderLoop at h
    cases h
    exact ⟨fun y hy => hy.elim id (fun h => by cases h), by simp⟩
  | 0, done, r0 :: tl, p, out, h => by
    unfold orderLoop at h
    cases h
  | fuel + 1, done, r0 :: tl, p, out, h => by
    unfold orderLoop at h
    cases hp : pickSwap (resolvable p) (r0 :: tl) with
    | none => rw [hp] at h; cases h
    | some xl =>
      cases xl with
      | mk x rest' =>
        rw [hp] at h
        obtain ⟨_, hlen, _⟩ := pickSwap_spec _ _ _ _ hp
        obtain ⟨h1, h2⟩ := orderLoop_complete fuel (done ++ [x]) rest' (x.ident.ident :: p) out h
        refine ⟨?_, by simp at h2 hlen ⊢; omega⟩
        intro y hy
        rcases hy with hy | hy
        · exact h1 y (Or.inl (List.mem_append_left _ hy))
        · rcases List.mem_cons.1 (pickSwap_complete _ _ _ _ hp y hy) with rfl | hy'
          · exact h1 _ (Or.inl (by simp))
          · exact h1 y (Or.inr hy')

/-! ### the theorem -/

theorem lookupModule_of_mem {d : Def} (hs : Supported d)
    {km : TypClause GenericsDef × ModuleDef} (hm : km ∈ d.modules) :
    Spec.lookupModule d km.1.ident = .ok km := by
  have h := ownDecls_of_mem hs hm
  unfold Spec.ownDecls at h
  unfold Spec.lookupModule
  cases hf : d.modules.find? (fun x => x.1.ident = km.1.ident) with
  | none =>
    exfalso
    have := List.find?_eq_none.1 hf km hm
    simp at this
  | some km' =>
    -- the first module with this identifier is `km` itself (identifiers are distinct)
    have hmem' := List.mem_of_find?_eq_some hf
    have hid : km'.1.ident = km.1.ident := by simpa using List.find?_some hf
    have : ∀ (l : List (TypClause GenericsDef × ModuleDef)),
        Spec.allDistinct (l.map (·.1.ident)) = true → km ∈ l → km' ∈ l → km' = km := by
      intro l
      induction l with
      | nil => intro _ h; cases h
      | cons x l ih =>
        intro hd h1 h2
        simp only [List.map_cons, Spec.allDistinct, Bool.and_eq_true, Bool.not_eq_true'] at hd
        have hx : ∀ y ∈ l, y.1.ident ≠ x.1.ident := by
          intro y hy e
          have : x.1.ident ∈ l.map (·.1.ident) := e ▸ List.mem_map.2 ⟨y, hy, rfl⟩
          have hc : (l.map (·.1.ident)).contains x.1.ident = true := by simpa using this
          rw [hd.1] at hc
          cases hc
        rcases List.mem_cons.1 h1 with e1 | k1
        · rcases List.mem_cons.1 h2 with e2 | k2
          · rw [e1, e2]
          · exact absurd hid (e1 ▸ hx _ k2)
        · rcases List.mem_cons.1 h2 with e2 | k2
          · exact absurd hid.symm (e2 ▸ hx _ k1)
          · exact ih hd.2 k1 k2
    rw [this d.modules hs.uniq hm hmem']

/-- **transform = denotation** (as trees), for every description of the supported fragment:
    inheritance, generic modules, type arguments, clusters, every kind of connection, links,
    every hash-map iteration order -/
theorem transform_denoteTree (d : Def) (hsup : Spec.unsupported d = false) (n : Node)
    (h : transform d = .ok n) : Spec.denoteTree d = .ok n := by
  have hs := supported_of hsup
  unfold transform at h
  obtain ⟨archs, harchs, h⟩ := bind_ok h
  unfold elaborate at harchs
  obtain ⟨ordered, hord, hbuild⟩ := bind_ok harchs
  obtain ⟨tail, ht, hOrd, hsub⟩ := (orderLoop_spec _ [] (entries d) [] (Nat.le_refl _)).2 ordered hord
  simp only [List.nil_append] at ht
  subst ht
  obtain ⟨hall, hlen⟩ := orderLoop_complete _ _ _ _ _ hord
  have hes : ∀ e ∈ ordered, e.deps = requiredSymbols e.ident e.mdef ∧ (e.ident, e.mdef) ∈ d.modules ∧
      Spec.lookupModule d e.ident.ident = .ok (e.ident, e.mdef) := by
    intro e he
    have := hsub e he
    simp only [entries, List.mem_map] at this
    obtain ⟨km, hkm, rfl⟩ := this
    exact ⟨rfl, hkm, lookupModule_of_mem hs hkm⟩
  obtain ⟨hgood, _, hlen', hkeys, _⟩ := buildAll_good d hs ordered [] archs hbuild hOrd hes
    (fun f _ name v hl => by cases hl) (fun name v hl => by cases hl)
  have hfuel : archs.length ≤ d.modules.length + 1 := by
    simp [entries] at hlen hlen'
    omega
  -- every module denotes
  have hmods : ∀ km ∈ d.modules, ∃ b, Spec.evalBody d (d.modules.length + 1) km.1.ident = .ok b := by
    intro km hkm
    have he : (⟨km.1, km.2, requiredSymbols km.1 km.2⟩ : Entry) ∈ ordered :=
      hall _ (Or.inr (List.mem_map.2 ⟨km, hkm, rfl⟩))
    obtain ⟨v, hv⟩ := lookup_of_mem_keys archs _ (hkeys _ he)
    exact ⟨v, hgood _ hfuel _ _ hv⟩
  obtain ⟨bs, hbs⟩ := mapM_ok_of_forall _ d.modules hmods
  unfold Spec.denoteTree
  rw [bind_ok_eq hbs]
  cases hl : archs.lookup d.entry with
  | none => rw [hl] at h; cases h
  | some v =>
    rw [hl] at h
    cases h
    have hev := hgood _ hfuel _ _ hl
    cases hfind : d.modules.find? (fun km => km.1.ident = d.entry) with
    | none =>
      exfalso
      have : Spec.evalBody d (d.modules.length + 1) d.entry = Spec.bodyOf d (Spec.evalBody d d.modules.length) d.entry := rfl
      rw [this] at hev
      unfold Spec.bodyOf Spec.lookupModule at hev
      rw [hfind] at hev
      cases hev
    | some km =>
      simp only []
      rw [bind_ok_eq hev]

end Ndl

namespace Ndl

/-! ### why the model rejects: local causes of three error kinds -/

theorem pickIn_none (q : Entry → Bool) (r0 : Entry) : ∀ (l : List Entry),
    pickIn q r0 l = none → ∀ e ∈ l, q e = false
  | [], _, e, he => by cases he
  | t :: ts, h, e, he => by
    unfold pickIn at h
    split at h
    · cases h
    · next hq =>
      cases hp : pickIn q r0 ts with
      | some xl => rw [hp] at h; cases h
      | none =>
        rcases List.mem_cons.1 he with rfl | he
        · simpa using hq
        · exact pickIn_none q r0 ts hp e he

theorem pickSwap_none (q : Entry → Bool) : ∀ (l : List Entry),
    pickSwap q l = none → ∀ e ∈ l, q e = false
  | [], _, e, he => by cases he
  | r0 :: tl, h, e, he => by
    simp only [pickSwap] at h
    split at h
    · cases h
    · next hq =>
      rcases List.mem_cons.1 he with rfl | he
      · simpa using hq
      · exact pickIn_none q r0 tl h e he

/-- the ordering loop fails only with `UnresolvableDependency(stuck)`, where `stuck` is non-empty,
    consists of given modules, and every stuck module requires a symbol that none of the modules
    ordered so far (nor `p`) provides -/
theorem orderLoop_error : ∀ (fuel : Nat) (done rest : List Entry) (p : List Str) (f : Fail),
    rest.length ≤ fuel → orderLoop fuel done rest p = .error f →
    ∃ (stuck : List Entry) (p' : List Str), f = .err .unresolvableDependency (stuck.map (·.ident.ident)) {} ∧
      stuck ≠ [] ∧ (∀ e ∈ stuck, e ∈ rest) ∧ (∀ s ∈ p, s ∈ p') ∧
      ∀ e ∈ stuck, ∃ s ∈ e.deps, s ∉ p'
  | fuel, done, [], p, f, _, h => by
    unfold orderLoop at h
    cases h
  | 0, done, r0 :: tl, p, f, hf, _ => by simp at hf
  | fuel + 1, done, r0 :: tl, p, f, hf, h => by
    unfold orderLoop at h
    cases hp : pickSwap (resolvable p) (r0 :: tl) with
    | none =>
      rw [hp] at h
      cases h
      refine ⟨r0 :: tl, p, rfl, by simp, fun e he => he, fun s hs => hs, ?_⟩
      intro e he
      have hq := pickSwap_none _ _ hp e he
      unfold resolvable at hq
      by_cases hex : ∃ s, s ∈ e.deps ∧ ¬ s ∈ p
      · obtain ⟨s, hs, hns⟩ := hex
        exact ⟨s, hs, hns⟩
      · exfalso
        have : (e.deps.all fun s => p.contains s) = true := by
          apply List.all_eq_true.2
          intro s hs
          by_cases hsp : s ∈ p
          · simpa using hsp
          · exact absurd ⟨s, hs, hsp⟩ hex
        rw [this] at hq
        cases hq
    | some xl =>
      cases xl with
      | mk x rest' =>
        rw [hp] at h
        obtain ⟨_, hlen, hmem⟩ := pickSwap_spec _ _ _ _ hp
        have hf' : rest'.length ≤ fuel := by
          simp only [List.length_cons] at hlen hf
          omega
        obtain ⟨stuck, p', e1, e2, e3, e4, e5⟩ := orderLoop_error fuel _ rest' _ f hf' h
        exact ⟨stuck, p', e1, e2, fun e he => hmem _ (List.mem_cons_of_mem _ (e3 e he)),
          fun s hs => e4 s (List.mem_cons_of_mem _ hs), e5⟩

theorem kardAccess_error (d a : FieldDef) (f : Fail) (h : kardAccess d a = .error f) :
    f = .err .connectionIndexOutOfBounds [a.display] {} ∧
    ((d.kard = .atom ∧ ∃ i, a.kard = .cluster i) ∨ ∃ n i, d.kard = .cluster n ∧ a.kard = .cluster i ∧ n ≤ i) := by
  unfold kardAccess at h
  split at h
  · cases h
  · next n i hd ha =>
    split at h
    · cases h
    · next hlt =>
      cases h
      exact ⟨rfl, Or.inr ⟨n, i, hd, ha, Nat.le_of_not_lt hlt⟩⟩
  · next i hd ha =>
    cases h
    exact ⟨rfl, Or.inl ⟨hd, i, ha⟩⟩
  · cases h

theorem transformGates_error (ident : Str) (defs : List GateDef) (f : Fail)
    (h : transformGates ident defs = .error f) :
    ∃ g ∈ defs, g.kard = .cluster 0 ∧ f = .err .invalidGate [ident, g.ident] { gate := some g.display } := by
  unfold transformGates at h
  split at h
  · next v hv =>
    cases h
    exact ⟨v, List.mem_of_find?_eq_some hv, by simpa using List.find?_some hv, rfl⟩
  · cases h

end Ndl

/-
C18, elaboration vs. denotation: the memoised bottom-up `transform` (dependency-ordered work list,
table of finished archetypes) computes the top-down denotation `Spec.denoteTree`.

* `endpointInner_expand`      — endpoint expansion with a position stack = the list comprehension
* `transformConnections_expand`
* `transformModule_bodyOf`    — one module: if the table agrees with `ev` on everything it stores,
                                `transform_module` against the table = `Spec.bodyOf` against `ev`
* `buildAll_good`             — along the work list every stored archetype is ⟦name⟧ for every
                                fuel ≥ the number of stored archetypes
* `transform_denoteTree`      — the theorem (submodule types without type arguments)
-/
import Desverif.Spec.Ndl
import Desverif.Proofs.NdlTotal
namespace Ndl

theorem bind_ok_eq {α β : Type} {x : Except Fail α} {f : α → Except Fail β} {a : α}
    (h : x = .ok a) : x >>= f = f a := by rw [h]; rfl

theorem mapM_uniform {α β : Type} (f : α → Except Fail β) (g : α → β) :
    ∀ (l : List α) (ys : List β), l.mapM f = .ok ys →
      (∀ x ∈ l, ∀ y, f x = .ok y → y = g x) → ys = l.map g
  | [], ys, h, _ => by
    simp only [List.mapM_nil] at h
    cases h; rfl
  | a :: l, ys, h, hg => by
    simp only [List.mapM_cons] at h
    obtain ⟨b, hb, h⟩ := bind_ok h
    obtain ⟨bs, hbs, h⟩ := bind_ok h
    cases h
    rw [List.map_cons, hg a (List.mem_cons_self ..) b hb,
      mapM_uniform f g l bs hbs fun x hx => hg x (List.mem_cons_of_mem _ hx)]

theorem mapM_ok_of_forall {α β : Type} (f : α → Except Fail β) :
    ∀ (l : List α), (∀ a ∈ l, ∃ b, f a = .ok b) → ∃ bs, l.mapM f = .ok bs
  | [], _ => ⟨[], rfl⟩
  | a :: l, h => by
    obtain ⟨b, hb⟩ := h a (List.mem_cons_self ..)
    obtain ⟨bs, hbs⟩ := mapM_ok_of_forall f l fun x hx => h x (List.mem_cons_of_mem _ hx)
    refine ⟨b :: bs, ?_⟩
    simp only [List.mapM_cons]
    rw [bind_ok_eq hb, bind_ok_eq hbs]
    rfl

/-! ### connection endpoints -/

theorem kardAccess_eq_indices (d a : FieldDef) : kardAccess d a = Spec.indices d a := by
  unfold kardAccess Spec.indices
  cases d.kard <;> cases a.kard <;> rfl

theorem flatten_prefix (pos : List Accessor) (t : List (List Accessor)) :
    ∀ (locals : List Accessor),
      (locals.map fun lm => t.map fun x => (pos ++ [lm]) ++ x).flatten =
        (locals.flatMap fun a => t.map fun tl => a :: tl).map (fun x => pos ++ x)
  | [] => rfl
  | l0 :: ls => by
    simp only [List.map_cons, List.flatten_cons, List.flatMap_cons, List.map_append, List.map_map,
      flatten_prefix pos t ls]
    congr 1
    apply List.map_congr_left
    intro x _
    simp

theorem endpointInner_expand : ∀ (acc : List FieldDef) (pos : List Accessor)
    (subs : List (FieldDef × Node)) (gates : List FieldDef) (r : List (List Accessor)),
    endpointInner pos acc subs gates = .ok r →
    ∃ r', Spec.expandEndpoint acc subs gates = .ok r' ∧ r = r'.map (fun x => pos ++ x)
  | [], pos, subs, gates, r, h => by
    unfold endpointInner at h
    cases h
  | [a], pos, subs, gates, r, h => by
    unfold endpointInner at h
    unfold Spec.expandEndpoint
    cases hf : gates.find? (fun g => decide (g.ident = a.ident)) with
    | none => rw [hf] at h; cases h
    | some decl =>
      rw [hf] at h
      simp only [] at h ⊢
      obtain ⟨finals, hk, h⟩ := bind_ok h
      cases h
      rw [← kardAccess_eq_indices, bind_ok_eq hk]
      exact ⟨_, rfl, by simp [List.map_map, Function.comp]⟩
  | a :: b :: rest, pos, subs, gates, r, h => by
    unfold endpointInner at h
    unfold Spec.expandEndpoint
    cases hf : subs.find? (fun n => decide (n.1.ident = a.ident)) with
    | none => rw [hf] at h; cases h
    | some sub =>
      rw [hf] at h
      simp only [] at h ⊢
      obtain ⟨locals, hk, h⟩ := bind_ok h
      obtain ⟨inner, hin, h⟩ := bind_ok h
      cases h
      rw [← kardAccess_eq_indices, bind_ok_eq hk]
      cases locals with
      | nil =>
        simp only [List.mapM_nil] at hin
        cases hin
        exact ⟨[], rfl, rfl⟩
      | cons l0 ls =>
        simp only [List.isEmpty_cons, Bool.false_eq_true, if_false]
        -- the first iteration determines the tails
        have h0 := hin
        simp only [List.mapM_cons] at h0
        obtain ⟨x0, hx0, _⟩ := bind_ok h0
        obtain ⟨t, ht, _⟩ := endpointInner_expand (b :: rest) _ _ _ x0 hx0
        have huni : ∀ lm ∈ l0 :: ls, ∀ y,
            endpointInner (pos ++ [lm]) (b :: rest) sub.2.subs sub.2.gates = .ok y →
            y = t.map fun x => (pos ++ [lm]) ++ x := by
          intro lm _ y hy
          obtain ⟨t', ht', hy'⟩ := endpointInner_expand (b :: rest) _ _ _ y hy
          rw [ht] at ht'
          cases ht'
          exact hy'
        have hinner := mapM_uniform _ _ _ _ hin huni
        rw [bind_ok_eq ht]
        refine ⟨_, rfl, ?_⟩
        rw [hinner]
        exact flatten_prefix pos t (l0 :: ls)

theorem transformConnection_expand {c : ConnDef} {subs : List (FieldDef × Node)}
    {gates : List FieldDef} {links : List (Str × Link)} {results r : List Conn}
    (h : transformConnection c subs gates links results = .ok r) :
    ∃ cs, Spec.expandConn links subs gates c = .ok cs ∧ r = results ++ cs := by
  unfold transformConnection at h
  obtain ⟨lhs, hl, h⟩ := bind_ok h
  obtain ⟨rhs, hr, h⟩ := bind_ok h
  obtain ⟨l', hl', el⟩ := endpointInner_expand _ _ _ _ _ hl
  obtain ⟨r', hr', er⟩ := endpointInner_expand _ _ _ _ _ hr
  simp only [List.nil_append, List.map_id'] at el er
  subst el er
  unfold Spec.expandConn
  rw [bind_ok_eq hl', bind_ok_eq hr']
  split at h
  · cases h
  · next hlen =>
    rw [if_neg hlen]
    obtain ⟨link, hlink, h⟩ := bind_ok h
    cases h
    unfold lookupLink at hlink
    cases hc : c.link with
    | none =>
      rw [hc] at hlink
      cases hlink
      exact ⟨_, rfl, rfl⟩
    | some name =>
      rw [hc] at hlink
      simp only [] at hlink ⊢
      cases hlk : links.lookup name with
      | none => rw [hlk] at hlink; cases hlink
      | some v =>
        rw [hlk] at hlink
        cases hlink
        exact ⟨_, rfl, rfl⟩

theorem transformConnections_expand (subs : List (FieldDef × Node)) (gates : List FieldDef)
    (links : List (Str × Link)) : ∀ (l : List ConnDef) (idx : Nat) (results r : List Conn),
    transformConnections subs gates links idx l results = .ok r →
    ∃ css, l.mapM (Spec.expandConn links subs gates) = .ok css ∧ r = results ++ css.flatten
  | [], _, results, r, h => by
    unfold transformConnections at h
    cases h
    exact ⟨[], rfl, by simp⟩
  | c :: l, idx, results, r, h => by
    unfold transformConnections at h
    obtain ⟨r1, h1, h⟩ := bind_ok h
    obtain ⟨cs, hcs, e1⟩ := transformConnection_expand (mapErr_ok h1)
    obtain ⟨css, hcss, e2⟩ := transformConnections_expand subs gates links l _ _ r h
    refine ⟨cs :: css, ?_, ?_⟩
    · simp only [List.mapM_cons]
      rw [bind_ok_eq hcs, bind_ok_eq hcss]
      rfl
    · rw [e2, e1]
      simp

/-! ### one module -/

/-- the table stores every module under its own name -/
def TypOK (a : Archs) : Prop := ∀ name v, a.lookup name = some v → v.1.typ = name

theorem setTyp_self (n : Node) : n.setTyp n.typ = n := by cases n; rfl

theorem getArch_lookup {a : Archs} {k : Str} {v : Node × List GenericsDef} (h : getArch a k = .ok v) :
    a.lookup k = some v := by
  unfold getArch at h
  cases hl : a.lookup k with
  | none => rw [hl] at h; cases h
  | some v' => rw [hl] at h; cases h; rfl

/-- a submodule whose type has no arguments -/
theorem transformSubmodule_evalType {fld : FieldDef} {key : TypClause GenericsDef} {t : TypClause Str}
    {a : Archs} {ev : Str → Except Fail (Node × List GenericsDef)}
    (decls : Str → List (FieldDef × TypClause Str))
    (hev : ∀ name v, a.lookup name = some v → ev name = .ok v) (htyp : TypOK a)
    (hna : t.args.isEmpty = true) {out : FieldDef × Node}
    (h : transformSubmodule fld key t a = .ok out) :
    fld.kard ≠ .cluster 0 ∧ out.1 = fld ∧ Spec.evalType ev decls key.args t = .ok out.2 := by
  unfold transformSubmodule at h
  by_cases hz : fld.kard = .cluster 0
  · rw [if_pos hz] at h
    cases h
  · rw [if_neg hz, if_pos hna] at h
    obtain ⟨v, hv, h⟩ := bind_ok h
    have hl := getArch_lookup hv
    cases v with
    | mk node reqs =>
    simp only [] at h
    by_cases hreq : (!reqs.isEmpty) = true
    · rw [if_pos hreq] at h
      cases h
    · rw [if_neg hreq] at h
      cases h
      refine ⟨hz, rfl, ?_⟩
      unfold Spec.evalType
      rw [if_pos hna]
      have hreq' : reqs.isEmpty = true := by simpa using hreq
      unfold innerToOuter at hl
      cases hf : key.args.find? (fun x => decide (x.binding = t.ident)) with
      | some b =>
        rw [hf] at hl
        simp only [] at hl ⊢
        unfold Spec.plain
        rw [hev _ _ hl]
        show ((if reqs.isEmpty = true then Except.ok node else kerr .invalidTypStatement [b.bound]) >>=
          fun n => Except.ok (Node.setTyp t.ident n)) = _
        rw [if_pos hreq']
        rfl
      | none =>
        rw [hf] at hl
        simp only [] at hl ⊢
        unfold Spec.plain
        rw [hev _ _ hl]
        show (if reqs.isEmpty = true then Except.ok node else kerr .invalidTypStatement [t.ident]) = _
        rw [if_pos hreq']
        have := htyp _ _ hl
        show Except.ok node = Except.ok (node.setTyp t.ident)
        rw [← this, setTyp_self]

theorem transformSubmodules_evalType {key : TypClause GenericsDef} {a : Archs}
    {ev : Str → Except Fail (Node × List GenericsDef)} (decls : Str → List (FieldDef × TypClause Str))
    (hev : ∀ name v, a.lookup name = some v → ev name = .ok v) (htyp : TypOK a) :
    ∀ (l : List (FieldDef × TypClause Str)) (out : List (FieldDef × Node)),
      (∀ s ∈ l, s.2.args.isEmpty = true) → transformSubmodules key a l = .ok out →
      l.any (fun s => s.1.kard = .cluster 0) = false ∧
      l.mapM (fun (s : FieldDef × TypClause Str) => do
        let n ← Spec.evalType ev decls key.args s.2
        .ok (s.1, n)) = .ok out
  | [], out, _, h => by
    unfold transformSubmodules at h
    cases h
    exact ⟨rfl, rfl⟩
  | (f, t) :: r, out, hna, h => by
    unfold transformSubmodules at h
    obtain ⟨s, hs, h⟩ := bind_ok h
    obtain ⟨rest, hrest, h⟩ := bind_ok h
    cases h
    obtain ⟨hz, h1, h2⟩ := transformSubmodule_evalType decls hev htyp
      (hna (f, t) (List.mem_cons_self ..)) (mapErr_ok hs)
    obtain ⟨hz', hm⟩ := transformSubmodules_evalType decls hev htyp r rest
      (fun x hx => hna x (List.mem_cons_of_mem _ hx)) hrest
    refine ⟨?_, ?_⟩
    · simp only [List.any_cons, hz', Bool.or_false, decide_eq_false_iff_not]
      exact hz
    · cases s with
      | mk s1 s2 =>
        simp only [] at h1 h2
        subst h1
        simp only [List.mapM_cons, h2, hm]
        rfl

theorem dupBinding_none : ∀ (l : List GenericsDef), dupBinding l = none →
    Spec.allDistinct (l.map (·.binding)) = true
  | [], _ => rfl
  | g :: r, h => by
    unfold dupBinding at h
    cases hf : r.find? (fun b => decide (g.binding = b.binding)) with
    | some b => rw [hf] at h; cases h
    | none =>
      rw [hf] at h
      simp only [List.map_cons, Spec.allDistinct, Bool.and_eq_true, Bool.not_eq_true',
        dupBinding_none r h, and_true]
      apply Bool.eq_false_iff.2
      intro hc
      have hm : g.binding ∈ r.map (·.binding) := by simpa using hc
      obtain ⟨b, hb, he⟩ := List.mem_map.1 hm
      have := List.find?_eq_none.1 hf b hb
      simp only [decide_eq_true_eq] at this
      exact this he.symm

theorem bodyOf_of_lookup {d : Def} {ev : Str → Except Fail (Node × List GenericsDef)} {name : Str}
    {km : TypClause GenericsDef × ModuleDef} (h : Spec.lookupModule d name = .ok km) :
    Spec.bodyOf d ev name =
      (if !Spec.allDistinct (km.1.args.map (·.binding)) then kerr .symbolAlreadyDefined [name]
       else if km.2.gates.any (fun g => g.kard = .cluster 0) then kerr .invalidGate [name]
       else if km.2.submodules.any (fun s => s.1.kard = .cluster 0) then kerr .invalidSubmodule [name]
       else do
        let _ ← km.1.args.mapM fun a => ev a.bound
        let own ← km.2.submodules.mapM fun (s : FieldDef × TypClause Str) => do
          let n ← Spec.evalType ev (Spec.ownDecls d) km.1.args s.2
          .ok (s.1, n)
        let parent ← Spec.parentOf ev km.2.inherit
        let conns ← km.2.connections.mapM
          (Spec.expandConn d.links (own ++ parent.subs) (extendSet km.2.gates.eraseDups parent.gates))
        .ok (.mk name (own ++ parent.subs) (extendSet km.2.gates.eraseDups parent.gates)
          (parent.conns ++ conns.flatten), km.1.args)) := by
  unfold Spec.bodyOf
  rw [bind_ok_eq h]

/-- **one module**: `transform_module` against a table that agrees with `ev` = `bodyOf` against `ev` -/
theorem transformModule_bodyOf {d : Def} {key : TypClause GenericsDef} {m : ModuleDef} {a : Archs}
    {ev : Str → Except Fail (Node × List GenericsDef)}
    (hlook : Spec.lookupModule d key.ident = .ok (key, m))
    (hev : ∀ name v, a.lookup name = some v → ev name = .ok v) (htyp : TypOK a)
    (hreq : ∀ s ∈ requiredSymbols key m, s ∈ keys a)
    (hna : ∀ s ∈ m.submodules, s.2.args.isEmpty = true)
    {v : Node × List GenericsDef} (h : transformModule key m a d.links = .ok v) :
    Spec.bodyOf d ev key.ident = .ok v := by
  unfold transformModule at h
  split at h
  · cases h
  · next hdup =>
    obtain ⟨gates, hg, h⟩ := bind_ok h
    obtain ⟨subs, hs, h⟩ := bind_ok h
    obtain ⟨inh, hi, h⟩ := bind_ok h
    obtain ⟨conns, hc, h⟩ := bind_ok h
    cases h
    -- gates
    have hgz : m.gates.any (fun g => g.kard = .cluster 0) = false ∧ gates = m.gates.eraseDups := by
      unfold transformGates at hg
      split at hg
      · cases hg
      · next hnone =>
        cases hg
        refine ⟨?_, rfl⟩
        apply Bool.eq_false_iff.2
        intro hc
        obtain ⟨g, hgm, hgk⟩ := List.any_eq_true.1 hc
        exact absurd hgk (by simpa using List.find?_eq_none.1 hnone g hgm)
    obtain ⟨hgz, rfl⟩ := hgz
    -- submodules
    obtain ⟨hsz, hsm⟩ := transformSubmodules_evalType (Spec.ownDecls d) hev htyp m.submodules subs hna hs
    -- bounds
    obtain ⟨bs, hbs⟩ := mapM_ok_of_forall (fun (x : GenericsDef) => ev x.bound) key.args (by
      intro x hx
      obtain ⟨v, hv⟩ := lookup_of_mem_keys a _ (hreq _ (mem_required_bound hx))
      exact ⟨v, hev _ _ hv⟩)
    -- parent
    have hpar : ∃ P, Spec.parentOf ev m.inherit = .ok P ∧
        inh = (extendSet m.gates.eraseDups P.gates, subs ++ P.subs, P.conns) := by
      unfold inheritFrom at hi
      unfold Spec.parentOf
      cases hinh : m.inherit with
      | none =>
        rw [hinh] at hi
        cases hi
        exact ⟨_, rfl, by simp [extendSet, Node.gates, Node.subs, Node.conns]⟩
      | some p =>
        rw [hinh] at hi
        simp only [] at hi ⊢
        obtain ⟨arch, harch, hi⟩ := bind_ok hi
        cases hi
        rw [bind_ok_eq (hev _ _ (getArch_lookup harch))]
        exact ⟨_, rfl, rfl⟩
    obtain ⟨P, hP, rfl⟩ := hpar
    -- connections
    obtain ⟨css, hcss, hce⟩ := transformConnections_expand _ _ _ _ _ _ _ hc
    rw [bodyOf_of_lookup hlook]
    simp only [] at hcss hce ⊢
    rw [if_neg (by simp [dupBinding_none _ hdup]), if_neg (by simp [hgz]), if_neg (by simp [hsz])]
    rw [bind_ok_eq hbs, bind_ok_eq hsm, bind_ok_eq hP, bind_ok_eq hcss, hce]

/-! ### the work list -/

/-- every stored archetype is ⟦name⟧ at every fuel ≥ the number of stored archetypes -/
def Good (d : Def) (a : Archs) : Prop :=
  ∀ f, a.length ≤ f → ∀ name v, a.lookup name = some v → Spec.evalBody d f name = .ok v

theorem transformModule_typ {ident : TypClause GenericsDef} {m : ModuleDef} {nodes : Archs}
    {links : List (Str × Link)} {v : Node × List GenericsDef}
    (h : transformModule ident m nodes links = .ok v) : v.1.typ = ident.ident := by
  unfold transformModule at h
  split at h
  · cases h
  · obtain ⟨_, _, h⟩ := bind_ok h
    obtain ⟨_, _, h⟩ := bind_ok h
    obtain ⟨_, _, h⟩ := bind_ok h
    obtain ⟨_, _, h⟩ := bind_ok h
    cases h
    rfl

theorem lookup_cons (k : Str) (v : Node × List GenericsDef) (a : Archs) (x : Str) :
    List.lookup x ((k, v) :: a) = if x = k then some v else a.lookup x := by
  simp only [List.lookup]
  by_cases h : x = k
  · simp [h]
  · have : (x == k) = false := by simpa using h
    simp [this, h]

theorem buildAll_good (d : Def) : ∀ (es : List Entry) (a a' : Archs),
    buildAll d.links es a = .ok a' → Ordered (keys a) es →
    (∀ e ∈ es, e.deps = requiredSymbols e.ident e.mdef ∧
      Spec.lookupModule d e.ident.ident = .ok (e.ident, e.mdef) ∧
      ∀ s ∈ e.mdef.submodules, s.2.args.isEmpty = true) →
    Good d a → TypOK a →
    Good d a' ∧ TypOK a' ∧ a'.length = a.length + es.length ∧
      (∀ e ∈ es, e.ident.ident ∈ keys a') ∧ (∀ k ∈ keys a, k ∈ keys a')
  | [], a, a', h, _, _, hg, ht => by
    unfold buildAll at h
    cases h
    refine ⟨hg, ht, by simp, ?_, fun k hk => hk⟩
    intro e he
    cases he
  | e :: es, a, a', h, hord, hes, hg, ht => by
    unfold buildAll at h
    obtain ⟨arch, harch, h⟩ := bind_ok h
    have harch := mapErr_ok harch
    cases hord with
    | cons hdeps hrest =>
      obtain ⟨hd, hlook, hna⟩ := hes e (List.mem_cons_self ..)
      have hreq : ∀ s ∈ requiredSymbols e.ident e.mdef, s ∈ keys a := by rw [← hd]; exact hdeps
      have hg' : Good d ((e.ident.ident, arch) :: a) := by
        intro f hf name v hl
        rw [lookup_cons] at hl
        split at hl
        · next hname =>
          cases hl
          subst hname
          cases f with
          | zero => simp at hf
          | succ f =>
            have hf' : a.length ≤ f := by simpa using hf
            show Spec.bodyOf d (Spec.evalBody d f) e.ident.ident = .ok _
            exact transformModule_bodyOf hlook (fun n w hw => hg f hf' n w hw) ht hreq hna harch
        · exact hg f (by simp at hf; omega) name v hl
      have ht' : TypOK ((e.ident.ident, arch) :: a) := by
        intro name v hl
        rw [lookup_cons] at hl
        split at hl
        · next hname => cases hl; rw [hname]; exact transformModule_typ harch
        · exact ht name v hl
      obtain ⟨g1, g2, g3, g4, g5⟩ := buildAll_good d es _ a' h hrest
        (fun e' he' => hes e' (List.mem_cons_of_mem _ he')) hg' ht'
      refine ⟨g1, g2, by simp at g3 ⊢; omega, ?_, ?_⟩
      · intro e' he'
        rcases List.mem_cons.1 he' with rfl | he'
        · exact g5 _ (by simp [keys])
        · exact g4 e' he'
      · intro k hk
        exact g5 k (by simp only [keys, List.map_cons, List.mem_cons]; right; exact hk)

/-! ### completeness of the ordering loop -/

theorem pickIn_complete (q : Entry → Bool) (r0 : Entry) : ∀ (l : List Entry) (x : Entry) (l' : List Entry),
    pickIn q r0 l = some (x, l') → (∀ y, y = r0 ∨ y ∈ l → y ∈ x :: l') ∧ l'.length = l.length
  | [], x, l', h => by cases h
  | t :: ts, x, l', h => by
    unfold pickIn at h
    split at h
    · cases h
      refine ⟨?_, by simp⟩
      intro y hy
      rcases hy with rfl | hy
      · simp
      · rcases List.mem_cons.1 hy with rfl | hy
        · simp
        · simp [hy]
    · cases hp : pickIn q r0 ts with
      | none => rw [hp] at h; cases h
      | some xl =>
        cases xl with
        | mk x' l'' =>
          rw [hp] at h
          cases h
          obtain ⟨h1, h2⟩ := pickIn_complete q r0 ts x l'' hp
          refine ⟨?_, by simp [h2]⟩
          intro y hy
          rcases hy with rfl | hy
          · rcases List.mem_cons.1 (h1 y (Or.inl rfl)) with h | h
            · simp [h]
            · simp [h]
          · rcases List.mem_cons.1 hy with rfl | hy
            · simp
            · rcases List.mem_cons.1 (h1 y (Or.inr hy)) with h | h
              · simp [h]
              · simp [h]

theorem pickSwap_complete (q : Entry → Bool) : ∀ (l : List Entry) (x : Entry) (l' : List Entry),
    pickSwap q l = some (x, l') → ∀ y ∈ l, y ∈ x :: l'
  | [], x, l', h => by cases h
  | r0 :: tl, x, l', h => by
    simp only [pickSwap] at h
    split at h
    · cases h
      exact fun y hy => hy
    · intro y hy
      exact (pickIn_complete q r0 tl x l' h).1 y (List.mem_cons.1 hy)

theorem orderLoop_complete : ∀ (fuel : Nat) (done rest : List Entry) (p : List Str) (out : List Entry),
    orderLoop fuel done rest p = .ok out →
    (∀ y, y ∈ done ∨ y ∈ rest → y ∈ out) ∧ out.length = done.length + rest.length
  | fuel, done, [], p, out, h => by
    unfold orderLoop at h
    cases h
    exact ⟨fun y hy => hy.elim id (fun h => by cases h), by simp⟩
  | 0, done, r0 :: tl, p, out, h => by
    unfold orderLoop at h
    cases h
  | fuel + 1, done, r0 :: tl, p, out, h => by
    unfold orderLoop at h
    cases hp : pickSwap (resolvable p) (r0 :: tl) with
    | none => rw [hp] at h; cases h
    | some xl =>
      cases xl with
      | mk x rest' =>
        rw [hp] at h
        obtain ⟨_, hlen, _⟩ := pickSwap_spec _ _ _ _ hp
        obtain ⟨h1, h2⟩ := orderLoop_complete fuel (done ++ [x]) rest' (x.ident.ident :: p) out h
        refine ⟨?_, by simp at h2 hlen ⊢; omega⟩
        intro y hy
        rcases hy with hy | hy
        · exact h1 y (Or.inl (List.mem_append_left _ hy))
        · rcases List.mem_cons.1 (pickSwap_complete _ _ _ _ hp y hy) with rfl | hy'
          · exact h1 _ (Or.inl (by simp))
          · exact h1 y (Or.inr hy')

/-! ### the theorem -/

theorem lookupModule_of_mem (d : Def) (hu : Spec.allDistinct (d.modules.map (·.1.ident)) = true)
    {km : TypClause GenericsDef × ModuleDef} (hm : km ∈ d.modules) :
    Spec.lookupModule d km.1.ident = .ok km := by
  unfold Spec.lookupModule
  have : ∀ (l : List (TypClause GenericsDef × ModuleDef)),
      Spec.allDistinct (l.map (·.1.ident)) = true → km ∈ l →
      l.find? (fun x => x.1.ident = km.1.ident) = some km := by
    intro l
    induction l with
    | nil => intro _ h; cases h
    | cons x l ih =>
      intro hd hmem
      simp only [List.map_cons, Spec.allDistinct, Bool.and_eq_true, Bool.not_eq_true'] at hd
      rcases List.mem_cons.1 hmem with rfl | hmem
      · simp
      · have hne : x.1.ident ≠ km.1.ident := by
          intro e
          have : x.1.ident ∈ l.map (·.1.ident) := e ▸ List.mem_map.2 ⟨km, hmem, rfl⟩
          have hc : (l.map (·.1.ident)).contains x.1.ident = true := by simpa using this
          rw [hd.1] at hc
          cases hc
        simp only [List.find?_cons, hne, decide_false]
        exact ih hd.2 hmem
  rw [this d.modules hu hm]

/-- **transform = denotation** (as trees), for descriptions with pairwise distinct module
    identifiers whose submodule types carry no type arguments -/
theorem transform_denoteTree (d : Def) (hu : Spec.allDistinct (d.modules.map (·.1.ident)) = true)
    (hna : Spec.noTypeArgs d = true) (n : Node) (h : transform d = .ok n) :
    Spec.denoteTree d = .ok n := by
  unfold transform at h
  obtain ⟨archs, harchs, h⟩ := bind_ok h
  unfold elaborate at harchs
  obtain ⟨ordered, hord, hbuild⟩ := bind_ok harchs
  obtain ⟨tail, ht, hOrd, hsub⟩ := (orderLoop_spec _ [] (entries d) [] (Nat.le_refl _)).2 ordered hord
  simp only [List.nil_append] at ht
  subst ht
  obtain ⟨hall, hlen⟩ := orderLoop_complete _ _ _ _ _ hord
  have hes : ∀ e ∈ ordered, e.deps = requiredSymbols e.ident e.mdef ∧
      Spec.lookupModule d e.ident.ident = .ok (e.ident, e.mdef) ∧
      ∀ s ∈ e.mdef.submodules, s.2.args.isEmpty = true := by
    intro e he
    have := hsub e he
    simp only [entries, List.mem_map] at this
    obtain ⟨km, hkm, rfl⟩ := this
    refine ⟨rfl, lookupModule_of_mem d hu hkm, ?_⟩
    intro s hs
    have := List.all_eq_true.1 hna km hkm
    exact List.all_eq_true.1 this s hs
  obtain ⟨hgood, _, hlen', hkeys, _⟩ := buildAll_good d ordered [] archs hbuild hOrd hes
    (fun f _ name v hl => by cases hl) (fun name v hl => by cases hl)
  have hfuel : archs.length ≤ d.modules.length + 1 := by
    simp [entries] at hlen hlen'
    omega
  -- every module denotes
  have hmods : ∀ km ∈ d.modules, ∃ b, Spec.evalBody d (d.modules.length + 1) km.1.ident = .ok b := by
    intro km hkm
    have he : (⟨km.1, km.2, requiredSymbols km.1 km.2⟩ : Entry) ∈ ordered :=
      hall _ (Or.inr (List.mem_map.2 ⟨km, hkm, rfl⟩))
    obtain ⟨v, hv⟩ := lookup_of_mem_keys archs _ (hkeys _ he)
    exact ⟨v, hgood _ hfuel _ _ hv⟩
  obtain ⟨bs, hbs⟩ := mapM_ok_of_forall _ d.modules hmods
  unfold Spec.denoteTree
  rw [bind_ok_eq hbs]
  cases hl : archs.lookup d.entry with
  | none => rw [hl] at h; cases h
  | some v =>
    rw [hl] at h
    cases h
    have hev := hgood _ hfuel _ _ hl
    cases hfind : d.modules.find? (fun km => km.1.ident = d.entry) with
    | none =>
      exfalso
      have : Spec.evalBody d (d.modules.length + 1) d.entry = Spec.bodyOf d (Spec.evalBody d d.modules.length) d.entry := rfl
      rw [this] at hev
      unfold Spec.bodyOf Spec.lookupModule at hev
      rw [hfind] at hev
      cases hev
    | some km =>
      simp only []
      rw [bind_ok_eq hev]

end Ndl

namespace Ndl

/-! ### why the model rejects: local causes of three error kinds -/

theorem pickIn_none (q : Entry → Bool) (r0 : Entry) : ∀ (l : List Entry),
    pickIn q r0 l = none → ∀ e ∈ l, q e = false
  | [], _, e, he => by cases he
  | t :: ts, h, e, he => by
    unfold pickIn at h
    split at h
    · cases h
    · next hq =>
      cases hp : pickIn q r0 ts with
      | some xl => rw [hp] at h; cases h
      | none =>
        rcases List.mem_cons.1 he with rfl | he
        · simpa using hq
        · exact pickIn_none q r0 ts hp e he

theorem pickSwap_none (q : Entry → Bool) : ∀ (l : List Entry),
    pickSwap q l = none → ∀ e ∈ l, q e = false
  | [], _, e, he => by cases he
  | r0 :: tl, h, e, he => by
    simp only [pickSwap] at h
    split at h
    · cases h
    · next hq =>
      rcases List.mem_cons.1 he with rfl | he
      · simpa using hq
      · exact pickIn_none q r0 tl h e he

/-- the ordering loop fails only with `UnresolvableDependency(stuck)`, where `stuck` is non-empty,
    consists of given modules, and every stuck module requires a symbol that none of the modules
    ordered so far (nor `p`) provides -/
theorem orderLoop_error : ∀ (fuel : Nat) (done rest : List Entry) (p : List Str) (f : Fail),
    rest.length ≤ fuel → orderLoop fuel done rest p = .error f →
    ∃ (stuck : List Entry) (p' : List Str), f = .err .unresolvableDependency (stuck.map (·.ident.ident)) {} ∧
      stuck ≠ [] ∧ (∀ e ∈ stuck, e ∈ rest) ∧ (∀ s ∈ p, s ∈ p') ∧
      ∀ e ∈ stuck, ∃ s ∈ e.deps, s ∉ p'
  | fuel, done, [], p, f, _, h => by
    unfold orderLoop at h
    cases h
  | 0, done, r0 :: tl, p, f, hf, _ => by simp at hf
  | fuel + 1, done, r0 :: tl, p, f, hf, h => by
    unfold orderLoop at h
    cases hp : pickSwap (resolvable p) (r0 :: tl) with
    | none =>
      rw [hp] at h
      cases h
      refine ⟨r0 :: tl, p, rfl, by simp, fun e he => he, fun s hs => hs, ?_⟩
      intro e he
      have hq := pickSwap_none _ _ hp e he
      unfold resolvable at hq
      by_cases hex : ∃ s, s ∈ e.deps ∧ ¬ s ∈ p
      · obtain ⟨s, hs, hns⟩ := hex
        exact ⟨s, hs, hns⟩
      · exfalso
        have : (e.deps.all fun s => p.contains s) = true := by
          apply List.all_eq_true.2
          intro s hs
          by_cases hsp : s ∈ p
          · simpa using hsp
          · exact absurd ⟨s, hs, hsp⟩ hex
        rw [this] at hq
        cases hq
    | some xl =>
      cases xl with
      | mk x rest' =>
        rw [hp] at h
        obtain ⟨_, hlen, hmem⟩ := pickSwap_spec _ _ _ _ hp
        have hf' : rest'.length ≤ fuel := by
          simp only [List.length_cons] at hlen hf
          omega
        obtain ⟨stuck, p', e1, e2, e3, e4, e5⟩ := orderLoop_error fuel _ rest' _ f hf' h
        exact ⟨stuck, p', e1, e2, fun e he => hmem _ (List.mem_cons_of_mem _ (e3 e he)),
          fun s hs => e4 s (List.mem_cons_of_mem _ hs), e5⟩

theorem kardAccess_error (d a : FieldDef) (f : Fail) (h : kardAccess d a = .error f) :
    f = .err .connectionIndexOutOfBounds [a.display] {} ∧
    ((d.kard = .atom ∧ ∃ i, a.kard = .cluster i) ∨ ∃ n i, d.kard = .cluster n ∧ a.kard = .cluster i ∧ n ≤ i) := by
  unfold kardAccess at h
  split at h
  · cases h
  · next n i hd ha =>
    split at h
    · cases h
    · next hlt =>
      cases h
      exact ⟨rfl, Or.inr ⟨n, i, hd, ha, Nat.le_of_not_lt hlt⟩⟩
  · next i hd ha =>
    cases h
    exact ⟨rfl, Or.inl ⟨hd, i, ha⟩⟩
  · cases h

theorem transformGates_error (ident : Str) (defs : List GateDef) (f : Fail)
    (h : transformGates ident defs = .error f) :
    ∃ g ∈ defs, g.kard = .cluster 0 ∧ f = .err .invalidGate [ident, g.ident] { gate := some g.display } := by
  unfold transformGates at h
  split at h
  · next v hv =>
    cases h
    exact ⟨v, List.mem_of_find?_eq_some hv, by simpa using List.find?_some hv, rfl⟩
  · cases h

end Ndl

/-
Lemmas about the segment matcher `CfgSpec.Matches`.
-/
import Desverif.Spec.Cfg
namespace CfgSpec
open Cfg (Seg Key ANY)

theorem matchName_iff {p : List Seg} {k n : Key} : matchName p k = some n ↔ Matches p k n := by
  induction p generalizing k with
  | nil =>
    simp only [matchName, Matches]
    by_cases h : k ≠ [] ∧ ANY ∉ k
    · rw [if_pos h]
      constructor
      · intro h1; have := Option.some.inj h1; subst this; exact ⟨rfl, h⟩
      · rintro ⟨h1, _⟩; rw [h1]
    · rw [if_neg h]
      constructor
      · intro h1; cases h1
      · rintro ⟨h1, h2⟩; subst h1; exact absurd h2 h
  | cons s rest ih =>
    cases k with
    | nil => simp [matchName, Matches]
    | cons h k =>
      simp only [matchName, Matches]
      by_cases hh : h = s ∨ h = ANY
      · rw [if_pos hh, ih]; simp [hh]
      · rw [if_neg hh]; simp [hh]

theorem Matches.name_ok {p : List Seg} {k n : Key} (h : Matches p k n) : n ≠ [] ∧ ANY ∉ n := by
  induction p generalizing k with
  | nil => exact h.2
  | cons s rest ih =>
    cases k with
    | nil => exact h.elim
    | cons a k => exact ih h.2

/-- the `∃ q` form of the specification: `k = q ++ name`, `|q| = |p|`, every `qᵢ` is `pᵢ` or the
    wildcard, `name` non-empty and wildcard-free -/
theorem matches_iff_exists_prefix {p : List Seg} {k n : Key} :
    Matches p k n ↔ ∃ q, k = q ++ n ∧ q.length = p.length ∧
      (∀ i, i < p.length → q[i]? = p[i]? ∨ q[i]? = some ANY) ∧ n ≠ [] ∧ ANY ∉ n := by
  induction p generalizing k with
  | nil =>
    simp only [Matches]
    constructor
    · rintro ⟨h1, h2⟩; exact ⟨[], by simp [h1], rfl, by simp, h2⟩
    · rintro ⟨q, h1, h2, _, h3⟩
      have : q = [] := List.length_eq_zero_iff.mp h2
      subst this
      exact ⟨by simpa using h1, h3⟩
  | cons s rest ih =>
    cases k with
    | nil =>
      simp only [Matches, false_iff]
      rintro ⟨q, h1, h2, _, _⟩
      cases q with
      | nil => simp at h2
      | cons a q => simp at h1
    | cons a k =>
      simp only [Matches]
      constructor
      · rintro ⟨h1, h2⟩
        obtain ⟨q, h3, h4, h5, h6⟩ := ih.mp h2
        refine ⟨a :: q, by simp [h3], by simp [h4], ?_, h6⟩
        intro i hi
        cases i with
        | zero => simpa using h1
        | succ i => simpa using h5 i (by simpa using hi)
      · rintro ⟨q, h1, h2, h3, h4⟩
        cases q with
        | nil => simp at h2
        | cons b q =>
          simp only [List.cons_append, List.cons.injEq] at h1
          obtain ⟨h1a, h1b⟩ := h1
          subst h1a
          refine ⟨by simpa using h3 0 (by simp), ih.mpr ⟨q, h1b, by simpa using h2, ?_, h4⟩⟩
          intro i hi
          simpa using h3 (i + 1) (by simpa using hi)

theorem matches_self_append {p : List Seg} {n : Key} (h1 : n ≠ []) (h2 : ANY ∉ n) :
    Matches p (p ++ n) n := by
  induction p with
  | nil => exact ⟨rfl, h1, h2⟩
  | cons s rest ih => exact ⟨Or.inl rfl, ih⟩

theorem Matches.eq_of_noany {p : List Seg} {k n : Key} (h : Matches p k n) (ha : ANY ∉ k) :
    k = p ++ n := by
  induction p generalizing k with
  | nil => simpa using h.1
  | cons s rest ih =>
    cases k with
    | nil => exact h.elim
    | cons a k =>
      obtain ⟨h1, h2⟩ := h
      simp only [List.mem_cons, not_or] at ha
      rcases h1 with h1 | h1
      · rw [h1, ih h2 ha.2]; rfl
      · exact absurd h1.symm ha.1

theorem matches_take {p : List Seg} {j : Nat} {k n : Key} (hj : j ≤ p.length)
    (h : Matches (p.drop j) k n) : Matches p (p.take j ++ k) n := by
  induction j generalizing p with
  | zero => simpa using h
  | succ j ih =>
    cases p with
    | nil => simp at hj
    | cons s rest =>
      simp only [List.take_succ_cons, List.cons_append]
      exact ⟨Or.inl rfl, ih (by simpa using hj) (by simpa using h)⟩

/-- a key whose wildcard-free front part `k1` is followed by something containing the wildcard can
    only match if `k1` is an initial part of the module path -/
theorem Matches.split {p : List Seg} {k1 r n : Key} (h : Matches p (k1 ++ r) n) (h1 : ANY ∉ k1)
    (h2 : ANY ∈ r) :
    k1 = p.take k1.length ∧ k1.length ≤ p.length ∧ Matches (p.drop k1.length) r n := by
  induction p generalizing k1 with
  | nil =>
    have := h.1
    have hn := h.2.2
    rw [← this] at hn
    exact absurd (List.mem_append_right _ h2) hn
  | cons s rest ih =>
    cases k1 with
    | nil => exact ⟨by simp, by simp, by simpa using h⟩
    | cons a k1 =>
      simp only [List.cons_append] at h
      obtain ⟨ha, ht⟩ := h
      simp only [List.mem_cons, not_or] at h1
      obtain ⟨e1, e2, e3⟩ := ih ht h1.2
      rcases ha with ha | ha
      · refine ⟨?_, by simpa using e2, by simpa using e3⟩
        simp only [List.length_cons, List.take_succ_cons, List.cons.injEq]
        exact ⟨ha, e1⟩
      · exact absurd ha.symm h1.1

theorem matches_any_cons {s : Seg} {rest : List Seg} {k n : Key} :
    Matches (s :: rest) (ANY :: k) n ↔ Matches rest k n := by
  simp [Matches]

end CfgSpec

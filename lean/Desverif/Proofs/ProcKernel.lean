/-
Lemmas for C14 about the kernel loop of Model/Proc.lean: the global call log is a concatenation of
complete brackets (invariant of every kernel operation, through shutdowns and restarts), and what
an event pushed is scheduled in the order it was pushed.
-/
import Desverif.Proofs.ProcBracket
namespace Proc

/-- the `incoming` behaviours of a module's stack -/
def ModRt.acts (m : ModRt) : List (Nat → Act) := m.elems.map (·.spec.act)

/-- the log drawn by a sequence of brackets `(module, time, kind)` on stacks `A` -/
def bracketLog (A : List (List (Nat → Act))) (brs : List (Nat × Nat × Kind)) : List Entry :=
  brs.flatMap fun b => shape b.1 b.2.1 (A[b.1]?.getD []) b.2.2

theorem bracketLog_append (A : List (List (Nat → Act))) (a b : List (Nat × Nat × Kind)) :
    bracketLog A (a ++ b) = bracketLog A a ++ bracketLog A b := by
  simp [bracketLog, List.flatMap_append]

structure SimInv (A : List (List (Nat → Act))) (s : Sim) : Prop where
  acts : s.mods.map ModRt.acts = A
  log : ∃ brs, s.log = bracketLog A brs ∧ ∀ b ∈ brs, b.1 < A.length

theorem SimInv.of_eq {A : List (List (Nat → Act))} {s s' : Sim} (h : SimInv A s)
    (hm : s'.mods = s.mods) (hl : s'.log = s.log) : SimInv A s' :=
  ⟨by rw [hm]; exact h.acts, by rw [hl]; exact h.log⟩

theorem schedule_mods (s : Sim) (ev : KEvent) (t : Nat) : (s.schedule ev t).mods = s.mods := by
  unfold Sim.schedule; split <;> rfl

theorem schedule_log (s : Sim) (ev : KEvent) (t : Nat) : (s.schedule ev t).log = s.log := by
  unfold Sim.schedule; split <;> rfl

theorem schedule_inv {A : List (List (Nat → Act))} {s : Sim} (h : SimInv A s) (ev : KEvent) (t : Nat) :
    SimInv A (s.schedule ev t) := h.of_eq (schedule_mods s ev t) (schedule_log s ev t)

theorem foldl_inv {α σ : Type} (P : σ → Prop) (f : σ → α → σ) (hf : ∀ s a, P s → P (f s a))
    (l : List α) : ∀ s, P s → P (l.foldl f s) := by
  induction l with
  | nil => intro s h; exact h
  | cons a l ih => intro s h; exact ih _ (hf s a h)

theorem set_self {α : Type} (l : List α) (i : Nat) (a : α) (h : l[i]? = some a) : l.set i a = l := by
  induction l generalizing i with
  | nil => rfl
  | cons x l ih =>
    cases i with
    | zero => simp at h; simp [h]
    | succ i => simp at h; simp [ih i h]

/-- replacing a module by one with the same stack behaviours keeps the table of behaviours -/
theorem set_acts_inv {A : List (List (Nat → Act))} {l : List ModRt} (h : l.map ModRt.acts = A)
    {mi : Nat} {a : List (Nat → Act)} (hA : A[mi]? = some a) (m' : ModRt) (hm : m'.acts = a) :
    (l.set mi m').map ModRt.acts = A := by
  rw [List.map_set, hm, h]
  exact set_self A mi a hA

theorem lt_of_getElem?_some {α : Type} {l : List α} {i : Nat} {a : α} (h : l[i]? = some a) :
    i < l.length := by
  rcases Nat.lt_or_ge i l.length with h1 | h1
  · exact h1
  · rw [List.getElem?_eq_none h1] at h; simp at h

/-! ### the log and the static part of the event functions -/

theorem bracket_log (c : Ctx) (m : ModRt) (kind : Kind) (woken : Sleepers) :
    (bracket c m kind woken).2.filterMap Item.entry? = shape c.mod c.now m.acts kind := by
  rw [bracket_items, traceShape_entries]; rfl

theorem bracket_acts' (c : Ctx) (m : ModRt) (kind : Kind) (woken : Sleepers) :
    (bracket c m kind woken).1.acts = m.acts := bracket_acts c m kind woken

theorem activate_acts (c : Ctx) (m : ModRt) : (activate c m).1.acts = m.acts := rfl

theorem activate_active (c : Ctx) (m : ModRt) : (activate c m).1.active = m.active := rfl

theorem deactivate_elems (m : ModRt) : (deactivate m).1.elems = m.elems ∧
    (deactivate m).1.active = m.active := by
  unfold deactivate
  split
  · split
    · split <;> exact ⟨rfl, rfl⟩
    · exact ⟨rfl, rfl⟩
  · exact ⟨rfl, rfl⟩

theorem deactivate_acts (m : ModRt) : (deactivate m).1.acts = m.acts := by
  simp only [ModRt.acts, (deactivate_elems m).1]

theorem runEvent_log (c : Ctx) (m : ModRt) (kind : Kind) :
    (runEvent c m kind).log = shape c.mod c.now m.acts kind := by
  simp only [EventResult.log, runEvent, bracket_log]; rfl

theorem runEvent_acts' (c : Ctx) (m : ModRt) (kind : Kind) : (runEvent c m kind).mod.acts = m.acts := by
  simp only [runEvent, deactivate_acts, bracket_acts', activate_acts]

theorem idleEvent_acts (c : Ctx) (m : ModRt) : (idleEvent c m).mod.acts = m.acts := by
  simp only [idleEvent, deactivate_acts, activate_acts]

theorem idleEvent_active (c : Ctx) (m : ModRt) : (idleEvent c m).mod.active = m.active := by
  simp only [idleEvent, (deactivate_elems _).2, activate_active]

theorem restartStages_spec (c : Ctx) (ks : List Nat) : ∀ (m : ModRt) (woken : Sleepers),
    (restartStages c ks m woken).2.filterMap Item.entry? =
        ks.flatMap (fun k => shape c.mod c.now m.acts (.simStart k)) ∧
    (restartStages c ks m woken).1.acts = m.acts := by
  induction ks with
  | nil => intro m w; constructor <;> rfl
  | cons k ks ih =>
    intro m w
    obtain ⟨h1, h2⟩ := ih (bracket c m (.simStart k) w).1 []
    simp only [restartStages, List.filterMap_append, bracket_log, h1, h2, bracket_acts',
      List.flatMap_cons]
    constructor <;> (first | rfl | trivial)

theorem restartEvent_log (c : Ctx) (m : ModRt) :
    (restartEvent c m).log =
      (List.range m.handler.stages).flatMap (fun k => shape c.mod c.now m.acts (.simStart k)) := by
  simp only [EventResult.log, restartEvent]
  exact (restartStages_spec c _ _ _).1

theorem restartEvent_acts (c : Ctx) (m : ModRt) : (restartEvent c m).mod.acts = m.acts := by
  simp only [restartEvent, deactivate_acts]
  exact (restartStages_spec c _ _ _).2

/-! ### the invariant through every kernel operation -/

theorem applyShutdown_inv {A : List (List (Nat → Act))} {s : Sim} (h : SimInv A s) {mi : Nat}
    {a : List (Nat → Act)} (hA : A[mi]? = some a) (m : ModRt) (hm : m.acts = a)
    (req : Option (Option Nat)) : SimInv A (s.applyShutdown mi m req) := by
  unfold Sim.applyShutdown
  cases req with
  | none => exact h
  | some restart =>
    have h1 : SimInv A { s with mods := s.mods.set mi { m with
        active := false, sleepers := [], hung := []
        cancelled := m.cancelled ++ m.sleepers.map (·.2.id) ++ m.hung } } :=
      ⟨set_acts_inv h.acts hA _ hm, h.log⟩
    cases restart with
    | none => exact h1
    | some t => exact schedule_inv h1 _ _

theorem finish_inv {A : List (List (Nat → Act))} {s : Sim} (h : SimInv A s) {mi : Nat}
    {a : List (Nat → Act)} (hA : A[mi]? = some a) (r : EventResult) (hr : r.mod.acts = a)
    (brs' : List (Nat × Nat × Kind)) (hlog : r.log = bracketLog A brs')
    (hlt : ∀ b ∈ brs', b.1 < A.length) (flush : Bool) : SimInv A (s.finish mi r flush) := by
  unfold Sim.finish
  have h1 : SimInv A { s with
      mods := s.mods.set mi r.mod
      downs := s.downs ++ (downMarks r.items s.log.length).map (fun d => (d.1, mi, d.2))
      log := s.log ++ r.log
      fault := match s.fault with
        | some f => some f
        | none => r.fault } := by
    constructor
    · exact set_acts_inv h.acts hA _ hr
    · obtain ⟨brs, hb, hl⟩ := h.log
      refine ⟨brs ++ brs', ?_, ?_⟩
      · show s.log ++ r.log = _
        rw [bracketLog_append, hb, hlog]
      · intro b hb'
        simp only [List.mem_append] at hb'
        rcases hb' with hb' | hb'
        · exact hl b hb'
        · exact hlt b hb'
  simp only
  have h2 : ∀ s1 : Sim, SimInv A s1 → SimInv A (match r.wake with
      | some t => s1.schedule (.wakeup mi) t
      | none => s1) := by
    intro s1 hs1
    cases r.wake with
    | none => exact hs1
    | some t => exact schedule_inv hs1 _ _
  cases flush with
  | false => exact h2 _ h1
  | true =>
    simp only [if_true]
    apply applyShutdown_inv _ hA _ hr
    exact foldl_inv (SimInv A) _ (fun s p hs => schedule_inv hs p.1 p.2) _ _ (h2 _ h1)

theorem moduleEvent_inv {A : List (List (Nat → Act))} {s : Sim} (h : SimInv A s) (mi : Nat)
    (kind : Kind) (flush : Bool) : SimInv A (s.moduleEvent mi kind flush) := by
  unfold Sim.moduleEvent
  cases hm : s.mods[mi]? with
  | none => exact h.of_eq rfl rfl
  | some m =>
    simp only
    have hA : A[mi]? = some m.acts := by rw [← h.acts, List.getElem?_map, hm]; rfl
    have hlt : mi < A.length := lt_of_getElem?_some hA
    split
    · exact finish_inv h hA _ (idleEvent_acts _ m) [] rfl (by simp) flush
    · refine finish_inv h hA _ (runEvent_acts' _ m kind) [(mi, s.fes.cur, kind)] ?_ ?_ flush
      · rw [runEvent_log]; simp [bracketLog, hA]
      · intro b hb; simp only [List.mem_singleton] at hb; subst hb; exact hlt

theorem restart_inv {A : List (List (Nat → Act))} {s : Sim} (h : SimInv A s) (mi : Nat) :
    SimInv A (s.restart mi) := by
  unfold Sim.restart
  cases hm : s.mods[mi]? with
  | none => exact h.of_eq rfl rfl
  | some m =>
    simp only
    have hA : A[mi]? = some m.acts := by rw [← h.acts, List.getElem?_map, hm]; rfl
    have hlt : mi < A.length := lt_of_getElem?_some hA
    refine finish_inv h hA _ (restartEvent_acts _ m)
      ((List.range m.handler.stages).map fun k => (mi, s.fes.cur, Kind.simStart k)) ?_ ?_ true
    · rw [restartEvent_log]; simp [bracketLog, List.flatMap_map, hA]
    · intro b hb
      simp only [List.mem_map] at hb
      obtain ⟨_, _, rfl⟩ := hb
      exact hlt

theorem exitConn_inv {A : List (List (Nat → Act))} {s : Sim} (h : SimInv A s) (src dst id : Nat) :
    SimInv A (s.exitConn src dst id) := by
  unfold Sim.exitConn
  split
  · exact h.of_eq rfl rfl
  · split
    · exact schedule_inv h _ _
    · exact h

theorem step_inv {A : List (List (Nat → Act))} {s s' : Sim} (h : SimInv A s) (hs : s.step = some s') :
    SimInv A s' := by
  unfold Sim.step at hs
  split at hs
  · simp at hs
  · rename_i e f _
    simp only at hs
    have h0 : SimInv A { s with fes := f } := h.of_eq rfl rfl
    split at hs
    · simp only [Option.some.injEq] at hs; subst hs; exact h0.of_eq rfl rfl
    · simp only [Option.some.injEq] at hs; subst hs; exact moduleEvent_inv h0 _ _ _
    · simp only [Option.some.injEq] at hs; subst hs; exact moduleEvent_inv h0 _ _ _
    · simp only [Option.some.injEq] at hs; subst hs; exact restart_inv h0 _
    · simp only [Option.some.injEq] at hs; subst hs; exact exitConn_inv h0 _ _ _

theorem loop_inv {A : List (List (Nat → Act))} (n : Nat) : ∀ {s : Sim}, SimInv A s → SimInv A (Sim.loop n s) := by
  induction n with
  | zero =>
    intro s h
    unfold Sim.loop
    split
    · exact h
    · exact h.of_eq rfl rfl
  | succ n ih =>
    intro s h
    unfold Sim.loop
    split
    · exact h
    · split
      · exact h
      · rename_i s' hs
        exact ih (step_inv h hs)

theorem simStart_inv {A : List (List (Nat → Act))} {s : Sim} (h : SimInv A s) : SimInv A s.simStart := by
  unfold Sim.simStart
  apply foldl_inv (SimInv A) _ _ _ _ h
  intro s stage hs
  apply foldl_inv (SimInv A) _ _ _ _ hs
  intro s' mi hs'
  split
  · split
    · exact moduleEvent_inv hs' _ _ _
    · exact hs'
  · exact hs'

theorem teardown_log (s : Sim) (mi : Nat) : (s.teardown mi).log = (s.moduleEvent mi .simEnd false).log := by
  unfold Sim.teardown
  simp only
  split <;> rfl

theorem teardown_inv {A : List (List (Nat → Act))} {s : Sim} (h : SimInv A s) (mi : Nat) :
    SimInv A (s.teardown mi) := by
  have h1 := moduleEvent_inv h mi .simEnd false
  unfold Sim.teardown
  simp only
  cases hm : (s.moduleEvent mi .simEnd false).mods[mi]? with
  | none => exact h1
  | some m =>
    have hA : A[mi]? = some m.acts := by rw [← h1.acts, List.getElem?_map, hm]; rfl
    exact ⟨set_acts_inv h1.acts hA _ rfl, h1.log⟩

theorem simEnd_inv {A : List (List (Nat → Act))} {s : Sim} (h : SimInv A s) : SimInv A s.simEnd := by
  unfold Sim.simEnd
  exact foldl_inv (SimInv A) _ (fun s mi hs => teardown_inv hs mi) _ _ h

theorem init_inv (cfg : Config) : SimInv (cfg.mods.map ModRt.acts) (Sim.init cfg) := by
  unfold Sim.init
  apply foldl_inv (SimInv _) _ (fun s i hs => schedule_inv hs _ _)
  exact ⟨rfl, [], rfl, by simp⟩

theorem run_inv (fuel : Nat) (cfg : Config) : SimInv (cfg.mods.map ModRt.acts) (run fuel cfg) := by
  unfold run
  have h := loop_inv fuel (simStart_inv (init_inv cfg))
  simp only
  split
  · exact h
  · exact simEnd_inv h

/-! ### a module that is shut down -/

/-- module `mi` exists and is shut down -/
def Sim.inactive (s : Sim) (mi : Nat) : Prop := ∃ m, s.mods[mi]? = some m ∧ m.active = false

/-- the calls logged for module `mi` -/
def Sim.modLog (s : Sim) (mi : Nat) : List Entry := s.log.filter (fun e => e.mod == mi)

theorem foldl_schedule_mods (l : List (KEvent × Nat)) : ∀ s : Sim,
    (l.foldl (fun s p => s.schedule p.1 p.2) s).mods = s.mods ∧
    (l.foldl (fun s p => s.schedule p.1 p.2) s).log = s.log := by
  induction l with
  | nil => intro s; exact ⟨rfl, rfl⟩
  | cons p l ih =>
    intro s
    simp only [List.foldl_cons]
    obtain ⟨h1, h2⟩ := ih (s.schedule p.1 p.2)
    exact ⟨by rw [h1, schedule_mods], by rw [h2, schedule_log]⟩

theorem applyShutdown_log (s : Sim) (mi : Nat) (m : ModRt) (req : Option (Option Nat)) :
    (s.applyShutdown mi m req).log = s.log := by
  unfold Sim.applyShutdown
  cases req with
  | none => rfl
  | some r => cases r with
    | none => rfl
    | some t => simp only [schedule_log]

theorem applyShutdown_other (s : Sim) (mj : Nat) (m : ModRt) (req : Option (Option Nat)) (mi : Nat)
    (hne : mj ≠ mi) : (s.applyShutdown mj m req).mods[mi]? = s.mods[mi]? := by
  unfold Sim.applyShutdown
  cases req with
  | none => rfl
  | some r => cases r with
    | none => simp [List.getElem?_set_ne hne]
    | some t => simp [schedule_mods, List.getElem?_set_ne hne]

/-- the log and the modules after `finish`, before the shutdown part -/
theorem finish_log (s : Sim) (mj : Nat) (r : EventResult) (flush : Bool) :
    (s.finish mj r flush).log = s.log ++ r.log := by
  unfold Sim.finish
  simp only
  cases flush with
  | false => cases r.wake <;> simp [schedule_log]
  | true =>
    simp only [if_true, applyShutdown_log, (foldl_schedule_mods _ _).2]
    cases r.wake <;> simp [schedule_log]

theorem finish_other (s : Sim) (mj : Nat) (r : EventResult) (flush : Bool) (mi : Nat) (hne : mj ≠ mi) :
    (s.finish mj r flush).mods[mi]? = s.mods[mi]? := by
  unfold Sim.finish
  simp only
  cases flush with
  | false => cases r.wake <;> simp [schedule_mods, List.getElem?_set_ne hne]
  | true =>
    simp only [if_true, applyShutdown_other _ _ _ _ _ hne, (foldl_schedule_mods _ _).1]
    cases r.wake <;> simp [schedule_mods, List.getElem?_set_ne hne]

theorem filter_mod_nil (l : List Entry) (mj mi : Nat) (hne : mj ≠ mi) (h : ∀ e ∈ l, e.mod = mj) :
    l.filter (fun e => e.mod == mi) = [] := by
  rw [List.filter_eq_nil_iff]
  intro e he
  rw [h e he]
  simp [hne]

theorem shape_mod (mi t : Nat) (acts : List (Nat → Act)) (kind : Kind) :
    ∀ e ∈ shape mi t acts kind, e.mod = mi ∧ e.time = t := by
  intro e he
  rcases mem_shape he with ⟨i, _, h | ⟨_, _, h⟩ | h⟩ | h
  · subst h; exact ⟨rfl, rfl⟩
  · subst h; exact ⟨rfl, rfl⟩
  · subst h; exact ⟨rfl, rfl⟩
  · exact (handlerEntries_who h).2

/-- an event of another module leaves module `mi` and its part of the log alone -/
theorem moduleEvent_other (s : Sim) (mj : Nat) (kind : Kind) (flush : Bool) (mi : Nat) (hne : mj ≠ mi) :
    (s.moduleEvent mj kind flush).mods[mi]? = s.mods[mi]? ∧
    (s.moduleEvent mj kind flush).modLog mi = s.modLog mi := by
  unfold Sim.moduleEvent
  cases hm : s.mods[mj]? with
  | none => exact ⟨rfl, rfl⟩
  | some m =>
    simp only
    refine ⟨finish_other _ _ _ _ _ hne, ?_⟩
    simp only [Sim.modLog, finish_log, List.filter_append]
    split
    · have : (idleEvent ⟨mj, s.fes.cur⟩ m).log = [] := rfl
      rw [this]; simp
    · rw [runEvent_log, filter_mod_nil _ mj mi hne (fun e he => (shape_mod _ _ _ _ e he).1)]
      simp

theorem restart_other (s : Sim) (mj : Nat) (mi : Nat) (hne : mj ≠ mi) :
    (s.restart mj).mods[mi]? = s.mods[mi]? ∧ (s.restart mj).modLog mi = s.modLog mi := by
  unfold Sim.restart
  cases hm : s.mods[mj]? with
  | none => exact ⟨rfl, rfl⟩
  | some m =>
    simp only
    refine ⟨finish_other _ _ _ _ _ hne, ?_⟩
    simp only [Sim.modLog, finish_log, List.filter_append, restartEvent_log]
    have hnil := filter_mod_nil
      ((List.range m.handler.stages).flatMap (fun k => shape mj s.fes.cur m.acts (.simStart k)))
      mj mi hne (by
        intro e he
        rw [List.mem_flatMap] at he
        obtain ⟨k, _, hk⟩ := he
        exact (shape_mod _ _ _ _ e hk).1)
    rw [hnil, List.append_nil]

/-- a message or a wake-up for a module that is shut down: nothing is logged, it stays shut down -/
theorem moduleEvent_inactive (s : Sim) (mi : Nat) (kind : Kind) (flush : Bool)
    (hin : s.inactive mi) (hk : kind.needsActive = true) :
    (s.moduleEvent mi kind flush).inactive mi ∧ (s.moduleEvent mi kind flush).log = s.log := by
  obtain ⟨m, hm, hact⟩ := hin
  have hlt : mi < s.mods.length := lt_of_getElem?_some hm
  unfold Sim.moduleEvent
  rw [hm]
  simp only [hk, hact, Bool.not_false, Bool.and_self, if_true]
  have hitems : (idleEvent ⟨mi, s.fes.cur⟩ m).items = [] := rfl
  constructor
  · refine ⟨(idleEvent ⟨mi, s.fes.cur⟩ m).mod, ?_, by rw [idleEvent_active]; exact hact⟩
    unfold Sim.finish
    simp only [EventResult.pushes, EventResult.shutdown, hitems, List.filterMap_nil, List.foldl_nil,
      List.getLast?_nil, Sim.applyShutdown]
    cases flush <;> cases (idleEvent ⟨mi, s.fes.cur⟩ m).wake <;>
      simp [schedule_mods, List.getElem?_set_self hlt]
  · rw [finish_log]
    simp [EventResult.log, hitems]

/-- the event that `step` dispatches next -/
def Sim.peek? (s : Sim) : Option KEvent :=
  match FES.fetch s.fes with
  | .error _ => none
  | .ok (e, _) => s.evs[e.val]?

/-- **until its restart event is dispatched, a module that is shut down stays shut down and no
    hook of any of its elements, nor its handler, is called** — whatever is dispatched -/
theorem step_inactive (s s' : Sim) (mi : Nat) (hs : s.step = some s') (hin : s.inactive mi)
    (hne : s.peek? ≠ some (.restart mi)) : s'.inactive mi ∧ s'.modLog mi = s.modLog mi := by
  unfold Sim.step at hs
  unfold Sim.peek? at hne
  split at hs
  · simp at hs
  · rename_i e f hf
    rw [hf] at hne
    simp only at hs hne
    have hin0 : Sim.inactive { s with fes := f } mi := hin
    split at hs
    · simp only [Option.some.injEq] at hs; subst hs; exact ⟨hin, rfl⟩
    · rename_i mj id hev
      simp only [Option.some.injEq] at hs; subst hs
      by_cases hj : mj = mi
      · subst hj
        obtain ⟨h1, h2⟩ := moduleEvent_inactive _ mj (.message id) true hin0 rfl
        exact ⟨h1, by simp only [Sim.modLog, h2]⟩
      · obtain ⟨h1, h2⟩ := moduleEvent_other { s with fes := f } mj (.message id) true mi hj
        exact ⟨by obtain ⟨m, hm, ha⟩ := hin0; exact ⟨m, by rw [h1]; exact hm, ha⟩, h2⟩
    · rename_i mj hev
      simp only [Option.some.injEq] at hs; subst hs
      by_cases hj : mj = mi
      · subst hj
        obtain ⟨h1, h2⟩ := moduleEvent_inactive _ mj .wakeup true hin0 rfl
        exact ⟨h1, by simp only [Sim.modLog, h2]⟩
      · obtain ⟨h1, h2⟩ := moduleEvent_other { s with fes := f } mj .wakeup true mi hj
        exact ⟨by obtain ⟨m, hm, ha⟩ := hin0; exact ⟨m, by rw [h1]; exact hm, ha⟩, h2⟩
    · rename_i mj hev
      simp only [Option.some.injEq] at hs; subst hs
      have hj : mj ≠ mi := by
        intro h; subst h; exact hne hev
      obtain ⟨h1, h2⟩ := restart_other { s with fes := f } mj mi hj
      exact ⟨by obtain ⟨m, hm, ha⟩ := hin0; exact ⟨m, by rw [h1]; exact hm, ha⟩, h2⟩
    · simp only [Option.some.injEq] at hs; subst hs
      unfold Sim.exitConn
      split
      · exact ⟨hin, rfl⟩
      · split
        · exact ⟨by obtain ⟨m, hm, ha⟩ := hin0; exact ⟨m, by rw [schedule_mods]; exact hm, ha⟩,
            by simp only [Sim.modLog, schedule_log]⟩
        · exact ⟨hin, rfl⟩

/-! ### what an event pushed is scheduled in the order it was pushed -/

theorem schedule_fault_sticky (s : Sim) (ev : KEvent) (t : Nat) (h : (s.schedule ev t).fault = none) :
    s.fault = none ∧ (s.schedule ev t).evs = s.evs.push ev := by
  unfold Sim.schedule at h ⊢
  cases hadd : FES.add s.fes t s.evs.size with
  | ok r => rw [hadd] at h; exact ⟨h, rfl⟩
  | error e => rw [hadd] at h; simp at h

theorem foldl_schedule_evs (l : List (KEvent × Nat)) : ∀ (s : Sim),
    (l.foldl (fun s p => s.schedule p.1 p.2) s).fault = none →
      s.fault = none ∧
      (l.foldl (fun s p => s.schedule p.1 p.2) s).evs.toList = s.evs.toList ++ l.map (·.1) := by
  induction l with
  | nil => intro s h; exact ⟨h, by simp⟩
  | cons p l ih =>
    intro s h
    simp only [List.foldl_cons] at h ⊢
    obtain ⟨h1, h2⟩ := ih _ h
    obtain ⟨h3, h4⟩ := schedule_fault_sticky s p.1 p.2 h1
    refine ⟨h3, ?_⟩
    rw [h2, h4]
    simp

/-- the restart event a shutdown request leads to -/
def restartOf (mi : Nat) : Option (Option Nat) → List KEvent
  | some (some _) => [.restart mi]
  | _ => []

theorem applyShutdown_evs (s : Sim) (mi : Nat) (m : ModRt) (req : Option (Option Nat))
    (h : (s.applyShutdown mi m req).fault = none) :
    s.fault = none ∧ (s.applyShutdown mi m req).evs.toList = s.evs.toList ++ restartOf mi req := by
  unfold Sim.applyShutdown at h ⊢
  cases req with
  | none => exact ⟨h, by simp [restartOf]⟩
  | some r =>
    cases r with
    | none => exact ⟨h, by simp [restartOf]⟩
    | some t =>
      simp only at h ⊢
      obtain ⟨h1, h2⟩ := schedule_fault_sticky _ _ _ h
      exact ⟨h1, by rw [h2]; simp [restartOf]⟩

/-- `deactivate` + `buf_process`: wake-up, then the pushes in push order, then the restart event -/
theorem finish_evs (s : Sim) (mi : Nat) (r : EventResult) (h : (s.finish mi r true).fault = none) :
    (s.finish mi r true).evs.toList =
      s.evs.toList ++ (r.wake.map fun _ => KEvent.wakeup mi).toList ++ r.pushes.map (·.1)
        ++ restartOf mi r.shutdown := by
  unfold Sim.finish at h ⊢
  simp only [if_true] at h ⊢
  obtain ⟨h1, h2⟩ := applyShutdown_evs _ _ _ _ h
  obtain ⟨h3, h4⟩ := foldl_schedule_evs _ _ h1
  rw [h2, h4]
  congr 2
  cases hw : r.wake with
  | none => simp
  | some t =>
    rw [hw] at h3
    simp only at h3
    obtain ⟨_, h5⟩ := schedule_fault_sticky _ _ _ h3
    simp [h5]

/-! ### the pushes of one bracket, by stack index -/

/-- the buffered kernel event of a send (`Emit.toItem` without the wrapper) -/
def Emit.event (c : Ctx) (e : Emit) : KEvent × Nat :=
  if e.send && e.dst != c.mod then
    if e.delay = 0 then (.deliver e.dst e.id, c.now) else (.exitConn c.mod e.dst e.id, c.now + e.delay)
  else (.deliver c.mod e.id, c.now + e.delay)

def Action.event (c : Ctx) : Action → Option (KEvent × Nat)
  | .send e => some (e.event c)
  | .shutdown _ => none

theorem push_call (e : Entry) : (Item.call e).push? = none := rfl

theorem toItem_push (c : Ctx) (e : Emit) : (e.toItem c).push? = some (e.event c) := by
  unfold Emit.toItem Emit.event
  split
  · split <;> rfl
  · rfl

theorem action_push (c : Ctx) (a : Action) : (a.toItem c).push? = a.event c := by
  cases a with
  | send e => exact toItem_push c e
  | shutdown r => rfl

theorem emits_pushes (c : Ctx) (l : List Action) :
    (l.map (Action.toItem c)).filterMap Item.push? = l.filterMap (Action.event c) := by
  induction l with
  | nil => rfl
  | cons e l ih =>
    simp only [List.map_cons, List.filterMap_cons, action_push, ih]

/-- direct sends of a handler callback -/
def hNowEvents (c : Ctx) : List HEmit → List (KEvent × Nat)
  | [] => []
  | .now e :: r => e.event c :: hNowEvents c r
  | .task .. :: r => hNowEvents c r
  | .shutdown _ :: r => hNowEvents c r

theorem hNow_pushes (c : Ctx) (l : List HEmit) : (hNow c l).filterMap Item.push? = hNowEvents c l := by
  induction l with
  | nil => rfl
  | cons h l ih =>
    cases h with
    | now e => simp [hNow, hNowEvents, toItem_push, ih]
    | task x e => simpa [hNow, hNowEvents] using ih
    | shutdown r =>
      have h : (Item.down (r.map (c.now + ·))).push? = none := rfl
      simp only [hNow, hNowEvents, List.filterMap_cons, h, ih]

/-- what the handler callback of the event pushes -/
def handlerPushes (c : Ctx) (m : ModRt) (kind : Kind) (out : Option Nat) : List (KEvent × Nat) :=
  match handlerCall c m kind out with
  | some (_, hs) => hNowEvents c hs
  | none => []

theorem handlerItems_pushes (c : Ctx) (m : ModRt) (kind : Kind) (out : Option Nat) :
    (handlerItems c m kind out).filterMap Item.push? = handlerPushes c m kind out := by
  unfold handlerItems handlerPushes
  cases handlerCall c m kind out with
  | none => rfl
  | some p => simp only [List.filterMap_cons, push_call, hNow_pushes]

/-- what element `i` pushes on the way up: the sends of `event_start`, then those of `incoming`
    if the message got there -/
def upPushesAt (c : Ctx) (es : List ElemRt) (m0 : Option Nat) (i : Nat) : List (KEvent × Nat) :=
  match es[i]? with
  | none => []
  | some e => (e.spec.onStart e.starts).filterMap (Action.event c) ++
      (match msgAt (es.map (·.spec.act)) m0 i with
       | some id => (e.spec.onInc id e.incs).filterMap (Action.event c)
       | none => [])

def endPushesAt (c : Ctx) (es : List ElemRt) (i : Nat) : List (KEvent × Nat) :=
  match es[i]? with
  | none => []
  | some e => (e.spec.onEnd e.ends).filterMap (Action.event c)

theorem upItemsAt_pushes (c : Ctx) (es : List ElemRt) (m0 : Option Nat) (j : Nat) :
    (upItemsAt c es m0 j).filterMap Item.push? = upPushesAt c es m0 j := by
  simp only [upItemsAt, upPushesAt]
  cases es[j]? with
  | none => rfl
  | some e =>
    simp only
    cases msgAt (es.map (·.spec.act)) m0 j with
    | none =>
      simp only [startItems, List.filterMap_cons, push_call, emits_pushes, List.append_nil]
    | some id =>
      simp only [startItems, incItems, List.filterMap_cons, List.filterMap_append, push_call,
        emits_pushes]

theorem endItemsAt_pushes (c : Ctx) (es : List ElemRt) (j : Nat) :
    (endItemsAt c es j).filterMap Item.push? = endPushesAt c es j := by
  simp only [endItemsAt, endPushesAt]
  cases es[j]? with
  | none => rfl
  | some e => simp only [endItems, List.filterMap_cons, push_call, emits_pushes]

/-- what the tasks that resume push -/
def wokenEvents (c : Ctx) (l : Sleepers) : List (KEvent × Nat) :=
  l.filterMap fun s => match s.2.fin with
    | .send e => some (e.event c)
    | _ => none

theorem sleepers_pushes (c : Ctx) (l : Sleepers) :
    (wokenItems c l).filterMap Item.push? = wokenEvents c l := by
  induction l with
  | nil => rfl
  | cons e l ih =>
    have hcons : wokenItems c (e :: l) = (e.2.item? c).toList ++ wokenItems c l := by
      simp only [wokenItems, List.filterMap_cons]
      cases e.2.item? c <;> rfl
    have hcons' : wokenEvents c (e :: l) =
        (match e.2.fin with | .send x => [x.event c] | _ => []) ++ wokenEvents c l := by
      simp only [wokenEvents, List.filterMap_cons]
      cases e.2.fin <;> rfl
    rw [hcons, hcons', List.filterMap_append, ih]
    congr 1
    unfold Task.item?
    cases e.2.fin with
    | send x => simp [toItem_push]
    | panic => rfl
    | hang => rfl

/-- the pushes of one bracket, in program order -/
def pushShape (c : Ctx) (m : ModRt) (kind : Kind) (woken : Sleepers) : List (KEvent × Nat) :=
  (List.range m.elems.length).flatMap (upPushesAt c m.elems kind.msg?)
    ++ handlerPushes c m kind (msgAt m.acts kind.msg? m.elems.length)
    ++ wokenEvents c woken
    ++ (List.range m.elems.length).reverse.flatMap (endPushesAt c m.elems)

theorem bracket_pushes (c : Ctx) (m : ModRt) (kind : Kind) (woken : Sleepers) :
    (bracket c m kind woken).2.filterMap Item.push? = pushShape c m kind woken := by
  rw [bracket_items]
  simp only [traceShape, pushShape, List.filterMap_append, filterMap_flatMap, handlerItems_pushes,
    sleepers_pushes, ModRt.acts]
  congr 1
  · congr 1
    congr 1
    exact flatMap_congr' (fun j _ => upItemsAt_pushes c m.elems kind.msg? j)
  · exact flatMap_congr' (fun j _ => endItemsAt_pushes c m.elems j)

theorem runEvent_pushes (c : Ctx) (m : ModRt) (kind : Kind) :
    (runEvent c m kind).pushes = pushShape c m kind (dueTasks c m) := by
  simp only [EventResult.pushes, runEvent, bracket_pushes]
  rfl

end Proc

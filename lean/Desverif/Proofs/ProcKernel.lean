/-
Lemmas for C14 about the kernel loop of Model/Proc.lean: the global call log is a concatenation of
complete brackets (invariant of every kernel operation), and what an event pushed is scheduled in
the order it was pushed.
-/
import Desverif.Proofs.ProcBracket
namespace Proc

/-- the `incoming` behaviours of a module's stack -/
def ModRt.acts (m : ModRt) : List (Nat → Act) := m.elems.map (·.spec.act)

/-- the log drawn by a sequence of events `(module, time, kind)` on stacks `A` -/
def bracketLog (A : List (List (Nat → Act))) (brs : List (Nat × Nat × Kind)) : List Entry :=
  brs.flatMap fun b => shape b.1 b.2.1 (A[b.1]?.getD []) b.2.2

theorem bracketLog_append (A : List (List (Nat → Act))) (a b : List (Nat × Nat × Kind)) :
    bracketLog A (a ++ b) = bracketLog A a ++ bracketLog A b := by
  simp [bracketLog, List.flatMap_append]

structure SimInv (A : List (List (Nat → Act))) (s : Sim) : Prop where
  acts : s.mods.map ModRt.acts = A
  log : ∃ brs, s.log = bracketLog A brs ∧ ∀ b ∈ brs, b.1 < A.length

theorem SimInv.of_eq {A : List (List (Nat → Act))} {s s' : Sim} (h : SimInv A s)
    (hm : s'.mods = s.mods) (hl : s'.log = s.log) : SimInv A s' :=
  ⟨by rw [hm]; exact h.acts, by rw [hl]; exact h.log⟩

theorem schedule_mods (s : Sim) (ev : KEvent) (t : Nat) : (s.schedule ev t).mods = s.mods := by
  unfold Sim.schedule; split <;> rfl

theorem schedule_log (s : Sim) (ev : KEvent) (t : Nat) : (s.schedule ev t).log = s.log := by
  unfold Sim.schedule; split <;> rfl

theorem schedule_inv {A : List (List (Nat → Act))} {s : Sim} (h : SimInv A s) (ev : KEvent) (t : Nat) :
    SimInv A (s.schedule ev t) := h.of_eq (schedule_mods s ev t) (schedule_log s ev t)

theorem foldl_inv {α σ : Type} (P : σ → Prop) (f : σ → α → σ) (hf : ∀ s a, P s → P (f s a))
    (l : List α) : ∀ s, P s → P (l.foldl f s) := by
  induction l with
  | nil => intro s h; exact h
  | cons a l ih => intro s h; exact ih _ (hf s a h)

theorem set_self {α : Type} (l : List α) (i : Nat) (a : α) (h : l[i]? = some a) : l.set i a = l := by
  induction l generalizing i with
  | nil => rfl
  | cons x l ih =>
    cases i with
    | zero => simp at h; simp [h]
    | succ i => simp at h; simp [ih i h]

theorem runEvent_log (c : Ctx) (m : ModRt) (kind : Kind) :
    (runEvent c m kind).log = shape c.mod c.now m.acts kind := by
  rw [EventResult.log, runEvent_items, traceShape_entries]; rfl

theorem moduleEvent_inv {A : List (List (Nat → Act))} {s : Sim} (h : SimInv A s) (mi : Nat)
    (kind : Kind) (flush : Bool) : SimInv A (s.moduleEvent mi kind flush) := by
  unfold Sim.moduleEvent
  cases hm : s.mods[mi]? with
  | none => exact h.of_eq rfl rfl
  | some m =>
    simp only
    have hA : A[mi]? = some m.acts := by rw [← h.acts, List.getElem?_map, hm]; rfl
    have hlt : mi < A.length := by
      rcases Nat.lt_or_ge mi A.length with h1 | h1
      · exact h1
      · rw [List.getElem?_eq_none h1] at hA; simp at hA
    -- the state after the event itself
    have h1 : SimInv A { s with mods := s.mods.set mi (runEvent ⟨mi, s.fes.cur⟩ m kind).mod,
                                 log := s.log ++ (runEvent ⟨mi, s.fes.cur⟩ m kind).log } := by
      constructor
      · show (s.mods.set mi _).map ModRt.acts = A
        rw [List.map_set]
        have : ModRt.acts (runEvent ⟨mi, s.fes.cur⟩ m kind).mod = m.acts := runEvent_acts _ m kind
        rw [this, h.acts]
        exact set_self A mi m.acts hA
      · obtain ⟨brs, hb, hlt'⟩ := h.log
        refine ⟨brs ++ [(mi, s.fes.cur, kind)], ?_, ?_⟩
        · show s.log ++ _ = _
          rw [bracketLog_append, hb, runEvent_log]
          simp [bracketLog, hA]
        · intro b hb'
          simp only [List.mem_append, List.mem_singleton] at hb'
          rcases hb' with hb' | hb'
          · exact hlt' b hb'
          · subst hb'; exact hlt
    have h2 : SimInv A (match (runEvent ⟨mi, s.fes.cur⟩ m kind).wake with
        | some t => Sim.schedule { s with mods := s.mods.set mi (runEvent ⟨mi, s.fes.cur⟩ m kind).mod,
                                          log := s.log ++ (runEvent ⟨mi, s.fes.cur⟩ m kind).log } (.wakeup mi) t
        | none => { s with mods := s.mods.set mi (runEvent ⟨mi, s.fes.cur⟩ m kind).mod,
                           log := s.log ++ (runEvent ⟨mi, s.fes.cur⟩ m kind).log }) := by
      cases (runEvent ⟨mi, s.fes.cur⟩ m kind).wake with
      | none => exact h1
      | some t => exact schedule_inv h1 _ _
    cases flush with
    | false => exact h2
    | true =>
      exact foldl_inv (SimInv A) _ (fun s p hs => schedule_inv hs p.1 p.2) _ _ h2

theorem step_inv {A : List (List (Nat → Act))} {s s' : Sim} (h : SimInv A s) (hs : s.step = some s') :
    SimInv A s' := by
  unfold Sim.step at hs
  split at hs
  · simp at hs
  · rename_i e f _
    simp only at hs
    have h0 : SimInv A { s with fes := f } := h.of_eq rfl rfl
    split at hs
    · simp only [Option.some.injEq] at hs; subst hs; exact h0.of_eq rfl rfl
    · simp only [Option.some.injEq] at hs; subst hs; exact moduleEvent_inv h0 _ _ _
    · simp only [Option.some.injEq] at hs; subst hs; exact moduleEvent_inv h0 _ _ _
    · simp only [Option.some.injEq] at hs; subst hs; exact schedule_inv h0 _ _

theorem loop_inv {A : List (List (Nat → Act))} (n : Nat) : ∀ {s : Sim}, SimInv A s → SimInv A (Sim.loop n s) := by
  induction n with
  | zero =>
    intro s h
    unfold Sim.loop
    split
    · exact h
    · exact h.of_eq rfl rfl
  | succ n ih =>
    intro s h
    unfold Sim.loop
    split
    · exact h
    · split
      · exact h
      · rename_i s' hs
        exact ih (step_inv h hs)

theorem simStart_inv {A : List (List (Nat → Act))} {s : Sim} (h : SimInv A s) : SimInv A s.simStart := by
  unfold Sim.simStart
  apply foldl_inv (SimInv A) _ _ _ _ h
  intro s stage hs
  apply foldl_inv (SimInv A) _ _ _ _ hs
  intro s' mi hs'
  split
  · split
    · exact moduleEvent_inv hs' _ _ _
    · exact hs'
  · exact hs'

theorem simEnd_inv {A : List (List (Nat → Act))} {s : Sim} (h : SimInv A s) : SimInv A s.simEnd := by
  unfold Sim.simEnd
  exact foldl_inv (SimInv A) _ (fun s mi hs => moduleEvent_inv hs _ _ _) _ _ h

theorem init_inv (cfg : Config) : SimInv (cfg.mods.map ModRt.acts) (Sim.init cfg) := by
  unfold Sim.init
  apply foldl_inv (SimInv _) _ (fun s i hs => schedule_inv hs _ _)
  exact ⟨rfl, [], rfl, by simp⟩

theorem run_inv (fuel : Nat) (cfg : Config) : SimInv (cfg.mods.map ModRt.acts) (run fuel cfg) := by
  unfold run
  have h := loop_inv fuel (simStart_inv (init_inv cfg))
  simp only
  split
  · exact h
  · exact simEnd_inv h

/-! ### what an event pushed is scheduled in the order it was pushed -/

theorem schedule_fault_sticky (s : Sim) (ev : KEvent) (t : Nat) (h : (s.schedule ev t).fault = none) :
    s.fault = none ∧ (s.schedule ev t).evs = s.evs.push ev := by
  unfold Sim.schedule at h ⊢
  cases hadd : FES.add s.fes t s.evs.size with
  | ok r => rw [hadd] at h; exact ⟨h, rfl⟩
  | error e => rw [hadd] at h; simp at h

theorem foldl_schedule_evs (l : List (KEvent × Nat)) : ∀ (s : Sim),
    (l.foldl (fun s p => s.schedule p.1 p.2) s).fault = none →
      s.fault = none ∧
      (l.foldl (fun s p => s.schedule p.1 p.2) s).evs.toList = s.evs.toList ++ l.map (·.1) := by
  induction l with
  | nil => intro s h; exact ⟨h, by simp⟩
  | cons p l ih =>
    intro s h
    simp only [List.foldl_cons] at h ⊢
    obtain ⟨h1, h2⟩ := ih _ h
    obtain ⟨h3, h4⟩ := schedule_fault_sticky s p.1 p.2 h1
    refine ⟨h3, ?_⟩
    rw [h2, h4]
    simp

/-! ### the pushes of one event, by stack index -/

/-- the buffered kernel event of a send (`Emit.toItem` without the wrapper) -/
def Emit.event (c : Ctx) (e : Emit) : KEvent × Nat :=
  if e.send && e.dst != c.mod then
    if e.delay = 0 then (.deliver e.dst e.id, c.now) else (.exitConn e.dst e.id, c.now + e.delay)
  else (.deliver c.mod e.id, c.now + e.delay)

theorem push_call (e : Entry) : (Item.call e).push? = none := rfl

theorem toItem_push (c : Ctx) (e : Emit) : (e.toItem c).push? = some (e.event c) := by
  unfold Emit.toItem Emit.event
  split
  · split <;> rfl
  · rfl

theorem emits_pushes (c : Ctx) (l : List Emit) :
    (l.map (Emit.toItem c)).filterMap Item.push? = l.map (Emit.event c) := by
  induction l with
  | nil => rfl
  | cons e l ih => simp [toItem_push, ih]

/-- direct sends of a handler callback -/
def hNowEvents (c : Ctx) : List HEmit → List (KEvent × Nat)
  | [] => []
  | .now e :: r => e.event c :: hNowEvents c r
  | .task .. :: r => hNowEvents c r

theorem hNow_pushes (c : Ctx) (l : List HEmit) : (hNow c l).filterMap Item.push? = hNowEvents c l := by
  induction l with
  | nil => rfl
  | cons h l ih =>
    cases h with
    | now e => simp [hNow, hNowEvents, toItem_push, ih]
    | task x e => simpa [hNow, hNowEvents] using ih

/-- what the handler callback of the event pushes -/
def handlerPushes (c : Ctx) (h : Handler) (kind : Kind) (out : Option Nat) : List (KEvent × Nat) :=
  match handlerCall c h kind out with
  | some (_, hs) => hNowEvents c hs
  | none => []

theorem handlerItems_pushes (c : Ctx) (h : Handler) (kind : Kind) (out : Option Nat) :
    (handlerItems c h kind out).filterMap Item.push? = handlerPushes c h kind out := by
  unfold handlerItems handlerPushes
  cases handlerCall c h kind out with
  | none => rfl
  | some p => simp only [List.filterMap_cons, push_call, hNow_pushes]

/-- what element `i` pushes on the way up: the sends of `event_start`, then those of `incoming`
    if the message got there -/
def upPushesAt (c : Ctx) (es : List ElemRt) (m0 : Option Nat) (i : Nat) : List (KEvent × Nat) :=
  match es[i]? with
  | none => []
  | some e => (e.spec.onStart e.starts).map (Emit.event c) ++
      (match msgAt (es.map (·.spec.act)) m0 i with
       | some id => (e.spec.onInc id).map (Emit.event c)
       | none => [])

def endPushesAt (c : Ctx) (es : List ElemRt) (i : Nat) : List (KEvent × Nat) :=
  match es[i]? with
  | none => []
  | some e => (e.spec.onEnd e.ends).map (Emit.event c)

theorem upItemsAt_pushes (c : Ctx) (es : List ElemRt) (m0 : Option Nat) (j : Nat) :
    (upItemsAt c es m0 j).filterMap Item.push? = upPushesAt c es m0 j := by
  simp only [upItemsAt, upPushesAt]
  cases es[j]? with
  | none => rfl
  | some e =>
    simp only
    cases msgAt (es.map (·.spec.act)) m0 j with
    | none =>
      simp only [startItems, List.filterMap_cons, push_call, emits_pushes, List.append_nil]
    | some id =>
      simp only [startItems, incItems, List.filterMap_cons, List.filterMap_append, push_call,
        emits_pushes]

theorem endItemsAt_pushes (c : Ctx) (es : List ElemRt) (j : Nat) :
    (endItemsAt c es j).filterMap Item.push? = endPushesAt c es j := by
  simp only [endItemsAt, endPushesAt]
  cases es[j]? with
  | none => rfl
  | some e => simp only [endItems, List.filterMap_cons, push_call, emits_pushes]

theorem sleepers_pushes (c : Ctx) (l : Sleepers) :
    (l.map (fun s => s.2.toItem c)).filterMap Item.push? = l.map (fun s => s.2.event c) := by
  induction l with
  | nil => rfl
  | cons e l ih => simp [toItem_push, ih]

/-- the pushes of one event, in program order -/
def pushShape (c : Ctx) (m : ModRt) (kind : Kind) : List (KEvent × Nat) :=
  (List.range m.elems.length).flatMap (upPushesAt c m.elems kind.msg?)
    ++ handlerPushes c m.handler kind (msgAt m.acts kind.msg? m.elems.length)
    ++ (m.sleepers.takeWhile (fun s => s.1 ≤ c.now)).map (fun s => s.2.event c)
    ++ (List.range m.elems.length).reverse.flatMap (endPushesAt c m.elems)

theorem runEvent_pushes (c : Ctx) (m : ModRt) (kind : Kind) :
    (runEvent c m kind).pushes = pushShape c m kind := by
  rw [EventResult.pushes, runEvent_items]
  simp only [traceShape, pushShape, List.filterMap_append, filterMap_flatMap, handlerItems_pushes,
    sleepers_pushes, ModRt.acts]
  congr 1
  · congr 1
    congr 1
    exact flatMap_congr' (fun j _ => upItemsAt_pushes c m.elems kind.msg? j)
  · exact flatMap_congr' (fun j _ => endItemsAt_pushes c m.elems j)

end Proc

/-
C16 helper lemmas: `byteLen` of collections, tuples and derived structs/enums is the plain sum of
the members' lengths.
-/
import Desverif.Model.Body
namespace MB

theorem sumLen_eq_sum (vs : List Val) : sumLen vs = (vs.map byteLen).sum := by
  induction vs with
  | nil => simp [sumLen]
  | cons v vs ih => simp [sumLen, ih]

theorem foldLen_eq (acc : Nat) (vs : List Val) : foldLen acc vs = acc + sumLen vs := by
  induction vs generalizing acc with
  | nil => simp [foldLen, sumLen]
  | cons v vs ih => simp [foldLen, sumLen, ih]; omega

theorem sumLen_append (xs ys : List Val) : sumLen (xs ++ ys) = sumLen xs + sumLen ys := by
  simp [sumLen_eq_sum]

end MB

import Desverif.Proofs.RtCQ
import Desverif.Proofs.FESOrder
namespace Rt
open CQ (Ev)
open FES (evLt eraseId minEv)

/-! Properties of the runtime loop over the abstract event set. -/

abbrev S := State FES.State

def handledOf (os : List Obs) : List (Nat × Nat) :=
  os.filterMap (fun o => match o with | .handled n t => some (n, t) | _ => none)

def schedOkOf (os : List Obs) : List (Nat × Nat) :=
  os.filterMap (fun o => match o with | .sched n t true => some (n, t) | _ => none)

def pendingVT (es : FES.State) : List (Nat × Nat) :=
  (es.zero ++ es.pend).map (fun e => (e.val, e.time))

@[simp] theorem handledOf_nil : handledOf [] = [] := rfl
theorem handledOf_cons_handled (n t : Nat) (os : List Obs) :
    handledOf (.handled n t :: os) = (n, t) :: handledOf os := by simp [handledOf]
theorem handledOf_cons_sched (n t : Nat) (b : Bool) (os : List Obs) :
    handledOf (.sched n t b :: os) = handledOf os := by simp [handledOf]
theorem schedOkOf_cons_handled (n t : Nat) (os : List Obs) :
    schedOkOf (.handled n t :: os) = schedOkOf os := by simp [schedOkOf]
theorem schedOkOf_cons_ok (n t : Nat) (os : List Obs) :
    schedOkOf (.sched n t true :: os) = (n, t) :: schedOkOf os := by simp [schedOkOf]
theorem schedOkOf_cons_rej (n t : Nat) (os : List Obs) :
    schedOkOf (.sched n t false :: os) = schedOkOf os := by simp [schedOkOf]
@[simp] theorem schedOkOf_nil : schedOkOf [] = [] := rfl
theorem handledOf_append (a b : List Obs) : handledOf (a ++ b) = handledOf a ++ handledOf b := by
  simp [handledOf, List.filterMap_append]
theorem schedOkOf_append (a b : List Obs) : schedOkOf (a ++ b) = schedOkOf a ++ schedOkOf b := by
  simp [schedOkOf, List.filterMap_append]

structure RInv (s : S) : Prop where
  cur_le : s.es.cur ≤ s.now
  zeroT : ∀ e ∈ s.es.zero, e.time = s.es.cur
  pendT : ∀ e ∈ s.es.pend, s.es.cur ≤ e.time
  nowLe : ∀ e ∈ s.es.zero ++ s.es.pend, s.now ≤ e.time
  nodup : ((s.es.zero ++ s.es.pend).map (·.id)).Nodup
  idsLt : ∀ e ∈ s.es.zero ++ s.es.pend, e.id < s.es.nextId

theorem build_inv (start : Nat) (l : Limit) : RInv (build FES.init start l) := by
  refine ⟨?_, ?_, ?_, ?_, ?_, ?_⟩ <;> simp [build, FES.init]

/-- same state, other limit -/
def withLimit (s : S) (l : Limit) : S := { s with limit := l }

theorem withLimit_inv {s : S} (h : RInv s) (l : Limit) : RInv (withLimit s l) :=
  ⟨h.cur_le, h.zeroT, h.pendT, h.nowLe, h.nodup, h.idsLt⟩

/-! ### add_event -/

theorem addEvent_past (s : S) (time node : Nat) (hlt : time < s.now) :
    addEvent fesES s time node = (s, .sched node time false) := by
  simp [addEvent, hlt]

theorem addEvent_ok {s : S} (h : RInv s) (time node : Nat) (hge : s.now ≤ time) :
    ∃ s', addEvent fesES s time node = (s', .sched node time true) ∧ RInv s' ∧ s'.now = s.now ∧
      s'.itr = s.itr ∧ s'.limit = s.limit ∧ s'.scheduled = s.scheduled + 1 ∧
      (pendingVT s'.es).Perm ((node, time) :: pendingVT s.es) := by
  have hnlt : ¬ time < s.now := by omega
  have hcur : ¬ time < s.es.cur := by have := h.cur_le; omega
  have hfresh : ∀ x ∈ s.es.zero ++ s.es.pend, x.id ≠ s.es.nextId := by
    intro x hx; have := h.idsLt x hx; omega
  by_cases heq : time = s.es.cur
  · have hadd : fesES.add s.es time node = some { s.es with zero := s.es.zero ++ [⟨time, s.es.nextId, node⟩], nextId := s.es.nextId + 1 } := by
      simp [fesES, FES.add, hcur, heq]
    simp only [addEvent, hnlt, if_false, hadd]
    refine ⟨_, rfl, ?_, rfl, rfl, rfl, rfl, ?_⟩
    · refine ⟨h.cur_le, ?_, h.pendT, ?_, ?_, ?_⟩
      · intro e he
        rcases List.mem_append.mp he with he | he
        · exact h.zeroT e he
        · rw [List.mem_singleton] at he; subst he; exact heq
      · intro e he
        rcases List.mem_append.mp he with he | he
        · rcases List.mem_append.mp he with he | he
          · exact h.nowLe e (List.mem_append_left _ he)
          · rw [List.mem_singleton] at he; subst he; exact hge
        · exact h.nowLe e (List.mem_append_right _ he)
      · have hp : (s.es.zero ++ [(⟨time, s.es.nextId, node⟩ : Ev)] ++ s.es.pend).Perm
            ((⟨time, s.es.nextId, node⟩ : Ev) :: (s.es.zero ++ s.es.pend)) := by
          simp only [List.append_assoc]; exact List.perm_middle
        show ((s.es.zero ++ [(⟨time, s.es.nextId, node⟩ : Ev)] ++ s.es.pend).map (·.id)).Nodup
        rw [(hp.map (·.id)).nodup_iff, List.map_cons]
        refine List.nodup_cons.mpr ⟨?_, h.nodup⟩
        intro hm
        obtain ⟨x, hx, hxe⟩ := List.mem_map.mp hm
        exact hfresh x hx hxe
      · intro e he
        show e.id < s.es.nextId + 1
        rcases List.mem_append.mp he with he | he
        · rcases List.mem_append.mp he with he | he
          · have := h.idsLt e (List.mem_append_left _ he); omega
          · rw [List.mem_singleton] at he; subst he; exact Nat.lt_succ_self _
        · have := h.idsLt e (List.mem_append_right _ he); omega
    · show (List.map (fun e : Ev => (e.val, e.time)) ((s.es.zero ++ [(⟨time, s.es.nextId, node⟩ : Ev)]) ++ s.es.pend)).Perm _
      simp only [pendingVT, List.append_assoc, List.map_append, List.map_cons, List.map_nil]
      exact List.perm_middle
  · have hadd : fesES.add s.es time node = some { s.es with pend := s.es.pend ++ [⟨time, s.es.nextId, node⟩], nextId := s.es.nextId + 1 } := by
      simp [fesES, FES.add, hcur, heq]
    simp only [addEvent, hnlt, if_false, hadd]
    refine ⟨_, rfl, ?_, rfl, rfl, rfl, rfl, ?_⟩
    · refine ⟨h.cur_le, h.zeroT, ?_, ?_, ?_, ?_⟩
      · intro e he
        rcases List.mem_append.mp he with he | he
        · exact h.pendT e he
        · rw [List.mem_singleton] at he; subst he; show s.es.cur ≤ time; omega
      · intro e he
        have he' : e ∈ (s.es.zero ++ s.es.pend) ++ [(⟨time, s.es.nextId, node⟩ : Ev)] := by
          simpa [List.append_assoc] using he
        rcases List.mem_append.mp he' with he | he
        · exact h.nowLe e he
        · rw [List.mem_singleton] at he; subst he; exact hge
      · show ((s.es.zero ++ (s.es.pend ++ [(⟨time, s.es.nextId, node⟩ : Ev)])).map (·.id)).Nodup
        rw [← List.append_assoc, List.map_append, List.nodup_append]
        refine ⟨h.nodup, by simp, ?_⟩
        intro a ha b hb
        obtain ⟨x, hx, rfl⟩ := List.mem_map.mp ha
        simp at hb; subst hb
        exact hfresh x hx
      · intro e he
        have he' : e ∈ (s.es.zero ++ s.es.pend) ++ [(⟨time, s.es.nextId, node⟩ : Ev)] := by
          simpa [List.append_assoc] using he
        show e.id < s.es.nextId + 1
        rcases List.mem_append.mp he' with he | he
        · have := h.idsLt e he; omega
        · rw [List.mem_singleton] at he; subst he; exact Nat.lt_succ_self _
    · show (List.map (fun e : Ev => (e.val, e.time)) (s.es.zero ++ (s.es.pend ++ [(⟨time, s.es.nextId, node⟩ : Ev)]))).Perm _
      simp only [pendingVT, ← List.append_assoc, List.map_append, List.map_cons, List.map_nil]
      exact List.perm_append_singleton _ _

/-- result of the scripted handler -/
theorem runActs_spec (acts : List Act) : ∀ {s : S}, RInv s →
    RInv (runActs fesES s acts).1 ∧ (runActs fesES s acts).1.now = s.now ∧
    (runActs fesES s acts).1.itr = s.itr ∧ (runActs fesES s acts).1.limit = s.limit ∧
    handledOf (runActs fesES s acts).2 = [] ∧
    (pendingVT (runActs fesES s acts).1.es).Perm
      (schedOkOf (runActs fesES s acts).2 ++ pendingVT s.es) := by
  induction acts with
  | nil => intro s h; exact ⟨h, rfl, rfl, rfl, rfl, by simp [runActs]⟩
  | cons a as ih =>
    intro s h
    simp only [runActs]
    by_cases hlt : actTime s.now a < s.now
    · rw [addEvent_past s _ _ hlt]
      obtain ⟨i1, i2, i3, i4, i5, i6⟩ := ih h
      refine ⟨i1, i2, i3, i4, ?_, ?_⟩
      · rw [handledOf_cons_sched]; exact i5
      · rw [schedOkOf_cons_rej]; exact i6
    · obtain ⟨s', hs', hinv, hnow, hitr, hlim, _, hperm⟩ := addEvent_ok h (actTime s.now a) a.node (by omega)
      rw [hs']
      obtain ⟨i1, i2, i3, i4, i5, i6⟩ := ih hinv
      refine ⟨i1, by rw [i2, hnow], by rw [i3, hitr], by rw [i4, hlim], ?_, ?_⟩
      · rw [handledOf_cons_sched]; exact i5
      · refine i6.trans ?_
        rw [schedOkOf_cons_ok]
        have := hperm
        rw [List.perm_iff_count] at this ⊢
        intro x; have := this x
        simp only [List.count_append, List.count_cons] at this ⊢
        omega

/-! ### one dispatched event -/

theorem eraseId_perm {l : List Ev} (hnd : (l.map (·.id)).Nodup) {e : Ev} (he : e ∈ l) :
    l.Perm (e :: eraseId l e.id) := by
  induction l with
  | nil => cases he
  | cons a as ih =>
    rw [List.map_cons] at hnd
    have hnd' := List.nodup_cons.mp hnd
    rcases List.mem_cons.mp he with rfl | he
    · have : eraseId (e :: as) e.id = as := by
        have h2 : eraseId as e.id = as :=
          CQ.eraseId_eq_self (fun x hx hxe => hnd'.1 (hxe ▸ List.mem_map_of_mem hx))
        simp only [eraseId] at h2 ⊢
        simp only [List.filter_cons, ne_eq, not_true_eq_false, decide_false]
        exact h2
      rw [this]
    · have hne : a.id ≠ e.id := fun hh => hnd'.1 (hh ▸ List.mem_map_of_mem he)
      have : eraseId (a :: as) e.id = a :: eraseId as e.id := by
        simp [eraseId, hne]
      rw [this]
      exact (List.Perm.cons a (ih hnd'.2 he)).trans (List.Perm.swap e a _)

structure StepFacts (s s' : S) (os : List Obs) (e : Ev) : Prop where
  next : FES.nextTime s.es = some e.time
  handled : handledOf os = [(e.val, e.time)]
  now' : s'.now = e.time
  nowLe : s.now ≤ e.time
  itr' : s'.itr = s.itr + 1
  limit' : s'.limit = s.limit
  inv' : RInv s'
  perm : (schedOkOf os ++ pendingVT s.es).Perm ((e.val, e.time) :: pendingVT s'.es)
  head : ∃ rest, os = .handled e.val e.time :: rest

theorem stepU_none_iff {s : S} (prog : Prog) : stepU fesES prog s = none ↔ FES.len s.es = 0 := by
  unfold stepU
  simp only [fesES, FES.fetch, FES.len]
  cases hz : s.es.zero with
  | cons e z => simp
  | nil =>
    cases hp : s.es.pend with
    | nil => simp [minEv]
    | cons a as => simp [minEv]

theorem stepU_spec {s : S} (h : RInv s) (prog : Prog) {s' : S} {os : List Obs}
    (hs : stepU fesES prog s = some (s', os)) : ∃ e, StepFacts s s' os e := by
  unfold stepU at hs
  cases hf : fesES.fetch s.es with
  | none => simp [hf] at hs
  | some p =>
    obtain ⟨e, es'⟩ := p
    simp only [hf, handle] at hs
    -- characterise the fetch
    have hfetch : FES.fetch s.es = .ok (e, es') := by
      simp only [fesES] at hf
      cases h' : FES.fetch s.es with
      | ok q => simp [h'] at hf; rw [hf]
      | error _ => simp [h'] at hf
    have key : e ∈ s.es.zero ++ s.es.pend ∧ es'.nextId = s.es.nextId ∧
        (s.es.zero ++ s.es.pend).Perm (e :: (es'.zero ++ es'.pend)) ∧
        es'.cur = e.time ∧ (∀ x ∈ es'.zero, x.time = es'.cur) ∧ (∀ x ∈ es'.pend, es'.cur ≤ x.time) ∧
        FES.nextTime s.es = some e.time := by
      unfold FES.fetch at hfetch
      cases hz : s.es.zero with
      | cons e0 z =>
        rw [hz] at hfetch
        simp only [Except.ok.injEq, Prod.mk.injEq] at hfetch
        obtain ⟨rfl, rfl⟩ := hfetch
        have het : e0.time = s.es.cur := h.zeroT e0 (hz ▸ List.mem_cons_self)
        refine ⟨by simp, rfl, by simp, het.symm, ?_, h.pendT, by simp [FES.nextTime, hz]⟩
        intro x hx; exact h.zeroT x (hz ▸ List.mem_cons_of_mem _ hx)
      | nil =>
        rw [hz] at hfetch
        simp only at hfetch
        cases hm : minEv s.es.pend with
        | none => rw [hm] at hfetch; cases hfetch
        | some e' =>
          rw [hm] at hfetch
          simp only [Except.ok.injEq, Prod.mk.injEq] at hfetch
          obtain ⟨rfl, rfl⟩ := hfetch
          have hmem := CQRun.minEv_mem hm
          have hnd : (s.es.pend.map (·.id)).Nodup := by
            have := h.nodup; rw [hz] at this; simpa using this
          refine ⟨by simp [hmem], rfl, ?_, rfl, ?_, ?_, by simp [FES.nextTime, hz, hm]⟩
          · simpa [hz] using eraseId_perm hnd hmem
          · intro x hx; simp [hz] at hx
          · intro x hx
            exact CQRun.minEv_le hm x (List.mem_filter.mp hx).1
    obtain ⟨hmem, hnid, hperm, hcur, hzT, hpT, hnext⟩ := key
    -- the state the handler starts from
    have hinv1 : RInv ({ s with es := es', itr := s.itr + 1, now := e.time } : S) := by
      have hsub : ∀ x ∈ es'.zero ++ es'.pend, x ∈ s.es.zero ++ s.es.pend :=
        fun x hx => hperm.mem_iff.mpr (List.mem_cons_of_mem _ hx)
      refine ⟨?_, hzT, hpT, ?_, ?_, ?_⟩
      · show es'.cur ≤ e.time; omega
      · intro x hx
        show e.time ≤ x.time
        rcases List.mem_append.mp hx with hx | hx
        · rw [hzT x hx, hcur]; exact Nat.le_refl _
        · have := hpT x hx; omega
      · have := (hperm.map (·.id)).nodup_iff.mp h.nodup
        rw [List.map_cons] at this
        exact (List.nodup_cons.mp this).2
      · intro x hx; rw [hnid]; exact h.idsLt x (hsub x hx)
    obtain ⟨i1, i2, i3, i4, i5, i6⟩ := runActs_spec (prog.getD e.val []) hinv1
    simp only [Option.some.injEq, Prod.mk.injEq] at hs
    obtain ⟨rfl, rfl⟩ := hs
    refine ⟨e, hnext, ?_, i2, h.nowLe e hmem, i3, i4, i1, ?_, ⟨_, rfl⟩⟩
    · rw [handledOf_cons_handled, i5]
    · have hp2 := (hperm.map (fun x : Ev => (x.val, x.time)))
      rw [schedOkOf_cons_handled]
      rw [List.perm_iff_count] at i6 hp2 ⊢
      intro x; have h6 := i6 x; have h2 := hp2 x
      simp only [pendingVT, List.count_append, List.count_cons, List.map_cons] at h6 h2 ⊢
      omega

end Rt

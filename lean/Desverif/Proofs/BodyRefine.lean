/-
C16: the pointer-level model `MB` refines the value-level specification `MBSpec`.
`RelL h l l' c d`: the model slots `l` (over heap `h`) and the spec slots `l'` hold the same
messages in the same order, the heap is consistent with exactly the pointers owned by `l`
(`HeapOk`), `c` values were created and `d` released so far.
-/
import Desverif.Proofs.BodyHeap
import Desverif.Spec.BodySpec
namespace MB
open MBSpec (ABody AMsg declaredLen clonableOf)

/-- pointwise relation of two lists (core Lean has no `Forall₂`) -/
inductive All2 {α β : Type} (R : α → β → Prop) : List α → List β → Prop
  | nil : All2 R [] []
  | cons {a : α} {b : β} {l : List α} {l' : List β} : R a b → All2 R l l' → All2 R (a :: l) (b :: l')

def Msg.ptr (m : Msg) : Option Nat :=
  match m.content with
  | some b => b.data
  | none => none

/-- the heap addresses owned by the messages in the slots -/
def ptrs (slots : List (String × Msg)) : List Nat := slots.flatMap fun s => s.2.ptr.toList

@[simp] theorem ptrs_nil : ptrs [] = [] := rfl
@[simp] theorem ptrs_cons (x : String × Msg) (l : List (String × Msg)) :
    ptrs (x :: l) = x.2.ptr.toList ++ ptrs l := by simp [ptrs]

def BodyRel (h : Heap) (b : Body) (ab : ABody) : Prop :=
  ∃ (p : Nat) (bx : Box), b.data = some p ∧ h.boxes[p]? = some bx ∧ bx.live = true ∧ bx.ty = ab.ty ∧
    bx.val = ab.val ∧ b.vt.ty = ab.ty ∧ b.vt.clonable = ab.clonable ∧ b.length = ab.len

def ContentRel (h : Heap) : Option Body → Option ABody → Prop
  | none, none => True
  | some b, some ab => BodyRel h b ab
  | _, _ => False

def MsgRel (h : Heap) (m : Msg) (a : AMsg) : Prop :=
  m.header = a.header ∧ ContentRel h m.content a.content

def SlotRel (h : Heap) (s : String × Msg) (t : String × AMsg) : Prop :=
  s.1 = t.1 ∧ MsgRel h s.2 t.2

structure RelL (h : Heap) (l : List (String × Msg)) (l' : List (String × AMsg)) (c d : Nat) : Prop where
  slots : All2 (SlotRel h) l l'
  heap : HeapOk h (ptrs l)
  created : h.created = c
  dropped : Heap.released h.boxes = d

/-- the refinement relation between model states and spec states -/
def Rel (st : State) (s : MBSpec.State) : Prop := RelL st.heap st.slots s.slots s.created s.dropped

/-! ### frame -/

theorem MsgRel.frame {h h' : Heap} {m : Msg} {a : AMsg} (hr : MsgRel h m a)
    (hf : ∀ p, m.ptr = some p → h'.boxes[p]? = h.boxes[p]?) : MsgRel h' m a := by
  obtain ⟨hh, hc⟩ := hr
  refine ⟨hh, ?_⟩
  cases hm : m.content with
  | none => rw [hm] at hc; cases ha : a.content <;> simp_all [ContentRel]
  | some b =>
    rw [hm] at hc
    cases ha : a.content with
    | none => simp_all [ContentRel]
    | some ab =>
      rw [ha] at hc
      obtain ⟨p, bx, hd, hb, rest⟩ := hc
      exact ⟨p, bx, hd, by rw [hf p (by simp [Msg.ptr, hm, hd])]; exact hb, rest⟩

theorem slots_frame {h h' : Heap} {l : List (String × Msg)} {l' : List (String × AMsg)}
    (hr : All2 (SlotRel h) l l') (hf : ∀ p ∈ ptrs l, h'.boxes[p]? = h.boxes[p]?) :
    All2 (SlotRel h') l l' := by
  induction hr with
  | nil => exact .nil
  | cons hx _ ih =>
    refine .cons ⟨hx.1, hx.2.frame fun p hp => hf p ?_⟩ (ih fun p hp => hf p ?_)
    · simp [hp]
    · simp [hp]

/-! ### slots: lookup / remove -/

theorem lookup_none_rel {h : Heap} {l : List (String × Msg)} {l' : List (String × AMsg)}
    (hr : All2 (SlotRel h) l l') {tag : String} (hl : lookup tag l = none) :
    lookup tag l' = none := by
  induction hr with
  | nil => rfl
  | @cons x y _ _ hx _ ih =>
    obtain ⟨t, m⟩ := x; obtain ⟨t', a⟩ := y
    have ht : t = t' := hx.1
    subst ht
    simp only [lookup] at hl ⊢
    split at hl
    · cases hl
    · rename_i hne; rw [if_neg hne]; exact ih hl

theorem lookup_some_rel {h : Heap} {l : List (String × Msg)} {l' : List (String × AMsg)}
    (hr : All2 (SlotRel h) l l') {tag : String} {m : Msg} (hl : lookup tag l = some m) :
    ∃ a, lookup tag l' = some a ∧ MsgRel h m a := by
  induction hr with
  | nil => cases hl
  | @cons x y _ _ hx _ ih =>
    obtain ⟨t, m0⟩ := x; obtain ⟨t', a0⟩ := y
    have ht : t = t' := hx.1
    subst ht
    simp only [lookup] at hl ⊢
    split at hl
    · rename_i he; cases hl; exact ⟨a0, by rw [if_pos he], hx.2⟩
    · rename_i hne; rw [if_neg hne]; exact ih hl

theorem remove_rel {h : Heap} {l : List (String × Msg)} {l' : List (String × AMsg)}
    (hr : All2 (SlotRel h) l l') (tag : String) :
    All2 (SlotRel h) (remove tag l) (remove tag l') := by
  induction hr with
  | nil => exact .nil
  | @cons x y _ _ hx hrest ih =>
    obtain ⟨t, m0⟩ := x; obtain ⟨t', a0⟩ := y
    have ht : t = t' := hx.1
    subst ht
    simp only [remove]
    split
    · exact hrest
    · exact .cons hx ih

theorem lookup_perm {α : Type} {tag : String} {l : List (String × α)} {m : α}
    (hl : lookup tag l = some m) : l.Perm ((tag, m) :: remove tag l) := by
  induction l with
  | nil => cases hl
  | cons x l ih =>
    obtain ⟨t, m0⟩ := x
    simp only [lookup] at hl
    simp only [remove]
    split at hl
    · rename_i he; cases hl; subst he; simp
    · rename_i hne
      rw [if_neg hne]
      exact (List.Perm.cons _ (ih hl)).trans (List.Perm.swap _ _ _)

theorem remove_of_lookup_none {α : Type} {tag : String} {l : List (String × α)}
    (hl : lookup tag l = none) : remove tag l = l := by
  induction l with
  | nil => rfl
  | cons x l ih =>
    obtain ⟨t, m0⟩ := x
    simp only [lookup] at hl
    simp only [remove]
    split at hl
    · cases hl
    · rename_i hne; rw [if_neg hne, ih hl]

theorem ptrs_perm {l l2 : List (String × Msg)} (hp : l.Perm l2) : (ptrs l).Perm (ptrs l2) :=
  List.Perm.flatMap_right _ hp

/-- take the message of slot `tag` to the front -/
theorem RelL.extract {h : Heap} {l : List (String × Msg)} {l' : List (String × AMsg)} {c d : Nat}
    (hr : RelL h l l' c d) {tag : String} {m : Msg} (hl : lookup tag l = some m) :
    ∃ a, lookup tag l' = some a ∧
      RelL h ((tag, m) :: remove tag l) ((tag, a) :: remove tag l') c d := by
  obtain ⟨a, ha, hma⟩ := lookup_some_rel hr.slots hl
  exact ⟨a, ha, ⟨.cons ⟨rfl, hma⟩ (remove_rel hr.slots tag), hr.heap.perm (ptrs_perm (lookup_perm hl)),
    hr.created, hr.dropped⟩⟩

theorem RelL.swap {h : Heap} {x y : String × Msg} {x' y' : String × AMsg} {l : List (String × Msg)}
    {l' : List (String × AMsg)} {c d : Nat} (hr : RelL h (x :: y :: l) (x' :: y' :: l') c d) :
    RelL h (y :: x :: l) (y' :: x' :: l') c d := by
  obtain ⟨hs, hh, hc, hd⟩ := hr
  cases hs with
  | cons hx hs =>
    cases hs with
    | cons hy hs =>
      exact ⟨.cons hy (.cons hx hs), hh.perm (ptrs_perm (List.Perm.swap _ _ _)), hc, hd⟩

/-- take the message of slot `tag` to the front, below a floating head -/
theorem RelL.extractUnder {h : Heap} {x : String × Msg} {x' : String × AMsg}
    {l : List (String × Msg)} {l' : List (String × AMsg)} {c d : Nat}
    (hr : RelL h (x :: l) (x' :: l') c d) {tag : String} {m : Msg} (hl : lookup tag l = some m) :
    ∃ a, lookup tag l' = some a ∧
      RelL h ((tag, m) :: x :: remove tag l) ((tag, a) :: x' :: remove tag l') c d := by
  obtain ⟨hs, hh, hc, hd⟩ := hr
  cases hs with
  | cons hx hs =>
    obtain ⟨a, ha, hma⟩ := lookup_some_rel hs hl
    refine ⟨a, ha, ⟨.cons ⟨rfl, hma⟩ (.cons hx (remove_rel hs tag)), hh.perm (ptrs_perm ?_), hc, hd⟩⟩
    exact (List.Perm.cons _ (lookup_perm hl)).trans (List.Perm.swap _ _ _)

/-! ### primitive transitions -/

/-- releasing (dropping or moving out) the value owned by the head message -/
theorem RelL.releaseHead {h : Heap} {t : String} {m : Msg} {t' : String} {a : AMsg}
    {l : List (String × Msg)} {l' : List (String × AMsg)} {c d : Nat}
    (hr : RelL h ((t, m) :: l) ((t', a) :: l') c d) {b : Body} (hm : m.content = some b)
    {p : Nat} (hd : b.data = some p) {bx bx' : Box} (hb : h.boxes[p]? = some bx)
    (hl : bx'.live = false) (hc : bx'.drops + bx'.moved = bx.drops + bx.moved + 1) :
    RelL { h with boxes := h.boxes.set p bx' } l l' c (d + 1) := by
  obtain ⟨hs, hh, hcr, hdr⟩ := hr
  have hptr : ptrs ((t, m) :: l) = p :: ptrs l := by simp [Msg.ptr, hm, hd]
  rw [hptr] at hh
  cases hs with
  | cons hx hs =>
    refine ⟨slots_frame hs fun q hq => ?_, hh.release hb hl hc, ?_, ?_⟩
    · have hne : q ≠ p := fun he => (List.nodup_cons.mp hh.nodup).1 (he ▸ hq)
      exact set_get_other hne
    · simpa [Heap.created] using hcr
    · have := released_set (bx' := bx') hb
      show Heap.released (h.boxes.set p bx') = d + 1
      omega

theorem RelL.dropHead {h : Heap} {t : String} {m : Msg} {t' : String} {a : AMsg}
    {l : List (String × Msg)} {l' : List (String × AMsg)} {c d : Nat}
    (hr : RelL h ((t, m) :: l) ((t', a) :: l') c d) : RelL (m.drop h) l l' c (d + a.held) := by
  have hx : SlotRel h (t, m) (t', a) := by cases hr.slots with | cons hx _ => exact hx
  have hcr := hx.2.2
  cases hm : m.content with
  | none =>
    rw [hm] at hcr
    cases ha : a.content with
    | some ab => rw [ha] at hcr; exact hcr.elim
    | none =>
      have hp : ptrs ((t, m) :: l) = ptrs l := by simp [Msg.ptr, hm]
      obtain ⟨hs, hh, hc, hd⟩ := hr
      rw [hp] at hh
      cases hs with
      | cons _ hs =>
        simpa [Msg.drop, dropContent, hm, AMsg.held, ha] using (⟨hs, hh, hc, hd⟩ : RelL h l l' c d)
  | some b =>
    rw [hm] at hcr
    cases ha : a.content with
    | none => rw [ha] at hcr; exact hcr.elim
    | some ab =>
      rw [ha] at hcr
      obtain ⟨p, bx, hd, hb, hlive, hty, _, hvt, _, _⟩ := hcr
      have hfree : m.drop h =
          { h with boxes := h.boxes.set p { bx with live := false, drops := bx.drops + 1 } } := by
        simp only [Msg.drop, dropContent, hm, Body.drop, hd, vdrop]
        exact free_eq hb hlive (hty.trans hvt.symm)
      rw [hfree]
      have : a.held = 1 := by simp [AMsg.held, ha]
      rw [this]
      exact hr.releaseHead hm hd hb rfl (by simp; omega)

/-- a freshly boxed value becomes the body of a new head message -/
theorem RelL.allocPush {h : Heap} {l : List (String × Msg)} {l' : List (String × AMsg)} {c d : Nat}
    (hr : RelL h l l' c d) (t : String) (hdr : Header) (T : Ty) (v : Val) (len : Nat) (vt : VTable)
    (hvt : vt.ty = T) :
    RelL (h.alloc T v).1
      ((t, { header := hdr, content := some { data := some h.boxes.length, length := len, vt := vt } }) :: l)
      ((t, { header := hdr, content := some { ty := T, val := v, len := len, clonable := vt.clonable } }) :: l')
      (c + 1) d := by
  obtain ⟨hs, hh, hc, hd⟩ := hr
  refine ⟨.cons ⟨rfl, rfl, ?_⟩ (slots_frame hs fun q hq => ?_), ?_, ?_, ?_⟩
  · exact ⟨h.boxes.length, _, rfl, alloc_get_new h T v, rfl, rfl, rfl, hvt, rfl, rfl⟩
  · obtain ⟨bx, hb, _⟩ := (hh.owned q).mp hq
    rw [alloc_get_old hb, hb]
  · simpa [Msg.ptr] using hh.alloc T v
  · simp [Heap.created] at hc ⊢; omega
  · simp [released_append, Heap.released]; exact hd

theorem mk_eq (c : Ctor) (h : Heap) (T : Ty) (v : Val) :
    ∃ vt : VTable, vt.ty = T ∧ vt.clonable = clonableOf c ∧
      c.mk h T v = ((h.alloc T v).1, { data := some h.boxes.length, length := declaredLen c v, vt := vt }) := by
  cases c with
  | plain => exact ⟨vtable T, rfl, rfl, rfl⟩
  | nonClonable => exact ⟨vtableNonClonable T, rfl, rfl, rfl⟩
  | withLen n => exact ⟨vtable T, rfl, rfl, rfl⟩
  | nonDebugable s => exact ⟨vtableNonDebugable T, rfl, rfl, rfl⟩

theorem RelL.setHead {h : Heap} {t : String} {m : Msg} {t' : String} {a : AMsg}
    {l : List (String × Msg)} {l' : List (String × AMsg)} {c d : Nat}
    (hr : RelL h ((t, m) :: l) ((t', a) :: l') c d) (ct : Ctor) (T : Ty) (v : Val) :
    RelL (m.setContent h ct T v).1 ((t, (m.setContent h ct T v).2) :: l)
      ((t, { a with content := some { ty := T, val := v, len := declaredLen ct v, clonable := clonableOf ct } }) :: l')
      (c + 1) (d + a.held) := by
  obtain ⟨vt, hvt, hcl, hmk⟩ := mk_eq ct h T v
  have hhdr : m.header = a.header := by cases hr.slots with | cons hx _ => exact hx.2.1
  have h1 := (hr.allocPush t a.header T v (declaredLen ct v) vt hvt).swap.dropHead
  simp only [Msg.setContent, hmk]
  rw [hcl] at h1
  rw [hhdr]
  exact h1

/-! ### what the operations answer -/

theorem tryContent_rel {h : Heap} {m : Msg} {a : AMsg} (hr : MsgRel h m a) (T : Ty) :
    m.tryContent h T =
      (h, match a.content with
          | some ab => if ab.ty = T then some (some ab.val) else none
          | none => none) := by
  have hcr := hr.2
  cases hm : m.content with
  | none =>
    rw [hm] at hcr
    cases ha : a.content with
    | some ab => rw [ha] at hcr; exact hcr.elim
    | none => simp [Msg.tryContent, hm]
  | some b =>
    rw [hm] at hcr
    cases ha : a.content with
    | none => rw [ha] at hcr; exact hcr.elim
    | some ab =>
      rw [ha] at hcr
      obtain ⟨p, bx, hd, hb, hlive, hty, hval, hvt, _, _⟩ := hcr
      simp only [Msg.tryContent, hm, Body.tryContent, Body.is, hvt]
      by_cases hT : ab.ty = T
      · simp [hT, hd, read_eq hb hlive (hty.trans hT), hval]
      · simp [hT]

theorem canCast_rel {h : Heap} {m : Msg} {a : AMsg} (hr : MsgRel h m a) (T : Ty) :
    m.canCast T = (match a.content with
                   | some ab => decide (ab.ty = T)
                   | none => false) := by
  have hcr := hr.2
  cases hm : m.content with
  | none =>
    rw [hm] at hcr
    cases ha : a.content with
    | some ab => rw [ha] at hcr; exact hcr.elim
    | none => simp [Msg.canCast, hm]
  | some b =>
    rw [hm] at hcr
    cases ha : a.content with
    | none => rw [ha] at hcr; exact hcr.elim
    | some ab =>
      rw [ha] at hcr
      obtain ⟨p, bx, _, _, _, _, _, hvt, _, _⟩ := hcr
      simp [Msg.canCast, hm, Body.is, hvt]

theorem length_rel {h : Heap} {m : Msg} {a : AMsg} (hr : MsgRel h m a) : m.length = a.length := by
  have hcr := hr.2
  cases hm : m.content with
  | none =>
    rw [hm] at hcr
    cases ha : a.content with
    | some ab => rw [ha] at hcr; exact hcr.elim
    | none => simp [Msg.length, hm, AMsg.length, ha, Header.byteLen]
  | some b =>
    rw [hm] at hcr
    cases ha : a.content with
    | none => rw [ha] at hcr; exact hcr.elim
    | some ab =>
      rw [ha] at hcr
      obtain ⟨p, bx, _, _, _, _, _, _, _, hlen⟩ := hcr
      simp [Msg.length, hm, AMsg.length, ha, Header.byteLen, hlen]; omega

/-- `try_cast` on the head message -/
theorem RelL.castHead {h : Heap} {t : String} {m : Msg} {t' : String} {a : AMsg}
    {l : List (String × Msg)} {l' : List (String × AMsg)} {c d : Nat}
    (hr : RelL h ((t, m) :: l) ((t', a) :: l') c d) (T : Ty) :
    (∃ ab, a.content = some ab ∧ ab.ty = T ∧
      ∃ h', m.tryCast h T = (h', .ok (some ab.val) a.header) ∧ RelL h' l l' c (d + 1)) ∨
    ((∀ ab, a.content = some ab → ab.ty ≠ T) ∧ m.tryCast h T = (h, .err m)) := by
  have hx : SlotRel h (t, m) (t', a) := by cases hr.slots with | cons hx _ => exact hx
  have hcr := hx.2.2
  have hhdr : m.header = a.header := hx.2.1
  cases hm : m.content with
  | none =>
    rw [hm] at hcr
    cases ha : a.content with
    | some ab => rw [ha] at hcr; exact hcr.elim
    | none =>
      right
      refine ⟨by simp, ?_⟩
      simp only [Msg.tryCast, hm]
      cases m; simp_all
  | some b =>
    rw [hm] at hcr
    cases ha : a.content with
    | none => rw [ha] at hcr; exact hcr.elim
    | some ab =>
      rw [ha] at hcr
      obtain ⟨p, bx, hd, hb, hlive, hty, hval, hvt, _, _⟩ := hcr
      by_cases hT : ab.ty = T
      · left
        refine ⟨ab, rfl, hT, _, ?_, hr.releaseHead (bx' := { bx with live := false, moved := bx.moved + 1 }) hm hd hb rfl (by simp; omega)⟩
        simp only [Msg.tryCast, hm, Body.tryCast, Body.is, hvt, hT, decide_true, if_true, hd]
        rw [take_eq hb hlive (hty.trans hT)]
        simp [Body.drop, vdrop, hval, hhdr]
      · right
        refine ⟨fun ab' he => by cases he; exact hT, ?_⟩
        simp only [Msg.tryCast, hm, Body.tryCast, Body.is, hvt, hT, decide_false]
        cases m; simp_all

/-- `try_clone` of a message related to `a` -/
theorem RelL.cloneOf {h : Heap} {l : List (String × Msg)} {l' : List (String × AMsg)} {c d : Nat}
    (hr : RelL h l l' c d) {m : Msg} {a : AMsg} (hma : MsgRel h m a) (dst : String) :
    (a.content = none ∧ ∃ m', m.tryClone h = (h, some m') ∧ RelL h ((dst, m') :: l) ((dst, a) :: l') c d) ∨
    (∃ ab, a.content = some ab ∧ ab.clonable = true ∧
      ∃ h' m', m.tryClone h = (h', some m') ∧ RelL h' ((dst, m') :: l) ((dst, a) :: l') (c + 1) d) ∨
    (∃ ab, a.content = some ab ∧ ab.clonable = false ∧ m.tryClone h = (h, none)) := by
  have hcr := hma.2
  have hhdr : m.header = a.header := hma.1
  cases hm : m.content with
  | none =>
    rw [hm] at hcr
    cases ha : a.content with
    | some ab => rw [ha] at hcr; exact hcr.elim
    | none =>
      left
      refine ⟨rfl, { header := m.header, content := none }, by simp [Msg.tryClone, hm], ?_⟩
      obtain ⟨hs, hh, hc, hd⟩ := hr
      refine ⟨.cons ⟨rfl, hhdr, by simp [ContentRel, ha]⟩ hs, by simpa [Msg.ptr] using hh, hc, hd⟩
  | some b =>
    rw [hm] at hcr
    cases ha : a.content with
    | none => rw [ha] at hcr; exact hcr.elim
    | some ab =>
      rw [ha] at hcr
      obtain ⟨p, bx, hd, hb, hlive, hty, hval, hvt, hcl, hlen⟩ := hcr
      right
      cases hc : ab.clonable with
      | false =>
        right
        exact ⟨ab, rfl, hc, by simp [Msg.tryClone, hm, Body.tryClone, hcl, hc]⟩
      | true =>
        left
        refine ⟨ab, rfl, hc, (h.alloc b.vt.ty bx.val).1,
          { header := m.header, content := some { data := some h.boxes.length, length := b.length, vt := b.vt } }, ?_, ?_⟩
        · simp [Msg.tryClone, hm, Body.tryClone, hcl, hc, hd, read_eq hb hlive (hty.trans hvt.symm)]
        · have := hr.allocPush dst m.header b.vt.ty bx.val b.length b.vt rfl
          have hA : a = { header := m.header, content := some { ty := b.vt.ty, val := bx.val, len := b.length, clonable := b.vt.clonable } } := by
            cases a; cases ab; simp_all
          rw [← hA] at this
          exact this

end MB

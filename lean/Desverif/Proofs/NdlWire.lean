/-
C18, instantiation vs. denotation, connections: the interleaved creation-and-wiring of
`instNode` yields the very world `Spec.worldOf` describes (create all modules, then apply all
connection requests) — same modules, same gates, same connection slots, same channel metrics.

Frame argument: a connection request only looks at, and only changes, modules that already exist
(found by path); module paths are pairwise distinct in every successful run (`raw_ndl` asserts it);
so running the request in a world extended by later, still untouched modules gives the same
result with those modules appended.
-/
import Desverif.Proofs.NdlInst
namespace Ndl

def paths (w : World) : List Str := w.map (·.path)

theorem paths_append (a b : World) : paths (a ++ b) = paths a ++ paths b := by simp [paths]

theorem paths_of_sig {w w' : World} (h : w'.map ModInst.sig = w.map ModInst.sig) : paths w' = paths w := by
  have := congrArg (List.map (·.1)) h
  rw [List.map_map, List.map_map] at this
  exact this

theorem paths_fresh (l : List (Str × Str × List FieldDef)) : paths (l.map Spec.fresh) = l.map (·.1) := by
  simp [paths, List.map_map, Function.comp, Spec.fresh]

theorem sig_paths (l : List (Str × Str × List FieldDef)) :
    (l.map denotedSig).map (·.1) = l.map (·.1) := by
  simp [List.map_map, Function.comp, denotedSig]

/-- paths after a run that added the modules `l` -/
theorem paths_of_added {w w' : World} {l : List (Str × Str × List FieldDef)}
    (h : w'.map ModInst.sig = w.map ModInst.sig ++ l.map denotedSig) :
    paths w' = paths (w ++ l.map Spec.fresh) := by
  have := congrArg (List.map (·.1)) h
  rw [List.map_append, List.map_map, List.map_map, List.map_map] at this
  rw [paths_append, paths_fresh]
  exact this

/-! ### lookups in an extended world -/

theorem find_mem_paths {w : World} {p : Str} {m : ModInst} (h : w.find p = some m) : p ∈ paths w := by
  unfold World.find at h
  have hm := List.mem_of_find?_eq_some h
  have hp := List.find?_some h
  simp only [decide_eq_true_eq] at hp
  exact List.mem_map.2 ⟨m, hm, hp⟩

theorem find_none_not_mem {w : World} {p : Str} (h : w.find p = none) : p ∉ paths w := by
  unfold World.find at h
  intro hm
  obtain ⟨m, hm, hp⟩ := List.mem_map.1 hm
  have := List.find?_eq_none.1 h m hm
  simp only [decide_eq_true_eq] at this
  exact this hp

theorem find_append {w : World} {p : Str} {m : ModInst} (rest : World) (h : w.find p = some m) :
    (w ++ rest).find p = some m := by
  unfold World.find at h ⊢
  rw [List.find?_append, h]
  rfl

theorem modify_frame (w rest : World) (p : Str) (f : ModInst → ModInst) (h : p ∉ paths rest) :
    World.modify (w ++ rest) p f = World.modify w p f ++ rest := by
  unfold World.modify
  rw [List.map_append]
  congr 1
  have : ∀ (l : World), (∀ m ∈ l, m.path ≠ p) →
      l.map (fun m => if m.path = p then f m else m) = l := by
    intro l
    induction l with
    | nil => intro _; rfl
    | cons x l ih =>
      intro hl
      simp only [List.map_cons]
      rw [if_neg (hl x (List.mem_cons_self ..)), ih fun m hm => hl m (List.mem_cons_of_mem _ hm)]
  apply this
  intro m hm hp
  exact h (List.mem_map.2 ⟨m, hm, hp⟩)

theorem pushSlot_frame (w rest : World) (r : Str × Nat) (s : Slot) (h : r.1 ∉ paths rest) :
    World.pushSlot (w ++ rest) r s = World.pushSlot w r s ++ rest := by
  unfold World.pushSlot
  exact modify_frame w rest r.1 _ h

theorem gate_some_find {w : World} {r : Str × Nat} {g : GateInst} (h : w.gate r = some g) :
    ∃ m, w.find r.1 = some m := by
  unfold World.gate at h
  cases hf : w.find r.1 with
  | none => rw [hf] at h; cases h
  | some m => exact ⟨m, rfl⟩

theorem gate_frame {w : World} {r : Str × Nat} {g : GateInst} (rest : World) (h : w.gate r = some g) :
    (w ++ rest).gate r = some g := by
  obtain ⟨m, hm⟩ := gate_some_find h
  unfold World.gate at h ⊢
  rw [find_append rest hm]
  rw [hm] at h
  exact h

/-- `connect` in a world extended by modules at other paths -/
theorem connect_frame {w w' : World} {a b : Str × Nat} {ch : Option Metrics} (rest : World)
    (h : connect w a b ch = .ok w') (ha : a.1 ∉ paths rest) (hb : b.1 ∉ paths rest) :
    connect (w ++ rest) a b ch = .ok (w' ++ rest) := by
  unfold connect at h ⊢
  split at h
  · cases h
  · next hne =>
    rw [if_neg hne]
    cases hga : w.gate a with
    | none => rw [hga] at h; cases h
    | some ga =>
      cases hgb : w.gate b with
      | none => rw [hga, hgb] at h; cases h
      | some gb =>
        rw [hga, hgb] at h
        rw [gate_frame rest hga, gate_frame rest hgb]
        simp only [] at h ⊢
        split at h
        · next hany =>
          rw [if_pos hany]
          cases h; rfl
        · next hany =>
          rw [if_neg hany]
          split at h
          · next hlen =>
            rw [if_pos hlen]
            cases h
            rw [pushSlot_frame w rest a _ ha, pushSlot_frame _ rest b _ hb]
          · cases h

theorem connect_paths {w w' : World} {a b : Str × Nat} {ch : Option Metrics}
    (h : connect w a b ch = .ok w') : paths w' = paths w := paths_of_sig (connect_sig h)

/-- the endpoints of a successful `connect` exist -/
theorem connect_mem {w w' : World} {a b : Str × Nat} {ch : Option Metrics}
    (h : connect w a b ch = .ok w') : a.1 ∈ paths w ∧ b.1 ∈ paths w := by
  unfold connect at h
  split at h
  · cases h
  · cases hga : w.gate a with
    | none => rw [hga] at h; cases h
    | some ga =>
      cases hgb : w.gate b with
      | none => rw [hga, hgb] at h; cases h
      | some gb =>
        obtain ⟨m, hm⟩ := gate_some_find hga
        obtain ⟨m', hm'⟩ := gate_some_find hgb
        exact ⟨find_mem_paths hm, find_mem_paths hm'⟩

/-! ### `access_gate` and the denotation's `gateAt` -/

theorem gateAt_cons2 (w : World) (path : Str) (a b : Accessor) (r : List Accessor) :
    Spec.gateAt w path (a :: b :: r) = Spec.gateAt w (joinPath path a.asName) (b :: r) := by
  simp [Spec.gateAt, List.getLast?_cons_cons, List.dropLast]

theorem accessGate_gateAt (w : World) : ∀ (acc : List Accessor) (path : Str) (r : Str × Nat),
    accessGate w path acc = .ok r → Spec.gateAt w path acc = .ok r
  | [], path, r, h => by
    unfold accessGate at h
    cases h
  | [a], path, r, h => by
    unfold accessGate at h
    simp only [Spec.gateAt, List.getLast?_singleton, List.dropLast_singleton, List.foldl_nil]
    cases hf : w.find path with
    | none => rw [hf] at h; cases h
    | some m =>
      rw [hf] at h
      simp only [] at h ⊢
      cases hi : List.findIdx? (fun g => decide (g.name = a.name) && g.pos == a.index.getD 0) m.gates with
      | none => rw [hi] at h; cases h
      | some i => rw [hi] at h; exact h
  | a :: b :: r', path, r, h => by
    unfold accessGate at h
    rw [gateAt_cons2]
    cases hf : w.find (joinPath path a.asName) with
    | none => rw [hf] at h; cases h
    | some m =>
      rw [hf] at h
      exact accessGate_gateAt w (b :: r') _ r h

theorem gateAt_frame {w : World} {path : Str} {acc : List Accessor} {r : Str × Nat} (rest : World)
    (h : Spec.gateAt w path acc = .ok r) :
    Spec.gateAt (w ++ rest) path acc = .ok r ∧ r.1 ∈ paths w := by
  unfold Spec.gateAt at h ⊢
  cases hl : acc.getLast? with
  | none => rw [hl] at h; cases h
  | some g =>
    rw [hl] at h
    simp only [] at h ⊢
    cases hf : w.find (acc.dropLast.foldl (fun p a => joinPath p a.asName) path) with
    | none => rw [hf] at h; cases h
    | some m =>
      rw [hf] at h
      rw [find_append rest hf]
      simp only [] at h ⊢
      refine ⟨h, ?_⟩
      split at h
      · cases h
      · cases h
        exact find_mem_paths hf

/-! ### wiring in an extended world -/

theorem not_mem_right_of_nodup {a b : List Str} (h : (a ++ b).Nodup) {x : Str} (hx : x ∈ a) : x ∉ b := by
  intro hb
  have := List.nodup_append.1 h
  exact this.2.2 x hx x hb rfl

/-- the module's own connection loop, seen from the all-modules-first world -/
theorem connectAll_frame (path : Str) : ∀ (cs : List Conn) (w w' rest : World) (k : List (Str × Conn)),
    connectAll path cs w = .ok w' → (paths (w ++ rest)).Nodup →
    Spec.wire (cs.map (fun c => (path, c)) ++ k) (w ++ rest) = Spec.wire k (w' ++ rest)
  | [], w, w', rest, k, h, _ => by
    unfold connectAll at h
    cases h
    rfl
  | c :: cs, w, w', rest, k, h, hnd => by
    unfold connectAll at h
    obtain ⟨a, ha, h⟩ := bind_ok h
    obtain ⟨b, hb, h⟩ := bind_ok h
    obtain ⟨ch, hch, h⟩ := bind_ok h
    obtain ⟨w1, h1, h⟩ := bind_ok h
    obtain ⟨hA, hAm⟩ := gateAt_frame rest (accessGate_gateAt w _ _ _ ha)
    obtain ⟨hB, hBm⟩ := gateAt_frame rest (accessGate_gateAt w _ _ _ hb)
    rw [paths_append] at hnd
    have hc := connect_frame rest h1 (not_mem_right_of_nodup hnd hAm) (not_mem_right_of_nodup hnd hBm)
    have hnd1 : (paths (w1 ++ rest)).Nodup := by
      rw [paths_append, connect_paths h1]; exact hnd
    have ih := connectAll_frame path cs w1 w' rest k h hnd1
    simp only [List.map_cons, List.cons_append]
    rw [Spec.wire, hA, hB, hch]
    show (connect (w ++ rest) a b ch >>= fun w => Spec.wire (cs.map (fun c => (path, c)) ++ k) w) = _
    rw [hc]
    exact ih

/-! ### registered symbols and distinct paths of a successful run -/

theorem foldl_names_reg (reg : Str → Bool) (path : Str) (n : Node)
    (ih : ∀ (p : Str) (w w' : World), instNode reg p n w = .ok w' → ∀ m ∈ Spec.modsOf p n, reg m.2.1 = true) :
    ∀ (names : List Str) (w w' : World),
      names.foldlM (fun w nm => instNode reg (joinPath path nm) n w) w = .ok w' →
      ∀ m ∈ names.flatMap (fun nm => Spec.modsOf (joinPath path nm) n), reg m.2.1 = true
  | [], _, _, _, m, hm => by cases hm
  | nm :: r, w, w', h, m, hm => by
    simp only [List.foldlM_cons] at h
    obtain ⟨w1, h1, h⟩ := bind_ok h
    simp only [List.flatMap_cons, List.mem_append] at hm
    rcases hm with hm | hm
    · exact ih _ w w1 h1 m hm
    · exact foldl_names_reg reg path n ih r w1 w' h m hm

mutual
theorem instNode_reg (reg : Str → Bool) : ∀ (n : Node) (path : Str) (w w' : World),
    instNode reg path n w = .ok w' → ∀ m ∈ Spec.modsOf path n, reg m.2.1 = true
  | .mk typ subs gates conns, path, w, w', h, m, hm => by
    rw [instNode] at h
    split at h
    · cases h
    · split at h
      · cases h
      · next hreg =>
        obtain ⟨w1, h1, h⟩ := bind_ok h
        simp only [Spec.modsOf, List.mem_cons] at hm
        rcases hm with rfl | hm
        · simpa using hreg
        · exact instSubs_reg reg subs path _ w1 h1 m hm
theorem instSubs_reg (reg : Str → Bool) : ∀ (subs : List (FieldDef × Node)) (path : Str) (w w' : World),
    instSubs reg path subs w = .ok w' → ∀ m ∈ Spec.modsOfSubs path subs, reg m.2.1 = true
  | [], _, _, _, _, m, hm => by
    simp only [Spec.modsOfSubs] at hm
    cases hm
  | (f, n) :: r, path, w, w', h, m, hm => by
    rw [instSubs] at h
    obtain ⟨w1, h1, h⟩ := bind_ok h
    simp only [Spec.modsOfSubs, List.mem_append] at hm
    rcases hm with hm | hm
    · exact foldl_names_reg reg path n (fun p a b hab => instNode_reg reg n p a b hab) _ w w1 h1 m hm
    · exact instSubs_reg reg r path w1 w' h m hm
end

theorem foldl_names_nodup (reg : Str → Bool) (path : Str) (n : Node)
    (ih : ∀ (p : Str) (w w' : World), instNode reg p n w = .ok w' → (paths w).Nodup → (paths w').Nodup) :
    ∀ (names : List Str) (w w' : World),
      names.foldlM (fun w nm => instNode reg (joinPath path nm) n w) w = .ok w' →
      (paths w).Nodup → (paths w').Nodup
  | [], w, w', h, hn => by
    simp only [List.foldlM_nil] at h
    cases h
    exact hn
  | nm :: r, w, w', h, hn => by
    simp only [List.foldlM_cons] at h
    obtain ⟨w1, h1, h⟩ := bind_ok h
    exact foldl_names_nodup reg path n ih r w1 w' h (ih _ w w1 h1 hn)

mutual
theorem instNode_nodup (reg : Str → Bool) : ∀ (n : Node) (path : Str) (w w' : World),
    instNode reg path n w = .ok w' → (paths w).Nodup → (paths w').Nodup
  | .mk typ subs gates conns, path, w, w', h, hn => by
    rw [instNode] at h
    split at h
    · cases h
    · next hfresh =>
      split at h
      · cases h
      · obtain ⟨w1, h1, h⟩ := bind_ok h
        have hnone : w.find path = none := by
          cases hf : w.find path with
          | none => rfl
          | some m => rw [hf] at hfresh; simp at hfresh
        have h0 : (paths (w ++ [⟨path, typ, gates.flatMap mkCluster⟩])).Nodup := by
          rw [paths_append]
          refine List.nodup_append.2 ⟨hn, by simp [paths], ?_⟩
          intro a ha b hb
          simp only [paths, List.map_cons, List.map_nil, List.mem_singleton] at hb
          subst hb
          intro e
          subst e
          exact find_none_not_mem hnone ha
        have hs := instSubs_nodup reg subs path _ w1 h1 h0
        rw [paths_of_sig (connectAll_sig path conns w1 w' h)]
        exact hs
theorem instSubs_nodup (reg : Str → Bool) : ∀ (subs : List (FieldDef × Node)) (path : Str) (w w' : World),
    instSubs reg path subs w = .ok w' → (paths w).Nodup → (paths w').Nodup
  | [], _, w, w', h, hn => by
    rw [instSubs] at h
    cases h
    exact hn
  | (f, n) :: r, path, w, w', h, hn => by
    rw [instSubs] at h
    obtain ⟨w1, h1, h⟩ := bind_ok h
    have h1' := foldl_names_nodup reg path n (fun p a b hab => instNode_nodup reg n p a b hab) _ w w1 h1 hn
    exact instSubs_nodup reg r path w1 w' h h1'
end

/-! ### the simulation: interleaved run = create everything, then wire everything -/

theorem foldl_names_wire (reg : Str → Bool) (path : Str) (n : Node)
    (ih : ∀ (p : Str) (w w' rest : World) (k : List (Str × Conn)), instNode reg p n w = .ok w' →
      (paths (w ++ ((Spec.modsOf p n).map Spec.fresh ++ rest))).Nodup →
      Spec.wire (Spec.reqsOf p n ++ k) (w ++ ((Spec.modsOf p n).map Spec.fresh ++ rest)) =
        Spec.wire k (w' ++ rest)) :
    ∀ (names : List Str) (w w' rest : World) (k : List (Str × Conn)),
      names.foldlM (fun w nm => instNode reg (joinPath path nm) n w) w = .ok w' →
      (paths (w ++ ((names.flatMap fun nm => Spec.modsOf (joinPath path nm) n).map Spec.fresh ++ rest))).Nodup →
      Spec.wire ((names.flatMap fun nm => Spec.reqsOf (joinPath path nm) n) ++ k)
          (w ++ ((names.flatMap fun nm => Spec.modsOf (joinPath path nm) n).map Spec.fresh ++ rest)) =
        Spec.wire k (w' ++ rest)
  | [], w, w', rest, k, h, _ => by
    simp only [List.foldlM_nil] at h
    cases h
    simp
  | nm :: r, w, w', rest, k, h, hnd => by
    simp only [List.foldlM_cons] at h
    obtain ⟨w1, h1, h⟩ := bind_ok h
    simp only [List.flatMap_cons, List.map_append, List.append_assoc] at hnd ⊢
    rw [ih _ w w1 _ _ h1 hnd]
    refine foldl_names_wire reg path n ih r w1 w' rest k h ?_
    have hp := paths_of_added (instNode_sig reg n _ w w1 h1)
    rw [paths_append] at hnd ⊢
    rw [hp, paths_append]
    simpa [paths_append, List.append_assoc] using hnd

mutual
theorem instNode_wire (reg : Str → Bool) : ∀ (n : Node) (path : Str) (w w' rest : World)
    (k : List (Str × Conn)), instNode reg path n w = .ok w' →
    (paths (w ++ ((Spec.modsOf path n).map Spec.fresh ++ rest))).Nodup →
    Spec.wire (Spec.reqsOf path n ++ k) (w ++ ((Spec.modsOf path n).map Spec.fresh ++ rest)) =
      Spec.wire k (w' ++ rest)
  | .mk typ subs gates conns, path, w, w', rest, k, h, hnd => by
    rw [instNode] at h
    split at h
    · cases h
    · split at h
      · cases h
      · obtain ⟨w1, h1, h⟩ := bind_ok h
        simp only [Spec.modsOf, Spec.reqsOf, List.map_cons, List.append_assoc, List.cons_append] at hnd ⊢
        have e : w ++ (Spec.fresh (path, typ, gates) :: ((Spec.modsOfSubs path subs).map Spec.fresh ++ rest)) =
            (w ++ [⟨path, typ, gates.flatMap mkCluster⟩]) ++ ((Spec.modsOfSubs path subs).map Spec.fresh ++ rest) := by
          simp [Spec.fresh]
        rw [e] at hnd ⊢
        rw [instSubs_wire reg subs path _ w1 rest _ h1 hnd]
        refine connectAll_frame path conns w1 w' rest k h ?_
        have hp := paths_of_added (instSubs_sig reg subs path _ w1 h1)
        rw [paths_append] at hnd ⊢
        rw [hp, paths_append]
        simpa [paths_append, List.append_assoc] using hnd
theorem instSubs_wire (reg : Str → Bool) : ∀ (subs : List (FieldDef × Node)) (path : Str)
    (w w' rest : World) (k : List (Str × Conn)), instSubs reg path subs w = .ok w' →
    (paths (w ++ ((Spec.modsOfSubs path subs).map Spec.fresh ++ rest))).Nodup →
    Spec.wire (Spec.reqsOfSubs path subs ++ k) (w ++ ((Spec.modsOfSubs path subs).map Spec.fresh ++ rest)) =
      Spec.wire k (w' ++ rest)
  | [], path, w, w', rest, k, h, _ => by
    rw [instSubs] at h
    cases h
    simp [Spec.modsOfSubs, Spec.reqsOfSubs]
  | (f, n) :: r, path, w, w', rest, k, h, hnd => by
    rw [instSubs] at h
    obtain ⟨w1, h1, h⟩ := bind_ok h
    simp only [Spec.modsOfSubs, Spec.reqsOfSubs, List.map_append, List.append_assoc] at hnd ⊢
    rw [foldl_names_wire reg path n (fun p a b c d hab hn => instNode_wire reg n p a b c d hab hn) _ w w1 _ _ h1 hnd]
    refine instSubs_wire reg r path w1 w' rest k h ?_
    have hp := paths_of_added (foldl_names_sig reg path n (fun p a b hab => instNode_sig reg n p a b hab) _ w w1 h1)
    rw [paths_append] at hnd ⊢
    rw [hp, paths_append]
    simpa [paths_append, List.append_assoc] using hnd
end

theorem allDistinct_of_nodup : ∀ (l : List Str), l.Nodup → Spec.allDistinct l = true
  | [], _ => rfl
  | a :: l, h => by
    have := List.nodup_cons.1 h
    simp only [Spec.allDistinct, Bool.and_eq_true, Bool.not_eq_true', allDistinct_of_nodup l this.2, and_true]
    simpa using this.1

/-- **instantiate = denotation of the tree**, as whole worlds -/
theorem instantiate_worldOf (reg : Str → Bool) (n : Node) (w : World)
    (h : instantiate reg n = .ok w) : Spec.worldOf reg n = .ok w := by
  unfold instantiate at h
  have hsig := instNode_sig reg n [] [] w h
  have hnd : (paths w).Nodup := instNode_nodup reg n [] [] w h (by simp [paths])
  have hp : paths w = (Spec.modsOf [] n).map (·.1) := by
    have := paths_of_added hsig
    rw [List.nil_append, paths_fresh] at this
    exact this
  unfold Spec.worldOf
  rw [← hp, allDistinct_of_nodup _ hnd]
  simp only [Bool.not_true, Bool.false_eq_true, if_false]
  have hreg : (Spec.modsOf [] n).find? (fun m => !reg m.2.1) = none := by
    apply List.find?_eq_none.2
    intro m hm
    simp [instNode_reg reg n [] [] w h m hm]
  rw [hreg]
  have hw := instNode_wire reg n [] [] w [] [] h (by
    rw [List.nil_append, List.append_nil, paths_fresh, ← hp]; exact hnd)
  simpa [Spec.wire] using hw

end Ndl

/-
Node ↔ event invariant of the queue-with-memory model `CQMem`: one live allocator block per
bucket-resident event plus two sentinels per bucket; preserved by add / cancel / fetch / peek.
-/
import Desverif.Proofs.CQMemKeys
import Desverif.Proofs.CQMemQueue
namespace CQMem
open CQRun Alloc
open CQ (Ev)
open FES (eraseId)

/-- ids of the bucket-resident events -/
def bids (m : CQ.State) : List Nat := m.buckets.flatten.map (·.id)

structure NodesOk (orc : Nat → Nat) (P : Nat) (m : CQ.State) (st : State) : Prop where
  k : KInv orc P st.a
  fits : Fits P st.nsize st.nlog
  idsNodup : (st.nodes.map (·.1)).Nodup
  ids : ∀ i, i ∈ st.nodes.map (·.1) ↔ i ∈ bids m
  keysNodup : (st.nodes.map (·.2) ++ sentKeys st.sent).Nodup
  keys : ∀ x, x ∈ st.a.live.map (·.key) ↔ (x ∈ st.nodes.map (·.2) ∨ x ∈ sentKeys st.sent)
  sentLen : st.sent.length = m.n
  layout : ∀ e ∈ st.a.live, e.lsize = st.nsize ∧ e.lalign = 2 ^ st.nlog

structure NInv (orc : Nat → Nat) (P : Nat) (st : State) (ss : FES.State × Handles) : Prop where
  rr : RR st.q ss
  nodes : NodesOk orc P st.q.1 st

/-! ### list facts about `eraseId` -/

theorem erase_len_eq {l : List Ev} {id : Nat} (h : (eraseId l id).length = l.length) :
    eraseId l id = l := by
  unfold eraseId at *
  exact List.filter_eq_self.mpr (List.length_filter_eq_length_iff.mp h)

theorem erase_lt {l : List Ev} {id : Nat} (h : (eraseId l id).length < l.length) :
    ∃ e ∈ l, e.id = id := by
  apply Classical.byContradiction
  intro hno
  have : eraseId l id = l := CQ.eraseId_eq_self (fun x hx hid => hno ⟨x, hx, hid⟩)
  rw [this] at h; omega

theorem erase_ids {l : List Ev} {id i : Nat} :
    i ∈ (eraseId l id).map (·.id) ↔ (i ∈ l.map (·.id) ∧ i ≠ id) := by
  unfold eraseId
  simp only [List.mem_map, List.mem_filter, decide_eq_true_eq]
  constructor
  · rintro ⟨e, ⟨he, hne⟩, rfl⟩; exact ⟨⟨e, he, rfl⟩, hne⟩
  · rintro ⟨⟨e, he, rfl⟩, hne⟩; exact ⟨e, ⟨he, hne⟩, rfl⟩

theorem mem_erase_lt {l : List Ev} {e : Ev} (he : e ∈ l) : (eraseId l e.id).length < l.length := by
  have hle : (eraseId l e.id).length ≤ l.length := by unfold eraseId; exact List.length_filter_le _ _
  rcases Nat.lt_or_ge (eraseId l e.id).length l.length with h | h
  · exact h
  · have := erase_len_eq (Nat.le_antisymm hle h)
    unfold eraseId at this
    have := (List.filter_eq_self.mp this) e he
    simp at this

theorem erase_len_le (l : List Ev) (id : Nat) : (eraseId l id).length ≤ l.length := by
  unfold eraseId; exact List.length_filter_le _ _

/-! ### the queue parameters never change -/

theorem add_n {m m' : CQ.State} {time val id : Nat} (h : CQ.add m time val = .ok (m', id)) :
    m'.n = m.n := by
  unfold CQ.add at h
  split at h
  · cases h
  · split at h
    · simp only [Except.ok.injEq, Prod.mk.injEq] at h; rw [← h.1]
    · simp only [Except.ok.injEq, Prod.mk.injEq] at h; rw [← h.1]

theorem cancel_n (m : CQ.State) (id time : Nat) : (CQ.cancel m id time).n = m.n := by
  unfold CQ.cancel
  split
  · rfl
  · split
    · rfl
    · simp only
      split
      · rfl
      · split <;> rfl

theorem scan_n : ∀ (fuel : Nat) (s : CQ.State) {e s'}, CQ.scan fuel s = .ok (e, s') → s'.n = s.n := by
  intro fuel
  induction fuel with
  | zero => intro s e s' h; simp [CQ.scan] at h
  | succ fuel ih =>
    intro s e s' h
    unfold CQ.scan at h
    split at h
    · cases h
    · exact (ih _ h).trans rfl
    · split at h
      · exact (ih _ h).trans rfl
      · simp only [Except.ok.injEq, Prod.mk.injEq] at h
        rw [← h.2]; rfl

theorem fetch_n {m m' : CQ.State} {e : Ev} (h : CQ.fetch m = .ok (e, m')) : m'.n = m.n := by
  unfold CQ.fetch at h
  split at h
  · cases h
  · split at h
    · simp only [Except.ok.injEq, Prod.mk.injEq] at h; rw [← h.2]
    · exact scan_n _ _ h

/-! ### node bookkeeping -/

theorem same_events {orc P m st} (h : NodesOk orc P m st) {m' : CQ.State} (hn : m'.n = m.n)
    (hb : ∀ i, i ∈ bids m' ↔ i ∈ bids m) (q' : CQ.State × Handles) :
    NodesOk orc P m' { st with q := q' } :=
  ⟨h.k, h.fits, h.idsNodup, fun i => (h.ids i).trans (hb i).symm, h.keysNodup, h.keys,
    h.sentLen.trans hn.symm, h.layout⟩

theorem remove_event {orc P m st} (ho : OracleOk orc P) (hp : PageOk P) (h : NodesOk orc P m st)
    {m' : CQ.State} (hn : m'.n = m.n) {id : Nat} (hin : id ∈ bids m)
    (hb : ∀ i, i ∈ bids m' ↔ (i ∈ bids m ∧ i ≠ id)) (q' : CQ.State × Handles) :
    ∃ st'' evs, freeNodeOf orc { st with q := q' } id = (st'', evs, true) ∧ st''.q = q' ∧
      NodesOk orc P m' st'' := by
  obtain ⟨key, hlk, hmem⟩ := lookup_of_mem_fst h.idsNodup ((h.ids id).mpr hin)
  have hkeyNodes : key ∈ st.nodes.map (·.2) := List.mem_map.mpr ⟨(id, key), hmem, rfl⟩
  have hkeyLive : key ∈ st.a.live.map (·.key) := (h.keys key).mpr (Or.inl hkeyNodes)
  obtain ⟨f1, f2, f3, f4, f5⟩ := freeKeys_all ho hp [key] st.a h.k (by simp) (by simpa using hkeyLive)
  rcases hfk : freeKeys orc st.a [key] with ⟨a', evs, ok⟩
  rw [hfk] at f1 f2 f3 f4 f5
  simp only at f1 f2 f3 f4 f5
  subst f1
  have hfree : freeNodeOf orc { st with q := q' } id =
      ({ st with q := q', a := a', nodes := st.nodes.filter (·.1 ≠ id) }, evs, true) := by
    simp [freeNodeOf, hlk, hfk]
  have hsndNodup : (st.nodes.map (·.2)).Nodup := (List.nodup_append.mp h.keysNodup).1
  refine ⟨_, evs, hfree, rfl, ⟨f2, h.fits, ?_, ?_, ?_, ?_, h.sentLen.trans hn.symm, ?_⟩⟩
  · exact ((List.filter_sublist).map _).nodup h.idsNodup
  · intro i
    rw [hb i, ← h.ids i]
    simp only [List.mem_map, List.mem_filter, decide_eq_true_eq]
    constructor
    · rintro ⟨p, ⟨hp1, hp2⟩, rfl⟩; exact ⟨⟨p, hp1, rfl⟩, hp2⟩
    · rintro ⟨⟨p, hp1, rfl⟩, hp2⟩; exact ⟨p, ⟨hp1, hp2⟩, rfl⟩
  · exact (((List.filter_sublist).map _).append (List.Sublist.refl _)).nodup h.keysNodup
  · intro x
    rw [f3 x, h.keys x]
    simp only [List.mem_singleton, List.mem_map, List.mem_filter, decide_eq_true_eq]
    constructor
    · rintro ⟨hx, hne⟩
      rcases hx with ⟨p, hp1, rfl⟩ | hx
      · left
        refine ⟨p, ⟨hp1, ?_⟩, rfl⟩
        intro hpid
        apply hne
        have : p = (id, key) := eq_of_nodup_map h.idsNodup hp1 hmem hpid
        rw [this]
      · exact Or.inr hx
    · rintro (⟨p, ⟨hp1, hp2⟩, rfl⟩ | hx)
      · refine ⟨Or.inl ⟨p, hp1, rfl⟩, ?_⟩
        intro hpk
        apply hp2
        have : p = (id, key) := eq_of_nodup_map hsndNodup hp1 hmem hpk
        rw [this]
      · refine ⟨Or.inr hx, ?_⟩
        intro hxk; subst hxk
        exact (List.nodup_append.mp h.keysNodup).2.2 _ hkeyNodes _ hx rfl
  · intro e he
    exact h.layout e (f4.subset he)

theorem add_event {orc P m st} (ho : OracleOk orc P) (hp : PageOk P) (h : NodesOk orc P m st)
    {m' : CQ.State} (hn : m'.n = m.n) {id : Nat} (hnin : id ∉ bids m)
    (hb : ∀ i, i ∈ bids m' ↔ (i ∈ bids m ∨ i = id)) (q' : CQ.State × Handles) :
    ∃ a' addr evs, allocNode orc st.a st.nsize st.nlog = (a', .allocated addr, evs) ∧
      NodesOk orc P m' { st with q := q', a := a', nodes := (id, st.a.next) :: st.nodes } := by
  obtain ⟨s', addr, hstep, hk'⟩ := alloc_step_ok ho hp h.k h.fits
  have hse := stepEv_step orc st.a (.alloc st.nsize st.nlog)
  rw [hstep] at hse
  rcases hev : stepEv orc st.a (.alloc st.nsize st.nlog) with ⟨a1, o1, ev1⟩
  rw [hev] at hse
  simp only at hse
  obtain ⟨rfl, rfl⟩ := hse
  have hnextNotLive : st.a.next ∉ st.a.live.map (·.key) := by
    intro hm
    obtain ⟨e, he, hk⟩ := List.mem_map.mp hm
    have := h.k.r.keys e he
    omega
  refine ⟨_, addr, ev1, hev, ⟨hk', h.fits, ?_, ?_, ?_, ?_, h.sentLen.trans hn.symm, ?_⟩⟩
  · simp only [List.map_cons, List.nodup_cons]
    exact ⟨fun hm => hnin ((h.ids id).mp hm), h.idsNodup⟩
  · intro i
    rw [hb i, ← h.ids i]
    simp only [List.map_cons, List.mem_cons]
    constructor
    · rintro (h1 | h1); exact Or.inr h1; exact Or.inl h1
    · rintro (h1 | h1); exact Or.inr h1; exact Or.inl h1
  · simp only [List.map_cons, List.cons_append, List.nodup_cons]
    refine ⟨?_, h.keysNodup⟩
    intro hm
    apply hnextNotLive
    exact (h.keys _).mpr (List.mem_append.mp hm)
  · intro x
    simp only [List.map_cons, List.mem_cons]
    rw [h.keys x]
    constructor
    · rintro (h1 | h1 | h1)
      · exact Or.inl (Or.inl h1)
      · exact Or.inl (Or.inr h1)
      · exact Or.inr h1
    · rintro ((h1 | h1) | h1)
      · exact Or.inl h1
      · exact Or.inr (Or.inl h1)
      · exact Or.inr (Or.inr h1)
  · intro e he
    rcases List.mem_cons.mp he with rfl | he
    · exact ⟨rfl, rfl⟩
    · exact h.layout e he

end CQMem

/-
Observed times: as long as every queue entry became runnable in the current instant, every observation is made
at the instant its awaited condition became true.  Also: polls never shrink the LocalSet queue, keep the phase,
and outside the LocalSet's own polls the `local_work` flag covers the LocalSet queue.
-/
import Desverif.Proofs.ExecQueue
namespace Exec

/-- the part of the state the invariants talk about (not: tasks, conditions, `Core::tick`) -/
def core (s : St) :
    Nat × List Entry × List Entry × List Entry × List Entry × List LogEntry × List Timer × Phase × Bool :=
  (s.now, s.rq, s.iq, s.lq, s.dq, s.log, s.timers, s.phase, s.lflag)

/-- every runnable / deferred task became runnable in the current instant - or was woken by another module's event
(origin `.foreign`: no event of this module was being processed) -, no observation so far was late with the same
exemption, every pending timer lies in the future -/
def Inv (s : St) : Prop :=
  (∀ e ∈ s.rq, e.origin = .foreign ∨ e.ready = s.now) ∧ (∀ e ∈ s.iq, e.origin = .foreign ∨ e.ready = s.now) ∧
  (∀ e ∈ s.lq, e.origin = .foreign ∨ e.ready = s.now) ∧ (∀ e ∈ s.dq, e.ready = s.now) ∧
  (∀ x ∈ s.log, x.origin = .foreign ∨ x.time = x.ready) ∧ (∀ tm ∈ s.timers, s.now < tm.deadline)

/-- no observation was made later than the instant at which the awaited condition became true, unless it became
true through another module's event -/
def OnTime (s : St) : Prop := ∀ x ∈ s.log, x.origin = .foreign ∨ x.time = x.ready

/-- the `local_work` flag covers the LocalSet queue -/
def FL (s : St) : Prop := s.lq = [] ∨ s.lflag = true

theorem core_inj {s s' : St} (h : core s' = core s) :
    s'.now = s.now ∧ s'.rq = s.rq ∧ s'.iq = s.iq ∧ s'.lq = s.lq ∧ s'.dq = s.dq ∧ s'.log = s.log ∧
    s'.timers = s.timers ∧ s'.phase = s.phase ∧ s'.lflag = s.lflag := by
  unfold core at h
  simpa only [Prod.mk.injEq] using h

theorem inv_of_core (s s' : St) (h : core s' = core s) (hi : Inv s) : Inv s' := by
  obtain ⟨h1, h2, h3, h4, h5, h6, h7, _, _⟩ := core_inj h
  unfold Inv
  rw [h1, h2, h3, h4, h5, h6, h7]
  exact hi

/-- `Inv` does not look at the phase or the flag -/
theorem inv_of_icore (s s' : St)
    (h : (s'.now, s'.rq, s'.iq, s'.lq, s'.dq, s'.log, s'.timers) = (s.now, s.rq, s.iq, s.lq, s.dq, s.log, s.timers))
    (hi : Inv s) : Inv s' := by
  simp only [Prod.mk.injEq] at h
  obtain ⟨h1, h2, h3, h4, h5, h6, h7⟩ := h
  unfold Inv
  rw [h1, h2, h3, h4, h5, h6, h7]
  exact hi

theorem now_of_core (s s' : St) (h : core s' = core s) : s'.now = s.now := (core_inj h).1

/-- `now` and the phase are unchanged, the local queue does not shrink, while the LocalSet is not being polled the
flag keeps covering its queue, and - provided `c` - `Inv` is kept -/
def Keeps (c : Prop) (s s' : St) : Prop :=
  (c → Inv s → Inv s') ∧ s'.now = s.now ∧ s.lq.length ≤ s'.lq.length ∧ s'.phase = s.phase ∧
  ((s.phase = .rtloop ∨ s.phase = .flush) → FL s → FL s')

theorem keeps_refl {c : Prop} (s : St) : Keeps c s s := ⟨fun _ h => h, rfl, Nat.le_refl _, rfl, fun _ h => h⟩

theorem keeps_trans {c : Prop} {a b d : St} (h1 : Keeps c a b) (h2 : Keeps c b d) : Keeps c a d :=
  ⟨fun hc h => h2.1 hc (h1.1 hc h), h2.2.1.trans h1.2.1, Nat.le_trans h1.2.2.1 h2.2.2.1,
    h2.2.2.2.1.trans h1.2.2.2.1,
    fun hp h => h2.2.2.2.2 (by rw [h1.2.2.2.1]; exact hp) (h1.2.2.2.2 hp h)⟩

theorem keeps_mono {c c' : Prop} {a b : St} (hc : c → c') (h : Keeps c' a b) : Keeps c a b :=
  ⟨fun x => h.1 (hc x), h.2⟩

theorem keeps_of_core {c : Prop} (s s' : St) (h : core s' = core s) : Keeps c s s' := by
  obtain ⟨h1, _, _, h4, _, _, _, h8, h9⟩ := core_inj h
  refine ⟨fun _ => inv_of_core s s' h, h1, by rw [h4]; exact Nat.le_refl _, h8, fun _ hf => ?_⟩
  unfold FL
  rw [h4, h9]
  exact hf

theorem keeps_pushEntry (s : St) (e : Entry) :
    Keeps (e.origin = .foreign ∨ e.ready = s.now) s (pushEntry s e) := by
  unfold pushEntry
  cases hk : e.kind
  · simp only
    split
    · refine ⟨?_, rfl, Nat.le_refl _, rfl, fun _ h => h⟩
      rintro he ⟨h1, h2, h3, h4, h5, h6⟩
      refine ⟨h1, ?_, h3, h4, h5, h6⟩
      intro x hx
      simp only [List.mem_append, List.mem_singleton] at hx
      rcases hx with hx | hx
      · exact h2 x hx
      · subst hx; exact he
    · refine ⟨?_, rfl, Nat.le_refl _, rfl, fun _ h => h⟩
      rintro he ⟨h1, h2, h3, h4, h5, h6⟩
      refine ⟨?_, h2, h3, h4, h5, h6⟩
      intro x hx
      simp only [List.mem_append, List.mem_singleton] at hx
      rcases hx with hx | hx
      · exact h1 x hx
      · subst hx; exact he
  · have hinv : ∀ (l : Bool), (e.origin = .foreign ∨ e.ready = s.now) → Inv s →
        Inv { s with lq := s.lq ++ [e], lflag := l } := by
      rintro l he ⟨h1, h2, h3, h4, h5, h6⟩
      refine ⟨h1, h2, ?_, h4, h5, h6⟩
      intro x hx
      simp only [List.mem_append, List.mem_singleton] at hx
      rcases hx with hx | hx
      · exact h3 x hx
      · subst hx; exact he
    simp only
    split
    · exact ⟨hinv true, rfl, by simp, rfl, fun _ _ => Or.inr rfl⟩
    · rename_i hp
      exact ⟨hinv s.lflag, rfl, by simp, rfl, fun hp' _ => absurd hp' hp⟩

theorem keeps_enqueue {c : Prop} (s : St) (k : Kind) (i : Nat) : Keeps c s (enqueue s k i) :=
  keeps_mono (c' := (⟨k, i, s.now, s.phase⟩ : Entry).origin = .foreign ∨ (⟨k, i, s.now, s.phase⟩ : Entry).ready = s.now)
    (fun _ => Or.inr rfl) (keeps_pushEntry s ⟨k, i, s.now, s.phase⟩)

theorem keeps_defer {c : Prop} (s : St) (k : Kind) (i : Nat) : Keeps c s (defer s k i) := by
  unfold defer
  refine ⟨?_, rfl, Nat.le_refl _, rfl, fun _ h => h⟩
  rintro _ ⟨h1, h2, h3, h4, h5, h6⟩
  refine ⟨h1, h2, h3, ?_, h5, h6⟩
  intro x hx
  simp only [List.mem_append, List.mem_singleton] at hx
  rcases hx with hx | hx
  · exact h4 x hx
  · subst hx; rfl

theorem keeps_logAt (s : St) (i rdy : Nat) (org : Phase) :
    Keeps (org = .foreign ∨ rdy = s.now) s (logAt s i rdy org) := by
  unfold logAt
  refine ⟨?_, rfl, Nat.le_refl _, rfl, fun _ h => h⟩
  rintro h ⟨h1, h2, h3, h4, h5, h6⟩
  refine ⟨h1, h2, h3, h4, ?_, h6⟩
  intro x hx
  simp only [List.mem_cons] at hx
  rcases hx with hx | hx
  · subst hx
    rcases h with h | h
    · exact Or.inl h
    · exact Or.inr h.symm
  · exact h5 x hx

theorem mem_insertTimer (tm x : Timer) : ∀ l : List Timer, x ∈ insertTimer tm l ↔ x = tm ∨ x ∈ l := by
  intro l
  induction l with
  | nil => simp [insertTimer]
  | cons a l ih =>
    simp only [insertTimer]
    split
    · simp only [List.mem_cons, ih]
      constructor
      · rintro (h | h | h)
        · exact Or.inr (Or.inl h)
        · exact Or.inl h
        · exact Or.inr (Or.inr h)
      · rintro (h | h | h)
        · exact Or.inr (Or.inl h)
        · exact Or.inl h
        · exact Or.inr (Or.inr h)
    · simp only [List.mem_cons]

/-- registering a timer whose deadline lies in the future -/
theorem keeps_addTimer {c : Prop} (s : St) (tm : Timer) (h : s.now < tm.deadline) : Keeps c s (addTimer s tm) := by
  unfold addTimer
  refine ⟨?_, rfl, Nat.le_refl _, rfl, fun _ h => h⟩
  rintro _ ⟨h1, h2, h3, h4, h5, h6⟩
  refine ⟨h1, h2, h3, h4, h5, ?_⟩
  intro x hx
  rcases (mem_insertTimer tm x s.timers).1 hx with hx | hx
  · subst hx; exact h
  · exact h6 x hx

theorem core_setProg (s : St) (i : Nat) (p : List Instr) : core (setProg s i p) = core s := by
  unfold setProg; split <;> rfl

theorem core_markPolled (s : St) (i : Nat) : core (markPolled s i) = core s := by
  unfold markPolled; split <;> rfl

theorem keeps_spawnTask {c : Prop} (s : St) (t : Nat) : Keeps c s (spawnTask s t) := by
  unfold spawnTask
  split
  · exact keeps_refl s
  · split
    · exact keeps_refl s
    · (refine keeps_trans ?_ (keeps_enqueue _ _ _); exact keeps_of_core s _ rfl)

theorem keeps_grant {c : Prop} (s : St) (wk : Kind) (wi : Nat) : Keeps c s (grant s wk wi) := by
  unfold grant
  split
  · exact keeps_enqueue _ _ _
  · split
    · exact keeps_of_core s _ rfl
    · (refine keeps_trans ?_ (keeps_enqueue _ _ _); exact keeps_of_core s _ rfl)

/-- dropping a `Sleep`: fewer pending timers -/
theorem keeps_removeTimer {c : Prop} (s : St) (tm : Timer) : Keeps c s (removeTimer s tm) := by
  unfold removeTimer
  refine ⟨?_, rfl, Nat.le_refl _, rfl, fun _ h => h⟩
  rintro _ ⟨h1, h2, h3, h4, h5, h6⟩
  exact ⟨h1, h2, h3, h4, h5, fun x hx => h6 x (List.mem_of_mem_erase hx)⟩

theorem keeps_removeWaiter {c : Prop} (s : St) (q : Nat) (w : Kind × Nat) : Keeps c s (removeWaiter s q w) := by
  unfold removeWaiter
  split
  · exact keeps_refl s
  · exact keeps_of_core s _ rfl

theorem keeps_wakeCond {c : Prop} (s : St) (k : Nat) : Keeps c s (wakeCond s k) := by
  unfold wakeCond
  split
  · exact keeps_refl s
  · split
    · exact keeps_of_core s _ rfl
    · (refine keeps_trans ?_ (keeps_grant _ _ _); exact keeps_of_core s _ rfl)

theorem keeps_grantAll {c : Prop} : ∀ (l : List (Kind × Nat)) (s : St), Keeps c s (grantAll l s) := by
  intro l
  induction l with
  | nil => intro s; exact keeps_refl s
  | cons a l ih =>
    intro s
    obtain ⟨wk, wi⟩ := a
    simp only [grantAll]
    exact keeps_trans (keeps_grant s wk wi) (ih _)

theorem keeps_wakeAll {c : Prop} (s : St) (k : Nat) : Keeps c s (wakeAll s k) := by
  unfold wakeAll
  split
  · exact keeps_refl s
  · (refine keeps_trans ?_ (keeps_grantAll _ _); exact keeps_of_core s _ rfl)

theorem keeps_finish {c : Prop} (s : St) (i : Nat) : Keeps c s (finish s i) := by
  unfold finish
  split
  · exact keeps_refl s
  · simp only
    split
    · exact keeps_of_core s _ rfl
    · (refine keeps_trans ?_ (keeps_enqueue _ _ _); exact keeps_of_core s _ rfl)

/-- a poll whose reason is the current instant (or a wake by another module's event) keeps the invariant -/
theorem keeps_runProg (k : Kind) (i : Nat) :
    ∀ (p : List Instr) (c rdy : Nat) (org : Phase) (s : St),
      Keeps (org = .foreign ∨ rdy = s.now) s (runProg k i p c rdy org s) := by
  intro p
  induction p with
  | nil => intro c rdy org s; exact keeps_finish s i
  | cons ins r ih =>
    intro c rdy org s
    have hsp : Keeps (org = .foreign ∨ rdy = s.now) s (setProg s i r) := keeps_of_core s _ (core_setProg s i r)
    -- consume the instruction, log, continue
    have hcont : ∀ (c' : Nat) (s1 : St), Keeps (org = .foreign ∨ rdy = s.now) s s1 →
        Keeps (org = .foreign ∨ rdy = s.now) s
          (runProg k i r c' s.now s.phase (logAt (setProg s1 i r) i rdy org)) := by
      intro c' s1 h0
      have h1 := keeps_trans h0 (keeps_of_core _ _ (core_setProg s1 i r))
      have h2 := keeps_trans h1
        (keeps_mono (fun hr => by rw [h1.2.1]; exact hr) (keeps_logAt (setProg s1 i r) i rdy org))
      exact keeps_trans h2 (keeps_mono (fun _ => Or.inr h2.2.1.symm) (ih c' s.now s.phase _))
    cases ins with
    | spawn t =>
      simp only [runProg]
      have h1 := keeps_trans hsp (keeps_spawnTask (setProg s i r) t)
      exact keeps_trans h1 (keeps_mono (fun hr => by rw [h1.2.1]; exact hr) (ih c rdy org _))
    | wake q =>
      simp only [runProg]
      have h1 := keeps_trans hsp (keeps_wakeCond (setProg s i r) q)
      exact keeps_trans h1 (keeps_mono (fun hr => by rw [h1.2.1]; exact hr) (ih c rdy org _))
    | notifyAll q =>
      simp only [runProg]
      have h1 := keeps_trans hsp (keeps_wakeAll (setProg s i r) q)
      exact keeps_trans h1 (keeps_mono (fun hr => by rw [h1.2.1]; exact hr) (ih c rdy org _))
    | yield =>
      simp only [runProg]
      (refine keeps_trans ?_ (keeps_defer _ _ _); exact keeps_of_core s _ (core_setProg s i _))
    | resume =>
      simp only [runProg]
      exact hcont c s (keeps_refl s)
    | wait q =>
      simp only [runProg]
      split
      · exact keeps_refl s
      · rename_i cd hc
        split
        · exact keeps_defer s k i
        · split
          · (refine keeps_trans ?_ (keeps_of_core _ _ (core_setProg _ i _)); exact keeps_of_core s _ rfl)
          · exact hcont _ _ (keeps_of_core s _ rfl)
    | waiting q =>
      simp only [runProg]
      generalize condCoop s q = coop
      split
      · exact keeps_refl s
      · split
        · exact keeps_defer s k i
        · split
          · exact hcont _ _ (keeps_of_core s _ rfl)
          · exact keeps_refl s
    | join t =>
      simp only [runProg]
      split
      · exact keeps_refl s
      · split
        · exact keeps_refl s
        · split
          · exact keeps_defer s k i
          · split
            · exact hcont _ s (keeps_refl s)
            · (refine keeps_trans ?_ (keeps_of_core _ _ (core_setProg _ i _)); exact keeps_of_core s _ rfl)
    | joining t =>
      simp only [runProg]
      split
      · exact keeps_refl s
      · split
        · exact keeps_defer s k i
        · split
          · exact hcont _ s (keeps_refl s)
          · exact keeps_refl s
    | waitT q d =>
      simp only [runProg]
      split
      · exact keeps_refl s
      · split
        · split
          · rename_i cd _ _ hlt
            have h0 : Keeps (org = Phase.foreign ∨ rdy = s.now) s
                { s with conds := s.conds.set q { cd with waiters := cd.waiters ++ [(k, i)] } } :=
              keeps_of_core s _ rfl
            have h1 := keeps_trans h0 (keeps_of_core _ _ (core_setProg _ i (.waitingT q (s.now + d) :: r)))
            refine keeps_trans h1 (keeps_addTimer _ _ ?_)
            rw [h1.2.1]; exact hlt
          · exact hcont c s (keeps_refl s)
        · exact hcont _ _ (keeps_of_core s _ rfl)
    | waitingT q t =>
      simp only [runProg]
      split
      · exact keeps_refl s
      · split
        · exact hcont _ _ (keeps_trans (keeps_of_core s _ rfl) (keeps_removeTimer _ _))
        · split
          · exact keeps_refl s
          · exact hcont _ _ (keeps_removeWaiter s q (k, i))
    | sleep d =>
      simp only [runProg]
      split
      · rename_i hlt
        exact keeps_trans (keeps_of_core s _ (core_setProg s i _)) (keeps_addTimer _ _ (by
          rw [now_of_core _ _ (core_setProg s i _)]; exact hlt))
      · exact hcont c s (keeps_refl s)
    | sleepUntil t =>
      simp only [runProg]
      split
      · rename_i hlt
        exact keeps_trans (keeps_of_core s _ (core_setProg s i _)) (keeps_addTimer _ _ (by
          rw [now_of_core _ _ (core_setProg s i _)]; exact hlt))
      · exact hcont c s (keeps_refl s)
    | sleeping t =>
      simp only [runProg]
      split
      · exact keeps_refl s
      · exact hcont c s (keeps_refl s)

theorem keeps_pollTask (P : Params) (e : Entry) (s : St) :
    Keeps (e.origin = .foreign ∨ e.ready = s.now) s (pollTask P e s) := by
  unfold pollTask
  split
  · exact keeps_refl s
  · split
    · exact keeps_refl s
    · split
      · exact keeps_runProg _ _ _ _ _ _ _
      · have h1 : Keeps (e.origin = .foreign ∨ e.ready = s.now) s (markPolled s e.idx) :=
          keeps_of_core s _ (core_markPolled s e.idx)
        have h2 := keeps_trans h1
          (keeps_mono (fun he => by rw [h1.2.1]; exact he) (keeps_logAt _ e.idx e.ready e.origin))
        exact keeps_trans h2 (keeps_mono (fun _ => Or.inr h2.2.1.symm) (keeps_runProg _ _ _ _ _ _ _))

/-- what is left after a `pop` satisfies `Inv`, and the popped entry became runnable now -/
theorem core_noteSilent (b r : St) : core (noteSilent b r) = core r := by
  rcases noteSilent_eq b r with h | h <;> rw [h] <;> rfl

theorem inv_pop (P : Params) (q : Kind) (s s' : St) (e : Entry) (h : pop P q s = some (e, s')) (hi : Inv s) :
    Inv s' ∧ (e.origin = .foreign ∨ e.ready = s'.now) := by
  obtain ⟨h1, h2, h3, h4, h5, h6⟩ := hi
  rcases pop_some P q s s' e h with ⟨r, hq, rfl⟩ | ⟨r, hq, rfl⟩ | ⟨r, hq, rfl⟩
  · exact ⟨⟨fun x hx => h1 x (by rw [hq]; exact List.mem_cons_of_mem _ hx), h2, h3, h4, h5, h6⟩,
      h1 e (by rw [hq]; exact List.mem_cons_self)⟩
  · exact ⟨⟨h1, fun x hx => h2 x (by rw [hq]; exact List.mem_cons_of_mem _ hx), h3, h4, h5, h6⟩,
      h2 e (by rw [hq]; exact List.mem_cons_self)⟩
  · exact ⟨⟨h1, h2, fun x hx => h3 x (by rw [hq]; exact List.mem_cons_of_mem _ hx), h4, h5, h6⟩,
      h3 e (by rw [hq]; exact List.mem_cons_self)⟩

/-- one iteration of a queue loop: `Inv`, `now`, the phase are kept -/
theorem step_inv (P : Params) (q : Kind) (s : St) :
    (Inv s → Inv (step P q s)) ∧ (step P q s).now = s.now ∧ (step P q s).phase = s.phase := by
  unfold step
  cases hq : pop P q s with
  | none => exact ⟨id, rfl, rfl⟩
  | some x =>
    obtain ⟨e, s'⟩ := x
    simp only
    have hk := keeps_pollTask P e s'
    have hn : s'.now = s.now ∧ s'.phase = s.phase := by
      rcases pop_some P q s s' e hq with ⟨r, _, rfl⟩ | ⟨r, _, rfl⟩ | ⟨r, _, rfl⟩ <;> exact ⟨rfl, rfl⟩
    have hc := core_inj (core_noteSilent s' (pollTask P e s'))
    refine ⟨fun hi => ?_, (hc.1.trans hk.2.1).trans hn.1, (hc.2.2.2.2.2.2.2.1.trans hk.2.2.2.1).trans hn.2⟩
    have := inv_pop P q s s' e hq hi
    exact inv_of_core _ _ (core_noteSilent s' (pollTask P e s')) (hk.1 this.2 this.1)

/-- one iteration of the runtime loop never shrinks the local queue and keeps the flag covering it -/
theorem step_rt_lq (P : Params) (s : St) :
    s.lq.length ≤ (step P .rt s).lq.length ∧ (s.phase = .rtloop → FL s → FL (step P .rt s)) := by
  unfold step
  cases hq : pop P .rt s with
  | none => exact ⟨Nat.le_refl _, fun _ h => h⟩
  | some x =>
    obtain ⟨e, s'⟩ := x
    simp only
    have hk := keeps_pollTask P e s'
    have hn : s'.lq = s.lq ∧ s'.phase = s.phase ∧ s'.lflag = s.lflag := by
      rcases pop_some P .rt s s' e hq with ⟨r, _, rfl⟩ | ⟨r, _, rfl⟩ | ⟨r, hl, rfl⟩
      · exact ⟨rfl, rfl, rfl⟩
      · exact ⟨rfl, rfl, rfl⟩
      · -- the runtime loop does not pop the local queue
        exfalso
        unfold pop at hq
        simp only at hq
        split at hq <;> split at hq <;> simp at hq <;>
          (have := congrArg St.lq hq.2; simp at this; rw [hl] at this; simp at this)
    have hc := core_inj (core_noteSilent s' (pollTask P e s'))
    refine ⟨by rw [← hn.1, hc.2.2.2.1]; exact hk.2.2.1, fun hp hf => ?_⟩
    have hfl : FL (pollTask P e s') := by
      refine hk.2.2.2.2 (Or.inl (by rw [hn.2.1]; exact hp)) ?_
      unfold FL at hf ⊢
      rw [hn.1, hn.2.2]
      exact hf
    unfold FL at hfl ⊢
    rw [hc.2.2.2.1, hc.2.2.2.2.2.2.2.2]
    exact hfl

theorem runQ_inv (P : Params) (q : Kind) :
    ∀ (b : Nat) (s : St),
      (Inv s → Inv (runQ P q b s)) ∧ (runQ P q b s).now = s.now ∧ (runQ P q b s).phase = s.phase := by
  intro b
  induction b with
  | zero => intro s; exact ⟨id, rfl, rfl⟩
  | succ b ih =>
    intro s
    cases hq : pop P q s with
    | none => rw [runQ_of_empty P q _ s hq]; exact ⟨id, rfl, rfl⟩
    | some x =>
      rw [runQ_cons P q b s x hq]
      have h1 := step_inv P q s
      have h2 := ih (step P q s)
      exact ⟨fun hi => h2.1 (h1.1 hi), h2.2.1.trans h1.2.1, h2.2.2.trans h1.2.2⟩

theorem runQ_rt_lq (P : Params) :
    ∀ (b : Nat) (s : St),
      s.lq.length ≤ (runQ P .rt b s).lq.length ∧ (s.phase = .rtloop → FL s → FL (runQ P .rt b s)) := by
  intro b
  induction b with
  | zero => intro s; exact ⟨Nat.le_refl _, fun _ h => h⟩
  | succ b ih =>
    intro s
    cases hq : pop P .rt s with
    | none => rw [runQ_of_empty P .rt _ s hq]; exact ⟨Nat.le_refl _, fun _ h => h⟩
    | some x =>
      rw [runQ_cons P .rt b s x hq]
      have h1 := step_rt_lq P s
      have h2 := ih (step P .rt s)
      have hp := (step_inv P .rt s).2.2
      exact ⟨Nat.le_trans h1.1 h2.1, fun hph hf => h2.2 (by rw [hp]; exact hph) (h1.2 hph hf)⟩

theorem runH_inv : ∀ (h : List Instr) (s : St), Inv s → Inv (runH h s) ∧ (runH h s).now = s.now := by
  intro h
  induction h with
  | nil => intro s hi; exact ⟨hi, rfl⟩
  | cons ins r ih =>
    intro s hi
    cases ins with
    | spawn t =>
      simp only [runH]
      have h1 : Keeps True s (spawnTask s t) := keeps_spawnTask s t
      have h2 := ih _ (h1.1 trivial hi)
      exact ⟨h2.1, h2.2.trans h1.2.1⟩
    | wake k =>
      simp only [runH]
      have h1 : Keeps True s (wakeCond s k) := keeps_wakeCond s k
      have h2 := ih _ (h1.1 trivial hi)
      exact ⟨h2.1, h2.2.trans h1.2.1⟩
    | notifyAll k =>
      simp only [runH]
      have h1 : Keeps True s (wakeAll s k) := keeps_wakeAll s k
      have h2 := ih _ (h1.1 trivial hi)
      exact ⟨h2.1, h2.2.trans h1.2.1⟩
    | waiting _ => simp only [runH]; exact ih s hi
    | joining _ => simp only [runH]; exact ih s hi
    | waitT _ _ => simp only [runH]; exact ih s hi
    | waitingT _ _ => simp only [runH]; exact ih s hi
    | wait _ => simp only [runH]; exact ih s hi
    | yield => simp only [runH]; exact ih s hi
    | resume => simp only [runH]; exact ih s hi
    | join _ => simp only [runH]; exact ih s hi
    | sleep _ => simp only [runH]; exact ih s hi
    | sleepUntil _ => simp only [runH]; exact ih s hi
    | sleeping _ => simp only [runH]; exact ih s hi

theorem foldl_push_inv (l : List Entry) :
    ∀ s : St, s.phase = .flush → Inv s → FL s → (∀ e ∈ l, e.ready = s.now) →
      Inv (l.foldl (fun s e => pushEntry s { e with origin := .flush }) s) ∧
      FL (l.foldl (fun s e => pushEntry s { e with origin := .flush }) s) := by
  induction l with
  | nil => intro s _ hi hf _; exact ⟨hi, hf⟩
  | cons a l ih =>
    intro s hp hi hf hl
    simp only [List.foldl_cons]
    have hk := keeps_pushEntry s { a with origin := .flush }
    refine ih _ (hk.2.2.2.1.trans hp) (hk.1 (Or.inr (hl a List.mem_cons_self)) hi) (hk.2.2.2.2 (Or.inr hp) hf) ?_
    intro e he
    rw [hk.2.1]
    exact hl e (List.mem_cons_of_mem _ he)

theorem flush_inv (s : St) (hi : Inv s) (hf : FL s) : Inv (flush s) ∧ FL (flush s) := by
  unfold flush
  obtain ⟨h1, h2, h3, h4, h5, h6⟩ := hi
  refine foldl_push_inv _ _ rfl ⟨h1, h2, h3, ?_, h5, h6⟩ hf ?_
  · intro e he; simp at he
  · intro e he
    exact h4 e (by simpa using he)

/-- after the LocalSet tick the flag covers what is left in its queue -/
theorem afterTick_fl (P : Params) (s : St) : FL (afterTick P s) := by
  unfold afterTick
  rw [runQn_eq]
  simp only
  split
  · rename_i hlt
    exact Or.inl ((pop_none_loc P _).1 (idle_of_polls_lt P .loc P.L _ hlt))
  · exact Or.inr rfl

theorem afterTick_inv (P : Params) (s : St) (hi : Inv s) : Inv (afterTick P s) ∧ (afterTick P s).now = s.now := by
  unfold afterTick
  rw [runQn_eq]
  simp only
  have h := runQ_inv P .loc P.L (tickStart s)
  have h0 : Inv (tickStart s) := inv_of_icore s _ rfl hi
  split
  · exact ⟨h.1 h0, h.2.1⟩
  · exact ⟨inv_of_icore _ _ rfl (h.1 h0), h.2.1⟩

theorem afterRt_inv (P : Params) (s : St) (hi : Inv s) :
    Inv (afterRt P s) ∧ FL (afterRt P s) ∧ (afterRt P s).now = s.now := by
  unfold afterRt
  rw [runQn_eq]
  simp only
  have ht := afterTick_inv P s hi
  have hf : FL (rtStart P s) := afterTick_fl P s
  have h0 : Inv (rtStart P s) := inv_of_icore _ _ rfl ht.1
  have h := runQ_inv P .rt P.E (rtStart P s)
  have hl := (runQ_rt_lq P P.E (rtStart P s)).2 rfl hf
  have hn : (runQ P .rt P.E (rtStart P s)).now = s.now := h.2.1.trans ht.2
  split
  · exact ⟨inv_of_icore _ _ rfl (h.1 h0), hl, hn⟩
  · exact ⟨h.1 h0, hl, hn⟩

/-- one pass keeps the invariant: whatever it polls became runnable in this very instant; afterwards the flag
covers the LocalSet queue -/
theorem pass_inv (P : Params) (s : St) (hi : Inv s) : Inv (pass P s) ∧ FL (pass P s) := by
  unfold pass
  have h := afterRt_inv P s hi
  exact flush_inv _ h.1 h.2.1

theorem foldl_push_fl (l : List Entry) :
    ∀ s : St, s.phase = .flush → FL s →
      FL (l.foldl (fun s e => pushEntry s { e with origin := .flush }) s) := by
  induction l with
  | nil => intro s _ hf; exact hf
  | cons a l ih =>
    intro s hp hf
    simp only [List.foldl_cons]
    have hk := keeps_pushEntry s { a with origin := .flush }
    exact ih _ (hk.2.2.2.1.trans hp) (hk.2.2.2.2 (Or.inr hp) hf)

/-- after a pass the flag covers the LocalSet queue (whatever the state it started from) -/
theorem pass_fl (P : Params) (s : St) : FL (pass P s) := by
  have h1 : FL (afterRt P s) := by
    unfold afterRt
    rw [runQn_eq]
    simp only
    have hl := (runQ_rt_lq P P.E (rtStart P s)).2 rfl (afterTick_fl P s)
    split
    · exact hl
    · exact hl
  unfold pass flush
  exact foldl_push_fl _ _ rfl h1

theorem afterHandler_inv (h : List Instr) (s : St) (hi : Inv s) : Inv (afterHandler h s) := by
  unfold afterHandler
  have h0 : Inv { s with phase := .handler } := inv_of_icore s _ rfl hi
  exact (runH_inv h _ h0).1

theorem turn1_inv (P : Params) (h : List Instr) (s : St) (hi : Inv s) :
    Inv (turn1 P h s) ∧ FL (turn1 P h s) :=
  pass_inv P _ (afterHandler_inv h _ (inv_of_icore s _ rfl hi))

theorem drain_inv (P : Params) : ∀ (n : Nat) (s : St), Inv s → Inv (drain P n s) := by
  intro n
  induction n with
  | zero => intro s hi; exact hi
  | succ n ih =>
    intro s hi
    simp only [drain]
    split
    · exact hi
    · have h0 : Inv { s with lflag := false } := inv_of_icore s _ rfl hi
      exact ih _ (pass_inv P _ h0).1

/-- one `exec` keeps the invariant -/
theorem exec_inv (P : Params) (h : List Instr) (s : St) (hi : Inv s) : Inv (exec P h s) := by
  unfold exec
  exact drain_inv P _ _ (turn1_inv P h s hi).1

/-! ### events -/

theorem keeps_fire (s : St) (tm : Timer) : Keeps (tm.deadline = s.now) s (fire s tm) := by
  unfold fire
  split
  · exact keeps_refl s
  · exact keeps_mono (fun h => Or.inr h) (keeps_pushEntry s ⟨tm.kind, tm.idx, tm.deadline, .timer⟩)

theorem foldl_pushT_inv (l : List Timer) :
    ∀ s : St, Inv s → (∀ tm ∈ l, tm.deadline = s.now) → Inv (l.foldl fire s) := by
  induction l with
  | nil => intro s hi _; exact hi
  | cons a l ih =>
    intro s hi hl
    simp only [List.foldl_cons]
    have hk := keeps_fire s a
    refine ih _ (hk.1 (hl a List.mem_cons_self) hi) ?_
    intro tm he
    rw [hk.2.1]
    exact hl tm (List.mem_cons_of_mem _ he)

/-- nothing is deferred, and whatever is queued was woken by another module's event -/
def Pend (s : St) : Prop :=
  s.dq = [] ∧ (∀ e ∈ s.rq, e.origin = .foreign) ∧ (∀ e ∈ s.iq, e.origin = .foreign) ∧
  (∀ e ∈ s.lq, e.origin = .foreign)

theorem pend_of_quiet (s : St) (h : Quiet s) : Pend s := by
  obtain ⟨h1, h2, h3, h4⟩ := h
  refine ⟨h4, ?_, ?_, ?_⟩ <;> intro e he <;> simp_all

/-- `activate()` at an instant that no pending deadline precedes, from a state in which only foreign wakes are
pending: the woken timers' deadline is this very instant -/
theorem activate_inv (t : Nat) (s : St) (hq : Pend s) (ho : OnTime s)
    (hns : ∀ tm ∈ s.timers, t ≤ tm.deadline) : Inv (activate t s) := by
  unfold activate
  obtain ⟨h1, h2, h3, h4⟩ := hq
  refine foldl_pushT_inv _ _ ?_ ?_
  · refine ⟨fun e he => Or.inl (h2 e he), fun e he => Or.inl (h3 e he), fun e he => Or.inl (h4 e he), ?_, ho, ?_⟩
    · intro e he; simp [h1] at he
    · intro tm htm
      simp only [List.mem_filter, decide_eq_true_eq] at htm
      exact htm.2
  · intro tm htm
    simp only [List.mem_filter, decide_eq_true_eq] at htm
    have := hns tm htm.1
    show tm.deadline = t
    omega

theorem handle_inv (P : Params) (single : Bool) (ev : Ev) (s : St) (hf : ev.foreign = false) (hq : Pend s)
    (ho : OnTime s) (hns : ∀ tm ∈ s.timers, ev.time ≤ tm.deadline) : Inv (handle P single ev s) := by
  unfold handle
  simp only [hf, Bool.false_eq_true, if_false]
  have h0 := activate_inv ev.time s hq ho hns
  by_cases hc : ev.consumed = true
  · simp only [hc, if_true]
    have h1 := (runH_inv ev.prog _ h0).1
    cases single
    · exact exec_inv P _ _ h1
    · exact (turn1_inv P _ _ h1).1
  · simp only [hc]
    cases single
    · exact exec_inv P _ _ h0
    · exact (turn1_inv P _ _ h0).1

/-! ### another module's event: only foreign-stamped entries are added -/

/-- phase, deferred wakers, log and timers are unchanged; in phase `.foreign` queued entries stay foreign-stamped -/
def KF (s s' : St) : Prop :=
  s'.phase = s.phase ∧ s'.dq = s.dq ∧ s'.log = s.log ∧ s'.timers = s.timers ∧
  (s.phase = .foreign →
    ((∀ e ∈ s.rq, e.origin = .foreign) ∧ (∀ e ∈ s.iq, e.origin = .foreign) ∧ (∀ e ∈ s.lq, e.origin = .foreign)) →
    ((∀ e ∈ s'.rq, e.origin = .foreign) ∧ (∀ e ∈ s'.iq, e.origin = .foreign) ∧ (∀ e ∈ s'.lq, e.origin = .foreign)))

theorem kf_refl (s : St) : KF s s := ⟨rfl, rfl, rfl, rfl, fun _ h => h⟩

theorem kf_trans {a b c : St} (h1 : KF a b) (h2 : KF b c) : KF a c :=
  ⟨h2.1.trans h1.1, h2.2.1.trans h1.2.1, h2.2.2.1.trans h1.2.2.1, h2.2.2.2.1.trans h1.2.2.2.1,
    fun hp h => h2.2.2.2.2 (by rw [h1.1]; exact hp) (h1.2.2.2.2 hp h)⟩

theorem kf_enqueue (s : St) (k : Kind) (i : Nat) : KF s (enqueue s k i) := by
  unfold enqueue pushEntry
  cases k
  · simp only
    split
    · refine ⟨rfl, rfl, rfl, rfl, fun hp h => ⟨h.1, ?_, h.2.2⟩⟩
      intro e he
      simp only [List.mem_append, List.mem_singleton] at he
      rcases he with he | he
      · exact h.2.1 e he
      · subst he; exact hp
    · refine ⟨rfl, rfl, rfl, rfl, fun hp h => ⟨?_, h.2.1, h.2.2⟩⟩
      intro e he
      simp only [List.mem_append, List.mem_singleton] at he
      rcases he with he | he
      · exact h.1 e he
      · subst he; exact hp
  · have hl : ∀ (l : Bool), KF s { s with lq := s.lq ++ [⟨.loc, i, s.now, s.phase⟩], lflag := l } := by
      intro l
      refine ⟨rfl, rfl, rfl, rfl, fun hp h => ⟨h.1, h.2.1, ?_⟩⟩
      intro e he
      simp only [List.mem_append, List.mem_singleton] at he
      rcases he with he | he
      · exact h.2.2 e he
      · subst he; exact hp
    simp only
    split
    · exact hl true
    · exact hl s.lflag

theorem kf_of_same (s s' : St) (h1 : s'.phase = s.phase) (h2 : s'.dq = s.dq) (h3 : s'.log = s.log)
    (h4 : s'.timers = s.timers) (h5 : s'.rq = s.rq) (h6 : s'.iq = s.iq) (h7 : s'.lq = s.lq) : KF s s' :=
  ⟨h1, h2, h3, h4, fun _ h => by rw [h5, h6, h7]; exact h⟩

theorem kf_grant (s : St) (wk : Kind) (wi : Nat) : KF s (grant s wk wi) := by
  unfold grant
  split
  · exact kf_enqueue _ _ _
  · split
    · exact kf_of_same s _ rfl rfl rfl rfl rfl rfl rfl
    · (refine kf_trans ?_ (kf_enqueue _ _ _); exact kf_of_same s _ rfl rfl rfl rfl rfl rfl rfl)

theorem kf_grantAll : ∀ (l : List (Kind × Nat)) (s : St), KF s (grantAll l s) := by
  intro l
  induction l with
  | nil => intro s; exact kf_refl s
  | cons a l ih =>
    intro s
    obtain ⟨wk, wi⟩ := a
    simp only [grantAll]
    exact kf_trans (kf_grant s wk wi) (ih _)

theorem kf_wakeCond (s : St) (k : Nat) : KF s (wakeCond s k) := by
  unfold wakeCond
  split
  · exact kf_refl s
  · split
    · exact kf_of_same s _ rfl rfl rfl rfl rfl rfl rfl
    · (refine kf_trans ?_ (kf_grant _ _ _); exact kf_of_same s _ rfl rfl rfl rfl rfl rfl rfl)

theorem kf_wakeAll (s : St) (k : Nat) : KF s (wakeAll s k) := by
  unfold wakeAll
  split
  · exact kf_refl s
  · (refine kf_trans ?_ (kf_grantAll _ _); exact kf_of_same s _ rfl rfl rfl rfl rfl rfl rfl)

theorem kf_spawnTask (s : St) (t : Nat) : KF s (spawnTask s t) := by
  unfold spawnTask
  split
  · exact kf_refl s
  · split
    · exact kf_refl s
    · (refine kf_trans ?_ (kf_enqueue _ _ _); exact kf_of_same s _ rfl rfl rfl rfl rfl rfl rfl)

theorem kf_runH : ∀ (h : List Instr) (s : St), KF s (runH h s) := by
  intro h
  induction h with
  | nil => intro s; exact kf_refl s
  | cons ins r ih =>
    intro s
    cases ins <;> simp only [runH]
    case spawn t => exact kf_trans (kf_spawnTask s t) (ih _)
    case wake k => exact kf_trans (kf_wakeCond s k) (ih _)
    case notifyAll k => exact kf_trans (kf_wakeAll s k) (ih _)
    all_goals exact ih s

/-- an event of another module: what it wakes is stamped `.foreign`; nothing else changes -/
theorem handle_foreign (P : Params) (single : Bool) (ev : Ev) (s : St) (hf : ev.foreign = true) (hq : Pend s)
    (ho : OnTime s) :
    Pend (handle P single ev s) ∧ OnTime (handle P single ev s) ∧ (handle P single ev s).timers = s.timers := by
  unfold handle
  simp only [hf, if_true]
  have hk := kf_runH ev.prog { s with now := ev.time, phase := .foreign }
  obtain ⟨h1, h2, h3, h4⟩ := hq
  have hq' := hk.2.2.2.2 rfl ⟨h2, h3, h4⟩
  refine ⟨⟨?_, hq'.1, hq'.2.1, hq'.2.2⟩, ?_, hk.2.2.2.1⟩
  · show (runH ev.prog _).dq = []
    rw [hk.2.1]; exact h1
  · show ∀ x ∈ (runH ev.prog _).log, _
    rw [hk.2.2.1]; exact ho

theorem minL_spec : ∀ (l : List Nat) (m : Nat), minL l = some m → m ∈ l ∧ ∀ x ∈ l, m ≤ x := by
  intro l
  induction l with
  | nil => intro m h; simp [minL] at h
  | cons a l ih =>
    intro m h
    simp only [minL] at h
    cases hm : minL l with
    | none =>
      rw [hm] at h
      simp only [Option.some.injEq] at h
      subst h
      have hl : l = [] := by
        cases l with
        | nil => rfl
        | cons b l' =>
          simp only [minL] at hm
          cases h2 : minL l' <;> simp [h2] at hm
      subst hl
      simp
    | some m' =>
      rw [hm] at h
      simp only [Option.some.injEq] at h
      have := ih m' hm
      subst h
      split
      · rename_i hle
        refine ⟨List.mem_cons_self, ?_⟩
        intro x hx
        simp only [List.mem_cons] at hx
        rcases hx with hx | hx
        · omega
        · have := this.2 x hx; omega
      · rename_i hle
        refine ⟨List.mem_cons_of_mem _ this.1, ?_⟩
        intro x hx
        simp only [List.mem_cons] at hx
        rcases hx with hx | hx
        · omega
        · exact this.2 x hx

theorem minL_none : ∀ (l : List Nat), minL l = none → l = [] := by
  intro l h
  cases l with
  | nil => rfl
  | cons a l =>
    simp only [minL] at h
    cases h2 : minL l <;> simp [h2] at h

end Exec

/-
Observed times: as long as every queue entry became runnable in the current instant, every observation is made
at the instant its awaited condition became true.  Also: polls never shrink the LocalSet queue of other kinds.
-/
import Desverif.Proofs.ExecQueue
namespace Exec

/-- the part of the state the timing invariant talks about -/
def core (s : St) : Nat × List Entry × List Entry × List Entry × List LogEntry :=
  (s.now, s.rq, s.lq, s.dq, s.log)

/-- every runnable / deferred task became runnable in the current instant, and no observation so far was late -/
def Inv (s : St) : Prop :=
  (∀ e ∈ s.rq, e.ready = s.now) ∧ (∀ e ∈ s.lq, e.ready = s.now) ∧ (∀ e ∈ s.dq, e.ready = s.now) ∧
  (∀ x ∈ s.log, x.time = x.ready)

/-- no observation was made later than the instant at which the awaited condition became true -/
def OnTime (s : St) : Prop := ∀ x ∈ s.log, x.time = x.ready

theorem inv_of_core (s s' : St) (h : core s' = core s) (hi : Inv s) : Inv s' := by
  unfold core at h
  simp only [Prod.mk.injEq] at h
  obtain ⟨h1, h2, h3, h4, h5⟩ := h
  unfold Inv
  rw [h1, h2, h3, h4, h5]
  exact hi

theorem now_of_core (s s' : St) (h : core s' = core s) : s'.now = s.now := by
  unfold core at h
  simp only [Prod.mk.injEq] at h
  exact h.1

theorem lq_of_core (s s' : St) (h : core s' = core s) : s'.lq = s.lq := by
  unfold core at h
  simp only [Prod.mk.injEq] at h
  exact h.2.2.1

/-- `now` is unchanged, the local queue does not shrink, and - provided `c` - `Inv` is kept -/
def Keeps (c : Prop) (s s' : St) : Prop := (c → Inv s → Inv s') ∧ s'.now = s.now ∧ s.lq.length ≤ s'.lq.length

theorem keeps_refl {c : Prop} (s : St) : Keeps c s s := ⟨fun _ h => h, rfl, Nat.le_refl _⟩

theorem keeps_trans {c : Prop} {a b d : St} (h1 : Keeps c a b) (h2 : Keeps c b d) : Keeps c a d :=
  ⟨fun hc h => h2.1 hc (h1.1 hc h), h2.2.1.trans h1.2.1, Nat.le_trans h1.2.2 h2.2.2⟩

theorem keeps_mono {c c' : Prop} {a b : St} (hc : c → c') (h : Keeps c' a b) : Keeps c a b :=
  ⟨fun x => h.1 (hc x), h.2.1, h.2.2⟩

theorem keeps_of_core {c : Prop} (s s' : St) (h : core s' = core s) : Keeps c s s' :=
  ⟨fun _ => inv_of_core s s' h, now_of_core s s' h, by rw [lq_of_core s s' h]; exact Nat.le_refl _⟩

theorem keeps_pushEntry (s : St) (e : Entry) : Keeps (e.ready = s.now) s (pushEntry s e) := by
  unfold pushEntry
  cases hk : e.kind
  · refine ⟨?_, rfl, Nat.le_refl _⟩
    rintro he ⟨h1, h2, h3, h4⟩
    refine ⟨?_, h2, h3, h4⟩
    intro x hx
    simp only [List.mem_append, List.mem_singleton] at hx
    rcases hx with hx | hx
    · exact h1 x hx
    · subst hx; exact he
  · refine ⟨?_, rfl, by simp⟩
    rintro he ⟨h1, h2, h3, h4⟩
    refine ⟨h1, ?_, h3, h4⟩
    intro x hx
    simp only [List.mem_append, List.mem_singleton] at hx
    rcases hx with hx | hx
    · exact h2 x hx
    · subst hx; exact he

theorem keeps_enqueue {c : Prop} (s : St) (k : Kind) (i : Nat) : Keeps c s (enqueue s k i) :=
  keeps_mono (c' := (⟨k, i, s.now, s.phase⟩ : Entry).ready = s.now) (fun _ => rfl)
    (keeps_pushEntry s ⟨k, i, s.now, s.phase⟩)

theorem keeps_defer {c : Prop} (s : St) (k : Kind) (i : Nat) : Keeps c s (defer s k i) := by
  unfold defer
  refine ⟨?_, rfl, Nat.le_refl _⟩
  rintro _ ⟨h1, h2, h3, h4⟩
  refine ⟨h1, h2, ?_, h4⟩
  intro x hx
  simp only [List.mem_append, List.mem_singleton] at hx
  rcases hx with hx | hx
  · exact h3 x hx
  · subst hx; rfl

theorem keeps_logAt (s : St) (i rdy : Nat) (org : Phase) : Keeps (rdy = s.now) s (logAt s i rdy org) := by
  unfold logAt
  refine ⟨?_, rfl, Nat.le_refl _⟩
  rintro h ⟨h1, h2, h3, h4⟩
  refine ⟨h1, h2, h3, ?_⟩
  intro x hx
  simp only [List.mem_cons] at hx
  rcases hx with hx | hx
  · subst hx; exact h.symm
  · exact h4 x hx

theorem core_setProg (s : St) (i : Nat) (p : List Instr) : core (setProg s i p) = core s := by
  unfold setProg; split <;> rfl

theorem core_markPolled (s : St) (i : Nat) : core (markPolled s i) = core s := by
  unfold markPolled; split <;> rfl

theorem keeps_spawnTask {c : Prop} (s : St) (t : Nat) : Keeps c s (spawnTask s t) := by
  unfold spawnTask
  split
  · exact keeps_refl s
  · split
    · exact keeps_refl s
    · (refine keeps_trans ?_ (keeps_enqueue _ _ _); exact keeps_of_core s _ rfl)

theorem keeps_wakeCond {c : Prop} (s : St) (k : Nat) : Keeps c s (wakeCond s k) := by
  unfold wakeCond
  split
  · exact keeps_refl s
  · split
    · exact keeps_of_core s _ rfl
    · (refine keeps_trans ?_ (keeps_enqueue _ _ _); exact keeps_of_core s _ rfl)

theorem keeps_finish {c : Prop} (s : St) (i : Nat) : Keeps c s (finish s i) := by
  unfold finish
  split
  · exact keeps_refl s
  · simp only
    split
    · exact keeps_of_core s _ rfl
    · (refine keeps_trans ?_ (keeps_enqueue _ _ _); exact keeps_of_core s _ rfl)

/-- a poll whose reason (`rdy`) is the current instant keeps the invariant -/
theorem keeps_runProg (k : Kind) (i : Nat) :
    ∀ (p : List Instr) (c rdy : Nat) (org : Phase) (s : St),
      Keeps (rdy = s.now) s (runProg k i p c rdy org s) := by
  intro p
  induction p with
  | nil => intro c rdy org s; exact keeps_finish s i
  | cons ins r ih =>
    intro c rdy org s
    have hsp : Keeps (rdy = s.now) s (setProg s i r) := keeps_of_core s _ (core_setProg s i r)
    cases ins with
    | spawn t =>
      simp only [runProg]
      have h1 := keeps_trans hsp (keeps_spawnTask (setProg s i r) t)
      exact keeps_trans h1 (keeps_mono (fun hr => by rw [h1.2.1]; exact hr) (ih c rdy org _))
    | wake q =>
      simp only [runProg]
      have h1 := keeps_trans hsp (keeps_wakeCond (setProg s i r) q)
      exact keeps_trans h1 (keeps_mono (fun hr => by rw [h1.2.1]; exact hr) (ih c rdy org _))
    | yield =>
      simp only [runProg]
      (refine keeps_trans ?_ (keeps_defer _ _ _); exact keeps_of_core s _ (core_setProg s i _))
    | resume =>
      simp only [runProg]
      have h1 := keeps_trans hsp
        (keeps_mono (fun hr => by rw [hsp.2.1]; exact hr) (keeps_logAt (setProg s i r) i rdy org))
      exact keeps_trans h1 (keeps_mono (fun _ => h1.2.1.symm) (ih c s.now s.phase _))
    | wait q =>
      simp only [runProg]
      split
      · exact keeps_refl s
      · rename_i cd hc
        split
        · exact keeps_defer s k i
        · split
          · exact keeps_of_core s _ rfl
          · have h0 : Keeps (rdy = s.now) s
                { s with conds := s.conds.set q { cd with permits := cd.permits - 1 } } :=
              keeps_of_core s _ rfl
            have h1 := keeps_trans h0 (keeps_of_core _ _ (core_setProg _ i r))
            have h2 := keeps_trans h1
              (keeps_mono (fun hr => by rw [h1.2.1]; exact hr) (keeps_logAt _ i rdy org))
            exact keeps_trans h2 (keeps_mono (fun _ => h2.2.1.symm) (ih _ s.now s.phase _))
    | join t =>
      simp only [runProg]
      split
      · exact keeps_refl s
      · split
        · exact keeps_defer s k i
        · split
          · have h1 := keeps_trans hsp
              (keeps_mono (fun hr => by rw [hsp.2.1]; exact hr) (keeps_logAt (setProg s i r) i rdy org))
            exact keeps_trans h1 (keeps_mono (fun _ => h1.2.1.symm) (ih _ s.now s.phase _))
          · exact keeps_of_core s _ rfl

theorem keeps_pollTask (P : Params) (e : Entry) (s : St) :
    Keeps (e.ready = s.now) s (pollTask P e s) := by
  unfold pollTask
  split
  · exact keeps_refl s
  · split
    · exact keeps_refl s
    · split
      · exact keeps_runProg _ _ _ _ _ _ _
      · have h1 : Keeps (e.ready = s.now) s (markPolled s e.idx) :=
          keeps_of_core s _ (core_markPolled s e.idx)
        have h2 := keeps_trans h1
          (keeps_mono (fun he => by rw [h1.2.1]; exact he) (keeps_logAt _ e.idx e.ready e.origin))
        exact keeps_trans h2 (keeps_mono (fun _ => h2.2.1.symm) (keeps_runProg _ _ _ _ _ _ _))

/-- polling the runtime queue never shrinks the local queue, and keeps `now` -/
theorem step_rt_lq (P : Params) (s : St) :
    (Inv s → Inv (step P .rt s)) ∧ (step P .rt s).now = s.now ∧ s.lq.length ≤ (step P .rt s).lq.length := by
  unfold step
  cases hq : queue .rt s with
  | nil => exact ⟨id, rfl, Nat.le_refl _⟩
  | cons e r =>
    simp only
    have hq' : s.rq = e :: r := hq
    have hk := keeps_pollTask P e (setQueue .rt s r)
    refine ⟨fun hi => ?_, hk.2.1, hk.2.2⟩
    have he : e.ready = s.now := hi.1 e (by rw [hq']; exact List.mem_cons_self)
    have hi' : Inv (setQueue .rt s r) := by
      obtain ⟨h1, h2, h3, h4⟩ := hi
      refine ⟨?_, h2, h3, h4⟩
      intro x hx
      exact h1 x (by rw [hq']; exact List.mem_cons_of_mem _ hx)
    exact hk.1 he hi'

theorem step_loc_inv (P : Params) (s : St) (hi : Inv s) :
    Inv (step P .loc s) ∧ (step P .loc s).now = s.now := by
  unfold step
  cases hq : queue .loc s with
  | nil => exact ⟨hi, rfl⟩
  | cons e r =>
    simp only
    have hq' : s.lq = e :: r := hq
    have he : e.ready = s.now := hi.2.1 e (by rw [hq']; exact List.mem_cons_self)
    have hi' : Inv (setQueue .loc s r) := by
      obtain ⟨h1, h2, h3, h4⟩ := hi
      refine ⟨h1, ?_, h3, h4⟩
      intro x hx
      exact h2 x (by rw [hq']; exact List.mem_cons_of_mem _ hx)
    have hk := keeps_pollTask P e (setQueue .loc s r)
    exact ⟨hk.1 he hi', hk.2.1⟩

theorem runQ_rt_inv (P : Params) :
    ∀ (b : Nat) (s : St),
      (Inv s → Inv (runQ P .rt b s)) ∧ (runQ P .rt b s).now = s.now ∧
        s.lq.length ≤ (runQ P .rt b s).lq.length := by
  intro b
  induction b with
  | zero => intro s; exact ⟨id, rfl, Nat.le_refl _⟩
  | succ b ih =>
    intro s
    cases hq : queue .rt s with
    | nil => rw [runQ_of_empty P .rt _ s hq]; exact ⟨id, rfl, Nat.le_refl _⟩
    | cons e r =>
      rw [runQ_cons P .rt b s e r hq]
      have h1 := step_rt_lq P s
      have h2 := ih (step P .rt s)
      exact ⟨fun hi => h2.1 (h1.1 hi), h2.2.1.trans h1.2.1, Nat.le_trans h1.2.2 h2.2.2⟩

theorem runQ_loc_inv (P : Params) :
    ∀ (b : Nat) (s : St), Inv s → Inv (runQ P .loc b s) ∧ (runQ P .loc b s).now = s.now := by
  intro b
  induction b with
  | zero => intro s hi; exact ⟨hi, rfl⟩
  | succ b ih =>
    intro s hi
    cases hq : queue .loc s with
    | nil => rw [runQ_of_empty P .loc _ s hq]; exact ⟨hi, rfl⟩
    | cons e r =>
      rw [runQ_cons P .loc b s e r hq]
      have h1 := step_loc_inv P s hi
      have h2 := ih _ h1.1
      exact ⟨h2.1, h2.2.trans h1.2⟩

theorem runH_inv : ∀ (h : List Instr) (s : St), Inv s → Inv (runH h s) ∧ (runH h s).now = s.now := by
  intro h
  induction h with
  | nil => intro s hi; exact ⟨hi, rfl⟩
  | cons ins r ih =>
    intro s hi
    cases ins with
    | spawn t =>
      simp only [runH]
      have h1 : Keeps True s (spawnTask s t) := keeps_spawnTask s t
      have h2 := ih _ (h1.1 trivial hi)
      exact ⟨h2.1, h2.2.trans h1.2.1⟩
    | wake k =>
      simp only [runH]
      have h1 : Keeps True s (wakeCond s k) := keeps_wakeCond s k
      have h2 := ih _ (h1.1 trivial hi)
      exact ⟨h2.1, h2.2.trans h1.2.1⟩
    | wait _ => simp only [runH]; exact ih s hi
    | yield => simp only [runH]; exact ih s hi
    | resume => simp only [runH]; exact ih s hi
    | join _ => simp only [runH]; exact ih s hi

theorem foldl_push_inv (l : List Entry) :
    ∀ s : St, Inv s → (∀ e ∈ l, e.ready = s.now) →
      Inv (l.foldl (fun s e => pushEntry s { e with origin := .flush }) s) := by
  induction l with
  | nil => intro s hi _; exact hi
  | cons a l ih =>
    intro s hi hl
    simp only [List.foldl_cons]
    have hk := keeps_pushEntry s { a with origin := .flush }
    refine ih _ (hk.1 (hl a List.mem_cons_self) hi) ?_
    intro e he
    rw [hk.2.1]
    exact hl e (List.mem_cons_of_mem _ he)

theorem flush_inv (s : St) (hi : Inv s) : Inv (flush s) := by
  unfold flush
  obtain ⟨h1, h2, h3, h4⟩ := hi
  refine foldl_push_inv _ _ ⟨h1, h2, ?_, h4⟩ ?_
  · intro e he; simp at he
  · intro e he
    exact h3 e (by simpa using he)

/-- one pass keeps the invariant: whatever it polls became runnable in this very instant -/
theorem pass_inv (P : Params) (s : St) (hi : Inv s) : Inv (pass P s) := by
  unfold pass afterRt rtStart afterTick tickStart
  have h1' : Inv { s with phase := .tick } := inv_of_core _ _ rfl hi
  have h2 := (runQ_loc_inv P P.L _ h1').1
  have h2' : Inv { runQ P .loc P.L { s with phase := .tick } with phase := .rtloop } := inv_of_core _ _ rfl h2
  have h3 := (runQ_rt_inv P P.E _).1 h2'
  exact flush_inv _ h3

theorem afterHandler_inv (h : List Instr) (s : St) (hi : Inv s) : Inv (afterHandler h s) := by
  unfold afterHandler
  have h0 : Inv { s with phase := .handler } := inv_of_core s _ rfl hi
  exact (runH_inv h _ h0).1

theorem turn1_inv (P : Params) (h : List Instr) (s : St) (hi : Inv s) : Inv (turn1 P h s) :=
  pass_inv P _ (afterHandler_inv h s hi)

theorem drain_inv (P : Params) : ∀ (n : Nat) (s : St), Inv s → Inv (drain P n s) := by
  intro n
  induction n with
  | zero => intro s hi; exact hi
  | succ n ih =>
    intro s hi
    simp only [drain]
    split
    · exact hi
    · exact ih _ (pass_inv P s hi)

/-- one `exec` keeps the invariant -/
theorem exec_inv (P : Params) (h : List Instr) (s : St) (hi : Inv s) : Inv (exec P h s) := by
  unfold exec
  exact drain_inv P _ _ (turn1_inv P h s hi)

theorem inv_of_quiet (s : St) (t : Nat) (hq : Quiet s) (ho : OnTime s) : Inv { s with now := t } := by
  obtain ⟨h1, h2, h3⟩ := hq
  refine ⟨?_, ?_, ?_, ho⟩ <;> intro e he <;> simp_all

/-- every event of the run ends with nothing runnable -/
def AllQuiet (P : Params) : List (Nat × List Instr) → St → Prop
  | [], _ => True
  | (t, h) :: r, s => Quiet (deliver P t h s) ∧ AllQuiet P r (deliver P t h s)

/-- every event of a single-pass run ends with nothing runnable -/
def AllQuiet1 (P : Params) : List (Nat × List Instr) → St → Prop
  | [], _ => True
  | (t, h) :: r, s => Quiet (deliver1 P t h s) ∧ AllQuiet1 P r (deliver1 P t h s)

theorem deliver1_onTime (P : Params) (t : Nat) (h : List Instr) (s : St) (hq : Quiet s) (ho : OnTime s) :
    OnTime (deliver1 P t h s) :=
  (turn1_inv P h _ (inv_of_quiet s t hq ho)).2.2.2

theorem runEvents1_onTime (P : Params) :
    ∀ (evs : List (Nat × List Instr)) (s : St), Quiet s → OnTime s → AllQuiet1 P evs s →
      OnTime (runEvents1 P evs s) := by
  intro evs
  induction evs with
  | nil => intro s _ ho _; exact ho
  | cons ev r ih =>
    intro s hq ho ha
    obtain ⟨t, h⟩ := ev
    simp only [runEvents1]
    exact ih _ ha.1 (deliver1_onTime P t h s hq ho) ha.2

theorem deliver_onTime (P : Params) (t : Nat) (h : List Instr) (s : St) (hq : Quiet s) (ho : OnTime s) :
    OnTime (deliver P t h s) :=
  (exec_inv P h _ (inv_of_quiet s t hq ho)).2.2.2

theorem runEvents_onTime (P : Params) :
    ∀ (evs : List (Nat × List Instr)) (s : St), Quiet s → OnTime s → AllQuiet P evs s →
      OnTime (runEvents P evs s) := by
  intro evs
  induction evs with
  | nil => intro s _ ho _; exact ho
  | cons ev r ih =>
    intro s hq ho ha
    obtain ⟨t, h⟩ := ev
    simp only [runEvents]
    exact ih _ ha.1 (deliver_onTime P t h s hq ho) ha.2

end Exec

import Desverif.Spec.FES
namespace CQ
open FES (evLt eraseId minEv)

theorem evLt_asymm {a b : Ev} (h : evLt a b) : ¬ evLt b a := by
  unfold evLt at *; omega

theorem evLt_time_le {a b : Ev} (h : evLt a b) : a.time ≤ b.time := by
  unfold evLt at h; omega

/-! ### insRev / bucketInsert -/

theorem mem_insRev {l : List Ev} {e x : Ev} : x ∈ insRev l e ↔ x = e ∨ x ∈ l := by
  induction l with
  | nil => simp [insRev]
  | cons y ys ih =>
    unfold insRev
    split
    · simp only [List.mem_cons, ih]; constructor <;> (intro h; rcases h with h | h | h <;> simp [h])
    · simp [List.mem_cons]

theorem insRev_perm (l : List Ev) (e : Ev) : (insRev l e).Perm (e :: l) := by
  induction l with
  | nil => simp [insRev]
  | cons y ys ih =>
    unfold insRev
    split
    · exact (List.Perm.cons y ih).trans (List.Perm.swap e y ys)
    · exact List.Perm.refl _

theorem insRev_sorted {l : List Ev} {e : Ev}
    (hs : l.Pairwise (fun a c => evLt c a)) (hid : ∀ x ∈ l, x.id < e.id) :
    (insRev l e).Pairwise (fun a c => evLt c a) := by
  induction l with
  | nil => simp [insRev]
  | cons y ys ih =>
    have hy := List.pairwise_cons.mp hs
    unfold insRev
    split
    · rename_i hgt
      refine List.pairwise_cons.mpr ⟨?_, ih hy.2 (fun x hx => hid x (List.mem_cons_of_mem _ hx))⟩
      intro x hx
      rcases mem_insRev.mp hx with rfl | hx
      · left; exact hgt
      · exact hy.1 x hx
    · rename_i hle
      refine List.pairwise_cons.mpr ⟨?_, hs⟩
      intro x hx
      have hxid := hid x hx
      have hxt : x.time ≤ y.time := by
        rcases List.mem_cons.mp hx with rfl | hx'
        · exact Nat.le_refl _
        · exact evLt_time_le (hy.1 x hx')
      unfold evLt; omega

theorem mem_bucketInsert {l : List Ev} {e x : Ev} : x ∈ bucketInsert l e ↔ x = e ∨ x ∈ l := by
  simp [bucketInsert, mem_insRev]

theorem bucketInsert_perm (l : List Ev) (e : Ev) : (bucketInsert l e).Perm (e :: l) := by
  unfold bucketInsert
  exact (List.reverse_perm _).trans ((insRev_perm _ _).trans (List.Perm.cons e (List.reverse_perm l)))

theorem bucketInsert_sorted {l : List Ev} {e : Ev}
    (hs : l.Pairwise evLt) (hid : ∀ x ∈ l, x.id < e.id) : (bucketInsert l e).Pairwise evLt := by
  unfold bucketInsert
  rw [List.pairwise_reverse]
  apply insRev_sorted
  · rw [List.pairwise_reverse]; exact hs
  · intro x hx; exact hid x (List.mem_reverse.mp hx)

/-! ### removeId / eraseId -/

theorem eraseId_eq_self {l : List Ev} {i : Nat} (h : ∀ x ∈ l, x.id ≠ i) : eraseId l i = l := by
  unfold eraseId
  exact List.filter_eq_self.mpr (fun x hx => by simpa using h x hx)

theorem removeId_none {l : List Ev} {i : Nat} : removeId l i = none ↔ ∀ x ∈ l, x.id ≠ i := by
  induction l with
  | nil => simp [removeId]
  | cons y ys ih =>
    unfold removeId
    split
    · rename_i h; simp [h]
    · rename_i h; simp [ih, h]

theorem removeId_some {l l' : List Ev} {i : Nat} (h : removeId l i = some l')
    (hnd : (l.map (·.id)).Nodup) : l' = eraseId l i ∧ ∃ x ∈ l, x.id = i := by
  induction l generalizing l' with
  | nil => simp [removeId] at h
  | cons y ys ih =>
    have hnd' : y.id ∉ ys.map (·.id) ∧ (ys.map (·.id)).Nodup := by
      rw [List.map_cons] at hnd; exact List.nodup_cons.mp hnd
    unfold removeId at h
    split at h
    · rename_i hy
      cases h
      refine ⟨?_, y, List.mem_cons_self, hy⟩
      have : ∀ x ∈ ys, x.id ≠ i := by
        intro x hx hxi
        apply hnd'.1
        rw [hy, ← hxi]; exact List.mem_map_of_mem hx
      have h2 := eraseId_eq_self this
      simp only [eraseId] at h2 ⊢
      simp only [hy, List.filter_cons, ne_eq, not_true_eq_false, decide_false, h2]
      simp
    · rename_i hy
      cases hr : removeId ys i with
      | none => simp [hr] at h
      | some r =>
        simp [hr] at h
        obtain ⟨h1, x, hx, hxi⟩ := ih hr hnd'.2
        subst h
        refine ⟨?_, x, List.mem_cons_of_mem _ hx, hxi⟩
        simp only [eraseId] at h1 ⊢
        simp only [List.filter_cons, ne_eq, hy, not_false_eq_true, decide_true, ← h1]
        simp

/-! ### flatten of modify / set -/

theorem flatten_modify_perm {l : List (List Ev)} {i : Nat} {f : List Ev → List Ev} {e : Ev}
    (hf : ∀ b, (f b).Perm (e :: b)) (hi : i < l.length) :
    (l.modify i f).flatten.Perm (e :: l.flatten) := by
  induction l generalizing i with
  | nil => simp at hi
  | cons b bs ih =>
    cases i with
    | zero =>
      simp only [List.modify_zero_cons, List.flatten_cons]
      exact (List.Perm.append_right _ (hf b))
    | succ i =>
      simp only [List.modify_succ_cons, List.flatten_cons]
      have := ih (i := i) (by simpa using hi)
      exact (List.Perm.append_left b this).trans (List.perm_middle)

theorem mem_modify_iff {l : List (List Ev)} {i : Nat} {f : List Ev → List Ev} {c : List Ev} :
    c ∈ l.modify i f → (c ∈ l ∨ ∃ b, l[i]? = some b ∧ c = f b) := by
  induction l generalizing i with
  | nil => simp
  | cons b bs ih =>
    cases i with
    | zero =>
      simp only [List.modify_zero_cons, List.mem_cons]
      rintro (rfl | h)
      · right; exact ⟨b, by simp, rfl⟩
      · left; right; exact h
    | succ i =>
      simp only [List.modify_succ_cons, List.mem_cons]
      rintro (rfl | h)
      · left; left; rfl
      · rcases ih h with h | ⟨b', hb', rfl⟩
        · left; right; exact h
        · right; exact ⟨b', by simpa using hb', rfl⟩

theorem flatten_filter_self {cs : List (List Ev)} (p : Ev → Bool)
    (h : ∀ c ∈ cs, c.filter p = c) : cs.flatten.filter p = cs.flatten := by
  induction cs with
  | nil => rfl
  | cons d ds ih =>
    simp only [List.flatten_cons, List.filter_append]
    rw [h d List.mem_cons_self, ih (fun c hc => h c (List.mem_cons_of_mem _ hc))]

theorem flatten_set_filter {l : List (List Ev)} {i : Nat} {b : List Ev} (p : Ev → Bool)
    (hb : l[i]? = some b)
    (hoth : ∀ j c, j ≠ i → l[j]? = some c → c.filter p = c) :
    (l.set i (b.filter p)).flatten = l.flatten.filter p := by
  induction l generalizing i with
  | nil => simp at hb
  | cons c cs ih =>
    cases i with
    | zero =>
      simp at hb; subst hb
      simp only [List.set_cons_zero, List.flatten_cons, List.filter_append]
      congr 1
      symm
      apply flatten_filter_self
      intro c' hc'
      obtain ⟨j, hj, rfl⟩ := List.getElem_of_mem hc'
      exact hoth (j+1) _ (by omega) (by simp [hj])
    | succ i =>
      simp only [List.set_cons_succ, List.flatten_cons, List.filter_append]
      rw [ih (i := i) (by simpa using hb)]
      · congr 1
        exact (hoth 0 c (by omega) (by simp)).symm
      · intro j c' hj hc'
        exact hoth (j+1) c' (by omega) (by simpa using hc')

/-! ### minEv -/

theorem foldl_min_eq {e : Ev} : ∀ (es : List Ev) (m : Ev), (m = e ∨ e ∈ es) →
    (∀ x ∈ m :: es, x ≠ e → evLt e x) →
    es.foldl (fun m x => if evLt x m then x else m) m = e := by
  intro es
  induction es with
  | nil => intro m h _; simpa using h
  | cons x es ih =>
    intro m h hall
    simp only [List.foldl_cons]
    apply ih
    · rcases h with rfl | h
      · by_cases hx : x = m
        · subst hx; left; split <;> rfl
        · have := hall x (by simp) hx
          left; rw [if_neg (evLt_asymm this)]
      · rcases List.mem_cons.mp h with rfl | h
        · by_cases hm : m = e
          · subst hm; left; split <;> rfl
          · have := hall m (by simp) hm
            left; rw [if_pos this]
        · right; exact h
    · intro y hy hne
      rcases List.mem_cons.mp hy with rfl | hy
      · by_cases hxm : evLt x m
        · rw [if_pos hxm] at hne ⊢; exact hall x (by simp) hne
        · rw [if_neg hxm] at hne ⊢; exact hall m (by simp) hne
      · exact hall y (by simp [hy]) hne

theorem minEv_eq {l : List Ev} {e : Ev} (he : e ∈ l) (hmin : ∀ x ∈ l, x ≠ e → evLt e x) :
    minEv l = some e := by
  cases l with
  | nil => cases he
  | cons m es =>
    simp only [minEv, Option.some.injEq]
    apply foldl_min_eq
    · rcases List.mem_cons.mp he with rfl | h
      · left; rfl
      · right; exact h
    · exact hmin

theorem minEv_none {l : List Ev} : minEv l = none ↔ l = [] := by
  cases l <;> simp [minEv]

/-! ### minTimeL -/

theorem foldl_minTime_mem : ∀ (es : List Ev) (m : Nat),
    (es.foldl (fun m x => min m x.time) m = m) ∨ ∃ x ∈ es, x.time = es.foldl (fun m x => min m x.time) m := by
  intro es
  induction es with
  | nil => intro m; left; rfl
  | cons x es ih =>
    intro m
    simp only [List.foldl_cons]
    rcases ih (min m x.time) with h | ⟨y, hy, hyt⟩
    · rw [h]
      by_cases hm : m ≤ x.time
      · left; exact Nat.min_eq_left hm
      · right; exact ⟨x, List.mem_cons_self, by rw [Nat.min_eq_right (by omega)]⟩
    · right; exact ⟨y, List.mem_cons_of_mem _ hy, hyt⟩

theorem minTimeL_mem {l : List Ev} (h : l ≠ []) : ∃ m ∈ l, m.time = minTimeL l := by
  cases l with
  | nil => exact absurd rfl h
  | cons e es =>
    simp only [minTimeL]
    rcases foldl_minTime_mem es e.time with h | ⟨x, hx, hxt⟩
    · exact ⟨e, List.mem_cons_self, h.symm⟩
    · exact ⟨x, List.mem_cons_of_mem _ hx, hxt⟩

end CQ
